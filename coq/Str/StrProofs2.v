(* Remaining read-only operations: generic_strlen / strnlen, compare, find_first_of. *)
From Coq Require Import List NArith ZArith Bool Lia Arith.
From Coq Require Import ZifyBool ZifyNat ZifyN.
From FV Require Import Common.EventLog Str.StrModel Str.StrProofs Str.StrNumProofs.
Import ListNotations.
Local Open Scope N_scope.

Section Ops2.
Variable m : mem.

(* ---- C strings: buffer b holds a NUL at offset o + n and none in [o, o+n) *)
Definition cstr_at (b : nat) (o n : N) : Prop :=
  exists l, mem_get m b = Some l /\ o + n < N.of_nat (length l) /\ bat l (o + n) = 0 /\
            forall j, j < n -> bat l (o + j) <> 0.

Lemma cstr_view_valid b o n : cstr_at b o n -> valid_view m (V b o (n + 1)).
Proof. intros (l & Hl & Hb & _). exists l. split; [assumption|lia]. Qed.
Lemma cstr_view_bat b o n i : cstr_at b o n -> i < n + 1 ->
  exists l, mem_get m b = Some l /\ bat (vtext m (V b o (n + 1))) i = bat l (o + i).
Proof. intros (l & Hl & Hb & _) Hi. exists l. split; [assumption|]. simpl. rewrite Hl. apply bat_sub_list. assumption. Qed.

Lemma strlen_loop_ok b o n k i : cstr_at b o n -> i <= n -> (N.to_nat (n - i) < k)%nat ->
  okR (strlen_loop m (P b o) k i) (fun r => r = n) (within (V b o (n + 1))).
Proof.
  intros Hc. pose proof (cstr_view_valid b o n Hc) as Hv.
  revert i; induction k as [|k IH]; intros i Hi Hk; [lia|]. cbn [strlen_loop].
  change (readp m (P b o) i) with (rd m (V b o (n + 1)) i).
  eapply okR_bind; [apply rd_ok; [exact Hv|simpl; lia]|]. intros x ->.
  destruct (cstr_view_bat b o n i Hc ltac:(lia)) as (l & Hl & ->).
  destruct Hc as (l' & Hl' & Hb & Hz & Hnz). rewrite Hl in Hl'. injection Hl' as <-.
  destruct (N.eqb_spec (bat l (o + i)) 0) as [E|E].
  - apply okR_ret. destruct (N.eq_dec i n) as [->|]; [reflexivity|]. exfalso. apply (Hnz i); [lia|assumption].
  - destruct (N.eq_dec i n) as [->|]; [contradiction|].
    apply IH; [lia|lia].
Qed.

Lemma strlen_ok b o n : cstr_at b o n ->
  okR (generic_strlen m (P b o)) (fun r => r = n) (within (V b o (n + 1))).
Proof.
  intros Hc. unfold generic_strlen, strlen_fuel, buf_len. apply strlen_loop_ok; [assumption|lia|].
  destruct Hc as (l & -> & Hb & _). lia.
Qed.

(* view(const char* ): the view is (p, strlen p), valid, and its text has no NUL *)
Lemma view_of_cstr_ok b o n : cstr_at b o n ->
  okR (view_of_cstr m (P b o)) (fun v => v = V b o n) (within (V b o (n + 1))).
Proof.
  intros Hc. unfold view_of_cstr. eapply okR_bind; [apply strlen_ok; exact Hc|]. intros r ->.
  apply okR_ret. reflexivity.
Qed.
Lemma cstr_text_valid b o n : cstr_at b o n -> valid_view m (V b o n).
Proof. intros (l & Hl & Hb & _). exists l. split; [assumption|lia]. Qed.

(* strnlen, case 1: the NUL at n bounds the scan *)
Lemma strnlen_loop_ok b o n max k i : cstr_at b o n -> i <= n -> i <= max -> (N.to_nat (n - i) < k)%nat ->
  okR (strnlen_loop m (P b o) max k i) (fun r => r = N.min max n) (within (V b o (N.min max (n + 1)))).
Proof.
  intros Hc. pose proof (cstr_view_valid b o n Hc) as Hv.
  revert i; induction k as [|k IH]; intros i Hi Hm Hk; [lia|]. cbn [strnlen_loop].
  destruct (N.ltb_spec i max) as [Hlt|Hge]; [|apply okR_ret; lia].
  change (readp m (P b o) i) with (rd m (V b o (n + 1)) i).
  eapply okR_bind; [eapply okR_weaken; [apply rd_ok_exact; [exact Hv|lia]|intros ? E; exact E|]|].
  { intros r ->. simpl. repeat split; lia. }
  intros x ->.
  destruct (cstr_view_bat b o n i Hc ltac:(lia)) as (l & Hl & ->).
  pose proof Hc as (l' & Hl' & Hb & Hz & Hnz). rewrite Hl in Hl'. injection Hl' as <-.
  destruct (N.eqb_spec (bat l (o + i)) 0) as [E|E].
  - apply okR_ret. destruct (N.eq_dec i n) as [->|]; [lia|]. exfalso. apply (Hnz i); [lia|assumption].
  - destruct (N.eq_dec i n) as [->|]; [contradiction|]. apply IH; lia.
Qed.
Lemma strnlen_ok b o n max : cstr_at b o n ->
  okR (generic_strnlen m (P b o) max) (fun r => r = N.min max n) (within (V b o (N.min max (n + 1)))).
Proof.
  intros Hc. unfold generic_strnlen, strlen_fuel, buf_len. apply strnlen_loop_ok; [assumption|lia|lia|].
  destruct Hc as (l & -> & Hb & _). lia.
Qed.

(* strnlen, case 2: no NUL among the first max bytes of a valid view of max bytes *)
Lemma strnlen_loop_nonul b o max k i : valid_view m (V b o max) ->
  (forall j, j < max -> bat (vtext m (V b o max)) j <> 0) -> i <= max -> (N.to_nat (max - i) < k)%nat ->
  okR (strnlen_loop m (P b o) max k i) (fun r => r = max) (within (V b o max)).
Proof.
  intros Hv Hnz. revert i; induction k as [|k IH]; intros i Hi Hk; [lia|]. cbn [strnlen_loop].
  destruct (N.ltb_spec i max) as [Hlt|Hge]; [|apply okR_ret; lia].
  change (readp m (P b o) i) with (rd m (V b o max) i).
  eapply okR_bind; [apply rd_ok; [exact Hv|simpl; lia]|]. intros x ->.
  destruct (N.eqb_spec (bat (vtext m (V b o max)) i) 0) as [E|E]; [exfalso; apply (Hnz i); assumption|].
  apply IH; lia.
Qed.
Lemma strnlen_nonul_ok b o max : valid_view m (V b o max) ->
  (forall j, j < max -> bat (vtext m (V b o max)) j <> 0) ->
  okR (generic_strnlen m (P b o) max) (fun r => r = max) (within (V b o max)).
Proof.
  intros Hv Hnz. unfold generic_strnlen, strlen_fuel, buf_len. apply strnlen_loop_nonul; [assumption|assumption|lia|].
  destruct Hv as (l & -> & Hb). lia.
Qed.

(* ---- compare: length first, then the first differing character, compared as the character type compares *)
Fixpoint cmp_lists (ct : cty) (a b : list byte) : Z :=
  match a, b with
  | x :: a', y :: b' => if x =? y then cmp_lists ct a' b' else if (sval ct x <? sval ct y)%Z then (-1)%Z else 1%Z
  | _, _ => 0%Z
  end.
Definition cmp_ref (ct : cty) (a b : list byte) : Z :=
  if N.of_nat (length a) =? N.of_nat (length b) then cmp_lists ct a b
  else if N.of_nat (length a) <? N.of_nat (length b) then (-1)%Z else 1%Z.

Lemma cmp_loop_ok ct a b k i : valid_view m a -> valid_view m b -> vlen a = vlen b -> i + N.of_nat k = vlen a ->
  okR (cmp_loop_g m ct a (vptr b) k i)
      (fun r => r = cmp_lists ct (skipn (N.to_nat i) (vtext m a)) (skipn (N.to_nat i) (vtext m b))) (either a b).
Proof.
  intros Ha Hb Hl. pose proof (vtext_length m a Ha) as La. pose proof (vtext_length m b Hb) as Lb.
  revert i; induction k as [|k IH]; intros i Hk; cbn [cmp_loop_g].
  - apply okR_ret. rewrite !skipn_all2 by lia. reflexivity.
  - eapply okR_bind; [eapply okR_weaken; [apply rd_ok; [exact Ha|lia]|intros ? E; exact E|intros ? E; left; exact E]|].
    intros x ->. change (readp m (vptr b) i) with (rd m b i).
    eapply okR_bind; [eapply okR_weaken; [apply rd_ok; [exact Hb|lia]|intros ? E; exact E|intros ? E; right; exact E]|].
    intros y ->.
    rewrite (skipn_cons_bat (vtext m a) i) by lia. rewrite (skipn_cons_bat (vtext m b) i) by lia. cbn [cmp_lists].
    destruct (bat (vtext m a) i =? bat (vtext m b) i); [apply IH; lia|apply okR_ret; reflexivity].
Qed.
Lemma compare_len_ok ct a b : valid_view m a -> valid_view m b ->
  okR (compare_len_g m ct a (vptr b) (vlen b)) (fun r => r = cmp_ref ct (vtext m a) (vtext m b)) (either a b).
Proof.
  intros Ha Hb. unfold compare_len_g, cmp_ref. rewrite !vtext_length by assumption.
  destruct (N.eqb_spec (vlen a) (vlen b)) as [E|E].
  - eapply okR_weaken; [apply cmp_loop_ok; try assumption; lia| |auto]. intros r ->. reflexivity.
  - apply okR_ret. reflexivity.
Qed.

(* the char-named definitions (referred to by the translator tie) are the instance Char = char *)
Lemma sval_char x : sval char_t x = schar x.
Proof. unfold sval, schar, char_t. cbn [c_signed c_bits andb]. change (2 ^ (8 - 1)) with 128. change (Z.of_N (2 ^ 8)) with 256%Z.
  destruct (N.leb_spec 128 x); destruct (N.ltb_spec x 128); try lia; reflexivity. Qed.
Lemma cmp_loop_g_char a bp k i : cmp_loop_g m char_t a bp k i = cmp_loop m a bp k i.
Proof.
  revert i; induction k as [|k IH]; intros i; cbn [cmp_loop_g cmp_loop]; [reflexivity|].
  unfold bindR. destruct (rd m a i) as [[x|?|?|] l1]; try reflexivity.
  destruct (readp m bp i) as [[y|?|?|] l2]; try reflexivity.
  rewrite !sval_char, IH. reflexivity.
Qed.
Lemma compare_len_g_char a bp n : compare_len_g m char_t a bp n = compare_len m a bp n.
Proof. unfold compare_len_g, compare_len. rewrite cmp_loop_g_char. reflexivity. Qed.

(* what the reference means *)
Lemma cmp_lists_zero ct a b : length a = length b -> (cmp_lists ct a b = 0%Z <-> a = b).
Proof.
  revert b; induction a as [|x a IH]; intros [|y b] Hl; simpl in Hl; try discriminate; [tauto|].
  cbn [cmp_lists]. destruct (N.eqb_spec x y) as [->|E].
  - rewrite IH by lia. split; [intros ->; reflexivity|intros H; injection H; auto].
  - split; [destruct (sval ct x <? sval ct y)%Z; discriminate|intros H; injection H; intros; contradiction].
Qed.
Lemma cmp_ref_zero ct a b : cmp_ref ct a b = 0%Z <-> a = b.
Proof.
  unfold cmp_ref. destruct (N.eqb_spec (N.of_nat (length a)) (N.of_nat (length b))) as [E|E].
  - apply cmp_lists_zero. lia.
  - split; [destruct (N.of_nat (length a) <? N.of_nat (length b)); discriminate|intros ->; contradiction].
Qed.

(* ---- find_first_of *)
Definition ffo_spec (t chars : list byte) (start r : N) : Prop :=
  (r = MAX64 /\ forall j, start <= j -> j < N.of_nat (length t) -> ~ In (bat t j) chars) \/
  (start <= r /\ r < N.of_nat (length t) /\ In (bat t r) chars /\
   forall j, start <= j -> j < r -> ~ In (bat t j) chars).

Lemma In_bat (l : list byte) x : In x l <-> exists q, q < N.of_nat (length l) /\ bat l q = x.
Proof.
  split.
  - intros H. destruct (In_nth l x 0 H) as (q & Hq & E). exists (N.of_nat q). split; [lia|]. unfold bat. rewrite Nat2N.id. exact E.
  - intros (q & Hq & <-). unfold bat. apply nth_In. lia.
Qed.

Lemma ffo_inner_ok v chars i k j : valid_view m v -> valid_view m chars -> i < vlen v -> j + N.of_nat k = vlen chars ->
  okR (ffo_inner m v chars i k j)
      (fun hit => hit = true <-> exists q, j <= q /\ q < vlen chars /\ bat (vtext m chars) q = bat (vtext m v) i)
      (either v chars).
Proof.
  intros Hv Hc Hi. revert j; induction k as [|k IH]; intros j Hk; cbn [ffo_inner].
  - apply okR_ret. split; [discriminate|]. intros (q & H1 & H2 & _). lia.
  - eapply okR_bind; [eapply okR_weaken; [apply rd_ok; [exact Hv|lia]|intros ? E; exact E|intros ? E; left; exact E]|].
    intros x ->.
    eapply okR_bind; [eapply okR_weaken; [apply rd_ok; [exact Hc|lia]|intros ? E; exact E|intros ? E; right; exact E]|].
    intros y ->.
    destruct (N.eqb_spec (bat (vtext m v) i) (bat (vtext m chars) j)) as [E|E].
    + apply okR_ret. split; [|reflexivity]. intros _. exists j. repeat split; [lia|lia|symmetry; assumption].
    + eapply okR_weaken; [apply IH; lia| |auto]. intros hit [H1 H2]. split.
      * intros Hh. destruct (H1 Hh) as (q & A & B & C). exists q. repeat split; [lia|assumption|assumption].
      * intros (q & A & B & C). apply H2. exists q. repeat split; try assumption.
        destruct (N.eq_dec q j) as [->|]; [exfalso; apply E; symmetry; assumption|lia].
Qed.

Lemma ffo_loop_ok v chars k i : valid_view m v -> valid_view m chars -> i + N.of_nat k = vlen v ->
  okR (ffo_loop m v chars k i) (ffo_spec (vtext m v) (vtext m chars) i) (either v chars).
Proof.
  intros Hv Hc. pose proof (vtext_length m v Hv) as Lv. pose proof (vtext_length m chars Hc) as Lc.
  revert i; induction k as [|k IH]; intros i Hk; cbn [ffo_loop].
  - apply okR_ret. left. split; [reflexivity|]. intros j H1 H2. lia.
  - eapply okR_bind; [apply ffo_inner_ok; [assumption|assumption|lia|lia]|]. intros hit Hhit. cbv beta.
    assert (Hin : hit = true <-> In (bat (vtext m v) i) (vtext m chars)).
    { rewrite Hhit, In_bat. split.
      - intros (q & A & B & C). exists q. split; [lia|assumption].
      - intros (q & A & B). exists q. repeat split; [lia|lia|assumption]. }
    destruct hit.
    + apply okR_ret. right. repeat split; [lia|lia|apply Hin; reflexivity|]. intros j H1 H2. lia.
    + assert (Hni : ~ In (bat (vtext m v) i) (vtext m chars)) by (intros H; apply Hin in H; discriminate).
      eapply okR_weaken; [apply IH; lia| |auto].
      intros r [[-> Hn]|(H1 & H2 & H3 & H4)].
      * left. split; [reflexivity|]. intros j Hj1 Hj2. destruct (N.eq_dec j i) as [->|]; [assumption|apply Hn; lia].
      * right. repeat split; try lia; try assumption. intros j Hj1 Hj2.
        destruct (N.eq_dec j i) as [->|]; [assumption|apply H4; lia].
Qed.
Lemma find_first_of_ok v chars start : valid_view m v -> valid_view m chars ->
  okR (find_first_of m v chars start) (ffo_spec (vtext m v) (vtext m chars) start) (either v chars).
Proof.
  intros Hv Hc. unfold find_first_of. pose proof (vtext_length m v Hv) as HL.
  destruct (N.le_gt_cases start (vlen v)) as [H|H].
  - apply ffo_loop_ok; [assumption|assumption|lia].
  - replace (N.to_nat (vlen v - start)) with 0%nat by lia. cbn [ffo_loop]. apply okR_ret.
    left. split; [reflexivity|]. intros j H1 H2. lia.
Qed.
End Ops2.

(* ---- element ranges as byte ranges: every range is in elements of sizeof(Char) = cw ct bytes; a read range that
   lies within a view covers, in bytes, [cw*ro, cw*(ro+rn)) inside the view's bytes [cw*off, cw*(off+len)) and
   inside the buffer's cw * length bytes -- for every character width *)
Lemma reads_in_bounds_bytes (ct : cty) (m : mem) b off len r : valid_view m (V b off len) -> within (V b off len) r ->
  exists l, mem_get m (rb r) = Some l /\
            cw ct * off <= cw ct * ro r /\ cw ct * ro r + cw ct * rn r <= cw ct * (off + len) /\
            cw ct * (off + len) <= cw ct * N.of_nat (length l).
Proof.
  simpl. intros (l & Hl & Hb) (E & H1 & H2). subst b. exists l. split; [exact Hl|].
  rewrite <- N.mul_add_distr_l. repeat split; apply N.mul_le_mono_l; assumption.
Qed.
