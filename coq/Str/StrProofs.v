(* Proofs about the read-only part of Str/StrModel.v: every view operation, run on a valid view,
   ends in Ok with the list-level reference result and reads only inside the view(s) it was given. *)
From Coq Require Import List NArith ZArith Bool Lia Arith.
From Coq Require Import ZifyBool ZifyNat ZifyN.
From FV Require Import Common.EventLog Str.StrModel.
Import ListNotations.
Local Open Scope N_scope.

(* ---- lists *)
Lemma nth_skipn_add {A} (l : list A) o i d : nth i (skipn o l) d = nth (o + i) l d.
Proof. revert l; induction o as [|o IH]; intros l; [reflexivity|]. destruct l; [destruct i; reflexivity|]. apply IH. Qed.
Lemma nth_firstn_lt {A} (l : list A) n i d : (i < n)%nat -> nth i (firstn n l) d = nth i l d.
Proof. revert l i; induction n as [|n IH]; intros l i H; [lia|]. destruct l; [reflexivity|]. destruct i; [reflexivity|]. simpl. apply IH; lia. Qed.
Lemma length_sub_list {A} (l : list A) off n :
  off + n <= N.of_nat (length l) -> length (sub_list l off n) = N.to_nat n.
Proof. intros H. unfold sub_list. rewrite firstn_length, skipn_length. lia. Qed.

Lemma skipn_skipn_add {A} (l : list A) a b : skipn a (skipn b l) = skipn (b + a) l.
Proof. revert l; induction b as [|b IH]; intros l; [reflexivity|]. destruct l; [destruct a; reflexivity|]. apply IH. Qed.

Definition bat (l : list byte) (i : N) : byte := nth (N.to_nat i) l 0.

Lemma bat_sub_list l off n i : i < n -> bat (sub_list l off n) i = bat l (off + i).
Proof. intros H. unfold bat, sub_list. rewrite nth_firstn_lt by lia. rewrite nth_skipn_add. f_equal. lia. Qed.

(* ---- valid views, where reads may fall *)
Definition valid_view (m : mem) (v : view) : Prop :=
  match v with
  | VNull => True
  | V b off len => exists l, mem_get m b = Some l /\ off + len <= N.of_nat (length l)
  end.
Definition within (v : view) (r : range) : Prop :=
  match v with
  | VNull => False
  | V b off len => rb r = b /\ off <= ro r /\ ro r + rn r <= off + len
  end.
Definition in_mem (m : mem) (r : range) : Prop :=
  exists l, mem_get m (rb r) = Some l /\ ro r + rn r <= N.of_nat (length l).
Definition vtext := view_text.

Lemma within_in_mem m v r : valid_view m v -> within v r -> in_mem m r.
Proof. destruct v as [|b off len]; simpl; [tauto|]. intros (l & Hl & Hb) (H1 & H2 & H3). exists l. subst b. split; [assumption|lia]. Qed.

Lemma vtext_length m v : valid_view m v -> N.of_nat (length (vtext m v)) = vlen v.
Proof. destruct v as [|b off len]; simpl; [reflexivity|]. intros (l & Hl & Hb). rewrite Hl, length_sub_list by assumption. lia. Qed.

(* ---- the safety/refinement predicate on R computations *)
Definition okR {A} (c : R A) (Q : A -> Prop) (B : range -> Prop) : Prop :=
  exists a l, c = (Ok a, l) /\ Q a /\ Forall B l.
(* same, but the computation may also stop in the assertion hook *)
Definition safeR {A} (c : R A) (Q : A -> Prop) (B : range -> Prop) : Prop :=
  match c with
  | (Ok a, l) => Q a /\ Forall B l
  | (AssertStop _, l) => Forall B l
  | _ => False
  end.

Lemma okR_ret {A} (a : A) (Q : A -> Prop) B : Q a -> okR (retR a) Q B.
Proof. intros H. exists a, []. repeat split; [assumption|constructor]. Qed.
Lemma okR_bind {A C} (c : R A) (f : A -> R C) Q1 Q2 B :
  okR c Q1 B -> (forall a, Q1 a -> okR (f a) Q2 B) -> okR (bindR c f) Q2 B.
Proof.
  intros (a & l & -> & Ha & Hl) Hf. destruct (Hf a Ha) as (x & l' & E & Hx & Hl').
  exists x, (l ++ l'). unfold bindR. rewrite E. repeat split; [assumption|]. apply Forall_app; split; assumption.
Qed.
Lemma okR_weaken {A} (c : R A) (Q1 Q2 : A -> Prop) (B1 B2 : range -> Prop) :
  okR c Q1 B1 -> (forall a, Q1 a -> Q2 a) -> (forall r, B1 r -> B2 r) -> okR c Q2 B2.
Proof. intros (a & l & -> & Ha & Hl) HQ HB. exists a, l. repeat split; [auto|]. eapply Forall_impl; eauto. Qed.
Lemma okR_safeR {A} (c : R A) Q B : okR c Q B -> safeR c Q B.
Proof. intros (a & l & -> & Ha & Hl). simpl. auto. Qed.
Lemma safeR_ret {A} (a : A) (Q : A -> Prop) B : Q a -> safeR (retR a) Q B.
Proof. intros H. simpl. split; [assumption|constructor]. Qed.
Lemma safeR_bind {A C} (c : R A) (f : A -> R C) Q1 Q2 B :
  safeR c Q1 B -> (forall a, Q1 a -> safeR (f a) Q2 B) -> safeR (bindR c f) Q2 B.
Proof.
  unfold safeR, bindR. destruct c as [[a|w|w|] l]; simpl; try tauto.
  intros [Ha Hl] Hf. specialize (Hf a Ha). destruct (f a) as [[x|w|w|] l']; try tauto.
  - destruct Hf. split; [assumption|apply Forall_app; split; assumption].
  - apply Forall_app; split; assumption.
Qed.
Lemma safeR_weaken {A} (c : R A) (Q1 Q2 : A -> Prop) (B1 B2 : range -> Prop) :
  safeR c Q1 B1 -> (forall a, Q1 a -> Q2 a) -> (forall r, B1 r -> B2 r) -> safeR c Q2 B2.
Proof.
  unfold safeR. destruct c as [[a|w|w|] l]; try tauto.
  - intros [Ha Hl] HQ HB. split; [auto|eapply Forall_impl; eauto].
  - intros Hl _ HB. eapply Forall_impl; eauto.
Qed.

(* ---- the primitive read *)
Lemma rd_ok m v i : valid_view m v -> i < vlen v ->
  okR (rd m v i) (fun x => x = bat (vtext m v) i) (within v).
Proof.
  destruct v as [|b off len]; simpl; [lia|]. intros (l & Hl & Hb) Hi.
  unfold rd, readp, read. simpl. rewrite Hl.
  destruct (nth_error l (N.to_nat (off + i))) as [x|] eqn:E.
  - exists x, [mkR b (off + i) 1]. repeat split.
    + rewrite bat_sub_list by assumption. unfold bat. symmetry. apply nth_error_nth. assumption.
    + constructor; [|constructor]. simpl. repeat split; lia.
  - apply nth_error_None in E. lia.
Qed.

Lemma rd_ok_exact m b off len i : valid_view m (V b off len) -> i < len ->
  okR (rd m (V b off len) i) (fun x => x = bat (vtext m (V b off len)) i) (fun r => r = mkR b (off + i) 1).
Proof.
  simpl. intros (l & Hl & Hb) Hi.
  unfold rd, readp, read. simpl. rewrite Hl.
  destruct (nth_error l (N.to_nat (off + i))) as [x|] eqn:E.
  - exists x, [mkR b (off + i) 1]. repeat split.
    + rewrite bat_sub_list by assumption. unfold bat. symmetry. apply nth_error_nth. assumption.
    + constructor; [reflexivity|constructor].
  - apply nth_error_None in E. lia.
Qed.

Section Ops.
Variable m : mem.

Ltac bind_rd H :=
  eapply okR_bind; [eapply okR_weaken; [apply rd_ok; [exact H|lia]| intros ? E; exact E | intros ? E; simpl; auto]|].

(* ---- find_first *)
Definition first_at (t : list byte) (c : byte) (lo r : N) : Prop :=
  lo <= r /\ r < N.of_nat (length t) /\ bat t r = c /\ forall j, lo <= j -> j < r -> bat t j <> c.
Definition none_from (t : list byte) (c : byte) (lo : N) : Prop :=
  forall j, lo <= j -> j < N.of_nat (length t) -> bat t j <> c.
Definition ff_spec (t : list byte) (c : byte) (start r : N) : Prop :=
  (r = MAX64 /\ none_from t c start) \/ first_at t c start r.

Lemma ff_loop_ok v c k i : valid_view m v -> i + N.of_nat k = vlen v ->
  okR (ff_loop m v c k i) (ff_spec (vtext m v) c i) (within v).
Proof.
  intros Hv. pose proof (vtext_length m v Hv) as HL.
  revert i; induction k as [|k IH]; intros i Hk; cbn [ff_loop].
  - apply okR_ret. left. split; [reflexivity|]. intros j H1 H2. lia.
  - bind_rd Hv. intros x ->. destruct (N.eqb_spec (bat (vtext m v) i) c) as [E|E].
    + apply okR_ret. right. repeat split; try lia; try assumption.
    + eapply okR_weaken; [apply IH; lia| |auto].
      intros r [[-> Hn]|(H1 & H2 & H3 & H4)].
      * left. split; [reflexivity|]. intros j Hj1 Hj2. destruct (N.eq_dec j i) as [->|]; [assumption|apply Hn; lia].
      * right. repeat split; try lia; try assumption. intros j Hj1 Hj2. destruct (N.eq_dec j i) as [->|]; [assumption|apply H4; lia].
Qed.

Lemma find_first_ok v c start : valid_view m v ->
  okR (find_first m v c start) (ff_spec (vtext m v) c start) (within v).
Proof.
  intros Hv. unfold find_first. pose proof (vtext_length m v Hv) as HL.
  destruct (N.le_gt_cases start (vlen v)) as [H|H].
  - apply ff_loop_ok; [assumption|lia].
  - replace (N.to_nat (vlen v - start)) with 0%nat by lia. cbn [ff_loop]. apply okR_ret.
    left. split; [reflexivity|]. intros j H1 H2. lia.
Qed.

(* what the callers use: the result is size_t(-1) or an index inside the view *)
Lemma ff_spec_range t c s r : ff_spec t c s r -> r = MAX64 \/ r < N.of_nat (length t).
Proof. intros [[-> _]|(_ & H & _)]; auto. Qed.

(* ---- find_last *)
Definition fl_spec (t : list byte) (c : byte) (hi r : N) : Prop :=
  (r = MAX64 /\ forall j, j < hi -> bat t j <> c) \/
  (r < hi /\ bat t r = c /\ forall j, r < j -> j < hi -> bat t j <> c).

Lemma fl_loop_ok v c k : valid_view m v -> N.of_nat k <= vlen v ->
  okR (fl_loop m v c k) (fl_spec (vtext m v) c (N.of_nat k)) (within v).
Proof.
  intros Hv. induction k as [|k IH]; intros Hk; cbn [fl_loop].
  - apply okR_ret. left. split; [reflexivity|]. intros j Hj. lia.
  - bind_rd Hv. intros x ->. destruct (N.eqb_spec (bat (vtext m v) (N.of_nat k)) c) as [E|E].
    + apply okR_ret. right. repeat split; [lia|assumption|]. intros j H1 H2. lia.
    + eapply okR_weaken; [apply IH; lia| |auto].
      intros r [[-> Hn]|(H1 & H2 & H3)].
      * left. split; [reflexivity|]. intros j Hj. destruct (N.eq_dec j (N.of_nat k)) as [->|]; [assumption|apply Hn; lia].
      * right. repeat split; [lia|assumption|]. intros j Hj1 Hj2.
        destruct (N.eq_dec j (N.of_nat k)) as [->|]; [assumption|apply H3; lia].
Qed.
Lemma find_last_ok v c : valid_view m v ->
  okR (find_last m v c) (fl_spec (vtext m v) c (vlen v)) (within v).
Proof.
  intros Hv. unfold find_last. replace (vlen v) with (N.of_nat (N.to_nat (vlen v))) at 2 by lia.
  apply fl_loop_ok; [assumption|lia].
Qed.

(* ---- operator== *)
Definition either (a b : view) (r : range) : Prop := within a r \/ within b r.

Lemma eq_loop_ok a b k i : valid_view m a -> valid_view m b -> i + N.of_nat k = vlen a -> vlen a = vlen b ->
  okR (eq_loop m a b k i)
      (fun r => r = true <-> forall j, i <= j -> j < vlen a -> bat (vtext m a) j = bat (vtext m b) j) (either a b).
Proof.
  intros Ha Hb. revert i; induction k as [|k IH]; intros i Hk Hl; cbn [eq_loop].
  - apply okR_ret. split; [intros _ j H1 H2; lia|reflexivity].
  - eapply okR_bind; [eapply okR_weaken; [apply rd_ok; [exact Ha|lia]|intros ? E; exact E|intros ? E; left; exact E]|].
    intros x ->.
    eapply okR_bind; [eapply okR_weaken; [apply rd_ok; [exact Hb|lia]|intros ? E; exact E|intros ? E; right; exact E]|].
    intros y ->.
    destruct (N.eqb_spec (bat (vtext m a) i) (bat (vtext m b) i)) as [E|E].
    + eapply okR_weaken; [apply IH; [lia|assumption]| |auto].
      intros r [H1 H2]. split.
      * intros Hr j Hj1 Hj2. destruct (N.eq_dec j i) as [->|]; [assumption|apply H1; [assumption|lia|lia]].
      * intros H. apply H2. intros j Hj1 Hj2. apply H; lia.
    + apply okR_ret. split; [discriminate|]. intros H. exfalso. apply E. apply H; lia.
Qed.

Lemma list_eq_bat (s t : list byte) : length s = length t ->
  (forall j, j < N.of_nat (length s) -> bat s j = bat t j) -> s = t.
Proof.
  revert t; induction s as [|x s IH]; intros [|y t] Hl H; simpl in Hl; try discriminate; [reflexivity|].
  f_equal.
  - specialize (H 0). unfold bat in H. simpl in H. apply H. lia.
  - apply IH; [lia|]. intros j Hj. specialize (H (j + 1)). unfold bat in *.
    replace (N.to_nat (j + 1)) with (S (N.to_nat j)) in H by lia. simpl in H. apply H. simpl. lia.
Qed.

Lemma view_eq_ok a b : valid_view m a -> valid_view m b ->
  okR (view_eq m a b) (fun r => r = true <-> vtext m a = vtext m b) (either a b).
Proof.
  intros Ha Hb. unfold view_eq.
  pose proof (vtext_length m a Ha) as La. pose proof (vtext_length m b Hb) as Lb.
  destruct (N.eqb_spec (vlen a) (vlen b)) as [E|E].
  - eapply okR_weaken; [apply eq_loop_ok; try assumption; lia| |auto].
    intros r [H1 H2]. split.
    + intros Hr. apply list_eq_bat; [lia|]. intros j Hj. apply H1; [assumption|lia|lia].
    + intros Ht. apply H2. intros j _ _. rewrite Ht. reflexivity.
  - apply okR_ret. split; [discriminate|]. intros Ht. exfalso. apply E. rewrite <- La, <- Lb, Ht. reflexivity.
Qed.

(* ---- sub_string *)
Definition sub_view (v : view) (from size : N) : view := mkview (padd (vptr v) from) size.
Lemma sub_view_valid v from size : valid_view m v -> from <= vlen v -> size <= vlen v - from ->
  valid_view m (sub_view v from size).
Proof.
  destruct v as [|b off len]; simpl; [trivial|]. intros (l & Hl & Hb) H1 H2. exists l. split; [assumption|lia].
Qed.
Lemma sub_view_text v from size : valid_view m v -> from <= vlen v -> size <= vlen v - from ->
  vtext m (sub_view v from size) = sub_list (vtext m v) from size.
Proof.
  destruct v as [|b off len]; simpl.
  - intros _ H1 H2. assert (from = 0) by lia. assert (size = 0) by lia. subst. reflexivity.
  - intros (l & Hl & Hb) H1 H2. rewrite Hl. unfold sub_list.
    rewrite skipn_firstn_comm. rewrite firstn_firstn. rewrite skipn_skipn_add.
    f_equal; [lia|]. f_equal. lia.
Qed.
Lemma sub_view_within v from size r : from <= vlen v -> size <= vlen v - from ->
  within (sub_view v from size) r -> within v r.
Proof. destruct v as [|b off len]; simpl; [tauto|]. intros H1 H2 (A & B & C). repeat split; lia. Qed.

Lemma sub_string_safe v from size (B : range -> Prop) :
  safeR (sub_string v from size)
        (fun s => s = sub_view v from size /\ from <= vlen v /\ size <= vlen v - from) B.
Proof.
  unfold sub_string, sub_string_with, chk_safe.
  destruct (N.leb_spec from (vlen v)) as [H1|H1]; destruct (N.leb_spec size (vlen v - from)) as [H2|H2]; simpl.
  1: split; [auto|constructor].
  all: constructor.
Qed.
Lemma sub_string_ok v from size (B : range -> Prop) : from <= vlen v -> size <= vlen v - from ->
  okR (sub_string v from size) (fun s => s = sub_view v from size) B.
Proof.
  intros H1 H2. unfold sub_string, sub_string_with, chk_safe.
  destruct (N.leb_spec from (vlen v)); [|lia]. destruct (N.leb_spec size (vlen v - from)); [|lia].
  simpl. apply okR_ret. reflexivity.
Qed.
(* the assertion stops exactly the requests that do not lie inside the view *)
Lemma sub_string_stops v from size : ~ (from <= vlen v /\ size <= vlen v - from) ->
  sub_string v from size = (AssertStop a_sub_string, []).
Proof.
  intros H. unfold sub_string, sub_string_with, chk_safe.
  destruct (N.leb_spec from (vlen v)); destruct (N.leb_spec size (vlen v - from)); simpl; try reflexivity. lia.
Qed.

(* ---- starts_with / ends_with *)
Definition is_prefix (p t : list byte) : Prop := exists r, t = p ++ r.
Definition is_suffix (p t : list byte) : Prop := exists r, t = r ++ p.

Lemma firstn_prefix (p t : list byte) : firstn (length p) t = p <-> is_prefix p t.
Proof.
  split.
  - intros H. exists (skipn (length p) t). rewrite <- H at 1. symmetry. apply firstn_skipn.
  - intros (r & ->). rewrite firstn_app, Nat.sub_diag, firstn_all. simpl. apply app_nil_r.
Qed.
Lemma skipn_suffix (p t : list byte) : (length p <= length t)%nat ->
  (skipn (length t - length p) t = p <-> is_suffix p t).
Proof.
  intros Hl. split.
  - intros H. exists (firstn (length t - length p) t). rewrite <- H at 2. symmetry. apply firstn_skipn.
  - intros (r & ->). rewrite app_length. replace (length r + length p - length p)%nat with (length r) by lia.
    rewrite skipn_app, Nat.sub_diag, skipn_all. reflexivity.
Qed.

Lemma starts_with_ok v o : valid_view m v -> valid_view m o ->
  okR (starts_with m v o) (fun r => r = true <-> is_prefix (vtext m o) (vtext m v)) (either v o).
Proof.
  intros Hv Ho. unfold starts_with.
  pose proof (vtext_length m v Hv) as Lv. pose proof (vtext_length m o Ho) as Lo.
  destruct (N.ltb_spec (vlen v) (vlen o)) as [H|H].
  - apply okR_ret. split; [discriminate|]. intros (r & E). rewrite E, app_length in Lv. lia.
  - eapply okR_bind; [apply sub_string_ok with (B := either v o); lia|]. intros s ->.
    eapply okR_weaken; [apply view_eq_ok; [apply sub_view_valid; [assumption|lia|lia]|assumption]| |].
    + intros r Hr. rewrite Hr. rewrite sub_view_text by (try assumption; lia).
      unfold sub_list. simpl. replace (N.to_nat (vlen o)) with (length (vtext m o)) by lia. apply firstn_prefix.
    + intros r [Hr|Hr]; [left|right; assumption]. eapply sub_view_within; [| |exact Hr]; lia.
Qed.

Lemma ends_with_ok v o : valid_view m v -> valid_view m o ->
  okR (ends_with m v o) (fun r => r = true <-> is_suffix (vtext m o) (vtext m v)) (either v o).
Proof.
  intros Hv Ho. unfold ends_with.
  pose proof (vtext_length m v Hv) as Lv. pose proof (vtext_length m o Ho) as Lo.
  destruct (N.ltb_spec (vlen v) (vlen o)) as [H|H].
  - apply okR_ret. split; [discriminate|]. intros (r & E). rewrite E, app_length in Lv. lia.
  - eapply okR_bind; [apply sub_string_ok with (B := either v o); lia|]. intros s ->.
    eapply okR_weaken; [apply view_eq_ok; [apply sub_view_valid; [assumption|lia|lia]|assumption]| |].
    + intros r Hr. rewrite Hr. rewrite sub_view_text by (try assumption; lia).
      unfold sub_list.
      replace (N.to_nat (vlen v - vlen o)) with (length (vtext m v) - length (vtext m o))%nat by lia.
      rewrite firstn_all2 by (rewrite skipn_length; lia). apply skipn_suffix. lia.
    + intros r [Hr|Hr]; [left|right; assumption]. eapply sub_view_within; [| |exact Hr]; lia.
Qed.

End Ops.
