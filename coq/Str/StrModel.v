(* Executable model of frg::basic_string_view / frg::basic_string (include/frg/string.hpp, Char = char)
   and the string hashes, AS THE CODE IS in /repo (after the fix: commits for D11, D12, D15, D32).
   Definitions only; proofs are in StrProofs*.v.

   Memory is a finite map of buffers with EXACT lengths.  A view is (buf, off, len) or null; a
   string is {buf : option id; len} whose buffer has len+1 bytes.  Every byte the C++ reads from a
   source goes through [read]/[read_range]: the read is logged and is [UB oob] outside the buffer.
   View operations are computations in the writer monad [R] (result + list of read ranges) over a
   fixed memory; owning-string operations are in the state monad [M] (memory, id counter, read log,
   allocation event log of Common/EventLog.v). *)
From Coq Require Import List NArith ZArith Bool.
From FV Require Import Common.EventLog.
Import ListNotations.
Local Open Scope N_scope.

Definition byte := N.                       (* one CHARACTER (element) of the string: 0..2^bits-1; "byte" for Char = char *)
(* the character type Char: width and signedness (char, wchar_t signed; char16_t, char32_t unsigned on x86-64).
   Memory, views, offsets, lengths and read ranges are all in ELEMENTS; cw converts to bytes. *)
Record cty := mkC { c_bits : N; c_signed : bool }.
Definition char_t : cty := mkC 8 true.
Definition char16_t : cty := mkC 16 false.
Definition char32_t : cty := mkC 32 false.
Definition wchar_t : cty := mkC 32 true.
Definition cw (ct : cty) : N := c_bits ct / 8.          (* sizeof(Char) *)
Definition mem := list (nat * list byte).   (* buffer id -> contents; the length is exact *)
Definition MAX64 : N := 18446744073709551615.   (* size_t(-1) *)
Definition W64 : N := 18446744073709551616.
Definition W32 : N := 4294967296.

Fixpoint mem_get (m : mem) (b : nat) : option (list byte) :=
  match m with
  | [] => None
  | (b', l) :: r => if Nat.eqb b' b then Some l else mem_get r b
  end.
Fixpoint mem_set (m : mem) (b : nat) (l : list byte) : mem :=
  match m with
  | [] => [(b, l)]
  | (b', l') :: r => if Nat.eqb b' b then (b, l) :: r else (b', l') :: mem_set r b l
  end.
Fixpoint mem_del (m : mem) (b : nat) : mem :=
  match m with
  | [] => []
  | (b', l') :: r => if Nat.eqb b' b then mem_del r b else (b', l') :: mem_del r b
  end.

Record range := mkR { rb : nat; ro : N; rn : N }.   (* n bytes of buffer rb starting at ro *)

(* reasons (an enumeration rather than Coq strings, which do not extract under ExtrOcamlBasic):
   [UB oob] is the UB oob of DESIGN 3.1, [UB signed_overflow] is UB signed_overflow, ... *)
Inductive ubkind := oob | null_deref | signed_overflow | bad_free | oob_write.
Inductive assertion :=
| a_sub_string        (* FRG_ASSERT in basic_string_view::sub_string *)
| a_option_apply.     (* FRG_ASSERT(fn.ptr) in frg::option::apply (cmdline.hpp) *)
Inductive outcome (A : Type) :=
| Ok (a : A) | AssertStop (w : assertion) | UB (w : ubkind) | OutOfFuel.
Arguments Ok {A} a. Arguments AssertStop {A} w. Arguments UB {A} w. Arguments OutOfFuel {A}.

(* ---- writer monad for read-only operations *)
Definition R (A : Type) := (outcome A * list range)%type.
Definition retR {A} (a : A) : R A := (Ok a, []).
Definition errR {A B} (o : outcome A) : outcome B :=
  match o with Ok _ => OutOfFuel | AssertStop w => AssertStop w | UB w => UB w | OutOfFuel => OutOfFuel end.
Definition bindR {A B} (c : R A) (f : A -> R B) : R B :=
  match c with
  | (Ok a, l) => let (o, l') := f a in (o, l ++ l')
  | (o, l) => (errR o, l)
  end.
Notation "x <- c ;; f" := (bindR c (fun x => f)) (at level 61, c at next level, right associativity).

(* the only way a source byte is obtained *)
Definition read (m : mem) (b : nat) (i : N) : R byte :=
  match mem_get m b with
  | Some l => match nth_error l (N.to_nat i) with
              | Some x => (Ok x, [mkR b i 1])
              | None => (UB oob, [mkR b i 1]) end
  | None => (UB oob, [mkR b i 1])
  end.

Definition sub_list {A} (l : list A) (off n : N) : list A := firstn (N.to_nat n) (skipn (N.to_nat off) l).

(* memcpy source: n bytes; n = 0 touches nothing (memcpy(dst, nullptr, 0) is tolerated, DESIGN section 5) *)
Definition read_range (m : mem) (b : nat) (off n : N) : R (list byte) :=
  if n =? 0 then retR [] else
  match mem_get m b with
  | Some l => if off + n <=? N.of_nat (length l) then (Ok (sub_list l off n), [mkR b off n])
              else (UB oob, [mkR b off n])
  | None => (UB oob, [mkR b off n])
  end.

(* ---- pointers and views *)
Inductive ptr := PNull | P (b : nat) (o : N).
Inductive view := VNull | V (b : nat) (off len : N).
Definition vlen (v : view) : N := match v with VNull => 0 | V _ _ l => l end.
Definition vptr (v : view) : ptr := match v with VNull => PNull | V b o _ => P b o end.
Definition mkview (p : ptr) (n : N) : view := match p with PNull => VNull | P b o => V b o n end.

Definition readp (m : mem) (p : ptr) (i : N) : R byte :=
  match p with PNull => (UB null_deref, []) | P b o => read m b (o + i) end.
Definition rd (m : mem) (v : view) (i : N) : R byte := readp m (vptr v) i.   (* _pointer[i] *)
Definition readp_range (m : mem) (p : ptr) (n : N) : R (list byte) :=
  if n =? 0 then retR [] else
  match p with PNull => (UB null_deref, []) | P b o => read_range m b o n end.

Section Views.
Variable m : mem.

(* generic_strlen: loop until the byte read is 0;   fuel = bytes left in the buffer + 1, never reached:
   the read past the end is UB oob first *)
Fixpoint strlen_loop (p : ptr) (k : nat) (i : N) : R N :=
  match k with
  | O => (OutOfFuel, [])
  | S k' => x <- readp m p i ;; if x =? 0 then retR i else strlen_loop p k' (i + 1)
  end.
Definition buf_len (b : nat) : nat := match mem_get m b with Some l => length l | None => 0 end.
Definition strlen_fuel (p : ptr) : nat := match p with PNull => 1 | P b _ => S (buf_len b) end.
Definition generic_strlen (p : ptr) : R N := strlen_loop p (strlen_fuel p) 0.

(* generic_strnlen: loop while len < max and the byte read is not 0 *)
Fixpoint strnlen_loop (p : ptr) (max : N) (k : nat) (i : N) : R N :=
  if i <? max then
    match k with
    | O => (OutOfFuel, [])
    | S k' => x <- readp m p i ;; if x =? 0 then retR i else strnlen_loop p max k' (i + 1)
    end
  else retR i.
(* fuel as for strlen: the read past the end of the buffer is UB oob before it runs out *)
Definition generic_strnlen (p : ptr) (max : N) : R N := strnlen_loop p max (strlen_fuel p) 0.

(* basic_string_view(const Char* p) *)
Definition view_of_cstr (p : ptr) : R view := n <- generic_strlen p ;; retR (mkview p n).

(* operator== *)
Fixpoint eq_loop (a b : view) (k : nat) (i : N) : R bool :=
  match k with
  | O => retR true
  | S k' => x <- rd m a i ;; y <- rd m b i ;; if x =? y then eq_loop a b k' (i + 1) else retR false
  end.
Definition view_eq (a b : view) : R bool :=
  if vlen a =? vlen b then eq_loop a b (N.to_nat (vlen a)) 0 else retR false.

(* find_first(c, start_from) *)
Fixpoint ff_loop (v : view) (c : byte) (k : nat) (i : N) : R N :=
  match k with
  | O => retR MAX64
  | S k' => x <- rd m v i ;; if x =? c then retR i else ff_loop v c k' (i + 1)
  end.
Definition find_first (v : view) (c : byte) (start : N) : R N :=
  ff_loop v c (N.to_nat (vlen v - start)) start.

(* find_first_of(chars, start_from): the inner loop re-reads _pointer[i] for every j *)
Fixpoint ffo_inner (v chars : view) (i : N) (k : nat) (j : N) : R bool :=
  match k with
  | O => retR false
  | S k' => x <- rd m v i ;; y <- rd m chars j ;; if x =? y then retR true else ffo_inner v chars i k' (j + 1)
  end.
Fixpoint ffo_loop (v chars : view) (k : nat) (i : N) : R N :=
  match k with
  | O => retR MAX64
  | S k' => hit <- ffo_inner v chars i (N.to_nat (vlen chars)) 0 ;;
            if hit : bool then retR i else ffo_loop v chars k' (i + 1)
  end.
Definition find_first_of (v chars : view) (start : N) : R N :=
  ffo_loop v chars (N.to_nat (vlen v - start)) start.

(* find_last(c): for(i = _length; i > 0; i--) if(_pointer[i-1] == c) return i-1; *)
Fixpoint fl_loop (v : view) (c : byte) (k : nat) : R N :=
  match k with
  | O => retR MAX64
  | S k' => x <- rd m v (N.of_nat k') ;; if x =? c then retR (N.of_nat k') else fl_loop v c k'
  end.
Definition find_last (v : view) (c : byte) : R N := fl_loop v c (N.to_nat (vlen v)).

(* sub_string(from, size): FRG_ASSERT(from <= _length && size <= _length - from)   (D32 repaired).
   The bound check is a parameter only so that the check of the code BEFORE the repair, which wrapped mod 2^64,
   can be named in the D32 refutation (CmdlineProofs.parse_wrapping_check_refuted); the model is [sub_string]. *)
Definition padd (p : ptr) (d : N) : ptr := match p with PNull => PNull | P b o => P b (o + d) end.
Definition chk_safe (from size len : N) : bool := (from <=? len) && (size <=? len - from).
Definition chk_wrapping (from size len : N) : bool := (from + size) mod W64 <=? len.
Definition sub_string_with (chk : N -> N -> N -> bool) (v : view) (from size : N) : R view :=
  if chk from size (vlen v)
  then retR (mkview (padd (vptr v) from) size)
  else (AssertStop a_sub_string, []).
Definition sub_string := sub_string_with chk_safe.

Definition starts_with (v o : view) : R bool :=
  if vlen v <? vlen o then retR false else s <- sub_string v 0 (vlen o) ;; view_eq s o.
Definition ends_with (v o : view) : R bool :=
  if vlen v <? vlen o then retR false else s <- sub_string v (vlen v - vlen o) (vlen o) ;; view_eq s o.

(* ---- to_number<T> *)
Record ity := mkT { t_signed : bool; t_bits : N }.
Definition t_max (t : ity) : N := if t_signed t then 2 ^ (t_bits t - 1) - 1 else 2 ^ t_bits t - 1.
(* arithmetic conversions: operands narrower than int are promoted to int *)
Definition t_promotes (t : ity) : bool := t_bits t <? 32.

(* one accumulation step; None = return null_opt *)
Definition acc := ity -> N -> N -> outcome (option N).
(* the code in /repo: __builtin_mul_overflow / __builtin_add_overflow, null_opt when the exact
   result does not fit T (D12 repaired) *)
Definition acc_checked : acc := fun t v d =>
  let v1 := v * 10 in
  if t_max t <? v1 then Ok None else
  let v2 := v1 + d in
  if t_max t <? v2 then Ok None else Ok (Some v2).
(* the code before the repair: value = value * 10 + d  in T (kept for the D12 refutation) *)
Definition acc_plain : acc := fun t v d =>
  let r := v * 10 + d in
  if r <=? t_max t then Ok (Some r)
  else if t_signed t && negb (t_promotes t) then UB signed_overflow
  else Ok (Some (r mod 2 ^ t_bits t)).   (* unsigned wrap; narrow signed: see StrProofs (value may become negative: not modelled further) *)

Definition is_digit (x : byte) : bool := (48 <=? x) && (x <=? 57).
Fixpoint num_loop (step : acc) (t : ity) (v : view) (k : nat) (i : N) (value : N) : R (option N) :=
  match k with
  | O => retR (Some value)
  | S k' => x <- rd m v i ;;
            if negb (is_digit x) then retR None else
            match step t value (x - 48) with
            | Ok (Some v') => num_loop step t v k' (i + 1) v'
            | Ok None => retR None
            | AssertStop w => (AssertStop w, [])
            | UB w => (UB w, [])
            | OutOfFuel => (OutOfFuel, [])
            end
  end.
Definition to_number_with (step : acc) (t : ity) (v : view) : R (option N) :=
  num_loop step t v (N.to_nat (vlen v)) 0 0.
Definition to_number := to_number_with acc_checked.

(* the value of a character as the integer the C++ expression sees *)
Definition sval (ct : cty) (x : byte) : Z :=
  if c_signed ct && (2 ^ (c_bits ct - 1) <=? x) then (Z.of_N x - Z.of_N (2 ^ c_bits ct))%Z else Z.of_N x.

(* ---- hash<basic_string_view<Char>> / hash<basic_string<Char>>: hash += 31*hash + string[i] in unsigned int;
   the character is converted to unsigned int (sign-extended when Char is signed) *)
Definition sext32 (ct : cty) (x : byte) : N := Z.to_N (sval ct x mod 4294967296).
Fixpoint hash_loop (ct : cty) (v : view) (k : nat) (i : N) (h : N) : R N :=
  match k with
  | O => retR h
  | S k' => x <- rd m v i ;; hash_loop ct v k' (i + 1) ((h + (31 * h + sext32 ct x)) mod W32)
  end.
Definition hash_view (ct : cty) (v : view) : R N := hash_loop ct v (N.to_nat (vlen v)) 0 0.

(* ---- compare: length first, then the first differing char (signed comparison) *)
Definition schar (x : byte) : Z := if x <? 128 then Z.of_N x else (Z.of_N x - 256)%Z.
Fixpoint cmp_loop (a : view) (bp : ptr) (k : nat) (i : N) : R Z :=
  match k with
  | O => retR 0%Z
  | S k' => x <- rd m a i ;; y <- readp m bp i ;;
            if x =? y then cmp_loop a bp k' (i + 1)
            else retR (if (schar x <? schar y)%Z then (-1)%Z else 1%Z)
  end.
Definition compare_len (a : view) (bp : ptr) (blen : N) : R Z :=
  if vlen a =? blen then cmp_loop a bp (N.to_nat (vlen a)) 0
  else retR (if vlen a <? blen then (-1)%Z else 1%Z).
(* the same for any character type (the definitions above are the instance Char = char, kept under their names
   because the translator tie Props/Properties_TIE_str.v refers to them; StrProofs2.compare_len_g_char) *)
Fixpoint cmp_loop_g (ct : cty) (a : view) (bp : ptr) (k : nat) (i : N) : R Z :=
  match k with
  | O => retR 0%Z
  | S k' => x <- rd m a i ;; y <- readp m bp i ;;
            if x =? y then cmp_loop_g ct a bp k' (i + 1)
            else retR (if (sval ct x <? sval ct y)%Z then (-1)%Z else 1%Z)
  end.
Definition compare_len_g (ct : cty) (a : view) (bp : ptr) (blen : N) : R Z :=
  if vlen a =? blen then cmp_loop_g ct a bp (N.to_nat (vlen a)) 0
  else retR (if vlen a <? blen then (-1)%Z else 1%Z).

End Views.

(* ---- owning strings: state monad *)
Record st := mkSt { smem : mem; snext : nat; sreads : list range; sevs : list ev }.
Definition M (A : Type) := st -> (outcome A * st)%type.
Definition retM {A} (a : A) : M A := fun s => (Ok a, s).
Definition bindM {A B} (c : M A) (f : A -> M B) : M B :=
  fun s => match c s with
           | (Ok a, s') => f a s'
           | (o, s') => (errR o, s')
           end.
Notation "x <~ c ;; f" := (bindM c (fun x => f)) (at level 61, c at next level, right associativity).

Definition liftR {A} (c : mem -> R A) : M A :=
  fun s => let (o, l) := c (smem s) in (o, mkSt (smem s) (snext s) (sreads s ++ l) (sevs s)).

Definition fill_list (n : N) (junk : list byte) : list byte :=
  firstn (N.to_nat n) (junk ++ repeat 0 (N.to_nat n)).

(* _allocator.allocate(n): a fresh block of exactly n bytes whose content is the environment's [junk] *)
Definition m_alloc (n : N) (junk : list byte) : M nat :=
  fun s => let b := snext s in
    (Ok b, mkSt ((b, fill_list n junk) :: smem s) (S b) (sreads s) (sevs s ++ [EAlloc b n])).
(* _allocator.free(p) *)
Definition m_free (b : nat) : M unit :=
  fun s => match mem_get (smem s) b with
           | Some _ => (Ok tt, mkSt (mem_del (smem s) b) (snext s) (sreads s) (sevs s ++ [EFree b]))
           | None => (UB bad_free, s)
           end.
Definition splice {A} (l : list A) (off : nat) (w : list A) : list A :=
  firstn off l ++ w ++ skipn (off + length w) l.
Definition m_write (b : nat) (off : N) (w : list byte) : M unit :=
  fun s => match mem_get (smem s) b with
           | Some l => if off + N.of_nat (length w) <=? N.of_nat (length l)
                       then (Ok tt, mkSt (mem_set (smem s) b (splice l (N.to_nat off) w)) (snext s) (sreads s) (sevs s))
                       else (UB oob_write, s)
           | None => (UB oob_write, s)
           end.

Record str := mkStr { sbuf : option nat; slen : N }.
Definition str_ptr (s : str) : ptr := match sbuf s with Some b => P b 0 | None => PNull end.
Definition str_view (s : str) : view := mkview (str_ptr s) (slen s).   (* operator basic_string_view *)
Definition str_null : str := mkStr None 0.

(* basic_string(Allocator) *)
Definition s_default : M str := retM str_null.
(* allocate(len+1); memcpy(_buffer, src, len); _buffer[len] = 0 *)
Definition s_from_ptr_len (p : ptr) (n : N) : M str :=
  b <~ m_alloc (n + 1) [] ;;
  l <~ liftR (fun m => readp_range m p n) ;;
  _ <~ m_write b 0 l ;;
  _ <~ m_write b n [0] ;;
  retM (mkStr (Some b) n).
(* basic_string(const Char* p) *)
Definition s_from_cstr (p : ptr) : M str :=
  n <~ liftR (fun m => generic_strlen m p) ;; s_from_ptr_len p n.
(* explicit basic_string(const basic_string_view &): copies view.size() bytes (D11 repaired) *)
Definition s_from_view (v : view) : M str := s_from_ptr_len (vptr v) (vlen v).
(* basic_string(size, c) *)
Definition s_fill (n : N) (c : byte) : M str :=
  b <~ m_alloc (n + 1) [] ;;
  _ <~ m_write b 0 (repeat c (N.to_nat n)) ;;
  _ <~ m_write b n [0] ;;
  retM (mkStr (Some b) n).
(* copy constructor *)
Definition s_copy (s : str) : M str := s_from_ptr_len (str_ptr s) (slen s).
(* destructor *)
Definition s_destroy (s : str) : M unit :=
  match sbuf s with Some b => m_free b | None => retM tt end.
(* operator=(basic_string other): the argument is copy-constructed, swapped in, and the old value
   dies with the parameter.  Result: the new value of *this *)
Definition s_assign (dst src : str) : M str :=
  other <~ s_copy src ;; _ <~ s_destroy dst ;; retM other.
(* resize(new_length): bytes [min(len,new_length), new_length) are whatever the allocator returned *)
Definition s_resize (s : str) (n : N) (junk : list byte) : M str :=
  let cl := N.min (slen s) n in
  b <~ m_alloc (n + 1) junk ;;
  l <~ liftR (fun m => readp_range m (str_ptr s) cl) ;;
  _ <~ m_write b 0 l ;;
  _ <~ m_write b n [0] ;;
  _ <~ s_destroy s ;;
  retM (mkStr (Some b) n).
(* scratch buffer of operator+ / operator+= : self ++ tail ++ [0] *)
Definition s_concat_buf (s : str) (tail : M (list byte)) (tn : N) : M nat :=
  let nl := slen s + tn in
  b <~ m_alloc (nl + 1) [] ;;
  l <~ liftR (fun m => readp_range m (str_ptr s) (slen s)) ;;
  _ <~ m_write b 0 l ;;
  t <~ tail ;;
  _ <~ m_write b (slen s) t ;;
  _ <~ m_write b nl [0] ;;
  retM b.
Definition tail_view (v : view) : M (list byte) := liftR (fun m => readp_range m (vptr v) (vlen v)).
Definition tail_char (c : byte) : M (list byte) := retM [c].
(* operator+: result constructed from the scratch buffer, scratch freed afterwards (D15 repaired) *)
Definition s_plus (s : str) (tail : M (list byte)) (tn : N) : M str :=
  b <~ s_concat_buf s tail tn ;;
  r <~ s_from_ptr_len (P b 0) (slen s + tn) ;;
  _ <~ m_free b ;;
  retM r.
Definition s_plus_view (s : str) (v : view) : M str := s_plus s (tail_view v) (vlen v).
Definition s_plus_char (s : str) (c : byte) : M str := s_plus s (tail_char c) 1.
(* operator+= *)
Definition s_append (s : str) (tail : M (list byte)) (tn : N) : M str :=
  b <~ s_concat_buf s tail tn ;;
  _ <~ s_destroy s ;;
  retM (mkStr (Some b) (slen s + tn)).
Definition s_append_view (s : str) (v : view) : M str := s_append s (tail_view v) (vlen v).
Definition s_append_char (s : str) (c : byte) : M str := s_append s (tail_char c) 1.
Definition s_push_back := s_append_char.
(* compare / == *)
Definition s_compare (ct : cty) (a b : str) : M Z :=
  liftR (fun m => compare_len_g m ct (str_view a) (str_ptr b) (slen b)).
Definition s_compare_cstr (ct : cty) (a : str) (p : ptr) : M Z :=
  liftR (fun m => n <- generic_strlen m p ;; compare_len_g m ct (str_view a) p n).
Definition s_starts_with (a : str) (v : view) : M bool := liftR (fun m => starts_with m (str_view a) v).
Definition s_ends_with (a : str) (v : view) : M bool := liftR (fun m => ends_with m (str_view a) v).
Definition hash_str (ct : cty) (a : str) : M N := liftR (fun m => hash_view m ct (str_view a)).

(* ---- script level: tables of source buffers, views and strings (what comp/str/driver.ml and
   comp/str/harness.cpp both interpret) *)
Inductive vexp :=
| ENull                          (* basic_string_view() *)
| EPtrLen (b : nat) (off len : N)    (* basic_string_view(buf_b + off, len) *)
| ECstr (b : nat) (off : N)          (* basic_string_view(buf_b + off) *)
| EStr (k : nat)                     (* string k converted to a view *)
| EView (k : nat).                   (* stored view k *)

Inductive op :=
| OBuf (bytes : list byte)                    (* new exact-size source buffer *)
| OEq (a b : vexp) | OFf (a : vexp) (c : byte) (start : N) | OFfo (a b : vexp) (start : N)
| OFl (a : vexp) (c : byte) | OSub (a : vexp) (from size : N) | OSw (a b : vexp) | OEw (a b : vexp)
| ONum (sg : bool) (bits : N) (a : vexp) | OHashV (a : vexp)
| OStrlen (b : nat) (off : N) | OStrnlen (b : nat) (off max : N)
| OSNew | OSCstr (b : nat) (off : N) | OSPtrLen (b : nat) (off len : N) | OSView (a : vexp)
| OSFill (n : N) (c : byte) | OSCopy (k : nat) | OSAssign (d s : nat) | OSResize (k : nat) (n : N) (junk : byte)
| OSPlusV (k : nat) (a : vexp) | OSPlusC (k : nat) (c : byte)
| OSAppV (k : nat) (a : vexp) | OSAppC (k : nat) (c : byte) | OSPush (k : nat) (c : byte)
| OSCmp (a b : nat) | OSCmpC (a : nat) (b : nat) (off : N)
| OSSw (k : nat) (a : vexp) | OSEw (k : nat) (a : vexp) | OSHash (k : nat)
| OSDetach (k : nat) | OSSwap (a b : nat) | OSDel (k : nat)
(* std::move: basic_string declares a copy constructor and a destructor and NO move constructor / move assignment, so
   basic_string t(std::move(s)) is the copy constructor, t = std::move(s) copy-constructs the by-value parameter of
   operator=, and passing std::move(s) by value copies too: the source is unchanged *)
| OSMoveCtor (k : nat) | OSMoveAssign (d s : nat) | OSByVal (k : nat) | OTraits.

Inductive out :=
| OutUnit | OutN (n : N) | OutB (b : bool) | OutZ (z : Z) | OutOpt (o : option N)
| OutView (v : view) (txt : list byte) | OutStr (k : nat) (s : str) (buf : option (list byte))
| OutTraits (nothrow_move_ctor trivially_move_ctor nothrow_move_assign : bool)
| OutBad.     (* malformed script (index out of range / dead slot): generator bug *)

Record world := mkW { wct : cty; wst : st; wbufs : list nat; wviews : list view; wstrs : list (option str) }.
Definition st0 : st := mkSt [] 1 [] [].
Definition world0 (ct : cty) : world := mkW ct st0 [] [] [].

Definition get_str (w : world) (k : nat) : option str :=
  match nth_error (wstrs w) k with Some (Some s) => Some s | _ => None end.
Fixpoint set_nth {A} (l : list A) (k : nat) (x : A) : list A :=
  match l, k with
  | [], _ => []
  | _ :: r, O => x :: r
  | y :: r, S j => y :: set_nth r j x
  end.
Definition buf_id (w : world) (b : nat) : option nat := nth_error (wbufs w) b.
Definition buf_ptr (w : world) (b : nat) (off : N) : option ptr :=
  match buf_id w b with Some i => Some (P i off) | None => None end.

Definition eval_vexp (w : world) (e : vexp) : option (mem -> R view) :=
  match e with
  | ENull => Some (fun _ => retR VNull)
  | EPtrLen b off len => match buf_id w b with Some i => Some (fun _ => retR (V i off len)) | None => None end
  | ECstr b off => match buf_id w b with Some i => Some (fun m => view_of_cstr m (P i off)) | None => None end
  | EStr k => match get_str w k with Some s => Some (fun _ => retR (str_view s)) | None => None end
  | EView k => match nth_error (wviews w) k with Some v => Some (fun _ => retR v) | None => None end
  end.

(* text of a view without logging (for printing only) *)
Definition view_text (m : mem) (v : view) : list byte :=
  match v with VNull => [] | V b o n => match mem_get m b with Some l => sub_list l o n | None => [] end end.

Definition with_view (w : world) (e : vexp) (f : view -> M out) : M out :=
  match eval_vexp w e with
  | Some c => v <~ liftR c ;; f v
  | None => retM (OutBad)
  end.
Definition with_str (w : world) (k : nat) (f : str -> M out) : M out :=
  match get_str w k with Some s => f s | None => retM (OutBad) end.
Definition with_ptr (w : world) (b : nat) (off : N) (f : ptr -> M out) : M out :=
  match buf_ptr w b off with Some p => f p | None => retM (OutBad) end.

(* what an op does to the tables *)
Inductive effect :=
| FNone | FNewBuf (id : nat) | FNewView (v : view) | FNewStr (s : str)
| FSetStr (k : nat) (s : option str) | FSet2 (a : nat) (sa : str) (b : nat) (sb : str).

(* final step of an op whose printed result depends on the state it ends in *)
Definition retO (g : st -> out) (f : effect) : M (out * effect) := fun st => (Ok (g st, f), st).
Definition src_out (k : nat) (s : str) (st : st) : out :=
  OutStr k s (match sbuf s with Some b => mem_get (smem st) b | None => None end).
Definition pure_out (c : M out) : M (out * effect) := o <~ c ;; retM (o, FNone).
Definition lift_out {A} (c : mem -> R A) (f : A -> out) : M out := x <~ liftR c ;; retM (f x).

Definition do_op (w : world) (o : op) : M (out * effect) :=
  match o with
  | OBuf bytes =>
      fun st => let b := snext st in
        (Ok (OutUnit, FNewBuf b), mkSt ((b, bytes) :: smem st) (S b) (sreads st) (sevs st))
  | OEq a b => pure_out (with_view w a (fun va => with_view w b (fun vb => lift_out (fun m => view_eq m va vb) OutB)))
  | OFf a c start => pure_out (with_view w a (fun va => lift_out (fun m => find_first m va c start) OutN))
  | OFfo a b start => pure_out (with_view w a (fun va => with_view w b (fun vb => lift_out (fun m => find_first_of m va vb start) OutN)))
  | OFl a c => pure_out (with_view w a (fun va => lift_out (fun m => find_last m va c) OutN))
  | OSub a from size =>
      match eval_vexp w a with
      | Some c => va <~ liftR c ;; v <~ liftR (fun _ => sub_string va from size) ;;
                  fun st => (Ok (OutView v (view_text (smem st) v), FNewView v), st)
      | None => retM (OutBad, FNone)
      end
  | OSw a b => pure_out (with_view w a (fun va => with_view w b (fun vb => lift_out (fun m => starts_with m va vb) OutB)))
  | OEw a b => pure_out (with_view w a (fun va => with_view w b (fun vb => lift_out (fun m => ends_with m va vb) OutB)))
  | ONum sg bits a => pure_out (with_view w a (fun va => lift_out (fun m => to_number m (mkT sg bits) va) OutOpt))
  | OHashV a => pure_out (with_view w a (fun va => lift_out (fun m => hash_view m (wct w) va) OutN))
  | OStrlen b off => pure_out (with_ptr w b off (fun p => lift_out (fun m => generic_strlen m p) OutN))
  | OStrnlen b off mx => pure_out (with_ptr w b off (fun p => lift_out (fun m => generic_strnlen m p mx) OutN))
  | OSNew => s <~ s_default ;; retM (OutUnit, FNewStr s)
  | OSCstr b off =>
      match buf_ptr w b off with
      | Some p => s <~ s_from_cstr p ;; retM (OutUnit, FNewStr s)
      | None => retM (OutBad, FNone) end
  | OSPtrLen b off len =>
      match buf_ptr w b off with
      | Some p => s <~ s_from_ptr_len p len ;; retM (OutUnit, FNewStr s)
      | None => retM (OutBad, FNone) end
  | OSView a =>
      match eval_vexp w a with
      | Some c => va <~ liftR c ;; s <~ s_from_view va ;; retM (OutUnit, FNewStr s)
      | None => retM (OutBad, FNone) end
  | OSFill n c => s <~ s_fill n c ;; retM (OutUnit, FNewStr s)
  | OSCopy k =>
      match get_str w k with
      | Some s => r <~ s_copy s ;; retM (OutUnit, FNewStr r)
      | None => retM (OutBad, FNone) end
  | OSAssign d s =>
      match get_str w d, get_str w s with
      | Some sd, Some ss => r <~ s_assign sd ss ;; retM (OutUnit, FSetStr d (Some r))
      | _, _ => retM (OutBad, FNone) end
  | OSResize k n junk =>
      match get_str w k with
      | Some s => r <~ s_resize s n (repeat junk (N.to_nat n)) ;; retM (OutUnit, FSetStr k (Some r))
      | None => retM (OutBad, FNone) end
  | OSPlusV k a =>
      match get_str w k, eval_vexp w a with
      | Some s, Some c => va <~ liftR c ;; r <~ s_plus_view s va ;; retM (OutUnit, FNewStr r)
      | _, _ => retM (OutBad, FNone) end
  | OSPlusC k c =>
      match get_str w k with
      | Some s => r <~ s_plus_char s c ;; retM (OutUnit, FNewStr r)
      | None => retM (OutBad, FNone) end
  | OSAppV k a =>
      match get_str w k, eval_vexp w a with
      | Some s, Some c => va <~ liftR c ;; r <~ s_append_view s va ;; retM (OutUnit, FSetStr k (Some r))
      | _, _ => retM (OutBad, FNone) end
  | OSAppC k c =>
      match get_str w k with
      | Some s => r <~ s_append_char s c ;; retM (OutUnit, FSetStr k (Some r))
      | None => retM (OutBad, FNone) end
  | OSPush k c =>
      match get_str w k with
      | Some s => r <~ s_push_back s c ;; retM (OutUnit, FSetStr k (Some r))
      | None => retM (OutBad, FNone) end
  | OSCmp a b =>
      match get_str w a, get_str w b with
      | Some sa, Some sb => z <~ s_compare (wct w) sa sb ;; retM (OutZ z, FNone)
      | _, _ => retM (OutBad, FNone) end
  | OSCmpC a b off =>
      match get_str w a, buf_ptr w b off with
      | Some sa, Some p => z <~ s_compare_cstr (wct w) sa p ;; retM (OutZ z, FNone)
      | _, _ => retM (OutBad, FNone) end
  | OSSw k a =>
      match get_str w k, eval_vexp w a with
      | Some s, Some c => va <~ liftR c ;; r <~ s_starts_with s va ;; retM (OutB r, FNone)
      | _, _ => retM (OutBad, FNone) end
  | OSEw k a =>
      match get_str w k, eval_vexp w a with
      | Some s, Some c => va <~ liftR c ;; r <~ s_ends_with s va ;; retM (OutB r, FNone)
      | _, _ => retM (OutBad, FNone) end
  | OSHash k =>
      match get_str w k with
      | Some s => h <~ hash_str (wct w) s ;; retM (OutN h, FNone)
      | None => retM (OutBad, FNone) end
  | OSDetach k =>
      (* p = s.data(); s.detach(); the caller now owns p and (in the scripts) frees it at once *)
      match get_str w k with
      | Some s => _ <~ s_destroy s ;; retM (OutUnit, FSetStr k (Some str_null))
      | None => retM (OutBad, FNone) end
  | OSSwap a b =>
      match get_str w a, get_str w b with
      | Some sa, Some sb => retM (OutUnit, FSet2 a sb b sa)
      | _, _ => retM (OutBad, FNone) end
  | OSDel k =>
      match get_str w k with
      | Some s => _ <~ s_destroy s ;; retM (OutUnit, FSetStr k None)
      | None => retM (OutBad, FNone) end
  | OSMoveCtor k =>          (* printed: the source after the "move", then the new string *)
      match get_str w k with
      | Some s => r <~ s_copy s ;; retO (src_out k s) (FNewStr r)
      | None => retM (OutBad, FNone) end
  | OSMoveAssign d s =>      (* printed: the source after the "move" (the new value when d = s), then the destination *)
      match get_str w d, get_str w s with
      | Some sd, Some ss => r <~ s_assign sd ss ;; retO (src_out s (if Nat.eqb d s then r else ss)) (FSetStr d (Some r))
      | _, _ => retM (OutBad, FNone) end
  | OSByVal k =>             (* f(s) / f(std::move(s)) with f(basic_string p): p is a copy, destroyed at return; result p.size() *)
      match get_str w k with
      | Some s => r <~ s_copy s ;; _ <~ s_destroy r ;; retM (OutN (slen r), FNone)
      | None => retM (OutBad, FNone) end
  | OTraits => retM (OutTraits false false false, FNone)
  end.

Definition apply_effect (w : world) (s : st) (f : effect) : world :=
  match f with
  | FNone => mkW (wct w) s (wbufs w) (wviews w) (wstrs w)
  | FNewBuf id => mkW (wct w) s (wbufs w ++ [id]) (wviews w) (wstrs w)
  | FNewView v => mkW (wct w) s (wbufs w) (wviews w ++ [v]) (wstrs w)
  | FNewStr x => mkW (wct w) s (wbufs w) (wviews w) (wstrs w ++ [Some x])
  | FSetStr k x => mkW (wct w) s (wbufs w) (wviews w) (set_nth (wstrs w) k x)
  | FSet2 a sa b sb => mkW (wct w) s (wbufs w) (wviews w) (set_nth (set_nth (wstrs w) a (Some sa)) b (Some sb))
  end.

(* which string (if any) an op changed or created: its state is printed after the op *)
Definition touched (w : world) (f : effect) : list nat :=
  match f with
  | FNewStr _ => [length (wstrs w)]
  | FSetStr k (Some _) => [k]
  | FSet2 a _ b _ => [a; b]
  | _ => []
  end.

Definition str_state (w : world) (k : nat) : out :=
  match get_str w k with
  | Some s => OutStr k s (match sbuf s with Some b => mem_get (smem (wst w)) b | None => None end)
  | None => OutBad
  end.

(* allocation sizes are printed in BYTES: sizeof(Char) * elements (the log kept in the state counts elements) *)
Definition scale_ev (k : N) (e : ev) : ev :=
  match e with EAlloc b n => EAlloc b (k * n) | EDealloc b n => EDealloc b (k * n) | _ => e end.
(* one script line: result, the states of the strings it touched, the events it emitted *)
Definition step (w : world) (o : op) : outcome (list out * list ev) * world :=
  match do_op w o (wst w) with
  | (Ok (r, f), s2) =>
      let w' := apply_effect w s2 f in
      (Ok (r :: map (str_state w') (touched w f), map (scale_ev (cw (wct w))) (skipn (length (sevs (wst w))) (sevs s2))), w')
  | (e, s2) => (errR e, mkW (wct w) s2 (wbufs w) (wviews w) (wstrs w))
  end.

(* end of the script: every live string is destroyed, in slot order *)
Fixpoint destroy_all (l : list (option str)) : M unit :=
  match l with
  | [] => retM tt
  | Some s :: r => _ <~ s_destroy s ;; destroy_all r
  | None :: r => destroy_all r
  end.
Definition finish (w : world) : outcome (list ev) * st :=
  match destroy_all (wstrs w) (wst w) with
  | (Ok _, s2) => (Ok (map (scale_ev (cw (wct w))) (skipn (length (sevs (wst w))) (sevs s2))), s2)
  | (e, s2) => (errR e, s2)
  end.
