(* to_number<T> and the string hashes: total, in bounds, equal to the list-level reference. *)
From Coq Require Import List NArith ZArith Bool Lia Arith.
From Coq Require Import ZifyBool ZifyNat ZifyN.
From FV Require Import Common.EventLog Str.StrModel Str.StrProofs.
Import ListNotations.
Local Open Scope N_scope.

Lemma skipn_cons_bat (l : list byte) (i : N) : i < N.of_nat (length l) ->
  skipn (N.to_nat i) l = bat l i :: skipn (N.to_nat (i + 1)) l.
Proof.
  intros H. unfold bat. replace (N.to_nat (i + 1)) with (S (N.to_nat i)) by lia.
  assert (Hn : (N.to_nat i < length l)%nat) by lia. clear H. revert Hn. generalize (N.to_nat i) as n.
  induction l as [|x l IH]; intros n Hn; simpl in Hn; [lia|]. destruct n; [reflexivity|]. simpl. apply IH. lia.
Qed.

(* ---- reference: decimal value of a digit string, with the "fits T" test after every digit *)
Fixpoint num_ref (t : ity) (l : list byte) (value : N) : option N :=
  match l with
  | [] => Some value
  | x :: r => if is_digit x
              then let v := value * 10 + (x - 48) in if v <=? t_max t then num_ref t r v else None
              else None
  end.
Definition dec_from (v : N) (l : list byte) : N := fold_left (fun a x => a * 10 + (x - 48)) l v.
Definition dec (l : list byte) : N := dec_from 0 l.

Lemma acc_checked_spec t v d :
  acc_checked t v d = Ok (if v * 10 + d <=? t_max t then Some (v * 10 + d) else None).
Proof.
  unfold acc_checked.
  destruct (N.ltb_spec (t_max t) (v * 10)); destruct (N.ltb_spec (t_max t) (v * 10 + d));
    destruct (N.leb_spec (v * 10 + d) (t_max t)); try reflexivity; lia.
Qed.

Section Num.
Variable m : mem.

Lemma num_loop_ok t v k i value : valid_view m v -> i + N.of_nat k = vlen v ->
  okR (num_loop m acc_checked t v k i value)
      (fun r => r = num_ref t (skipn (N.to_nat i) (vtext m v)) value) (within v).
Proof.
  intros Hv. pose proof (vtext_length m v Hv) as HL.
  revert i value; induction k as [|k IH]; intros i value Hk; cbn [num_loop].
  - apply okR_ret. rewrite skipn_all2 by lia. reflexivity.
  - eapply okR_bind; [apply rd_ok; [exact Hv|lia]|]. intros x ->.
    rewrite (skipn_cons_bat (vtext m v) i) by lia. cbn [num_ref].
    destruct (is_digit (bat (vtext m v) i)); cbn [negb]; [|apply okR_ret; reflexivity].
    rewrite acc_checked_spec.
    destruct (N.leb_spec (value * 10 + (bat (vtext m v) i - 48)) (t_max t)).
    + apply IH. lia.
    + apply okR_ret. reflexivity.
Qed.

(* to_number on ANY bytes: Ok, equal to the reference, reads inside the view *)
Lemma to_number_ok t v : valid_view m v ->
  okR (to_number m t v) (fun r => r = num_ref t (vtext m v) 0) (within v).
Proof.
  intros Hv. unfold to_number, to_number_with.
  eapply okR_weaken; [apply num_loop_ok; [assumption|lia]| |auto]. intros r ->. reflexivity.
Qed.

(* ---- hash (any character type) *)
Definition hash_ref (ct : cty) (l : list byte) (h : N) : N := fold_left (fun h x => (h + (31 * h + sext32 ct x)) mod W32) l h.

Lemma hash_loop_ok ct v k i h : valid_view m v -> i + N.of_nat k = vlen v ->
  okR (hash_loop m ct v k i h) (fun r => r = hash_ref ct (skipn (N.to_nat i) (vtext m v)) h) (within v).
Proof.
  intros Hv. pose proof (vtext_length m v Hv) as HL.
  revert i h; induction k as [|k IH]; intros i h Hk; cbn [hash_loop].
  - apply okR_ret. rewrite skipn_all2 by lia. reflexivity.
  - eapply okR_bind; [apply rd_ok; [exact Hv|lia]|]. intros x ->.
    rewrite (skipn_cons_bat (vtext m v) i) by lia. unfold hash_ref at 1. cbn [fold_left]. apply IH. lia.
Qed.
Lemma hash_view_ok ct v : valid_view m v ->
  okR (hash_view m ct v) (fun r => r = hash_ref ct (vtext m v) 0) (within v).
Proof. intros Hv. unfold hash_view. eapply okR_weaken; [apply hash_loop_ok; [assumption|lia]| |auto]. intros r ->. reflexivity. Qed.
End Num.

(* ---- what the reference means *)
Lemma dec_from_ge l v : v <= dec_from v l.
Proof.
  revert v; induction l as [|x l IH]; intros v; unfold dec_from; cbn [fold_left]; [lia|].
  etransitivity; [|apply IH]. lia.
Qed.
Lemma num_ref_fits t l v : forallb is_digit l = true -> dec_from v l <= t_max t -> num_ref t l v = Some (dec_from v l).
Proof.
  revert v; induction l as [|x l IH]; intros v Hd Hf; [reflexivity|].
  cbn [forallb] in Hd. apply andb_true_iff in Hd. destruct Hd as [Hx Hd]. cbn [num_ref]. rewrite Hx.
  unfold dec_from in *. cbn [fold_left] in *.
  pose proof (dec_from_ge l (v * 10 + (x - 48))) as G. unfold dec_from in G.
  destruct (N.leb_spec (v * 10 + (x - 48)) (t_max t)); [|lia]. apply IH; assumption.
Qed.
Lemma num_ref_too_big t l v : v <= t_max t -> forallb is_digit l = true -> t_max t < dec_from v l -> num_ref t l v = None.
Proof.
  revert v; induction l as [|x l IH]; intros v Hv Hd Hf; unfold dec_from in Hf; cbn [fold_left] in Hf; [lia|].
  cbn [forallb] in Hd. apply andb_true_iff in Hd. destruct Hd as [Hx Hd]. cbn [num_ref]. rewrite Hx.
  destruct (N.leb_spec (v * 10 + (x - 48)) (t_max t)); [|reflexivity]. apply IH; assumption.
Qed.
Lemma num_ref_nondigit t l v : forallb is_digit l = false -> num_ref t l v = None.
Proof.
  revert v; induction l as [|x l IH]; intros v Hd; [discriminate|].
  cbn [forallb] in Hd. cbn [num_ref]. destruct (is_digit x); [|reflexivity]. simpl in Hd.
  destruct (N.leb_spec (v * 10 + (x - 48)) (t_max t)); [|reflexivity]. apply IH; assumption.
Qed.

(* ---- C20, to_number part *)
Definition exact_mem (bytes : list byte) : mem := [(1%nat, bytes)].
Definition whole (bytes : list byte) : view := V 1 0 (N.of_nat (length bytes)).

Lemma to_number_total_safe (m : mem) (t : ity) (v : view) : valid_view m v ->
  exists (r : option N) (reads : list range),
    to_number m t v = (Ok r, reads) /\ r = num_ref t (vtext m v) 0 /\
    Forall (within v) reads /\ Forall (in_mem m) reads.
Proof.
  intros Hv. destruct (to_number_ok m t v Hv) as (r & l & E & Hr & Hl).
  exists r, l. repeat split; try assumption. eapply Forall_impl; [|exact Hl]. intros a. apply within_in_mem. assumption.
Qed.

Lemma whole_valid bytes : valid_view (exact_mem bytes) (whole bytes).
Proof. simpl. exists bytes. split; [reflexivity|lia]. Qed.

Lemma to_number_every_byte_list (bytes : list byte) (t : ity) :
  exists (r : option N) (reads : list range),
    to_number (exact_mem bytes) t (whole bytes) = (Ok r, reads) /\
    Forall (fun rg => rb rg = 1%nat /\ ro rg + rn rg <= N.of_nat (length bytes)) reads.
Proof.
  destruct (to_number_total_safe (exact_mem bytes) t (whole bytes) (whole_valid bytes)) as (r & l & E & _ & Hw & _).
  exists r, l. split; [assumption|]. eapply Forall_impl; [|exact Hw]. simpl. intros a (A & B & C). split; [assumption|lia].
Qed.

(* C15_to_number: digit strings whose value fits T give that value; any non-digit gives null_opt; never UB *)
Lemma to_number_value (m : mem) (t : ity) (v : view) : valid_view m v ->
  exists (r : option N) (reads : list range), to_number m t v = (Ok r, reads) /\
    (forallb is_digit (vtext m v) = true -> dec (vtext m v) <= t_max t -> r = Some (dec (vtext m v))) /\
    (forallb is_digit (vtext m v) = true -> t_max t < dec (vtext m v) -> r = None) /\
    (forallb is_digit (vtext m v) = false -> r = None).
Proof.
  intros Hv. destruct (to_number_ok m t v Hv) as (r & l & E & Hr & Hl). exists r, l. split; [assumption|]. subst r.
  repeat split.
  - intros. apply num_ref_fits; assumption.
  - intros. apply num_ref_too_big; [lia|assumption|assumption].
  - intros. apply num_ref_nondigit; assumption.
Qed.

(* D12, the code before the repair (plain accumulation in T): the signed-overflow UB is reachable *)
Definition d12_bytes : list byte := repeat 57 11.     (* "99999999999" *)
Lemma to_number_plain_refuted :
  fst (to_number_with (exact_mem d12_bytes) acc_plain (mkT true 32) (whole d12_bytes)) = UB signed_overflow.
Proof. vm_compute. reflexivity. Qed.
