(* World-level C15 terminator invariant: after ANY script that runs to Ok (any operands, aliasing, detach, swap),
   every live string either owns no buffer and has length 0, or owns a buffer of exactly len+1 bytes ending in 0,
   and no two live strings share a buffer.  Partial-correctness triples on the memory, combined with the block
   count invariant of StrLogProofs (distinctness, ids below the counter). *)
From Coq Require Import List NArith ZArith Bool Lia Arith.
From Coq Require Import ZifyBool ZifyNat ZifyN.
From FV Require Import Common.EventLog Str.StrModel Str.StrProofs Str.StrNumProofs Str.StrProofs2 Str.StrMProofs Str.StrLogProofs.
Import ListNotations.
Local Open Scope N_scope.

Lemma pM_conj {A} (c : M A) s (Q1 Q2 : A -> st -> Prop) : pM c s Q1 -> pM c s Q2 -> pM c s (fun a s' => Q1 a s' /\ Q2 a s').
Proof. unfold pM. destruct (c s) as [[a|?|?|] s1]; auto. Qed.

(* memory effect of the primitives *)
Definition same_mem (s s' : st) : Prop := smem s' = smem s /\ snext s' = snext s.
Lemma pm_alloc n junk s : pM (m_alloc n junk) s (fun b s' => b = snext s /\
   smem s' = (snext s, fill_list n junk) :: smem s /\ snext s' = S (snext s)).
Proof. unfold pM, m_alloc. simpl. auto. Qed.
Lemma pm_liftR {A} (c : mem -> R A) s : pM (liftR c) s (fun _ s' => same_mem s s').
Proof. unfold pM, liftR. destruct (c (smem s)) as [[a|?|?|] l]; try exact I. split; reflexivity. Qed.
Lemma pm_write b off w s : pM (m_write b off w) s (fun _ s' => exists l, mem_get (smem s) b = Some l /\
   (N.to_nat off + length w <= length l)%nat /\ smem s' = mem_set (smem s) b (splice l (N.to_nat off) w) /\ snext s' = snext s).
Proof.
  unfold pM, m_write. destruct (mem_get (smem s) b) as [l|]; [|exact I].
  destruct (N.leb_spec (off + N.of_nat (length w)) (N.of_nat (length l))); [|exact I].
  exists l. repeat split; lia.
Qed.
Lemma pm_free b s : pM (m_free b) s (fun _ s' => smem s' = mem_del (smem s) b /\ snext s' = snext s).
Proof. unfold pM, m_free. destruct (mem_get (smem s) b); [|exact I]. split; reflexivity. Qed.

Definition mro {A} (c : M A) : Prop := forall s, pM c s (fun _ s' => same_mem s s').
Lemma mro_ret {A} (a : A) : mro (retM a).
Proof. intros s. apply pM_ret. split; reflexivity. Qed.
Lemma mro_liftR {A} (c : mem -> R A) : mro (liftR c).
Proof. intros s. apply pm_liftR. Qed.
Lemma mro_bind {A C} (c : M A) (f : A -> M C) : mro c -> (forall a, mro (f a)) -> mro (bindM c f).
Proof.
  intros Hc Hf s. eapply pM_bind; [apply Hc|]. cbv beta. intros a s1 [E1 E2].
  eapply pM_weaken; [apply Hf|]. cbv beta. intros x s2 [E3 E4]. split; congruence.
Qed.

(* a string built in a fresh buffer nx on top of memory m, the old buffer dropped *)
Definition mk1m (m : mem) (nx : nat) (old : option nat) (r : str) (s' : st) : Prop :=
  exists L n, r = mkStr (Some nx) n /\ length L = S (N.to_nat n) /\ bat L n = 0 /\
              smem s' = (nx, L) :: mem_drop m old /\ snext s' = S nx.

(* the buffer after the writes of a constructor-like operation *)
Lemma head_writes (m : mem) b fill (s1 s2 s3 : st) l n :
  smem s1 = (b, fill) :: m -> length fill = S (N.to_nat n) ->
  (exists l0, mem_get (smem s1) b = Some l0 /\ (N.to_nat 0 + length l <= length l0)%nat /\
              smem s2 = mem_set (smem s1) b (splice l0 (N.to_nat 0) l) /\ snext s2 = snext s1) ->
  (exists l1, mem_get (smem s2) b = Some l1 /\ (N.to_nat n + length [0] <= length l1)%nat /\
              smem s3 = mem_set (smem s2) b (splice l1 (N.to_nat n) [0]) /\ snext s3 = snext s2) ->
  exists L, smem s3 = (b, L) :: m /\ length L = S (N.to_nat n) /\ bat L n = 0 /\ snext s3 = snext s1.
Proof.
  intros E1 Hf (l0 & G0 & B0 & M2 & N2) (l1 & G1 & B1 & M3 & N3).
  rewrite E1, mem_get_cons_eq in G0. injection G0 as <-.
  rewrite E1, mem_set_cons_eq in M2. rewrite M2, mem_get_cons_eq in G1. injection G1 as <-.
  rewrite M2, mem_set_cons_eq in M3.
  eexists. split; [exact M3|]. split; [|split; [|congruence]].
  - rewrite !splice_length; simpl; try lia. rewrite splice_length; simpl; lia.
  - unfold bat. rewrite splice_nth_in; [rewrite Nat.sub_diag; reflexivity| |simpl; lia].
    rewrite splice_length; simpl in *; lia.
Qed.

Lemma m_from_ptr_len p n s : pM (s_from_ptr_len p n) s (mk1m (smem s) (snext s) None).
Proof.
  unfold s_from_ptr_len.
  eapply pM_bind; [apply pm_alloc|]. cbv beta. intros b s1 (-> & M1 & N1).
  eapply pM_bind; [apply pm_liftR|]. cbv beta. intros l s2 [M2 N2].
  eapply pM_bind; [apply pm_write|]. cbv beta. intros u1 s3 W1.
  eapply pM_bind; [apply pm_write|]. cbv beta. intros u2 s4 W2.
  apply pM_ret.
  destruct (head_writes (smem s) (snext s) (fill_list (n + 1) []) s2 s3 s4 l n) as (L & A & B & C & D);
    [congruence|rewrite fill_list_length; lia|exact W1|exact W2|].
  exists L, n. repeat split; try assumption. congruence.
Qed.
Lemma m_fill n c s : pM (s_fill n c) s (mk1m (smem s) (snext s) None).
Proof.
  unfold s_fill.
  eapply pM_bind; [apply pm_alloc|]. cbv beta. intros b s1 (-> & M1 & N1).
  eapply pM_bind; [apply pm_write|]. cbv beta. intros u1 s3 W1.
  eapply pM_bind; [apply pm_write|]. cbv beta. intros u2 s4 W2.
  apply pM_ret.
  destruct (head_writes (smem s) (snext s) (fill_list (n + 1) []) s1 s3 s4 (repeat c (N.to_nat n)) n) as (L & A & B & C & D);
    [exact M1|rewrite fill_list_length; lia|exact W1|exact W2|].
  exists L, n. repeat split; try assumption. congruence.
Qed.
Lemma mk1m_rebase s s1 old r s' : same_mem s s1 -> mk1m (smem s1) (snext s1) old r s' -> mk1m (smem s) (snext s) old r s'.
Proof. intros [A B]. rewrite A, B. auto. Qed.
Lemma m_from_cstr p s : pM (s_from_cstr p) s (mk1m (smem s) (snext s) None).
Proof.
  unfold s_from_cstr. eapply pM_bind; [apply pm_liftR|]. cbv beta. intros n s1 E.
  eapply pM_weaken; [apply m_from_ptr_len|]. intros r s'. apply mk1m_rebase. exact E.
Qed.
Lemma m_destroy x s : pM (s_destroy x) s (fun _ s' => smem s' = mem_drop (smem s) (sbuf x) /\ snext s' = snext s).
Proof. unfold s_destroy. destruct (sbuf x); [apply pm_free|apply pM_ret; split; reflexivity]. Qed.

Definition below (nx : nat) (old : option nat) : Prop := forall b, old = Some b -> (b < nx)%nat.
Lemma mem_drop_cons nx L m old : below nx old -> mem_drop ((nx, L) :: m) old = (nx, L) :: mem_drop m old.
Proof.
  intros H. destruct old as [b|]; [|reflexivity]. specialize (H b eq_refl). cbn [mem_drop mem_del].
  destruct (Nat.eqb_spec nx b); [lia|reflexivity].
Qed.
(* construct, then drop the old value *)
Lemma mk1m_then_destroy s x r s1 : below (snext s) (sbuf x) -> mk1m (smem s) (snext s) None r s1 ->
  pM (s_destroy x) s1 (fun _ s' => mk1m (smem s) (snext s) (sbuf x) r s').
Proof.
  intros Hb (L & n & -> & A & B & C & D). eapply pM_weaken; [apply m_destroy|]. cbv beta. intros u s' [E1 E2].
  exists L, n. repeat split; try assumption; [|congruence]. rewrite E1, C. cbn [mem_drop]. apply mem_drop_cons. exact Hb.
Qed.
Lemma m_assign dst src s : below (snext s) (sbuf dst) -> pM (s_assign dst src) s (mk1m (smem s) (snext s) (sbuf dst)).
Proof.
  intros Hb. unfold s_assign, s_copy. eapply pM_bind; [apply m_from_ptr_len|]. cbv beta. intros r s1 H1.
  eapply pM_bind; [apply mk1m_then_destroy; eassumption|]. cbv beta. intros u s2 H2. apply pM_ret. exact H2.
Qed.
Lemma m_resize x n junk s : below (snext s) (sbuf x) -> pM (s_resize x n junk) s (mk1m (smem s) (snext s) (sbuf x)).
Proof.
  intros Hb. unfold s_resize.
  eapply pM_bind; [apply pm_alloc|]. cbv beta. intros b s1 (-> & M1 & N1).
  eapply pM_bind; [apply pm_liftR|]. cbv beta. intros l s2 [M2 N2].
  eapply pM_bind; [apply pm_write|]. cbv beta. intros u1 s3 W1.
  eapply pM_bind; [apply pm_write|]. cbv beta. intros u2 s4 W2.
  destruct (head_writes (smem s) (snext s) (fill_list (n + 1) junk) s2 s3 s4 l n) as (L & A & B & C & D);
    [congruence|rewrite fill_list_length; lia|exact W1|exact W2|].
  eapply pM_bind.
  { apply (mk1m_then_destroy s x (mkStr (Some (snext s)) n)); [exact Hb|]. exists L, n. repeat split; try assumption. congruence. }
  cbv beta. intros u3 s5 H. apply pM_ret. exact H.
Qed.
Lemma m_concat_buf x tail tn s : mro tail ->
  pM (s_concat_buf x tail tn) s (fun b s' => b = snext s /\ exists L, smem s' = (snext s, L) :: smem s /\
     length L = S (N.to_nat (slen x + tn)) /\ bat L (slen x + tn) = 0 /\ snext s' = S (snext s)).
Proof.
  intros Ht. unfold s_concat_buf.
  eapply pM_bind; [apply pm_alloc|]. cbv beta. intros b s1 (-> & M1 & N1).
  eapply pM_bind; [apply pm_liftR|]. cbv beta. intros l s2 [M2 N2].
  eapply pM_bind; [apply pm_write|]. cbv beta. intros u1 s3 (l0 & G0 & B0 & M3 & N3).
  eapply pM_bind; [apply Ht|]. cbv beta. intros t s4 [M4 N4].
  eapply pM_bind; [apply pm_write|]. cbv beta. intros u2 s5 (l1 & G1 & B1 & M5 & N5).
  eapply pM_bind; [apply pm_write|]. cbv beta. intros u3 s6 (l2 & G2 & B2 & M6 & N6).
  apply pM_ret. split; [reflexivity|].
  rewrite M2, M1, mem_get_cons_eq in G0. injection G0 as <-.
  rewrite M2, M1, mem_set_cons_eq in M3.
  rewrite M4, M3, mem_get_cons_eq in G1. injection G1 as <-.
  rewrite M4, M3, mem_set_cons_eq in M5.
  rewrite M5, mem_get_cons_eq in G2. injection G2 as <-.
  rewrite M5, mem_set_cons_eq in M6.
  pose proof (fill_list_length (slen x + tn + 1) []) as Hf.
  eexists. split; [exact M6|]. split; [|split; [|congruence]].
  - rewrite !splice_length in *; simpl in *; try lia.
  - unfold bat. rewrite splice_nth_in; [rewrite Nat.sub_diag; reflexivity| |simpl; lia].
    rewrite !splice_length in *; simpl in *; lia.
Qed.
Lemma m_append x tail tn s : mro tail -> below (snext s) (sbuf x) ->
  pM (s_append x tail tn) s (mk1m (smem s) (snext s) (sbuf x)).
Proof.
  intros Ht Hb. unfold s_append. eapply pM_bind; [apply m_concat_buf; exact Ht|]. cbv beta.
  intros b s1 (-> & L & A & B & C & D).
  eapply pM_bind.
  { apply (mk1m_then_destroy s x (mkStr (Some (snext s)) (slen x + tn))); [exact Hb|]. exists L, (slen x + tn). repeat split; assumption. }
  cbv beta. intros u s2 H. apply pM_ret. exact H.
Qed.
(* operator+ : result in buffer S nx, scratch nx gone again *)
Definition mk2m (m : mem) (nx : nat) (r : str) (s' : st) : Prop :=
  exists L n, r = mkStr (Some (S nx)) n /\ length L = S (N.to_nat n) /\ bat L n = 0 /\
              smem s' = (S nx, L) :: m /\ snext s' = S (S nx).
Lemma m_plus x tail tn s : mro tail -> mem_get (smem s) (snext s) = None -> pM (s_plus x tail tn) s (mk2m (smem s) (snext s)).
Proof.
  intros Ht Hfr. unfold s_plus. eapply pM_bind; [apply m_concat_buf; exact Ht|]. cbv beta.
  intros b s1 (-> & L0 & A & B & C & D).
  eapply pM_bind; [apply m_from_ptr_len|]. cbv beta. intros r s2 (L & n & -> & E & F & G & H).
  eapply pM_bind; [apply pm_free|]. cbv beta. intros u s3 [I J]. apply pM_ret.
  exists L, n. rewrite D in *. repeat split; try assumption; [|congruence].
  rewrite I, G, A. cbn [mem_drop mem_del]. destruct (Nat.eqb_spec (S (snext s)) (snext s)); [lia|].
  rewrite Nat.eqb_refl. rewrite mem_del_absent by exact Hfr. reflexivity.
Qed.
Lemma mro_tail_view v : mro (tail_view v). Proof. apply mro_liftR. Qed.
Lemma mro_tail_char c : mro (tail_char c). Proof. apply mro_ret. Qed.

(* ---- the state invariant *)
Record sinv (s : st) (strs : list (option str)) : Prop := mk_sinv {
  si_fresh : fresh s;
  si_ok : forall k x, nth_error strs k = Some (Some x) -> str_ok (smem s) x }.

Lemma owns_cnt strs k x b : nth_error strs k = Some (Some x) -> sbuf x = Some b -> (cnt (owned strs) b >= 1)%nat.
Proof.
  intros H E. pose proof (cnt_own1_le strs k (Some x) b H) as L. rewrite cnt_free_evs_old, E, Nat.eqb_refl in L. exact L.
Qed.
Lemma distinct_slots strs k1 k2 x1 x2 b : (forall b, (cnt (owned strs) b <= 1)%nat) ->
  nth_error strs k1 = Some (Some x1) -> nth_error strs k2 = Some (Some x2) ->
  sbuf x1 = Some b -> sbuf x2 = Some b -> k1 = k2.
Proof.
  intros Hn H1 H2 E1 E2. destruct (Nat.eq_dec k1 k2) as [|Hne]; [assumption|exfalso].
  assert (Hl : (k1 < length strs)%nat) by (apply nth_error_Some; congruence).
  pose proof (cnt_set_nth strs k1 (Some x1) None b H1) as S1.
  rewrite cnt_free_evs_old, E1, Nat.eqb_refl in S1. change (cnt (own1 None) b) with 0%nat in S1.
  assert (H2' : nth_error (set_nth strs k1 None) k2 = Some (Some x2)).
  { rewrite nth_error_set_nth by exact Hl. destruct (Nat.eqb_spec k1 k2); [contradiction|exact H2]. }
  pose proof (owns_cnt _ _ _ _ H2' E2). specialize (Hn b). lia.
Qed.

Lemma str_ok_frame m m' x : str_ok m x -> (forall b, sbuf x = Some b -> mem_get m' b = mem_get m b) -> str_ok m' x.
Proof. unfold str_ok. destruct (sbuf x) as [b|]; [|auto]. intros H E. rewrite (E b eq_refl). exact H. Qed.
Lemma str_ok_headL nx L n m : length L = S (N.to_nat n) -> bat L n = 0 -> str_ok ((nx, L) :: m) (mkStr (Some nx) n).
Proof. intros A B. unfold str_ok. cbn [sbuf slen]. rewrite mem_get_cons_eq. exists L. split; [reflexivity|]. split; [lia|exact B]. Qed.
Lemma mem_get_drop_ne m old b : old <> Some b -> mem_get (mem_drop m old) b = mem_get m b.
Proof. destruct old as [b0|]; [|reflexivity]. intros H. cbn [mem_drop]. apply mem_get_del_ne. congruence. Qed.
Lemma mem_get_drop_some m old b l : mem_get (mem_drop m old) b = Some l -> mem_get m b = Some l.
Proof.
  destruct old as [b0|]; [|auto]. cbn [mem_drop]. destruct (Nat.eq_dec b0 b) as [->|E].
  - rewrite mem_get_del_eq. discriminate. - rewrite mem_get_del_ne by exact E. auto.
Qed.

Lemma nth_error_snoc {A} (l : list A) y k z : nth_error (l ++ [y]) k = Some z ->
  nth_error l k = Some z \/ (k = length l /\ z = y).
Proof.
  intros H. destruct (Nat.lt_ge_cases k (length l)) as [Hl|Hl].
  - rewrite nth_error_app1 in H by exact Hl. left. exact H.
  - rewrite nth_error_app2 in H by exact Hl. destruct (k - length l)%nat as [|j] eqn:E; simpl in H.
    + injection H as <-. right. split; [lia|reflexivity].
    + destruct j; discriminate.
Qed.

Lemma sinv_new s s' strs r : sinv s strs -> mk1m (smem s) (snext s) None r s' -> sinv s' (strs ++ [Some r]).
Proof.
  intros [Hf Hok] (L & n & -> & A & B & C & D). cbn [mem_drop] in C. split.
  - intros b l. rewrite C, D. cbn [mem_get]. destruct (Nat.eqb_spec (snext s) b); [lia|]. intros H. apply Hf in H. lia.
  - intros k x H. apply nth_error_snoc in H. destruct H as [H|[_ H]].
    + eapply str_ok_frame; [apply (Hok k x H)|]. intros b E. rewrite C.
      pose proof (Hok k x H) as O. unfold str_ok in O. rewrite E in O. destruct O as (l & Hl & _).
      apply Hf in Hl. apply mem_get_cons_ne. lia.
    + injection H as ->. rewrite C. apply str_ok_headL; assumption.
Qed.
Lemma sinv_replace s s' strs k x r : (forall b, (cnt (owned strs) b <= 1)%nat) -> sinv s strs ->
  nth_error strs k = Some (Some x) -> mk1m (smem s) (snext s) (sbuf x) r s' -> sinv s' (set_nth strs k (Some r)).
Proof.
  intros Hn [Hf Hok] Hk (L & n & -> & A & B & C & D).
  assert (Hl : (k < length strs)%nat) by (apply nth_error_Some; congruence). split.
  - intros b l. rewrite C, D. cbn [mem_get]. destruct (Nat.eqb_spec (snext s) b); [lia|]. intros H.
    apply mem_get_drop_some in H. apply Hf in H. lia.
  - intros j y H. rewrite nth_error_set_nth in H by exact Hl. destruct (Nat.eqb_spec k j) as [->|Hne].
    + injection H as <-. rewrite C. apply str_ok_headL; assumption.
    + eapply str_ok_frame; [apply (Hok j y H)|]. intros b E. rewrite C.
      pose proof (Hok j y H) as O. unfold str_ok in O. rewrite E in O. destruct O as (l & Hl' & _).
      apply Hf in Hl'. rewrite mem_get_cons_ne by lia. apply mem_get_drop_ne.
      intros E'. apply Hne. eapply distinct_slots; eauto.
Qed.
Lemma sinv_release s s' strs k x y : (forall b, (cnt (owned strs) b <= 1)%nat) -> sinv s strs ->
  nth_error strs k = Some (Some x) -> (y = None \/ y = Some str_null) ->
  smem s' = mem_drop (smem s) (sbuf x) -> snext s' = snext s -> sinv s' (set_nth strs k y).
Proof.
  intros Hn [Hf Hok] Hk Hy C D.
  assert (Hl : (k < length strs)%nat) by (apply nth_error_Some; congruence). split.
  - intros b l. rewrite C, D. intros H. apply mem_get_drop_some in H. apply Hf in H. exact H.
  - intros j z H. rewrite nth_error_set_nth in H by exact Hl. destruct (Nat.eqb_spec k j) as [->|Hne].
    + destruct Hy as [->| ->]; [discriminate|]. injection H as <-. unfold str_ok, str_null. reflexivity.
    + eapply str_ok_frame; [apply (Hok j z H)|]. intros b E. rewrite C. apply mem_get_drop_ne.
      intros E'. apply Hne. eapply distinct_slots; eauto.
Qed.
Lemma sinv_plus s s' strs r : sinv s strs -> mk2m (smem s) (snext s) r s' -> sinv s' (strs ++ [Some r]).
Proof.
  intros [Hf Hok] (L & n & -> & A & B & C & D). split.
  - intros b l. rewrite C, D. cbn [mem_get]. destruct (Nat.eqb_spec (S (snext s)) b); [lia|]. intros H. apply Hf in H. lia.
  - intros k x H. apply nth_error_snoc in H. destruct H as [H|[_ H]].
    + eapply str_ok_frame; [apply (Hok k x H)|]. intros b E. rewrite C.
      pose proof (Hok k x H) as O. unfold str_ok in O. rewrite E in O. destruct O as (l & Hl & _).
      apply Hf in Hl. apply mem_get_cons_ne. lia.
    + injection H as ->. rewrite C. apply str_ok_headL; assumption.
Qed.
Lemma sinv_same s s' strs : sinv s strs -> same_mem s s' -> sinv s' strs.
Proof. intros [Hf Hok] [A B]. split; [intros b l; rewrite A, B; apply Hf|intros k x H; rewrite A; eapply Hok; eauto]. Qed.

(* ---- what a script line does to the memory and the tables *)
Inductive mclass (w : world) (s s' : st) : effect -> Prop :=
| MC_ro f : (f = FNone \/ exists v, f = FNewView v) -> same_mem s s' -> mclass w s s' f
| MC_buf bytes : smem s' = (snext s, bytes) :: smem s -> snext s' = S (snext s) -> mclass w s s' (FNewBuf (snext s))
| MC_null : same_mem s s' -> mclass w s s' (FNewStr str_null)
| MC_new r : mk1m (smem s) (snext s) None r s' -> mclass w s s' (FNewStr r)
| MC_rep k x r : get_str w k = Some x -> mk1m (smem s) (snext s) (sbuf x) r s' -> mclass w s s' (FSetStr k (Some r))
| MC_rel k x y : (y = None \/ y = Some str_null) -> get_str w k = Some x ->
    smem s' = mem_drop (smem s) (sbuf x) -> snext s' = snext s -> mclass w s s' (FSetStr k y)
| MC_plus r : mk2m (smem s) (snext s) r s' -> mclass w s s' (FNewStr r)
| MC_tmp : smem s' = smem s -> snext s' = S (snext s) -> mclass w s s' FNone
| MC_swap a b sa sb : get_str w a = Some sa -> get_str w b = Some sb -> same_mem s s' -> mclass w s s' (FSet2 a sb b sa).

Definition classed (w : world) (c : M (out * effect)) : Prop :=
  pM c (wst w) (fun rf s' => mclass w (wst w) s' (snd rf)).

Lemma classed_ro w c f : mro c -> (f = FNone \/ exists v, f = FNewView v) -> classed w (o <~ c ;; retM (o, f)).
Proof.
  intros Hc Hf. unfold classed. eapply pM_bind; [apply Hc|]. cbv beta. intros o s1 E. apply pM_ret. cbn [snd].
  apply MC_ro; assumption.
Qed.
Lemma classed_bad w : classed w (retM (OutBad, FNone)).
Proof. unfold classed. apply pM_ret. cbn [snd]. apply MC_ro; [left; reflexivity|split; reflexivity]. Qed.
Lemma classed_new w (c : M str) : (forall s, pM c s (mk1m (smem s) (snext s) None)) ->
  classed w (s <~ c ;; retM (OutUnit, FNewStr s)).
Proof. intros Hc. unfold classed. eapply pM_bind; [apply Hc|]. cbv beta. intros r s1 H. apply pM_ret. cbn [snd]. apply MC_new. exact H. Qed.
Lemma classed_rep w k x (c : M str) : get_str w k = Some x -> pM c (wst w) (mk1m (smem (wst w)) (snext (wst w)) (sbuf x)) ->
  classed w (r <~ c ;; retM (OutUnit, FSetStr k (Some r))).
Proof. intros Hk Hc. unfold classed. eapply pM_bind; [exact Hc|]. cbv beta. intros r s1 H. apply pM_ret. cbn [snd]. eapply MC_rep; eassumption. Qed.
Lemma classed_plus w (c : M str) : pM c (wst w) (mk2m (smem (wst w)) (snext (wst w))) ->
  classed w (r <~ c ;; retM (OutUnit, FNewStr r)).
Proof. intros Hc. unfold classed. eapply pM_bind; [exact Hc|]. cbv beta. intros r s1 H. apply pM_ret. cbn [snd]. apply MC_plus. exact H. Qed.
Lemma classed_rel w k x y : get_str w k = Some x -> (y = None \/ y = Some str_null) ->
  classed w (_ <~ s_destroy x ;; retM (OutUnit, FSetStr k y)).
Proof.
  intros Hk Hy. unfold classed. eapply pM_bind; [apply m_destroy|]. cbv beta. intros u s1 [A B]. apply pM_ret. cbn [snd].
  eapply MC_rel; eassumption.
Qed.
Lemma classed_view_then w (c : mem -> R view) (g : view -> M str) (mk : str -> effect)
      (P : mem -> nat -> str -> st -> Prop) :
  (forall v s, same_mem (wst w) s -> pM (g v) s (P (smem s) (snext s))) ->
  (forall r s', P (smem (wst w)) (snext (wst w)) r s' -> mclass w (wst w) s' (mk r)) ->
  classed w (va <~ liftR c ;; r <~ g va ;; retM (OutUnit, mk r)).
Proof.
  intros Hg Hfin. unfold classed. eapply pM_bind; [apply pm_liftR|]. cbv beta. intros v s1 E.
  eapply pM_bind; [apply Hg; exact E|]. cbv beta. intros r s2 HP. apply pM_ret. cbn [snd]. apply Hfin.
  destruct E as [A B]. rewrite A, B in HP. exact HP.
Qed.

Lemma mro_with_view w e f : (forall v, mro (f v)) -> mro (with_view w e f).
Proof. intros Hf. unfold with_view. destruct (eval_vexp w e); [|apply mro_ret]. apply mro_bind; [apply mro_liftR|exact Hf]. Qed.
Lemma mro_with_ptr w b off f : (forall p, mro (f p)) -> mro (with_ptr w b off f).
Proof. intros Hf. unfold with_ptr. destruct (buf_ptr w b off); [apply Hf|apply mro_ret]. Qed.
Lemma mro_lift_out {A} (c : mem -> R A) (f : A -> out) : mro (lift_out c f).
Proof. unfold lift_out. apply mro_bind; [apply mro_liftR|intros; apply mro_ret]. Qed.

Definition owners_below (w : world) : Prop :=
  forall k x, get_str w k = Some x -> below (snext (wst w)) (sbuf x).

Lemma do_op_classed w o : owners_below w -> fresh (wst w) -> classed w (do_op w o).
Proof.
  intros Hb Hfr. destruct o; cbn [do_op].
  - (* OBuf *) unfold classed, pM. cbn [snd]. eapply MC_buf; reflexivity.
  - apply classed_ro; [|left; reflexivity]. apply mro_with_view; intros; apply mro_with_view; intros; apply mro_lift_out.
  - apply classed_ro; [|left; reflexivity]. apply mro_with_view; intros; apply mro_lift_out.
  - apply classed_ro; [|left; reflexivity]. apply mro_with_view; intros; apply mro_with_view; intros; apply mro_lift_out.
  - apply classed_ro; [|left; reflexivity]. apply mro_with_view; intros; apply mro_lift_out.
  - (* OSub *) destruct (eval_vexp w a); [|apply classed_bad].
    unfold classed. eapply pM_bind; [apply pm_liftR|]. cbv beta. intros va s1 [A1 B1].
    eapply pM_bind; [apply pm_liftR|]. cbv beta. intros v s2 [A2 B2].
    unfold pM. cbn [snd]. apply MC_ro; [right; eexists; reflexivity|split; congruence].
  - apply classed_ro; [|left; reflexivity]. apply mro_with_view; intros; apply mro_with_view; intros; apply mro_lift_out.
  - apply classed_ro; [|left; reflexivity]. apply mro_with_view; intros; apply mro_with_view; intros; apply mro_lift_out.
  - apply classed_ro; [|left; reflexivity]. apply mro_with_view; intros; apply mro_lift_out.
  - apply classed_ro; [|left; reflexivity]. apply mro_with_view; intros; apply mro_lift_out.
  - apply classed_ro; [|left; reflexivity]. apply mro_with_ptr; intros; apply mro_lift_out.
  - apply classed_ro; [|left; reflexivity]. apply mro_with_ptr; intros; apply mro_lift_out.
  - (* OSNew *) unfold classed, pM, s_default, bindM, retM. cbn [snd]. apply MC_null. split; reflexivity.
  - destruct (buf_ptr w b off); [|apply classed_bad]. apply classed_new. intros s. apply m_from_cstr.
  - destruct (buf_ptr w b off); [|apply classed_bad]. apply classed_new. intros s. apply m_from_ptr_len.
  - (* OSView *) destruct (eval_vexp w a); [|apply classed_bad].
    apply (classed_view_then w r s_from_view FNewStr (fun m nx => mk1m m nx None)).
    + intros v s _. apply m_from_ptr_len.
    + intros r0 s' H. apply MC_new. exact H.
  - apply classed_new. intros s. apply m_fill.
  - destruct (get_str w k); [|apply classed_bad]. apply classed_new. intros s0. apply m_from_ptr_len.
  - (* OSAssign *) destruct (get_str w d) as [sd|] eqn:Ed; [|apply classed_bad].
    destruct (get_str w s) as [ss|]; [|apply classed_bad].
    eapply classed_rep; [exact Ed|]. apply m_assign. eapply Hb; exact Ed.
  - destruct (get_str w k) as [x|] eqn:Ek; [|apply classed_bad].
    eapply classed_rep; [exact Ek|]. apply m_resize. eapply Hb; exact Ek.
  - (* OSPlusV *) destruct (get_str w k) as [x|] eqn:Ek; [|apply classed_bad].
    destruct (eval_vexp w a); [|apply classed_bad].
    apply (classed_view_then w r (s_plus_view x) FNewStr mk2m).
    + intros v s [A B]. apply m_plus; [apply mro_tail_view|]. rewrite A, B. apply fresh_none. exact Hfr.
    + intros r0 s' H. apply MC_plus. exact H.
  - destruct (get_str w k) as [x|] eqn:Ek; [|apply classed_bad].
    apply classed_plus. apply m_plus; [apply mro_tail_char|apply fresh_none; exact Hfr].
  - (* OSAppV *) destruct (get_str w k) as [x|] eqn:Ek; [|apply classed_bad].
    destruct (eval_vexp w a); [|apply classed_bad].
    apply (classed_view_then w r (s_append_view x) (fun r => FSetStr k (Some r)) (fun m nx => mk1m m nx (sbuf x))).
    + intros v s [A B]. apply m_append; [apply mro_tail_view|]. rewrite B. eapply Hb; exact Ek.
    + intros r0 s' H. eapply MC_rep; eassumption.
  - destruct (get_str w k) as [x|] eqn:Ek; [|apply classed_bad].
    eapply classed_rep; [exact Ek|]. apply m_append; [apply mro_tail_char|eapply Hb; exact Ek].
  - destruct (get_str w k) as [x|] eqn:Ek; [|apply classed_bad].
    eapply classed_rep; [exact Ek|]. apply m_append; [apply mro_tail_char|eapply Hb; exact Ek].
  - (* OSCmp *) destruct (get_str w a); [|apply classed_bad]. destruct (get_str w b); [|apply classed_bad].
    unfold classed, s_compare, s_compare_cstr, hash_str. eapply pM_bind; [apply pm_liftR|]. cbv beta. intros z s1 E. apply pM_ret. cbn [snd].
    apply MC_ro; [left; reflexivity|exact E].
  - destruct (get_str w a); [|apply classed_bad]. destruct (buf_ptr w b off); [|apply classed_bad].
    unfold classed, s_compare, s_compare_cstr, hash_str. eapply pM_bind; [apply pm_liftR|]. cbv beta. intros z s1 E. apply pM_ret. cbn [snd].
    apply MC_ro; [left; reflexivity|exact E].
  - destruct (get_str w k); [|apply classed_bad]. destruct (eval_vexp w a); [|apply classed_bad].
    unfold classed. eapply pM_bind; [apply pm_liftR|]. cbv beta. intros va s1 [A1 B1].
    eapply pM_bind; [apply pm_liftR|]. cbv beta. intros z s2 [A2 B2]. apply pM_ret. cbn [snd].
    apply MC_ro; [left; reflexivity|split; congruence].
  - destruct (get_str w k); [|apply classed_bad]. destruct (eval_vexp w a); [|apply classed_bad].
    unfold classed. eapply pM_bind; [apply pm_liftR|]. cbv beta. intros va s1 [A1 B1].
    eapply pM_bind; [apply pm_liftR|]. cbv beta. intros z s2 [A2 B2]. apply pM_ret. cbn [snd].
    apply MC_ro; [left; reflexivity|split; congruence].
  - destruct (get_str w k); [|apply classed_bad].
    unfold classed, hash_str. eapply pM_bind; [apply pm_liftR|]. cbv beta. intros z s1 E. apply pM_ret. cbn [snd].
    apply MC_ro; [left; reflexivity|exact E].
  - (* OSDetach *) destruct (get_str w k) as [x|] eqn:Ek; [|apply classed_bad].
    eapply classed_rel; [exact Ek|right; reflexivity].
  - (* OSSwap *) destruct (get_str w a) as [sa|] eqn:Ea; [|apply classed_bad].
    destruct (get_str w b) as [sb|] eqn:Eb; [|apply classed_bad].
    unfold classed. apply pM_ret. cbn [snd]. eapply MC_swap; [exact Ea|exact Eb|split; reflexivity].
  - (* OSDel *) destruct (get_str w k) as [x|] eqn:Ek; [|apply classed_bad].
    eapply classed_rel; [exact Ek|left; reflexivity].
  - (* OSMoveCtor *) destruct (get_str w k) as [x|] eqn:Ek; [|apply classed_bad].
    unfold classed, s_copy. eapply pM_bind; [apply m_from_ptr_len|]. cbv beta. intros r s1 H.
    unfold retO, pM. cbn [snd]. apply MC_new. exact H.
  - (* OSMoveAssign *) destruct (get_str w d) as [sd|] eqn:Ed; [|apply classed_bad].
    destruct (get_str w s) as [ss|]; [|apply classed_bad].
    unfold classed. eapply pM_bind; [apply m_assign; eapply Hb; exact Ed|]. cbv beta. intros r s1 H.
    unfold retO, pM. cbn [snd]. eapply MC_rep; eassumption.
  - (* OSByVal *) destruct (get_str w k) as [x|] eqn:Ek; [|apply classed_bad].
    unfold classed, s_copy. eapply pM_bind; [apply m_from_ptr_len|]. cbv beta. intros r s1 (L & n & -> & A & B & C & D).
    eapply pM_bind; [apply m_destroy|]. cbv beta. intros u s2 [E1 E2]. apply pM_ret. cbn [snd].
    apply MC_tmp; [|congruence]. rewrite E1, C. cbn [sbuf mem_drop mem_del]. rewrite Nat.eqb_refl.
    apply mem_del_absent. apply fresh_none. exact Hfr.
  - (* OTraits *) unfold classed. apply pM_ret. cbn [snd]. apply MC_ro; [left; reflexivity|split; reflexivity].
Qed.

(* ---- preservation *)
Lemma mclass_sinv w s' f : linv (wst w) (wstrs w) -> sinv (wst w) (wstrs w) -> mclass w (wst w) s' f ->
  sinv s' (wstrs (apply_effect w s' f)).
Proof.
  intros L S H. destruct H.
  - assert (E : wstrs (apply_effect w s' f) = wstrs w) by (destruct H as [->|(v & ->)]; reflexivity).
    rewrite E. eapply sinv_same; eassumption.
  - cbn [apply_effect wstrs]. destruct S as [Hf Hok]. split.
    + intros b l. rewrite H, H0. cbn [mem_get]. destruct (Nat.eqb_spec (snext (wst w)) b); [lia|]. intros G. apply Hf in G. lia.
    + intros k x G. eapply str_ok_frame; [apply (Hok k x G)|]. intros b E. rewrite H.
      pose proof (Hok k x G) as O. unfold str_ok in O. rewrite E in O. destruct O as (l & Hl & _).
      apply Hf in Hl. apply mem_get_cons_ne. lia.
  - cbn [apply_effect wstrs]. pose proof (sinv_same _ _ _ S H) as [Hf Hok]. split; [exact Hf|].
    intros k x G. apply nth_error_snoc in G. destruct G as [G|[_ G]]; [eapply Hok; eauto|].
    injection G as ->. unfold str_ok, str_null. reflexivity.
  - cbn [apply_effect wstrs]. eapply sinv_new; eassumption.
  - cbn [apply_effect wstrs]. eapply sinv_replace; try eassumption; [apply L|apply get_str_nth; assumption].
  - cbn [apply_effect wstrs]. eapply sinv_release; try eassumption; [apply L|apply get_str_nth; assumption].
  - cbn [apply_effect wstrs]. eapply sinv_plus; eassumption.
  - cbn [apply_effect wstrs]. destruct S as [Hf Hok]. split.
    + intros b l. rewrite H, H0. intros G. apply Hf in G. lia.
    + intros k x G. rewrite H. eapply Hok; exact G.
  - cbn [apply_effect wstrs]. pose proof (sinv_same _ _ _ S H1) as [Hf Hok]. split; [exact Hf|].
    pose proof (get_str_nth _ _ _ H) as Ha. pose proof (get_str_nth _ _ _ H0) as Hb.
    assert (Hla : (a < length (wstrs w))%nat) by (apply nth_error_Some; congruence).
    assert (Hlb : (b < length (set_nth (wstrs w) a (Some sb)))%nat).
    { apply nth_error_Some. rewrite nth_error_set_nth by exact Hla. destruct (Nat.eqb a b); congruence. }
    intros k x G. rewrite nth_error_set_nth in G by exact Hlb. destruct (Nat.eqb b k).
    + injection G as <-. eapply Hok; exact Ha.
    + rewrite nth_error_set_nth in G by exact Hla. destruct (Nat.eqb a k); [injection G as <-; eapply Hok; exact Hb|eapply Hok; exact G].
Qed.

Definition winv2 (w : world) : Prop := winv w /\ sinv (wst w) (wstrs w).

Lemma winv_owners_below w : winv w -> owners_below w.
Proof.
  intros [A B C D] k x Hk b E. apply B. pose proof (owns_cnt _ _ _ _ (get_str_nth _ _ _ Hk) E). lia.
Qed.
Lemma step_winv2 w o x w' : winv2 w -> step w o = (Ok x, w') -> winv2 w'.
Proof.
  intros [Hw Hs] H. split; [eapply step_winv; eassumption|].
  unfold step in H. pose proof (do_op_classed w o (winv_owners_below w Hw) (si_fresh _ _ Hs)) as K. unfold classed, pM in K.
  destruct (do_op w o (wst w)) as [[[r f]|?|?|] s2]; try discriminate.
  injection H as _ <-. cbn [snd] in K.
  pose proof (mclass_sinv w s2 f Hw Hs K) as G.
  assert (E : wst (apply_effect w s2 f) = s2) by (destruct f; reflexivity). rewrite E. exact G.
Qed.
Lemma run_ops_winv2 ops : forall w w', winv2 w -> run_ops w ops = Some w' -> winv2 w'.
Proof.
  induction ops as [|o ops IH]; intros w w' Hw H; simpl in H; [injection H as <-; exact Hw|].
  destruct (step w o) as [[x|?|?|] w1] eqn:E; try discriminate.
  eapply IH; [|exact H]. eapply step_winv2; eassumption.
Qed.
Lemma winv2_0 ct : winv2 (world0 ct).
Proof.
  split; [apply winv0|]. split.
  - intros b l H. discriminate.
  - intros k x H. destruct k; discriminate.
Qed.

(* C15_terminator, world level *)
Lemma terminator_world (ct : cty) (ops : list op) (w : world) : run_ops (world0 ct) ops = Some w ->
  (forall k x, get_str w k = Some x ->
     match sbuf x with
     | None => slen x = 0
     | Some b => exists l, mem_get (smem (wst w)) b = Some l /\ N.of_nat (length l) = slen x + 1 /\ bat l (slen x) = 0
     end) /\
  (forall k1 k2 x1 x2 b, get_str w k1 = Some x1 -> get_str w k2 = Some x2 ->
     sbuf x1 = Some b -> sbuf x2 = Some b -> k1 = k2).
Proof.
  intros Hrun. destruct (run_ops_winv2 ops (world0 ct) w (winv2_0 ct) Hrun) as [Hw [Hf Hok]]. split.
  - intros k x Hk. exact (Hok k x (get_str_nth _ _ _ Hk)).
  - intros k1 k2 x1 x2 b H1 H2 E1 E2. destruct Hw as [A B C D].
    eapply distinct_slots; [exact C|apply get_str_nth; exact H1|apply get_str_nth; exact H2|exact E1|exact E2].
Qed.

(* std::move of a basic_string is a copy (there is no move constructor): the new string denotes the source's text in a
   fresh buffer on top of the UNCHANGED memory, so the source keeps its value, its buffer and its terminator *)
Lemma move_ctor_is_copy w k x : fresh (wst w) -> str_ok (smem (wst w)) x -> get_str w k = Some x ->
  exists r s', do_op w (OSMoveCtor k) (wst w) = (Ok (src_out k x s', FNewStr r), s') /\
               constructed (wst w) (txt (smem (wst w)) x) (within (str_view x)) r s'.
Proof.
  intros Hf Hx Hk. cbn [do_op]. rewrite Hk. destruct (s_copy_ok (wst w) x Hf Hx) as (r & s' & E & C).
  exists r, s'. split; [|exact C]. unfold bindM. rewrite E. reflexivity.
Qed.
