(* Proofs about the owning-string operations of Str/StrModel.v (state monad M): on valid inputs every
   operation ends in Ok, its result denotes the reference text, keeps the terminator in a buffer of
   exactly len+1 bytes, reads only inside its sources, and changes no other buffer. *)
From Coq Require Import List NArith ZArith Bool Lia Arith.
From Coq Require Import ZifyBool ZifyNat ZifyN.
From FV Require Import Common.EventLog Str.StrModel Str.StrProofs.
Import ListNotations.
Local Open Scope N_scope.

(* ---- total correctness triples for M *)
Definition okM {A} (c : M A) (s : st) (Q : A -> st -> Prop) : Prop :=
  exists a s', c s = (Ok a, s') /\ Q a s'.
Lemma okM_ret {A} (a : A) s (Q : A -> st -> Prop) : Q a s -> okM (retM a) s Q.
Proof. intros H. exists a, s. split; [reflexivity|assumption]. Qed.
Lemma okM_bind {A C} (c : M A) (f : A -> M C) s Q1 Q2 :
  okM c s Q1 -> (forall a s', Q1 a s' -> okM (f a) s' Q2) -> okM (bindM c f) s Q2.
Proof.
  intros (a & s1 & E & H1) Hf. destruct (Hf a s1 H1) as (x & s2 & E2 & H2).
  exists x, s2. unfold bindM. rewrite E. split; assumption.
Qed.
Lemma okM_weaken {A} (c : M A) s (Q1 Q2 : A -> st -> Prop) :
  okM c s Q1 -> (forall a s', Q1 a s' -> Q2 a s') -> okM c s Q2.
Proof. intros (a & s' & E & H) HQ. exists a, s'. split; auto. Qed.

Definition st_alloc (s : st) (n : N) (junk : list byte) : st :=
  mkSt ((snext s, fill_list n junk) :: smem s) (S (snext s)) (sreads s) (sevs s ++ [EAlloc (snext s) n]).
Definition st_reads (s : st) (rl : list range) : st := mkSt (smem s) (snext s) (sreads s ++ rl) (sevs s).
Definition st_setbuf (s : st) (b : nat) (l : list byte) : st :=
  mkSt (mem_set (smem s) b l) (snext s) (sreads s) (sevs s).
Definition st_free (s : st) (b : nat) : st :=
  mkSt (mem_del (smem s) b) (snext s) (sreads s) (sevs s ++ [EFree b]).

Lemma okM_alloc n junk s : okM (m_alloc n junk) s (fun b s' => b = snext s /\ s' = st_alloc s n junk).
Proof. eexists _, _. split; [reflexivity|]. split; reflexivity. Qed.
Lemma okM_liftR {A} (c : mem -> R A) s (Q : A -> Prop) (B : range -> Prop) :
  okR (c (smem s)) Q B -> okM (liftR c) s (fun a s' => exists rl, Q a /\ Forall B rl /\ s' = st_reads s rl).
Proof.
  intros (a & l & E & Ha & Hl). exists a, (st_reads s l). unfold liftR. rewrite E. split; [reflexivity|].
  exists l. repeat split; assumption.
Qed.
Lemma okM_write b off w s l : mem_get (smem s) b = Some l -> off + N.of_nat (length w) <= N.of_nat (length l) ->
  okM (m_write b off w) s (fun _ s' => s' = st_setbuf s b (splice l (N.to_nat off) w)).
Proof.
  intros Hl Hb. exists tt, (st_setbuf s b (splice l (N.to_nat off) w)). unfold m_write. rewrite Hl.
  destruct (N.leb_spec (off + N.of_nat (length w)) (N.of_nat (length l))); [|lia]. split; reflexivity.
Qed.
Lemma okM_free b s l : mem_get (smem s) b = Some l -> okM (m_free b) s (fun _ s' => s' = st_free s b).
Proof. intros Hl. exists tt, (st_free s b). unfold m_free. rewrite Hl. split; reflexivity. Qed.

(* ---- memory facts *)
Definition fresh (s : st) : Prop := forall b l, mem_get (smem s) b = Some l -> (b < snext s)%nat.

Lemma mem_get_cons_eq m b l : mem_get ((b, l) :: m) b = Some l.
Proof. cbn [mem_get]. rewrite Nat.eqb_refl. reflexivity. Qed.
Lemma mem_get_cons_ne m b b' l : b <> b' -> mem_get ((b, l) :: m) b' = mem_get m b'.
Proof. intros H. cbn [mem_get]. destruct (Nat.eqb_spec b b'); [contradiction|reflexivity]. Qed.
Lemma mem_set_cons_eq m b l l' : mem_set ((b, l) :: m) b l' = (b, l') :: m.
Proof. cbn [mem_set]. rewrite Nat.eqb_refl. reflexivity. Qed.
Lemma mem_get_del_eq m b : mem_get (mem_del m b) b = None.
Proof. induction m as [|[b' l] m IH]; [reflexivity|]. cbn [mem_del]. destruct (Nat.eqb_spec b' b); [assumption|]. cbn [mem_get]. destruct (Nat.eqb_spec b' b); [contradiction|assumption]. Qed.
Lemma mem_get_del_ne m b b' : b <> b' -> mem_get (mem_del m b) b' = mem_get m b'.
Proof.
  intros H. induction m as [|[b0 l] m IH]; [reflexivity|]. cbn [mem_del].
  destruct (Nat.eqb_spec b0 b) as [E|E].
  - subst b0. rewrite IH. rewrite mem_get_cons_ne by assumption. reflexivity.
  - cbn [mem_get]. rewrite IH. reflexivity.
Qed.

Lemma valid_view_ext m b x v : (forall l, mem_get m b = Some l -> False) -> valid_view m v ->
  valid_view ((b, x) :: m) v /\ vtext ((b, x) :: m) v = vtext m v.
Proof.
  intros Hb. destruct v as [|b0 off len]; simpl; [auto|]. intros (l & Hl & Hlen).
  assert (b <> b0) by (intros ->; eapply Hb; eauto).
  destruct (Nat.eqb_spec b b0); [contradiction|]. split; [exists l; auto|reflexivity].
Qed.

(* memcpy of a whole valid view *)
Definition view_reads (v : view) : list range :=
  match v with VNull => [] | V b off len => if len =? 0 then [] else [mkR b off len] end.
Lemma view_reads_within v : Forall (within v) (view_reads v).
Proof.
  destruct v as [|b off len]; simpl; [constructor|]. destruct (N.eqb_spec len 0); constructor; [|constructor].
  simpl. repeat split; lia.
Qed.
Lemma readp_range_view m v : valid_view m v ->
  readp_range m (vptr v) (vlen v) = (Ok (vtext m v), view_reads v).
Proof.
  destruct v as [|b off len]; simpl; [reflexivity|]. intros (l & Hl & Hb). unfold readp_range.
  destruct (N.eqb_spec len 0) as [->|].
  - rewrite Hl. unfold retR, sub_list. simpl. reflexivity.
  - unfold read_range. destruct (N.eqb_spec len 0); [contradiction|]. rewrite Hl.
    destruct (N.leb_spec (off + len) (N.of_nat (length l))); [reflexivity|lia].
Qed.
(* a prefix of a valid view *)
Lemma readp_range_prefix m v n : valid_view m v -> n <= vlen v ->
  readp_range m (vptr v) n = (Ok (firstn (N.to_nat n) (vtext m v)), view_reads (sub_view v 0 n)).
Proof.
  intros Hv Hn. pose proof (sub_view_valid m v 0 n Hv) as H1. pose proof (sub_view_text m v 0 n Hv) as H2.
  assert (E : vptr (sub_view v 0 n) = vptr v).
  { destruct v; simpl; [reflexivity|]. f_equal. lia. }
  assert (E2 : vlen (sub_view v 0 n) = n).
  { destruct v; simpl in *; [lia|reflexivity]. }
  pose proof (readp_range_view m (sub_view v 0 n)) as R. rewrite E, E2, H2 in R by lia.
  rewrite R by (apply H1; lia). unfold sub_list. simpl. reflexivity.
Qed.

(* ---- building the buffer *)
Lemma fill_list_length n junk : length (fill_list n junk) = N.to_nat n.
Proof. unfold fill_list. rewrite firstn_length, app_length, repeat_length. lia. Qed.

Lemma splice_length {A} (l : list A) off w : (off + length w <= length l)%nat -> length (splice l off w) = length l.
Proof. intros H. unfold splice. rewrite !app_length, firstn_length, skipn_length. lia. Qed.
Lemma splice_nth_in {A} (l : list A) off w d i : (off + length w <= length l)%nat -> (off <= i < off + length w)%nat ->
  nth i (splice l off w) d = nth (i - off) w d.
Proof.
  intros H Hi. unfold splice. rewrite app_nth2 by (rewrite firstn_length; lia). rewrite firstn_length.
  replace (Nat.min off (length l)) with off by lia. rewrite app_nth1 by lia. reflexivity.
Qed.
Lemma splice_nth_out {A} (l : list A) off w d i : (off + length w <= length l)%nat -> (i < off \/ off + length w <= i)%nat ->
  nth i (splice l off w) d = nth i l d.
Proof.
  intros H Hi. unfold splice. destruct Hi as [Hi|Hi].
  - rewrite app_nth1 by (rewrite firstn_length; lia). apply nth_firstn_lt. lia.
  - rewrite app_nth2 by (rewrite firstn_length; lia). rewrite firstn_length.
    replace (Nat.min off (length l)) with off by lia. rewrite app_nth2 by lia.
    rewrite nth_skipn_add. f_equal. lia.
Qed.
Lemma splice_firstn {A} (l : list A) w : (length w <= length l)%nat -> firstn (length w) (splice l 0 w) = w.
Proof. intros H. unfold splice. simpl. rewrite firstn_app, Nat.sub_diag, firstn_all. simpl. apply app_nil_r. Qed.

(* buffer after "copy l to the front, put 0 at index n": exact length, terminator, prefix *)
Definition built (fill l : list byte) (n : N) : list byte := splice (splice fill 0 l) (N.to_nat n) [0].
Lemma built_length fill l n : length fill = S (N.to_nat n) -> (length l <= N.to_nat n)%nat ->
  length (built fill l n) = S (N.to_nat n).
Proof. intros Hf Hl. unfold built. rewrite !splice_length; simpl; try lia. rewrite splice_length; simpl; lia. Qed.
Lemma built_term fill l n : length fill = S (N.to_nat n) -> (length l <= N.to_nat n)%nat -> bat (built fill l n) n = 0.
Proof.
  intros Hf Hl. unfold bat, built. rewrite splice_nth_in; [rewrite Nat.sub_diag; reflexivity| |simpl; lia].
  rewrite splice_length; simpl; lia.
Qed.
Lemma built_prefix fill l n : length fill = S (N.to_nat n) -> (length l <= N.to_nat n)%nat ->
  firstn (length l) (built fill l n) = l.
Proof.
  intros Hf Hl. unfold built, splice at 1. rewrite firstn_app. rewrite firstn_firstn.
  replace (Nat.min (length l) (N.to_nat n)) with (length l) by lia.
  rewrite splice_firstn by lia. rewrite firstn_length, splice_length by (simpl; lia).
  replace (length l - Nat.min (N.to_nat n) (length fill))%nat with 0%nat by lia. simpl. apply app_nil_r.
Qed.
Lemma built_exact fill l n : length fill = S (N.to_nat n) -> length l = N.to_nat n -> built fill l n = l ++ [0].
Proof.
  intros Hf Hl.
  rewrite <- (firstn_skipn (length l) (built fill l n)). rewrite built_prefix by lia. f_equal.
  pose proof (built_length fill l n Hf ltac:(lia)) as HL. pose proof (built_term fill l n Hf ltac:(lia)) as HT.
  unfold bat in HT. rewrite <- Hl in HT.
  remember (skipn (length l) (built fill l n)) as t eqn:Et.
  assert (Hlt : length t = 1%nat) by (subst t; rewrite skipn_length; lia).
  destruct t as [|x [|y t]]; simpl in Hlt; try lia. f_equal.
  assert (nth 0 (x :: nil) 0 = nth (length l) (built fill l n) 0).
  { rewrite Et, nth_skipn_add. f_equal. lia. }
  simpl in H. rewrite H, HT. reflexivity.
Qed.

(* ---- strings *)
Definition str_ok (m : mem) (x : str) : Prop :=
  match sbuf x with
  | None => slen x = 0
  | Some b => exists l, mem_get m b = Some l /\ N.of_nat (length l) = slen x + 1 /\ bat l (slen x) = 0
  end.
Definition txt (m : mem) (x : str) : list byte := vtext m (str_view x).

Lemma str_view_valid m x : str_ok m x -> valid_view m (str_view x).
Proof.
  unfold str_ok, str_view, str_ptr. destruct (sbuf x) as [b|]; simpl; [|trivial].
  intros (l & Hl & Hlen & _). exists l. split; [assumption|lia].
Qed.
Lemma str_view_len x : str_ok [] x \/ True -> vlen (str_view x) = match sbuf x with Some _ => slen x | None => 0 end.
Proof. intros _. unfold str_view, str_ptr. destruct (sbuf x); reflexivity. Qed.
Lemma str_vlen m x : str_ok m x -> vlen (str_view x) = slen x.
Proof. unfold str_ok, str_view, str_ptr. destruct (sbuf x); simpl; [reflexivity|]. intros ->. reflexivity. Qed.
Lemma str_vptr x : vptr (str_view x) = str_ptr x.
Proof. unfold str_view. destruct (str_ptr x); reflexivity. Qed.

(* a fresh string whose buffer is the head of the memory *)
Lemma str_ok_head m b l n : length l = N.to_nat n -> str_ok ((b, l ++ [0]) :: m) (mkStr (Some b) n).
Proof.
  intros Hl. unfold str_ok. simpl. rewrite Nat.eqb_refl. exists (l ++ [0]). split; [reflexivity|].
  rewrite app_length. simpl. split; [lia|]. unfold bat. rewrite app_nth2 by lia. rewrite Hl, Nat.sub_diag. reflexivity.
Qed.
Lemma txt_head m b l n : length l = N.to_nat n -> txt ((b, l ++ [0]) :: m) (mkStr (Some b) n) = l.
Proof.
  intros Hl. unfold txt, str_view, str_ptr, vtext. simpl. rewrite Nat.eqb_refl. unfold sub_list. simpl.
  rewrite firstn_app, <- Hl, Nat.sub_diag, firstn_all. simpl. apply app_nil_r.
Qed.

(* what a constructor-like operation guarantees: Ok, a fresh buffer on top of an otherwise unchanged memory,
   the reference text, the terminator, one allocation event, reads inside the source *)
Definition constructed (s : st) (text : list byte) (B : range -> Prop) (r : str) (s' : st) : Prop :=
  exists rl,
    r = mkStr (Some (snext s)) (N.of_nat (length text)) /\
    s' = mkSt ((snext s, text ++ [0]) :: smem s) (S (snext s)) (sreads s ++ rl)
              (sevs s ++ [EAlloc (snext s) (N.of_nat (length text) + 1)]) /\
    Forall B rl.

Lemma constructed_ok s text B r s' : constructed s text B r s' ->
  str_ok (smem s') r /\ txt (smem s') r = text.
Proof.
  intros (rl & -> & -> & _). cbn [smem]. split; [apply str_ok_head|apply txt_head]; rewrite Nat2N.id; reflexivity.
Qed.

Lemma fresh_not_in s l : fresh s -> mem_get (smem s) (snext s) = Some l -> False.
Proof. intros Hf H. apply Hf in H. lia. Qed.

Lemma s_from_ptr_len_ok s v : fresh s -> valid_view (smem s) v ->
  okM (s_from_ptr_len (vptr v) (vlen v)) s (constructed s (vtext (smem s) v) (within v)).
Proof.
  intros Hf Hv. unfold s_from_ptr_len.
  pose proof (vtext_length (smem s) v Hv) as HL.
  eapply okM_bind; [apply okM_alloc|]. intros b s1 (-> & ->).
  destruct (valid_view_ext (smem s) (snext s) (fill_list (vlen v + 1) []) v (fun l => fresh_not_in s l Hf) Hv) as [Hv1 Ht1].
  eapply okM_bind.
  { apply okM_liftR with (Q := fun l => l = vtext (smem s) v) (B := within v). cbn [smem st_alloc].
    rewrite readp_range_view by assumption. exists (vtext (smem s) v), (view_reads v).
    split; [rewrite Ht1; reflexivity|]. split; [reflexivity|apply view_reads_within]. }
  intros l s2 (rl & -> & Hrl & ->).
  eapply okM_bind.
  { eapply okM_write; [cbn [smem st_reads st_alloc]; apply mem_get_cons_eq|]. rewrite fill_list_length. lia. }
  intros _ s3 ->.
  eapply okM_bind.
  { eapply okM_write; [cbn [smem st_setbuf st_reads st_alloc]; rewrite mem_set_cons_eq; apply mem_get_cons_eq|].
    rewrite splice_length; rewrite fill_list_length; simpl; lia. }
  intros _ s4 ->. apply okM_ret.
  exists rl. split; [f_equal; lia|]. split; [|assumption].
  unfold st_setbuf, st_reads, st_alloc. cbn [smem snext sreads sevs]. rewrite !mem_set_cons_eq.
  f_equal; [|f_equal; f_equal; f_equal; lia].
  f_equal. f_equal. change (splice (splice (fill_list (vlen v + 1) []) (N.to_nat 0) (vtext (smem s) v)) (N.to_nat (vlen v)) [0])
    with (built (fill_list (vlen v + 1) []) (vtext (smem s) v) (vlen v)).
  apply built_exact; [rewrite fill_list_length; lia|lia].
Qed.
