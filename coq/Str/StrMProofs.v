(* Proofs about the owning-string operations of Str/StrModel.v (state monad M): on valid inputs every
   operation ends in Ok, its result denotes the reference text, keeps the terminator in a buffer of
   exactly len+1 bytes, reads only inside its sources, and changes no other buffer. *)
From Coq Require Import List NArith ZArith Bool Lia Arith.
From Coq Require Import ZifyBool ZifyNat ZifyN.
From FV Require Import Common.EventLog Str.StrModel Str.StrProofs Str.StrNumProofs Str.StrProofs2.
Import ListNotations.
Local Open Scope N_scope.

(* ---- total correctness triples for M *)
Definition okM {A} (c : M A) (s : st) (Q : A -> st -> Prop) : Prop :=
  exists a s', c s = (Ok a, s') /\ Q a s'.
Lemma okM_ret {A} (a : A) s (Q : A -> st -> Prop) : Q a s -> okM (retM a) s Q.
Proof. intros H. exists a, s. split; [reflexivity|assumption]. Qed.
Lemma okM_bind {A C} (c : M A) (f : A -> M C) s Q1 Q2 :
  okM c s Q1 -> (forall a s', Q1 a s' -> okM (f a) s' Q2) -> okM (bindM c f) s Q2.
Proof.
  intros (a & s1 & E & H1) Hf. destruct (Hf a s1 H1) as (x & s2 & E2 & H2).
  exists x, s2. unfold bindM. rewrite E. split; assumption.
Qed.
Lemma okM_weaken {A} (c : M A) s (Q1 Q2 : A -> st -> Prop) :
  okM c s Q1 -> (forall a s', Q1 a s' -> Q2 a s') -> okM c s Q2.
Proof. intros (a & s' & E & H) HQ. exists a, s'. split; auto. Qed.

Definition st_alloc (s : st) (n : N) (junk : list byte) : st :=
  mkSt ((snext s, fill_list n junk) :: smem s) (S (snext s)) (sreads s) (sevs s ++ [EAlloc (snext s) n]).
Definition st_reads (s : st) (rl : list range) : st := mkSt (smem s) (snext s) (sreads s ++ rl) (sevs s).
Definition st_setbuf (s : st) (b : nat) (l : list byte) : st :=
  mkSt (mem_set (smem s) b l) (snext s) (sreads s) (sevs s).
Definition st_free (s : st) (b : nat) : st :=
  mkSt (mem_del (smem s) b) (snext s) (sreads s) (sevs s ++ [EFree b]).

Lemma okM_alloc n junk s : okM (m_alloc n junk) s (fun b s' => b = snext s /\ s' = st_alloc s n junk).
Proof. eexists _, _. split; [reflexivity|]. split; reflexivity. Qed.
Lemma okM_liftR {A} (c : mem -> R A) s (Q : A -> Prop) (B : range -> Prop) :
  okR (c (smem s)) Q B -> okM (liftR c) s (fun a s' => exists rl, Q a /\ Forall B rl /\ s' = st_reads s rl).
Proof.
  intros (a & l & E & Ha & Hl). exists a, (st_reads s l). unfold liftR. rewrite E. split; [reflexivity|].
  exists l. repeat split; assumption.
Qed.
Lemma okM_write b off w s l : mem_get (smem s) b = Some l -> off + N.of_nat (length w) <= N.of_nat (length l) ->
  okM (m_write b off w) s (fun _ s' => s' = st_setbuf s b (splice l (N.to_nat off) w)).
Proof.
  intros Hl Hb. exists tt, (st_setbuf s b (splice l (N.to_nat off) w)). unfold m_write. rewrite Hl.
  destruct (N.leb_spec (off + N.of_nat (length w)) (N.of_nat (length l))); [|lia]. split; reflexivity.
Qed.
Lemma okM_free b s l : mem_get (smem s) b = Some l -> okM (m_free b) s (fun _ s' => s' = st_free s b).
Proof. intros Hl. exists tt, (st_free s b). unfold m_free. rewrite Hl. split; reflexivity. Qed.

(* ---- memory facts *)
Definition fresh (s : st) : Prop := forall b l, mem_get (smem s) b = Some l -> (b < snext s)%nat.

Lemma mem_get_cons_eq m b l : mem_get ((b, l) :: m) b = Some l.
Proof. cbn [mem_get]. rewrite Nat.eqb_refl. reflexivity. Qed.
Lemma mem_get_cons_ne m b b' l : b <> b' -> mem_get ((b, l) :: m) b' = mem_get m b'.
Proof. intros H. cbn [mem_get]. destruct (Nat.eqb_spec b b'); [contradiction|reflexivity]. Qed.
Lemma mem_set_cons_eq m b l l' : mem_set ((b, l) :: m) b l' = (b, l') :: m.
Proof. cbn [mem_set]. rewrite Nat.eqb_refl. reflexivity. Qed.
Lemma mem_get_del_eq m b : mem_get (mem_del m b) b = None.
Proof. induction m as [|[b' l] m IH]; [reflexivity|]. cbn [mem_del]. destruct (Nat.eqb_spec b' b); [assumption|]. cbn [mem_get]. destruct (Nat.eqb_spec b' b); [contradiction|assumption]. Qed.
Lemma mem_get_del_ne m b b' : b <> b' -> mem_get (mem_del m b) b' = mem_get m b'.
Proof.
  intros H. induction m as [|[b0 l] m IH]; [reflexivity|]. cbn [mem_del].
  destruct (Nat.eqb_spec b0 b) as [E|E].
  - subst b0. rewrite IH. rewrite mem_get_cons_ne by assumption. reflexivity.
  - cbn [mem_get]. rewrite IH. reflexivity.
Qed.

Lemma valid_view_ext m b x v : (forall l, mem_get m b = Some l -> False) -> valid_view m v ->
  valid_view ((b, x) :: m) v /\ vtext ((b, x) :: m) v = vtext m v.
Proof.
  intros Hb. destruct v as [|b0 off len]; simpl; [auto|]. intros (l & Hl & Hlen).
  assert (b <> b0) by (intros ->; eapply Hb; eauto).
  destruct (Nat.eqb_spec b b0); [contradiction|]. split; [exists l; auto|reflexivity].
Qed.

(* memcpy of a whole valid view *)
Definition view_reads (v : view) : list range :=
  match v with VNull => [] | V b off len => if len =? 0 then [] else [mkR b off len] end.
Lemma view_reads_within v : Forall (within v) (view_reads v).
Proof.
  destruct v as [|b off len]; simpl; [constructor|]. destruct (N.eqb_spec len 0); constructor; [|constructor].
  simpl. repeat split; lia.
Qed.
Lemma readp_range_view m v : valid_view m v ->
  readp_range m (vptr v) (vlen v) = (Ok (vtext m v), view_reads v).
Proof.
  destruct v as [|b off len]; simpl; [reflexivity|]. intros (l & Hl & Hb). unfold readp_range.
  destruct (N.eqb_spec len 0) as [->|].
  - rewrite Hl. unfold retR, sub_list. simpl. reflexivity.
  - unfold read_range. destruct (N.eqb_spec len 0); [contradiction|]. rewrite Hl.
    destruct (N.leb_spec (off + len) (N.of_nat (length l))); [reflexivity|lia].
Qed.
(* a prefix of a valid view *)
Lemma readp_range_prefix m v n : valid_view m v -> n <= vlen v ->
  readp_range m (vptr v) n = (Ok (firstn (N.to_nat n) (vtext m v)), view_reads (sub_view v 0 n)).
Proof.
  intros Hv Hn. pose proof (sub_view_valid m v 0 n Hv) as H1. pose proof (sub_view_text m v 0 n Hv) as H2.
  assert (E : vptr (sub_view v 0 n) = vptr v).
  { destruct v; simpl; [reflexivity|]. f_equal. lia. }
  assert (E2 : vlen (sub_view v 0 n) = n).
  { destruct v; simpl in *; [lia|reflexivity]. }
  pose proof (readp_range_view m (sub_view v 0 n)) as R. rewrite E, E2, H2 in R by lia.
  rewrite R by (apply H1; lia). unfold sub_list. simpl. reflexivity.
Qed.

(* ---- building the buffer *)
Lemma fill_list_length n junk : length (fill_list n junk) = N.to_nat n.
Proof. unfold fill_list. rewrite firstn_length, app_length, repeat_length. lia. Qed.

Lemma splice_length {A} (l : list A) off w : (off + length w <= length l)%nat -> length (splice l off w) = length l.
Proof. intros H. unfold splice. rewrite !app_length, firstn_length, skipn_length. lia. Qed.
Lemma splice_nth_in {A} (l : list A) off w d i : (off + length w <= length l)%nat -> (off <= i < off + length w)%nat ->
  nth i (splice l off w) d = nth (i - off) w d.
Proof.
  intros H Hi. unfold splice. rewrite app_nth2 by (rewrite firstn_length; lia). rewrite firstn_length.
  replace (Nat.min off (length l)) with off by lia. rewrite app_nth1 by lia. reflexivity.
Qed.
Lemma splice_nth_out {A} (l : list A) off w d i : (off + length w <= length l)%nat -> (i < off \/ off + length w <= i)%nat ->
  nth i (splice l off w) d = nth i l d.
Proof.
  intros H Hi. unfold splice. destruct Hi as [Hi|Hi].
  - rewrite app_nth1 by (rewrite firstn_length; lia). apply nth_firstn_lt. lia.
  - rewrite app_nth2 by (rewrite firstn_length; lia). rewrite firstn_length.
    replace (Nat.min off (length l)) with off by lia. rewrite app_nth2 by lia.
    rewrite nth_skipn_add. f_equal. lia.
Qed.
Lemma splice_firstn {A} (l : list A) w : (length w <= length l)%nat -> firstn (length w) (splice l 0 w) = w.
Proof. intros H. unfold splice. simpl. rewrite firstn_app, Nat.sub_diag, firstn_all. simpl. apply app_nil_r. Qed.

(* buffer after "copy l to the front, put 0 at index n": exact length, terminator, prefix *)
Definition built (fill l : list byte) (n : N) : list byte := splice (splice fill 0 l) (N.to_nat n) [0].
Lemma built_length fill l n : length fill = S (N.to_nat n) -> (length l <= N.to_nat n)%nat ->
  length (built fill l n) = S (N.to_nat n).
Proof. intros Hf Hl. unfold built. rewrite !splice_length; simpl; try lia. rewrite splice_length; simpl; lia. Qed.
Lemma built_term fill l n : length fill = S (N.to_nat n) -> (length l <= N.to_nat n)%nat -> bat (built fill l n) n = 0.
Proof.
  intros Hf Hl. unfold bat, built. rewrite splice_nth_in; [rewrite Nat.sub_diag; reflexivity| |simpl; lia].
  rewrite splice_length; simpl; lia.
Qed.
Lemma built_prefix fill l n : length fill = S (N.to_nat n) -> (length l <= N.to_nat n)%nat ->
  firstn (length l) (built fill l n) = l.
Proof.
  intros Hf Hl. unfold built, splice at 1. rewrite firstn_app. rewrite firstn_firstn.
  replace (Nat.min (length l) (N.to_nat n)) with (length l) by lia.
  rewrite splice_firstn by lia. rewrite firstn_length, splice_length by (simpl; lia).
  replace (length l - Nat.min (N.to_nat n) (length fill))%nat with 0%nat by lia. simpl. apply app_nil_r.
Qed.
Lemma built_exact fill l n : length fill = S (N.to_nat n) -> length l = N.to_nat n -> built fill l n = l ++ [0].
Proof.
  intros Hf Hl.
  rewrite <- (firstn_skipn (length l) (built fill l n)). rewrite built_prefix by lia. f_equal.
  pose proof (built_length fill l n Hf ltac:(lia)) as HL. pose proof (built_term fill l n Hf ltac:(lia)) as HT.
  unfold bat in HT. rewrite <- Hl in HT.
  remember (skipn (length l) (built fill l n)) as t eqn:Et.
  assert (Hlt : length t = 1%nat) by (subst t; rewrite skipn_length; lia).
  destruct t as [|x [|y t]]; simpl in Hlt; try lia. f_equal.
  assert (nth 0 (x :: nil) 0 = nth (length l) (built fill l n) 0).
  { rewrite Et, nth_skipn_add. f_equal. lia. }
  simpl in H. rewrite H, HT. reflexivity.
Qed.

(* ---- strings *)
Definition str_ok (m : mem) (x : str) : Prop :=
  match sbuf x with
  | None => slen x = 0
  | Some b => exists l, mem_get m b = Some l /\ N.of_nat (length l) = slen x + 1 /\ bat l (slen x) = 0
  end.
Definition txt (m : mem) (x : str) : list byte := vtext m (str_view x).

Lemma str_view_valid m x : str_ok m x -> valid_view m (str_view x).
Proof.
  unfold str_ok, str_view, str_ptr. destruct (sbuf x) as [b|]; simpl; [|trivial].
  intros (l & Hl & Hlen & _). exists l. split; [assumption|lia].
Qed.
Lemma str_view_len x : str_ok [] x \/ True -> vlen (str_view x) = match sbuf x with Some _ => slen x | None => 0 end.
Proof. intros _. unfold str_view, str_ptr. destruct (sbuf x); reflexivity. Qed.
Lemma str_vlen m x : str_ok m x -> vlen (str_view x) = slen x.
Proof. unfold str_ok, str_view, str_ptr. destruct (sbuf x); simpl; [reflexivity|]. intros ->. reflexivity. Qed.
Lemma str_vptr x : vptr (str_view x) = str_ptr x.
Proof. unfold str_view. destruct (str_ptr x); reflexivity. Qed.

(* a fresh string whose buffer is the head of the memory *)
Lemma str_ok_head m b l n : length l = N.to_nat n -> str_ok ((b, l ++ [0]) :: m) (mkStr (Some b) n).
Proof.
  intros Hl. unfold str_ok. simpl. rewrite Nat.eqb_refl. exists (l ++ [0]). split; [reflexivity|].
  rewrite app_length. simpl. split; [lia|]. unfold bat. rewrite app_nth2 by lia. rewrite Hl, Nat.sub_diag. reflexivity.
Qed.
Lemma txt_head m b l n : length l = N.to_nat n -> txt ((b, l ++ [0]) :: m) (mkStr (Some b) n) = l.
Proof.
  intros Hl. unfold txt, str_view, str_ptr, vtext. simpl. rewrite Nat.eqb_refl. unfold sub_list. simpl.
  rewrite firstn_app, <- Hl, Nat.sub_diag, firstn_all. simpl. apply app_nil_r.
Qed.

(* what a constructor-like operation guarantees: Ok, a fresh buffer on top of an otherwise unchanged memory,
   the reference text, the terminator, one allocation event, reads inside the source *)
Definition constructed (s : st) (text : list byte) (B : range -> Prop) (r : str) (s' : st) : Prop :=
  exists rl,
    r = mkStr (Some (snext s)) (N.of_nat (length text)) /\
    s' = mkSt ((snext s, text ++ [0]) :: smem s) (S (snext s)) (sreads s ++ rl)
              (sevs s ++ [EAlloc (snext s) (N.of_nat (length text) + 1)]) /\
    Forall B rl.

Lemma constructed_ok s text B r s' : constructed s text B r s' ->
  str_ok (smem s') r /\ txt (smem s') r = text.
Proof.
  intros (rl & -> & -> & _). cbn [smem]. split; [apply str_ok_head|apply txt_head]; rewrite Nat2N.id; reflexivity.
Qed.

Lemma fresh_not_in s l : fresh s -> mem_get (smem s) (snext s) = Some l -> False.
Proof. intros Hf H. apply Hf in H. lia. Qed.

Lemma s_from_ptr_len_ok s v : fresh s -> valid_view (smem s) v ->
  okM (s_from_ptr_len (vptr v) (vlen v)) s (constructed s (vtext (smem s) v) (within v)).
Proof.
  intros Hf Hv. unfold s_from_ptr_len.
  pose proof (vtext_length (smem s) v Hv) as HL.
  eapply okM_bind; [apply okM_alloc|]. intros b s1 (-> & ->).
  destruct (valid_view_ext (smem s) (snext s) (fill_list (vlen v + 1) []) v (fun l => fresh_not_in s l Hf) Hv) as [Hv1 Ht1].
  eapply okM_bind.
  { apply okM_liftR with (Q := fun l => l = vtext (smem s) v) (B := within v). cbn [smem st_alloc].
    rewrite readp_range_view by assumption. exists (vtext (smem s) v), (view_reads v).
    split; [rewrite Ht1; reflexivity|]. split; [reflexivity|apply view_reads_within]. }
  intros l s2 (rl & -> & Hrl & ->).
  eapply okM_bind.
  { eapply okM_write; [cbn [smem st_reads st_alloc]; apply mem_get_cons_eq|]. rewrite fill_list_length. lia. }
  intros _ s3 ->.
  eapply okM_bind.
  { eapply okM_write; [cbn [smem st_setbuf st_reads st_alloc]; rewrite mem_set_cons_eq; apply mem_get_cons_eq|].
    rewrite splice_length; rewrite fill_list_length; simpl; lia. }
  intros _ s4 ->. apply okM_ret.
  exists rl. split; [f_equal; lia|]. split; [|assumption].
  unfold st_setbuf, st_reads, st_alloc. cbn [smem snext sreads sevs]. rewrite !mem_set_cons_eq.
  f_equal; [|f_equal; f_equal; f_equal; lia].
  f_equal. f_equal. change (splice (splice (fill_list (vlen v + 1) []) (N.to_nat 0) (vtext (smem s) v)) (N.to_nat (vlen v)) [0])
    with (built (fill_list (vlen v + 1) []) (vtext (smem s) v) (vlen v)).
  apply built_exact; [rewrite fill_list_length; lia|lia].
Qed.

(* ---- constructors derived from (pointer, length) *)
Lemma s_from_view_ok s v : fresh s -> valid_view (smem s) v ->
  okM (s_from_view v) s (constructed s (vtext (smem s) v) (within v)).
Proof. apply s_from_ptr_len_ok. Qed.

Lemma s_copy_ok s x : fresh s -> str_ok (smem s) x ->
  okM (s_copy x) s (constructed s (txt (smem s) x) (within (str_view x))).
Proof.
  intros Hf Hx. unfold s_copy. rewrite <- (str_vptr x), <- (str_vlen (smem s) x) by assumption.
  apply s_from_ptr_len_ok; [assumption|apply str_view_valid; assumption].
Qed.

Lemma fresh_reads s rl : fresh s -> fresh (st_reads s rl).
Proof. intros H. exact H. Qed.

Lemma constructed_after_reads s rl text (B : range -> Prop) r s' :
  Forall B rl -> constructed (st_reads s rl) text B r s' -> constructed s text B r s'.
Proof.
  intros Hrl (rl2 & -> & -> & H2). exists (rl ++ rl2). cbn [st_reads snext smem sreads sevs].
  split; [reflexivity|]. split; [rewrite app_assoc; reflexivity|apply Forall_app; split; assumption].
Qed.
Lemma constructed_weaken s text (B1 B2 : range -> Prop) r s' :
  (forall x, B1 x -> B2 x) -> constructed s text B1 r s' -> constructed s text B2 r s'.
Proof. intros HB (rl & A & B & C). exists rl. repeat split; try assumption. eapply Forall_impl; eauto. Qed.

Lemma within_shorter b o n n' r : n <= n' -> within (V b o n) r -> within (V b o n') r.
Proof. simpl. intros H (A & B & C). repeat split; lia. Qed.

Lemma s_from_cstr_ok s b o n : fresh s -> cstr_at (smem s) b o n ->
  okM (s_from_cstr (P b o)) s (constructed s (vtext (smem s) (V b o n)) (within (V b o (n + 1)))).
Proof.
  intros Hf Hc. unfold s_from_cstr.
  eapply okM_bind; [apply okM_liftR; apply strlen_ok; exact Hc|]. intros r s1 (rl & -> & Hrl & ->).
  eapply okM_weaken; [apply (s_from_ptr_len_ok (st_reads s rl) (V b o n)); [exact Hf|apply cstr_text_valid; exact Hc]|].
  intros x s' Hx. apply (constructed_after_reads s rl); [assumption|].
  eapply constructed_weaken; [|exact Hx]. intros y. apply within_shorter. lia.
Qed.

Lemma s_fill_ok s n c : fresh s ->
  okM (s_fill n c) s (constructed s (repeat c (N.to_nat n)) (fun _ => False)).
Proof.
  intros Hf. unfold s_fill.
  eapply okM_bind; [apply okM_alloc|]. intros b s1 (-> & ->).
  eapply okM_bind.
  { eapply okM_write; [cbn [smem st_alloc]; apply mem_get_cons_eq|]. rewrite fill_list_length, repeat_length. lia. }
  intros _ s3 ->.
  eapply okM_bind.
  { eapply okM_write; [cbn [smem st_setbuf st_alloc]; rewrite mem_set_cons_eq; apply mem_get_cons_eq|].
    rewrite splice_length; rewrite fill_list_length; simpl; rewrite ?repeat_length; lia. }
  intros _ s4 ->. apply okM_ret.
  exists []. rewrite repeat_length. split; [f_equal; lia|]. split; [|constructor].
  unfold st_setbuf, st_alloc. cbn [smem snext sreads sevs]. rewrite !mem_set_cons_eq, app_nil_r.
  f_equal; [|f_equal; f_equal; f_equal; lia].
  f_equal. f_equal.
  change (splice (splice (fill_list (n + 1) []) (N.to_nat 0) (repeat c (N.to_nat n))) (N.to_nat n) [0])
    with (built (fill_list (n + 1) []) (repeat c (N.to_nat n)) n).
  apply built_exact; [rewrite fill_list_length; lia|apply repeat_length].
Qed.

(* ---- destructor *)
Definition st_drop (s : st) (old : option nat) : st := match old with Some b => st_free s b | None => s end.
Lemma s_destroy_ok s x : str_ok (smem s) x -> okM (s_destroy x) s (fun _ s' => s' = st_drop s (sbuf x)).
Proof.
  unfold s_destroy, str_ok, st_drop. destruct (sbuf x) as [b|].
  - intros (l & Hl & _). eapply okM_free. exact Hl.
  - intros _. apply okM_ret. reflexivity.
Qed.

(* ---- a string that replaces an old one: fresh buffer, old buffer (if any) freed afterwards *)
Definition free_evs (old : option nat) : list ev := match old with Some b => [EFree b] | None => [] end.
Definition mem_drop (m : mem) (old : option nat) : mem := match old with Some b => mem_del m b | None => m end.
Definition replaced (s : st) (old : option nat) (text : list byte) (B : range -> Prop) (r : str) (s' : st) : Prop :=
  exists rl,
    r = mkStr (Some (snext s)) (N.of_nat (length text)) /\
    s' = mkSt ((snext s, text ++ [0]) :: mem_drop (smem s) old) (S (snext s)) (sreads s ++ rl)
              (sevs s ++ EAlloc (snext s) (N.of_nat (length text) + 1) :: free_evs old) /\
    Forall B rl.

Lemma replaced_ok s old text B r s' : replaced s old text B r s' ->
  str_ok (smem s') r /\ txt (smem s') r = text.
Proof.
  intros (rl & -> & -> & _). cbn [smem]. split; [apply str_ok_head|apply txt_head]; rewrite Nat2N.id; reflexivity.
Qed.

Lemma owned_below s x b : fresh s -> str_ok (smem s) x -> sbuf x = Some b -> (b < snext s)%nat.
Proof. intros Hf Hx E. unfold str_ok in Hx. rewrite E in Hx. destruct Hx as (l & Hl & _). eapply Hf; eauto. Qed.

Lemma drop_after_construct s x text (B : range -> Prop) r s1 : fresh s -> str_ok (smem s) x ->
  constructed s text B r s1 ->
  okM (s_destroy x) s1 (fun _ s' => replaced s (sbuf x) text B r s').
Proof.
  intros Hf Hx (rl & -> & -> & Hrl). unfold s_destroy, replaced.
  destruct (sbuf x) as [b|] eqn:E.
  - pose proof (owned_below s x b Hf Hx E) as Hlt.
    unfold str_ok in Hx. rewrite E in Hx. destruct Hx as (l & Hl & _).
    eapply okM_weaken; [eapply okM_free; cbn [smem]; rewrite mem_get_cons_ne by lia; exact Hl|].
    intros _ s' ->. exists rl. split; [reflexivity|]. split; [|assumption].
    unfold st_free. cbn [smem snext sreads sevs mem_drop free_evs mem_del].
    destruct (Nat.eqb_spec (snext s) b); [lia|]. rewrite <- app_assoc. reflexivity.
  - apply okM_ret. exists rl. split; [reflexivity|]. split; [|assumption].
    cbn [mem_drop free_evs]. reflexivity.
Qed.

(* operator= : the new value is a copy of src; the old buffer of dst is freed after the copy was made *)
Lemma s_assign_ok s dst src : fresh s -> str_ok (smem s) dst -> str_ok (smem s) src ->
  okM (s_assign dst src) s (replaced s (sbuf dst) (txt (smem s) src) (within (str_view src))).
Proof.
  intros Hf Hd Hs. unfold s_assign.
  eapply okM_bind; [apply s_copy_ok; assumption|]. intros other s1 Hc.
  eapply okM_bind; [eapply drop_after_construct; eassumption|]. intros u s2 Hr.
  apply okM_ret. exact Hr.
Qed.

Lemma readp_range_str m x : valid_view m (str_view x) -> vlen (str_view x) = slen x ->
  readp_range m (str_ptr x) (slen x) = (Ok (vtext m (str_view x)), view_reads (str_view x)).
Proof. intros Hv Hl. rewrite <- (str_vptr x), <- Hl. apply readp_range_view. assumption. Qed.

(* ---- resize *)
Lemma term_split (L : list byte) n : length L = S n -> nth n L 0 = 0 -> L = firstn n L ++ [0].
Proof.
  intros Hl Hz. rewrite <- (firstn_skipn n L) at 1. f_equal.
  remember (skipn n L) as t eqn:Et.
  assert (Hlt : length t = 1%nat) by (subst t; rewrite skipn_length; lia).
  destruct t as [|x [|y t]]; simpl in Hlt; try lia. f_equal.
  assert (H : nth 0 (x :: nil) 0 = nth n L 0) by (rewrite Et, nth_skipn_add; f_equal; lia).
  simpl in H. rewrite H, Hz. reflexivity.
Qed.

Lemma s_resize_ok s x n junk : fresh s -> str_ok (smem s) x ->
  okM (s_resize x n junk) s (fun r s' => exists text,
     length text = N.to_nat n /\
     firstn (N.to_nat (N.min (slen x) n)) text = firstn (N.to_nat (N.min (slen x) n)) (txt (smem s) x) /\
     replaced s (sbuf x) text (within (str_view x)) r s').
Proof.
  intros Hf Hx. unfold s_resize.
  pose proof (str_view_valid _ _ Hx) as Hv. pose proof (str_vlen _ _ Hx) as Hlen.
  pose proof (vtext_length _ _ Hv) as HL. fold (txt (smem s) x) in HL.
  set (cl := N.min (slen x) n).
  eapply okM_bind; [apply okM_alloc|]. intros b s1 (-> & ->).
  destruct (valid_view_ext (smem s) (snext s) (fill_list (n + 1) junk) (str_view x) (fun l => fresh_not_in s l Hf) Hv) as [Hv1 Ht1].
  eapply okM_bind.
  { apply okM_liftR with (Q := fun l => l = firstn (N.to_nat cl) (txt (smem s) x)) (B := within (str_view x)).
    cbn [smem st_alloc]. rewrite <- (str_vptr x). rewrite readp_range_prefix by (try assumption; lia).
    eexists _, _. split; [reflexivity|]. split; [rewrite Ht1; reflexivity|].
    eapply Forall_impl; [|apply view_reads_within]. intros r Hr. eapply sub_view_within; [| |exact Hr]; lia. }
  intros l s2 (rl & -> & Hrl & ->).
  assert (Hll : length (firstn (N.to_nat cl) (txt (smem s) x)) = N.to_nat cl) by (rewrite firstn_length; lia).
  eapply okM_bind.
  { eapply okM_write; [cbn [smem st_reads st_alloc]; apply mem_get_cons_eq|]. rewrite fill_list_length. lia. }
  intros _ s3 ->.
  eapply okM_bind.
  { eapply okM_write; [cbn [smem st_setbuf st_reads st_alloc]; rewrite mem_set_cons_eq; apply mem_get_cons_eq|].
    rewrite splice_length; rewrite fill_list_length; simpl; lia. }
  intros _ s4 ->.
  set (L := built (fill_list (n + 1) junk) (firstn (N.to_nat cl) (txt (smem s) x)) n).
  assert (HLlen : length L = S (N.to_nat n)) by (apply built_length; [rewrite fill_list_length; lia|lia]).
  assert (HLt : bat L n = 0) by (apply built_term; [rewrite fill_list_length; lia|lia]).
  assert (HLp : firstn (N.to_nat cl) L = firstn (N.to_nat cl) (txt (smem s) x)).
  { rewrite <- Hll at 1. apply built_prefix; [rewrite fill_list_length; lia|lia]. }
  pose proof (term_split L (N.to_nat n) HLlen HLt) as Hsplit.
  set (text := firstn (N.to_nat n) L) in *.
  assert (Htl : length text = N.to_nat n) by (unfold text; rewrite firstn_length; lia).
  eapply okM_bind.
  { eapply (drop_after_construct s x text (within (str_view x)) (mkStr (Some (snext s)) n)); [assumption|assumption|].
    exists rl. split; [f_equal; lia|]. split; [|assumption].
    unfold st_setbuf, st_reads, st_alloc. cbn [smem snext sreads sevs]. rewrite !mem_set_cons_eq.
    f_equal; [|f_equal; f_equal; f_equal; lia]. f_equal. f_equal. exact Hsplit. }
  intros u s5 Hr. apply okM_ret. exists text. split; [assumption|]. split; [|exact Hr].
  unfold text. rewrite firstn_firstn. replace (Nat.min (N.to_nat cl) (N.to_nat n)) with (N.to_nat cl) by lia. exact HLp.
Qed.

(* ---- operator+ / operator+= *)
Lemma splice_splice_front {A} (fill l t : list A) : (length l + length t <= length fill)%nat ->
  splice (splice fill 0 l) (length l) t = splice fill 0 (l ++ t).
Proof.
  intros H. unfold splice. cbn [firstn app Nat.add]. rewrite firstn_app, firstn_all, Nat.sub_diag. cbn [firstn].
  rewrite app_nil_r. rewrite skipn_app, skipn_all2 by lia. cbn [app].
  replace (length l + length t - length l)%nat with (length t) by lia.
  rewrite skipn_skipn_add, app_length, <- app_assoc. reflexivity.
Qed.

Definition tail_ok (s : st) (tail : M (list byte)) (t : list byte) (B : range -> Prop) : Prop :=
  forall x rd ev,
    okM tail (mkSt ((snext s, x) :: smem s) (S (snext s)) rd ev)
        (fun t' s2 => t' = t /\ exists rl, Forall B rl /\
                      s2 = mkSt ((snext s, x) :: smem s) (S (snext s)) (rd ++ rl) ev).
Lemma tail_view_ok s v : fresh s -> valid_view (smem s) v -> tail_ok s (tail_view v) (vtext (smem s) v) (within v).
Proof.
  intros Hf Hv x rd ev. unfold tail_view.
  destruct (valid_view_ext (smem s) (snext s) x v (fun l => fresh_not_in s l Hf) Hv) as [Hv1 Ht1].
  eapply okM_weaken.
  { apply okM_liftR with (Q := fun l => l = vtext (smem s) v) (B := within v). cbn [smem].
    rewrite readp_range_view by assumption. eexists _, _. split; [reflexivity|]. split; [assumption|apply view_reads_within]. }
  intros t' s2 (rl & -> & Hrl & ->). split; [reflexivity|]. exists rl. split; [assumption|reflexivity].
Qed.
Lemma tail_char_ok s c : tail_ok s (tail_char c) [c] (fun _ => False).
Proof.
  intros x rd ev. apply okM_ret. split; [reflexivity|]. exists []. split; [constructor|]. rewrite app_nil_r. reflexivity.
Qed.

Definition or_own (x : str) (B : range -> Prop) (r : range) : Prop := within (str_view x) r \/ B r.

Lemma s_concat_buf_ok s x tail t tn B : fresh s -> str_ok (smem s) x -> tail_ok s tail t B -> N.of_nat (length t) = tn ->
  okM (s_concat_buf x tail tn) s (fun b s' => b = snext s /\ exists rl, Forall (or_own x B) rl /\
     s' = mkSt ((snext s, (txt (smem s) x ++ t) ++ [0]) :: smem s) (S (snext s)) (sreads s ++ rl)
               (sevs s ++ [EAlloc (snext s) (slen x + tn + 1)])).
Proof.
  intros Hf Hx Ht Htn. unfold s_concat_buf.
  pose proof (str_view_valid _ _ Hx) as Hv. pose proof (str_vlen _ _ Hx) as Hlen.
  pose proof (vtext_length _ _ Hv) as HL. fold (txt (smem s) x) in HL.
  eapply okM_bind; [apply okM_alloc|]. intros b s1 (-> & ->).
  set (fill := fill_list (slen x + tn + 1) []).
  assert (Hfl : length fill = N.to_nat (slen x + tn + 1)) by apply fill_list_length.
  destruct (valid_view_ext (smem s) (snext s) fill (str_view x) (fun l => fresh_not_in s l Hf) Hv) as [Hv1 Ht1].
  eapply okM_bind.
  { apply okM_liftR with (Q := fun l => l = txt (smem s) x) (B := within (str_view x)).
    cbn [smem st_alloc]. fold fill. rewrite readp_range_str by assumption.
    eexists _, _. split; [reflexivity|]. split; [exact Ht1|apply view_reads_within]. }
  intros l s2 (rl & -> & Hrl & ->).
  eapply okM_bind.
  { eapply okM_write; [cbn [smem st_reads st_alloc]; apply mem_get_cons_eq|]. fold fill. lia. }
  intros _ s3 ->.
  unfold st_setbuf, st_reads, st_alloc. cbn [smem snext sreads sevs]. rewrite mem_set_cons_eq. fold fill.
  eapply okM_bind; [apply Ht|]. intros t' s4 (-> & rl2 & Hrl2 & ->).
  eapply okM_bind.
  { eapply okM_write; [cbn [smem]; apply mem_get_cons_eq|]. rewrite splice_length; simpl; lia. }
  intros _ s5 ->. unfold st_setbuf. cbn [smem snext sreads sevs]. rewrite mem_set_cons_eq.
  eapply okM_bind.
  { eapply okM_write; [cbn [smem]; apply mem_get_cons_eq|]. rewrite !splice_length; simpl; try lia. rewrite splice_length; simpl; lia. }
  intros _ s6 ->. unfold st_setbuf. cbn [smem snext sreads sevs]. rewrite mem_set_cons_eq.
  apply okM_ret. split; [reflexivity|]. exists (rl ++ rl2). split.
  { apply Forall_app; split; (eapply Forall_impl; [|eassumption]); intros r Hr; [left|right]; exact Hr. }
  rewrite app_assoc. f_equal. f_equal. f_equal.
  replace (N.to_nat (slen x)) with (length (txt (smem s) x)) by lia.
  cbn [N.to_nat]. rewrite splice_splice_front by lia.
  change (splice (splice fill 0 (txt (smem s) x ++ t)) (N.to_nat (slen x + tn)) [0])
    with (built fill (txt (smem s) x ++ t) (slen x + tn)).
  apply built_exact; [lia|rewrite app_length; lia].
Qed.

Lemma s_append_ok s x tail t tn B : fresh s -> str_ok (smem s) x -> tail_ok s tail t B -> N.of_nat (length t) = tn ->
  okM (s_append x tail tn) s (replaced s (sbuf x) (txt (smem s) x ++ t) (or_own x B)).
Proof.
  intros Hf Hx Ht Htn. unfold s_append.
  pose proof (vtext_length _ _ (str_view_valid _ _ Hx)) as HL. fold (txt (smem s) x) in HL. rewrite (str_vlen _ _ Hx) in HL.
  eapply okM_bind; [eapply s_concat_buf_ok; eassumption|]. intros b s1 (-> & rl & Hrl & ->).
  eapply okM_bind.
  { eapply (drop_after_construct s x (txt (smem s) x ++ t) (or_own x B) (mkStr (Some (snext s)) (slen x + tn))); [assumption|assumption|].
    exists rl. rewrite app_length. split; [f_equal; lia|]. split; [|assumption].
    f_equal. f_equal. f_equal. f_equal. lia. }
  intros u s2 Hr. apply okM_ret. exact Hr.
Qed.

Lemma mem_del_absent m b : mem_get m b = None -> mem_del m b = m.
Proof.
  induction m as [|[b' l] m IH]; [reflexivity|]. cbn [mem_get mem_del].
  destruct (Nat.eqb_spec b' b); [discriminate|]. intros H. rewrite IH by assumption. reflexivity.
Qed.
Lemma fresh_none s : fresh s -> mem_get (smem s) (snext s) = None.
Proof. intros Hf. destruct (mem_get (smem s) (snext s)) eqn:E; [exfalso; eapply fresh_not_in; eauto|reflexivity]. Qed.

(* operator+ : two allocations (scratch, result), the scratch buffer freed; nothing else changes *)
Definition plus_post (s : st) (text : list byte) (B : range -> Prop) (r : str) (s' : st) : Prop :=
  exists rl,
    r = mkStr (Some (S (snext s))) (N.of_nat (length text)) /\
    s' = mkSt ((S (snext s), text ++ [0]) :: smem s) (S (S (snext s))) (sreads s ++ rl)
              (sevs s ++ [EAlloc (snext s) (N.of_nat (length text) + 1);
                          EAlloc (S (snext s)) (N.of_nat (length text) + 1); EFree (snext s)]) /\
    Forall (fun rg => B rg \/ within (V (snext s) 0 (N.of_nat (length text))) rg) rl.

Lemma plus_post_ok s text B r s' : plus_post s text B r s' -> str_ok (smem s') r /\ txt (smem s') r = text.
Proof.
  intros (rl & -> & -> & _). cbn [smem]. split; [apply str_ok_head|apply txt_head]; rewrite Nat2N.id; reflexivity.
Qed.

Lemma s_plus_ok s x tail t tn B : fresh s -> str_ok (smem s) x -> tail_ok s tail t B -> N.of_nat (length t) = tn ->
  okM (s_plus x tail tn) s (plus_post s (txt (smem s) x ++ t) (or_own x B)).
Proof.
  intros Hf Hx Ht Htn. unfold s_plus.
  pose proof (vtext_length _ _ (str_view_valid _ _ Hx)) as HL. fold (txt (smem s) x) in HL. rewrite (str_vlen _ _ Hx) in HL.
  eapply okM_bind; [eapply s_concat_buf_ok; eassumption|]. intros b s1 (-> & rl & Hrl & ->).
  set (text := txt (smem s) x ++ t).
  assert (Htl : N.of_nat (length text) = slen x + tn) by (unfold text; rewrite app_length; lia).
  set (s1 := mkSt ((snext s, text ++ [0]) :: smem s) (S (snext s)) (sreads s ++ rl) (sevs s ++ [EAlloc (snext s) (slen x + tn + 1)])).
  assert (Hf1 : fresh s1).
  { intros b l. unfold s1. cbn [smem snext mem_get]. destruct (Nat.eqb_spec (snext s) b); [lia|]. intros H. apply Hf in H. lia. }
  assert (Hv1 : valid_view (smem s1) (V (snext s) 0 (slen x + tn))).
  { unfold s1. cbn [smem valid_view]. rewrite mem_get_cons_eq. eexists. split; [reflexivity|]. rewrite app_length. simpl. lia. }
  assert (Ht1 : vtext (smem s1) (V (snext s) 0 (slen x + tn)) = text).
  { unfold s1, vtext. cbn [smem view_text]. rewrite mem_get_cons_eq. unfold sub_list. simpl.
    replace (N.to_nat (slen x + tn)) with (length text) by lia.
    rewrite firstn_app, Nat.sub_diag, firstn_all. simpl. apply app_nil_r. }
  eapply okM_bind.
  { exact (s_from_ptr_len_ok s1 (V (snext s) 0 (slen x + tn)) Hf1 Hv1). }
  intros r s2 (rl2 & -> & -> & Hrl2). rewrite Ht1.
  eapply okM_bind.
  { eapply okM_free. cbn [smem s1 snext]. rewrite mem_get_cons_ne by lia. apply mem_get_cons_eq. }
  intros u s3 ->. apply okM_ret.
  exists (rl ++ rl2). split; [reflexivity|]. split.
  - unfold st_free, s1. cbn [smem snext sreads sevs mem_del].
    destruct (Nat.eqb_spec (S (snext s)) (snext s)); [lia|]. rewrite Nat.eqb_refl.
    rewrite (mem_del_absent _ _ (fresh_none s Hf)). rewrite <- !app_assoc. cbn [app].
    rewrite Htl. reflexivity.
  - apply Forall_app. split.
    + eapply Forall_impl; [|exact Hrl]. intros rg H. left. exact H.
    + eapply Forall_impl; [|exact Hrl2]. intros rg H. right. rewrite Htl. exact H.
Qed.

(* ---- read-only string operations *)
Lemma s_compare_ok ct s a b : str_ok (smem s) a -> str_ok (smem s) b ->
  okM (s_compare ct a b) s (fun z s' => z = cmp_ref ct (txt (smem s) a) (txt (smem s) b) /\
     exists rl, Forall (either (str_view a) (str_view b)) rl /\ s' = st_reads s rl).
Proof.
  intros Ha Hb. unfold s_compare.
  eapply okM_weaken.
  { apply okM_liftR. rewrite <- (str_vptr b), <- (str_vlen _ _ Hb).
    apply compare_len_ok; apply str_view_valid; assumption. }
  intros z s' (rl & Hz & Hrl & ->). split; [exact Hz|]. exists rl. split; [assumption|reflexivity].
Qed.

Lemma s_compare_cstr_ok ct s a b o n : str_ok (smem s) a -> cstr_at (smem s) b o n ->
  okM (s_compare_cstr ct a (P b o)) s (fun z s' => z = cmp_ref ct (txt (smem s) a) (vtext (smem s) (V b o n)) /\
     exists rl, Forall (either (str_view a) (V b o (n + 1))) rl /\ s' = st_reads s rl).
Proof.
  intros Ha Hc. unfold s_compare_cstr.
  eapply okM_weaken.
  { apply okM_liftR with (Q := fun z => z = cmp_ref ct (txt (smem s) a) (vtext (smem s) (V b o n)))
                         (B := either (str_view a) (V b o (n + 1))).
    eapply okR_bind.
    - eapply okR_weaken; [apply strlen_ok; exact Hc|intros ? E; exact E|intros r H; right; exact H].
    - intros r ->. eapply okR_weaken.
      + apply (compare_len_ok (smem s) ct (str_view a) (V b o n)); [apply str_view_valid; assumption|eapply cstr_text_valid; eassumption].
      + intros z E. exact E.
      + intros r [H|H]; [left; exact H|right]. eapply within_shorter; [|exact H]. lia. }
  intros z s' (rl & Hz & Hrl & ->). split; [exact Hz|]. exists rl. split; [assumption|reflexivity].
Qed.

Lemma s_starts_with_ok s a v : str_ok (smem s) a -> valid_view (smem s) v ->
  okM (s_starts_with a v) s (fun r s' => (r = true <-> is_prefix (vtext (smem s) v) (txt (smem s) a)) /\
     exists rl, Forall (either (str_view a) v) rl /\ s' = st_reads s rl).
Proof.
  intros Ha Hv. unfold s_starts_with. eapply okM_weaken.
  { apply okM_liftR. apply starts_with_ok; [apply str_view_valid; assumption|assumption]. }
  intros z s' (rl & Hz & Hrl & ->). split; [exact Hz|]. exists rl. split; [assumption|reflexivity].
Qed.
Lemma s_ends_with_ok s a v : str_ok (smem s) a -> valid_view (smem s) v ->
  okM (s_ends_with a v) s (fun r s' => (r = true <-> is_suffix (vtext (smem s) v) (txt (smem s) a)) /\
     exists rl, Forall (either (str_view a) v) rl /\ s' = st_reads s rl).
Proof.
  intros Ha Hv. unfold s_ends_with. eapply okM_weaken.
  { apply okM_liftR. apply ends_with_ok; [apply str_view_valid; assumption|assumption]. }
  intros z s' (rl & Hz & Hrl & ->). split; [exact Hz|]. exists rl. split; [assumption|reflexivity].
Qed.
Lemma hash_str_ok ct s a : str_ok (smem s) a ->
  okM (hash_str ct a) s (fun h s' => h = hash_ref ct (txt (smem s) a) 0 /\
     exists rl, Forall (within (str_view a)) rl /\ s' = st_reads s rl).
Proof.
  intros Ha. unfold hash_str. eapply okM_weaken.
  { apply okM_liftR. apply hash_view_ok. apply str_view_valid. assumption. }
  intros z s' (rl & Hz & Hrl & ->). split; [exact Hz|]. exists rl. split; [assumption|reflexivity].
Qed.

(* ---- summaries used by Props/Properties_C15.v *)
Lemma sub_string_reference m v from size : valid_view m v ->
  (from <= vlen v /\ size <= vlen v - from ->
     sub_string v from size = (Ok (sub_view v from size), []) /\
     valid_view m (sub_view v from size) /\
     vtext m (sub_view v from size) = sub_list (vtext m v) from size) /\
  (~ (from <= vlen v /\ size <= vlen v - from) -> sub_string v from size = (AssertStop a_sub_string, [])).
Proof.
  intros Hv. split.
  - intros [H1 H2]. split; [|split; [apply sub_view_valid|apply sub_view_text]; assumption].
    unfold sub_string, sub_string_with, chk_safe. destruct (N.leb_spec from (vlen v)); [|lia]. destruct (N.leb_spec size (vlen v - from)); [|lia].
    reflexivity.
  - apply sub_string_stops.
Qed.

Lemma terminator_of_posts s text B r s' :
  constructed s text B r s' \/ (exists old, replaced s old text B r s') \/ plus_post s text B r s' ->
  (exists b l, sbuf r = Some b /\ mem_get (smem s') b = Some l /\
               N.of_nat (length l) = slen r + 1 /\ bat l (slen r) = 0) /\
  txt (smem s') r = text.
Proof.
  intros H.
  assert (G : str_ok (smem s') r /\ txt (smem s') r = text /\ exists b, sbuf r = Some b).
  { destruct H as [H|[(old & H)|H]].
    - destruct (constructed_ok _ _ _ _ _ H) as [A C]. destruct H as (rl & E & _).
      split; [exact A|]. split; [exact C|]. rewrite E. eexists. reflexivity.
    - destruct (replaced_ok _ _ _ _ _ _ H) as [A C]. destruct H as (rl & E & _).
      split; [exact A|]. split; [exact C|]. rewrite E. eexists. reflexivity.
    - destruct (plus_post_ok _ _ _ _ _ H) as [A C]. destruct H as (rl & E & _).
      split; [exact A|]. split; [exact C|]. rewrite E. eexists. reflexivity. }
  destruct G as (Hok & Ht & b & Hb). split; [|exact Ht].
  unfold str_ok in Hok. rewrite Hb in Hok. destruct Hok as (l & Hl & Hlen & Hz). exists b, l. auto.
Qed.

Lemma ctor_view_reads s v : fresh s -> valid_view (smem s) v ->
  exists r s', s_from_view v s = (Ok r, s') /\
    exists rl, sreads s' = sreads s ++ rl /\ Forall (within v) rl.
Proof.
  intros Hf Hv. destruct (s_from_view_ok s v Hf Hv) as (r & s' & E & rl & _ & Es & Hrl).
  exists r, s'. split; [exact E|]. exists rl. split; [rewrite Es; reflexivity|assumption].
Qed.

Lemma plus_view_ok s x v : fresh s -> str_ok (smem s) x -> valid_view (smem s) v ->
  okM (s_plus_view x v) s (plus_post s (txt (smem s) x ++ vtext (smem s) v) (or_own x (within v))).
Proof. intros. eapply s_plus_ok; [assumption|assumption|apply tail_view_ok; assumption|apply vtext_length; assumption]. Qed.
Lemma plus_char_ok s x c : fresh s -> str_ok (smem s) x ->
  okM (s_plus_char x c) s (plus_post s (txt (smem s) x ++ [c]) (or_own x (fun _ => False))).
Proof. intros. eapply s_plus_ok; [assumption|assumption|apply tail_char_ok|reflexivity]. Qed.
Lemma append_view_ok s x v : fresh s -> str_ok (smem s) x -> valid_view (smem s) v ->
  okM (s_append_view x v) s (replaced s (sbuf x) (txt (smem s) x ++ vtext (smem s) v) (or_own x (within v))).
Proof. intros. eapply s_append_ok; [assumption|assumption|apply tail_view_ok; assumption|apply vtext_length; assumption]. Qed.
Lemma append_char_ok s x c : fresh s -> str_ok (smem s) x ->
  okM (s_append_char x c) s (replaced s (sbuf x) (txt (smem s) x ++ [c]) (or_own x (fun _ => False))) /\
  s_push_back = s_append_char.
Proof. intros. split; [eapply s_append_ok; [assumption|assumption|apply tail_char_ok|reflexivity]|reflexivity]. Qed.
Lemma ctor_ptr_len_and_view_ok s v : fresh s -> valid_view (smem s) v ->
  okM (s_from_ptr_len (vptr v) (vlen v)) s (constructed s (vtext (smem s) v) (within v)) /\
  okM (s_from_view v) s (constructed s (vtext (smem s) v) (within v)).
Proof. intros. split; [apply s_from_ptr_len_ok|apply s_from_view_ok]; assumption. Qed.
Lemma string_starts_ends_with_ok s a v : str_ok (smem s) a -> valid_view (smem s) v ->
  okM (s_starts_with a v) s (fun r s' => (r = true <-> is_prefix (vtext (smem s) v) (txt (smem s) a)) /\
     exists rl, Forall (either (str_view a) v) rl /\ s' = st_reads s rl) /\
  okM (s_ends_with a v) s (fun r s' => (r = true <-> is_suffix (vtext (smem s) v) (txt (smem s) a)) /\
     exists rl, Forall (either (str_view a) v) rl /\ s' = st_reads s rl).
Proof. intros. split; [apply s_starts_with_ok|apply s_ends_with_ok]; assumption. Qed.
