From FV Require Import Common.ExtractTypes Common.EventLog Str.StrModel.
From Coq Require Extraction.
From Coq Require Import ExtrOcamlBasic.
Extraction "../build/extract/str_model.ml" types_witness char_t char16_t char32_t wchar_t world0 step finish wf_closed view_text.
