From FV Require Import Common.ExtractTypes Common.EventLog Str.StrModel.
From Coq Require Extraction.
From Coq Require Import ExtrOcamlBasic.
Extraction "../build/extract/str_model.ml" types_witness world0 step finish wf_closed view_text.
