(* iterate = exactly the present keys' addresses, once each, in ascending key order. *)
From Coq Require Import List NArith Arith Bool Lia ZifyBool ZifyNat ZifyN Sorting.Sorted.
From FV Require Import Common.EventLog Radix.RadixModel Radix.RadixBits Radix.RadixInv Radix.RadixExec
  Radix.RadixSem Radix.RadixFind Radix.RadixPres Radix.RadixSpec Radix.RadixHist Radix.RadixShape Radix.RadixIter
  Radix.RadixOrder Radix.RadixLoop.
Import ListNotations.
Local Open Scope N_scope.

Arguments pfxP : simpl never.
Arguments idxP : simpl never.

Lemma SS_flat_map_sorted {A B} (R' : A -> A -> Prop) (R : B -> B -> Prop) (g : A -> list B) l :
  StronglySorted R' l -> (forall a, In a l -> StronglySorted R (g a)) ->
  (forall a b x y, R' a b -> In x (g a) -> In y (g b) -> R x y) ->
  StronglySorted R (flat_map g l).
Proof.
  intros S Hs Hc. induction S as [|a l S IH Fa]; cbn [flat_map]; [constructor|].
  apply SS_app.
  - apply Hs. left. reflexivity.
  - apply IH. intros b Hb. apply Hs. right. exact Hb.
  - intros x y Hx Hy. apply in_flat_map in Hy. destruct Hy as (b & Hb & Hy).
    rewrite Forall_forall in Fa. exact (Hc a b x y (Fa b Hb) Hx Hy).
Qed.

Lemma SS_with_pred {A} (R : A -> A -> Prop) (Q : A -> Prop) l :
  StronglySorted R l -> (forall x, In x l -> Q x) -> StronglySorted (fun a b => R a b /\ Q a /\ Q b) l.
Proof.
  intros S. induction S as [|a l S IH Fa]; intros HQ; constructor.
  - apply IH. intros x Hx. apply HQ. right. exact Hx.
  - rewrite Forall_forall in *. intros b Hb. split; [apply Fa; exact Hb|]. split; apply HQ; [left; reflexivity|right; exact Hb].
Qed.

Lemma bits_from_length m : forall n from, (length (bits_from n m from) <= n)%nat.
Proof.
  induction n as [|n IH]; intros from; cbn [bits_from]; [cbn; lia|].
  destruct (16 <=? from); [cbn; lia|]. destruct (N.testbit m from); cbn [length]; specialize (IH (from + 1)); lia.
Qed.

(* aligned prefix + slot index *)
Lemma aligned_add x ix : x < K64 -> pfxP x 15 = x -> ix < 16 ->
  x + ix < K64 /\ hi (x + ix) 15 = hi x 15 /\ idxP (x + ix) 15 = ix /\ pfxP (x + ix) 15 = x.
Proof.
  intros Hx Ha Hi. unfold pfxP, idxP in *. change (15 + 1) with 16. rewrite !hi_16. unfold hi in *. change (P 15) with 16 in *.
  set (q := x / 16) in *.
  assert (E : x + ix = q * 16 + ix) by lia.
  assert (Q : (x + ix) / 16 = q).
  { rewrite E. rewrite N.div_add_l by lia. rewrite (N.div_small ix 16) by lia. lia. }
  assert (Mo : (x + ix) mod 16 = ix).
  { rewrite E. rewrite N.add_comm, N.mod_add by lia. apply N.mod_small. exact Hi. }
  unfold K64 in *. repeat split; try lia.
Qed.

Definition key_of (H : list node) (a : addr) : N := pf H (fst a) + snd a.

Section IterSpec.
  Variables (s : st).
  Hypothesis (I : Inv_s s) (Sh : Shape (nodes s) (root s)).
  Local Notation H := (nodes s).
  Local Notation rt := (root s).
  Local Notation L := (whole (nodes s) (root s) 17).

  Lemma L_bound : (length L <= length H)%nat.
  Proof.
    assert (Inc : incl L (seq 0 (length H))).
    { intros e Hin. destruct (whole_entries H rt e I Sh Hin) as (en & Ge & _). apply in_seq.
      assert (e < length H)%nat by (apply nth_error_Some; congruence). lia. }
    pose proof (NoDup_incl_length (whole_nodup H rt I Sh) Inc) as Le. rewrite seq_length in Le. exact Le.
  Qed.

  Lemma all_slots_length : (length (all_slots H rt) <= 16 * length H)%nat.
  Proof.
    pose proof L_bound as LB. unfold all_slots.
    assert (Q : forall l, (length (flat_map (slots_of H) l) <= 16 * length l)%nat).
    { induction l as [|e l IH]; cbn [flat_map length]; [lia|].
      rewrite app_length. unfold slots_of at 1. rewrite map_length. pose proof (bits_from_length (mask_of H e) 16 0). lia. }
    specialize (Q L). lia.
  Qed.

  Theorem iterate_spec : iterate s = Ok (all_slots H rt).
  Proof.
    unfold iterate, iter_begin. unfold all_slots.
    pose proof L_bound as LB. pose proof all_slots_length as AL. unfold all_slots in AL.
    pose proof I as I0. unfold Inv_s in I0.
    destruct rt as [r|] eqn:Er.
    - destruct (inv_root _ _ I0 r eq_refl) as (rn & Gr & _).
      destruct (first_leaf_spec H (Some r) I0 Sh 17 r rn Gr ltac:(unfold enough; lia)) as (e & rest & EL & EF).
      assert (EL' : whole H (Some r) 17 = [] ++ e :: rest) by exact EL.
      unfold first_leaf. rewrite EF. cbn [bind].
      rewrite EL' in LB. cbn [app length] in LB.
      rewrite (begin_loop_spec H (Some r) I0 Sh rest [] e (S (length H)) EL' ltac:(lia)). cbn [bind].
      assert (Eall : flat_map (slots_of H) (whole H (Some r) 17) = rem_seq H e 0 rest) by (rewrite EL'; reflexivity).
      rewrite Eall in AL |- *.
      (* normalise the sequence: find the first leaf with a set bit *)
      assert (N : rem_seq H e 0 rest = [] \/
                  exists A' e' B' p t, whole H (Some r) 17 = A' ++ e' :: B' /\ bits_from 16 (mask_of H e') 0 = p :: t /\
                                       rem_seq H e 0 rest = (e', p) :: map (pair e') t ++ flat_map (slots_of H) B').
      { assert (Er0 : rem_seq H e 0 rest = map (pair e) (bits_from 16 (mask_of H e) 0) ++ flat_map (slots_of H) rest) by reflexivity.
        rewrite Er0. destruct (bits_from 16 (mask_of H e) 0) as [|p t] eqn:Eb.
        - cbn [map app]. rewrite <- (rem_seq_end H e rest). apply (rem_normal H (Some r) rest [] e EL').
        - right. exists [], e, rest, p, t. split; [exact EL'|]. split; [exact Eb|]. reflexivity. }
      destruct N as [E|(A' & e' & B' & p & t & EL2 & Eb & E)].
      + rewrite E. reflexivity.
      + rewrite E in AL |- *. cbn [iter_at].
        assert (Hp : In p (bits_from 16 (mask_of H e') 0)) by (rewrite Eb; left; reflexivity).
        destruct (bits_from_props _ _ _ _ Hp) as (_ & Hp16 & Bp).
        assert (LB2 : (length (whole H (Some r) 17) <= length H)%nat) by (rewrite EL'; cbn [app length]; lia).
        assert (Et : t = bits_from 16 (mask_of H e') (p + 1)).
        { apply (bits_from_cons _ 16%nat 0 p t); [cbn [N.to_nat]; lia|exact Eb]. }
        rewrite (iterate_loop_spec H (Some r) I0 Sh s eq_refl _ A' e' B' p t [] (S (16 * length H)) EL2 LB2 Bp Hp16 Et eq_refl);
          [reflexivity|].
        cbn [length] in AL. apply le_n_S. exact AL.
    - cbn [first_leaf bind begin_loop]. reflexivity.
  Qed.

  Definition all_keys : list N := map (key_of H) (all_slots H rt).

  Lemma leaf_aligned e : In e L -> pf H e < K64 /\ pfxP (pf H e) 15 = pf H e.
  Proof.
    intros Hin. destruct (whole_entries H rt e I Sh Hin) as (en & Ge & Hent). unfold pf. rewrite Ge.
    pose proof (inv_ok _ _ I _ _ Ge) as (A & B & _). pose proof (node_ok_entry _ (inv_ok _ _ I _ _ Ge) Hent) as D.
    rewrite D in B. auto.
  Qed.

  Lemma slot_found e ix : In e L -> In ix (bits_from 16 (mask_of H e) 0) ->
    key_of H (e, ix) < K64 /\ find s (key_of H (e, ix)) = Ok (Some (e, ix)).
  Proof.
    intros Hin Hix. destruct (bits_from_props _ _ _ _ Hix) as (_ & Hi16 & Bit).
    destruct (leaf_aligned e Hin) as (Hlt & Hal).
    destruct (aligned_add (pf H e) ix Hlt Hal Hi16) as (K & Hh & Hi & _).
    unfold key_of. cbn [fst snd]. split; [exact K|].
    destruct (whole_entries H rt e I Sh Hin) as (en & Ge & Hent).
    assert (Epf : pf H e = n_prefix en) by (unfold pf; rewrite Ge; reflexivity).
    assert (Emask : mask_of H e = n_mask en) by (unfold mask_of; rewrite Ge; reflexivity).
    assert (W : Walk H (pf H e + ix) None rt (FCase3 e (n_mask en) (idxP (pf H e + ix) 15))).
    { unfold whole in Hin. pose proof I as I0. unfold Inv_s in I0. destruct rt as [r|] eqn:Er; [|destruct Hin].
      cbn [leaves_of] in Hin. destruct (inv_root _ _ I0 r eq_refl) as (rn & Gr & _).
      apply (leaf_walk H (Some r) I0 _ 17 r rn e en None Gr ltac:(unfold enough; lia) Hin Ge).
      rewrite Hh, Epf. reflexivity. }
    rewrite (find_of_walk s _ _ I K W). cbn [find_of_stop]. rewrite Hi, <- Emask, Bit. reflexivity.
  Qed.

  Lemma all_slots_in a : In a (all_slots H rt) <-> In (fst a) L /\ In (snd a) (bits_from 16 (mask_of H (fst a)) 0).
  Proof.
    unfold all_slots. rewrite in_flat_map. split.
    - intros (e & He & Ha). unfold slots_of in Ha. apply in_map_iff in Ha. destruct Ha as (ix & <- & Hix). cbn [fst snd]. auto.
    - intros (He & Hix). exists (fst a). split; [exact He|]. unfold slots_of. apply in_map_iff. exists (snd a).
      split; [destruct a; reflexivity|exact Hix].
  Qed.

  Lemma found_in_slots k a : k < K64 -> find s k = Ok (Some a) -> In a (all_slots H rt) /\ key_of H a = k.
  Proof.
    intros Hk F. destruct (find_walk s k I Hk) as (st & W & F'). rewrite F in F'. injection F' as F'.
    destruct st as [p|p si|e m ix]; try discriminate. cbn [find_of_stop] in F'.
    destruct (N.testbit m ix) eqn:B; [|discriminate]. injection F' as ->.
    destruct (walk_entry_facts _ _ _ _ _ _ _ W) as (en & Ge & Hent & Hm & -> & ->).
    pose proof (node_ok_entry _ (inv_ok _ _ I _ _ Ge) Hent) as Hd. rewrite Hd in *.
    assert (Hin : In e L).
    { unfold whole. pose proof I as I0. unfold Inv_s in I0. destruct rt as [r|] eqn:Er; [|apply Walk_inv in W; discriminate].
      destruct (inv_root _ _ I0 r eq_refl) as (rn & Gr & _). cbn [leaves_of].
      apply (walk_leaf_in H (Some r) I0 k None (Some r) _ W e (n_mask en) (idxP k 15) eq_refl 17 r rn eq_refl Gr).
      unfold enough. lia. }
    split.
    - apply all_slots_in. cbn [fst snd]. split; [exact Hin|].
      apply bits_from_complete; [lia|lia|apply idx_lt|]. unfold mask_of. rewrite Ge. exact B.
    - unfold key_of, pf. cbn [fst snd]. rewrite Ge, <- Hm. symmetry. apply key_decomp.
  Qed.

  Theorem all_keys_sorted : StronglySorted N.lt all_keys.
  Proof.
    unfold all_keys, all_slots.
    assert (E : map (key_of H) (flat_map (slots_of H) L) =
                flat_map (fun e => map (fun ix => pf H e + ix) (bits_from 16 (mask_of H e) 0)) L).
    { generalize L as l. induction l as [|e l IH]; [reflexivity|]. cbn [flat_map]. rewrite map_app, IH. f_equal.
      unfold slots_of. rewrite map_map. reflexivity. }
    rewrite E.
    pose proof (whole_sorted H rt I Sh) as SL.
    apply (SS_flat_map_sorted (fun a b => pf H a < pf H b /\ In a L /\ In b L)).
    - apply SS_with_pred; [exact SL|auto].
    - intros e He.
      assert (Mono : forall l0, StronglySorted N.lt l0 -> StronglySorted N.lt (map (fun ix => pf H e + ix) l0)).
      { induction 1 as [|x l0 S0 IH0 F0]; cbn [map]; constructor; [exact IH0|].
        rewrite Forall_forall in *. intros y Hy. apply in_map_iff in Hy. destruct Hy as (z & <- & Hz). specialize (F0 z Hz). lia. }
      apply Mono. apply bits_from_sorted.
    - intros a b x y (Lt & Ha & Hb) Hx Hy.
      apply in_map_iff in Hx. destruct Hx as (ix & <- & Hix). apply in_map_iff in Hy. destruct Hy as (iy & <- & Hiy).
      destruct (bits_from_props _ _ _ _ Hix) as (_ & Hx16 & _). destruct (bits_from_props _ _ _ _ Hiy) as (_ & Hy16 & _).
      destruct (leaf_aligned a Ha) as (_ & Aa). destruct (leaf_aligned b Hb) as (_ & Ab).
      unfold pfxP, hi in Aa, Ab. change (P 15) with 16 in Aa, Ab.
      assert (pf H a / 16 < pf H b / 16).
      { destruct (N.lt_ge_cases (pf H a / 16) (pf H b / 16)) as [Q|Q]; [exact Q|]. exfalso.
        assert (pf H b / 16 * 16 <= pf H a / 16 * 16) by (apply N.mul_le_mono_r; exact Q). lia. }
      lia.
  Qed.
End IterSpec.
