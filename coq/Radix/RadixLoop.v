(* The iterator loops (begin, operator++, the for loop) enumerate, leaf by leaf along the
   depth-first leaf sequence, the set mask bits in ascending order. *)
From Coq Require Import List NArith Arith Bool Lia ZifyBool ZifyNat ZifyN Sorting.Sorted.
From FV Require Import Common.EventLog Radix.RadixModel Radix.RadixBits Radix.RadixInv Radix.RadixExec
  Radix.RadixSem Radix.RadixFind Radix.RadixPres Radix.RadixSpec Radix.RadixHist Radix.RadixShape Radix.RadixIter
  Radix.RadixOrder.
Import ListNotations.
Local Open Scope N_scope.

Arguments N.testbit : simpl never.
Arguments N.leb : simpl never.

(* set bit positions p with from <= p < 16, ascending *)
Fixpoint bits_from (n : nat) (m from : N) : list N :=
  match n with O => [] | S n' =>
    if 16 <=? from then []
    else if N.testbit m from then from :: bits_from n' m (from + 1) else bits_from n' m (from + 1)
  end.

Lemma bits_from_fuel m : forall n n' from, (16 <= n + N.to_nat from)%nat -> (16 <= n' + N.to_nat from)%nat ->
  bits_from n m from = bits_from n' m from.
Proof.
  induction n as [|n IH]; intros n' from E E'.
  - destruct n' as [|n']; [reflexivity|]. cbn [bits_from]. destruct (16 <=? from) eqn:L; [reflexivity|]. apply N.leb_gt in L. lia.
  - destruct n' as [|n'].
    + cbn [bits_from]. destruct (16 <=? from) eqn:L; [reflexivity|]. apply N.leb_gt in L. lia.
    + cbn [bits_from]. destruct (16 <=? from) eqn:L; [reflexivity|]. apply N.leb_gt in L.
      rewrite (IH n' (from + 1)) by lia. reflexivity.
Qed.

Lemma scan_bits_spec m : forall n from, scan_bits n m from = hd_error (bits_from n m from).
Proof.
  induction n as [|n IH]; intros from; cbn [scan_bits bits_from]; [reflexivity|].
  destruct (16 <=? from); [reflexivity|]. destruct (N.testbit m from); [reflexivity|]. apply IH.
Qed.

Lemma bits_from_props m : forall n from p, In p (bits_from n m from) -> from <= p /\ p < 16 /\ N.testbit m p = true.
Proof.
  induction n as [|n IH]; intros from p Hin; [destruct Hin|]. cbn [bits_from] in Hin.
  destruct (16 <=? from) eqn:L; [destruct Hin|]. apply N.leb_gt in L.
  destruct (N.testbit m from) eqn:B.
  - destruct Hin as [<-|Hin]; [repeat split; [lia|exact L|exact B]|]. destruct (IH _ _ Hin) as (A & C & D). repeat split; [lia|exact C|exact D].
  - destruct (IH _ _ Hin) as (A & C & D). repeat split; [lia|exact C|exact D].
Qed.

(* the tail after the first reported bit is the scan from the next position *)
Lemma bits_from_cons m : forall n from p t, (16 <= n + N.to_nat from)%nat -> bits_from n m from = p :: t ->
  t = bits_from 16 m (p + 1).
Proof.
  induction n as [|n IH]; intros from p t E Hb; [discriminate|]. cbn [bits_from] in Hb.
  destruct (16 <=? from) eqn:L; [discriminate|]. apply N.leb_gt in L.
  destruct (N.testbit m from).
  - injection Hb as <- <-. apply bits_from_fuel; lia.
  - apply (IH (from + 1) p t); [lia|exact Hb].
Qed.

Lemma bits_from_complete m : forall n from p, (16 <= n + N.to_nat from)%nat -> from <= p -> p < 16 -> N.testbit m p = true ->
  In p (bits_from n m from).
Proof.
  induction n as [|n IH]; intros from p E L1 L2 B; [lia|]. cbn [bits_from].
  destruct (16 <=? from) eqn:L; [apply N.leb_le in L; lia|].
  destruct (N.eq_dec from p) as [->|Hne].
  - rewrite B. left. reflexivity.
  - destruct (N.testbit m from); [right|]; apply IH; lia || assumption.
Qed.

Lemma bits_from_sorted m : forall n from, StronglySorted N.lt (bits_from n m from).
Proof.
  induction n as [|n IH]; intros from; cbn [bits_from]; [constructor|].
  destruct (16 <=? from); [constructor|]. destruct (N.testbit m from); [|apply IH].
  constructor; [apply IH|]. apply Forall_forall. intros p Hp. destruct (bits_from_props _ _ _ _ Hp). lia.
Qed.

Lemma bits_from_end m n : bits_from n m 16 = [].
Proof. destruct n; reflexivity. Qed.

Definition mask_of (H : list node) (e : nat) : N := match nth_error H e with Some nd => n_mask nd | None => 0 end.
Definition slots_of (H : list node) (e : nat) : list addr := map (pair e) (bits_from 16 (mask_of H e) 0).
Definition rem_seq (H : list node) (e : nat) (from : N) (B : list nat) : list addr :=
  map (pair e) (bits_from 16 (mask_of H e) from) ++ flat_map (slots_of H) B.
Definition iter_at (l : list addr) : iter := match l with [] => (None, 16) | (e, ix) :: _ => (Some e, ix) end.

Lemma split_unique {A} (l : list A) x A1 B1 A2 B2 : NoDup l -> l = A1 ++ x :: B1 -> l = A2 ++ x :: B2 -> A1 = A2 /\ B1 = B2.
Proof.
  intros ND E1. revert A2 l ND E1. induction A1 as [|a A1 IH]; intros A2 l ND E1 E2; subst l.
  - destruct A2 as [|a2 A2]; cbn [app] in E2.
    + injection E2 as Et. auto.
    + injection E2 as Ex Et. subst a2. exfalso. cbn [app] in ND. inversion ND as [|? ? Hn _]; subst. apply Hn. apply in_elt.
  - destruct A2 as [|a2 A2]; cbn [app] in E2.
    + injection E2 as Ex Et. subst a. exfalso. cbn [app] in ND. inversion ND as [|? ? Hn _]; subst. apply Hn. apply in_elt.
    + injection E2 as Ex Et. subst a2. cbn [app] in ND. inversion ND as [|? ? _ ND']; subst.
      destruct (IH A2 _ ND' eq_refl Et) as (-> & ->). auto.
Qed.

Section Loop.
  Variables (H : list node) (rt : option nat).
  Hypothesis (I : Inv H rt) (Sh : Shape H rt).
  Let L := whole H rt 17.

  Lemma entry_mask_ok e : In e L -> entry_mask H e = Ok (mask_of H e).
  Proof.
    intros Hin. destruct (whole_entries H rt e I Sh Hin) as (en & Ge & Hent).
    unfold entry_mask, mask_of. rewrite Ge. destruct en; [discriminate|reflexivity].
  Qed.

  Lemma next_leaf_at A e B : L = A ++ e :: B -> next_leaf H e = Ok (hd_error B).
  Proof.
    intros EL. assert (Hin : In e L) by (rewrite EL; apply in_elt).
    destruct (whole_entries H rt e I Sh Hin) as (en & Ge & Hent).
    pose proof (node_ok_depth _ (inv_ok _ _ I _ _ Ge)) as Hd.
    destruct (next_leaf_spec H rt I Sh 17 e en Ge ltac:(lia) 17 ltac:(lia)) as (A' & B' & EW & EN).
    assert (E1 : leaves 17 H e = [e]). { cbn [leaves]. rewrite Ge. destruct en; [discriminate|reflexivity]. }
    rewrite E1 in EW. cbn [app] in EW. fold L in EW.
    destruct (split_unique L e A B A' B' (whole_nodup H rt I Sh) EL EW) as (_ & ->). exact EN.
  Qed.

  (* operator++ from leaf e, scanning from bit position idx *)
  Lemma incr_loop_spec : forall B A e idx f, L = A ++ e :: B -> (length B < f)%nat ->
    incr_loop f H e idx = Ok (iter_at (rem_seq H e idx B)).
  Proof.
    induction B as [|e' B IH]; intros A e idx f EL Hf; (destruct f as [|f]; [lia|]); cbn [incr_loop].
    - rewrite (entry_mask_ok e) by (rewrite EL; apply in_elt). cbn [bind].
      rewrite scan_bits_spec. unfold rem_seq. cbn [flat_map]. rewrite app_nil_r.
      destruct (bits_from 16 (mask_of H e) idx) as [|p t]; cbn [hd_error map iter_at].
      + rewrite (next_leaf_at A e [] EL). reflexivity.
      + reflexivity.
    - rewrite (entry_mask_ok e) by (rewrite EL; apply in_elt). cbn [bind].
      rewrite scan_bits_spec. unfold rem_seq.
      destruct (bits_from 16 (mask_of H e) idx) as [|p t]; cbn [hd_error map iter_at app].
      + rewrite (next_leaf_at A e (e' :: B) EL). cbn [bind hd_error].
        rewrite (IH (A ++ [e]) e' 0 f); [|rewrite <- app_assoc; exact EL|cbn in Hf; lia].
        unfold rem_seq. cbn [flat_map]. reflexivity.
      + reflexivity.
  Qed.

  Lemma begin_loop_spec : forall B A e f, L = A ++ e :: B -> (S (length B) < f)%nat ->
    begin_loop f H (Some e) = Ok (iter_at (rem_seq H e 0 B)).
  Proof.
    induction B as [|e' B IH]; intros A e f EL Hf; (destruct f as [|f]; [lia|]); cbn [begin_loop].
    - rewrite (entry_mask_ok e) by (rewrite EL; apply in_elt). cbn [bind].
      rewrite scan_bits_spec. unfold rem_seq. cbn [flat_map]. rewrite app_nil_r.
      destruct (bits_from 16 (mask_of H e) 0) as [|p t]; cbn [hd_error map iter_at].
      + rewrite (next_leaf_at A e [] EL). cbn [bind hd_error]. destruct f; [lia|]. reflexivity.
      + reflexivity.
    - rewrite (entry_mask_ok e) by (rewrite EL; apply in_elt). cbn [bind].
      rewrite scan_bits_spec. unfold rem_seq.
      destruct (bits_from 16 (mask_of H e) 0) as [|p t]; cbn [hd_error map iter_at app].
      + rewrite (next_leaf_at A e (e' :: B) EL). cbn [bind hd_error].
        rewrite (IH (A ++ [e]) e' f); [|rewrite <- app_assoc; exact EL|cbn in Hf; lia].
        unfold rem_seq. cbn [flat_map]. reflexivity.
      + reflexivity.
  Qed.

  Definition all_slots : list addr := flat_map (slots_of H) L.

  (* if the remaining sequence starts inside leaf e (or is empty), walking it yields exactly it *)
  Lemma rem_seq_end e B : rem_seq H e 16 B = flat_map (slots_of H) B.
  Proof. unfold rem_seq. rewrite bits_from_end. reflexivity. Qed.

  Lemma rem_normal : forall B A e, L = A ++ e :: B ->
    rem_seq H e 16 B = [] \/
    exists A' e' B' p t, L = A' ++ e' :: B' /\ bits_from 16 (mask_of H e') 0 = p :: t /\
                         rem_seq H e 16 B = (e', p) :: map (pair e') t ++ flat_map (slots_of H) B'.
  Proof.
    induction B as [|e1 B IH]; intros A e EL; rewrite rem_seq_end.
    - left. reflexivity.
    - cbn [flat_map].
      destruct (bits_from 16 (mask_of H e1) 0) as [|p t] eqn:Eb.
      + assert (Es : slots_of H e1 = []) by (unfold slots_of; rewrite Eb; reflexivity). rewrite Es. cbn [app].
        destruct (IH (A ++ [e]) e1) as [E|(A' & e' & B' & p & t & EL' & Eb' & E)]; [rewrite <- app_assoc; exact EL| |].
        * left. rewrite rem_seq_end in E. exact E.
        * right. exists A', e', B', p, t. split; [exact EL'|]. split; [exact Eb'|]. rewrite rem_seq_end in E. exact E.
      + assert (Es : slots_of H e1 = (e1, p) :: map (pair e1) t) by (unfold slots_of; rewrite Eb; reflexivity). rewrite Es.
        right. exists (A ++ [e]), e1, B, p, t. split; [rewrite <- app_assoc; exact EL|]. split; [exact Eb|]. reflexivity.
  Qed.

  Lemma iterate_loop_spec s : nodes s = H -> forall n A e B p t acc f,
    L = A ++ e :: B -> (length L <= length H)%nat ->
    N.testbit (mask_of H e) p = true -> p < 16 -> t = bits_from 16 (mask_of H e) (p + 1) ->
    length (map (pair e) t ++ flat_map (slots_of H) B) = n -> (S n < f)%nat ->
    iterate_loop f s (Some e, p) acc = Ok (rev acc ++ (e, p) :: map (pair e) t ++ flat_map (slots_of H) B).
  Proof.
    intros Hs. induction n as [n IH] using lt_wf_ind. intros A e B p t acc f EL LenL Bp Hp Et Hn Hf.
    destruct f as [|f]; [lia|]. cbn [iterate_loop]. unfold iter_next. cbn [fst snd].
    assert (A1 : (p <? 16) = true) by (apply N.ltb_lt; exact Hp). rewrite A1. cbn [assert bind]. rewrite Hs.
    assert (LB : (length B < S (length H))%nat).
    { rewrite EL, app_length in LenL. cbn [length] in LenL. lia. }
    rewrite (incr_loop_spec B A e (p + 1) (S (length H)) EL LB). cbn [bind].
    fold (rem_seq H e (p + 1) B). unfold rem_seq at 1. rewrite <- Et.
    destruct t as [|p' t'].
    - (* leaf e exhausted: normalise the rest *)
      cbn [map app]. cbn [map app] in Hn.
      assert (Er : flat_map (slots_of H) B = rem_seq H e 16 B) by (symmetry; apply rem_seq_end).
      rewrite Er. destruct (rem_normal B A e EL) as [E|(A' & e' & B' & q & t & EL' & Eb' & E)].
      + rewrite E. cbn [iter_at]. destruct f; [lia|]. cbn [iterate_loop rev]. reflexivity.
      + rewrite E. cbn [iter_at].
        assert (Hq : In q (bits_from 16 (mask_of H e') 0)) by (rewrite Eb'; left; reflexivity).
        destruct (bits_from_props _ _ _ _ Hq) as (_ & Hq16 & Bq).
        rewrite (IH (length (map (pair e') t ++ flat_map (slots_of H) B')) ltac:(rewrite Er, E in Hn; cbn [length] in Hn; lia)
                    A' e' B' q t ((e, p) :: acc) f EL' LenL Bq Hq16); try reflexivity.
        * cbn [rev]. rewrite <- app_assoc. reflexivity.
        * apply (bits_from_cons _ 16 0 q t); [lia|exact Eb'].
        * rewrite Er, E in Hn. cbn [length] in Hn. lia.
    - cbn [map app iter_at].
      assert (Hq : In p' (bits_from 16 (mask_of H e) (p + 1))) by (rewrite <- Et; left; reflexivity).
      destruct (bits_from_props _ _ _ _ Hq) as (_ & Hq16 & Bq).
      rewrite (IH (length (map (pair e) t' ++ flat_map (slots_of H) B)) ltac:(cbn [map app length] in Hn; lia)
                  A e B p' t' ((e, p) :: acc) f EL LenL Bq Hq16); try reflexivity.
      + cbn [rev]. rewrite <- app_assoc. reflexivity.
      + apply (bits_from_cons _ 16 (p + 1) p' t'); [lia|symmetry; exact Et].
      + cbn [map app length] in Hn. lia.
  Qed.
End Loop.
