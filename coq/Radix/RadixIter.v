(* Iteration: first_leaf / next_leaf (which climb through the parent pointers) enumerate the leaves
   in the order of a depth-first traversal by ascending link index. *)
From Coq Require Import List NArith Arith Bool Lia ZifyBool ZifyNat ZifyN.
From FV Require Import Common.EventLog Radix.RadixModel Radix.RadixBits Radix.RadixInv Radix.RadixExec
  Radix.RadixSem Radix.RadixFind Radix.RadixPres Radix.RadixSpec Radix.RadixHist Radix.RadixShape.
Import ListNotations.
Local Open Scope N_scope.

Arguments pfxP : simpl never.
Arguments idxP : simpl never.

(* leaves of the subtree of node i, depth first, links by ascending index *)
Fixpoint leaves (f : nat) (H : list node) (i : nat) : list nat :=
  match f with O => [] | S f' =>
    match nth_error H i with
    | Some (Entry _ _ _ _ _) => [i]
    | Some (Link _ _ _ ls) => flat_map (fun c => match c with Some c => leaves f' H c | None => [] end) ls
    | None => []
    end
  end.
Definition leaves_of (f : nat) (H : list node) (c : option nat) : list nat :=
  match c with Some c => leaves f H c | None => [] end.

Definition enough (f : nat) (nd : node) : Prop := (16 <= f + N.to_nat (n_depth nd))%nat.

Lemma first_some_spec (l : list (option nat)) :
  match first_some l with
  | Some m => exists j, nth j l None = Some m /\ forall j', (j' < j)%nat -> nth j' l None = None
  | None => forall j, nth j l None = None
  end.
Proof.
  induction l as [|[c|] l IH]; cbn [first_some].
  - intros [|j]; reflexivity.
  - exists 0%nat. split; [reflexivity|]. intros j' Hj. lia.
  - destruct (first_some l) as [m|].
    + destruct IH as (j & Hj & Hlt). exists (S j). split; [exact Hj|]. intros [|j'] Hj'; [reflexivity|]. apply Hlt. lia.
    + intros [|j]; [reflexivity|apply IH].
Qed.

Lemma nth_firstn_lt {A} (l : list A) (d : A) j j' : (j' < j)%nat -> nth j' (firstn j l) d = nth j' l d.
Proof.
  revert j j'. induction l as [|x l IH]; intros [|j] [|j'] L; cbn; try reflexivity; try lia. apply IH. lia.
Qed.
Lemma nth_skipn' {A} (l : list A) (d : A) j j' : nth j' (skipn j l) d = nth (j + j') l d.
Proof.
  revert j. induction l as [|x l IH]; intros [|j]; cbn [skipn nth Nat.add]; try reflexivity.
  - destruct j'; reflexivity.
  - apply IH.
Qed.

Section Iter.
  Variables (H : list node) (rt : option nat).
  Hypothesis (I : Inv H rt) (Sh : Shape H rt).

  Lemma child_enough f p x d par ls j c cn : nth_error H p = Some (Link x d par ls) -> nth j ls None = Some c ->
    nth_error H c = Some cn -> enough (S f) (Link x d par ls) -> enough f cn.
  Proof.
    intros G Hj Gc E. destruct (inv_link _ _ I _ _ _ _ _ _ _ G Hj) as (cn' & Gc' & Hlt & _).
    rewrite Gc in Gc'. injection Gc' as <-. unfold enough in *. cbn [n_depth] in *. lia.
  Qed.

  Lemma leaves_fuel : forall f f' i nd, nth_error H i = Some nd -> enough f nd -> enough f' nd ->
    leaves f H i = leaves f' H i.
  Proof.
    induction f as [|f IH]; intros f' i nd G E E'.
    - pose proof (node_ok_depth _ (inv_ok _ _ I _ _ G)). unfold enough in E. lia.
    - destruct f' as [|f']; [pose proof (node_ok_depth _ (inv_ok _ _ I _ _ G)); unfold enough in E'; lia|].
      cbn [leaves]. rewrite G. destruct nd as [x d par ls|]; [|reflexivity].
      assert (Q : forall j c, nth j ls None = Some c -> leaves f H c = leaves f' H c).
      { intros j c Hj. destruct (inv_link _ _ I _ _ _ _ _ _ _ G Hj) as (cn & Gc & _).
        apply (IH f' c cn Gc); eapply child_enough; eassumption. }
      clear G E E'. induction ls as [|[c|] ls IHl]; cbn [flat_map]; [reflexivity| |].
      + rewrite (Q 0%nat c eq_refl). f_equal. apply IHl. intros j c' Hj. apply (Q (S j) c' Hj).
      + apply IHl. intros j c' Hj. apply (Q (S j) c' Hj).
  Qed.

  (* leaves of a link node, split at position j *)
  Lemma leaves_split f x d par ls p j c : nth_error H p = Some (Link x d par ls) -> nth j ls None = Some c ->
    leaves (S f) H p = flat_map (leaves_of f H) (firstn j ls) ++ leaves f H c ++ flat_map (leaves_of f H) (skipn (S j) ls).
  Proof.
    intros G Hj. cbn [leaves]. rewrite G. change (fun c0 : option nat => match c0 with Some c1 => leaves f H c1 | None => [] end) with (leaves_of f H).
    clear G. revert j Hj. induction ls as [|c0 ls IH]; intros [|j] Hj; cbn [nth] in Hj; try discriminate.
    - subst c0. reflexivity.
    - cbn [firstn skipn flat_map]. rewrite (IH j Hj). rewrite <- app_assoc. reflexivity.
  Qed.

  Lemma flat_map_none f (l : list (option nat)) : (forall j, nth j l None = None) -> flat_map (leaves_of f H) l = [].
  Proof.
    induction l as [|c l IH]; intros Hn; [reflexivity|]. cbn [flat_map]. pose proof (Hn 0%nat) as H0. cbn in H0. subst c.
    cbn. apply IH. intros j. apply (Hn (S j)).
  Qed.

  (* ---------------------------------------------------------------- first_leaf *)
  Lemma first_leaf_spec : forall f i nd, nth_error H i = Some nd -> enough f nd ->
    exists e rest, leaves f H i = e :: rest /\ first_leaf_loop f H i = Ok e.
  Proof.
    induction f as [|f IH]; intros i nd G E.
    - pose proof (node_ok_depth _ (inv_ok _ _ I _ _ G)). unfold enough in E. lia.
    - pose proof (inv_ok _ _ I _ _ G) as Ok_. cbn [leaves first_leaf_loop]. rewrite G.
      destruct nd as [x d par ls|x d par m sl].
      + pose proof (node_ok_link _ Ok_ eq_refl) as Hd. cbn [n_depth] in *.
        destruct (d =? ll) eqn:Ed; [apply N.eqb_eq in Ed; unfold ll in Ed; lia|].
        pose proof (first_some_spec ls) as FS. destruct (first_some ls) as [m|].
        * destruct FS as (j & Hj & Hlt).
          destruct (inv_link _ _ I _ _ _ _ _ _ _ G Hj) as (cn & Gc & _).
          destruct (IH m cn Gc) as (e & rest & EL & EF); [eapply child_enough; eassumption|].
          exists e. eexists. split; [|exact EF].
          pose proof (leaves_split f x d par ls i j m G Hj) as Sp. cbn [leaves] in Sp. rewrite G in Sp. rewrite Sp.
          rewrite flat_map_none, EL; [reflexivity|].
          intros j'. destruct (Nat.lt_ge_cases j' j) as [L|L].
          -- rewrite nth_firstn_lt by exact L. apply Hlt. exact L.
          -- apply nth_overflow. rewrite firstn_length. lia.
        * exfalso. destruct (sh_child _ _ Sh _ _ _ _ _ G) as (j & c & Hj). rewrite FS in Hj. discriminate.
      + destruct Ok_ as (_ & _ & Hd & _). cbn [n_depth]. rewrite Hd. change (15 =? ll) with true. cbn match.
        eexists _, _. split; reflexivity.
  Qed.

  (* ---------------------------------------------------------------- next_leaf *)
  Lemma index_of_spec i (ls : list (option nat)) j :
    nth j ls None = Some i -> (forall j', nth j' ls None = Some i -> j' = j) -> index_of i ls = Some j.
  Proof.
    revert j. induction ls as [|[c|] ls IH]; intros j Hj Hu.
    - destruct j; discriminate.
    - cbn [index_of]. destruct (Nat.eqb_spec c i) as [->|Hn].
      + rewrite (Hu 0%nat eq_refl). reflexivity.
      + destruct j as [|j]; [cbn in Hj; congruence|]. cbn [nth] in Hj.
        rewrite (IH j Hj); [reflexivity|]. intros j' Hj'. specialize (Hu (S j') Hj'). lia.
    - cbn [index_of]. destruct j as [|j]; [discriminate|]. cbn [nth] in Hj.
      rewrite (IH j Hj); [reflexivity|]. intros j' Hj'. specialize (Hu (S j') Hj'). lia.
  Qed.

  Definition whole (f : nat) : list nat := leaves_of f H rt.

  Lemma next_leaf_spec : forall n i nd, nth_error H i = Some nd -> (N.to_nat (n_depth nd) < n)%nat ->
    forall f, (n <= f)%nat ->
    exists A B, whole 17 = A ++ leaves 17 H i ++ B /\ next_leaf_loop f H i = Ok (hd_error B).
  Proof.
    induction n as [|n IH]; intros i nd G Hn f Hf; [lia|].
    destruct f as [|f]; [lia|]. cbn [next_leaf_loop]. rewrite G.
    destruct (n_parent nd) as [p|] eqn:Hpar.
    - destruct (sh_parent _ _ Sh _ _ _ G Hpar) as (x & d & par & ls & Gp & Hl). rewrite Gp.
      set (jj := N.to_nat (idxP (n_prefix nd) d)) in *.
      destruct (inv_link _ _ I _ _ _ _ _ _ _ Gp Hl) as (nd' & G' & Hlt & _). rewrite G in G'. injection G' as <-.
      assert (Hidx : index_of i ls = Some jj).
      { apply index_of_spec; [exact Hl|]. intros j' Hj'.
        destruct (inv_link _ _ I _ _ _ _ _ _ _ Gp Hj') as (nd' & G' & _ & _ & Ei & _). rewrite G in G'. injection G' as <-.
        unfold jj. rewrite Ei, Nat2N.id. reflexivity. }
      rewrite Hidx.
      destruct (IH p (Link x d par ls) Gp ltac:(cbn [n_depth]; lia) f ltac:(lia)) as (A & B & EW & EN).
      pose proof (inv_ok _ _ I _ _ Gp) as Okp. pose proof (node_ok_depth _ Okp) as Hpd. cbn [n_depth] in Hpd.
      assert (EL : leaves 17 H p = flat_map (leaves_of 16 H) (firstn jj ls) ++ leaves 17 H i ++ flat_map (leaves_of 16 H) (skipn (S jj) ls)).
      { rewrite (leaves_split 16 x d par ls p jj i Gp Hl).
        rewrite (leaves_fuel 16 17 i nd G) by (unfold enough; pose proof (node_ok_depth _ (inv_ok _ _ I _ _ G)); lia).
        reflexivity. }
      pose proof (first_some_spec (skipn (S jj) ls)) as FS.
      destruct (first_some (skipn (S jj) ls)) as [m|].
      + destruct FS as (j & Hj & Hlt').
        assert (Hjm : nth (S jj + j) ls None = Some m) by (rewrite <- Hj, nth_skipn'; reflexivity).
        destruct (inv_link _ _ I _ _ _ _ _ _ _ Gp Hjm) as (mn & Gm & Hmd & _).
        destruct (first_leaf_spec 17 m mn Gm) as (e & rest & ELm & EFm); [unfold enough; lia|].
        rewrite EFm. cbn [bind].
        exists (A ++ flat_map (leaves_of 16 H) (firstn jj ls)).
        exists (e :: rest ++ flat_map (leaves_of 16 H) (skipn (S j) (skipn (S jj) ls)) ++ B).
        split.
        * rewrite EW, EL.
          assert (ES : flat_map (leaves_of 16 H) (skipn (S jj) ls) =
                       e :: rest ++ flat_map (leaves_of 16 H) (skipn (S j) (skipn (S jj) ls))).
          { clear - Hj Hlt' ELm I Gm. revert j Hj Hlt'. generalize (skipn (S jj) ls) as l.
            induction l as [|c0 l IHl]; intros [|j] Hj Hlt'; cbn [nth] in Hj; try discriminate.
            - subst c0. cbn [flat_map skipn leaves_of].
              rewrite (leaves_fuel 16 17 m mn Gm), ELm; [reflexivity| |]; unfold enough;
                pose proof (node_ok_depth _ (inv_ok _ _ I _ _ Gm)); lia.
            - pose proof (Hlt' 0%nat ltac:(lia)) as H0. cbn in H0. subst c0. cbn [flat_map leaves_of app skipn].
              apply (IHl j Hj). intros j' Hj'. apply (Hlt' (S j')). lia. }
          rewrite ES. rewrite <- !app_assoc. cbn [app]. rewrite <- !app_assoc. reflexivity.
        * reflexivity.
      + rewrite EN. exists (A ++ flat_map (leaves_of 16 H) (firstn jj ls)), B. split; [|reflexivity].
        rewrite EW, EL, (flat_map_none 16 _ FS), app_nil_r, <- !app_assoc. reflexivity.
    - (* i is the root *)
      pose proof (sh_root _ _ Sh _ _ G Hpar) as Er.
      exists [], []. split; [|reflexivity]. unfold whole. rewrite Er. cbn [leaves_of app]. rewrite app_nil_r. reflexivity.
  Qed.
End Iter.
