(* Symbolic execution of the writer's micro-step programs: the run to completion of
   find_or_insert / erase in each of the source's cases, as a closed form of the final heap. *)
From Coq Require Import List NArith Arith Bool Lia ZifyBool ZifyNat ZifyN.
From FV Require Import Common.EventLog Radix.RadixModel Radix.RadixBits Radix.RadixInv.
Import ListNotations.
Local Open Scope N_scope.

Arguments pfxP : simpl never.
Arguments idxP : simpl never.
Arguments N.shiftl : simpl never.
Arguments N.lor : simpl never.
Arguments N.testbit : simpl never.
Arguments N.leb : simpl never.
Arguments N.eqb : simpl never.
Arguments N.ltb : simpl never.
Arguments clear_bit : simpl never.

(* ---------------------------------------------------------------- running programs compositionally *)
Lemma run_steps_app s l1 l2 : run_steps s (l1 ++ l2) = s' <- run_steps s l1 ;; run_steps s' l2.
Proof.
  revert s; induction l1 as [|m l1 IH]; intros s; cbn [app run_steps bind]; [reflexivity|].
  destruct (apply_step s m); cbn [bind]; try reflexivity. apply IH.
Qed.

Lemma run_pbind {A B} s (p : prog A) (f : A -> prog B) :
  run_prog s (pbind p f) = x <- run_prog s p ;; run_prog (fst x) (f (snd x)).
Proof.
  destruct p as [l o]. unfold run_prog. destruct o as [a| | |]; cbn [pbind fst snd].
  - destruct (f a) as [l2 r] eqn:Ef. cbn [fst snd]. rewrite run_steps_app.
    destruct (run_steps s l); cbn [bind fst snd]; rewrite ?Ef; reflexivity.
  - destruct (run_steps s l); reflexivity.
  - destruct (run_steps s l); reflexivity.
  - destruct (run_steps s l); reflexivity.
Qed.

Lemma run_pret {A} s (a : A) : run_prog s (pret a) = Ok (s, a).
Proof. reflexivity. Qed.

Lemma run_emit {B} s m (q : prog B) :
  run_prog s (pbind (emit m) (fun _ => q)) = s' <- apply_step s m ;; run_prog s' q.
Proof.
  rewrite run_pbind. unfold run_prog at 1. cbn [emit fst snd run_steps].
  destruct (apply_step s m); reflexivity.
Qed.

Lemma run_lift {A B} s (o : outcome A) (q : A -> prog B) :
  run_prog s (pbind (lift o) q) = a <- o ;; run_prog s (q a).
Proof. rewrite run_pbind. unfold run_prog at 1. cbn [lift fst snd run_steps bind]. destruct o; reflexivity. Qed.

(* ---------------------------------------------------------------- single steps on H1 ++ T *)
Lemma as_old H1 T rt lg m i nd nd' :
  step_target m = Some i -> nth_error H1 i = Some nd -> step_node m nd = Ok nd' ->
  apply_step (mk_st (H1 ++ T) rt lg) m = Ok (mk_st (upd H1 i (fun _ => nd') ++ T) rt (step_events m ++ lg)).
Proof.
  intros Ht G Hs.
  assert (Hlt : (i < length H1)%nat) by (apply nth_error_Some; congruence).
  destruct m; cbn [step_target] in Ht; try discriminate; injection Ht as ->;
    unfold apply_step; cbn [step_target nodes root rlog];
    rewrite nth_error_app1 by exact Hlt; rewrite G, Hs; cbn [bind];
    rewrite upd_app_l by exact Hlt; reflexivity.
Qed.

Lemma as_new0 H1 a t rt lg m n a' :
  length H1 = n -> step_target m = Some n -> step_node m a = Ok a' ->
  apply_step (mk_st (H1 ++ a :: t) rt lg) m = Ok (mk_st (H1 ++ a' :: t) rt (step_events m ++ lg)).
Proof.
  intros Hl Ht Hs. subst n.
  assert (G : nth_error (H1 ++ a :: t) (length H1) = Some a).
  { rewrite nth_error_app2 by lia. rewrite Nat.sub_diag. reflexivity. }
  assert (U : forall f, upd (H1 ++ a :: t) (length H1) f = H1 ++ f a :: t).
  { intros f. rewrite <- (Nat.add_0_r (length H1)). exact (upd_app_r H1 (a :: t) 0 f). }
  destruct m; cbn [step_target] in Ht; try discriminate; injection Ht as ->;
    unfold apply_step; cbn [step_target nodes root rlog];
    rewrite G, Hs; cbn [bind]; rewrite U; reflexivity.
Qed.

Lemma as_new1 H1 a b t rt lg m n b' :
  length H1 = n -> step_target m = Some (S n) -> step_node m b = Ok b' ->
  apply_step (mk_st (H1 ++ a :: b :: t) rt lg) m = Ok (mk_st (H1 ++ a :: b' :: t) rt (step_events m ++ lg)).
Proof.
  intros Hl Ht Hs. subst n.
  assert (G : nth_error (H1 ++ a :: b :: t) (S (length H1)) = Some b).
  { rewrite nth_error_app2 by lia. replace (S (length H1) - length H1)%nat with 1%nat by lia. reflexivity. }
  assert (U : forall f, upd (H1 ++ a :: b :: t) (S (length H1)) f = H1 ++ a :: f b :: t).
  { intros f. replace (S (length H1)) with (length H1 + 1)%nat by lia. exact (upd_app_r H1 (a :: b :: t) 1 f). }
  destruct m; cbn [step_target] in Ht; try discriminate; injection Ht as ->;
    unfold apply_step; cbn [step_target nodes root rlog];
    rewrite G, Hs; cbn [bind]; rewrite U; reflexivity.
Qed.

(* the 16 relaxed null stores into a value-initialised link array change nothing *)
Lemma upd_repeat_none i : upd (repeat (@None nat) 16) i (fun _ => None) = repeat None 16.
Proof.
  apply upd_id. intros x G. apply nth_error_In in G. apply repeat_spec in G. congruence.
Qed.

Lemma run_null_links_gen H1 a x d p t rt lg n l :
  length H1 = n -> (forall i, In i l -> (i < 16)%nat) ->
  let s := mk_st (H1 ++ a :: Link x d p (repeat None 16) :: t) rt lg in
  run_prog s (fold_right (fun i acc => pbind (emit (MStoreLink (S n) (N.of_nat i) None Relaxed)) (fun _ => acc)) (pret tt) l)
  = Ok (s, tt).
Proof.
  intros Hl Hin s. induction l as [|i l IH]; cbn [fold_right].
  - reflexivity.
  - rewrite run_emit. unfold s at 1.
    rewrite (as_new1 H1 a _ t rt lg (MStoreLink (S n) (N.of_nat i) None Relaxed) n (Link x d p (repeat None 16)) Hl eq_refl).
    + cbn [bind step_events app]. apply IH. intros j Hj. apply Hin. right. exact Hj.
    + cbn [step_node]. assert (i < 16)%nat by (apply Hin; left; reflexivity).
      destruct (16 <=? N.of_nat i) eqn:E; [apply N.leb_le in E; lia|].
      rewrite Nat2N.id, upd_repeat_none. reflexivity.
Qed.

Lemma run_null_links H1 a x d p t rt lg n :
  length H1 = n ->
  let s := mk_st (H1 ++ a :: Link x d p (repeat None 16) :: t) rt lg in
  run_prog s (null_links (S n)) = Ok (s, tt).
Proof.
  intros Hl. unfold null_links. apply run_null_links_gen; [exact Hl|].
  intros i Hi. apply in_seq in Hi. lia.
Qed.

(* ---------------------------------------------------------------- closed forms *)
Definition bit (ix : N) : N := N.shiftl 1 ix.
Definition new_entry (k v : N) (par : option nat) : node :=
  Entry (pfxP k 15) 15 par (bit (idxP k 15)) (upd (repeat None 16) (N.to_nat (idxP k 15)) (fun _ => Some v)).
Definition new_link (k sp d : N) (par : option nat) (n si : nat) : node :=
  Link (pfxP k d) d par
       (upd (upd (repeat None 16) (N.to_nat (idxP k d)) (fun _ => Some n)) (N.to_nat (idxP sp d)) (fun _ => Some si)).
Definition set_link_at (j : N) (c : option nat) (nd : node) : node :=
  match nd with
  | Link x d p l => Link x d p (upd l (N.to_nat j) (fun _ => c))
  | e => e end.
Definition set_mask (m : N) (nd : node) : node :=
  match nd with Entry x d p _ sl => Entry x d p m sl | l => l end.
Definition set_slot (i : N) (v : option N) (nd : node) : node :=
  match nd with Entry x d p m sl => Entry x d p m (upd sl (N.to_nat i) (fun _ => v)) | l => l end.

Lemma upd_const_ext {A} (l : list A) i (f : A -> A) x :
  nth_error l i = Some x -> upd l i (fun _ => f x) = upd l i f.
Proof.
  revert i; induction l as [|y l IH]; intros [|i] G; cbn in *; try discriminate.
  - injection G as ->. reflexivity.
  - f_equal. apply IH. exact G.
Qed.

(* heap after publishing c in the cell (p, idx_of k (depth p)) / the root cell *)
Definition publish_heap (H : list node) (k : N) (p : option nat) (c : nat) : list node :=
  match p with
  | None => H
  | Some pi => match nth_error H pi with
               | Some pn => upd H pi (set_link_at (idxP k (n_depth pn)) (Some c))
               | None => H end
  end.
Definition publish_root (rt : option nat) (p : option nat) (c : nat) : option nat :=
  match p with None => Some c | Some _ => rt end.

Lemma run_publish H0 H1 T rt lg k p c :
  length H1 = length H0 ->
  (forall pi, p = Some pi -> exists pn, nth_error H0 pi = Some pn /\ nth_error H1 pi = Some pn /\
                                        is_entry pn = false /\ n_depth pn <= 15) ->
  run_prog (mk_st (H1 ++ T) rt lg) (publish H0 k p c)
  = Ok (mk_st (publish_heap H1 k p c ++ T) (publish_root rt p c) lg, tt).
Proof.
  intros Hl Hp. destruct p as [pi|]; cbn [publish publish_heap publish_root].
  - destruct (Hp pi eq_refl) as (pn & G0 & G1 & Hent & Hd). rewrite G0, G1.
    rewrite run_lift. rewrite idx_of_ok by exact Hd. cbn [bind].
    unfold run_prog. cbn [emit fst snd run_steps].
    destruct pn as [x d par ls|]; [|discriminate]. cbn [n_depth] in *.
    rewrite (as_old H1 T rt lg (MStoreLink pi (idxP k d) (Some c) Release) pi (Link x d par ls) (Link x d par (upd ls (N.to_nat (idxP k d)) (fun _ => Some c))) eq_refl G1).
    + cbn [bind step_events app]. rewrite <- (upd_const_ext H1 pi (set_link_at (idxP k d) (Some c)) _ G1). reflexivity.
    + cbn [step_node]. pose proof (idx_lt k d). destruct (16 <=? idxP k d) eqn:E; [apply N.leb_le in E; lia|]. reflexivity.
  - reflexivity.
Qed.

(* ---------------------------------------------------------------- find_or_insert, case by case *)
Lemma leb16_idx k d : (16 <=? idxP k d) = false.
Proof. pose proof (idx_lt k d). destruct (16 <=? idxP k d) eqn:E; [apply N.leb_le in E; lia|reflexivity]. Qed.

Ltac lift_ok :=
  rewrite run_lift; rewrite ?idx_of_ok by (unfold ll; lia); rewrite ?pfx_of_ok by (try assumption; unfold ll; lia);
  cbn [bind].
Ltac step_new0 :=
  rewrite run_emit; erewrite as_new0 by (first [apply length_upd | reflexivity]); cbn [bind step_events app].
Ltac step_new1 :=
  rewrite run_emit; erewrite as_new1 by (first [apply length_upd | reflexivity]); cbn [bind step_events app].

Lemma foi_run_case1 esz lsz s k v p :
  Inv (nodes s) (root s) -> k < K64 ->
  Walk (nodes s) k None (root s) (FCase1 p) ->
  (forall pi, p = Some pi -> exists pn, nth_error (nodes s) pi = Some pn /\ is_entry pn = false) ->
  let n := length (nodes s) in
  find_or_insert esz lsz s k v =
    Ok (mk_st (publish_heap (nodes s) k p n ++ [new_entry k v p]) (publish_root (root s) p n)
              (EConstruct (blk n, N.to_nat (idxP k 15)) :: EAlloc (blk n) esz :: rlog s),
        ((n, idxP k 15), true)).
Proof.
  intros I Hk W Hp n. destruct s as [H rt lg]. cbn [nodes root rlog] in *.
  unfold find_or_insert, foi_prog. cbn [nodes root rlog].
  rewrite run_lift. rewrite (walk_foi H rt k I Hk None rt _ W 17 (fuel_ok_root H rt I)). cbn [bind].
  rewrite run_emit. cbn [apply_step bind nodes root rlog].
  lift_ok.
  step_new0. step_new0. step_new0.
  lift_ok.
  step_new0.
  lift_ok.
  rewrite run_emit.
  erewrite as_new0; [ | reflexivity | reflexivity | cbn [step_node set_prefix set_depth set_parent zero_entry]; unfold ll; rewrite leb16_idx; reflexivity].
  cbn [bind step_events app].
  rewrite run_pbind.
  rewrite (run_publish H H _ rt _ k p (length H) eq_refl).
  - cbn [bind fst snd]. rewrite run_pret. reflexivity.
  - intros pi E. destruct (Hp pi E) as (pn & G & Hent). exists pn. repeat split; try assumption.
    apply node_ok_depth. eapply inv_ok; eassumption.
Qed.

Lemma foi_run_case2 esz lsz s k v p si sn :
  Inv (nodes s) (root s) -> k < K64 ->
  Walk (nodes s) k None (root s) (FCase2 p si) ->
  nth_error (nodes s) si = Some sn -> pfxP k (n_depth sn) <> n_prefix sn ->
  (forall pi, p = Some pi -> exists pn, nth_error (nodes s) pi = Some pn /\ is_entry pn = false /\ pi <> si /\
                                        hi k (n_depth pn + 1) = hi (n_prefix sn) (n_depth pn + 1)) ->
  let n := length (nodes s) in
  let r := S n in
  exists d, d < n_depth sn /\ hi k d = hi (n_prefix sn) d /\ hi k (d + 1) <> hi (n_prefix sn) (d + 1) /\
    (forall pi pn, p = Some pi -> nth_error (nodes s) pi = Some pn -> n_depth pn < d) /\
    find_or_insert esz lsz s k v =
      Ok (mk_st (publish_heap (upd (nodes s) si (set_parent (Some r))) k p r
                   ++ [new_entry k v (Some r); new_link k (n_prefix sn) d p n si])
                (publish_root (root s) p r)
                (EConstruct (blk n, N.to_nat (idxP k 15)) :: EAlloc (blk r) lsz :: EAlloc (blk n) esz :: rlog s),
          ((n, idxP k 15), true)).
Proof.
  intros I Hk W Gs Hne Hp n r. destruct s as [H rt lg]. cbn [nodes root rlog] in *.
  pose proof (inv_ok _ _ I _ _ Gs) as Oks. pose proof (node_ok_depth _ Oks) as Hsd.
  destruct Oks as (Hsp & Hsfix & _).
  assert (Hne' : hi k (n_depth sn) <> hi (n_prefix sn) (n_depth sn)).
  { intros E. apply Hne. apply (pfx_fix_hi _ _ k Hsfix). exact E. }
  destruct (split_loop_ok k (n_prefix sn) (n_depth sn) Hk Hsp Hsd Hne' 17 0) as (d & SL & _ & Hdlt & Hag & Hdis).
  { rewrite !hi_0 by assumption. reflexivity. }
  { cbn. lia. }
  assert (Habove : forall pi pn, p = Some pi -> nth_error H pi = Some pn -> n_depth pn < d).
  { intros pi pn E G. destruct (Hp pi E) as (pn' & G' & _ & _ & Hagp). rewrite G in G'. injection G' as <-.
    destruct (N.lt_ge_cases (n_depth pn) d) as [L|Ge]; [exact L|]. exfalso. apply Hdis.
    apply (hi_mono (d + 1) (n_depth pn + 1)); [lia | | exact Hagp].
    pose proof (node_ok_depth _ (inv_ok _ _ I _ _ G)). lia. }
  exists d. split; [exact Hdlt|]. split; [exact Hag|]. split; [exact Hdis|]. split; [exact Habove|].
  assert (Hidx : idxP k d <> idxP (n_prefix sn) d).
  { intros E. apply Hdis. apply hi_S_iff; [lia|]. split; assumption. }
  unfold find_or_insert, foi_prog. cbn [nodes root rlog].
  rewrite run_lift. rewrite (walk_foi H rt k I Hk None rt _ W 17 (fuel_ok_root H rt I)). cbn [bind].
  rewrite Gs.
  rewrite run_emit. cbn [apply_step bind nodes root rlog].
  rewrite run_emit. cbn [apply_step bind nodes root rlog].
  rewrite <- app_assoc. cbn [app]. rewrite app_length. cbn [length]. rewrite Nat.add_1_r.
  lift_ok.
  step_new0. step_new0. step_new0.
  lift_ok.
  step_new0.
  lift_ok.
  rewrite run_emit.
  erewrite as_new0; [ | reflexivity | reflexivity | cbn [step_node set_prefix set_depth set_parent zero_entry]; unfold ll; rewrite leb16_idx; reflexivity].
  cbn [bind step_events app].
  (* s->parent = r *)
  rewrite run_emit.
  rewrite (as_old H _ rt _ (MSetParent si (Some (S (length H)))) si sn (set_parent (Some (S (length H))) sn) eq_refl Gs eq_refl).
  cbn [bind step_events app].
  rewrite (upd_const_ext H si (set_parent (Some (S (length H)))) sn Gs).
  rewrite run_lift, SL. cbn [bind].
  (* the three assertions *)
  rewrite run_lift.
  assert (A1 : match p with
               | Some pi => match nth_error H pi with
                            | Some pn => assert (n_depth pn <? d) ASplitAbove
                            | None => UB UBadPtr end
               | None => Ok tt end = Ok tt).
  { destruct p as [pi|]; [|reflexivity]. destruct (Hp pi eq_refl) as (pn & G & _). rewrite G.
    pose proof (Habove pi pn eq_refl G) as L. apply N.ltb_lt in L. rewrite L. reflexivity. }
  rewrite A1. cbn [bind].
  rewrite run_lift. assert (A2 : (d <? n_depth sn) = true) by (apply N.ltb_lt; exact Hdlt). rewrite A2. cbn [assert bind].
  lift_ok.
  lift_ok.
  rewrite run_lift. assert (A3 : (idxP k d =? idxP (n_prefix sn) d) = false) by (apply N.eqb_neq; exact Hidx).
  rewrite A3. cbn [negb assert bind].
  lift_ok.
  step_new1. step_new1. step_new1.
  rewrite run_pbind.
  cbn [step_node set_prefix set_depth set_parent zero_link].
  rewrite (run_null_links (upd H si (set_parent (Some (S (length H))))) _ (pfxP k d) d p [] rt _ (length H) (length_upd _ _ _)).
  cbn [bind fst snd].
  lift_ok.
  rewrite run_emit.
  erewrite as_new1; [ | apply length_upd | reflexivity | cbn [step_node]; rewrite leb16_idx; reflexivity].
  cbn [bind step_events app].
  lift_ok.
  rewrite run_emit.
  erewrite as_new1; [ | apply length_upd | reflexivity | cbn [step_node]; rewrite leb16_idx; reflexivity].
  cbn [bind step_events app].
  rewrite run_pbind.
  rewrite (run_publish H (upd H si (set_parent (Some (S (length H))))) _ rt _ k p (S (length H)) (length_upd _ _ _)).
  - cbn [bind fst snd]. rewrite run_pret. reflexivity.
  - intros pi E. destruct (Hp pi E) as (pn & G & Hent & Hneq & _). exists pn. repeat split; try assumption.
    + rewrite nth_error_upd_neq by congruence. exact G.
    + apply node_ok_depth. eapply inv_ok; eassumption.
Qed.

Lemma upd_upd_const {A} (l : list A) i (f : A -> A) (y : A) :
  upd (upd l i f) i (fun _ => y) = upd l i (fun _ => y).
Proof. revert i; induction l as [|x l IH]; intros [|i]; cbn; try reflexivity. f_equal. apply IH. Qed.

Lemma foi_run_case3_present esz lsz s k v e m ix :
  Inv (nodes s) (root s) -> k < K64 ->
  Walk (nodes s) k None (root s) (FCase3 e m ix) ->
  N.testbit m ix = true ->
  find_or_insert esz lsz s k v = Ok (s, ((e, ix), false)).
Proof.
  intros I Hk W Hb. destruct s as [H rt lg]. cbn [nodes root rlog] in *.
  unfold find_or_insert, foi_prog. cbn [nodes root rlog].
  rewrite run_lift. rewrite (walk_foi H rt k I Hk None rt _ W 17 (fuel_ok_root H rt I)). cbn [bind].
  rewrite Hb. reflexivity.
Qed.

Lemma foi_run_case3_new esz lsz s k v e en ix :
  Inv (nodes s) (root s) -> k < K64 ->
  Walk (nodes s) k None (root s) (FCase3 e (n_mask en) ix) -> ix < 16 ->
  nth_error (nodes s) e = Some en -> is_entry en = true ->
  N.testbit (n_mask en) ix = false ->
  find_or_insert esz lsz s k v =
    Ok (mk_st (upd (nodes s) e (fun nd => set_mask (N.lor (n_mask en) (bit ix)) (set_slot ix (Some v) nd)))
              (root s) (EConstruct (blk e, N.to_nat ix) :: rlog s),
        ((e, ix), true)).
Proof.
  intros I Hk W Hix G Hent Hb. destruct s as [H rt lg]. cbn [nodes root rlog] in *.
  unfold find_or_insert, foi_prog. cbn [nodes root rlog].
  rewrite run_lift. rewrite (walk_foi H rt k I Hk None rt _ W 17 (fuel_ok_root H rt I)). cbn [bind].
  rewrite Hb.
  destruct en as [|x d par m sl]; [discriminate|]. cbn [n_mask] in *.
  assert (L16 : (16 <=? ix) = false) by (destruct (16 <=? ix) eqn:E; [apply N.leb_le in E; lia|reflexivity]).
  rewrite <- (app_nil_r H) at 1.
  rewrite run_emit.
  rewrite (as_old H [] rt lg (MConstruct e ix v) e _ (Entry x d par m (upd sl (N.to_nat ix) (fun _ => Some v))) eq_refl G)
    by (cbn [step_node]; rewrite L16; reflexivity).
  cbn [bind step_events app].
  rewrite run_emit.
  erewrite (as_old _ [] rt _ (MStoreMask e (N.lor m (N.shiftl 1 ix)) Release) e _ _ eq_refl);
    [ | apply nth_error_upd_eq; exact G | reflexivity].
  cbn [bind step_events app]. rewrite run_pret, app_nil_r, upd_upd_const.
  rewrite <- (upd_const_ext H e (fun nd => set_mask (N.lor m (bit ix)) (set_slot ix (Some v) nd)) _ G).
  reflexivity.
Qed.

(* ---------------------------------------------------------------- erase *)
Lemma erase_run_stop s k st :
  Inv (nodes s) (root s) -> k < K64 -> Walk (nodes s) k None (root s) st ->
  erase s k =
    match st with
    | FCase1 _ => AssertStop AEraseNull
    | FCase2 _ _ => AssertStop AErasePrefix
    | FCase3 e m ix =>
        if N.testbit m ix then
          match nth_error (nodes s) e with
          | Some (Entry _ _ _ _ _) => Ok (mk_st (upd (nodes s) e (set_mask (clear_bit m ix))) (root s) (rlog s), tt)
          | Some (Link _ _ _ _) => UB UBadCast
          | None => UB UBadPtr
          end
        else AssertStop AEraseMask
    end.
Proof.
  intros I Hk W. destruct s as [H rt lg]. cbn [nodes root rlog] in *.
  unfold erase, erase_prog. cbn [nodes root rlog].
  rewrite run_lift. rewrite (walk_erase H rt k I Hk None rt _ W 17 (fuel_ok_root H rt I)).
  destruct st as [p|p si|e m ix]; cbn [erase_of_stop bind]; try reflexivity.
  rewrite run_lift. destruct (N.testbit m ix); cbn [assert bind]; [|reflexivity].
  unfold run_prog. cbn [emit fst snd run_steps]. unfold apply_step. cbn [step_target nodes root rlog].
  destruct (nth_error H e) as [[x d par ls|x d par m0 sl]|] eqn:G; cbn [step_node bind step_events app]; try reflexivity.
  rewrite <- (upd_const_ext H e (set_mask (clear_bit m ix)) _ G). reflexivity.
Qed.
