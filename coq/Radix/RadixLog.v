(* C16, history part: the lifetime/allocation log of every history is well-formed and agrees with
   the heap: allocated blocks = the nodes (with their sizes), live objects = the constructed slots. *)
From Coq Require Import List NArith Arith Bool Lia ZifyBool ZifyNat ZifyN.
From FV Require Import Common.EventLog Radix.RadixModel Radix.RadixBits Radix.RadixInv Radix.RadixExec
  Radix.RadixSem Radix.RadixFind Radix.RadixPres Radix.RadixSpec Radix.RadixHist Radix.RadixShape Radix.RadixFull.
Import ListNotations.
Local Open Scope N_scope.

Arguments pfxP : simpl never.
Arguments idxP : simpl never.

Definition is_some {A} (o : option A) : bool := match o with Some _ => true | None => false end.

(* what the log can see of a node: its kind and which slots hold an object *)
Definition lview (nd : node) : bool * list bool :=
  match nd with
  | Link _ _ _ _ => (false, [])
  | Entry _ _ _ _ sl => (true, map is_some sl)
  end.

Section Log.
  Variables (esz lsz : N).

  Definition size_of (v : bool * list bool) : N := if fst v then esz else lsz.

  Record LogInv (H : list node) (L : lstate) : Prop := mk_LogInv {
    li_blocks : forall b, has_block b L =
        match b with O => None | S i => option_map (fun nd => size_of (lview nd)) (nth_error H i) end;
    li_live : forall b j, is_live (b, j) L =
        match b with O => false | S i => match nth_error H i with Some nd => nth j (snd (lview nd)) false | None => false end end
  }.

  Lemma LogInv_view H H2 L : LogInv H L -> map lview H = map lview H2 -> LogInv H2 L.
  Proof.
    intros [B V] E.
    assert (Q : forall i, option_map lview (nth_error H i) = option_map lview (nth_error H2 i)).
    { intros i. rewrite <- !nth_error_map, E. reflexivity. }
    constructor.
    - intros [|i]; rewrite B; [reflexivity|]. specialize (Q i).
      destruct (nth_error H i), (nth_error H2 i); cbn in *; congruence.
    - intros [|i] j; rewrite V; [reflexivity|]. specialize (Q i).
      destruct (nth_error H i), (nth_error H2 i); cbn in *; congruence.
  Qed.

  Lemma LogInv_0 : LogInv [] ls0.
  Proof. constructor; [intros [|[|i]]|intros [|[|i]] j]; reflexivity. Qed.

  Lemma has_block_cons b b' n bl lv :
    has_block b (mk_ls ((b', n) :: bl) lv) = if Nat.eqb b' b then Some n else has_block b (mk_ls bl lv).
  Proof. unfold has_block. cbn [blocks List.find fst snd]. destruct (Nat.eqb b' b); reflexivity. Qed.

  Lemma obj_eqb_spec a b : obj_eqb a b = true <-> a = b.
  Proof.
    unfold obj_eqb. destruct a as [a1 a2], b as [b1 b2]. cbn [fst snd]. rewrite andb_true_iff, !Nat.eqb_eq.
    split; [intros [-> ->]; reflexivity|intros E; injection E; auto].
  Qed.

  Lemma is_live_cons o o' bl lv : is_live o (mk_ls bl (o' :: lv)) = obj_eqb o o' || is_live o (mk_ls bl lv).
  Proof. reflexivity. Qed.

  Lemma is_live_filter o o' bl lv :
    is_live o (mk_ls bl (filter (fun x => negb (obj_eqb o' x)) lv)) = negb (obj_eqb o' o) && is_live o (mk_ls bl lv).
  Proof.
    unfold is_live. cbn [live]. induction lv as [|x lv IH]; cbn [filter existsb]; [rewrite andb_false_r; reflexivity|].
    destruct (obj_eqb o' x) eqn:E1; cbn [negb existsb].
    - rewrite IH. apply obj_eqb_spec in E1. subst x. destruct (obj_eqb o o') eqn:E2; cbn [orb]; [|reflexivity].
      apply obj_eqb_spec in E2. subst o'. assert (E : obj_eqb o o = true) by (apply obj_eqb_spec; reflexivity).
      rewrite E. reflexivity.
    - rewrite IH. destruct (obj_eqb o x) eqn:E2; cbn [orb]; [|reflexivity].
      apply obj_eqb_spec in E2. subst x. rewrite E1. reflexivity.
  Qed.

  Lemma is_live_blocks o bl bl' lv : is_live o (mk_ls bl lv) = is_live o (mk_ls bl' lv).
  Proof. reflexivity. Qed.

  (* ---------------------------------------------------------------- single events *)
  Lemma log_alloc H L nd : LogInv H L -> (nd = zero_entry \/ nd = zero_link) ->
    exists L', ev_step L (EAlloc (blk (length H)) (size_of (lview nd))) = Some L' /\ LogInv (H ++ [nd]) L'.
  Proof.
    intros [B V] Hnd. cbn [ev_step blk Nat.eqb]. rewrite B. unfold blk. cbv beta iota.
    assert (G : nth_error H (length H) = None) by (apply nth_error_None; lia). rewrite G. cbn [option_map].
    eexists. split; [reflexivity|]. destruct L as [bl lv]. constructor.
    - intros b. cbn [blocks live]. rewrite has_block_cons. rewrite (B b). destruct b as [|i]; [reflexivity|].
      destruct (Nat.eqb_spec (S (length H)) (S i)) as [E|E].
      + injection E as <-. rewrite nth_error_app2 by lia. rewrite Nat.sub_diag. reflexivity.
      + destruct (Nat.lt_ge_cases i (length H)) as [Lt|Ge].
        * rewrite nth_error_app1 by exact Lt. reflexivity.
        * assert (nth_error H i = None) as -> by (apply nth_error_None; lia).
          assert (nth_error (H ++ [nd]) i = None) as -> by (apply nth_error_None; rewrite app_length; cbn; lia). reflexivity.
    - intros b j. transitivity (is_live (b, j) (mk_ls bl lv)); [reflexivity|]. rewrite (V b j). destruct b as [|i]; [reflexivity|].
      destruct (Nat.lt_ge_cases i (length H)) as [Lt|Ge].
      + rewrite nth_error_app1 by exact Lt. reflexivity.
      + assert (nth_error H i = None) as -> by (apply nth_error_None; lia).
        destruct (Nat.eq_dec i (length H)) as [->|Ne].
        * rewrite nth_error_app2 by lia. rewrite Nat.sub_diag. cbn [nth_error].
          destruct Hnd as [-> | ->]; cbn [lview snd zero_entry zero_link]; [|destruct j; reflexivity].
          clear. revert j. generalize 16%nat. induction n as [|n IH]; intros [|j]; cbn; auto.
        * assert (nth_error (H ++ [nd]) i = None) as -> by (apply nth_error_None; rewrite app_length; cbn; lia). reflexivity.
  Qed.

  Lemma lview_set_slot_nth j v nd j' :
    nth j' (snd (lview (set_slot j v nd))) false =
      match nd with
      | Entry _ _ _ _ sl => if Nat.eqb (N.to_nat j) j' && Nat.ltb j' (length sl) then is_some v else nth j' (snd (lview nd)) false
      | Link _ _ _ _ => nth j' (snd (lview nd)) false
      end.
  Proof.
    destruct nd as [|x d p m sl]; [reflexivity|]. cbn [set_slot lview snd].
    revert j'. generalize (N.to_nat j) as a. induction sl as [|s sl IH].
    - intros a j'. cbn. rewrite andb_false_r. destruct a, j'; reflexivity.
    - intros [|a] [|j']; cbn [upd map nth length]; try reflexivity.
      rewrite IH. reflexivity.
  Qed.

  Lemma log_slot H L e x d p m sl j (v : option N) : LogInv H L ->
    nth_error H e = Some (Entry x d p m sl) -> (N.to_nat j < length sl)%nat ->
    is_some (nth (N.to_nat j) sl None) = negb (is_some v) ->
    exists L', ev_step L (if is_some v then EConstruct (blk e, N.to_nat j) else EDestroy (blk e, N.to_nat j)) = Some L' /\
               LogInv (upd H e (set_slot j v)) L'.
  Proof.
    intros [B V] G Lj Hs.
    assert (Elive : is_live (blk e, N.to_nat j) L = negb (is_some v)).
    { rewrite V. cbn [blk]. rewrite G. cbn [lview snd]. rewrite <- Hs.
      clear. revert sl. generalize (N.to_nat j) as a. induction a as [|a IH]; intros [|s sl]; cbn; auto. }
    assert (Eblk : block_ok (blk e) L = true).
    { unfold block_ok. rewrite B. cbn [blk Nat.eqb orb]. rewrite G. reflexivity. }
    assert (Hkind : forall b, match b with O => None | S i => option_map (fun nd => size_of (lview nd)) (nth_error (upd H e (set_slot j v)) i) end
                            = match b with O => None | S i => option_map (fun nd => size_of (lview nd)) (nth_error H i) end).
    { intros [|i]; [reflexivity|]. rewrite nth_error_upd. destruct (Nat.eqb_spec e i) as [->|]; [|reflexivity].
      rewrite G. reflexivity. }
    destruct L as [bl lv]. destruct v as [v|]; cbn [is_some negb] in *.
    - cbn [ev_step fst]. rewrite Eblk, Elive. cbn [andb negb]. eexists. split; [reflexivity|]. constructor.
      + intros b. rewrite Hkind. exact (B b).
      + intros b j'. cbn [blocks live]. rewrite is_live_cons. change (mk_ls bl lv) with (mk_ls bl lv). rewrite (V b j').
        destruct b as [|i]; [cbn; reflexivity|]. rewrite nth_error_upd.
        destruct (Nat.eqb_spec e i) as [->|Ne].
        * rewrite G. cbn [option_map]. rewrite lview_set_slot_nth. cbn [is_some lview snd].
          unfold obj_eqb, blk. cbn [fst snd Nat.eqb]. rewrite Nat.eqb_refl. cbn [andb]. rewrite (Nat.eqb_sym j').
          destruct (Nat.eqb_spec (N.to_nat j) j') as [<-|]; cbn [andb orb]; [|reflexivity].
          assert (Nat.ltb (N.to_nat j) (length sl) = true) as -> by (apply Nat.ltb_lt; exact Lj). reflexivity.
        * unfold obj_eqb, blk. cbn [fst snd Nat.eqb]. destruct (Nat.eqb_spec i e) as [E|_]; [congruence|]. reflexivity.
    - cbn [ev_step]. rewrite Elive. eexists. split; [reflexivity|]. constructor.
      + intros b. rewrite Hkind. exact (B b).
      + intros b j'. cbn [blocks live]. rewrite is_live_filter. change (mk_ls bl lv) with (mk_ls bl lv). rewrite (V b j').
        destruct b as [|i]; [rewrite andb_false_r; reflexivity|]. rewrite nth_error_upd.
        destruct (Nat.eqb_spec e i) as [->|Ne].
        * rewrite G. cbn [option_map]. rewrite lview_set_slot_nth. cbn [is_some lview snd].
          unfold obj_eqb, blk. cbn [fst snd Nat.eqb]. rewrite Nat.eqb_refl. cbn [andb].
          destruct (Nat.eqb_spec (N.to_nat j) j') as [<-|]; cbn [andb negb]; [|reflexivity].
          assert (Nat.ltb (N.to_nat j) (length sl) = true) as -> by (apply Nat.ltb_lt; exact Lj). reflexivity.
        * unfold obj_eqb, blk. cbn [fst snd Nat.eqb]. destruct (Nat.eqb_spec e i) as [E|_]; [congruence|]. reflexivity.
  Qed.
End Log.
