(* C16, history part continued: every step of a history keeps the log well-formed and in
   agreement with the heap. *)
From Coq Require Import List NArith Arith Bool Lia ZifyBool ZifyNat ZifyN.
From FV Require Import Common.EventLog Radix.RadixModel Radix.RadixBits Radix.RadixInv Radix.RadixExec
  Radix.RadixSem Radix.RadixFind Radix.RadixPres Radix.RadixSpec Radix.RadixHist Radix.RadixShape Radix.RadixFull
  Radix.RadixLog.
Import ListNotations.
Local Open Scope N_scope.

Arguments pfxP : simpl never.
Arguments idxP : simpl never.

Lemma map_ext_nth {A B} (f : A -> B) (l1 l2 : list A) : length l1 = length l2 ->
  (forall i a, nth_error l1 i = Some a -> exists b, nth_error l2 i = Some b /\ f a = f b) -> map f l1 = map f l2.
Proof.
  revert l2. induction l1 as [|a l1 IH]; intros [|b l2] Len Hn; cbn in Len; try discriminate; [reflexivity|].
  cbn [map]. f_equal.
  - destruct (Hn 0%nat a eq_refl) as (b' & E & F). injection E as <-. exact F.
  - apply IH; [lia|]. intros i x G. exact (Hn (S i) x G).
Qed.

Lemma lview_set_link_at j c nd : lview (set_link_at j c nd) = lview nd.
Proof. destruct nd; reflexivity. Qed.
Lemma lview_set_parent q nd : lview (set_parent q nd) = lview nd.
Proof. destruct nd; reflexivity. Qed.
Lemma lview_set_mask m nd : lview (set_mask m nd) = lview nd.
Proof. destruct nd; reflexivity. Qed.
Lemma lview_cell_set p i j c nd : lview (cell_set p i j c nd) = lview nd.
Proof. unfold cell_set. destruct p as [pi|]; [destruct (Nat.eqb pi i)|]; rewrite ?lview_set_link_at; reflexivity. Qed.

Definition LogOK (esz lsz : N) (s : st) : Prop :=
  exists L, ev_run ls0 (elog s) = Some L /\ LogInv esz lsz (nodes s) L.

Lemma LogOK_st0 esz lsz : LogOK esz lsz st0.
Proof. exists ls0. split; [reflexivity|apply LogInv_0]. Qed.

Lemma ev_run_snoc l e L : ev_run ls0 l = Some L -> ev_run ls0 (l ++ [e]) = ev_step L e.
Proof. intros E. rewrite ev_run_app, E. cbn [ev_run]. destruct (ev_step L e); reflexivity. Qed.

Section LogHist.
  Variables (esz lsz : N).

  Lemma view_case1 H k v p :
    map lview (case1_heap H k v p) =
    map lview (upd (H ++ [zero_entry]) (length H) (set_slot (idxP k 15) (Some v))).
  Proof.
    apply map_ext_nth.
    - unfold case1_heap. rewrite length_upd, !app_length, publish_heap_length. reflexivity.
    - intros i a G. destruct (case1_dom _ _ _ _ _ _ G) as [(nd0 & G0)|(-> & ->)].
      + rewrite (case1_old _ k v p _ _ G0) in G. injection G as <-.
        assert (Lt : (i < length H)%nat) by (apply nth_error_Some; congruence).
        exists nd0. split; [|apply lview_cell_set].
        rewrite nth_error_upd_neq by lia. rewrite nth_error_app1 by exact Lt. exact G0.
      + eexists. split.
        * rewrite nth_error_upd. rewrite Nat.eqb_refl. rewrite nth_error_app2 by lia. rewrite Nat.sub_diag. reflexivity.
        * reflexivity.
  Qed.

  Lemma view_case2 H k v p si sp d :
    map lview (case2_heap H k v p si sp d) =
    map lview (upd ((H ++ [zero_entry]) ++ [zero_link]) (length H) (set_slot (idxP k 15) (Some v))).
  Proof.
    apply map_ext_nth.
    - unfold case2_heap. rewrite length_upd, !app_length, publish_heap_length, length_upd. cbn [length]. lia.
    - intros i a G. destruct (case2_dom _ _ _ _ _ _ _ _ _ G) as [(nd0 & G0)|[(-> & ->)|(-> & ->)]].
      + rewrite (case2_old _ k v p si sp d _ _ G0) in G. injection G as <-.
        assert (Lt : (i < length H)%nat) by (apply nth_error_Some; congruence).
        exists nd0. split.
        * rewrite nth_error_upd_neq by lia. rewrite nth_error_app1 by (rewrite app_length; lia).
          rewrite nth_error_app1 by exact Lt. exact G0.
        * rewrite lview_cell_set. destruct (Nat.eqb si i); [apply lview_set_parent|reflexivity].
      + eexists. split.
        * rewrite nth_error_upd, Nat.eqb_refl. rewrite nth_error_app1 by (rewrite app_length; cbn; lia).
          rewrite nth_error_app2 by lia. rewrite Nat.sub_diag. reflexivity.
        * reflexivity.
      + eexists. split.
        * rewrite nth_error_upd_neq by lia. rewrite nth_error_app2 by (rewrite app_length; cbn; lia).
          rewrite app_length. cbn [length]. replace (S (length H) - (length H + 1))%nat with 0%nat by lia. reflexivity.
        * reflexivity.
  Qed.

  Lemma zero_entry_slot j : nth j (repeat (@None N) 16) None = None.
  Proof. apply nth_repeat_none. Qed.

  (* allocate an entry node and construct the value in it *)
  Lemma log_new_entry H L ix v : LogInv esz lsz H L -> ix < 16 ->
    exists L2, ev_run L [EAlloc (blk (length H)) esz; EConstruct (blk (length H), N.to_nat ix)] = Some L2 /\
               LogInv esz lsz (upd (H ++ [zero_entry]) (length H) (set_slot ix (Some v))) L2.
  Proof.
    intros LI Hix. destruct (log_alloc esz lsz H L zero_entry LI (or_introl eq_refl)) as (L1 & E1 & LI1).
    cbn [lview zero_entry size_of fst] in E1.
    assert (G : nth_error (H ++ [zero_entry]) (length H) = Some (Entry 0 0 None 0 (repeat None 16))).
    { rewrite nth_error_app2 by lia. rewrite Nat.sub_diag. reflexivity. }
    destruct (log_slot esz lsz _ L1 (length H) _ _ _ _ _ ix (Some v) LI1 G) as (L2 & E2 & LI2).
    { rewrite repeat_length. lia. }
    { rewrite zero_entry_slot. reflexivity. }
    cbn [is_some] in E2. exists L2. split; [|exact LI2]. cbn [ev_run]. rewrite E1, E2. reflexivity.
  Qed.

  Lemma foi_log s k v s' a b M : Full s M -> LogOK esz lsz s -> k < K64 ->
    find_or_insert esz lsz s k v = Ok (s', (a, b)) -> LogOK esz lsz s'.
  Proof.
    intros [G Sh] (L & EL & LI) Hk R. pose proof (g_inv _ _ G) as I.
    destruct (foi_cases esz lsz s k v s' a b I Hk R) as [->|p W N1 R1 Lg|p si sn d W Gs Hd Hag Hdis Hab N1 R1 Lg|e en Ge Hent Hp B N1 R1 Lg].
    - exists L. split; assumption.
    - destruct (log_new_entry (nodes s) L (idxP k 15) v LI (idx_lt k 15)) as (L2 & E2 & LI2).
      exists L2. split.
      + unfold elog. rewrite Lg. cbn [rev]. rewrite <- app_assoc. cbn [app]. rewrite ev_run_app. fold (elog s). rewrite EL. exact E2.
      + rewrite N1. eapply LogInv_view; [exact LI2|]. symmetry. apply view_case1.
    - destruct (log_alloc esz lsz (nodes s) L zero_entry LI (or_introl eq_refl)) as (L1 & E1 & LI1).
      cbn [lview zero_entry size_of fst] in E1.
      destruct (log_alloc esz lsz _ L1 zero_link LI1 (or_intror eq_refl)) as (L1' & E1' & LI1').
      cbn [lview zero_link size_of fst] in E1'. rewrite app_length in E1'. cbn [length] in E1'. rewrite Nat.add_1_r in E1'.
      assert (Gn : nth_error ((nodes s ++ [zero_entry]) ++ [zero_link]) (length (nodes s)) = Some (Entry 0 0 None 0 (repeat None 16))).
      { rewrite nth_error_app1 by (rewrite app_length; cbn; lia). rewrite nth_error_app2 by lia. rewrite Nat.sub_diag. reflexivity. }
      destruct (log_slot esz lsz _ L1' (length (nodes s)) _ _ _ _ _ (idxP k 15) (Some v) LI1' Gn) as (L2 & E2 & LI2).
      { rewrite repeat_length. pose proof (idx_lt k 15). lia. }
      { rewrite zero_entry_slot. reflexivity. }
      cbn [is_some] in E2. exists L2. split.
      + unfold elog. rewrite Lg. cbn [rev]. rewrite <- !app_assoc. cbn [app]. rewrite ev_run_app. fold (elog s). rewrite EL.
        cbn [ev_run]. rewrite E1, E1', E2. reflexivity.
      + rewrite N1. eapply LogInv_view; [exact LI2|]. symmetry. apply view_case2.
    - destruct en as [|x d par m sl]; [discriminate|]. cbn [n_mask] in *.
      pose proof (inv_ok _ _ I _ _ Ge) as (_ & _ & _ & Len).
      assert (Hs : nth (N.to_nat (idxP k 15)) sl None = None).
      { pose proof (g_slots _ _ G _ _ _ _ Ge eq_refl (idxP k 15) (idx_lt k 15)) as [_ Q].
        destruct (nth (N.to_nat (idxP k 15)) sl None) eqn:E; [|reflexivity]. rewrite Q in B by discriminate. discriminate. }
      destruct (log_slot esz lsz _ L e _ _ _ _ _ (idxP k 15) (Some v) LI Ge) as (L2 & E2 & LI2).
      { rewrite Len. pose proof (idx_lt k 15). lia. }
      { rewrite Hs. reflexivity. }
      cbn [is_some] in E2. exists L2. split.
      + unfold elog. rewrite Lg. cbn [rev]. fold (elog s). rewrite (ev_run_snoc _ _ L EL). exact E2.
      + rewrite N1. eapply LogInv_view; [exact LI2|]. apply map_ext_nth; [rewrite !length_upd; reflexivity|].
        intros i nd Gi. rewrite nth_error_upd in Gi |- *. destruct (Nat.eqb e i).
        * destruct (nth_error (nodes s) i); [|discriminate]. injection Gi as <-. eexists. split; [reflexivity|].
          cbn [option_map]. rewrite lview_set_mask. reflexivity.
        * exists nd. auto.
  Qed.

  Lemma step_log s M o s' r : Full s M -> LogOK esz lsz s -> op_keys_ok o ->
    step_op esz lsz s o = Ok (s', r) -> LogOK esz lsz s'.
  Proof.
    intros F LO Hk R. destruct F as [G Sh]. pose proof (g_inv _ _ G) as I.
    destruct o as [k|k v|k v|k|]; cbn [op_keys_ok] in Hk; cbn [step_op] in R.
    - destruct (find s k); try discriminate. cbn [bind] in R. injection R as <- _. exact LO.
    - destruct (find_or_insert esz lsz s k v) as [[s1 [a b]]| | |] eqn:R1; try discriminate. cbn [bind fst snd] in R. injection R as <- _.
      eapply foi_log; try eassumption. split; eassumption.
    - rewrite insert_unfold in R. destruct (find_or_insert esz lsz s k v) as [[s1 [a b]]| | |] eqn:R1; try discriminate.
      cbn [bind fst snd] in R. destruct b; [|discriminate]. injection R as <- _. eapply foi_log; try eassumption. split; eassumption.
    - destruct (find s k) as [[a|]| | |] eqn:Fk; try discriminate; cbn [bind] in R.
      + destruct (erase_spec s k a I Hk Fk) as (s1 & R1 & I1 & Lg & F1 & en & Ge & Hent & N1 & Rt1).
        rewrite R1 in R. cbn [bind fst] in R.
        destruct (caller_destroy s1 a) as [s2| | |] eqn:R2; try discriminate. cbn [bind] in R. injection R as <- _.
        unfold caller_destroy in R2. destruct (nth_error (nodes s1) (fst a)) as [[|x d p m sl]|] eqn:G1; try discriminate.
        destruct (nth (N.to_nat (snd a)) sl None) as [v0|] eqn:Hs; [|discriminate]. injection R2 as <-.
        destruct LO as (L & EL & LI).
        (* the heap after erase has the same log view *)
        assert (LI1 : LogInv esz lsz (nodes s1) L).
        { eapply LogInv_view; [exact LI|]. rewrite N1. apply map_ext_nth; [rewrite length_upd; reflexivity|].
          intros i nd Gi. rewrite nth_error_upd, Gi. destruct (Nat.eqb (fst a) i); cbn [option_map]; eexists; split; try reflexivity.
          rewrite lview_set_mask. reflexivity. }
        destruct (find_addr s k a I Hk Fk) as (_ & _ & _ & _ & Hi & _).
        assert (Len : length sl = 16%nat) by (pose proof (inv_ok _ _ I1 _ _ G1) as (_ & _ & _ & Q); exact Q).
        destruct (log_slot esz lsz _ L (fst a) _ _ _ _ _ (snd a) None LI1 G1) as (L2 & E2 & LI2).
        { rewrite Len, Hi. pose proof (idx_lt k 15). lia. }
        { rewrite Hs. reflexivity. }
        cbn [is_some] in E2. exists L2. split.
        * unfold elog. cbn [rlog rev]. rewrite Lg. fold (elog s). rewrite (ev_run_snoc _ _ L EL). exact E2.
        * cbn [nodes]. pose proof (upd_const_ext (nodes s1) (fst a) (set_slot (snd a) None) _ G1) as U. cbn [set_slot] in U.
          rewrite U. exact LI2.
      + destruct (erase_absent s k I Hk Fk) as (w & R1 & _). rewrite R1 in R. discriminate.
    - destruct (iterate s); try discriminate. cbn [bind] in R. injection R as <- _. exact LO.
  Qed.

  Theorem history_log l : forall s M, Full s M -> LogOK esz lsz s -> valid_all esz lsz s M l ->
    exists s' M', run_ghost esz lsz s M l = Ok (s', M') /\ Full s' M' /\ LogOK esz lsz s'.
  Proof.
    induction l as [|o l IH]; intros s M F LO V; cbn [run_ghost].
    - eauto.
    - destruct V as (Hk & Hpre & V).
      destruct (step_full esz lsz s M o F Hk) as [(s' & r & R & F' & _)|(Hn & _)]; [|contradiction].
      rewrite R. cbn [bind fst snd]. apply IH; [exact F'| |apply (V s' r R)].
      exact (step_log s M o s' r F LO Hk R).
  Qed.
End LogHist.
