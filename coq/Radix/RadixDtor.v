(* C16, destructor: starting from any state reached by a history, the destructor's loop visits
   every node, destroys every value whose mask bit is set, deallocates every node once with its
   size, and leaves nothing allocated or alive. *)
From Coq Require Import List NArith Arith Bool Lia ZifyBool ZifyNat ZifyN.
From FV Require Import Common.EventLog Radix.RadixModel Radix.RadixBits Radix.RadixInv Radix.RadixExec
  Radix.RadixSem Radix.RadixFind Radix.RadixPres Radix.RadixSpec Radix.RadixHist Radix.RadixShape Radix.RadixFull
  Radix.RadixLog Radix.RadixLogHist.
Import ListNotations.
Local Open Scope N_scope.

Arguments pfxP : simpl never.
Arguments idxP : simpl never.
Arguments N.testbit : simpl never.

Definition aliveb (dead : list nat) (i : nat) : bool := negb (existsb (Nat.eqb i) dead).
Definition count_some (l : list (option nat)) : nat := length (filter is_some l).
Definition links_total (H : list node) : nat := fold_right (fun nd acc => (count_some (n_links nd) + acc)%nat) 0%nat H.
Definition alive_count (H : list node) (dead : list nat) : nat := length (filter (aliveb dead) (seq 0 (length H))).
Definition potential (H : list node) (dead : list nat) : nat := (alive_count H dead + links_total H)%nat.

Lemma first_some_idx_spec (l : list (option nat)) :
  match first_some_idx l with
  | Some (j, c) => nth j l None = Some c
  | None => forall j, nth j l None = None
  end.
Proof.
  induction l as [|[c|] l IH]; cbn [first_some_idx].
  - intros [|j]; reflexivity.
  - reflexivity.
  - destruct (first_some_idx l) as [[j c]|]; [exact IH|]. intros [|j]; [reflexivity|apply IH].
Qed.

Lemma count_some_upd_none l j c : nth j l None = Some c -> (S (count_some (upd l j (fun _ => None))) = count_some l)%nat.
Proof.
  unfold count_some. revert j. induction l as [|[x|] l IH]; intros [|j] E; cbn in *; try discriminate; try reflexivity.
  - f_equal. apply IH. exact E.
  - apply IH. exact E.
Qed.

Lemma links_total_upd H i x d pp ls j c : nth_error H i = Some (Link x d pp ls) -> nth j ls None = Some c ->
  (S (links_total (upd H i (fun _ => Link x d pp (upd ls j (fun _ => None))))) = links_total H)%nat.
Proof.
  unfold links_total. revert i. induction H as [|nd H IH]; intros [|i] G E; cbn [nth_error upd fold_right] in *; try discriminate.
  - injection G as ->. cbn [n_links]. pose proof (count_some_upd_none ls j c E). lia.
  - specialize (IH i G E). lia.
Qed.

Lemma filter_length_lt {A} (f g : A -> bool) l x : (forall y, g y = true -> f y = true) -> In x l -> f x = true -> g x = false ->
  (length (filter g l) < length (filter f l))%nat.
Proof.
  intros Imp. induction l as [|y l IH]; intros Hin Fx Gx; [destruct Hin|]. cbn [filter].
  assert (Le : (length (filter g l) <= length (filter f l))%nat).
  { clear - Imp. induction l as [|z l IH]; cbn; [lia|]. destruct (g z) eqn:Gz; [rewrite (Imp z Gz); cbn; lia|].
    destruct (f z); cbn; lia. }
  destruct Hin as [->|Hin].
  - rewrite Fx, Gx. cbn. lia.
  - specialize (IH Hin Fx Gx). destruct (g y) eqn:Gy; [rewrite (Imp y Gy); cbn; lia|]. destruct (f y); cbn; lia.
Qed.

Lemma alive_count_kill H dead i : (i < length H)%nat -> aliveb dead i = true ->
  (alive_count H (i :: dead) < alive_count H dead)%nat.
Proof.
  intros L A. unfold alive_count. apply (filter_length_lt _ _ _ i).
  - intros y. unfold aliveb. cbn [existsb]. destruct (Nat.eqb y i); cbn; [discriminate|auto].
  - apply in_seq. lia.
  - exact A.
  - unfold aliveb. cbn [existsb]. rewrite Nat.eqb_refl. reflexivity.
Qed.

Lemma alive_count_upd H dead i f : alive_count (upd H i f) dead = alive_count H dead.
Proof. unfold alive_count. rewrite length_upd. reflexivity. Qed.

Section Dtor.
  Variables (esz lsz : N) (par : nat -> option nat) (r0 : option nat).

  (* a is cur or one of its ancestors *)
  Inductive Anc : nat -> option nat -> Prop :=
  | anc_here a : Anc a (Some a)
  | anc_up a i : Anc a (par i) -> Anc a (Some i).

  Record DInv (H : list node) (dead : list nat) (cur : option nat) (L : lstate) : Prop := mk_DInv {
    d_ok : forall i nd, nth_error H i = Some nd -> node_ok nd /\ n_parent nd = par i;
    d_link : forall p x d pp ls j c, nth_error H p = Some (Link x d pp ls) -> nth j ls None = Some c ->
        exists cn, nth_error H c = Some cn /\ aliveb dead c = true /\ par c = Some p /\ d < n_depth cn /\
                   j = N.to_nat (idxP (n_prefix cn) d);
    d_par : forall a an p, nth_error H a = Some an -> aliveb dead a = true -> par a = Some p ->
        exists x d pp ls, nth_error H p = Some (Link x d pp ls) /\ aliveb dead p = true /\ d < n_depth an /\
          ((Anc a cur /\ nth (N.to_nat (idxP (n_prefix an) d)) ls None = None) \/
           (~ Anc a cur /\ nth (N.to_nat (idxP (n_prefix an) d)) ls None = Some a));
    d_root : forall a an, nth_error H a = Some an -> aliveb dead a = true -> par a = None -> r0 = Some a;
    d_cur : forall i, cur = Some i -> exists nd, nth_error H i = Some nd /\ aliveb dead i = true;
    d_end : cur = None -> forall a, r0 = Some a -> aliveb dead a = false;
    d_slots : SlotInv H;
    d_blocks : forall b, has_block b L =
        match b with O => None
        | S i => if aliveb dead i then option_map (fun nd => size_of esz lsz (lview nd)) (nth_error H i) else None end;
    d_live : forall b j, is_live (b, j) L =
        match b with O => false
        | S i => aliveb dead i && match nth_error H i with Some nd => nth j (snd (lview nd)) false | None => false end end
  }.

  Definition Done (L : lstate) : Prop := (forall b, has_block b L = None) /\ (forall o, is_live o L = false).

  Lemma anc_depth H dead cur L : DInv H dead cur L -> forall a c, Anc a c -> forall i an nd, c = Some i ->
    nth_error H a = Some an -> nth_error H i = Some nd -> aliveb dead i = true -> n_depth an <= n_depth nd.
  Proof.
    intros D a c An. induction An as [a|a i An IH]; intros i' an nd E Ga Gi Al; injection E as <-.
    - rewrite Ga in Gi. injection Gi as <-. lia.
    - destruct (par i) as [p|] eqn:Ep; [|inversion An].
      destruct (d_par _ _ _ _ D i nd p Gi Al Ep) as (x & d & pp & ls & Gp & Alp & Hd & _).
      specialize (IH p an _ eq_refl Ga Gp Alp). cbn [n_depth] in IH. lia.
  Qed.

  (* when the loop has ended nothing is alive *)
  Lemma done_of_end H dead L : DInv H dead None L -> Done L.
  Proof.
    intros D.
    assert (AllDead : forall n a an, nth_error H a = Some an -> (N.to_nat (n_depth an) < n)%nat -> aliveb dead a = false).
    { induction n as [|n IH]; intros a an Ga Hn; [lia|].
      destruct (aliveb dead a) eqn:Al; [|reflexivity]. exfalso.
      destruct (par a) as [p|] eqn:Ep.
      - destruct (d_par _ _ _ _ D a an p Ga Al Ep) as (x & d & pp & ls & Gp & Alp & Hd & _).
        rewrite (IH p _ Gp) in Alp; [discriminate|]. cbn [n_depth]. lia.
      - pose proof (d_root _ _ _ _ D a an Ga Al Ep) as Er. rewrite (d_end _ _ _ _ D eq_refl a Er) in Al. discriminate. }
    split.
    - intros [|i]; rewrite (d_blocks _ _ _ _ D); [reflexivity|].
      destruct (nth_error H i) as [nd|] eqn:G; [|destruct (aliveb dead i); reflexivity].
      rewrite (AllDead _ i nd G (Nat.lt_succ_diag_r _)). reflexivity.
    - intros [[|i] j]; rewrite (d_live _ _ _ _ D); [reflexivity|].
      destruct (nth_error H i) as [nd|] eqn:G; [|apply andb_false_r].
      rewrite (AllDead _ i nd G (Nat.lt_succ_diag_r _)). reflexivity.
  Qed.

  (* the inner loop over the 16 slots of a leaf *)
  Lemma destroy_vals_spec b m sl : slots_ok m sl -> length sl = 16%nat ->
    forall n i0 lg L, (n + i0 = 16)%nat -> ev_run ls0 (rev lg) = Some L ->
      (forall j, is_live (b, j) L = Nat.leb i0 j && is_some (nth j sl None)) ->
      exists lg' L', destroy_vals b n i0 m sl lg = Ok lg' /\ ev_run ls0 (rev lg') = Some L' /\
        (forall b', has_block b' L' = has_block b' L) /\ (forall j, is_live (b, j) L' = false) /\
        (forall b' j, b' <> b -> is_live (b', j) L' = is_live (b', j) L).
  Proof.
    intros SO Len. induction n as [|n IH]; intros i0 lg L Hn EL Hl.
    - exists lg, L. split; [reflexivity|]. split; [exact EL|]. split; [auto|]. split; [|auto].
      intros j. rewrite Hl. destruct (Nat.leb_spec i0 j) as [Le|Lt]; [|reflexivity].
      rewrite nth_overflow by lia. reflexivity.
    - cbn [destroy_vals].
      assert (Hi16 : N.of_nat i0 < 16) by lia.
      pose proof (SO (N.of_nat i0) Hi16) as Q. rewrite Nat2N.id in Q.
      destruct (N.testbit m (N.of_nat i0)) eqn:B.
      + destruct (nth i0 sl None) as [v|] eqn:Es; [|exfalso; apply (proj1 Q eq_refl); reflexivity].
        assert (Lv : is_live (b, i0) L = true) by (rewrite Hl, Nat.leb_refl, Es; reflexivity).
        destruct L as [bl lv].
        destruct (IH (S i0) (EDestroy (b, i0) :: lg) (mk_ls bl (filter (fun x => negb (obj_eqb (b, i0) x)) lv)))
          as (lg' & L' & R & E' & A1 & A2 & A3); [lia| | |].
        * cbn [rev]. rewrite (ev_run_snoc _ _ _ EL). cbn [ev_step]. rewrite Lv. reflexivity.
        * intros j. rewrite is_live_filter. change (mk_ls bl lv) with (mk_ls bl lv). rewrite Hl.
          unfold obj_eqb. cbn [fst snd]. rewrite Nat.eqb_refl. cbn [andb].
          destruct (Nat.eqb_spec i0 j) as [<-|Ne]; cbn [negb andb].
          -- assert (Nat.leb (S i0) i0 = false) as -> by (apply Nat.leb_gt; lia). reflexivity.
          -- destruct (Nat.leb_spec i0 j), (Nat.leb_spec (S i0) j); try reflexivity; lia.
        * exists lg', L'. split; [exact R|]. split; [exact E'|]. split; [intros b'; rewrite A1; reflexivity|]. split; [exact A2|].
          intros b' j Hb. rewrite (A3 b' j Hb). rewrite is_live_filter.
          unfold obj_eqb. cbn [fst snd]. destruct (Nat.eqb_spec b b'); [congruence|]. reflexivity.
      + destruct (IH (S i0) lg L ltac:(lia) EL) as (lg' & L' & R & E' & A1 & A2 & A3).
        * intros j. rewrite Hl.
          destruct (Nat.eq_dec i0 j) as [<-|Ne].
          -- assert (Es : nth i0 sl None = None).
             { destruct (nth i0 sl None) eqn:Es; [|reflexivity]. assert (false = true) by (apply Q; discriminate). discriminate. }
             rewrite Es, Nat.leb_refl. cbn. rewrite andb_false_r. reflexivity.
          -- destruct (Nat.leb_spec i0 j), (Nat.leb_spec (S i0) j); try reflexivity; lia.
        * exists lg', L'. auto.
  Qed.

  Lemma no_live_of b L : (forall j, is_live (b, j) L = false) -> no_live_in b L = true.
  Proof.
    intros Hn. unfold no_live_in. apply forallb_forall. intros [b' j] Hin. cbn [fst].
    destruct (Nat.eqb_spec b' b) as [->|]; [|reflexivity]. exfalso.
    specialize (Hn j). unfold is_live in Hn.
    assert (existsb (obj_eqb (b, j)) (live L) = true); [|congruence].
    apply existsb_exists. exists (b, j). split; [exact Hin|]. apply obj_eqb_spec. reflexivity.
  Qed.

  Lemma has_block_drop b b' L : has_block b' (drop_block b L) = if Nat.eqb b' b then None else has_block b' L.
  Proof.
    unfold has_block, drop_block. cbn [blocks]. induction (blocks L) as [|[b1 n1] bl IH]; cbn [filter List.find fst snd].
    - destruct (Nat.eqb b' b); reflexivity.
    - destruct (Nat.eqb_spec b1 b) as [->|Ne]; cbn [negb List.find fst snd].
      + rewrite IH. destruct (Nat.eqb_spec b b') as [->|Ne']; [rewrite Nat.eqb_refl; reflexivity|].
        destruct (Nat.eqb_spec b' b); [congruence|reflexivity].
      + destruct (Nat.eqb_spec b1 b') as [->|Ne']; [destruct (Nat.eqb_spec b' b); [congruence|reflexivity]|]. exact IH.
  Qed.

  Lemma aliveb_cons dead i a : aliveb (i :: dead) a = negb (Nat.eqb a i) && aliveb dead a.
  Proof. unfold aliveb. cbn [existsb]. destruct (Nat.eqb a i); reflexivity. Qed.

  Lemma anc_shift a i : a <> i -> (Anc a (Some i) <-> Anc a (par i)).
  Proof. intros Ne. split; [intros An; inversion An; subst; [contradiction|assumption]|apply anc_up]. Qed.

  Lemma nth_map_is_some (sl : list (option N)) j : nth j (map is_some sl) false = is_some (nth j sl None).
  Proof. revert j; induction sl as [|x sl IH]; intros [|j]; cbn; auto. Qed.

  (* deallocating the current node i once nothing hangs below it any more *)
  Lemma dinv_kill H dead i nd L L2 :
    DInv H dead (Some i) L -> nth_error H i = Some nd ->
    (forall j, nth j (n_links nd) None = None) ->
    (forall b', has_block b' L2 = if Nat.eqb b' (blk i) then None else has_block b' L) ->
    (forall b' j, is_live (b', j) L2 = if Nat.eqb b' (blk i) then false else is_live (b', j) L) ->
    DInv H (i :: dead) (par i) L2.
  Proof.
    intros D G Hno HB HL. destruct (d_cur _ _ _ _ D i eq_refl) as (nd' & G' & Al). rewrite G in G'. injection G' as <-.
    assert (Hpi : forall a an, nth_error H a = Some an -> aliveb dead a = true -> par a = Some i -> False).
    { intros a an Ga Ala Ep. destruct (d_par _ _ _ _ D a an i Ga Ala Ep) as (x & d & pp & ls & Gp & _ & Hd & C).
      rewrite G in Gp. injection Gp as ->. cbn [n_links] in Hno.
      destruct C as [[An _]|[_ E]]; [|rewrite Hno in E; discriminate].
      destruct (Nat.eq_dec a i) as [->|Ne].
      - rewrite Ga in G. injection G as ->. cbn [n_depth] in Hd. lia.
      - pose proof (anc_depth H dead (Some i) L D a (Some i) An i an _ eq_refl Ga G Al) as Q. cbn [n_depth] in Q. lia. }
    constructor.
    - exact (d_ok _ _ _ _ D).
    - intros p x d pp ls j c Gp Hj. destruct (d_link _ _ _ _ D p x d pp ls j c Gp Hj) as (cn & Gc & Alc & Epc & Hd & Ej).
      exists cn. repeat split; try assumption. rewrite aliveb_cons, Alc, andb_true_r.
      destruct (Nat.eqb_spec c i) as [->|]; [|reflexivity]. exfalso.
      rewrite G in Gc. injection Gc as <-.
      destruct (d_par _ _ _ _ D i nd p G Al Epc) as (x' & d' & pp' & ls' & Gp' & _ & _ & C).
      rewrite Gp in Gp'. injection Gp' as <- <- <- <-.
      destruct C as [[_ E]|[Na _]]; [rewrite <- Ej, Hj in E; discriminate|apply Na; constructor].
    - intros a an p Ga Ala Ep. rewrite aliveb_cons in Ala. apply andb_true_iff in Ala. destruct Ala as [Nai Ala].
      apply negb_true_iff, Nat.eqb_neq in Nai.
      destruct (d_par _ _ _ _ D a an p Ga Ala Ep) as (x & d & pp & ls & Gp & Alp & Hd & C).
      exists x, d, pp, ls. split; [exact Gp|]. split.
      + rewrite aliveb_cons, Alp, andb_true_r. destruct (Nat.eqb_spec p i) as [->|]; [|reflexivity].
        exfalso. exact (Hpi a an Ga Ala Ep).
      + split; [exact Hd|]. rewrite <- (anc_shift a i Nai). exact C.
    - intros a an Ga Ala Ep. rewrite aliveb_cons in Ala. apply andb_true_iff in Ala. exact (d_root _ _ _ _ D a an Ga (proj2 Ala) Ep).
    - intros p Ep. destruct (d_par _ _ _ _ D i nd p G Al Ep) as (x & d & pp & ls & Gp & Alp & Hd & _).
      eexists. split; [exact Gp|]. rewrite aliveb_cons, Alp, andb_true_r.
      destruct (Nat.eqb_spec p i) as [->|]; [|reflexivity]. rewrite G in Gp. injection Gp as ->. cbn [n_depth] in Hd. lia.
    - intros Ep a Er. rewrite (d_root _ _ _ _ D i nd G Al Ep) in Er. injection Er as <-.
      rewrite aliveb_cons, Nat.eqb_refl. reflexivity.
    - exact (d_slots _ _ _ _ D).
    - intros b. rewrite HB. unfold blk. destruct b as [|i']; cbn [Nat.eqb]; [exact (d_blocks _ _ _ _ D 0%nat)|].
      rewrite aliveb_cons. destruct (Nat.eqb i' i); [reflexivity|]. cbn [negb andb]. exact (d_blocks _ _ _ _ D (S i')).
    - intros b j. rewrite HL. unfold blk. destruct b as [|i']; cbn [Nat.eqb]; [exact (d_live _ _ _ _ D 0%nat j)|].
      rewrite aliveb_cons. destruct (Nat.eqb i' i); [reflexivity|]. cbn [negb andb]. exact (d_live _ _ _ _ D (S i') j).
  Qed.

  (* descending through link j of the current node i *)
  Lemma dinv_descend H dead i x d pp ls j c L :
    DInv H dead (Some i) L -> nth_error H i = Some (Link x d pp ls) -> nth j ls None = Some c ->
    DInv (upd H i (fun _ => Link x d pp (upd ls j (fun _ => None)))) dead (Some c) L.
  Proof.
    intros D G Hj. set (H' := upd H i (fun _ => Link x d pp (upd ls j (fun _ => None)))).
    destruct (d_link _ _ _ _ D i x d pp ls j c G Hj) as (cn & Gc & Alc & Epc & Hdc & Ejc).
    assert (Jlt : (j < length ls)%nat).
    { destruct (Nat.lt_ge_cases j (length ls)) as [Q|Q]; [exact Q|]. rewrite nth_overflow in Hj by exact Q. discriminate. }
    (* every node keeps its fields except that node i loses link j *)
    assert (Lk : forall q nd', nth_error H' q = Some nd' ->
              exists nd0, nth_error H q = Some nd0 /\ n_prefix nd' = n_prefix nd0 /\ n_depth nd' = n_depth nd0 /\
                n_parent nd' = n_parent nd0 /\ lview nd' = lview nd0 /\ entry_data nd' = entry_data nd0 /\
                (node_ok nd0 -> node_ok nd') /\
                n_links nd' = if Nat.eqb i q then upd (n_links nd0) j (fun _ => None) else n_links nd0).
    { intros q nd' Gq. unfold H' in Gq. rewrite nth_error_upd in Gq. destruct (Nat.eqb_spec i q) as [<-|Ne].
      - rewrite G in Gq. cbn [option_map] in Gq. injection Gq as <-. eexists. split; [exact G|].
        do 5 (split; [reflexivity|]). split; [|reflexivity].
        cbn. intros (A & B & C & E). repeat split; try assumption. rewrite length_upd. exact E.
      - exists nd'. split; [exact Gq|]. do 5 (split; [reflexivity|]). split; [auto|reflexivity]. }
    assert (Fw : forall q nd0, nth_error H q = Some nd0 -> exists nd', nth_error H' q = Some nd' /\
              n_prefix nd' = n_prefix nd0 /\ n_depth nd' = n_depth nd0 /\ lview nd' = lview nd0 /\
              (forall x0 d0 p0 l0, nd0 = Link x0 d0 p0 l0 ->
                 nd' = Link x0 d0 p0 (if Nat.eqb i q then upd l0 j (fun _ => None) else l0))).
    { intros q nd0 Gq. unfold H'. rewrite nth_error_upd, Gq. destruct (Nat.eqb_spec i q) as [<-|Ne]; cbn [option_map].
      - rewrite G in Gq. injection Gq as <-. eexists. split; [reflexivity|]. do 3 (split; [reflexivity|]).
        intros x0 d0 p0 l0 E. injection E as <- <- <- <-. reflexivity.
      - exists nd0. split; [reflexivity|]. do 3 (split; [reflexivity|]). intros x0 d0 p0 l0 E. exact E. }
    constructor.
    - intros q nd' Gq. destruct (Lk q nd' Gq) as (nd0 & G0 & _ & _ & Ep & _ & _ & Ok' & _).
      destruct (d_ok _ _ _ _ D q nd0 G0) as (A & B). split; [apply Ok'; exact A|congruence].
    - intros p x0 d0 pp0 ls0 j0 c0 Gp Hj0. destruct (Lk p _ Gp) as (nd0 & G0 & E1 & E2 & E3 & EV & _ & _ & EL).
      destruct nd0 as [x1 d1 pp1 ls1|]; [|cbn in EV; discriminate]. cbn [n_prefix n_depth n_parent n_links] in *. subst x1 d1 pp1.
      assert (Hj1 : nth j0 ls1 None = Some c0).
      { rewrite EL in Hj0. destruct (Nat.eqb i p); [|exact Hj0]. apply nth_upd_some in Hj0. destruct Hj0 as [[_ E]|[_ E]]; [discriminate|exact E]. }
      destruct (d_link _ _ _ _ D p x0 d0 pp0 ls1 j0 c0 G0 Hj1) as (cn0 & Gc0 & Alc0 & Epc0 & Hd0 & Ej0).
      destruct (Fw c0 cn0 Gc0) as (cn' & Gc' & F1 & F2 & _). exists cn'. rewrite F1, F2. auto.
    - intros a an' p Ga Ala Ep. destruct (Lk a an' Ga) as (an & Ga0 & E1 & E2 & _).
      destruct (d_par _ _ _ _ D a an p Ga0 Ala Ep) as (x0 & d0 & pp0 & ls0 & Gp & Alp & Hd & C).
      destruct (Fw p _ Gp) as (pn' & Gp' & _ & _ & _ & FL). specialize (FL x0 d0 pp0 ls0 eq_refl). subst pn'.
      eexists _, _, _, _. split; [exact Gp'|]. split; [exact Alp|]. split; [rewrite E2; exact Hd|]. rewrite E1.
      destruct (Nat.eq_dec a c) as [->|Nac].
      + (* the child we descend into *)
        left. split; [constructor|]. rewrite Epc in Ep. injection Ep as <-. rewrite G in Gp. injection Gp as <- <- <- <-.
        rewrite Gc in Ga0. injection Ga0 as <-. rewrite Nat.eqb_refl, <- Ejc, nth_upd, Nat.eqb_refl.
        assert (Nat.ltb j (length ls) = true) as -> by (apply Nat.ltb_lt; exact Jlt). reflexivity.
      + destruct C as [[An E]|[Na E]].
        * left. split; [apply anc_up; rewrite Epc; exact An|].
          destruct (Nat.eqb i p); [|exact E]. rewrite nth_upd. destruct (_ && _); [reflexivity|exact E].
        * right. split.
          -- intros An. inversion An; subst; [contradiction|]. rewrite Epc in H2. contradiction.
          -- destruct (Nat.eqb_spec i p) as [<-|]; [|exact E]. rewrite G in Gp. injection Gp as <- <- <- <-.
             rewrite nth_upd. destruct (Nat.eqb_spec j (N.to_nat (idxP (n_prefix an) d))) as [Ej|]; [|exact E].
             rewrite <- Ej, Hj in E. injection E as ->. contradiction.
    - intros a an' Ga Ala Ep. destruct (Lk a an' Ga) as (an & Ga0 & _). exact (d_root _ _ _ _ D a an Ga0 Ala Ep).
    - intros c' E. injection E as <-. destruct (Fw c cn Gc) as (cn' & Gc' & _). eauto.
    - intros E. discriminate.
    - intros e nd' m sl Ge De. destruct (Lk e nd' Ge) as (nd0 & G0 & _ & _ & _ & _ & ED & _). rewrite ED in De.
      exact (d_slots _ _ _ _ D e nd0 m sl G0 De).
    - intros [|q]; rewrite (d_blocks _ _ _ _ D); [reflexivity|]. destruct (aliveb dead q); [|reflexivity].
      destruct (nth_error H q) as [nd0|] eqn:G0.
      + destruct (Fw q nd0 G0) as (nd' & G' & _ & _ & EV & _). rewrite G'. cbn [option_map]. rewrite EV. reflexivity.
      + assert (nth_error H' q = None) as -> by (apply nth_error_None; unfold H'; rewrite length_upd; apply nth_error_None; exact G0). reflexivity.
    - intros [|q] j0; rewrite (d_live _ _ _ _ D); [reflexivity|]. f_equal.
      destruct (nth_error H q) as [nd0|] eqn:G0.
      + destruct (Fw q nd0 G0) as (nd' & G' & _ & _ & EV & _). rewrite G', EV. reflexivity.
      + assert (nth_error H' q = None) as -> by (apply nth_error_None; unfold H'; rewrite length_upd; apply nth_error_None; exact G0). reflexivity.
  Qed.

  Theorem dtor_run : forall f H dead lg cur L, DInv H dead cur L -> ev_run ls0 (rev lg) = Some L ->
    (potential H dead < f)%nat ->
    exists H' dead' lg' L', dtor_loop f esz lsz H dead lg cur = Ok (H', dead', lg') /\
                            ev_run ls0 (rev lg') = Some L' /\ Done L'.
  Proof.
    induction f as [|f IH]; intros H dead lg cur L D EL Hf; [lia|]. cbn [dtor_loop].
    destruct cur as [i|].
    2:{ eexists _, _, _, L. split; [reflexivity|]. split; [exact EL|]. exact (done_of_end H dead L D). }
    destruct (d_cur _ _ _ _ D i eq_refl) as (nd & G & Al).
    assert (Ex : existsb (Nat.eqb i) dead = false) by (unfold aliveb in Al; apply negb_true_iff in Al; exact Al).
    rewrite Ex, G. destruct (d_ok _ _ _ _ D i nd G) as (Ok_ & Epar).
    assert (Ilt : (i < length H)%nat) by (apply nth_error_Some; congruence).
    destruct nd as [x d pp ls|x d pp m sl].
    - (* link node *)
      pose proof (node_ok_link _ Ok_ eq_refl) as Hd. cbn [n_depth n_parent] in *.
      destruct (d =? ll) eqn:Ed; [apply N.eqb_eq in Ed; unfold ll in Ed; lia|].
      pose proof (first_some_idx_spec ls) as FS. destruct (first_some_idx ls) as [[j c]|].
      + apply (IH _ dead lg (Some c) L); [eapply dinv_descend; eassumption|exact EL|].
        unfold potential in *. rewrite alive_count_upd. pose proof (links_total_upd H i x d pp ls j c G FS). lia.
      + (* no child left: deallocate *)
        assert (HBk : has_block (blk i) L = Some lsz).
        { rewrite (d_blocks _ _ _ _ D). unfold blk. rewrite Al, G. reflexivity. }
        assert (HLv : forall j, is_live (blk i, j) L = false).
        { intros j. rewrite (d_live _ _ _ _ D). unfold blk. rewrite Al, G. cbn [lview snd]. destruct j; reflexivity. }
        subst pp.
        apply (IH H (i :: dead) (EDealloc (blk i) lsz :: lg) (par i) (drop_block (blk i) L)).
        * apply (dinv_kill H dead i (Link x d (par i) ls) L); try assumption.
          -- intros b'. apply has_block_drop.
          -- intros b' j. transitivity (is_live (b', j) L); [reflexivity|].
             destruct (Nat.eqb_spec b' (blk i)) as [->|]; [apply HLv|reflexivity].
        * cbn [rev]. rewrite (ev_run_snoc _ _ _ EL). cbn [ev_step]. rewrite HBk, N.eqb_refl, (no_live_of _ _ HLv). reflexivity.
        * unfold potential in *. pose proof (alive_count_kill H dead i Ilt Al). lia.
    - (* leaf *)
      destruct Ok_ as (_ & _ & Hd & Len). cbn [n_depth n_parent] in *. subst d pp. change (15 =? ll) with true. cbv iota.
      assert (SO : slots_ok m sl) by (eapply (d_slots _ _ _ _ D); [exact G|reflexivity]).
      destruct (destroy_vals_spec (blk i) m sl SO Len 16 0 lg L eq_refl EL) as (lg1 & L1 & R1 & E1 & A1 & A2 & A3).
      { intros j. rewrite (d_live _ _ _ _ D). unfold blk. rewrite Al, G. cbn [lview snd andb Nat.leb]. apply nth_map_is_some. }
      rewrite R1. cbn [bind].
      assert (HBk : has_block (blk i) L1 = Some esz).
      { rewrite A1, (d_blocks _ _ _ _ D). unfold blk. rewrite Al, G. reflexivity. }
      apply (IH H (i :: dead) (EDealloc (blk i) esz :: lg1) (par i) (drop_block (blk i) L1)).
      + apply (dinv_kill H dead i (Entry x 15 (par i) m sl) L); try assumption.
        * intros j. destruct j; reflexivity.
        * intros b'. rewrite has_block_drop, A1. reflexivity.
        * intros b' j. transitivity (is_live (b', j) L1); [reflexivity|].
          destruct (Nat.eqb_spec b' (blk i)) as [->|Ne]; [apply A2|apply A3; exact Ne].
      + cbn [rev]. rewrite (ev_run_snoc _ _ _ E1). cbn [ev_step]. rewrite HBk, N.eqb_refl, (no_live_of _ _ A2). reflexivity.
      + unfold potential in *. pose proof (alive_count_kill H dead i Ilt Al). lia.
  Qed.
End Dtor.

(* ---------------------------------------------------------------- the destructor after any history *)
Definition par_of (H : list node) (i : nat) : option nat :=
  match nth_error H i with Some nd => n_parent nd | None => None end.

Lemma filter_len_le {A} (f : A -> bool) l : (length (filter f l) <= length l)%nat.
Proof. induction l as [|x l IH]; cbn; [lia|]. destruct (f x); cbn; lia. Qed.

Lemma count_some_le l : (count_some l <= length l)%nat.
Proof. unfold count_some. apply filter_len_le. Qed.

Lemma links_total_bound H : (forall i nd, nth_error H i = Some nd -> node_ok nd) -> (links_total H <= 16 * length H)%nat.
Proof.
  induction H as [|nd H IH]; intros Hok; cbn [links_total fold_right length]; [lia|].
  assert (count_some (n_links nd) <= 16)%nat.
  { pose proof (Hok 0%nat nd eq_refl) as Ok_. pose proof (count_some_le (n_links nd)).
    destruct nd as [x d p ls|]; cbn [n_links] in *; [destruct Ok_ as (_ & _ & _ & L); lia|cbn in *; lia]. }
  assert (links_total H <= 16 * length H)%nat by (apply IH; intros i nd' G; apply (Hok (S i) nd' G)).
  unfold links_total in *. lia.
Qed.

Lemma dinv_init esz lsz s M L : Full s M -> LogInv esz lsz (nodes s) L ->
  DInv esz lsz (par_of (nodes s)) (root s) (nodes s) [] (root s) L.
Proof.
  intros [G Sh] [LB LV]. pose proof (g_inv _ _ G) as I.
  assert (AncRoot : forall a, Anc (par_of (nodes s)) a (root s) -> root s = Some a).
  { intros a An. destruct (root s) as [r|] eqn:Er; [|inversion An].
    inversion An as [|? ? An']; subst; [reflexivity|]. exfalso.
    destruct (inv_root _ _ I r Er) as (rn & Gr & Hp). unfold par_of in An'. rewrite Gr, Hp in An'. inversion An'. }
  constructor.
  - intros i nd Gi. split; [exact (inv_ok _ _ I _ _ Gi)|]. unfold par_of. rewrite Gi. reflexivity.
  - intros p x d pp ls j c Gp Hj. destruct (inv_link _ _ I _ _ _ _ _ _ _ Gp Hj) as (cn & Gc & Hd & _ & Hi & Hpar).
    exists cn. split; [exact Gc|]. split; [reflexivity|]. split; [unfold par_of; rewrite Gc; exact Hpar|]. split; [exact Hd|].
    rewrite Hi, Nat2N.id. reflexivity.
  - intros a an p Ga _ Ep. unfold par_of in Ep. rewrite Ga in Ep.
    destruct (sh_parent _ _ Sh _ _ _ Ga Ep) as (x & d & pp & ls & Gp & Hl).
    destruct (inv_link _ _ I _ _ _ _ _ _ _ Gp Hl) as (an' & Ga' & Hd & _). rewrite Ga in Ga'. injection Ga' as <-.
    exists x, d, pp, ls. split; [exact Gp|]. split; [reflexivity|]. split; [exact Hd|]. right. split; [|exact Hl].
    intros An. pose proof (AncRoot a An) as Er. destruct (inv_root _ _ I a Er) as (rn & Gr & Hp). rewrite Ga in Gr. injection Gr as <-. congruence.
  - intros a an Ga _ Ep. unfold par_of in Ep. rewrite Ga in Ep. exact (sh_root _ _ Sh _ _ Ga Ep).
  - intros i Ei. destruct (inv_root _ _ I i Ei) as (rn & Gr & _). exists rn. split; [exact Gr|reflexivity].
  - intros En a Er. congruence.
  - exact (g_slots _ _ G).
  - intros [|i]; rewrite LB; reflexivity.
  - intros [|i] j; rewrite LV; reflexivity.
Qed.

Lemma blocks_nil_of L : (forall b, has_block b L = None) -> blocks L = [].
Proof.
  intros Hn. destruct (blocks L) as [|[b n] bl] eqn:E; [reflexivity|]. specialize (Hn b). unfold has_block in Hn.
  rewrite E in Hn. cbn [List.find fst] in Hn. rewrite Nat.eqb_refl in Hn. discriminate.
Qed.
Lemma live_nil_of L : (forall o, is_live o L = false) -> live L = [].
Proof.
  intros Hn. destruct (live L) as [|o lv] eqn:E; [reflexivity|]. specialize (Hn o). unfold is_live in Hn.
  rewrite E in Hn. cbn [existsb] in Hn. assert (obj_eqb o o = true) as Q by (apply obj_eqb_spec; reflexivity).
  rewrite Q in Hn. discriminate.
Qed.

Theorem destructor_closed esz lsz s M : Full s M -> LogOK esz lsz s ->
  exists s', destructor esz lsz s = Ok s' /\ wf_closed (elog s') = true.
Proof.
  intros F (L & EL & LI). pose proof (dinv_init esz lsz s M L F LI) as D.
  assert (Pot : (potential (nodes s) [] < S (17 * length (nodes s)))%nat).
  { unfold potential. pose proof (links_total_bound (nodes s) (inv_ok _ _ (g_inv _ _ (proj1 F)))).
    assert (alive_count (nodes s) [] <= length (nodes s))%nat.
    { unfold alive_count. pose proof (filter_len_le (aliveb []) (seq 0 (length (nodes s)))). rewrite seq_length in H0. exact H0. }
    lia. }
  destruct (dtor_run esz lsz _ _ _ (nodes s) [] (rlog s) (root s) L D EL Pot) as (H' & dead' & lg' & L' & R & E' & (DB & DL)).
  unfold destructor. rewrite R. cbn [bind]. eexists. split; [reflexivity|].
  unfold wf_closed, elog. cbn [rlog]. rewrite E'. rewrite (blocks_nil_of L' DB), (live_nil_of L' DL). reflexivity.
Qed.
