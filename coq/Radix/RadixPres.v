(* Preservation of the heap invariant by every writer operation. *)
From Coq Require Import List NArith Arith Bool Lia ZifyBool ZifyNat ZifyN.
From FV Require Import Common.EventLog Radix.RadixModel Radix.RadixBits Radix.RadixInv Radix.RadixExec Radix.RadixSem Radix.RadixFind.
Import ListNotations.
Local Open Scope N_scope.

Arguments pfxP : simpl never.
Arguments idxP : simpl never.

Lemma publish_lookup H1 k p c i :
  nth_error (publish_heap H1 k p c) i =
    match p with
    | Some pi => if Nat.eqb pi i then option_map (set_link_at (cell_idx H1 k p) (Some c)) (nth_error H1 i)
                 else nth_error H1 i
    | None => nth_error H1 i
    end.
Proof.
  destruct p as [pi|]; cbn [publish_heap cell_idx]; [|reflexivity].
  destruct (nth_error H1 pi) as [pn|] eqn:G.
  - rewrite nth_error_upd. reflexivity.
  - destruct (Nat.eqb_spec pi i) as [->|]; [rewrite G|]; reflexivity.
Qed.

(* what a child link needs from the child: prefix, depth and parent *)
Definition same_pdp (a b : node) : Prop :=
  n_prefix a = n_prefix b /\ n_depth a = n_depth b /\ n_parent a = n_parent b.

Lemma node_ok_set_link_at j c nd : node_ok nd -> node_ok (set_link_at j c nd).
Proof.
  destruct nd as [x d par ls|]; cbn; [|auto]. intros (A & B & C & D). repeat split; try assumption.
  rewrite length_upd. exact D.
Qed.
Lemma node_ok_set_parent q nd : node_ok nd -> node_ok (set_parent q nd).
Proof. destruct nd; cbn; auto. Qed.
Lemma same_pdp_set_link_at j c nd : same_pdp nd (set_link_at j c nd).
Proof. destruct nd; repeat split. Qed.

Lemma node_ok_new_entry k v par : k < K64 -> node_ok (new_entry k v par).
Proof.
  intros Hk. cbn. repeat split.
  - apply pfx_lt. exact Hk.
  - apply pfx_idem.
  - rewrite length_upd. apply repeat_length.
Qed.

Lemma node_ok_new_link k sp d par n si : k < K64 -> d < 15 -> node_ok (new_link k sp d par n si).
Proof.
  intros Hk Hd. cbn. repeat split.
  - apply pfx_lt. exact Hk.
  - apply pfx_idem.
  - exact Hd.
  - rewrite !length_upd. apply repeat_length.
Qed.

Lemma nth_upd_some {A} (l : list (option A)) a (x : option A) j c :
  nth j (upd l a (fun _ => x)) None = Some c ->
  (j = a /\ x = Some c) \/ (j <> a /\ nth j l None = Some c).
Proof.
  rewrite nth_upd. destruct (Nat.eqb_spec a j) as [->|Hn]; cbn [andb].
  - destruct (Nat.ltb j (length l)) eqn:L; intros E.
    + left. split; [reflexivity|exact E].
    + apply Nat.ltb_ge in L. rewrite nth_overflow in E by exact L. discriminate.
  - intros E. right. split; [congruence|exact E].
Qed.

Lemma nth_upd2_some {A} (l : list (option A)) a (x : option A) b (y : option A) j c :
  (forall i, nth i l None = None) ->
  nth j (upd (upd l a (fun _ => x)) b (fun _ => y)) None = Some c ->
  (j = b /\ y = Some c) \/ (j = a /\ j <> b /\ x = Some c).
Proof.
  intros Hl Hj. apply nth_upd_some in Hj. destruct Hj as [[-> E]|[Hne Hj]]; [left; auto|].
  apply nth_upd_some in Hj. destruct Hj as [[-> E]|[Hne' Hj]]; [right; auto|].
  rewrite Hl in Hj. discriminate.
Qed.

(* ---------------------------------------------------------------- case 1 *)
Lemma inv_case1 H rt k v p : Inv H rt -> k < K64 -> Walk H k None rt (FCase1 p) ->
  Inv (case1_heap H k v p) (publish_root rt p (length H)).
Proof.
  intros I Hk W.
  pose proof (case1_parent _ _ _ _ W) as Hp.
  pose proof (case1_new_node H k v p) as Gn.
  assert (Lk : forall i, (i < length H)%nat -> nth_error (case1_heap H k v p) i = nth_error (publish_heap H k p (length H)) i).
  { intros i L. unfold case1_heap. apply nth_error_app1. rewrite publish_heap_length. exact L. }
  assert (Len : length (case1_heap H k v p) = S (length H)).
  { unfold case1_heap. rewrite app_length, publish_heap_length. cbn. lia. }
  (* every old node is still there, same prefix/depth/parent *)
  assert (Old : forall i nd, nth_error H i = Some nd -> exists nd', nth_error (case1_heap H k v p) i = Some nd' /\
             same_pdp nd nd' /\ node_ok nd').
  { intros i nd G. assert (L : (i < length H)%nat) by (apply nth_error_Some; congruence).
    rewrite (Lk i L), publish_lookup. pose proof (inv_ok _ _ I _ _ G) as Ok_.
    destruct p as [pi|]; [destruct (Nat.eqb pi i)|]; rewrite G; cbn [option_map]; eexists; split; try reflexivity;
      (split; [try apply same_pdp_set_link_at; repeat split | try apply node_ok_set_link_at; exact Ok_]). }
  constructor.
  - (* node_ok *)
    intros i nd G. destruct (Nat.lt_ge_cases i (length H)) as [L|L].
    + destruct (nth_error H i) as [nd0|] eqn:G0; [|apply nth_error_None in G0; lia].
      destruct (Old i nd0 G0) as (nd' & G' & _ & Ok'). rewrite G in G'. injection G' as <-. exact Ok'.
    + assert (i = length H).
      { assert (i < length (case1_heap H k v p))%nat by (apply nth_error_Some; congruence). lia. }
      subst i. rewrite Gn in G. injection G as <-. apply node_ok_new_entry. exact Hk.
  - (* links *)
    intros q x d par ls j c G Hj. destruct (Nat.lt_ge_cases q (length H)) as [L|L].
    + rewrite (Lk q L), publish_lookup in G.
      assert (OldLink : forall ls0, nth_error H q = Some (Link x d par ls0) -> nth j ls0 None = Some c ->
                exists cn, nth_error (case1_heap H k v p) c = Some cn /\ d < n_depth cn /\ pfxP (n_prefix cn) d = x /\
                           idxP (n_prefix cn) d = N.of_nat j /\ n_parent cn = Some q).
      { intros ls0 G0 Hj0. destruct (inv_link _ _ I _ _ _ _ _ _ _ G0 Hj0) as (cn & Gc & A & B & C & D).
        destruct (Old c cn Gc) as (cn' & Gc' & (E1 & E2 & E3) & _). exists cn'. rewrite <- E1, <- E2, <- E3. auto. }
      destruct p as [pi|].
      * destruct (Nat.eqb_spec pi q) as [->|Hn].
        -- destruct (Hp q eq_refl) as (pn & Gp & Hent & Hm & Hc & _). rewrite Gp in G. cbn [option_map] in G.
           destruct pn as [x0 d0 par0 ls0|]; [|discriminate]. cbn [set_link_at] in G. injection G as <- <- <- <-.
           cbn [cell_idx] in Hj. rewrite Gp in Hj. cbn [n_depth n_links n_prefix] in *.
           apply nth_upd_some in Hj. destruct Hj as [[-> E]|[Hne Hj]].
           ++ injection E as <-. exists (new_entry k v (Some q)). split; [exact Gn|].
              pose proof (node_ok_link _ (inv_ok _ _ I _ _ Gp) eq_refl) as Hd. cbn [n_depth] in Hd.
              cbn [new_entry n_depth n_prefix n_parent]. repeat split.
              ** lia.
              ** rewrite pfx_pfx_le by lia. exact Hm.
              ** rewrite idx_pfx by lia. rewrite N2Nat.id. reflexivity.
           ++ apply (OldLink ls0 Gp Hj).
        -- apply (OldLink ls G Hj).
      * apply (OldLink ls G Hj).
    + assert (q = length H).
      { assert (q < length (case1_heap H k v p))%nat by (apply nth_error_Some; congruence). lia. }
      subst q. rewrite Gn in G. discriminate.
  - (* root *)
    intros r E. destruct p as [pi|]; cbn [publish_root] in E.
    + destruct (inv_root _ _ I r E) as (rn & Gr & Hpar). destruct (Old r rn Gr) as (rn' & Gr' & (_ & _ & E3) & _).
      exists rn'. split; [exact Gr'|congruence].
    + injection E as <-. exists (new_entry k v None). split; [exact Gn|reflexivity].
Qed.

(* ---------------------------------------------------------------- case 2 *)
Lemma inv_case2 H rt k v p si sn d : Inv H rt -> k < K64 -> Walk H k None rt (FCase2 p si) ->
  nth_error H si = Some sn -> d < n_depth sn -> hi k d = hi (n_prefix sn) d -> hi k (d + 1) <> hi (n_prefix sn) (d + 1) ->
  (forall pi pn, p = Some pi -> nth_error H pi = Some pn -> n_depth pn < d) ->
  Inv (case2_heap H k v p si (n_prefix sn) d) (publish_root rt p (S (length H))).
Proof.
  intros I Hk W Gs Hd Hag Hdis Habove.
  pose proof (case2_parent _ _ _ _ _ W) as Hp.
  pose proof (case2_new_entry H k v p si (n_prefix sn) d) as Gn.
  pose proof (case2_new_link H k v p si (n_prefix sn) d) as Gr.
  set (H' := case2_heap H k v p si (n_prefix sn) d) in *.
  set (n := length H) in *. set (r := S n) in *.
  set (H1 := upd H si (set_parent (Some r))).
  pose proof (inv_ok _ _ I _ _ Gs) as Oks. pose proof (node_ok_depth _ Oks) as Hsd.
  destruct Oks as (Hsp & Hsfix & _).
  assert (Hik : idxP k d <> idxP (n_prefix sn) d).
  { intros E. apply Hdis. apply hi_S_iff; [lia|]. split; assumption. }
  assert (Lk : forall i, (i < n)%nat -> nth_error H' i = nth_error (publish_heap H1 k p r) i).
  { intros i L. unfold H', case2_heap. apply nth_error_app1. rewrite publish_heap_length. unfold H1. rewrite length_upd. exact L. }
  assert (Len : length H' = S (S n)).
  { unfold H', case2_heap. rewrite app_length, publish_heap_length, length_upd. cbn. lia. }
  assert (Hpsi : forall pi, p = Some pi -> pi <> si).
  { intros pi E ->. destruct (Hp si E) as (pn & Gp & _). rewrite Gs in Gp. injection Gp as <-.
    pose proof (Habove si sn E Gs). lia. }
  (* old nodes other than si keep prefix/depth/parent; si gets parent r *)
  assert (Old : forall i nd, nth_error H i = Some nd -> exists nd', nth_error H' i = Some nd' /\
             n_prefix nd = n_prefix nd' /\ n_depth nd = n_depth nd' /\
             n_parent nd' = (if Nat.eqb si i then Some r else n_parent nd) /\ node_ok nd').
  { intros i nd G. assert (L : (i < n)%nat) by (apply nth_error_Some; congruence).
    rewrite (Lk i L), publish_lookup. pose proof (inv_ok _ _ I _ _ G) as Ok_.
    assert (G1 : nth_error H1 i = Some (if Nat.eqb si i then set_parent (Some r) nd else nd)).
    { unfold H1. rewrite nth_error_upd, G. destruct (Nat.eqb si i); reflexivity. }
    assert (Q : forall nd1, nd1 = (if Nat.eqb si i then set_parent (Some r) nd else nd) ->
              n_prefix nd = n_prefix nd1 /\ n_depth nd = n_depth nd1 /\
              n_parent nd1 = (if Nat.eqb si i then Some r else n_parent nd) /\ node_ok nd1).
    { intros nd1 ->. destruct (Nat.eqb si i); [|auto]. destruct nd; cbn; auto. }
    destruct (Q _ eq_refl) as (Q1 & Q2 & Q3 & Q4).
    destruct p as [pi|]; [destruct (Nat.eqb pi i)|]; rewrite G1; cbn [option_map]; eexists; split; try reflexivity.
    - destruct (same_pdp_set_link_at (cell_idx H1 k (Some pi)) (Some r) (if Nat.eqb si i then set_parent (Some r) nd else nd)) as (S1 & S2 & S3).
      rewrite <- S1, <- S2, <- S3. split; [exact Q1|]. split; [exact Q2|]. split; [exact Q3|].
      apply node_ok_set_link_at. exact Q4.
    - auto.
    - auto. }
  constructor.
  - intros i nd G. destruct (Nat.lt_ge_cases i n) as [L|L].
    + destruct (nth_error H i) as [nd0|] eqn:G0; [|apply nth_error_None in G0; unfold n in L; lia].
      destruct (Old i nd0 G0) as (nd' & G' & _ & _ & _ & Ok'). rewrite G in G'. injection G' as <-. exact Ok'.
    + assert (i < length H')%nat by (apply nth_error_Some; congruence).
      assert (i = n \/ i = r) as [->| ->] by (unfold r; lia).
      * rewrite Gn in G. injection G as <-. apply node_ok_new_entry. exact Hk.
      * rewrite Gr in G. injection G as <-. apply node_ok_new_link; [exact Hk|lia].
  - intros q x dq par ls j c G Hj. destruct (Nat.lt_ge_cases q n) as [L|L].
    + rewrite (Lk q L), publish_lookup in G.
      (* an old link of q, not the one to si under p *)
      assert (OldLink : forall par1 ls0, nth_error H q = Some (Link x dq par1 ls0) -> nth j ls0 None = Some c -> c <> si ->
                exists cn, nth_error H' c = Some cn /\ dq < n_depth cn /\ pfxP (n_prefix cn) dq = x /\
                           idxP (n_prefix cn) dq = N.of_nat j /\ n_parent cn = Some q).
      { intros par1 ls0 G0 Hj0 Hcs. destruct (inv_link _ _ I _ _ _ _ _ _ _ G0 Hj0) as (cn & Gc & A & B & C & D).
        destruct (Old c cn Gc) as (cn' & Gc' & E1 & E2 & E3 & _). exists cn'. rewrite <- E1, <- E2, E3.
        destruct (Nat.eqb_spec si c); [congruence|]. auto. }
      (* who links to si in the old heap *)
      assert (LinkSi : forall par1 ls0, nth_error H q = Some (Link x dq par1 ls0) -> nth j ls0 None = Some si ->
                p = Some q /\ N.of_nat j = cell_idx H k p).
      { intros par1 ls0 G0 Hj0. destruct (inv_link _ _ I _ _ _ _ _ _ _ G0 Hj0) as (cn & Gc & A & B & C & D).
        rewrite Gs in Gc. injection Gc as <-.
        destruct p as [pi|].
        - destruct (Hp pi eq_refl) as (pn & Gp & Hent & Hm & Hc & _).
          destruct pn as [xp dp parp lsp|]; [|discriminate]. cbn [n_links n_depth n_prefix] in *.
          destruct (inv_link _ _ I _ _ _ _ _ _ _ Gp Hc) as (cn & Gc & A' & B' & C' & D').
          rewrite Gs in Gc. injection Gc as <-. rewrite D in D'. injection D' as <-.
          rewrite G0 in Gp. injection Gp as <- <- <- <-. split; [reflexivity|].
          cbn [cell_idx]. rewrite G0. cbn [n_depth]. rewrite <- C, C', N2Nat.id. reflexivity.
        - pose proof (walk_top_immediate _ _ _ _ W eq_refl) as Ert. cbn in Ert.
          destruct (inv_root _ _ I si Ert) as (rn & Grn & Hpar). rewrite Gs in Grn. injection Grn as <-. congruence. }
      destruct (nth_error H q) as [qn|] eqn:Gq; [|apply nth_error_None in Gq; unfold n in L; lia].
      assert (G1 : nth_error H1 q = Some (if Nat.eqb si q then set_parent (Some r) qn else qn)).
      { unfold H1. rewrite nth_error_upd, Gq. destruct (Nat.eqb si q); reflexivity. }
      destruct p as [pi|].
      * destruct (Nat.eqb_spec pi q) as [->|Hn].
        -- destruct (Hp q eq_refl) as (pn & Gp & Hent & Hm & Hc & _). rewrite Gq in Gp. injection Gp as <-.
           destruct (Nat.eqb_spec si q) as [Es|_]; [exfalso; apply (Hpsi q eq_refl); congruence|].
           rewrite G1 in G. cbn [option_map] in G.
           destruct qn as [x0 d0 par0 ls0|]; [|discriminate]. cbn [set_link_at] in G. injection G as <- <- <- <-.
           cbn [cell_idx] in Hj. rewrite G1 in Hj. cbn [n_depth n_links n_prefix] in *.
           apply nth_upd_some in Hj. destruct Hj as [[-> E]|[Hne Hj]].
           ++ injection E as <-. exists (new_link k (n_prefix sn) d (Some q) n si). split; [exact Gr|].
              pose proof (Habove q _ eq_refl Gq) as Hab. cbn [n_depth] in Hab.
              cbn [new_link n_depth n_prefix n_parent]. repeat split.
              ** exact Hab.
              ** rewrite pfx_pfx_le by lia. exact Hm.
              ** rewrite idx_pfx by lia. rewrite N2Nat.id. reflexivity.
           ++ apply (OldLink _ ls0 eq_refl Hj). intros ->.
              destruct (LinkSi _ ls0 eq_refl Hj) as (_ & Ej). cbn [cell_idx] in Ej. rewrite Gq in Ej. cbn [n_depth] in Ej. lia.
        -- rewrite G1 in G. injection G as G.
           assert (Gq' : qn = Link x dq par ls \/ (si = q /\ exists par0, qn = Link x dq par0 ls)).
           { destruct (Nat.eqb_spec si q) as [Es|_]; [right|left; exact G]. split; [exact Es|].
             destruct qn; cbn in G; [|discriminate]. injection G as -> -> _ ->. eauto. }
           destruct Gq' as [->|(Es & par0 & ->)].
           ++ apply (OldLink _ ls eq_refl Hj). intros ->. destruct (LinkSi _ ls eq_refl Hj) as (E & _). congruence.
           ++ destruct (inv_link _ _ I _ _ _ _ _ _ _ Gq Hj) as (cn & Gc & A & B & C & D).
              assert (c <> si).
              { intros ->. subst q. rewrite Gs in Gc. injection Gc as <-. rewrite Gs in Gq. injection Gq as ->. cbn [n_depth] in A. lia. }
              destruct (Old c cn Gc) as (cn' & Gc' & E1 & E2 & E3 & _). exists cn'. rewrite <- E1, <- E2, E3.
              destruct (Nat.eqb_spec si c); [congruence|]. auto.
      * rewrite G1 in G. injection G as G.
        assert (Gq' : exists par0, qn = Link x dq par0 ls).
        { destruct (Nat.eqb si q); [|eauto]. destruct qn; cbn in G; [|discriminate]. injection G as -> -> _ ->. eauto. }
        destruct Gq' as (par0 & ->).
        destruct (inv_link _ _ I _ _ _ _ _ _ _ Gq Hj) as (cn & Gc & A & B & C & D).
        assert (c <> si).
        { intros ->. destruct (LinkSi _ ls eq_refl Hj) as (E & _). discriminate. }
        destruct (Old c cn Gc) as (cn' & Gc' & E1 & E2 & E3 & _). exists cn'. rewrite <- E1, <- E2, E3.
        destruct (Nat.eqb_spec si c); [congruence|].
        auto.
    + assert (q < length H')%nat by (apply nth_error_Some; congruence).
      assert (q = n \/ q = r) as [->| ->] by (unfold r; lia).
      * rewrite Gn in G. discriminate.
      * rewrite Gr in G.
        assert (EL : n_links (new_link k (n_prefix sn) d p n si) = ls /\ pfxP k d = x /\ d = dq)
          by (injection G as <- <- <- <-; repeat split).
        destruct EL as (EL & <- & <-). rewrite <- EL in Hj. clear EL G.
        cbv beta iota delta [n_links new_link] in Hj.
        apply nth_upd2_some in Hj; [|intros; apply nth_repeat_none].
        destruct Hj as [[-> E]|(-> & Hne & E)].
        -- injection E as <-. destruct (Old si sn Gs) as (sn' & Gs' & E1 & E2 & E3 & _). exists sn'.
           rewrite Nat.eqb_refl in E3. rewrite <- E1, <- E2, E3. split; [exact Gs'|]. repeat split.
           ++ exact Hd.
           ++ apply pfx_eq_iff. symmetry. exact Hag.
           ++ rewrite N2Nat.id. reflexivity.
        -- injection E as <-. exists (new_entry k v (Some r)). split; [exact Gn|].
           cbn [new_entry n_depth n_prefix n_parent]. repeat split.
           ++ lia.
           ++ apply pfx_pfx_le; lia.
           ++ rewrite idx_pfx by lia. rewrite N2Nat.id. reflexivity.
  - intros r0 E. destruct p as [pi|]; cbn [publish_root] in E.
    + destruct (inv_root _ _ I r0 E) as (rn & Grn & Hpar). destruct (Old r0 rn Grn) as (rn' & Grn' & _ & _ & E3 & _).
      exists rn'. split; [exact Grn'|]. rewrite E3. destruct (Nat.eqb_spec si r0) as [->|]; [|exact Hpar].
      exfalso. destruct (Hp pi eq_refl) as (pn & Gp & Hent & Hm & Hc & _).
      destruct pn as [xp dp parp lsp|]; [|discriminate]. cbn [n_links n_depth n_prefix] in *.
      destruct (inv_link _ _ I _ _ _ _ _ _ _ Gp Hc) as (cn & Gc & _ & _ & _ & D'). rewrite Grn in Gc. injection Gc as <-. congruence.
    + injection E as <-. exists (new_link k (n_prefix sn) d None n si). split; [exact Gr|reflexivity].
Qed.
