From FV Require Import Common.ExtractTypes Common.EventLog Radix.RadixModel.
From Coq Require Extraction.
From Coq Require Import ExtrOcamlBasic.
Extraction "../build/extract/radix_model.ml" types_witness st0 step_op destructor elog nodes root rlog.
