(* What find returns after each writer operation, at the level of walks:
   after find_or_insert k the walk of k' ends at the new address if k' = k and is unchanged
   otherwise; erase k removes exactly k. *)
From Coq Require Import List NArith Arith Bool Lia ZifyBool ZifyNat ZifyN.
From FV Require Import Common.EventLog Radix.RadixModel Radix.RadixBits Radix.RadixInv Radix.RadixExec Radix.RadixSem.
Import ListNotations.
Local Open Scope N_scope.

Arguments pfxP : simpl never.
Arguments idxP : simpl never.

(* ---------------------------------------------------------------- small facts *)
Lemma stop_parent_some H k p0 c st : Walk H k p0 c st -> p0 <> None ->
  match st with FCase3 _ _ _ => True | _ => stop_parent st <> None end.
Proof.
  induction 1 as [p|p i nd G Hne|p i nd G He Hent|p i nd st G He Hent W IH]; intros Hp; cbn; try assumption; try exact I.
  apply IH. discriminate.
Qed.

(* at top level a stop with parent None is immediate *)
Lemma walk_top_immediate H k rt st : Walk H k None rt st -> stop_parent st = None ->
  match st with FCase3 _ _ _ => True | _ => rt = stop_content st end.
Proof.
  intros W E. apply Walk_inv in W. destruct rt as [r|].
  - destruct W as (nd & G & [[_ ->]|[[_ [_ ->]]|[_ [_ W]]]]); [reflexivity|exact I|].
    pose proof (stop_parent_some _ _ _ _ _ W ltac:(discriminate)) as S.
    destruct st; try exact I; cbn in *; congruence.
  - subst st. reflexivity.
Qed.

Lemma path_end H k c pi : Path H k c pi ->
  exists pn, nth_error H pi = Some pn /\ pfxP k (n_depth pn) = n_prefix pn /\ is_entry pn = false.
Proof. induction 1 as [i nd G He Hent|i nd pi G He Hent Pa IH]; [exists nd; auto|exact IH]. Qed.

Lemma nth_repeat_none {A} n j : nth j (repeat (@None A) n) None = None.
Proof. revert j; induction n as [|n IH]; intros [|j]; cbn; auto. Qed.

Lemma to_nat_eqb a b : Nat.eqb (N.to_nat a) (N.to_nat b) = (a =? b).
Proof. destruct (N.eqb_spec a b) as [->|E]; [apply Nat.eqb_refl|]. apply Nat.eqb_neq. lia. Qed.

Lemma to_nat_ltb16 a : a < 16 -> Nat.ltb (N.to_nat a) 16 = true.
Proof. intros L. apply Nat.ltb_lt. lia. Qed.

(* ---------------------------------------------------------------- the heap after publishing *)
Definition cell_idx (H : list node) (k : N) (p : option nat) : N :=
  match p with
  | Some pi => match nth_error H pi with Some pn => idxP k (n_depth pn) | None => 0 end
  | None => 0
  end.

Definition similar (H H1 : list node) : Prop :=
  length H1 = length H /\
  forall i nd, nth_error H i = Some nd -> exists nd1, nth_error H1 i = Some nd1 /\ weq nd nd1 /\ n_links nd1 = n_links nd.

Lemma similar_refl H : similar H H.
Proof. split; [reflexivity|]. intros i nd G. exists nd. repeat split; assumption. Qed.

Lemma similar_set_parent H si q : similar H (upd H si (set_parent q)).
Proof.
  split; [apply length_upd|]. intros i nd G. rewrite nth_error_upd. destruct (Nat.eqb si i).
  - rewrite G. cbn. exists (set_parent q nd). split; [reflexivity|]. destruct nd; repeat split.
  - exists nd. repeat split; assumption.
Qed.

Lemma publish_heap_length H1 k p c : length (publish_heap H1 k p c) = length H1.
Proof.
  destruct p as [pi|]; cbn; [|reflexivity]. destruct (nth_error H1 pi); [apply length_upd|reflexivity].
Qed.

Lemma hext_publish H H1 T k p c :
  similar H H1 ->
  (forall pi, p = Some pi -> exists pn, nth_error H pi = Some pn /\ is_entry pn = false) ->
  HExt H (publish_heap H1 k p c ++ T) p (cell_idx H k p) (Some c).
Proof.
  intros [SL S] Hp i nd G. destruct (S i nd G) as (nd1 & G1 & Wq & EL).
  assert (Hlt : (i < length H1)%nat) by (apply nth_error_Some; congruence).
  destruct p as [pi|]; cbn [publish_heap cell_idx].
  - destruct (Hp pi eq_refl) as (pn & Gp & Hent). rewrite Gp.
    destruct (S pi pn Gp) as (pn1 & Gp1 & (F1 & F2 & F3 & F4) & FL). rewrite Gp1.
    rewrite nth_error_app1 by (rewrite length_upd; exact Hlt).
    rewrite nth_error_upd. destruct (Nat.eqb_spec pi i) as [->|Hn].
    + rewrite G in Gp. injection Gp as <-. rewrite G1 in Gp1. injection Gp1 as <-.
      rewrite G1. cbn [option_map]. eexists. split; [reflexivity|].
      destruct nd1 as [x d par ls|]; [|rewrite Hent in F3; discriminate].
      cbn [set_link_at n_links n_depth] in *. rewrite F2, FL.
      destruct Wq as (A & B & C & D). repeat split; assumption.
    + exists nd1. repeat split; try assumption; apply Wq.
  - rewrite nth_error_app1 by exact Hlt. exists nd1. repeat split; try assumption; apply Wq.
Qed.

Lemma nth_error_publish_new (H H1 T : list node) k p c j :
  length H1 = length H -> nth_error (publish_heap H1 k p c ++ T) (length H + j) = nth_error T j.
Proof.
  intros L. rewrite nth_error_app2 by (rewrite publish_heap_length; lia).
  rewrite publish_heap_length, L. f_equal. lia.
Qed.

(* ---------------------------------------------------------------- local analyses at the new nodes *)
Lemma entry_local H' n k v par k' p0 :
  nth_error H' n = Some (new_entry k v par) ->
  exists st, Walk H' k' p0 (Some n) st /\
             find_of_stop st = if k' =? k then Some (n, idxP k 15) else None.
Proof.
  intros G. destruct (N.eq_dec (pfxP k' 15) (pfxP k 15)) as [E|E].
  - eexists. split; [eapply W_entry; [exact G|exact E|reflexivity]|].
    cbn [find_of_stop new_entry n_mask n_depth]. unfold bit. rewrite testbit_bit.
    destruct (N.eqb_spec k' k) as [->|Hne].
    + rewrite N.eqb_refl. reflexivity.
    + destruct (N.eqb_spec (idxP k 15) (idxP k' 15)) as [Ei|Ei]; [|reflexivity].
      exfalso. apply Hne. apply key_eq; [exact E|symmetry; exact Ei].
  - eexists. split; [eapply W_split; [exact G|exact E]|].
    destruct (N.eqb_spec k' k) as [->|Hne]; [contradiction|reflexivity].
Qed.

Lemma old_none H rt k' pA si sn d st :
  Inv H rt -> nth_error H si = Some sn -> d < n_depth sn ->
  hi k' (d + 1) <> hi (n_prefix sn) (d + 1) ->
  Walk H k' pA (Some si) st -> find_of_stop st = None.
Proof.
  intros I G Hd Hdis W. pose proof (inv_ok _ _ I _ _ G) as (_ & Hfix & _).
  pose proof (node_ok_depth _ (inv_ok _ _ I _ _ G)) as Hsd.
  apply Walk_inv in W. destruct W as (nd & G' & C). rewrite G in G'. injection G' as <-.
  destruct C as [[_ ->]|[[E _]|[E _]]]; [reflexivity| |]; exfalso; apply Hdis;
    apply (pfx_fix_hi _ _ k' Hfix) in E; apply (hi_mono _ (n_depth sn)); try lia; exact E.
Qed.

Lemma link_local H rt H' n r k v sp d par si sn k' :
  Inv H rt -> k < K64 ->
  nth_error H si = Some sn -> n_prefix sn = sp -> d < n_depth sn ->
  hi k d = hi sp d -> hi k (d + 1) <> hi sp (d + 1) ->
  nth_error H' r = Some (new_link k sp d par n si) ->
  nth_error H' n = Some (new_entry k v (Some r)) ->
  (forall pX st, Walk H k' pX (Some si) st -> Walk H' k' pX (Some si) st) ->
  forall pA p0 st_old, Walk H k' pA (Some si) st_old ->
  exists st_new, Walk H' k' p0 (Some r) st_new /\
    find_of_stop st_new = if k' =? k then Some (n, idxP k 15) else find_of_stop st_old.
Proof.
  intros I Hk Gs Esp Hd Hag Hdis Gr Gn Fr pA p0 st_old Wold. subst sp.
  pose proof (node_ok_depth _ (inv_ok _ _ I _ _ Gs)) as Hsd.
  assert (Hik : idxP k d <> idxP (n_prefix sn) d).
  { intros E. apply Hdis. apply hi_S_iff; [lia|]. split; assumption. }
  destruct (N.eq_dec (pfxP k' d) (pfxP k d)) as [E|E].
  - (* prefix of r matches *)
    apply pfx_eq_iff in E.
    set (j := idxP k' d).
    assert (Hj : j < 16) by apply idx_lt.
    assert (Lk : forall st, Walk H' k' (Some r)
                   (nth (N.to_nat j) (upd (upd (repeat None 16) (N.to_nat (idxP k d)) (fun _ => Some n))
                                          (N.to_nat (idxP (n_prefix sn) d)) (fun _ => Some si)) None) st ->
                 Walk H' k' p0 (Some r) st).
    { intros st W. eapply W_link; [exact Gr| |reflexivity|exact W]. cbn [new_link n_depth n_prefix].
      apply pfx_eq_iff. exact E. }
    rewrite nth_upd, length_upd, repeat_length, nth_upd, repeat_length, nth_repeat_none in Lk.
    rewrite !to_nat_eqb, (to_nat_ltb16 j Hj), !andb_true_r in Lk.
    destruct (N.eqb_spec (idxP (n_prefix sn) d) j) as [Ej|Ej].
    + (* towards the displaced sibling *)
      assert (Hne : k' <> k) by (intros ->; apply Hik; symmetry; exact Ej).
      destruct (Walk_reparent _ _ _ _ _ Wold (Some r)) as (st' & W' & Ef).
      exists st'. split; [apply Lk; apply Fr; exact W'|].
      destruct (N.eqb_spec k' k); [contradiction|exact Ef].
    + assert (Hnone : find_of_stop st_old = None).
      { eapply (old_none H rt k' pA si sn d); try eassumption.
        intros E'. apply Ej. apply hi_S_iff in E'; [|lia]. symmetry. apply E'. }
      rewrite Hnone.
      destruct (N.eqb_spec (idxP k d) j) as [Ek|Ek].
      * destruct (entry_local H' n k v (Some r) k' (Some r) Gn) as (st & W & Ef).
        exists st. split; [apply Lk; exact W|]. rewrite Ef. destruct (k' =? k); reflexivity.
      * exists (FCase1 (Some r)). split; [apply Lk; constructor|].
        destruct (N.eqb_spec k' k) as [->|]; [exfalso; apply Ek; reflexivity|reflexivity].
  - exists (FCase2 p0 r). split; [eapply W_split; [exact Gr|exact E]|].
    assert (Hne : k' <> k) by (intros ->; apply E; reflexivity).
    destruct (N.eqb_spec k' k); [contradiction|]. cbn [find_of_stop]. symmetry.
    eapply (old_none H rt k' pA si sn d); try eassumption.
    intros E'. apply E. apply pfx_eq_iff. rewrite Hag. apply (hi_mono _ (d + 1)); [lia|lia|exact E'].
Qed.

(* ---------------------------------------------------------------- case 1 *)
Definition case1_heap (H : list node) (k v : N) (p : option nat) : list node :=
  publish_heap H k p (length H) ++ [new_entry k v p].

Lemma case1_parent H k rt p : Walk H k None rt (FCase1 p) -> forall pi, p = Some pi ->
  exists pn, nth_error H pi = Some pn /\ is_entry pn = false /\ pfxP k (n_depth pn) = n_prefix pn /\
             nth (N.to_nat (idxP k (n_depth pn))) (n_links pn) None = None /\ Path H k rt pi.
Proof.
  intros W pi E. destruct (walk_path _ _ _ _ _ W pi) as [[E1 _]|[Pa (pn & Gp & Ec)]]; [exact E|discriminate|].
  destruct (path_end _ _ _ _ Pa) as (pn' & Gp' & Hm & Hent). rewrite Gp in Gp'. injection Gp' as <-.
  exists pn. repeat split; assumption.
Qed.

Lemma case1_new_node H k v p : nth_error (case1_heap H k v p) (length H) = Some (new_entry k v p).
Proof.
  unfold case1_heap. rewrite nth_error_app2 by (rewrite publish_heap_length; lia).
  rewrite publish_heap_length, Nat.sub_diag. reflexivity.
Qed.

Lemma case1_hext H k v rt p : Walk H k None rt (FCase1 p) ->
  HExt H (case1_heap H k v p) p (cell_idx H k p) (Some (length H)).
Proof.
  intros W. apply hext_publish; [apply similar_refl|]. intros pi E.
  destruct (case1_parent _ _ _ _ W pi E) as (pn & G & Hent & _). exists pn. split; assumption.
Qed.

Lemma case1_walk H rt k v p : Inv H rt -> k < K64 -> Walk H k None rt (FCase1 p) ->
  forall k' st_old, Walk H k' None rt st_old ->
  exists st_new, Walk (case1_heap H k v p) k' None (publish_root rt p (length H)) st_new /\
    find_of_stop st_new = if k' =? k then Some (length H, idxP k 15) else find_of_stop st_old.
Proof.
  intros I Hk W k' st_old Wold.
  pose proof (case1_hext H k v rt p W) as X. pose proof (case1_new_node H k v p) as Gn.
  set (H' := case1_heap H k v p) in *. set (n := length H) in *.
  destruct p as [pi|].
  - destruct (case1_parent _ _ _ _ W pi eq_refl) as (pn & Gp & Hent & Hm & Hc & Pa).
    pose proof (inv_ok _ _ I _ _ Gp) as Okp. pose proof (node_ok_link _ Okp Hent) as Hpd.
    cbn [publish_root].
    destruct (N.eq_dec (hi k' (n_depth pn + 1)) (hi k (n_depth pn + 1))) as [E|E].
    + (* k' reads the changed cell *)
      pose proof (path_transfer H rt I k k' rt pi pn Pa Gp E) as Pa'.
      pose proof (path_walk_old H k' rt pi pn Pa' Gp None st_old Wold) as Wc.
      apply hi_S_iff in E; [|lia]. destruct E as [Eh Ei]. rewrite Ei, Hc in Wc.
      apply Walk_inv in Wc. subst st_old.
      destruct (X pi pn Gp) as (pn' & Gp' & (F1 & F2 & F3 & F4) & FL).
      cbn [cell_idx] in FL. rewrite Gp, Nat.eqb_refl in FL.
      destruct (entry_local H' n k v (Some pi) k' (Some pi) Gn) as (st & Wn & Ef).
      exists st. split; [|rewrite Ef; destruct (k' =? k); reflexivity].
      eapply (path_walk_new H rt I H' pi _ _ k' rt X Pa' pn' st None Gp').
      rewrite FL, <- F2, Ei, nth_upd, Nat.eqb_refl.
      assert (L16 : length (n_links pn) = 16%nat).
      { destruct pn; [|discriminate]. destruct Okp as (_ & _ & _ & L). exact L. }
      rewrite L16, to_nat_ltb16 by apply idx_lt. exact Wn.
    + (* k' avoids it *)
      exists st_old. split.
      * eapply (walk_frame H rt H' (Some pi) _ (Some n) I X); [exact Wold|]. left.
        intros pi' pn' Epi Gp'' Hm' Hi'. injection Epi as <-. rewrite Gp in Gp''. injection Gp'' as <-.
        apply E. apply hi_S_iff; [lia|]. split.
        -- apply pfx_eq_iff. rewrite Hm, Hm'. reflexivity.
        -- cbn [cell_idx] in Hi'. rewrite Gp in Hi'. exact Hi'.
      * destruct (N.eqb_spec k' k) as [->|]; [exfalso; apply E; reflexivity|reflexivity].
  - (* the tree was empty *)
    pose proof (walk_top_immediate _ _ _ _ W eq_refl) as Ert. cbn in Ert. subst rt.
    apply Walk_inv in Wold. subst st_old.
    cbn [publish_root].
    destruct (entry_local H' n k v None k' None Gn) as (st & Wn & Ef).
    exists st. split; [exact Wn|]. rewrite Ef. destruct (k' =? k); reflexivity.
Qed.

(* ---------------------------------------------------------------- case 2 *)
Definition case2_heap (H : list node) (k v : N) (p : option nat) (si : nat) (sp d : N) : list node :=
  publish_heap (upd H si (set_parent (Some (S (length H))))) k p (S (length H))
    ++ [new_entry k v (Some (S (length H))); new_link k sp d p (length H) si].

Lemma case2_parent H k rt p si : Walk H k None rt (FCase2 p si) -> forall pi, p = Some pi ->
  exists pn, nth_error H pi = Some pn /\ is_entry pn = false /\ pfxP k (n_depth pn) = n_prefix pn /\
             nth (N.to_nat (idxP k (n_depth pn))) (n_links pn) None = Some si /\ Path H k rt pi.
Proof.
  intros W pi E. destruct (walk_path _ _ _ _ _ W pi) as [[E1 _]|[Pa (pn & Gp & Ec)]]; [exact E|discriminate|].
  destruct (path_end _ _ _ _ Pa) as (pn' & Gp' & Hm & Hent). rewrite Gp in Gp'. injection Gp' as <-.
  exists pn. repeat split; assumption.
Qed.

Lemma case2_new_entry H k v p si sp d :
  nth_error (case2_heap H k v p si sp d) (length H) = Some (new_entry k v (Some (S (length H)))).
Proof.
  unfold case2_heap. rewrite nth_error_app2 by (rewrite publish_heap_length, length_upd; lia).
  rewrite publish_heap_length, length_upd, Nat.sub_diag. reflexivity.
Qed.
Lemma case2_new_link H k v p si sp d :
  nth_error (case2_heap H k v p si sp d) (S (length H)) = Some (new_link k sp d p (length H) si).
Proof.
  unfold case2_heap. rewrite nth_error_app2 by (rewrite publish_heap_length, length_upd; lia).
  rewrite publish_heap_length, length_upd. replace (S (length H) - length H)%nat with 1%nat by lia. reflexivity.
Qed.

Lemma case2_hext H k v rt p si sp d : Walk H k None rt (FCase2 p si) ->
  HExt H (case2_heap H k v p si sp d) p (cell_idx H k p) (Some (S (length H))).
Proof.
  intros W. apply hext_publish; [apply similar_set_parent|]. intros pi E.
  destruct (case2_parent _ _ _ _ _ W pi E) as (pn & G & Hent & _). exists pn. split; assumption.
Qed.

Lemma case2_walk H rt k v p si sn d : Inv H rt -> k < K64 -> Walk H k None rt (FCase2 p si) ->
  nth_error H si = Some sn -> d < n_depth sn -> hi k d = hi (n_prefix sn) d -> hi k (d + 1) <> hi (n_prefix sn) (d + 1) ->
  forall k' st_old, Walk H k' None rt st_old ->
  exists st_new, Walk (case2_heap H k v p si (n_prefix sn) d) k' None (publish_root rt p (S (length H))) st_new /\
    find_of_stop st_new = if k' =? k then Some (length H, idxP k 15) else find_of_stop st_old.
Proof.
  intros I Hk W Gs Hd Hag Hdis k' st_old Wold.
  pose proof (case2_hext H k v rt p si (n_prefix sn) d W) as X.
  pose proof (case2_new_entry H k v p si (n_prefix sn) d) as Gn.
  pose proof (case2_new_link H k v p si (n_prefix sn) d) as Gr.
  set (H' := case2_heap H k v p si (n_prefix sn) d) in *. set (n := length H) in *. set (r := S n) in *.
  destruct p as [pi|].
  - destruct (case2_parent _ _ _ _ _ W pi eq_refl) as (pn & Gp & Hent & Hm & Hc & Pa).
    pose proof (inv_ok _ _ I _ _ Gp) as Okp. pose proof (node_ok_link _ Okp Hent) as Hpd.
    cbn [publish_root].
    assert (Hsdeep : n_depth pn < n_depth sn).
    { destruct pn as [x dp par ls|]; [|discriminate]. cbn [n_links n_depth] in *.
      destruct (inv_link _ _ I _ _ _ _ _ _ _ Gp Hc) as (cn & Gc & Hlt & _). rewrite Gs in Gc. injection Gc as <-. exact Hlt. }
    destruct (N.eq_dec (hi k' (n_depth pn + 1)) (hi k (n_depth pn + 1))) as [E|E].
    + pose proof (path_transfer H rt I k k' rt pi pn Pa Gp E) as Pa'.
      pose proof (path_walk_old H k' rt pi pn Pa' Gp None st_old Wold) as Wc.
      apply hi_S_iff in E; [|lia]. destruct E as [Eh Ei]. rewrite Ei, Hc in Wc.
      destruct (X pi pn Gp) as (pn' & Gp' & (F1 & F2 & F3 & F4) & FL).
      cbn [cell_idx] in FL. rewrite Gp, Nat.eqb_refl in FL.
      destruct (link_local H rt H' n r k v (n_prefix sn) d (Some pi) si sn k' I Hk Gs eq_refl Hd Hag Hdis Gr Gn)
        with (pA := Some pi) (p0 := Some pi) (st_old := st_old) as (st & Wn & Ef); [|exact Wc|].
      { intros pX st Ws. eapply (walk_frame H rt H' (Some pi) _ (Some r) I X); [exact Ws|]. right.
        intros pi' pn'' i nd Epi Gp'' Ei' Gi. injection Epi as <-. injection Ei' as <-.
        rewrite Gp in Gp''. injection Gp'' as <-. rewrite Gs in Gi. injection Gi as <-. exact Hsdeep. }
      exists st. split; [|exact Ef].
      eapply (path_walk_new H rt I H' pi _ _ k' rt X Pa' pn' st None Gp').
      rewrite FL, <- F2, Ei, nth_upd, Nat.eqb_refl.
      assert (L16 : length (n_links pn) = 16%nat).
      { destruct pn; [|discriminate]. destruct Okp as (_ & _ & _ & L). exact L. }
      rewrite L16, to_nat_ltb16 by apply idx_lt. exact Wn.
    + exists st_old. split.
      * eapply (walk_frame H rt H' (Some pi) _ (Some r) I X); [exact Wold|]. left.
        intros pi' pn' Epi Gp'' Hm' Hi'. injection Epi as <-. rewrite Gp in Gp''. injection Gp'' as <-.
        apply E. apply hi_S_iff; [lia|]. split.
        -- apply pfx_eq_iff. rewrite Hm, Hm'. reflexivity.
        -- cbn [cell_idx] in Hi'. rewrite Gp in Hi'. exact Hi'.
      * destruct (N.eqb_spec k' k) as [->|]; [exfalso; apply E; reflexivity|reflexivity].
  - (* split at the root *)
    pose proof (walk_top_immediate _ _ _ _ W eq_refl) as Ert. cbn in Ert. subst rt.
    cbn [publish_root].
    eapply (link_local H (Some si) H' n r k v (n_prefix sn) d None si sn k' I Hk Gs eq_refl Hd Hag Hdis Gr Gn); [|exact Wold].
    intros pX st Ws. eapply (walk_frame H (Some si) H' None _ (Some r) I X); [exact Ws|]. left.
    intros pi' pn' Epi. discriminate.
Qed.

(* ---------------------------------------------------------------- a mask bit changes *)
(* keys with the same 15-nibble prefix reach the same leaf *)
Lemma same_leaf H rt k k' : Inv H rt -> hi k' 15 = hi k 15 ->
  forall p0 c e m ix, Walk H k p0 c (FCase3 e m ix) -> Walk H k' p0 c (FCase3 e m (idxP k' 15)).
Proof.
  intros I E p0 c e m ix Wk. remember (FCase3 e m ix) as st eqn:Est.
  induction Wk as [p|p i nd G Hne|p i nd G He Hent|p i nd st G He Hent Wk IH]; try discriminate.
  - injection Est as <- <- <-.
    pose proof (node_ok_entry _ (inv_ok _ _ I _ _ G) Hent) as Hd15.
    rewrite <- Hd15. eapply W_entry; [exact G| |exact Hent]. rewrite <- He, Hd15. apply pfx_eq_iff. exact E.
  - pose proof (node_ok_link _ (inv_ok _ _ I _ _ G) Hent) as Hdl.
    assert (E1 : hi k' (n_depth nd + 1) = hi k (n_depth nd + 1)) by (apply (hi_mono _ 15); [lia|lia|exact E]).
    apply hi_S_iff in E1; [|lia]. destruct E1 as [Eh Ei].
    eapply W_link; [exact G| |exact Hent|].
    + rewrite <- He. apply pfx_eq_iff. exact Eh.
    + rewrite Ei. apply IH. exact Est.
Qed.

Section MaskChange.
  Variables (H : list node) (rt : option nat) (k : N) (e : nat) (en : node) (f : node -> node) (m' : N).
  Hypothesis (I : Inv H rt) (Hk : k < K64).
  Hypothesis (W : Walk H k None rt (FCase3 e (n_mask en) (idxP k 15))).
  Hypothesis (Ge : nth_error H e = Some en) (Hent : is_entry en = true).
  Hypothesis (Hf : n_prefix (f en) = n_prefix en /\ n_depth (f en) = n_depth en /\ is_entry (f en) = true /\
                   n_links (f en) = n_links en /\ n_mask (f en) = m').
  Let H' := upd H e f.

  Lemma mask_walk k' st_old : Walk H k' None rt st_old -> Walk H' k' None rt (remask e m' st_old).
  Proof.
    apply walk_remask. intros i nd G. unfold H'. rewrite nth_error_upd.
    destruct (Nat.eqb_spec e i) as [->|Hn].
    - rewrite G. cbn [option_map]. rewrite Ge in G. injection G as <-. exists (f en).
      destruct Hf as (A & B & C & D & E). rewrite Nat.eqb_refl. rewrite Hent. repeat split; congruence.
    - exists nd. destruct (Nat.eqb_spec i e); [congruence|]. repeat split; auto.
  Qed.

  Lemma mask_find k' st_old : Walk H k' None rt st_old ->
    find_of_stop (remask e m' st_old) =
      if N.eqb (pfxP k' 15) (pfxP k 15) then (if N.testbit m' (idxP k' 15) then Some (e, idxP k' 15) else None)
      else find_of_stop st_old.
  Proof.
    intros Wold.
    destruct (N.eqb_spec (pfxP k' 15) (pfxP k 15)) as [E|E].
    - apply pfx_eq_iff in E. pose proof (same_leaf H rt k k' I E _ _ _ _ _ W) as Wk'.
      pose proof (Walk_det _ _ _ _ _ Wold _ Wk') as ->. cbn [remask]. rewrite Nat.eqb_refl. reflexivity.
    - destruct st_old as [q|q s|e' m ix]; cbn [remask]; try reflexivity.
      destruct (Nat.eqb_spec e' e) as [->|Hn]; [|reflexivity]. exfalso. apply E.
      destruct (walk_entry_facts _ _ _ _ _ _ _ Wold) as (en' & Ge' & _ & Hm' & _).
      destruct (walk_entry_facts _ _ _ _ _ _ _ W) as (en'' & Ge'' & _ & Hm & _).
      rewrite Ge in Ge', Ge''. injection Ge' as <-. injection Ge'' as <-.
      pose proof (node_ok_entry _ (inv_ok _ _ I _ _ Ge) Hent) as Hd15. rewrite Hd15 in *. congruence.
  Qed.
End MaskChange.
