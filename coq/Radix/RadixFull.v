(* The complete invariant (Good + Shape) over histories that may also iterate; final forms of the
   history theorems and the iteration theorem relative to the ghost map. *)
From Coq Require Import List NArith Arith Bool Lia ZifyBool ZifyNat ZifyN Sorting.Sorted.
From FV Require Import Common.EventLog Radix.RadixModel Radix.RadixBits Radix.RadixInv Radix.RadixExec
  Radix.RadixSem Radix.RadixFind Radix.RadixPres Radix.RadixSpec Radix.RadixHist Radix.RadixShape Radix.RadixIter
  Radix.RadixOrder Radix.RadixLoop Radix.RadixIterSpec.
Import ListNotations.
Local Open Scope N_scope.

Arguments pfxP : simpl never.
Arguments idxP : simpl never.

(* which of the source's cases a successful find_or_insert went through, with the resulting heap *)
Inductive foi_case (esz lsz : N) (s : st) (k v : N) (s' : st) : Prop :=
| FC_present : s' = s -> foi_case esz lsz s k v s'
| FC_case1 p : Walk (nodes s) k None (root s) (FCase1 p) ->
    nodes s' = case1_heap (nodes s) k v p -> root s' = publish_root (root s) p (length (nodes s)) ->
    rlog s' = EConstruct (blk (length (nodes s)), N.to_nat (idxP k 15)) :: EAlloc (blk (length (nodes s))) esz :: rlog s ->
    foi_case esz lsz s k v s'
| FC_case2 p si sn d : Walk (nodes s) k None (root s) (FCase2 p si) -> nth_error (nodes s) si = Some sn ->
    d < n_depth sn -> hi k d = hi (n_prefix sn) d -> hi k (d + 1) <> hi (n_prefix sn) (d + 1) ->
    (forall pi pn, p = Some pi -> nth_error (nodes s) pi = Some pn -> n_depth pn < d) ->
    nodes s' = case2_heap (nodes s) k v p si (n_prefix sn) d -> root s' = publish_root (root s) p (S (length (nodes s))) ->
    rlog s' = EConstruct (blk (length (nodes s)), N.to_nat (idxP k 15)) :: EAlloc (blk (S (length (nodes s)))) lsz
                :: EAlloc (blk (length (nodes s))) esz :: rlog s ->
    foi_case esz lsz s k v s'
| FC_case3 e en : nth_error (nodes s) e = Some en -> is_entry en = true -> n_prefix en = pfxP k 15 ->
    N.testbit (n_mask en) (idxP k 15) = false ->
    nodes s' = upd (nodes s) e (fun nd => set_mask (N.lor (n_mask en) (bit (idxP k 15))) (set_slot (idxP k 15) (Some v) nd)) ->
    root s' = root s -> rlog s' = EConstruct (blk e, N.to_nat (idxP k 15)) :: rlog s ->
    foi_case esz lsz s k v s'.

Lemma foi_cases esz lsz s k v s' a b : Inv_s s -> k < K64 ->
  find_or_insert esz lsz s k v = Ok (s', (a, b)) -> foi_case esz lsz s k v s'.
Proof.
  intros I Hk R. destruct (find_walk s k I Hk) as (st & W & Fw).
  destruct st as [p|p si|e m ix].
  - pose proof (case1_parent _ _ _ _ W) as Hp.
    assert (Hp' : forall pi, p = Some pi -> exists pn, nth_error (nodes s) pi = Some pn /\ is_entry pn = false).
    { intros pi E. destruct (Hp pi E) as (pn & G & Hent & _). eauto. }
    pose proof (foi_run_case1 esz lsz s k v p I Hk W Hp') as R'. cbv zeta in R'.
    rewrite R in R'. injection R' as -> _ _. eapply FC_case1; try reflexivity. exact W.
  - destruct (walk_split_facts _ _ _ _ _ _ W) as (sn & Gs & Hne).
    pose proof (case2_parent _ _ _ _ _ W) as Hp.
    assert (Hp' : forall pi, p = Some pi -> exists pn, nth_error (nodes s) pi = Some pn /\ is_entry pn = false /\ pi <> si /\
                    hi k (n_depth pn + 1) = hi (n_prefix sn) (n_depth pn + 1)).
    { intros pi E. destruct (Hp pi E) as (pn & Gp & Hent & Hm & Hc & _). exists pn.
      pose proof (node_ok_link _ (inv_ok _ _ I _ _ Gp) Hent) as Hpd.
      destruct pn as [xp dp parp lsp|]; [|discriminate]. cbn [n_links n_depth n_prefix] in *.
      destruct (inv_link _ _ I _ _ _ _ _ _ _ Gp Hc) as (cn & Gc & A & B & C & D). rewrite Gs in Gc. injection Gc as <-.
      repeat split; auto.
      - intros ->. rewrite Gs in Gp. injection Gp as ->. cbn [n_depth] in A. lia.
      - apply hi_S_iff; [lia|]. split.
        + apply pfx_eq_iff. rewrite Hm, B. reflexivity.
        + rewrite C, N2Nat.id. reflexivity. }
    destruct (foi_run_case2 esz lsz s k v p si sn I Hk W Gs Hne Hp') as (d & Hd & Hag & Hdis & Hab & R').
    rewrite R in R'. injection R' as -> _ _. eapply (FC_case2 _ _ _ _ _ _ p si sn d); try reflexivity; assumption.
  - destruct (walk_entry_facts _ _ _ _ _ _ _ W) as (en & Ge & Hent & Hm & -> & ->).
    pose proof (node_ok_entry _ (inv_ok _ _ I _ _ Ge) Hent) as Hd15. rewrite Hd15 in *.
    destruct (N.testbit (n_mask en) (idxP k 15)) eqn:B.
    + rewrite (foi_run_case3_present esz lsz s k v e _ _ I Hk W B) in R. injection R as <- _ _.
      apply FC_present. reflexivity.
    + rewrite (foi_run_case3_new esz lsz s k v e en (idxP k 15) I Hk W (idx_lt k 15) Ge Hent B) in R.
      injection R as <- _ _. eapply (FC_case3 _ _ _ _ _ _ e en); try reflexivity; try assumption. symmetry. exact Hm.
Qed.

Lemma foi_shape esz lsz s k v s' a b : Inv_s s -> Shape (nodes s) (root s) -> k < K64 ->
  find_or_insert esz lsz s k v = Ok (s', (a, b)) -> Shape (nodes s') (root s').
Proof.
  intros I Sh Hk R. destruct (foi_cases esz lsz s k v s' a b I Hk R) as [->|p W N1 R1 _|p si sn d W Gs Hd Hag Hdis Hab N1 R1 _|e en Ge Hent Hp B N1 R1 _].
  - exact Sh.
  - rewrite N1, R1. apply shape_case1; assumption.
  - rewrite N1, R1. apply shape_case2; assumption.
  - rewrite N1, R1. apply shape_upd_entry; [exact Sh|]. apply entry_fn_ok.
    + intros x d p m sl. eexists _, _. split; [reflexivity|]. apply length_upd.
    + reflexivity.
Qed.

(* ---------------------------------------------------------------- the full invariant *)
Definition Full (s : st) (M : gmap) : Prop := Good s M /\ Shape (nodes s) (root s).

Lemma Full_st0 : Full st0 gempty.
Proof. split; [exact Good_st0|exact Shape_st0]. Qed.

(* the iteration theorem, relative to the ghost map: the iterator sequence is the list of the
   addresses of exactly the present keys, once each, in ascending key order *)
Definition iter_ok (M : gmap) (l : list addr) : Prop :=
  exists ks, StronglySorted N.lt ks /\ (forall k, In k ks <-> k < K64 /\ M k <> None) /\ map M ks = map Some l.

Theorem iterate_full s M : Full s M -> exists l, iterate s = Ok l /\ iter_ok M l.
Proof.
  intros [G Sh]. pose proof (g_inv _ _ G) as I.
  exists (all_slots (nodes s) (root s)). split; [apply iterate_spec; assumption|].
  exists (all_keys s). split; [apply all_keys_sorted; assumption|]. split.
  - intros k. unfold all_keys. rewrite in_map_iff. split.
    + intros (a & <- & Ha). apply (all_slots_in s) in Ha. destruct a as [e ix]. cbn [fst snd] in Ha. destruct Ha as (He & Hix).
      destruct (slot_found s I Sh e ix He Hix) as (K & F). split; [exact K|].
      rewrite (g_find _ _ G _ K) in F. injection F as F. rewrite F. discriminate.
    + intros (K & Mk). destruct (M k) as [a|] eqn:Ma; [|contradiction].
      pose proof (g_find _ _ G k K) as F. rewrite Ma in F.
      destruct (found_in_slots s I Sh k a K F) as (Ha & Ek). exists a. split; [exact Ek|exact Ha].
  - unfold all_keys. rewrite map_map. apply map_ext_in. intros a Ha.
    apply (all_slots_in s) in Ha. destruct a as [e ix]. cbn [fst snd] in Ha. destruct Ha as (He & Hix).
    destruct (slot_found s I Sh e ix He Hix) as (K & F). rewrite (g_find _ _ G _ K) in F. injection F as F. exact F.
Qed.

(* ---------------------------------------------------------------- one step, iteration included *)
Definition res_full (M : gmap) (o : op) (r : res) : Prop :=
  match o with
  | OIter => exists l, r = RSeq l /\ iter_ok M l
  | _ => res_ok M o r
  end.

Theorem step_full esz lsz s M o : Full s M -> op_keys_ok o ->
  (exists s' r, step_op esz lsz s o = Ok (s', r) /\ Full s' (ghost_step M o r) /\ res_full M o r) \/
  (~ pre_ok M o /\ exists w, step_op esz lsz s o = AssertStop w /\ pre_assert w).
Proof.
  intros [G Sh] Hk. destruct (is_iter o) eqn:Hi.
  - destruct o; try discriminate. left. destruct (iterate_full s M (conj G Sh)) as (l & R & Hl).
    exists s, (RSeq l). cbn [step_op]. rewrite R. cbn [bind]. split; [reflexivity|]. split; [split; assumption|].
    exists l. split; [reflexivity|exact Hl].
  - destruct (step_safe esz lsz s M o G Hk Hi) as [(s' & r & R & G' & Hr)|Hn]; [left|right; exact Hn].
    exists s', r. split; [exact R|]. split; [|destruct o; try exact Hr; discriminate].
    split; [exact G'|]. pose proof (g_inv _ _ G) as I.
    destruct o as [k|k v|k v|k|]; cbn [op_keys_ok] in Hk; try discriminate; cbn [step_op] in R.
    + rewrite (g_find _ _ G k Hk) in R. cbn [bind] in R. injection R as <- _. exact Sh.
    + destruct (find_or_insert esz lsz s k v) as [[s1 [a b]]| | |] eqn:R1; try discriminate. cbn [bind fst snd] in R. injection R as <- _.
      eapply foi_shape; eassumption.
    + rewrite insert_unfold in R. destruct (find_or_insert esz lsz s k v) as [[s1 [a b]]| | |] eqn:R1; try discriminate.
      cbn [bind fst snd] in R. destruct b; [|discriminate]. injection R as <- _. eapply foi_shape; eassumption.
    + (* erase protocol *)
      destruct (find s k) as [[a|]| | |] eqn:F; try discriminate; cbn [bind] in R.
      * destruct (erase_spec s k a I Hk F) as (s1 & R1 & I1 & Lg & F1 & en & Ge & Hent & N1 & Rt1).
        rewrite R1 in R. cbn [bind fst] in R.
        destruct (caller_destroy s1 a) as [s2| | |] eqn:R2; try discriminate. cbn [bind] in R. injection R as <- _.
        unfold caller_destroy in R2. destruct (nth_error (nodes s1) (fst a)) as [[|x d p m sl]|] eqn:G1; try discriminate.
        destruct (nth (N.to_nat (snd a)) sl None); [|discriminate]. injection R2 as <-. cbn [nodes root].
        pose proof (upd_const_ext (nodes s1) (fst a) (set_slot (snd a) None) _ G1) as U. cbn [set_slot] in U. rewrite U, N1, Rt1. clear U.
        apply shape_upd_entry; [apply shape_upd_entry; [exact Sh|]|]; apply entry_fn_ok; try reflexivity.
        -- intros x0 d0 p0 m0 sl0. eexists _, _. split; reflexivity.
        -- intros x0 d0 p0 m0 sl0. eexists _, _. split; [reflexivity|]. apply length_upd.
      * destruct (erase_absent s k I Hk F) as (w & R1 & _). rewrite R1 in R. discriminate.
Qed.

(* ---------------------------------------------------------------- histories, iteration included *)
Fixpoint valid_all (esz lsz : N) (s : st) (M : gmap) (l : list op) : Prop :=
  match l with
  | [] => True
  | o :: r => op_keys_ok o /\ pre_ok M o /\
              forall s' x, step_op esz lsz s o = Ok (s', x) -> valid_all esz lsz s' (ghost_step M o x) r
  end.

Theorem history_refines_all esz lsz l : forall s M, Full s M -> valid_all esz lsz s M l ->
  exists s' M', run_ghost esz lsz s M l = Ok (s', M') /\ Full s' M'.
Proof.
  induction l as [|o l IH]; intros s M G V; cbn [run_ghost].
  - eauto.
  - destruct V as (Hk & Hpre & V).
    destruct (step_full esz lsz s M o G Hk) as [(s' & r & R & G' & _)|(Hn & _)]; [|contradiction].
    rewrite R. cbn [bind fst snd]. apply IH; [exact G'|]. apply (V s' r R).
Qed.

Theorem history_safe_all esz lsz l : forall s M, Full s M -> Forall op_keys_ok l -> safe_outcome (run_ops esz lsz s l).
Proof.
  induction l as [|o l IH]; intros s M G Hk; cbn [run_ops]; [exact I|].
  inversion Hk as [|? ? Hk1 Hk2]; subst.
  destruct (step_full esz lsz s M o G Hk1) as [(s' & r & R & G' & _)|(_ & w & R & Hw)].
  - rewrite R. cbn [bind fst]. eapply IH; eassumption.
  - rewrite R. exact Hw.
Qed.

Theorem step_address_stable_all esz lsz s M o s' r k a : Full s M -> op_keys_ok o ->
  k < K64 -> M k = Some a -> step_op esz lsz s o = Ok (s', r) -> o <> OErase k ->
  find s' k = Ok (Some a).
Proof.
  intros [G Sh] Hk Hkk Mk R Hne. destruct (is_iter o) eqn:Hi.
  - destruct o; try discriminate. cbn [step_op] in R. destruct (iterate s); try discriminate. cbn [bind] in R.
    injection R as <- _. rewrite (g_find _ _ G k Hkk), Mk. reflexivity.
  - eapply step_address_stable; eassumption.
Qed.

(* erase of an absent key: stops in one of erase's three assertions, before any store is issued *)
Theorem erase_absent_stops esz lsz s M k : Full s M -> k < K64 -> M k = None ->
  exists w, erase s k = AssertStop w /\ (w = AEraseNull \/ w = AErasePrefix \/ w = AEraseMask) /\
            fst (erase_prog s k) = [] /\ step_op esz lsz s (OErase k) = AssertStop w.
Proof.
  intros [G Sh] Hk Mk. pose proof (g_inv _ _ G) as I. pose proof (g_find _ _ G k Hk) as F. rewrite Mk in F.
  destruct (erase_absent s k I Hk F) as (w & R & Hw). exists w. split; [exact R|]. split; [exact Hw|]. split.
  - destruct (find_walk s k I Hk) as (st & W & F'). rewrite F in F'. injection F' as F'.
    unfold erase_prog. rewrite (walk_erase _ _ _ I Hk _ _ _ W 17 (fuel_ok_root _ _ I)).
    destruct st as [p|p si|e m ix]; cbn [erase_of_stop lift pbind fst]; try reflexivity.
    cbn [find_of_stop] in F'. destruct (N.testbit m ix); [discriminate|]. reflexivity.
  - cbn [step_op]. rewrite F. cbn [bind]. rewrite R. reflexivity.
Qed.
