(* The depth-first leaf sequence is strictly ascending in the leaves' prefixes, contains every leaf
   that some key's walk reaches, and every leaf in it is reached by the keys below it. *)
From Coq Require Import List NArith Arith Bool Lia ZifyBool ZifyNat ZifyN Sorting.Sorted.
From FV Require Import Common.EventLog Radix.RadixModel Radix.RadixBits Radix.RadixInv Radix.RadixExec
  Radix.RadixSem Radix.RadixFind Radix.RadixPres Radix.RadixSpec Radix.RadixHist Radix.RadixShape Radix.RadixIter.
Import ListNotations.
Local Open Scope N_scope.

Arguments pfxP : simpl never.
Arguments idxP : simpl never.

Definition pf (H : list node) (e : nat) : N := match nth_error H e with Some nd => n_prefix nd | None => 0 end.

Lemma SS_app {A} (R : A -> A -> Prop) l1 l2 :
  StronglySorted R l1 -> StronglySorted R l2 -> (forall a b, In a l1 -> In b l2 -> R a b) -> StronglySorted R (l1 ++ l2).
Proof.
  intros S1 S2 Hc. induction S1 as [|a l S1 IH Fa]; cbn [app]; [exact S2|].
  constructor.
  - apply IH. intros x y Hx Hy. apply Hc; [right; exact Hx|exact Hy].
  - apply Forall_app. split; [exact Fa|]. apply Forall_forall. intros b Hb. apply Hc; [left; reflexivity|exact Hb].
Qed.

Lemma SS_flat_map {A B} (R : B -> B -> Prop) (g : A -> list B) (d : A) (ls : list A) :
  (forall j, (j < length ls)%nat -> StronglySorted R (g (nth j ls d))) ->
  (forall j j' a b, (j < j')%nat -> (j' < length ls)%nat -> In a (g (nth j ls d)) -> In b (g (nth j' ls d)) -> R a b) ->
  StronglySorted R (flat_map g ls).
Proof.
  induction ls as [|c ls IH]; intros Hs Hc; cbn [flat_map]; [constructor|].
  apply SS_app.
  - apply (Hs 0%nat). cbn. lia.
  - apply IH.
    + intros j Hj. apply (Hs (S j)). cbn. lia.
    + intros j j' a b L L' Ha Hb. apply (Hc (S j) (S j') a b); cbn; try lia; assumption.
  - intros a b Ha Hb. apply in_flat_map in Hb. destruct Hb as (c' & Hc' & Hb).
    destruct (In_nth _ _ d Hc') as (j' & Lj' & Ej'). apply (Hc 0%nat (S j') a b); cbn [nth length]; try lia; try assumption.
    rewrite Ej'. exact Hb.
Qed.

Lemma hi_lt_lt a b d : hi a d < hi b d -> a < b.
Proof.
  unfold hi. intros L. destruct (N.lt_ge_cases a b) as [Q|Q]; [exact Q|]. exfalso.
  pose proof (N.div_le_mono b a (P d) (P_neq0 d) Q). lia.
Qed.

Section Order.
  Variables (H : list node) (rt : option nat).
  Hypothesis (I : Inv H rt) (Sh : Shape H rt).

  (* every leaf below node i carries i's prefix; below link j of i it has nibble j at i's depth *)
  Lemma leaves_desc : forall f i nd e, nth_error H i = Some nd -> enough f nd -> In e (leaves f H i) ->
    exists en, nth_error H e = Some en /\ is_entry en = true /\
               hi (n_prefix en) (n_depth nd) = hi (n_prefix nd) (n_depth nd).
  Proof.
    induction f as [|f IH]; intros i nd e G E Hin; [destruct Hin|].
    cbn [leaves] in Hin. rewrite G in Hin. destruct nd as [x d par ls|x d par m sl].
    - apply in_flat_map in Hin. destruct Hin as (c & Hc & Hin). destruct c as [c|]; [|destruct Hin].
      destruct (In_nth _ _ None Hc) as (j & Lj & Ej).
      destruct (inv_link _ _ I _ _ _ _ _ _ _ G Ej) as (cn & Gc & Hlt & Hpx & _).
      destruct (IH c cn e Gc ltac:(eapply child_enough; eassumption) Hin) as (en & Ge & Hent & Hh).
      exists en. split; [exact Ge|]. split; [exact Hent|]. cbn [n_depth n_prefix].
      pose proof (node_ok_depth _ (inv_ok _ _ I _ _ Gc)) as Hcd.
      rewrite (hi_mono d (n_depth cn) _ _ ltac:(lia) ltac:(lia) Hh).
      pose proof (inv_ok _ _ I _ _ G) as (_ & Hfix & _). cbn [n_prefix n_depth] in Hfix.
      apply pfx_eq_iff. rewrite Hpx, Hfix. reflexivity.
    - destruct Hin as [<-|[]]. exists (Entry x d par m sl). repeat split; assumption.
  Qed.

  Lemma leaves_desc_idx f p x d par ls j c e : nth_error H p = Some (Link x d par ls) -> nth j ls None = Some c ->
    enough (S f) (Link x d par ls) -> In e (leaves f H c) ->
    exists en, nth_error H e = Some en /\ is_entry en = true /\ hi (n_prefix en) (d + 1) = hi x d * 16 + N.of_nat j.
  Proof.
    intros G Hj E Hin. destruct (inv_link _ _ I _ _ _ _ _ _ _ G Hj) as (cn & Gc & Hlt & Hpx & Hix & _).
    destruct (leaves_desc f c cn e Gc ltac:(eapply child_enough; eassumption) Hin) as (en & Ge & Hent & Hh).
    exists en. split; [exact Ge|]. split; [exact Hent|].
    pose proof (node_ok_depth _ (inv_ok _ _ I _ _ Gc)) as Hcd.
    rewrite (hi_mono (d + 1) (n_depth cn) _ _ ltac:(lia) ltac:(lia) Hh).
    pose proof (inv_ok _ _ I _ _ G) as (_ & Hfix & _). cbn [n_prefix n_depth] in Hfix.
    assert (E1 : hi (n_prefix cn) d = hi x d) by (apply pfx_eq_iff; rewrite Hpx, Hfix; reflexivity).
    rewrite (N.div_mod (hi (n_prefix cn) (d + 1)) 16) by lia.
    rewrite <- (hi_S (n_prefix cn) d) by lia. fold (idxP (n_prefix cn) d). rewrite E1, Hix. lia.
  Qed.

  Lemma leaves_sorted : forall f i nd, nth_error H i = Some nd -> enough f nd ->
    StronglySorted (fun a b => pf H a < pf H b) (leaves f H i).
  Proof.
    induction f as [|f IH]; intros i nd G E; [constructor|].
    cbn [leaves]. rewrite G. destruct nd as [x d par ls|x d par m sl]; [|repeat constructor].
    apply (SS_flat_map _ _ None).
    - intros j Lj. destruct (nth j ls None) as [c|] eqn:Ej; [|constructor].
      destruct (inv_link _ _ I _ _ _ _ _ _ _ G Ej) as (cn & Gc & _).
      apply (IH c cn Gc). eapply child_enough; eassumption.
    - intros j j' a b L L' Ha Hb.
      destruct (nth j ls None) as [c|] eqn:Ej; [|destruct Ha].
      destruct (nth j' ls None) as [c'|] eqn:Ej'; [|destruct Hb].
      destruct (leaves_desc_idx f i x d par ls j c a G Ej E Ha) as (an & Ga & _ & Ea).
      destruct (leaves_desc_idx f i x d par ls j' c' b G Ej' E Hb) as (bn & Gb & _ & Eb).
      unfold pf. rewrite Ga, Gb. apply (hi_lt_lt _ _ (d + 1)). rewrite Ea, Eb. lia.
  Qed.

  (* completeness: the leaf reached by a walk is in the sequence *)
  Lemma walk_leaf_in k p c st : Walk H k p c st -> forall e m ix, st = FCase3 e m ix ->
    forall f i nd, c = Some i -> nth_error H i = Some nd -> enough f nd -> In e (leaves f H i).
  Proof.
    induction 1 as [p|p i nd G Hne|p i nd G He Hent|p i nd st G He Hent W IH]; intros e m ix Est f i' nd' Ec Gi E;
      try discriminate; injection Ec as <-; rewrite G in Gi; injection Gi as <-.
    - injection Est as <- _ _. destruct f; [pose proof (node_ok_depth _ (inv_ok _ _ I _ _ G)); unfold enough in E; lia|].
      cbn [leaves]. rewrite G. destruct nd; [discriminate|]. left. reflexivity.
    - destruct f; [pose proof (node_ok_depth _ (inv_ok _ _ I _ _ G)); unfold enough in E; lia|].
      cbn [leaves]. rewrite G. destruct nd as [x d par ls|]; [|discriminate]. cbn [n_links n_depth] in *.
      destruct (nth (N.to_nat (idxP k d)) ls None) as [c1|] eqn:E1.
      + destruct (inv_link _ _ I _ _ _ _ _ _ _ G E1) as (cn & Gc & _).
        apply in_flat_map. exists (Some c1). split.
        * rewrite <- E1. apply nth_In. destruct (Nat.lt_ge_cases (N.to_nat (idxP k d)) (length ls)) as [L|L]; [exact L|].
          rewrite nth_overflow in E1 by exact L. discriminate.
        * apply (IH e m ix Est f c1 cn eq_refl Gc). eapply child_enough; eassumption.
      + subst st. apply Walk_inv in W. discriminate.
  Qed.

  (* soundness: a key with the prefix of a leaf in the sequence walks to that leaf *)
  Lemma leaf_walk k : forall f i nd e en p, nth_error H i = Some nd -> enough f nd -> In e (leaves f H i) ->
    nth_error H e = Some en -> hi k 15 = hi (n_prefix en) 15 ->
    Walk H k p (Some i) (FCase3 e (n_mask en) (idxP k 15)).
  Proof.
    induction f as [|f IH]; intros i nd e en p G E Hin Ge Hk15; [destruct Hin|].
    pose proof (leaves_desc (S f) i nd e G E Hin) as (en' & Ge' & Hent & Hh). rewrite Ge in Ge'. injection Ge' as <-.
    pose proof (inv_ok _ _ I _ _ G) as Ok_. pose proof (node_ok_depth _ Ok_) as Hd.
    assert (Hm : pfxP k (n_depth nd) = n_prefix nd).
    { destruct Ok_ as (_ & Hfix & _). apply (pfx_fix_hi _ _ k Hfix). rewrite <- Hh.
      apply (hi_mono _ 15); [lia|lia|exact Hk15]. }
    cbn [leaves] in Hin. rewrite G in Hin. destruct nd as [x d par ls|x d par m sl].
    - apply in_flat_map in Hin. destruct Hin as (c & Hc & Hin). destruct c as [c|]; [|destruct Hin].
      destruct (In_nth _ _ None Hc) as (j & Lj & Ej).
      destruct (inv_link _ _ I _ _ _ _ _ _ _ G Ej) as (cn & Gc & Hlt & _).
      destruct (leaves_desc_idx f i x d par ls j c e G Ej E Hin) as (en' & Ge' & _ & Ei). rewrite Ge in Ge'. injection Ge' as <-.
      pose proof (node_ok_link _ Ok_ eq_refl) as Hdl. cbn [n_depth] in *.
      assert (Eidx : idxP k d = N.of_nat j).
      { unfold idxP. rewrite (hi_mono (d + 1) 15 k (n_prefix en) ltac:(lia) ltac:(lia) Hk15), Ei.
        assert (L16 : length ls = 16%nat) by (destruct Ok_ as (_ & _ & _ & L); exact L).
        assert (N.of_nat j < 16) by lia.
        rewrite N.add_comm, N.mod_add by lia. apply N.mod_small. exact H0. }
      eapply W_link; [exact G|exact Hm|reflexivity|]. cbn [n_links n_depth]. rewrite Eidx, Nat2N.id, Ej.
      apply (IH c cn e en (Some i) Gc ltac:(eapply child_enough; eassumption) Hin Ge Hk15).
    - destruct Hin as [<-|[]]. rewrite G in Ge. injection Ge as <-.
      destruct Ok_ as (_ & _ & Hd15 & _).
      pose proof (W_entry H k p i (Entry x d par m sl) G Hm eq_refl) as W. cbn [n_mask n_depth] in *. rewrite Hd15 in W. exact W.
  Qed.
End Order.

Lemma whole_sorted H rt : Inv H rt -> Shape H rt -> StronglySorted (fun a b => pf H a < pf H b) (whole H rt 17).
Proof.
  intros I Sh. unfold whole. destruct rt as [r|]; [|constructor]. cbn [leaves_of].
  destruct (inv_root _ _ I r eq_refl) as (rn & Gr & _). apply (leaves_sorted H (Some r) I 17 r rn Gr). unfold enough. lia.
Qed.

Lemma whole_nodup H rt : Inv H rt -> Shape H rt -> NoDup (whole H rt 17).
Proof.
  intros I Sh. pose proof (whole_sorted H rt I Sh) as S. induction S as [|a l S IH Fa]; constructor; [|exact IH].
  intros Hin. rewrite Forall_forall in Fa. specialize (Fa a Hin). lia.
Qed.

Lemma whole_entries H rt e : Inv H rt -> Shape H rt -> In e (whole H rt 17) ->
  exists en, nth_error H e = Some en /\ is_entry en = true.
Proof.
  intros I Sh. unfold whole. destruct rt as [r|]; [|intros []]. cbn [leaves_of].
  destruct (inv_root _ _ I r eq_refl) as (rn & Gr & _). intros Hin.
  destruct (leaves_desc H (Some r) I 17 r rn e Gr ltac:(unfold enough; lia) Hin) as (en & Ge & Hent & _). eauto.
Qed.
