(* How the walk of an arbitrary key k' changes when the heap is modified the way the writer's
   operations modify it: one link cell (or the root cell) replaced + nodes appended, or one mask
   changed.  Frame lemmas (append-only heap, one cell changes) and the path lemmas that say which
   keys read the changed cell. *)
From Coq Require Import List NArith Arith Bool Lia ZifyBool ZifyNat ZifyN.
From FV Require Import Common.EventLog Radix.RadixModel Radix.RadixBits Radix.RadixInv.
Import ListNotations.
Local Open Scope N_scope.

Definition weq (a b : node) : Prop :=
  n_prefix a = n_prefix b /\ n_depth a = n_depth b /\ is_entry a = is_entry b /\ n_mask a = n_mask b.

Lemma weq_refl a : weq a a.
Proof. repeat split. Qed.

(* H' extends H: every old node keeps prefix/depth/kind/mask; links are kept except cell (cp, cj),
   which now holds newc *)
Definition HExt (H H' : list node) (cp : option nat) (cj : N) (newc : option nat) : Prop :=
  forall i nd, nth_error H i = Some nd ->
    exists nd', nth_error H' i = Some nd' /\ weq nd nd' /\
      n_links nd' = match cp with
                    | Some pi => if Nat.eqb pi i then upd (n_links nd) (N.to_nat cj) (fun _ => newc) else n_links nd
                    | None => n_links nd
                    end.

Definition stop_parent (st : foi_stop) : option nat :=
  match st with FCase1 p => p | FCase2 p _ => p | FCase3 _ _ _ => None end.
Definition stop_content (st : foi_stop) : option nat :=
  match st with FCase1 _ => None | FCase2 _ s => Some s | FCase3 e _ _ => Some e end.

Section Frame.
  Variables (H : list node) (rt : option nat) (H' : list node) (cp : option nat) (cj : N) (newc : option nat).
  Hypothesis (I : Inv H rt) (X : HExt H H' cp cj newc).

  (* k' does not read the changed cell *)
  Definition avoids (k' : N) : Prop :=
    forall pi pn, cp = Some pi -> nth_error H pi = Some pn ->
      pfxP k' (n_depth pn) = n_prefix pn -> idxP k' (n_depth pn) <> cj.
  (* the walk starts strictly below the node that owns the changed cell *)
  Definition below (c : option nat) : Prop :=
    forall pi pn i nd, cp = Some pi -> nth_error H pi = Some pn -> c = Some i -> nth_error H i = Some nd ->
      n_depth pn < n_depth nd.

  Lemma walk_frame k' p0 c st : Walk H k' p0 c st -> avoids k' \/ below c -> Walk H' k' p0 c st.
  Proof.
    induction 1 as [p|p i nd G Hne|p i nd G He Hent|p i nd st G He Hent W IH]; intros D.
    - constructor.
    - destruct (X i nd G) as (nd' & G' & (E1 & E2 & E3 & E4) & EL).
      eapply W_split; [exact G'|]. rewrite <- E1, <- E2. exact Hne.
    - destruct (X i nd G) as (nd' & G' & (E1 & E2 & E3 & E4) & EL).
      rewrite E4, E2. eapply W_entry; [exact G' | rewrite <- E1, <- E2; exact He | rewrite <- E3; exact Hent].
    - destruct (X i nd G) as (nd' & G' & (E1 & E2 & E3 & E4) & EL).
      eapply W_link; [exact G' | rewrite <- E1, <- E2; exact He | rewrite <- E3; exact Hent |].
      assert (ELk : nth (N.to_nat (idxP k' (n_depth nd'))) (n_links nd') None
                    = nth (N.to_nat (idxP k' (n_depth nd))) (n_links nd) None).
      { rewrite <- E2, EL. destruct cp as [pi|] eqn:Ecp; [|reflexivity].
        destruct (Nat.eqb_spec pi i) as [->|Hn]; [|reflexivity].
        rewrite nth_upd. destruct D as [D|D].
        - specialize (D i nd Ecp G He).
          destruct (Nat.eqb_spec (N.to_nat cj) (N.to_nat (idxP k' (n_depth nd)))) as [E|E]; [|reflexivity].
          exfalso. apply D. lia.
        - specialize (D i nd i nd Ecp G eq_refl G). lia. }
      rewrite ELk. apply IH.
      destruct D as [D|D]; [left; exact D|]. right.
      intros pi pn i' nd'' Ecp Gp Ec Gi'.
      specialize (D pi pn i nd Ecp Gp eq_refl G).
      destruct nd as [x d par ls|]; [|discriminate]. cbn [n_links n_depth] in *.
      destruct (inv_link _ _ I _ _ _ _ _ _ _ G Ec) as (cn & Gc & Hlt & _).
      rewrite Gi' in Gc. injection Gc as <-. lia.
  Qed.
End Frame.

(* ---------------------------------------------------------------- paths *)
(* Path H k c pi: the walk for k from c goes through link node pi (prefix matched there) *)
Inductive Path (H : list node) (k : N) : option nat -> nat -> Prop :=
| P_here i nd : nth_error H i = Some nd -> pfxP k (n_depth nd) = n_prefix nd -> is_entry nd = false ->
    Path H k (Some i) i
| P_step i nd pi : nth_error H i = Some nd -> pfxP k (n_depth nd) = n_prefix nd -> is_entry nd = false ->
    Path H k (nth (N.to_nat (idxP k (n_depth nd))) (n_links nd) None) pi ->
    Path H k (Some i) pi.

Lemma walk_path H k p0 c st : Walk H k p0 c st -> forall pi, stop_parent st = Some pi ->
  (p0 = Some pi /\ c = stop_content st) \/
  (Path H k c pi /\ exists pn, nth_error H pi = Some pn /\
      nth (N.to_nat (idxP k (n_depth pn))) (n_links pn) None = stop_content st).
Proof.
  induction 1 as [p|p i nd G Hne|p i nd G He Hent|p i nd st G He Hent W IH]; intros pi E; cbn in E.
  - left. split; [exact E|reflexivity].
  - left. split; [exact E|reflexivity].
  - discriminate.
  - right. destruct (IH pi E) as [[E1 E2]|[Pa (pn & Gp & Ec)]].
    + injection E1 as <-. split; [eapply P_here; eassumption|]. exists nd. split; [exact G|exact E2].
    + split; [eapply P_step; eassumption|]. exists pn. split; assumption.
Qed.

Lemma walk_entry_facts H k p0 c e m ix : Walk H k p0 c (FCase3 e m ix) ->
  exists en, nth_error H e = Some en /\ is_entry en = true /\ pfxP k (n_depth en) = n_prefix en /\
             m = n_mask en /\ ix = idxP k (n_depth en).
Proof.
  remember (FCase3 e m ix) as st eqn:Est. induction 1 as [p|p i nd G Hne|p i nd G He Hent|p i nd st G He Hent W IH];
    try discriminate.
  - injection Est as <- <- <-. exists nd. repeat split; assumption.
  - apply IH. exact Est.
Qed.

Lemma walk_split_facts H k p0 c p si : Walk H k p0 c (FCase2 p si) ->
  exists sn, nth_error H si = Some sn /\ pfxP k (n_depth sn) <> n_prefix sn.
Proof.
  remember (FCase2 p si) as st eqn:Est. induction 1 as [p'|p' i nd G Hne|p' i nd G He Hent|p' i nd st G He Hent W IH];
    try discriminate.
  - injection Est as <- <-. exists nd. split; assumption.
  - apply IH. exact Est.
Qed.

Section Paths.
  Variables (H : list node) (rt : option nat).
  Hypothesis (I : Inv H rt).

  Lemma path_depth k c pi : Path H k c pi -> forall i nd pn, c = Some i -> nth_error H i = Some nd ->
    nth_error H pi = Some pn -> n_depth nd <= n_depth pn.
  Proof.
    induction 1 as [i nd G He Hent|i nd pi G He Hent Pa IH]; intros i' nd' pn Ec Gi Gp; injection Ec as <-.
    - rewrite Gi in Gp. injection Gp as <-. lia.
    - rewrite G in Gi. injection Gi as <-.
      destruct nd as [x d par ls|]; [|discriminate]. cbn [n_links n_depth] in *.
      destruct (nth (N.to_nat (idxP k d)) ls None) as [c1|] eqn:E1; [|inversion Pa].
      destruct (inv_link _ _ I _ _ _ _ _ _ _ G E1) as (cn & Gc & Hlt & _).
      specialize (IH c1 cn pn eq_refl Gc Gp). lia.
  Qed.

  (* keys that agree with k on the first depth(pi)+1 nibbles follow k to pi *)
  Lemma path_transfer k k' c pi pn : Path H k c pi -> nth_error H pi = Some pn ->
    hi k' (n_depth pn + 1) = hi k (n_depth pn + 1) -> Path H k' c pi.
  Proof.
    intros Pa Gp Hag. pose proof (node_ok_depth _ (inv_ok _ _ I _ _ Gp)) as Hpd.
    induction Pa as [i nd G He Hent|i nd pi G He Hent Pa IH].
    - rewrite G in Gp. injection Gp as <-. eapply P_here; [exact G| |exact Hent].
      rewrite <- He. apply pfx_eq_iff. apply (hi_mono _ (n_depth nd + 1)); [lia|lia|exact Hag].
    - assert (Hd : n_depth nd < n_depth pn).
      { destruct nd as [x d par ls|]; [|discriminate]. cbn [n_links n_depth] in *.
        destruct (nth (N.to_nat (idxP k d)) ls None) as [c1|] eqn:E1; [|inversion Pa].
        destruct (inv_link _ _ I _ _ _ _ _ _ _ G E1) as (cn & Gc & Hlt & _).
        pose proof (path_depth k _ pi Pa c1 cn pn eq_refl Gc Gp). lia. }
      assert (Hag1 : hi k' (n_depth nd + 1) = hi k (n_depth nd + 1)).
      { apply (hi_mono _ (n_depth pn + 1)); [lia|lia|exact Hag]. }
      apply hi_S_iff in Hag1; [|lia]. destruct Hag1 as [Hh Hi].
      eapply P_step; [exact G| |exact Hent|].
      + rewrite <- He. apply pfx_eq_iff. exact Hh.
      + rewrite Hi. apply IH. exact Gp.
  Qed.

  (* the old walk of a key on the path continues from the cell under pi *)
  Lemma path_walk_old k' c pi pn : Path H k' c pi -> nth_error H pi = Some pn ->
    forall p0 st, Walk H k' p0 c st ->
    Walk H k' (Some pi) (nth (N.to_nat (idxP k' (n_depth pn))) (n_links pn) None) st.
  Proof.
    intros Pa Gp. induction Pa as [i nd G He Hent|i nd pi G He Hent Pa IH]; intros p0 st W; apply Walk_inv in W;
      destruct W as (nd' & G' & C); rewrite G in G'; injection G' as <-.
    - rewrite G in Gp. injection Gp as <-.
      destruct C as [[E _]|[[_ [E _]]|[_ [_ W]]]]; [contradiction|congruence|exact W].
    - destruct C as [[E _]|[[_ [E _]]|[_ [_ W]]]]; [contradiction|congruence|].
      eapply IH; [exact Gp|exact W].
  Qed.

  (* strict ancestors on a path are different nodes *)
  Lemma path_step_neq k i nd pi : nth_error H i = Some nd -> is_entry nd = false ->
    Path H k (nth (N.to_nat (idxP k (n_depth nd))) (n_links nd) None) pi -> i <> pi.
  Proof.
    intros G Hent Pa E. subst pi.
    destruct nd as [x d par ls|]; [|discriminate]. cbn [n_links n_depth] in *.
    destruct (nth (N.to_nat (idxP k d)) ls None) as [c1|] eqn:E1; [|inversion Pa].
    destruct (inv_link _ _ I _ _ _ _ _ _ _ G E1) as (cn & Gc & Hlt & _).
    pose proof (path_depth k _ i Pa c1 cn _ eq_refl Gc G). cbn [n_depth] in *. lia.
  Qed.

  (* in the extended heap the walk of a key on the path is the walk from the (new) cell content *)
  Lemma path_walk_new H' pi cj newc k' c : HExt H H' (Some pi) cj newc -> Path H k' c pi ->
    forall pn' st p0, nth_error H' pi = Some pn' ->
    Walk H' k' (Some pi) (nth (N.to_nat (idxP k' (n_depth pn'))) (n_links pn') None) st ->
    Walk H' k' p0 c st.
  Proof.
    intros X Pa. induction Pa as [i nd G He Hent|i nd pi G He Hent Pa IH]; intros pn' st p0 Gp' W.
    - destruct (X i nd G) as (nd' & G' & (E1 & E2 & E3 & E4) & EL). rewrite Gp' in G'. injection G' as <-.
      eapply W_link; [exact Gp' | rewrite <- E1, <- E2; exact He | rewrite <- E3; exact Hent | exact W].
    - pose proof (path_step_neq k' i nd pi G Hent Pa) as Hneq.
      destruct (X i nd G) as (nd' & G' & (E1 & E2 & E3 & E4) & EL).
      destruct (Nat.eqb_spec pi i) as [->|_]; [congruence|].
      eapply W_link; [exact G' | rewrite <- E1, <- E2; exact He | rewrite <- E3; exact Hent |].
      rewrite EL, <- E2. eapply IH; [exact X|exact Gp'|exact W].
  Qed.
End Paths.

(* ---------------------------------------------------------------- a mask changes *)
Definition remask (e : nat) (m' : N) (st : foi_stop) : foi_stop :=
  match st with
  | FCase3 e' m ix => if Nat.eqb e' e then FCase3 e' m' ix else st
  | _ => st
  end.

Lemma walk_remask H H' e m' :
  (forall i nd, nth_error H i = Some nd -> exists nd', nth_error H' i = Some nd' /\
     n_prefix nd = n_prefix nd' /\ n_depth nd = n_depth nd' /\ is_entry nd = is_entry nd' /\ n_links nd = n_links nd' /\
     n_mask nd' = if Nat.eqb i e then m' else n_mask nd) ->
  forall k' p0 c st, Walk H k' p0 c st -> Walk H' k' p0 c (remask e m' st).
Proof.
  intros X k' p0 c st. induction 1 as [p|p i nd G Hne|p i nd G He Hent|p i nd st G He Hent W IH]; cbn [remask].
  - constructor.
  - destruct (X i nd G) as (nd' & G' & E1 & E2 & E3 & EL & E4).
    eapply W_split; [exact G'|]. rewrite <- E1, <- E2. exact Hne.
  - destruct (X i nd G) as (nd' & G' & E1 & E2 & E3 & EL & E4).
    assert (W' : Walk H' k' p (Some i) (FCase3 i (n_mask nd') (idxP k' (n_depth nd')))).
    { eapply W_entry; [exact G' | rewrite <- E1, <- E2; exact He | rewrite <- E3; exact Hent]. }
    rewrite E4, <- E2 in W'. destruct (Nat.eqb i e); exact W'.
  - destruct (X i nd G) as (nd' & G' & E1 & E2 & E3 & EL & E4).
    eapply W_link; [exact G' | rewrite <- E1, <- E2; exact He | rewrite <- E3; exact Hent |].
    rewrite <- EL, <- E2. exact IH.
Qed.
