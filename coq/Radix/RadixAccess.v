(* The atomic accesses of the model, as data: which atomic cell each micro-step stores to and with
   which memory order, and the loads of find / the writer walks.  Gen/RadixOrders.v (regenerated from
   the clang AST of rcu_radixtree.hpp by translator/gen_radix.py) proves these equal to the source's. *)
From Coq Require Import List NArith Bool.
From FV Require Import Common.EventLog Radix.RadixModel.
Import ListNotations.
Local Open Scope N_scope.

Inductive acell := CRoot | CLink | CMask.
Inductive akind := ALoad | AStore.
Definition access := (akind * acell * morder)%type.

Definition store_access (m : mstep) : list access :=
  match m with
  | MStoreMask _ _ o => [(AStore, CMask, o)]
  | MStoreLink _ _ _ o => [(AStore, CLink, o)]
  | MStoreRoot _ o => [(AStore, CRoot, o)]
  | _ => []
  end.
Definition prog_stores {A} (p : prog A) : list access := flat_map store_access (fst p).

(* loads: find is a function of the heap in the model; its three loads (root, mask, link) are acquire
   in the source, and so are the loads of the writer's walks *)
Definition find_loads : list access := [(ALoad, CRoot, Acquire); (ALoad, CMask, Acquire); (ALoad, CLink, Acquire)].
Definition foi_walk_loads : list access := [(ALoad, CRoot, Acquire); (ALoad, CMask, Acquire); (ALoad, CLink, Acquire)].
Definition erase_walk_loads : list access := [(ALoad, CRoot, Acquire); (ALoad, CMask, Acquire); (ALoad, CLink, Acquire)].

(* witness states for the cases of find_or_insert / erase *)
Definition st_after (l : list op) : st := match run_ops 1 2 st0 l with Ok s => s | _ => st0 end.
Definition w_empty : st := st0.
Definition w_one : st := st_after [OInsert 5 1].
Definition w_two : st := st_after [OInsert 5 1; OInsert 1152921504606846981 2].

Definition stores_case1_root : list access := prog_stores (foi_prog 1 2 w_empty 5 1).
Definition stores_case1_link : list access := prog_stores (foi_prog 1 2 w_two 18446744073709551615 1).
Definition stores_case2_root : list access := prog_stores (foi_prog 1 2 w_one 1152921504606846981 1).
Definition stores_case2_link : list access := prog_stores (foi_prog 1 2 w_two 21 1).
Definition stores_case3 : list access := prog_stores (foi_prog 1 2 w_one 6 1).
Definition stores_erase : list access := prog_stores (erase_prog w_one 5).
