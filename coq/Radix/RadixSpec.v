(* Specifications of the sequential operations in terms of [find]:
   find_or_insert k adds exactly k (at a stable address), erase k removes exactly k,
   the invariant is preserved, and no operation ends in UB / OutOfFuel / an internal assertion. *)
From Coq Require Import List NArith Arith Bool Lia ZifyBool ZifyNat ZifyN.
From FV Require Import Common.EventLog Radix.RadixModel Radix.RadixBits Radix.RadixInv Radix.RadixExec
  Radix.RadixSem Radix.RadixFind Radix.RadixPres.
Import ListNotations.
Local Open Scope N_scope.

Arguments pfxP : simpl never.
Arguments idxP : simpl never.

Definition Inv_s (s : st) : Prop := Inv (nodes s) (root s).

Lemma Inv_s_st0 : Inv_s st0.
Proof. exact Inv_st0. Qed.

(* ---------------------------------------------------------------- find *)
Lemma find_walk s k : Inv_s s -> k < K64 ->
  exists st, Walk (nodes s) k None (root s) st /\ find s k = Ok (find_of_stop st).
Proof.
  intros I Hk. destruct (walk_total (nodes s) (root s) k I Hk None (root s) (root_closed _ _ I)) as (st & W).
  exists st. split; [exact W|]. unfold find. apply (walk_find _ _ _ I Hk _ _ _ W). apply (fuel_ok_root _ _ I).
Qed.

Lemma find_of_walk s k st : Inv_s s -> k < K64 -> Walk (nodes s) k None (root s) st -> find s k = Ok (find_of_stop st).
Proof.
  intros I Hk W. unfold find. apply (walk_find _ _ _ I Hk _ _ _ W). apply (fuel_ok_root _ _ I).
Qed.

Lemma find_of_walk' H rt lg k st : Inv H rt -> k < K64 -> Walk H k None rt st -> find (mk_st H rt lg) k = Ok (find_of_stop st).
Proof. intros I Hk W. apply (find_of_walk (mk_st H rt lg) k st I Hk W). Qed.

(* an address determines its key *)
Lemma find_addr s k a : Inv_s s -> k < K64 -> find s k = Ok (Some a) ->
  exists en, nth_error (nodes s) (fst a) = Some en /\ is_entry en = true /\ n_prefix en = pfxP k 15 /\
             snd a = idxP k 15 /\ N.testbit (n_mask en) (snd a) = true.
Proof.
  intros I Hk F. destruct (find_walk s k I Hk) as (st & W & F'). rewrite F in F'. injection F' as F'.
  destruct st as [p|p si|e m ix]; try discriminate. cbn [find_of_stop] in F'.
  destruct (N.testbit m ix) eqn:B; [|discriminate]. injection F' as ->.
  destruct (walk_entry_facts _ _ _ _ _ _ _ W) as (en & Ge & Hent & Hm & -> & ->).
  pose proof (node_ok_entry _ (inv_ok _ _ I _ _ Ge) Hent) as Hd. rewrite Hd in *.
  exists en. cbn [fst snd]. repeat split; auto.
Qed.

Lemma find_inj s k k' a : Inv_s s -> k < K64 -> k' < K64 ->
  find s k = Ok (Some a) -> find s k' = Ok (Some a) -> k = k'.
Proof.
  intros I Hk Hk' F F'.
  destruct (find_addr s k a I Hk F) as (en & Ge & _ & Hp & Hi & _).
  destruct (find_addr s k' a I Hk' F') as (en' & Ge' & _ & Hp' & Hi' & _).
  rewrite Ge in Ge'. injection Ge' as <-. apply key_eq; congruence.
Qed.

(* ---------------------------------------------------------------- updates of one entry node *)
Lemma inv_upd_entry H rt e f : Inv H rt ->
  (forall nd, n_prefix (f nd) = n_prefix nd /\ n_depth (f nd) = n_depth nd /\ n_parent (f nd) = n_parent nd /\
              n_links (f nd) = n_links nd /\ is_entry (f nd) = is_entry nd /\ (node_ok nd -> node_ok (f nd))) ->
  Inv (upd H e f) rt.
Proof.
  intros I Hf.
  assert (Old : forall i nd, nth_error H i = Some nd -> exists nd', nth_error (upd H e f) i = Some nd' /\
            n_prefix nd' = n_prefix nd /\ n_depth nd' = n_depth nd /\ n_parent nd' = n_parent nd /\
            n_links nd' = n_links nd /\ is_entry nd' = is_entry nd /\ node_ok nd').
  { intros i nd G. rewrite nth_error_upd, G. pose proof (inv_ok _ _ I _ _ G) as Ok_. destruct (Nat.eqb e i); cbn [option_map].
    - exists (f nd). destruct (Hf nd) as (A & B & C & D & E & F).
      split; [reflexivity|]. split; [exact A|]. split; [exact B|]. split; [exact C|]. split; [exact D|]. split; [exact E|].
      exact (F Ok_).
    - exists nd. split; [reflexivity|]. do 5 (split; [reflexivity|]). exact Ok_. }
  assert (Back : forall i nd', nth_error (upd H e f) i = Some nd' -> exists nd, nth_error H i = Some nd).
  { intros i nd' G. destruct (nth_error H i) as [nd|] eqn:G0; [eauto|].
    rewrite nth_error_upd, G0 in G. destruct (Nat.eqb e i); discriminate. }
  constructor.
  - intros i nd' G. destruct (Back i nd' G) as (nd & G0). destruct (Old i nd G0) as (nd'' & G'' & _ & _ & _ & _ & _ & Ok').
    rewrite G in G''. injection G'' as <-. exact Ok'.
  - intros p x d par ls j c G Hj. destruct (Back p _ G) as (nd & G0).
    destruct (Old p nd G0) as (nd'' & G'' & A & B & C & D & E & _). rewrite G in G''. injection G'' as <-.
    cbn [n_prefix n_depth n_parent n_links is_entry] in *.
    destruct nd as [x0 d0 par0 ls0|]; [|discriminate]. cbn [n_prefix n_depth n_parent n_links] in *. subst x0 d0 par0 ls0.
    destruct (inv_link _ _ I _ _ _ _ _ _ _ G0 Hj) as (cn & Gc & P1 & P2 & P3 & P4).
    destruct (Old c cn Gc) as (cn' & Gc' & A' & B' & C' & _). exists cn'. rewrite A', B', C'. auto.
  - intros r E. destruct (inv_root _ _ I r E) as (rn & Gr & Hpar).
    destruct (Old r rn Gr) as (rn' & Gr' & _ & _ & C' & _). exists rn'. split; [exact Gr'|congruence].
Qed.

Lemma entry_fn_ok (g : node -> node) :
  (forall x d p m sl, exists m' sl', g (Entry x d p m sl) = Entry x d p m' sl' /\ length sl' = length sl) ->
  (forall x d p l, g (Link x d p l) = Link x d p l) ->
  forall nd, n_prefix (g nd) = n_prefix nd /\ n_depth (g nd) = n_depth nd /\ n_parent (g nd) = n_parent nd /\
             n_links (g nd) = n_links nd /\ is_entry (g nd) = is_entry nd /\ (node_ok nd -> node_ok (g nd)).
Proof.
  intros HE HL [x d p l|x d p m sl].
  - rewrite HL. do 5 (split; [reflexivity|]). auto.
  - destruct (HE x d p m sl) as (m' & sl' & -> & Len). do 5 (split; [reflexivity|]).
    cbn. intros (A & B & C & D). repeat split; auto. congruence.
Qed.

(* ---------------------------------------------------------------- find_or_insert *)
Theorem foi_spec esz lsz s k v : Inv_s s -> k < K64 ->
  exists s' a b, find_or_insert esz lsz s k v = Ok (s', (a, b)) /\ Inv_s s' /\
    (forall k', k' < K64 -> find s' k' = if k' =? k then Ok (Some a) else find s k') /\
    ((find s k = Ok None /\ b = true) \/ (find s k = Ok (Some a) /\ b = false /\ s' = s)).
Proof.
  intros I Hk. destruct (find_walk s k I Hk) as (st & W & F).
  destruct st as [p|p si|e m ix].
  - (* case 1 *)
    pose proof (case1_parent _ _ _ _ W) as Hp.
    assert (Hp' : forall pi, p = Some pi -> exists pn, nth_error (nodes s) pi = Some pn /\ is_entry pn = false).
    { intros pi E. destruct (Hp pi E) as (pn & G & Hent & _). eauto. }
    pose proof (foi_run_case1 esz lsz s k v p I Hk W Hp') as R. cbv zeta in R.
    pose proof (inv_case1 _ _ k v p I Hk W) as I'.
    eexists _, _, _. split; [exact R|]. split; [exact I'|]. split.
    + intros k' Hk'. destruct (find_walk s k' I Hk') as (st_old & Wold & Fold).
      destruct (case1_walk _ _ k v p I Hk W k' st_old Wold) as (st_new & Wnew & E).
      rewrite (find_of_walk' _ _ _ k' st_new I' Hk' Wnew), E, Fold. destruct (k' =? k); reflexivity.
    + left. split; [exact F|reflexivity].
  - (* case 2 *)
    destruct (walk_split_facts _ _ _ _ _ _ W) as (sn & Gs & Hne).
    pose proof (case2_parent _ _ _ _ _ W) as Hp.
    assert (Hp' : forall pi, p = Some pi -> exists pn, nth_error (nodes s) pi = Some pn /\ is_entry pn = false /\ pi <> si /\
                    hi k (n_depth pn + 1) = hi (n_prefix sn) (n_depth pn + 1)).
    { intros pi E. destruct (Hp pi E) as (pn & Gp & Hent & Hm & Hc & _). exists pn.
      pose proof (node_ok_link _ (inv_ok _ _ I _ _ Gp) Hent) as Hpd.
      destruct pn as [xp dp parp lsp|]; [|discriminate]. cbn [n_links n_depth n_prefix] in *.
      destruct (inv_link _ _ I _ _ _ _ _ _ _ Gp Hc) as (cn & Gc & A & B & C & D). rewrite Gs in Gc. injection Gc as <-.
      repeat split; auto.
      - intros ->. rewrite Gs in Gp. injection Gp as ->. cbn [n_depth] in A. lia.
      - apply hi_S_iff; [lia|]. split.
        + apply pfx_eq_iff. rewrite Hm, B. reflexivity.
        + rewrite C, N2Nat.id. reflexivity. }
    destruct (foi_run_case2 esz lsz s k v p si sn I Hk W Gs Hne Hp') as (d & Hd & Hag & Hdis & Habove & R).
    pose proof (inv_case2 _ _ k v p si sn d I Hk W Gs Hd Hag Hdis Habove) as I'.
    eexists _, _, _. split; [exact R|]. split; [exact I'|]. split.
    + intros k' Hk'. destruct (find_walk s k' I Hk') as (st_old & Wold & Fold).
      destruct (case2_walk _ _ k v p si sn d I Hk W Gs Hd Hag Hdis k' st_old Wold) as (st_new & Wnew & E).
      rewrite (find_of_walk' _ _ _ k' st_new I' Hk' Wnew), E, Fold. destruct (k' =? k); reflexivity.
    + left. split; [exact F|reflexivity].
  - (* case 3 *)
    destruct (walk_entry_facts _ _ _ _ _ _ _ W) as (en & Ge & Hent & Hm & -> & ->).
    pose proof (node_ok_entry _ (inv_ok _ _ I _ _ Ge) Hent) as Hd15. rewrite Hd15 in *.
    cbn [find_of_stop] in F.
    destruct (N.testbit (n_mask en) (idxP k 15)) eqn:B.
    + (* present *)
      exists s, (e, idxP k 15), false. split; [eapply foi_run_case3_present; eauto|]. split; [exact I|]. split.
      * intros k' Hk'. destruct (N.eqb_spec k' k) as [->|]; [exact F|reflexivity].
      * right. auto.
    + (* absent *)
      pose proof (foi_run_case3_new esz lsz s k v e en (idxP k 15) I Hk W (idx_lt k 15) Ge Hent B) as R.
      set (f := fun nd => set_mask (N.lor (n_mask en) (bit (idxP k 15))) (set_slot (idxP k 15) (Some v) nd)) in *.
      assert (Hf : forall nd, n_prefix (f nd) = n_prefix nd /\ n_depth (f nd) = n_depth nd /\ n_parent (f nd) = n_parent nd /\
                     n_links (f nd) = n_links nd /\ is_entry (f nd) = is_entry nd /\ (node_ok nd -> node_ok (f nd))).
      { apply entry_fn_ok.
        - intros x d p m sl. eexists _, _. split; [reflexivity|]. apply length_upd.
        - reflexivity. }
      assert (I' : Inv (upd (nodes s) e f) (root s)) by (apply inv_upd_entry; assumption).
      eexists _, _, _. split; [exact R|]. split; [exact I'|]. split.
      * intros k' Hk'. destruct (find_walk s k' I Hk') as (st_old & Wold & Fold).
        assert (Hfe : n_prefix (f en) = n_prefix en /\ n_depth (f en) = n_depth en /\ is_entry (f en) = true /\
                      n_links (f en) = n_links en /\ n_mask (f en) = N.lor (n_mask en) (bit (idxP k 15))).
        { destruct en; [discriminate|]. repeat split. }
        pose proof (mask_walk (nodes s) (root s) k e en f _ W Ge Hent Hfe k' st_old Wold) as Wnew.
        pose proof (mask_find (nodes s) (root s) k e en f _ I W Ge Hent Hfe k' st_old Wold) as E.
        rewrite (find_of_walk' _ _ _ k' _ I' Hk' Wnew). rewrite E, Fold.
        destruct (N.eqb_spec k' k) as [->|Hne].
        -- rewrite N.eqb_refl. unfold bit. rewrite testbit_set, N.eqb_refl, orb_true_r. reflexivity.
        -- destruct (N.eqb_spec (pfxP k' 15) (pfxP k 15)) as [Ep|Ep]; [|reflexivity].
           apply pfx_eq_iff in Ep. pose proof (same_leaf _ _ k k' I Ep _ _ _ _ _ W) as Wk'.
           pose proof (Walk_det _ _ _ _ _ Wold _ Wk') as ->. cbn [find_of_stop].
           unfold bit. rewrite testbit_set.
           destruct (N.eqb_spec (idxP k 15) (idxP k' 15)) as [Ei|Ei]; [|rewrite orb_false_r; reflexivity].
           exfalso. apply Hne. apply key_eq; [apply pfx_eq_iff; exact Ep|symmetry; exact Ei].
      * left. split; [exact F|reflexivity].
Qed.

(* ---------------------------------------------------------------- erase *)
Theorem erase_spec s k a : Inv_s s -> k < K64 -> find s k = Ok (Some a) ->
  exists s', erase s k = Ok (s', tt) /\ Inv_s s' /\ rlog s' = rlog s /\
    (forall k', k' < K64 -> find s' k' = if k' =? k then Ok None else find s k') /\
    exists en, nth_error (nodes s) (fst a) = Some en /\ is_entry en = true /\
               nodes s' = upd (nodes s) (fst a) (set_mask (clear_bit (n_mask en) (snd a))) /\ root s' = root s.
Proof.
  intros I Hk F. destruct (find_walk s k I Hk) as (st & W & F'). rewrite F in F'. injection F' as F'.
  destruct st as [p|p si|e m ix]; try discriminate. cbn [find_of_stop] in F'.
  destruct (N.testbit m ix) eqn:B; [|discriminate]. injection F' as ->.
  destruct (walk_entry_facts _ _ _ _ _ _ _ W) as (en & Ge & Hent & Hm & -> & ->).
  pose proof (node_ok_entry _ (inv_ok _ _ I _ _ Ge) Hent) as Hd15. rewrite Hd15 in *.
  pose proof (erase_run_stop s k _ I Hk W) as R. cbv beta iota in R. rewrite B, Ge in R.
  destruct en as [|x d par m sl]; [discriminate|]. cbn [n_mask] in *.
  set (f := set_mask (clear_bit m (idxP k 15))) in *.
  assert (Hf : forall nd, n_prefix (f nd) = n_prefix nd /\ n_depth (f nd) = n_depth nd /\ n_parent (f nd) = n_parent nd /\
                 n_links (f nd) = n_links nd /\ is_entry (f nd) = is_entry nd /\ (node_ok nd -> node_ok (f nd))).
  { apply entry_fn_ok.
    - intros x0 d0 p0 m0 sl0. eexists _, _. split; reflexivity.
    - reflexivity. }
  assert (I' : Inv (upd (nodes s) e f) (root s)) by (apply inv_upd_entry; assumption).
  eexists. split; [exact R|]. split; [exact I'|]. split; [reflexivity|]. split.
  - intros k' Hk'. destruct (find_walk s k' I Hk') as (st_old & Wold & Fold).
    assert (Hfe : n_prefix (f (Entry x d par m sl)) = x /\ n_depth (f (Entry x d par m sl)) = d /\
                  is_entry (f (Entry x d par m sl)) = true /\
                  n_links (f (Entry x d par m sl)) = [] /\ n_mask (f (Entry x d par m sl)) = clear_bit m (idxP k 15)).
    { repeat split. }
    pose proof (mask_walk (nodes s) (root s) k e (Entry x d par m sl) f _ W Ge Hent Hfe k' st_old Wold) as Wnew.
    pose proof (mask_find (nodes s) (root s) k e (Entry x d par m sl) f _ I W Ge Hent Hfe k' st_old Wold) as E.
    rewrite (find_of_walk' _ _ _ k' _ I' Hk' Wnew). rewrite E, Fold.
    destruct (N.eqb_spec k' k) as [->|Hne].
    + rewrite N.eqb_refl, testbit_clear, N.eqb_refl, andb_false_r. reflexivity.
    + destruct (N.eqb_spec (pfxP k' 15) (pfxP k 15)) as [Ep|Ep]; [|reflexivity].
      apply pfx_eq_iff in Ep. pose proof (same_leaf _ _ k k' I Ep _ _ _ _ _ W) as Wk'.
      pose proof (Walk_det _ _ _ _ _ Wold _ Wk') as ->. cbn [find_of_stop n_mask].
      rewrite testbit_clear.
      destruct (N.eqb_spec (idxP k 15) (idxP k' 15)) as [Ei|Ei]; [|rewrite andb_true_r; reflexivity].
      exfalso. apply Hne. apply key_eq; [apply pfx_eq_iff; exact Ep|symmetry; exact Ei].
  - exists (Entry x d par m sl). cbn [fst snd n_mask]. repeat split; auto.
Qed.

Theorem erase_absent s k : Inv_s s -> k < K64 -> find s k = Ok None ->
  exists w, erase s k = AssertStop w /\ (w = AEraseNull \/ w = AErasePrefix \/ w = AEraseMask).
Proof.
  intros I Hk F. destruct (find_walk s k I Hk) as (st & W & F'). rewrite F in F'. injection F' as F'.
  pose proof (erase_run_stop s k _ I Hk W) as R.
  destruct st as [p|p si|e m ix].
  - eauto.
  - eauto.
  - cbn [find_of_stop] in F'. destruct (N.testbit m ix); [discriminate|]. eauto.
Qed.

(* ---------------------------------------------------------------- the caller's destroy *)
Lemma caller_destroy_spec s a en : Inv_s s ->
  nth_error (nodes s) (fst a) = Some en -> is_entry en = true ->
  (exists x d p m sl v, en = Entry x d p m sl /\ nth (N.to_nat (snd a)) sl None = Some v) ->
  exists s', caller_destroy s a = Ok s' /\ Inv_s s' /\
    nodes s' = upd (nodes s) (fst a) (set_slot (snd a) None) /\ root s' = root s /\
    rlog s' = EDestroy (blk (fst a), N.to_nat (snd a)) :: rlog s /\
    (forall k, k < K64 -> find s' k = find s k).
Proof.
  intros I Ge Hent (x & d & p & m & sl & v & -> & Hs).
  unfold caller_destroy. rewrite Ge, Hs.
  pose proof (upd_const_ext (nodes s) (fst a) (set_slot (snd a) None) _ Ge) as U. cbn [set_slot] in U. rewrite U. clear U.
  assert (Hf : forall nd, n_prefix (set_slot (snd a) None nd) = n_prefix nd /\ n_depth (set_slot (snd a) None nd) = n_depth nd /\
                 n_parent (set_slot (snd a) None nd) = n_parent nd /\ n_links (set_slot (snd a) None nd) = n_links nd /\
                 is_entry (set_slot (snd a) None nd) = is_entry nd /\ (node_ok nd -> node_ok (set_slot (snd a) None nd))).
  { apply entry_fn_ok.
    - intros x0 d0 p0 m0 sl0. eexists _, _. split; [reflexivity|]. apply length_upd.
    - reflexivity. }
  assert (I' : Inv (upd (nodes s) (fst a) (set_slot (snd a) None)) (root s)) by (apply inv_upd_entry; assumption).
  eexists. split; [reflexivity|]. split; [exact I'|]. do 3 (split; [reflexivity|]).
  intros k Hk. destruct (find_walk s k I Hk) as (st & W & F). rewrite F.
  apply (find_of_walk' _ _ _ k st I' Hk).
  (* masks and links are untouched: the walk is the same *)
  assert (X : forall i nd, nth_error (nodes s) i = Some nd -> exists nd',
             nth_error (upd (nodes s) (fst a) (set_slot (snd a) None)) i = Some nd' /\
             n_prefix nd = n_prefix nd' /\ n_depth nd = n_depth nd' /\ is_entry nd = is_entry nd' /\
             n_links nd = n_links nd' /\ n_mask nd' = if Nat.eqb i (fst a) then m else n_mask nd).
  { intros i nd G. rewrite nth_error_upd. destruct (Nat.eqb_spec (fst a) i) as [E|E].
    - subst i. rewrite G. cbn [option_map]. rewrite Ge in G. injection G as <-. eexists. split; [reflexivity|].
      rewrite Nat.eqb_refl. repeat split.
    - exists nd. destruct (Nat.eqb_spec i (fst a)); [congruence|]. repeat split; auto. }
  pose proof (walk_remask _ _ (fst a) m X k None (root s) st W) as W'.
  assert (remask (fst a) m st = st) as <-; [|exact W'].
  destruct st as [q|q si|e' m' ix']; cbn [remask]; try reflexivity.
  destruct (Nat.eqb_spec e' (fst a)) as [->|]; [|reflexivity].
  destruct (walk_entry_facts _ _ _ _ _ _ _ W) as (en' & Ge' & _ & _ & -> & _). rewrite Ge in Ge'. injection Ge' as <-. reflexivity.
Qed.
