(* Histories: ghost map, the slot/mask invariant, one-step and whole-history theorems. *)
From Coq Require Import List NArith Arith Bool Lia ZifyBool ZifyNat ZifyN.
From FV Require Import Common.EventLog Radix.RadixModel Radix.RadixBits Radix.RadixInv Radix.RadixExec
  Radix.RadixSem Radix.RadixFind Radix.RadixPres Radix.RadixSpec.
Import ListNotations.
Local Open Scope N_scope.

Arguments pfxP : simpl never.
Arguments idxP : simpl never.

(* ---------------------------------------------------------------- mask bit <-> constructed slot *)
Definition entry_data (nd : node) : option (N * list (option N)) :=
  match nd with Entry _ _ _ m sl => Some (m, sl) | Link _ _ _ _ => None end.

Definition slots_ok (m : N) (sl : list (option N)) : Prop :=
  forall i, i < 16 -> (N.testbit m i = true <-> nth (N.to_nat i) sl None <> None).

Definition SlotInv (H : list node) : Prop :=
  forall e nd m sl, nth_error H e = Some nd -> entry_data nd = Some (m, sl) -> slots_ok m sl.

Lemma entry_data_set_link_at j c nd : entry_data (set_link_at j c nd) = entry_data nd.
Proof. destruct nd; reflexivity. Qed.
Lemma entry_data_set_parent q nd : entry_data (set_parent q nd) = entry_data nd.
Proof. destruct nd; reflexivity. Qed.

Lemma slots_ok_new k v : slots_ok (bit (idxP k 15)) (upd (repeat None 16) (N.to_nat (idxP k 15)) (fun _ => Some v)).
Proof.
  intros i Hi. unfold bit. rewrite testbit_bit, nth_upd, repeat_length, to_nat_eqb, to_nat_ltb16 by exact Hi.
  rewrite andb_true_r. destruct (N.eqb_spec (idxP k 15) i); split; intros E; try discriminate; try reflexivity.
  exfalso. apply E. apply nth_repeat_none.
Qed.

Lemma slots_ok_set m sl ix v : slots_ok m sl -> ix < 16 -> length sl = 16%nat ->
  slots_ok (N.lor m (bit ix)) (upd sl (N.to_nat ix) (fun _ => Some v)).
Proof.
  intros SI Hix L i Hi. unfold bit. rewrite testbit_set, nth_upd, L, to_nat_eqb, to_nat_ltb16 by exact Hi.
  rewrite andb_true_r. destruct (N.eqb_spec ix i).
  - rewrite orb_true_r. split; intros; [discriminate|reflexivity].
  - rewrite orb_false_r. apply SI. exact Hi.
Qed.

Lemma slots_ok_clear m sl ix : slots_ok m sl -> ix < 16 -> length sl = 16%nat ->
  slots_ok (clear_bit m ix) (upd sl (N.to_nat ix) (fun _ => None)).
Proof.
  intros SI Hix L i Hi. rewrite testbit_clear, nth_upd, L, to_nat_eqb, to_nat_ltb16 by exact Hi.
  rewrite andb_true_r. destruct (N.eqb_spec ix i).
  - rewrite andb_false_r. split; intros E; [discriminate|exfalso; apply E; reflexivity].
  - rewrite andb_true_r. apply SI. exact Hi.
Qed.

Lemma case_heap_old_data H1 k p c T i nd' :
  (i < length H1)%nat -> nth_error (publish_heap H1 k p c ++ T) i = Some nd' ->
  exists nd1, nth_error H1 i = Some nd1 /\ entry_data nd' = entry_data nd1.
Proof.
  intros L G. rewrite nth_error_app1 in G by (rewrite publish_heap_length; exact L).
  rewrite publish_lookup in G. destruct (nth_error H1 i) as [nd1|] eqn:G1; [|apply nth_error_None in G1; lia].
  exists nd1. split; [reflexivity|].
  destruct p as [pi|]; [destruct (Nat.eqb pi i)|]; cbn [option_map] in G; injection G as <-;
    rewrite ?entry_data_set_link_at; reflexivity.
Qed.

Lemma slotinv_case1 H k v p : SlotInv H -> SlotInv (case1_heap H k v p).
Proof.
  intros SI e nd m sl G D. destruct (Nat.lt_ge_cases e (length H)) as [L|L].
  - destruct (case_heap_old_data H k p _ _ e nd L G) as (nd1 & G1 & E). rewrite E in D. exact (SI e nd1 m sl G1 D).
  - assert (e < length (case1_heap H k v p))%nat by (apply nth_error_Some; congruence).
    unfold case1_heap in H0. rewrite app_length, publish_heap_length in H0. cbn in H0.
    assert (e = length H) by lia. subst e. rewrite case1_new_node in G. injection G as <-.
    cbn in D. injection D as <- <-. apply slots_ok_new.
Qed.

Lemma slotinv_case2 H k v p si sp d : SlotInv H -> SlotInv (case2_heap H k v p si sp d).
Proof.
  intros SI e nd m sl G D. destruct (Nat.lt_ge_cases e (length H)) as [L|L].
  - unfold case2_heap in G.
    assert (L1 : (e < length (upd H si (set_parent (Some (S (length H))))))%nat) by (rewrite length_upd; exact L).
    destruct (case_heap_old_data _ k p _ _ e nd L1 G) as (nd1 & G1 & E).
    rewrite E in D. rewrite nth_error_upd in G1.
    destruct (nth_error H e) as [nd0|] eqn:G0; [|destruct (Nat.eqb si e); discriminate].
    apply (SI e nd0 m sl G0). destruct (Nat.eqb si e); cbn [option_map] in G1; injection G1 as <-;
      rewrite ?entry_data_set_parent in D; exact D.
  - assert (e < length (case2_heap H k v p si sp d))%nat by (apply nth_error_Some; congruence).
    unfold case2_heap in H0. rewrite app_length, publish_heap_length, length_upd in H0. cbn in H0.
    assert (e = length H \/ e = S (length H)) as [->| ->] by lia.
    + rewrite case2_new_entry in G. injection G as <-. cbn in D. injection D as <- <-. apply slots_ok_new.
    + rewrite case2_new_link in G. injection G as <-. discriminate.
Qed.

Lemma slotinv_upd H e f : SlotInv H ->
  (forall nd m sl, nth_error H e = Some nd -> entry_data (f nd) = Some (m, sl) -> slots_ok m sl) ->
  SlotInv (upd H e f).
Proof.
  intros SI Hf e' nd m sl G D. rewrite nth_error_upd in G. destruct (Nat.eqb_spec e e') as [->|].
  - destruct (nth_error H e') as [nd0|] eqn:G0; [|discriminate]. injection G as <-. eapply Hf; [reflexivity|exact D].
  - exact (SI e' nd m sl G D).
Qed.

Lemma upd_upd {A} (l : list A) i f g : upd (upd l i f) i g = upd l i (fun x => g (f x)).
Proof. revert i; induction l as [|x l IH]; intros [|i]; cbn; try reflexivity. f_equal. apply IH. Qed.

(* ---------------------------------------------------------------- good states *)
Definition gmap := N -> option addr.
Definition gempty : gmap := fun _ => None.
Definition gset (M : gmap) (k : N) (a : option addr) : gmap := fun k' => if k' =? k then a else M k'.

Record Good (s : st) (M : gmap) : Prop := mk_Good {
  g_inv : Inv_s s;
  g_slots : SlotInv (nodes s);
  g_find : forall k, k < K64 -> find s k = Ok (M k)
}.

Lemma Good_st0 : Good st0 gempty.
Proof.
  constructor.
  - apply Inv_s_st0.
  - intros e nd m sl G. destruct e; discriminate.
  - intros k Hk. reflexivity.
Qed.

(* find_or_insert: full semantics relative to the ghost map *)
Theorem foi_good esz lsz s M k v : Good s M -> k < K64 ->
  exists s' a b, find_or_insert esz lsz s k v = Ok (s', (a, b)) /\
    (forall a0, M k = Some a0 -> a = a0 /\ b = false /\ s' = s) /\
    (M k = None -> b = true /\ forall k', k' < K64 -> M k' <> Some a) /\
    Good s' (if b then gset M k (Some a) else M).
Proof.
  intros [I SI F] Hk.
  destruct (foi_spec esz lsz s k v I Hk) as (s' & a & b & R & I' & F' & C).
  exists s', a, b. split; [exact R|].
  pose proof (F k Hk) as Fk.
  destruct C as [[Fn ->]|[Fs [-> ->]]].
  - rewrite Fk in Fn. injection Fn as Mk. split; [intros a0 E; congruence|]. split.
    + intros _. split; [reflexivity|]. intros k' Hk' Mk'.
      (* the new address is not the address of any other present key *)
      assert (k' <> k) by (intros ->; congruence).
      assert (F1 : find s' k' = Ok (Some a)).
      { rewrite (F' k' Hk'). destruct (N.eqb_spec k' k); [contradiction|]. rewrite (F k' Hk'), Mk'. reflexivity. }
      assert (F2 : find s' k = Ok (Some a)) by (rewrite (F' k Hk), N.eqb_refl; reflexivity).
      apply H. exact (find_inj s' k' k a I' Hk' Hk F1 F2).
    + constructor; [exact I'| |].
      * (* slots *)
        clear F' Fk. unfold find_or_insert in R.
        destruct (find_walk s k I Hk) as (st & W & Fw). rewrite F in Fw by exact Hk. injection Fw as Fw.
        destruct st as [p|p si|e m ix].
        -- pose proof (case1_parent _ _ _ _ W) as Hp.
           assert (Hp' : forall pi, p = Some pi -> exists pn, nth_error (nodes s) pi = Some pn /\ is_entry pn = false).
           { intros pi E. destruct (Hp pi E) as (pn & G & Hent & _). eauto. }
           pose proof (foi_run_case1 esz lsz s k v p I Hk W Hp') as R'. cbv zeta in R'.
           unfold find_or_insert in R'. rewrite R in R'. injection R' as -> _. cbn [nodes]. apply slotinv_case1. exact SI.
        -- destruct (walk_split_facts _ _ _ _ _ _ W) as (sn & Gs & Hne).
           pose proof (case2_parent _ _ _ _ _ W) as Hp.
           assert (Hp' : forall pi, p = Some pi -> exists pn, nth_error (nodes s) pi = Some pn /\ is_entry pn = false /\ pi <> si /\
                           hi k (n_depth pn + 1) = hi (n_prefix sn) (n_depth pn + 1)).
           { intros pi E. destruct (Hp pi E) as (pn & Gp & Hent & Hm & Hc & _). exists pn.
             pose proof (node_ok_link _ (inv_ok _ _ I _ _ Gp) Hent) as Hpd.
             destruct pn as [xp dp parp lsp|]; [|discriminate]. cbn [n_links n_depth n_prefix] in *.
             destruct (inv_link _ _ I _ _ _ _ _ _ _ Gp Hc) as (cn & Gc & A & B & C & D). rewrite Gs in Gc. injection Gc as <-.
             repeat split; auto.
             - intros ->. rewrite Gs in Gp. injection Gp as ->. cbn [n_depth] in A. lia.
             - apply hi_S_iff; [lia|]. split.
               + apply pfx_eq_iff. rewrite Hm, B. reflexivity.
               + rewrite C, N2Nat.id. reflexivity. }
           destruct (foi_run_case2 esz lsz s k v p si sn I Hk W Gs Hne Hp') as (d & _ & _ & _ & _ & R').
           unfold find_or_insert in R'. rewrite R in R'. injection R' as -> _. cbn [nodes]. apply slotinv_case2. exact SI.
        -- destruct (walk_entry_facts _ _ _ _ _ _ _ W) as (en & Ge & Hent & Hm & -> & ->).
           pose proof (node_ok_entry _ (inv_ok _ _ I _ _ Ge) Hent) as Hd15. rewrite Hd15 in *.
           cbn [find_of_stop] in Fw. destruct (N.testbit (n_mask en) (idxP k 15)) eqn:B; [congruence|].
           pose proof (foi_run_case3_new esz lsz s k v e en (idxP k 15) I Hk W (idx_lt k 15) Ge Hent B) as R'.
           unfold find_or_insert in R'. rewrite R in R'. injection R' as -> _. cbn [nodes].
           apply slotinv_upd; [exact SI|]. intros nd m sl G D. rewrite Ge in G. injection G as <-.
           destruct en as [|x d par m0 sl0]; [discriminate|]. cbn in D. injection D as <- <-.
           pose proof (inv_ok _ _ I _ _ Ge) as (_ & _ & _ & L).
           apply slots_ok_set; [|apply idx_lt|exact L]. eapply SI; [exact Ge|reflexivity].
      * intros k' Hk'. rewrite (F' k' Hk'). unfold gset. destruct (k' =? k); [reflexivity|apply F; exact Hk'].
  - rewrite Fk in Fs. injection Fs as Mk. split; [intros a0 E; rewrite Mk in E; injection E as <-; auto|].
    split; [intros E; congruence|]. constructor; assumption.
Qed.

(* the erase protocol (find, erase, caller destroys) *)
Theorem erase_good esz lsz s M k : Good s M -> k < K64 -> M k <> None ->
  exists s', step_op esz lsz s (OErase k) = Ok (s', RUnit) /\ Good s' (gset M k None).
Proof.
  intros [I SI F] Hk Mk. destruct (M k) as [a|] eqn:Ma; [|contradiction].
  pose proof (F k Hk) as Fk. rewrite Ma in Fk.
  destruct (erase_spec s k a I Hk Fk) as (s1 & R & I1 & Lg & F1 & en & Ge & Hent & N1 & R1).
  destruct (find_addr s k a I Hk Fk) as (en' & Ge' & _ & Hp & Hi & Hb). rewrite Ge in Ge'. injection Ge' as <-.
  destruct en as [|x d par m sl]; [discriminate|]. cbn [n_mask] in *.
  pose proof (inv_ok _ _ I _ _ Ge) as (_ & _ & _ & L).
  assert (Hlt : snd a < 16) by (rewrite Hi; apply idx_lt).
  assert (Hs : exists v, nth (N.to_nat (snd a)) sl None = Some v).
  { pose proof (SI _ _ _ _ Ge eq_refl (snd a) Hlt) as [Q _]. specialize (Q Hb).
    destruct (nth (N.to_nat (snd a)) sl None) as [v|]; [eauto|contradiction]. }
  destruct Hs as (v & Hs).
  assert (Ge1 : nth_error (nodes s1) (fst a) = Some (Entry x d par (clear_bit m (snd a)) sl)).
  { rewrite N1. rewrite (nth_error_upd_eq _ _ _ _ Ge). reflexivity. }
  destruct (caller_destroy_spec s1 a _ I1 Ge1 eq_refl) as (s2 & R2 & I2 & N2 & Rt2 & Lg2 & F2).
  { eexists _, _, _, _, _, _. split; [reflexivity|exact Hs]. }
  exists s2. split.
  - cbn [step_op]. rewrite Fk. cbn [bind]. rewrite R. cbn [bind fst]. rewrite R2. reflexivity.
  - constructor; [exact I2| |].
    + rewrite N2, N1, upd_upd. apply slotinv_upd; [exact SI|].
      intros nd m0 sl0 G D. rewrite Ge in G. injection G as <-. cbn in D. injection D as <- <-.
      apply slots_ok_clear; [|exact Hlt|exact L]. eapply SI; [exact Ge|reflexivity].
    + intros k' Hk'. rewrite (F2 k' Hk'), (F1 k' Hk'). unfold gset. destruct (k' =? k); [reflexivity|apply F; exact Hk'].
Qed.

(* ---------------------------------------------------------------- one step of a history *)
Definition op_keys_ok (o : op) : Prop :=
  match o with
  | OFind k | OErase k => k < K64
  | OFoi k _ | OInsert k _ => k < K64
  | OIter => True
  end.
Definition is_iter (o : op) : bool := match o with OIter => true | _ => false end.

Definition ghost_step (M : gmap) (o : op) (r : res) : gmap :=
  match o, r with
  | OFoi k _, RFoi a true => gset M k (Some a)
  | OInsert k _, RPtr (Some a) => gset M k (Some a)
  | OErase k, _ => gset M k None
  | _, _ => M
  end.
(* the documented preconditions: insert only absent keys, erase only present keys *)
Definition pre_ok (M : gmap) (o : op) : Prop :=
  match o with OInsert k _ => M k = None | OErase k => M k <> None | _ => True end.

Definition fresh (M : gmap) (a : addr) : Prop := forall k', k' < K64 -> M k' <> Some a.

Definition res_ok (M : gmap) (o : op) (r : res) : Prop :=
  match o with
  | OFind k => r = RPtr (M k)
  | OFoi k _ => exists a b, r = RFoi a b /\ (forall a0, M k = Some a0 -> a = a0 /\ b = false) /\
                            (M k = None -> b = true /\ fresh M a)
  | OInsert k _ => exists a, r = RPtr (Some a) /\ fresh M a
  | OErase _ => r = RUnit
  | OIter => True
  end.

Definition pre_assert (w : stopwhy) : Prop :=
  w = AInsertPresent \/ w = AEraseNull \/ w = AErasePrefix \/ w = AEraseMask.

Lemma insert_unfold esz lsz s k v :
  insert esz lsz s k v =
    x <- find_or_insert esz lsz s k v ;;
    if snd (snd x) then Ok (fst x, fst (snd x)) else AssertStop AInsertPresent.
Proof.
  unfold insert, insert_prog, find_or_insert. rewrite run_pbind.
  destruct (run_prog s (foi_prog esz lsz s k v)) as [[s' [a b]]| | |]; cbn [bind fst snd]; try reflexivity.
  rewrite run_lift. destruct b; cbn [assert bind]; reflexivity.
Qed.

Theorem step_safe esz lsz s M o : Good s M -> op_keys_ok o -> is_iter o = false ->
  (exists s' r, step_op esz lsz s o = Ok (s', r) /\ Good s' (ghost_step M o r) /\ res_ok M o r) \/
  (~ pre_ok M o /\ exists w, step_op esz lsz s o = AssertStop w /\ pre_assert w).
Proof.
  intros G Hk Hi. destruct o as [k|k v|k v|k|]; cbn [op_keys_ok is_iter] in *; try discriminate.
  - left. exists s, (RPtr (M k)). cbn [step_op]. rewrite (g_find _ _ G k Hk). cbn [bind]. split; [reflexivity|]. split; [exact G|reflexivity].
  - left. destruct (foi_good esz lsz s M k v G Hk) as (s' & a & b & R & Hp & Ha & G').
    exists s', (RFoi a b). cbn [step_op]. rewrite R. cbn [bind fst snd]. split; [reflexivity|]. split.
    + cbn [ghost_step]. destruct b; exact G'.
    + exists a, b. split; [reflexivity|]. split; [intros a0 E; destruct (Hp a0 E) as (A & B & _); auto|exact Ha].
  - destruct (foi_good esz lsz s M k v G Hk) as (s' & a & b & R & Hp & Ha & G').
    cbn [step_op]. rewrite insert_unfold, R. cbn [bind fst snd].
    destruct (M k) as [a0|] eqn:Mk.
    + right. destruct (Hp a0 eq_refl) as (_ & -> & _). split; [cbn; congruence|].
      exists AInsertPresent. split; [reflexivity|left; reflexivity].
    + left. destruct (Ha eq_refl) as (-> & Fr). exists s', (RPtr (Some a)). split; [reflexivity|]. split; [exact G'|].
      exists a. split; [reflexivity|exact Fr].
  - destruct (M k) as [a0|] eqn:Mk.
    + left. destruct (erase_good esz lsz s M k G Hk) as (s' & R & G'); [congruence|].
      exists s', RUnit. split; [exact R|]. split; [exact G'|reflexivity].
    + right. split; [cbn; congruence|]. pose proof (g_find _ _ G k Hk) as F. rewrite Mk in F.
      destruct (erase_absent s k (g_inv _ _ G) Hk F) as (w & R & Hw).
      exists w. split; [|right; exact Hw]. cbn [step_op]. rewrite F. cbn [bind]. rewrite R. reflexivity.
Qed.

(* ---------------------------------------------------------------- histories *)
Fixpoint run_ghost (esz lsz : N) (s : st) (M : gmap) (l : list op) : outcome (st * gmap) :=
  match l with
  | [] => Ok (s, M)
  | o :: r => x <- step_op esz lsz s o ;; run_ghost esz lsz (fst x) (ghost_step M o (snd x)) r
  end.

Lemma run_ghost_run_ops esz lsz l : forall s M,
  run_ops esz lsz s l = x <- run_ghost esz lsz s M l ;; Ok (fst x).
Proof.
  induction l as [|o l IH]; intros s M; cbn [run_ops run_ghost bind]; [reflexivity|].
  destruct (step_op esz lsz s o) as [[s' r]| | |]; cbn [bind fst snd]; try reflexivity. apply IH.
Qed.

(* a history that respects the documented preconditions (w.r.t. the ghost map as it evolves) *)
Fixpoint valid (esz lsz : N) (s : st) (M : gmap) (l : list op) : Prop :=
  match l with
  | [] => True
  | o :: r => op_keys_ok o /\ is_iter o = false /\ pre_ok M o /\
              forall s' x, step_op esz lsz s o = Ok (s', x) -> valid esz lsz s' (ghost_step M o x) r
  end.

Theorem history_refines esz lsz l : forall s M, Good s M -> valid esz lsz s M l ->
  exists s' M', run_ghost esz lsz s M l = Ok (s', M') /\ Good s' M'.
Proof.
  induction l as [|o l IH]; intros s M G V; cbn [run_ghost].
  - eauto.
  - destruct V as (Hk & Hi & Hpre & V).
    destruct (step_safe esz lsz s M o G Hk Hi) as [(s' & r & R & G' & _)|(Hn & _)]; [|contradiction].
    rewrite R. cbn [bind fst snd]. apply IH; [exact G'|]. apply (V s' r R).
Qed.

Definition safe_outcome {A} (o : outcome A) : Prop :=
  match o with Ok _ => True | AssertStop w => pre_assert w | UB _ => False | OutOfFuel => False end.

Theorem history_safe esz lsz l : forall s M, Good s M -> Forall op_keys_ok l -> Forall (fun o => is_iter o = false) l ->
  safe_outcome (run_ops esz lsz s l).
Proof.
  induction l as [|o l IH]; intros s M G Hk Hi; cbn [run_ops]; [exact I|].
  inversion Hk as [|? ? Hk1 Hk2]; subst. inversion Hi as [|? ? Hi1 Hi2]; subst.
  destruct (step_safe esz lsz s M o G Hk1 Hi1) as [(s' & r & R & G' & _)|(_ & w & R & Hw)].
  - rewrite R. cbn [bind fst]. eapply IH; eassumption.
  - rewrite R. exact Hw.
Qed.

(* address stability *)
Theorem step_address_stable esz lsz s M o s' r k a : Good s M -> op_keys_ok o -> is_iter o = false ->
  k < K64 -> M k = Some a -> step_op esz lsz s o = Ok (s', r) -> o <> OErase k ->
  find s' k = Ok (Some a).
Proof.
  intros G Hk Hi Hkk Mk R Hne.
  destruct (step_safe esz lsz s M o G Hk Hi) as [(s1 & r1 & R1 & G1 & Hr)|(_ & w & R1 & _)]; [|congruence].
  rewrite R in R1. injection R1 as <- <-. rewrite (g_find _ _ G1 k Hkk). f_equal.
  destruct o as [k0|k0 v|k0 v|k0|]; cbn [ghost_step res_ok] in *; try discriminate.
  - exact Mk.
  - destruct Hr as (a1 & b & -> & Hp & Ha). destruct b; [|exact Mk]. unfold gset.
    destruct (N.eqb_spec k k0) as [->|]; [|exact Mk].
    destruct (Hp a Mk) as (_ & E). discriminate.
  - destruct Hr as (a1 & -> & Fr). unfold gset. destruct (N.eqb_spec k k0) as [->|]; [|exact Mk].
    exfalso. destruct (step_safe esz lsz s M (OInsert k0 v) G Hk Hi) as [(s2 & r2 & R2 & _ & a2 & -> & Fr2)|(Hn & w & R2 & _)].
    + (* insert succeeded although k0 was present: impossible, its result would be fresh yet equal to a *)
      clear R2. pose proof (foi_good esz lsz s M k0 v G Hkk) as (s3 & a3 & b3 & R3 & Hp3 & _).
      cbn [step_op] in R. rewrite insert_unfold, R3 in R. cbn [bind fst snd] in R.
      destruct (Hp3 a Mk) as (_ & -> & _). discriminate.
    + congruence.
  - unfold gset. destruct (N.eqb_spec k k0) as [->|]; [exfalso; apply Hne; reflexivity|exact Mk].
Qed.
