(* Bit-level facts about pfx_of / idx_of, isolated as div/mod lemmas (DESIGN 3.2).
   hi k d   = the top d nibbles of k, as a number          = k / 16^(16-d)
   pfxP k d = k with everything below the top d nibbles cleared = hi k d * 16^(16-d)
   idxP k d = nibble number d (0 = most significant)        = hi k (d+1) mod 16
   The model's shift/mask definitions are shown equal to these once (pfx_of_ok, idx_of_ok);
   all other proofs use only the characterisations below. *)
From Coq Require Import List NArith Arith Bool Lia ZifyBool ZifyNat ZifyN.
From FV Require Import Radix.RadixModel.
Import ListNotations.
Local Open Scope N_scope.

Definition K64 : N := 18446744073709551616.     (* 2^64 *)
Definition P (d : N) : N := 16 ^ (16 - d).
Definition hi (k d : N) : N := k / P d.
Definition pfxP (k d : N) : N := hi k d * P d.
Definition idxP (k d : N) : N := hi k (d + 1) mod 16.

Lemma P_pos d : 0 < P d.
Proof. unfold P. apply N.neq_0_lt_0. apply N.pow_nonzero. lia. Qed.
Lemma P_neq0 d : P d <> 0.
Proof. pose proof (P_pos d). lia. Qed.
Lemma P_16 : P 16 = 1.
Proof. reflexivity. Qed.
Lemma P_0 : P 0 = K64.
Proof. reflexivity. Qed.

Lemma P_split d' d : d' <= d -> d <= 16 -> P d' = P d * 16 ^ (d - d').
Proof.
  intros H1 H2. unfold P. rewrite <- N.pow_add_r. f_equal. lia.
Qed.

Lemma hi_div d' d k : d' <= d -> d <= 16 -> hi k d' = hi k d / 16 ^ (d - d').
Proof.
  intros H1 H2. unfold hi. rewrite (P_split d' d H1 H2).
  rewrite N.div_div; [reflexivity | apply P_neq0 | apply N.pow_nonzero; lia].
Qed.

Lemma hi_S k d : d < 16 -> hi k d = hi k (d + 1) / 16.
Proof.
  intros H. rewrite (hi_div d (d + 1)) by lia. replace (d + 1 - d) with 1 by lia. reflexivity.
Qed.

Lemma hi_16 k : hi k 16 = k.
Proof. unfold hi. rewrite P_16. apply N.div_1_r. Qed.

Lemma hi_0 k : k < K64 -> hi k 0 = 0.
Proof. intros H. unfold hi. rewrite P_0. apply N.div_small. exact H. Qed.

Lemma hi_mono d' d k k' : d' <= d -> d <= 16 -> hi k d = hi k' d -> hi k d' = hi k' d'.
Proof.
  intros H1 H2 E. rewrite (hi_div d' d k H1 H2), (hi_div d' d k' H1 H2), E. reflexivity.
Qed.

Lemma pfx_eq_iff k k' d : pfxP k d = pfxP k' d <-> hi k d = hi k' d.
Proof.
  unfold pfxP. split; intros E.
  - apply N.mul_cancel_r in E; [exact E | apply P_neq0].
  - rewrite E. reflexivity.
Qed.

Lemma hi_pfx_same k d : hi (pfxP k d) d = hi k d.
Proof. unfold pfxP at 1. unfold hi at 1. apply N.div_mul. apply P_neq0. Qed.

Lemma hi_pfx k d' d : d' <= d -> d <= 16 -> hi (pfxP k d) d' = hi k d'.
Proof.
  intros H1 H2. apply (hi_mono d' d); [exact H1 | exact H2 | apply hi_pfx_same].
Qed.

Lemma pfx_pfx_le k d' d : d' <= d -> d <= 16 -> pfxP (pfxP k d) d' = pfxP k d'.
Proof. intros H1 H2. apply pfx_eq_iff. apply hi_pfx; assumption. Qed.

Lemma pfx_idem k d : pfxP (pfxP k d) d = pfxP k d.
Proof. apply pfx_eq_iff. apply hi_pfx_same. Qed.

Lemma idx_pfx k d' d : d' < d -> d <= 16 -> idxP (pfxP k d) d' = idxP k d'.
Proof. intros H1 H2. unfold idxP. rewrite hi_pfx by lia. reflexivity. Qed.

Lemma idx_lt k d : idxP k d < 16.
Proof. unfold idxP. apply N.mod_lt. lia. Qed.

Lemma hi_S_iff k k' d : d < 16 ->
  (hi k (d + 1) = hi k' (d + 1) <-> hi k d = hi k' d /\ idxP k d = idxP k' d).
Proof.
  intros H. rewrite (hi_S k d H), (hi_S k' d H). unfold idxP.
  split.
  - intros E. rewrite E. split; reflexivity.
  - intros [E1 E2].
    rewrite (N.div_mod (hi k (d + 1)) 16) by lia.
    rewrite (N.div_mod (hi k' (d + 1)) 16) by lia.
    rewrite E1, E2. reflexivity.
Qed.

Lemma pfx_le k d : pfxP k d <= k.
Proof. unfold pfxP, hi. rewrite N.mul_comm. apply N.mul_div_le. apply P_neq0. Qed.

Lemma pfx_lt k d : k < K64 -> pfxP k d < K64.
Proof. intros H. pose proof (pfx_le k d). lia. Qed.

Lemma pfx_0 k : k < K64 -> pfxP k 0 = 0.
Proof. intros H. unfold pfxP. rewrite hi_0 by exact H. reflexivity. Qed.

Lemma key_eq k k' : pfxP k 15 = pfxP k' 15 -> idxP k 15 = idxP k' 15 -> k = k'.
Proof.
  intros E1 E2. apply pfx_eq_iff in E1.
  assert (E : hi k (15 + 1) = hi k' (15 + 1)) by (apply hi_S_iff; [lia | split; assumption]).
  change (15 + 1) with 16 in E. rewrite !hi_16 in E. exact E.
Qed.

Lemma key_decomp k : k = pfxP k 15 + idxP k 15.
Proof.
  unfold pfxP, idxP. change (15 + 1) with 16. rewrite hi_16.
  rewrite (hi_S k 15) by lia. change (15 + 1) with 16. rewrite hi_16.
  change (P 15) with 16. rewrite N.mul_comm. apply N.div_mod. lia.
Qed.

(* a node's prefix is its own prefix at its depth: what "prefix is aligned" means *)
Lemma pfx_fix_hi x d k : pfxP x d = x -> (pfxP k d = x <-> hi k d = hi x d).
Proof. intros E. rewrite <- E at 1. apply pfx_eq_iff. Qed.

(* ---------------------------------------------------------------- the shift/mask definitions *)
Lemma sub32_small d : d <= 16 -> sub32 64 (u32 (d * 4)) = 64 - 4 * d.
Proof.
  intros H. unfold sub32, u32, two32.
  assert (d * 4 < 4294967296) by lia.
  rewrite (N.mod_small (d * 4)) by lia. rewrite (N.mod_small (d * 4)) by lia.
  replace (64 + 4294967296 - d * 4) with ((64 - 4 * d) + 1 * 4294967296) by lia.
  rewrite N.mod_add by lia. apply N.mod_small. lia.
Qed.

Lemma ones64_ones : ones64 = N.ones 64.
Proof. reflexivity. Qed.

Lemma lt_K64_bits k i : k < K64 -> 64 <= i -> N.testbit k i = false.
Proof.
  intros H Hi. destruct (N.eq_dec k 0) as [->|Hk]; [apply N.bits_0|].
  apply N.bits_above_log2. apply N.log2_lt_pow2; [lia|].
  apply N.lt_le_trans with (2 ^ 64); [exact H|]. apply N.pow_le_mono_r; lia.
Qed.

Lemma land_himask k sh : k < K64 -> sh <= 64 ->
  N.land k (N.land (N.shiftl ones64 sh) ones64) = N.shiftl (N.shiftr k sh) sh.
Proof.
  intros Hk Hs. apply N.bits_inj. intros i.
  rewrite !N.land_spec. rewrite ones64_ones.
  destruct (N.lt_ge_cases i sh) as [Hlt|Hge].
  - rewrite N.shiftl_spec_low by exact Hlt. rewrite N.shiftl_spec_low by exact Hlt.
    rewrite andb_false_l, andb_false_r. reflexivity.
  - rewrite !N.shiftl_spec_high' by exact Hge. rewrite N.shiftr_spec'.
    replace (i - sh + sh) with i by lia.
    destruct (N.lt_ge_cases i 64) as [H64|H64].
    + rewrite !N.ones_spec_low by lia. rewrite !andb_true_r. reflexivity.
    + rewrite (lt_K64_bits k i Hk H64). reflexivity.
Qed.

Lemma P_pow2 d : d <= 16 -> 2 ^ (64 - 4 * d) = P d.
Proof.
  intros H. unfold P. change 16 with (2 ^ 4) at 1. rewrite <- N.pow_mul_r. f_equal. lia.
Qed.

Lemma pfx_of_ok k d : k < K64 -> d <= 16 -> pfx_of k d = Ok (pfxP k d).
Proof.
  intros Hk Hd. unfold pfx_of. destruct (d =? 0) eqn:E0.
  - apply N.eqb_eq in E0. subst d. rewrite pfx_0 by exact Hk. reflexivity.
  - apply N.eqb_neq in E0. rewrite sub32_small by exact Hd. unfold shl64.
    destruct (64 <=? 64 - 4 * d) eqn:E1; [apply N.leb_le in E1; lia|].
    cbn [bind]. f_equal. rewrite land_himask by (try exact Hk; lia).
    rewrite N.shiftl_mul_pow2, N.shiftr_div_pow2, P_pow2 by exact Hd. reflexivity.
Qed.

Lemma idx_of_ok k d : d <= 15 -> idx_of k d = Ok (idxP k d).
Proof.
  intros Hd. unfold idx_of. rewrite sub32_small by lia. unfold shr64.
  destruct (64 <=? 64 - 4 * (d + 1)) eqn:E1; [apply N.leb_le in E1; lia|].
  cbn [bind]. f_equal. change 15 with (N.ones 4). rewrite N.land_ones.
  rewrite N.shiftr_div_pow2, P_pow2 by lia. reflexivity.
Qed.

(* the unfixed code (D03): pfx_of without the d = 0 guard shifts by 64 *)
Lemma D03_unguarded_shift_is_ub : shl64 ones64 (sub32 64 (u32 (0 * 4))) = UB UShift.
Proof. reflexivity. Qed.

(* mask bits *)
Lemma testbit_bit a b : N.testbit (N.shiftl 1 a) b = (a =? b).
Proof. rewrite N.shiftl_1_l. apply N.pow2_bits_eqb. Qed.

Lemma testbit_set m a b : N.testbit (N.lor m (N.shiftl 1 a)) b = N.testbit m b || (a =? b).
Proof. rewrite N.lor_spec, testbit_bit. reflexivity. Qed.

Lemma testbit_clear m a b : N.testbit (clear_bit m a) b = N.testbit m b && negb (a =? b).
Proof. unfold clear_bit. rewrite N.ldiff_spec, testbit_bit. reflexivity. Qed.

(* ---------------------------------------------------------------- the case-2 loop *)
Lemma hi_ge16 k d : 16 <= d -> hi k d = k.
Proof. intros H. unfold hi, P. replace (16 - d) with 0 by lia. apply N.div_1_r. Qed.

Lemma agree_lt k sp sd d0 : sd <= 15 -> hi k sd <> hi sp sd -> hi k d0 = hi sp d0 -> d0 < sd.
Proof.
  intros Hsd Hne Hag. destruct (N.lt_ge_cases d0 sd) as [L|G]; [exact L|]. exfalso. apply Hne.
  destruct (N.le_gt_cases d0 16) as [L16|G16].
  - apply (hi_mono sd d0); [exact G | exact L16 | exact Hag].
  - rewrite !hi_ge16 in Hag by lia. rewrite Hag. reflexivity.
Qed.

Lemma split_loop_ok k sp sd : k < K64 -> sp < K64 -> sd <= 15 -> hi k sd <> hi sp sd ->
  forall f d0, hi k d0 = hi sp d0 -> (f + N.to_nat d0 >= 17)%nat ->
  exists d, split_loop f k sp d0 = Ok d /\ d0 <= d /\ d < sd /\ hi k d = hi sp d /\ hi k (d + 1) <> hi sp (d + 1).
Proof.
  intros Hk Hsp Hsd Hne. induction f as [|f IH]; intros d0 Hag Hf.
  - exfalso. pose proof (agree_lt k sp sd d0 Hsd Hne Hag). lia.
  - pose proof (agree_lt k sp sd d0 Hsd Hne Hag) as Hlt.
    cbn [split_loop]. rewrite !pfx_of_ok by (try assumption; lia). cbn [bind].
    destruct (pfxP k (d0 + 1) =? pfxP sp (d0 + 1)) eqn:E.
    + apply N.eqb_eq in E. apply pfx_eq_iff in E.
      destruct (IH (d0 + 1) E ltac:(lia)) as (d & R & A & B & C & D).
      exists d. repeat split; try assumption. lia.
    + apply N.eqb_neq in E. exists d0. repeat split; try assumption; try lia.
      intros E'. apply E. apply pfx_eq_iff. exact E'.
Qed.
