(* Second invariant: parent pointers mirror the links (needed by iteration and by the destructor),
   every inner node has a child, and every node hangs below the root. *)
From Coq Require Import List NArith Arith Bool Lia ZifyBool ZifyNat ZifyN.
From FV Require Import Common.EventLog Radix.RadixModel Radix.RadixBits Radix.RadixInv Radix.RadixExec
  Radix.RadixSem Radix.RadixFind Radix.RadixPres Radix.RadixSpec Radix.RadixHist.
Import ListNotations.
Local Open Scope N_scope.

Arguments pfxP : simpl never.
Arguments idxP : simpl never.

Record Shape (H : list node) (rt : option nat) : Prop := mk_Shape {
  sh_parent : forall i nd p, nth_error H i = Some nd -> n_parent nd = Some p ->
      exists x d par ls, nth_error H p = Some (Link x d par ls) /\
                         nth (N.to_nat (idxP (n_prefix nd) d)) ls None = Some i;
  sh_root : forall i nd, nth_error H i = Some nd -> n_parent nd = None -> rt = Some i;
  sh_child : forall p x d par ls, nth_error H p = Some (Link x d par ls) -> exists j c, nth j ls None = Some c
}.

Lemma Shape_st0 : Shape [] None.
Proof.
  constructor.
  - intros [|i] nd p G; discriminate.
  - intros [|i] nd G; discriminate.
  - intros [|p] x d par ls G; discriminate.
Qed.

(* ---------------------------------------------------------------- exact description of the new heaps *)
Definition cell_set (p : option nat) (i : nat) (j : N) (c : nat) (nd : node) : node :=
  match p with
  | Some pi => if Nat.eqb pi i then set_link_at j (Some c) nd else nd
  | None => nd
  end.

Lemma case1_old H k v p i nd : nth_error H i = Some nd ->
  nth_error (case1_heap H k v p) i = Some (cell_set p i (cell_idx H k p) (length H) nd).
Proof.
  intros G. assert (L : (i < length H)%nat) by (apply nth_error_Some; congruence).
  unfold case1_heap. rewrite nth_error_app1 by (rewrite publish_heap_length; exact L).
  rewrite publish_lookup, G. unfold cell_set. destruct p as [pi|]; [destruct (Nat.eqb pi i)|]; reflexivity.
Qed.

Lemma case1_dom H k v p i nd : nth_error (case1_heap H k v p) i = Some nd ->
  (exists nd0, nth_error H i = Some nd0) \/ (i = length H /\ nd = new_entry k v p).
Proof.
  intros G. destruct (Nat.lt_ge_cases i (length H)) as [L|L].
  - left. destruct (nth_error H i) eqn:E; [eauto|apply nth_error_None in E; lia].
  - right. assert (i < length (case1_heap H k v p))%nat by (apply nth_error_Some; congruence).
    unfold case1_heap in H0. rewrite app_length, publish_heap_length in H0. cbn in H0.
    assert (i = length H) by lia. subst i. rewrite case1_new_node in G. injection G as <-. auto.
Qed.

Lemma case2_old H k v p si sp d i nd : nth_error H i = Some nd ->
  nth_error (case2_heap H k v p si sp d) i =
    Some (cell_set p i (cell_idx (upd H si (set_parent (Some (S (length H))))) k p) (S (length H))
            (if Nat.eqb si i then set_parent (Some (S (length H))) nd else nd)).
Proof.
  intros G. assert (L : (i < length H)%nat) by (apply nth_error_Some; congruence).
  unfold case2_heap. rewrite nth_error_app1 by (rewrite publish_heap_length, length_upd; exact L).
  rewrite publish_lookup, nth_error_upd, G. unfold cell_set.
  destruct p as [pi|]; [destruct (Nat.eqb pi i)|]; destruct (Nat.eqb si i); reflexivity.
Qed.

Lemma case2_dom H k v p si sp d i nd : nth_error (case2_heap H k v p si sp d) i = Some nd ->
  (exists nd0, nth_error H i = Some nd0) \/
  (i = length H /\ nd = new_entry k v (Some (S (length H)))) \/
  (i = S (length H) /\ nd = new_link k sp d p (length H) si).
Proof.
  intros G. destruct (Nat.lt_ge_cases i (length H)) as [L|L].
  - left. destruct (nth_error H i) eqn:E; [eauto|apply nth_error_None in E; lia].
  - right. assert (i < length (case2_heap H k v p si sp d))%nat by (apply nth_error_Some; congruence).
    unfold case2_heap in H0. rewrite app_length, publish_heap_length, length_upd in H0. cbn in H0.
    assert (i = length H \/ i = S (length H)) as [->| ->] by lia.
    + left. rewrite case2_new_entry in G. injection G as <-. auto.
    + right. rewrite case2_new_link in G. injection G as <-. auto.
Qed.

Lemma cell_idx_similar H H1 k p : similar H H1 -> cell_idx H1 k p = cell_idx H k p.
Proof.
  intros [SL SS]. destruct p as [pi|]; cbn [cell_idx]; [|reflexivity].
  destruct (nth_error H pi) as [pn|] eqn:G.
  - destruct (SS pi pn G) as (pn1 & G1 & (_ & E & _) & _). rewrite G1, E. reflexivity.
  - destruct (nth_error H1 pi) eqn:G1; [|reflexivity].
    assert (pi < length H1)%nat by (apply nth_error_Some; congruence).
    apply nth_error_None in G. lia.
Qed.

Lemma cell_set_pdp p i j c nd : n_prefix (cell_set p i j c nd) = n_prefix nd /\ n_depth (cell_set p i j c nd) = n_depth nd /\
  n_parent (cell_set p i j c nd) = n_parent nd.
Proof. unfold cell_set. destruct p as [pi|]; [destruct (Nat.eqb pi i)|]; destruct nd; repeat split. Qed.

(* ---------------------------------------------------------------- preservation *)
Lemma shape_case1 H rt k v p : Inv H rt -> Shape H rt -> k < K64 -> Walk H k None rt (FCase1 p) ->
  Shape (case1_heap H k v p) (publish_root rt p (length H)).
Proof.
  intros I Sh Hk W.
  pose proof (case1_parent _ _ _ _ W) as Hp.
  constructor.
  - (* parents *)
    intros i nd q G Hq. destruct (case1_dom _ _ _ _ _ _ G) as [(nd0 & G0)|(-> & ->)].
    + rewrite (case1_old _ k v p _ _ G0) in G. injection G as <-.
      destruct (cell_set_pdp p i (cell_idx H k p) (length H) nd0) as (E1 & _ & E3). rewrite E1. rewrite E3 in Hq.
      destruct (sh_parent _ _ Sh _ _ _ G0 Hq) as (x & d & par & ls & Gq & Hl).
      rewrite (case1_old _ k v p _ _ Gq). unfold cell_set.
      destruct p as [pi|]; [destruct (Nat.eqb_spec pi q) as [->|]|]; try (eexists _, _, _, _; split; [reflexivity|exact Hl]).
      cbn [set_link_at]. eexists _, _, _, _. split; [reflexivity|].
      rewrite nth_upd. destruct (Hp q eq_refl) as (pn & Gp & _ & _ & Hc & _). rewrite Gq in Gp. injection Gp as <-.
      cbn [cell_idx n_depth n_links] in *. rewrite Gq. cbn [n_depth].
      destruct (Nat.eqb_spec (N.to_nat (idxP k d)) (N.to_nat (idxP (n_prefix nd0) d))) as [E|]; [|exact Hl].
      rewrite <- E, Hc in Hl. discriminate.
    + cbn [new_entry n_parent n_prefix] in *. subst p.
      destruct (Hp q eq_refl) as (pn & Gp & Hent & Hm & Hc & _).
      pose proof (inv_ok _ _ I _ _ Gp) as Okp. pose proof (node_ok_link _ Okp Hent) as Hpd.
      destruct pn as [x d par ls|]; [|discriminate]. cbn [n_depth n_links n_prefix] in *.
      rewrite (case1_old _ k v (Some q) _ _ Gp). unfold cell_set. rewrite Nat.eqb_refl. cbn [set_link_at].
      eexists _, _, _, _. split; [reflexivity|].
      cbn [cell_idx]. rewrite Gp. cbn [n_depth]. rewrite idx_pfx by lia.
      rewrite nth_upd, Nat.eqb_refl. destruct Okp as (_ & _ & _ & L). rewrite L, to_nat_ltb16 by apply idx_lt. reflexivity.
  - (* root *)
    intros i nd G Hq. destruct (case1_dom _ _ _ _ _ _ G) as [(nd0 & G0)|(-> & ->)].
    + rewrite (case1_old _ k v p _ _ G0) in G. injection G as <-.
      destruct (cell_set_pdp p i (cell_idx H k p) (length H) nd0) as (_ & _ & E3). rewrite E3 in Hq.
      pose proof (sh_root _ _ Sh _ _ G0 Hq) as Er.
      destruct p as [pi|]; [exact Er|].
      pose proof (walk_top_immediate _ _ _ _ W eq_refl) as Ert. cbn in Ert. congruence.
    + cbn [new_entry n_parent] in Hq. subst p. reflexivity.
  - (* children *)
    intros q x d par ls G. destruct (case1_dom _ _ _ _ _ _ G) as [(nd0 & G0)|(-> & E)]; [|discriminate].
    rewrite (case1_old _ k v p _ _ G0) in G. injection G as G. unfold cell_set in G.
    destruct p as [pi|]; [destruct (Nat.eqb_spec pi q) as [->|]|].
    + destruct nd0 as [x0 d0 par0 ls0|]; [|discriminate]. cbn [set_link_at] in G. injection G as <- <- <- <-.
      pose proof (inv_ok _ _ I _ _ G0) as (_ & _ & _ & L).
      exists (N.to_nat (cell_idx H k (Some q))), (length H). rewrite nth_upd, Nat.eqb_refl, L.
      cbn [cell_idx]. rewrite G0. rewrite to_nat_ltb16 by apply idx_lt. reflexivity.
    + subst nd0. exact (sh_child _ _ Sh _ _ _ _ _ G0).
    + subst nd0. exact (sh_child _ _ Sh _ _ _ _ _ G0).
Qed.

Lemma shape_case2 H rt k v p si sn d : Inv H rt -> Shape H rt -> k < K64 -> Walk H k None rt (FCase2 p si) ->
  nth_error H si = Some sn -> d < n_depth sn -> hi k d = hi (n_prefix sn) d -> hi k (d + 1) <> hi (n_prefix sn) (d + 1) ->
  (forall pi pn, p = Some pi -> nth_error H pi = Some pn -> n_depth pn < d) ->
  Shape (case2_heap H k v p si (n_prefix sn) d) (publish_root rt p (S (length H))).
Proof.
  intros I Sh Hk W Gs Hd Hag Hdis Habove.
  pose proof (case2_parent _ _ _ _ _ W) as Hp.
  pose proof (node_ok_depth _ (inv_ok _ _ I _ _ Gs)) as Hsd0.
  assert (Sim : similar H (upd H si (set_parent (Some (S (length H)))))) by apply similar_set_parent.
  assert (Hik : idxP k d <> idxP (n_prefix sn) d).
  { intros E. apply Hdis. pose proof (node_ok_depth _ (inv_ok _ _ I _ _ Gs)). apply hi_S_iff; [lia|]. split; assumption. }
  (* the parent of si in the old heap is p (or si is the root) *)
  assert (Hsp : n_parent sn = p).
  { destruct p as [pi|].
    - destruct (Hp pi eq_refl) as (pn & Gp & Hent & _ & Hc & _).
      destruct pn as [x dp par ls|]; [|discriminate]. cbn [n_links n_depth] in *.
      destruct (inv_link _ _ I _ _ _ _ _ _ _ Gp Hc) as (cn & Gc & _ & _ & _ & D). rewrite Gs in Gc. injection Gc as <-. exact D.
    - pose proof (walk_top_immediate _ _ _ _ W eq_refl) as Ert. cbn in Ert.
      destruct (inv_root _ _ I si Ert) as (rn & Grn & Hpar). rewrite Gs in Grn. injection Grn as <-. exact Hpar. }
  constructor.
  - intros i nd q G Hq. destruct (case2_dom _ _ _ _ _ _ _ _ _ G) as [(nd0 & G0)|[(-> & ->)|(-> & ->)]].
    + rewrite (case2_old _ k v p si _ d _ _ G0) in G. injection G as <-.
      rewrite (cell_idx_similar _ _ k p Sim) in *.
      destruct (cell_set_pdp p i (cell_idx H k p) (S (length H)) (if Nat.eqb si i then set_parent (Some (S (length H))) nd0 else nd0)) as (E1 & _ & E3).
      rewrite E1. rewrite E3 in Hq. clear E1 E3.
      destruct (Nat.eqb_spec si i) as [<-|Hne].
      * (* the displaced child: its parent is now (S (length H)) *)
        rewrite Gs in G0. injection G0 as <-.
        assert (q = (S (length H))) by (destruct sn; cbn in Hq; congruence). subst q.
        assert (Epx : n_prefix (set_parent (Some (S (length H))) sn) = n_prefix sn) by (destruct sn; reflexivity). rewrite Epx.
        rewrite case2_new_link. unfold new_link. eexists _, _, _, _. split; [reflexivity|].
        rewrite nth_upd, Nat.eqb_refl, length_upd, repeat_length, to_nat_ltb16 by apply idx_lt. reflexivity.
      * destruct (sh_parent _ _ Sh _ _ _ G0 Hq) as (x & dq & par & ls & Gq & Hl).
        rewrite (case2_old _ k v p si _ d _ _ Gq). rewrite (cell_idx_similar _ _ k p Sim).
        assert (Eq' : exists par', (if Nat.eqb si q then set_parent (Some (S (length H))) (Link x dq par ls) else Link x dq par ls) = Link x dq par' ls).
        { destruct (Nat.eqb si q); cbn [set_parent]; eauto. }
        destruct Eq' as (par' & ->). unfold cell_set.
        destruct p as [pi|]; [destruct (Nat.eqb_spec pi q) as [->|]|]; try (eexists _, _, _, _; split; [reflexivity|exact Hl]).
        cbn [set_link_at]. eexists _, _, _, _. split; [reflexivity|].
        rewrite nth_upd. destruct (Hp q eq_refl) as (pn & Gp & _ & _ & Hc & _). rewrite Gq in Gp. injection Gp as <-.
        cbn [cell_idx n_depth n_links] in *. rewrite Gq. cbn [n_depth].
        destruct (Nat.eqb_spec (N.to_nat (idxP k dq)) (N.to_nat (idxP (n_prefix nd0) dq))) as [E|]; [|exact Hl].
        rewrite <- E, Hc in Hl. injection Hl as ->. contradiction.
    + cbn [new_entry n_parent n_prefix] in *. injection Hq as <-.
      rewrite case2_new_link. unfold new_link. eexists _, _, _, _. split; [reflexivity|].
      pose proof (node_ok_depth _ (inv_ok _ _ I _ _ Gs)) as Hsd. rewrite idx_pfx by lia.
      rewrite nth_upd, length_upd, repeat_length, to_nat_eqb, to_nat_ltb16 by apply idx_lt.
      destruct (N.eqb_spec (idxP (n_prefix sn) d) (idxP k d)) as [E|_]; [exfalso; apply Hik; symmetry; exact E|].
      cbn [andb]. rewrite nth_upd, Nat.eqb_refl, repeat_length, to_nat_ltb16 by apply idx_lt. reflexivity.
    + cbn [new_link n_parent n_prefix] in *. clear Hsp. subst p.
      destruct (Hp q eq_refl) as (pn & Gp & Hent & Hm & Hc & _).
      pose proof (inv_ok _ _ I _ _ Gp) as Okp. pose proof (node_ok_link _ Okp Hent) as Hpd.
      pose proof (Habove q pn eq_refl Gp) as Hab.
      destruct pn as [x dp par ls|]; [|discriminate]. cbn [n_depth n_links n_prefix] in *.
      rewrite (case2_old _ k v (Some q) si _ d _ _ Gp). rewrite (cell_idx_similar _ _ k (Some q) Sim).
      assert (Eq' : exists par', (if Nat.eqb si q then set_parent (Some (S (length H))) (Link x dp par ls) else Link x dp par ls) = Link x dp par' ls).
      { destruct (Nat.eqb si q); cbn [set_parent]; eauto. }
      destruct Eq' as (par' & ->). unfold cell_set. rewrite Nat.eqb_refl. cbn [set_link_at].
      eexists _, _, _, _. split; [reflexivity|].
      cbn [cell_idx]. rewrite Gp. cbn [n_depth]. rewrite idx_pfx by lia.
      rewrite nth_upd, Nat.eqb_refl. destruct Okp as (_ & _ & _ & L). rewrite L, to_nat_ltb16 by apply idx_lt. reflexivity.
  - intros i nd G Hq. destruct (case2_dom _ _ _ _ _ _ _ _ _ G) as [(nd0 & G0)|[(-> & ->)|(-> & ->)]].
    + rewrite (case2_old _ k v p si _ d _ _ G0) in G. injection G as <-.
      destruct (cell_set_pdp p i (cell_idx (upd H si (set_parent (Some (S (length H))))) k p) (S (length H)) (if Nat.eqb si i then set_parent (Some (S (length H))) nd0 else nd0)) as (_ & _ & E3).
      rewrite E3 in Hq. clear E3.
      destruct (Nat.eqb_spec si i) as [<-|Hne]; [destruct nd0; discriminate|].
      pose proof (sh_root _ _ Sh _ _ G0 Hq) as Er.
      destruct p as [pi|]; [exact Er|].
      pose proof (walk_top_immediate _ _ _ _ W eq_refl) as Ert. cbn in Ert. congruence.
    + discriminate.
    + cbn [new_link n_parent] in Hq. clear Hsp. subst p. reflexivity.
  - intros q x dq par ls G. destruct (case2_dom _ _ _ _ _ _ _ _ _ G) as [(nd0 & G0)|[(-> & E)|(-> & E)]]; [|discriminate|].
    + rewrite (case2_old _ k v p si _ d _ _ G0) in G. injection G as G.
      rewrite (cell_idx_similar _ _ k p Sim) in G.
      assert (Eq' : exists par0 ls0, nd0 = Link x dq par0 ls0 /\
                 ls = match p with Some pi => if Nat.eqb pi q then upd ls0 (N.to_nat (cell_idx H k p)) (fun _ => Some (S (length H))) else ls0 | None => ls0 end).
      { unfold cell_set in G. destruct nd0 as [x0 d0 par0 ls0|x0 d0 par0 m0 sl0].
        - exists par0, ls0.
          destruct p as [pi|]; [destruct (Nat.eqb pi q)|]; destruct (Nat.eqb si q); cbn in G; injection G as <- <- _ <-; auto.
        - destruct p as [pi|]; [destruct (Nat.eqb pi q)|]; destruct (Nat.eqb si q); cbn in G; discriminate. }
      destruct Eq' as (par0 & ls0 & -> & ->).
      destruct (sh_child _ _ Sh _ _ _ _ _ G0) as (j & c & Hj).
      destruct p as [pi|]; [destruct (Nat.eqb_spec pi q) as [->|]|]; try (exists j, c; exact Hj).
      pose proof (inv_ok _ _ I _ _ G0) as (_ & _ & _ & L).
      exists (N.to_nat (cell_idx H k (Some q))), (S (length H)). rewrite nth_upd, Nat.eqb_refl, L.
      cbn [cell_idx]. rewrite G0. rewrite to_nat_ltb16 by apply idx_lt. reflexivity.
    + assert (EL : ls = n_links (new_link k (n_prefix sn) d p (length H) si)) by (rewrite <- E; reflexivity).
      rewrite EL. cbv beta iota delta [n_links new_link].
      exists (N.to_nat (idxP (n_prefix sn) d)), si.
      rewrite nth_upd, Nat.eqb_refl, length_upd, repeat_length, to_nat_ltb16 by apply idx_lt. reflexivity.
Qed.

Lemma shape_upd_entry H rt e f : Shape H rt ->
  (forall nd, n_prefix (f nd) = n_prefix nd /\ n_depth (f nd) = n_depth nd /\ n_parent (f nd) = n_parent nd /\
              n_links (f nd) = n_links nd /\ is_entry (f nd) = is_entry nd /\ (node_ok nd -> node_ok (f nd))) ->
  Shape (upd H e f) rt.
Proof.
  intros Sh Hf.
  assert (Back : forall i nd', nth_error (upd H e f) i = Some nd' -> exists nd, nth_error H i = Some nd /\
             n_prefix nd' = n_prefix nd /\ n_parent nd' = n_parent nd /\ n_links nd' = n_links nd /\ is_entry nd' = is_entry nd /\
             n_depth nd' = n_depth nd).
  { intros i nd' G. rewrite nth_error_upd in G. destruct (nth_error H i) as [nd|] eqn:G0; [|destruct (Nat.eqb e i); discriminate].
    exists nd. split; [reflexivity|]. destruct (Nat.eqb e i); cbn [option_map] in G; injection G as <-.
    - destruct (Hf nd) as (A & B & C & D & E & _). auto.
    - auto. }
  assert (Fwd : forall q x d par ls, nth_error H q = Some (Link x d par ls) -> nth_error (upd H e f) q = Some (Link x d par ls)).
  { intros q x d par ls G. rewrite nth_error_upd, G. destruct (Nat.eqb e q); [|reflexivity]. cbn [option_map]. f_equal.
    destruct (Hf (Link x d par ls)) as (A & B & C & D & E & _). destruct (f (Link x d par ls)); cbn in *; [congruence|discriminate]. }
  constructor.
  - intros i nd' p G Hq. destruct (Back i nd' G) as (nd & G0 & A & B & _). rewrite A. rewrite B in Hq.
    destruct (sh_parent _ _ Sh _ _ _ G0 Hq) as (x & d & par & ls & Gq & Hl). exists x, d, par, ls. split; [apply Fwd; exact Gq|exact Hl].
  - intros i nd' G Hq. destruct (Back i nd' G) as (nd & G0 & _ & B & _). rewrite B in Hq. exact (sh_root _ _ Sh _ _ G0 Hq).
  - intros q x d par ls G. destruct (Back q _ G) as (nd & G0 & A & B & C & D & E). cbn in *.
    destruct nd as [x0 d0 par0 ls0|]; [|discriminate]. cbn in C. subst ls0. exact (sh_child _ _ Sh _ _ _ _ _ G0).
Qed.
