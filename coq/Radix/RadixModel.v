(* Executable model of frg::rcu_radixtree (include/frg/rcu_radixtree.hpp) AS IT IS in /repo.
   Definitions only (proofs are in RadixProofs*.v).

   Heap: append-only list of nodes, index = node id = allocation order.  A value's address is
   (entry id, slot index).  Every WRITER operation (find_or_insert / insert / erase) is a PROGRAM:
   a list of micro-steps in the store order of the source plus a terminal outcome; the
   sequential operation is the program run to completion ([run_prog]).  The program is computed
   from the state at the start of the operation (the writer is the only thread that changes the
   tree, so its own loads always see that state); a concurrent layer (C10) interleaves the
   micro-steps of [fst (foi_prog ...)] / [fst (erase_prog ...)] with reader steps.

   Outcomes (DESIGN 3.1): Ok | AssertStop (FRG_ASSERT) | UB (shift count >= 64, bad pointer,
   wrong static_cast, use after free) | OutOfFuel. *)
From Coq Require Import List NArith Arith Bool.
From FV Require Import Common.EventLog.
Import ListNotations.
Local Open Scope N_scope.

Inductive stopwhy :=
| AInsertPresent                    (* insert(): FRG_ASSERT(ins.get<1>()) *)
| AEraseNull | AErasePrefix | AEraseMask
| ASplitAbove                       (* FRG_ASSERT(!p || d > p->depth) *)
| ASplitBelow                       (* FRG_ASSERT(d < s->depth) *)
| ASplitIdx                         (* FRG_ASSERT(idx_of(k, d) != idx_of(s->prefix, d)) *)
| AFirstLeafEmpty                   (* first_leaf: FRG_ASSERT(m) *)
| ANextLeafNoIdx                    (* next_leaf: FRG_ASSERT(pidx < 16) *)
| AIncrEnd.                         (* iterator::operator++: FRG_ASSERT(_idx < 16) *)
Inductive ubwhy := UShift | UBadPtr | UBadCast | UNullDeref | UUseAfterFree | URawSlot | UBadIndex.
Inductive outcome (A : Type) :=
| Ok (a : A) | AssertStop (w : stopwhy) | UB (w : ubwhy) | OutOfFuel.
Arguments Ok {A} a. Arguments AssertStop {A} w. Arguments UB {A} w. Arguments OutOfFuel {A}.

Definition bind {A B} (o : outcome A) (f : A -> outcome B) : outcome B :=
  match o with Ok a => f a | AssertStop w => AssertStop w | UB w => UB w | OutOfFuel => OutOfFuel end.
Notation "x <- e ;; f" := (bind e (fun x => f)) (at level 61, e at next level, right associativity).
Definition assert (b : bool) (w : stopwhy) : outcome unit := if b then Ok tt else AssertStop w.

(* ---------------------------------------------------------------- machine arithmetic *)
Definition two32 : N := 4294967296.
Definition ones64 : N := 18446744073709551615.
Definition u32 (x : N) : N := x mod two32.
Definition sub32 (a b : N) : N := (a + two32 - b mod two32) mod two32.     (* unsigned int a - b *)
(* uint64_t x << sh, x >> sh: undefined for sh >= 64 *)
Definition shl64 (x sh : N) : outcome N := if 64 <=? sh then UB UShift else Ok (N.land (N.shiftl x sh) ones64).
Definition shr64 (x sh : N) : outcome N := if 64 <=? sh then UB UShift else Ok (N.shiftr x sh).

Definition ll : N := 15.

(* uint64_t pfx_of(uint64_t k, unsigned d) { if(!d) return 0; return k & (uint64_t(-1) << (64 - d * 4)); }
   (the d == 0 guard is the D03 fix, /repo commit ab9d154; without it the shift count is 64: UB) *)
Definition pfx_of (k d : N) : outcome N :=
  if d =? 0 then Ok 0 else
  m <- shl64 ones64 (sub32 64 (u32 (d * 4))) ;; Ok (N.land k m).
(* unsigned idx_of(uint64_t k, unsigned d) { return (k >> (64 - (d + 1) * 4) & 0xF); } *)
Definition idx_of (k d : N) : outcome N :=
  x <- shr64 k (sub32 64 (u32 ((d + 1) * 4))) ;; Ok (N.land x 15).

(* ---------------------------------------------------------------- heap *)
Inductive node :=
| Link (prefix depth : N) (parent : option nat) (links : list (option nat))
| Entry (prefix depth : N) (parent : option nat) (mask : N) (slots : list (option N)).

Definition n_prefix (n : node) : N := match n with Link p _ _ _ => p | Entry p _ _ _ _ => p end.
Definition n_depth (n : node) : N := match n with Link _ d _ _ => d | Entry _ d _ _ _ => d end.
Definition n_parent (n : node) : option nat := match n with Link _ _ p _ => p | Entry _ _ p _ _ => p end.
Definition set_prefix (v : N) (n : node) : node :=
  match n with Link _ d p l => Link v d p l | Entry _ d p m s => Entry v d p m s end.
Definition set_depth (v : N) (n : node) : node :=
  match n with Link x _ p l => Link x v p l | Entry x _ p m s => Entry x v p m s end.
Definition set_parent (v : option nat) (n : node) : node :=
  match n with Link x d _ l => Link x d v l | Entry x d _ m s => Entry x d v m s end.

Fixpoint upd {A} (l : list A) (i : nat) (f : A -> A) : list A :=
  match l, i with
  | [], _ => []
  | x :: r, O => f x :: r
  | x :: r, S j => x :: upd r j f
  end.

(* value-initialised nodes, as construct<entry_node>() / construct<link_node>() leave them *)
Definition zero_entry : node := Entry 0 0 None 0 (repeat None 16).
Definition zero_link : node := Link 0 0 None (repeat None 16).

Record st := mk_st {
  nodes : list node;
  root : option nat;
  rlog : list ev            (* lifetime/allocation events, most recent first *)
}.
Definition st0 : st := mk_st [] None [].
Definition elog (s : st) : list ev := rev (rlog s).
Definition blk (n : nat) : nat := S n.          (* block id of node n in the event log (0 = owner) *)

(* ---------------------------------------------------------------- micro-steps of the writer *)
Inductive morder := Relaxed | Acquire | Release.
Inductive mstep :=
| MAllocEntry (sz : N)                              (* construct<entry_node>(_allocator) *)
| MAllocLink (sz : N)                               (* construct<link_node>(_allocator) *)
| MSetPrefix (n : nat) (v : N)                      (* n->prefix = v      (non-atomic) *)
| MSetDepth (n : nat) (v : N)                       (* n->depth = v       (non-atomic) *)
| MSetParent (n : nat) (p : option nat)             (* n->parent = p      (non-atomic) *)
| MStoreMask (n : nat) (v : N) (o : morder)         (* n->mask.store(v, o) *)
| MConstruct (n : nat) (i : N) (v : N)              (* new (n->entries[i].buffer) T{v} *)
| MStoreLink (n : nat) (i : N) (c : option nat) (o : morder)   (* n->links[i].store(c, o) *)
| MStoreRoot (c : option nat) (o : morder).         (* _root.store(c, o) *)

(* the node a step writes to (None: allocation / root cell) *)
Definition step_target (m : mstep) : option nat :=
  match m with
  | MAllocEntry _ | MAllocLink _ | MStoreRoot _ _ => None
  | MSetPrefix n _ | MSetDepth n _ | MSetParent n _ | MStoreMask n _ _ | MConstruct n _ _
  | MStoreLink n _ _ _ => Some n
  end.
(* what the step does to that node; a field that does not exist in the node's dynamic type is a
   wrong static_cast *)
Definition step_node (m : mstep) (nd : node) : outcome node :=
  match m with
  | MSetPrefix _ v => Ok (set_prefix v nd)
  | MSetDepth _ v => Ok (set_depth v nd)
  | MSetParent _ p => Ok (set_parent p nd)
  | MStoreMask _ v _ =>
      match nd with Entry x d p _ sl => Ok (Entry x d p v sl) | Link _ _ _ _ => UB UBadCast end
  | MConstruct _ i v =>
      match nd with
      | Entry x d p m sl =>
          if 16 <=? i then UB UBadIndex else Ok (Entry x d p m (upd sl (N.to_nat i) (fun _ => Some v)))
      | Link _ _ _ _ => UB UBadCast end
  | MStoreLink _ i c _ =>
      match nd with
      | Link x d p l => if 16 <=? i then UB UBadIndex else Ok (Link x d p (upd l (N.to_nat i) (fun _ => c)))
      | Entry _ _ _ _ _ => UB UBadCast end
  | _ => Ok nd
  end.
Definition step_events (m : mstep) : list ev :=
  match m with MConstruct n i _ => [EConstruct (blk n, N.to_nat i)] | _ => [] end.

Definition apply_step (s : st) (m : mstep) : outcome st :=
  match m with
  | MAllocEntry sz =>
      Ok (mk_st (nodes s ++ [zero_entry]) (root s) (EAlloc (blk (length (nodes s))) sz :: rlog s))
  | MAllocLink sz =>
      Ok (mk_st (nodes s ++ [zero_link]) (root s) (EAlloc (blk (length (nodes s))) sz :: rlog s))
  | MStoreRoot c _ => Ok (mk_st (nodes s) c (rlog s))
  | _ =>
      match step_target m with
      | None => Ok s
      | Some n =>
          match nth_error (nodes s) n with
          | None => UB UBadPtr
          | Some nd =>
              nd' <- step_node m nd ;;
              Ok (mk_st (upd (nodes s) n (fun _ => nd')) (root s) (step_events m ++ rlog s))
          end
      end
  end.

(* a program: micro-steps issued so far + how the operation ends *)
Definition prog (A : Type) : Type := (list mstep * outcome A)%type.
Definition pret {A} (a : A) : prog A := ([], Ok a).
Definition pbind {A B} (p : prog A) (f : A -> prog B) : prog B :=
  match p with
  | (l, Ok a) => let '(l2, r) := f a in (l ++ l2, r)
  | (l, AssertStop w) => (l, AssertStop w)
  | (l, UB w) => (l, UB w)
  | (l, OutOfFuel) => (l, OutOfFuel)
  end.
Definition emit (m : mstep) : prog unit := ([m], Ok tt).
Definition lift {A} (o : outcome A) : prog A := ([], o).
Notation "x <~ e ;; f" := (pbind e (fun x => f)) (at level 61, e at next level, right associativity).
Notation "e ;;; f" := (pbind e (fun _ => f)) (at level 61, right associativity).

Fixpoint run_steps (s : st) (l : list mstep) : outcome st :=
  match l with
  | [] => Ok s
  | m :: r => s' <- apply_step s m ;; run_steps s' r
  end.
(* the sequential operation = the program run to completion *)
Definition run_prog {A} (s : st) (p : prog A) : outcome (st * A) :=
  s' <- run_steps s (fst p) ;; a <- snd p ;; Ok (s', a).

(* ---------------------------------------------------------------- find (reader) *)
Definition addr := (nat * N)%type.

Fixpoint find_loop (f : nat) (H : list node) (k : N) (n : option nat) : outcome (option addr) :=
  match f with O => OutOfFuel | S f' =>
  match n with None => Ok None | Some i =>
  match nth_error H i with None => UB UBadPtr | Some nd =>
    px <- pfx_of k (n_depth nd) ;;
    if negb (px =? n_prefix nd) then Ok None else
    ix <- idx_of k (n_depth nd) ;;
    if n_depth nd =? ll then
      match nd with
      | Entry _ _ _ m _ => Ok (if N.testbit m ix then Some (i, ix) else None)
      | Link _ _ _ _ => UB UBadCast end
    else
      match nd with
      | Link _ _ _ ls => find_loop f' H k (nth (N.to_nat ix) ls None)
      | Entry _ _ _ _ _ => UB UBadCast end
  end end end.
Definition find (s : st) (k : N) : outcome (option addr) := find_loop 17 (nodes s) k (root s).

(* ---------------------------------------------------------------- find_or_insert (writer) *)
Inductive foi_stop :=
| FCase1 (p : option nat)                  (* empty cell under p (None: the root cell) *)
| FCase2 (p : option nat) (s : nat)        (* prefix of s does not match: split *)
| FCase3 (e : nat) (mask : N) (idx : N).   (* reached the leaf *)

Fixpoint foi_walk (f : nat) (H : list node) (k : N) (p s : option nat) : outcome foi_stop :=
  match f with O => OutOfFuel | S f' =>
  match s with None => Ok (FCase1 p) | Some si =>
  match nth_error H si with None => UB UBadPtr | Some nd =>
    px <- pfx_of k (n_depth nd) ;;
    if negb (px =? n_prefix nd) then Ok (FCase2 p si) else
    ix <- idx_of k (n_depth nd) ;;
    if n_depth nd =? ll then
      match nd with
      | Entry _ _ _ m _ => Ok (FCase3 si m ix)
      | Link _ _ _ _ => UB UBadCast end
    else
      match nd with
      | Link _ _ _ ls => foi_walk f' H k (Some si) (nth (N.to_nat ix) ls None)
      | Entry _ _ _ _ _ => UB UBadCast end
  end end end.

(* while(pfx_of(k, d + 1) == pfx_of(sp, d + 1)) d++; *)
Fixpoint split_loop (f : nat) (k sp d : N) : outcome N :=
  match f with O => OutOfFuel | S f' =>
    a <- pfx_of k (d + 1) ;; b <- pfx_of sp (d + 1) ;;
    if a =? b then split_loop f' k sp (d + 1) else Ok d
  end.

(* if(p) p->links[idx_of(k, p->depth)].store(c, release); else _root.store(c, release); *)
Definition publish (H : list node) (k : N) (p : option nat) (c : nat) : prog unit :=
  match p with
  | None => emit (MStoreRoot (Some c) Release)
  | Some pi =>
      match nth_error H pi with
      | None => lift (UB UBadPtr)
      | Some pn => ix <~ lift (idx_of k (n_depth pn)) ;; emit (MStoreLink pi ix (Some c) Release)
      end
  end.

Definition null_links (r : nat) : prog unit :=
  (fold_right (fun i acc => emit (MStoreLink r (N.of_nat i) None Relaxed) ;;; acc) (pret tt) (seq 0 16)).

Definition foi_prog (esz lsz : N) (s : st) (k v : N) : prog (addr * bool) :=
  let H := nodes s in
  stop <~ lift (foi_walk 17 H k None (root s)) ;;
  match stop with
  | FCase1 p =>
      let n := length H in
      emit (MAllocEntry esz) ;;;
      px <~ lift (pfx_of k ll) ;; emit (MSetPrefix n px) ;;;
      emit (MSetDepth n ll) ;;;
      emit (MSetParent n p) ;;;
      ix <~ lift (idx_of k ll) ;; emit (MStoreMask n (N.shiftl 1 ix) Relaxed) ;;;
      ix' <~ lift (idx_of k ll) ;; emit (MConstruct n ix' v) ;;;
      publish H k p n ;;;
      pret ((n, ix'), true)
  | FCase2 p si =>
      match nth_error H si with None => lift (UB UBadPtr) | Some sn =>
      let n := length H in
      let r := S (length H) in
      let sp := n_prefix sn in
      emit (MAllocEntry esz) ;;;
      emit (MAllocLink lsz) ;;;
      px <~ lift (pfx_of k ll) ;; emit (MSetPrefix n px) ;;;
      emit (MSetDepth n ll) ;;;
      emit (MSetParent n (Some r)) ;;;
      ix <~ lift (idx_of k ll) ;; emit (MStoreMask n (N.shiftl 1 ix) Relaxed) ;;;
      ix' <~ lift (idx_of k ll) ;; emit (MConstruct n ix' v) ;;;
      emit (MSetParent si (Some r)) ;;;
      d <~ lift (split_loop 17 k sp 0) ;;
      lift (match p with
            | None => Ok tt
            | Some pi => match nth_error H pi with
                         | None => UB UBadPtr
                         | Some pn => assert (n_depth pn <? d) ASplitAbove end
            end) ;;;
      lift (assert (d <? n_depth sn) ASplitBelow) ;;;
      ik <~ lift (idx_of k d) ;; is_ <~ lift (idx_of sp d) ;;
      lift (assert (negb (ik =? is_)) ASplitIdx) ;;;
      pd <~ lift (pfx_of k d) ;; emit (MSetPrefix r pd) ;;;
      emit (MSetDepth r d) ;;;
      emit (MSetParent r p) ;;;
      null_links r ;;;
      ik' <~ lift (idx_of k d) ;; emit (MStoreLink r ik' (Some n) Relaxed) ;;;
      is' <~ lift (idx_of sp d) ;; emit (MStoreLink r is' (Some si) Relaxed) ;;;
      publish H k p r ;;;
      pret ((n, ix'), true)
      end
  | FCase3 e m ix =>
      if N.testbit m ix then pret ((e, ix), false)
      else
        emit (MConstruct e ix v) ;;;
        emit (MStoreMask e (N.lor m (N.shiftl 1 ix)) Release) ;;;
        pret ((e, ix), true)
  end.

Definition find_or_insert (esz lsz : N) (s : st) (k v : N) : outcome (st * (addr * bool)) :=
  run_prog s (foi_prog esz lsz s k v).

(* T *insert(k, v) { auto ins = find_or_insert(k, v); FRG_ASSERT(ins.get<1>()); return ins.get<0>(); } *)
Definition insert_prog (esz lsz : N) (s : st) (k v : N) : prog addr :=
  r <~ foi_prog esz lsz s k v ;;
  lift (assert (snd r) AInsertPresent) ;;;
  pret (fst r).
Definition insert (esz lsz : N) (s : st) (k v : N) : outcome (st * addr) :=
  run_prog s (insert_prog esz lsz s k v).

(* ---------------------------------------------------------------- erase (writer) *)
Fixpoint erase_walk (f : nat) (H : list node) (k : N) (n : option nat) : outcome (nat * N * N) :=
  match f with O => OutOfFuel | S f' =>
  match n with None => AssertStop AEraseNull | Some i =>
  match nth_error H i with None => UB UBadPtr | Some nd =>
    px <- pfx_of k (n_depth nd) ;;
    if negb (px =? n_prefix nd) then AssertStop AErasePrefix else
    ix <- idx_of k (n_depth nd) ;;
    if n_depth nd =? ll then
      match nd with
      | Entry _ _ _ m _ => Ok (i, m, ix)
      | Link _ _ _ _ => UB UBadCast end
    else
      match nd with
      | Link _ _ _ ls => erase_walk f' H k (nth (N.to_nat ix) ls None)
      | Entry _ _ _ _ _ => UB UBadCast end
  end end end.

(* mask & ~(uint16_t(1) << idx), stored into a uint16_t *)
Definition clear_bit (m ix : N) : N := N.ldiff m (N.shiftl 1 ix).

Definition erase_prog (s : st) (k : N) : prog unit :=
  w <~ lift (erase_walk 17 (nodes s) k (root s)) ;;
  let '(e, m, ix) := w in
  lift (assert (N.testbit m ix) AEraseMask) ;;;
  emit (MStoreMask e (clear_bit m ix) Release).
Definition erase (s : st) (k : N) : outcome (st * unit) := run_prog s (erase_prog s k).

(* What the library leaves to the caller after erase (DESIGN C16): the value is still constructed;
   the caller, who kept the pointer from find, destroys it after the grace period. *)
Definition caller_destroy (s : st) (a : addr) : outcome st :=
  match nth_error (nodes s) (fst a) with
  | Some (Entry x d p m sl) =>
      match nth (N.to_nat (snd a)) sl None with
      | None => UB URawSlot
      | Some _ =>
          Ok (mk_st (upd (nodes s) (fst a) (fun _ => Entry x d p m (upd sl (N.to_nat (snd a)) (fun _ => None))))
                    (root s) (EDestroy (blk (fst a), N.to_nat (snd a)) :: rlog s))
      end
  | Some _ => UB UBadCast
  | None => UB UBadPtr
  end.

(* ---------------------------------------------------------------- iteration *)
Fixpoint first_some (l : list (option nat)) : option nat :=
  match l with [] => None | Some c :: _ => Some c | None :: r => first_some r end.

Fixpoint first_leaf_loop (f : nat) (H : list node) (i : nat) : outcome nat :=
  match f with O => OutOfFuel | S f' =>
  match nth_error H i with None => UB UBadPtr | Some nd =>
    if n_depth nd =? ll then
      match nd with Entry _ _ _ _ _ => Ok i | Link _ _ _ _ => UB UBadCast end
    else
      match nd with
      | Link _ _ _ ls =>
          match first_some ls with
          | None => AssertStop AFirstLeafEmpty
          | Some m => first_leaf_loop f' H m end
      | Entry _ _ _ _ _ => UB UBadCast end
  end end.
Definition first_leaf (H : list node) (n : option nat) : outcome (option nat) :=
  match n with None => Ok None | Some i => r <- first_leaf_loop 17 H i ;; Ok (Some r) end.

(* index of the first link equal to n *)
Fixpoint index_of (n : nat) (l : list (option nat)) : option nat :=
  match l with
  | [] => None
  | Some c :: r => if Nat.eqb c n then Some O else option_map S (index_of n r)
  | None :: r => option_map S (index_of n r)
  end.

Fixpoint next_leaf_loop (f : nat) (H : list node) (i : nat) : outcome (option nat) :=
  match f with O => OutOfFuel | S f' =>
  match nth_error H i with None => UB UBadPtr | Some nd =>
  match n_parent nd with None => Ok None | Some p =>
  match nth_error H p with
  | None => UB UBadPtr
  | Some (Entry _ _ _ _ _) => UB UBadCast           (* parent is typed link_node* *)
  | Some (Link _ _ _ ls) =>
      match index_of i ls with
      | None => AssertStop ANextLeafNoIdx
      | Some pidx =>
          match first_some (skipn (S pidx) ls) with
          | Some m => r <- first_leaf_loop 17 H m ;; Ok (Some r)
          | None => next_leaf_loop f' H p
          end
      end
  end end end end.
Definition next_leaf (H : list node) (i : nat) : outcome (option nat) := next_leaf_loop 17 H i.

Definition entry_mask (H : list node) (i : nat) : outcome N :=
  match nth_error H i with
  | Some (Entry _ _ _ m _) => Ok m
  | Some _ => UB UBadCast
  | None => UB UBadPtr end.

(* smallest set bit position p with from <= p < 16 *)
Fixpoint scan_bits (n : nat) (m : N) (from : N) : option N :=
  match n with O => None | S n' =>
    if 16 <=? from then None
    else if N.testbit m from then Some from else scan_bits n' m (from + 1)
  end.

Definition iter := (option nat * N)%type.
Definition iter_end : iter := (None, 16).

(* the loop of begin(): skip leaves whose mask is empty; fuel = number of nodes + 1 *)
Fixpoint begin_loop (f : nat) (H : list node) (n : option nat) : outcome iter :=
  match f with O => OutOfFuel | S f' =>
  match n with None => Ok iter_end | Some i =>
    m <- entry_mask H i ;;
    match scan_bits 16 m 0 with
    | Some ix => Ok (Some i, ix)
    | None => n' <- next_leaf H i ;; begin_loop f' H n'
    end
  end end.
Definition iter_begin (s : st) : outcome iter :=
  n <- first_leaf (nodes s) (root s) ;; begin_loop (S (length (nodes s))) (nodes s) n.

Fixpoint incr_loop (f : nat) (H : list node) (i : nat) (idx : N) : outcome iter :=
  match f with O => OutOfFuel | S f' =>
    m <- entry_mask H i ;;
    match scan_bits 16 m idx with
    | Some ix => Ok (Some i, ix)
    | None =>
        n' <- next_leaf H i ;;
        match n' with None => Ok (None, 16) | Some j => incr_loop f' H j 0 end
    end
  end.
Definition iter_next (s : st) (it : iter) : outcome iter :=
  _ <- assert (snd it <? 16) AIncrEnd ;;
  match fst it with
  | None => UB UNullDeref
  | Some i => incr_loop (S (length (nodes s))) (nodes s) i (snd it + 1)
  end.

(* for(it = begin(); it != end(); ++it) collect the address *)
Fixpoint iterate_loop (f : nat) (s : st) (it : iter) (acc : list addr) : outcome (list addr) :=
  match f with O => OutOfFuel | S f' =>
    match it with
    | (None, _) => Ok (rev acc)           (* == end() as _idx is 16 whenever _n is null *)
    | (Some i, ix) => it' <- iter_next s it ;; iterate_loop f' s it' ((i, ix) :: acc)
    end
  end.
Definition iterate (s : st) : outcome (list addr) :=
  it <- iter_begin s ;; iterate_loop (S (16 * length (nodes s))) s it [].

(* ---------------------------------------------------------------- destructor *)
(* destroy the values whose mask bit is set, in index order *)
Fixpoint destroy_vals (b : nat) (n : nat) (i : nat) (m : N) (sl : list (option N)) (lg : list ev) : outcome (list ev) :=
  match n with O => Ok lg | S n' =>
    if N.testbit m (N.of_nat i) then
      match nth i sl None with
      | None => UB URawSlot
      | Some _ => destroy_vals b n' (S i) m sl (EDestroy (b, i) :: lg)
      end
    else destroy_vals b n' (S i) m sl lg
  end.

Fixpoint first_some_idx (l : list (option nat)) : option (nat * nat) :=
  match l with
  | [] => None
  | Some c :: _ => Some (O, c)
  | None :: r => match first_some_idx r with Some (i, c) => Some (S i, c) | None => None end
  end.

(* while(n) { ... }  H: heap (links get nulled), dead: freed nodes.  Every node is the current node at most
   (number of its links + 1) <= 17 times, hence the fuel 17 * nodes + 1 in [destructor]. *)
Fixpoint dtor_loop (f : nat) (esz lsz : N) (H : list node) (dead : list nat) (lg : list ev) (n : option nat)
  : outcome (list node * list nat * list ev) :=
  match f with O => OutOfFuel | S f' =>
  match n with None => Ok (H, dead, lg) | Some i =>
  if existsb (Nat.eqb i) dead then UB UUseAfterFree else
  match nth_error H i with None => UB UBadPtr | Some nd =>
    if n_depth nd =? ll then
      match nd with
      | Entry _ _ par m sl =>
          lg' <- destroy_vals (blk i) 16 0 m sl lg ;;
          dtor_loop f' esz lsz H (i :: dead) (EDealloc (blk i) esz :: lg') par
      | Link _ _ _ _ => UB UBadCast end
    else
      match nd with
      | Link x d par ls =>
          match first_some_idx ls with
          | Some (j, c) =>
              dtor_loop f' esz lsz (upd H i (fun _ => Link x d par (upd ls j (fun _ => None)))) dead lg (Some c)
          | None =>
              dtor_loop f' esz lsz H (i :: dead) (EDealloc (blk i) lsz :: lg) par
          end
      | Entry _ _ _ _ _ => UB UBadCast end
  end end end.

Definition destructor (esz lsz : N) (s : st) : outcome st :=
  r <- dtor_loop (S (17 * length (nodes s))) esz lsz (nodes s) [] (rlog s) (root s) ;;
  let '(H, _, lg) := r in Ok (mk_st H None lg).

(* ---------------------------------------------------------------- operations of a history *)
Inductive op :=
| OFind (k : N)
| OFoi (k v : N)
| OInsert (k v : N)
| OErase (k : N)        (* p = find(k); erase(k); [grace period]; p->~T()  -- the documented protocol *)
| OIter.
Inductive res :=
| RPtr (a : option addr)
| RFoi (a : addr) (b : bool)
| RUnit
| RSeq (l : list addr).

Definition step_op (esz lsz : N) (s : st) (o : op) : outcome (st * res) :=
  match o with
  | OFind k => a <- find s k ;; Ok (s, RPtr a)
  | OFoi k v => r <- find_or_insert esz lsz s k v ;; Ok (fst r, RFoi (fst (snd r)) (snd (snd r)))
  | OInsert k v => r <- insert esz lsz s k v ;; Ok (fst r, RPtr (Some (snd r)))
  | OErase k =>
      a <- find s k ;;
      r <- erase s k ;;
      match a with
      | None => Ok (fst r, RUnit)            (* unreachable: erase asserts on absent keys *)
      | Some a' => s' <- caller_destroy (fst r) a' ;; Ok (s', RUnit)
      end
  | OIter => l <- iterate s ;; Ok (s, RSeq l)
  end.

Fixpoint run_ops (esz lsz : N) (s : st) (l : list op) : outcome st :=
  match l with
  | [] => Ok s
  | o :: r => x <- step_op esz lsz s o ;; run_ops esz lsz (fst x) r
  end.
