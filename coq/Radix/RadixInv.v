(* Heap invariant of the radix tree, the big-step walk relation, and its adequacy for the fuelled
   loops of the model (find_loop, foi_walk, erase_walk). *)
From Coq Require Import List NArith Arith Bool Lia ZifyBool ZifyNat ZifyN.
From FV Require Import Radix.RadixModel Radix.RadixBits.
Import ListNotations.
Local Open Scope N_scope.

(* ---------------------------------------------------------------- lists *)
Lemma length_upd {A} (l : list A) i f : length (upd l i f) = length l.
Proof. revert i; induction l as [|x l IH]; intros [|i]; cbn; try reflexivity. f_equal. apply IH. Qed.

Lemma nth_error_upd {A} (l : list A) i f j :
  nth_error (upd l i f) j = if Nat.eqb i j then option_map f (nth_error l j) else nth_error l j.
Proof.
  revert i j; induction l as [|x l IH]; intros [|i] [|j]; cbn; try reflexivity.
  - destruct (Nat.eqb i j); reflexivity.
  - apply IH.
Qed.

Lemma nth_error_upd_eq {A} (l : list A) i f x :
  nth_error l i = Some x -> nth_error (upd l i f) i = Some (f x).
Proof. intros H. rewrite nth_error_upd, Nat.eqb_refl, H. reflexivity. Qed.

Lemma nth_error_upd_neq {A} (l : list A) i f j : i <> j -> nth_error (upd l i f) j = nth_error l j.
Proof. intros H. rewrite nth_error_upd. destruct (Nat.eqb_spec i j); [contradiction|reflexivity]. Qed.

Lemma nth_upd {A} (l : list A) i (v d : A) j :
  nth j (upd l i (fun _ => v)) d = if Nat.eqb i j && Nat.ltb j (length l) then v else nth j l d.
Proof.
  revert i j; induction l as [|x l IH]; intros [|i] [|j]; cbn [upd nth length]; try reflexivity.
  - rewrite andb_false_r. reflexivity.
  - rewrite IH. reflexivity.
Qed.

Lemma upd_app_l {A} (l t : list A) i f : (i < length l)%nat -> upd (l ++ t) i f = upd l i f ++ t.
Proof.
  revert i; induction l as [|x l IH]; intros [|i] H; cbn in *; try lia; try reflexivity.
  f_equal. apply IH. lia.
Qed.

Lemma upd_app_r {A} (l t : list A) j f : upd (l ++ t) (length l + j) f = l ++ upd t j f.
Proof. induction l as [|x l IH]; cbn; [reflexivity|]. f_equal. exact IH. Qed.

Lemma upd_id {A} (l : list A) i f : (forall x, nth_error l i = Some x -> f x = x) -> upd l i f = l.
Proof.
  revert i; induction l as [|x l IH]; intros [|i] H; cbn in *; try reflexivity.
  - rewrite H; reflexivity.
  - f_equal. apply IH. exact H.
Qed.

Lemma nth_error_nth_some {A} (l : list (option A)) j c : nth j l None = Some c -> nth_error l j = Some (Some c).
Proof.
  revert j; induction l as [|x l IH]; intros [|j] H; cbn in *; try discriminate.
  - rewrite H. reflexivity.
  - apply IH. exact H.
Qed.

(* ---------------------------------------------------------------- accessors *)
Definition is_entry (nd : node) : bool := match nd with Entry _ _ _ _ _ => true | Link _ _ _ _ => false end.
Definition n_links (nd : node) : list (option nat) := match nd with Link _ _ _ ls => ls | Entry _ _ _ _ _ => [] end.
Definition n_mask (nd : node) : N := match nd with Entry _ _ _ m _ => m | Link _ _ _ _ => 0 end.

(* ---------------------------------------------------------------- invariant *)
Definition node_ok (nd : node) : Prop :=
  n_prefix nd < K64 /\ pfxP (n_prefix nd) (n_depth nd) = n_prefix nd /\
  match nd with
  | Link _ d _ ls => d < 15 /\ length ls = 16%nat
  | Entry _ d _ _ sl => d = 15 /\ length sl = 16%nat
  end.

Record Inv (H : list node) (rt : option nat) : Prop := mk_Inv {
  inv_ok : forall i nd, nth_error H i = Some nd -> node_ok nd;
  inv_link : forall p x d par ls j c,
      nth_error H p = Some (Link x d par ls) -> nth j ls None = Some c ->
      exists cn, nth_error H c = Some cn /\ d < n_depth cn /\ pfxP (n_prefix cn) d = x /\
                 idxP (n_prefix cn) d = N.of_nat j /\ n_parent cn = Some p;
  inv_root : forall r, rt = Some r -> exists rn, nth_error H r = Some rn /\ n_parent rn = None
}.

Lemma node_ok_depth nd : node_ok nd -> n_depth nd <= 15.
Proof. destruct nd; cbn; intros (_ & _ & A & _); lia. Qed.

Lemma node_ok_entry nd : node_ok nd -> is_entry nd = true -> n_depth nd = 15.
Proof. destruct nd; cbn; intros (_ & _ & A & _) E; [discriminate|exact A]. Qed.

Lemma node_ok_link nd : node_ok nd -> is_entry nd = false -> n_depth nd < 15.
Proof. destruct nd; cbn; intros (_ & _ & A & _) E; [exact A|discriminate]. Qed.

Lemma Inv_st0 : Inv [] None.
Proof.
  constructor.
  - intros [|i] nd H; discriminate.
  - intros [|p] x d par ls j c H; discriminate.
  - intros r H; discriminate.
Qed.

(* ---------------------------------------------------------------- the walk *)
(* Walk H k p c st: starting at cell content c (whose owner is p: a link node, or None for _root)
   the descent for key k stops as described by st. *)
Inductive Walk (H : list node) (k : N) : option nat -> option nat -> foi_stop -> Prop :=
| W_null p : Walk H k p None (FCase1 p)
| W_split p i nd : nth_error H i = Some nd -> pfxP k (n_depth nd) <> n_prefix nd ->
    Walk H k p (Some i) (FCase2 p i)
| W_entry p i nd : nth_error H i = Some nd -> pfxP k (n_depth nd) = n_prefix nd -> is_entry nd = true ->
    Walk H k p (Some i) (FCase3 i (n_mask nd) (idxP k (n_depth nd)))
| W_link p i nd st : nth_error H i = Some nd -> pfxP k (n_depth nd) = n_prefix nd -> is_entry nd = false ->
    Walk H k (Some i) (nth (N.to_nat (idxP k (n_depth nd))) (n_links nd) None) st ->
    Walk H k p (Some i) st.

Definition find_of_stop (st : foi_stop) : option addr :=
  match st with
  | FCase3 e m ix => if N.testbit m ix then Some (e, ix) else None
  | _ => None
  end.

Lemma Walk_inv H k p c st : Walk H k p c st ->
  match c with
  | None => st = FCase1 p
  | Some i => exists nd, nth_error H i = Some nd /\
      ((pfxP k (n_depth nd) <> n_prefix nd /\ st = FCase2 p i) \/
       (pfxP k (n_depth nd) = n_prefix nd /\ is_entry nd = true /\ st = FCase3 i (n_mask nd) (idxP k (n_depth nd))) \/
       (pfxP k (n_depth nd) = n_prefix nd /\ is_entry nd = false /\
        Walk H k (Some i) (nth (N.to_nat (idxP k (n_depth nd))) (n_links nd) None) st))
  end.
Proof.
  intros W. destruct W.
  - reflexivity.
  - exists nd. split; [assumption|]. left. split; [assumption|reflexivity].
  - exists nd. split; [assumption|]. right. left. repeat split; assumption.
  - exists nd. split; [assumption|]. right. right. repeat split; assumption.
Qed.

Lemma Walk_det H k p c st : Walk H k p c st -> forall st', Walk H k p c st' -> st = st'.
Proof.
  induction 1 as [p|p i nd G Hne|p i nd G He Hent|p i nd st G He Hent W IH]; intros st' W'; apply Walk_inv in W'.
  - symmetry. exact W'.
  - destruct W' as (nd' & G' & C). rewrite G in G'. injection G' as <-.
    destruct C as [[_ ->]|[[E _]|[E _]]]; [reflexivity|contradiction|contradiction].
  - destruct W' as (nd' & G' & C). rewrite G in G'. injection G' as <-.
    destruct C as [[E _]|[[_ [_ ->]]|[_ [E _]]]]; [contradiction|reflexivity|congruence].
  - destruct W' as (nd' & G' & C). rewrite G in G'. injection G' as <-.
    destruct C as [[E _]|[[_ [E _]]|[_ [_ W']]]]; [contradiction|congruence|].
    apply IH. exact W'.
Qed.

(* the parent argument only decides what FCase1/FCase2 report *)
Lemma Walk_reparent H k p c st : Walk H k p c st -> forall p', exists st', Walk H k p' c st' /\ find_of_stop st' = find_of_stop st.
Proof.
  intros W p'. destruct W.
  - exists (FCase1 p'). split; [constructor|reflexivity].
  - exists (FCase2 p' i). split; [econstructor; eassumption|reflexivity].
  - eexists. split; [eapply W_entry; eassumption|reflexivity].
  - exists st. split; [eapply W_link; eassumption|reflexivity].
Qed.

Definition fuel_ok (f : nat) (H : list node) (c : option nat) : Prop :=
  match c with
  | None => (1 <= f)%nat
  | Some i => forall nd, nth_error H i = Some nd -> (16 <= f + N.to_nat (n_depth nd))%nat
  end.

Lemma fuel_ok_child H rt f i nd : Inv H rt -> nth_error H i = Some nd -> is_entry nd = false ->
  (16 <= S f + N.to_nat (n_depth nd))%nat -> forall j, fuel_ok f H (nth j (n_links nd) None).
Proof.
  intros I G Hent Hf j. pose proof (node_ok_link nd (inv_ok _ _ I _ _ G) Hent) as Hd.
  destruct (nth j (n_links nd) None) as [c|] eqn:E; cbn.
  - intros cn Gc. destruct nd as [x d par ls|]; [|discriminate]. cbn [n_depth n_links n_prefix n_mask is_entry] in *.
    destruct (inv_link _ _ I _ _ _ _ _ _ _ G E) as (cn' & Gc' & Hlt & _). rewrite Gc in Gc'. injection Gc' as <-. lia.
  - lia.
Qed.

Section Adequacy.
  Variables (H : list node) (rt : option nat) (k : N).
  Hypothesis (I : Inv H rt) (Hk : k < K64).

  Lemma walk_foi p c st : Walk H k p c st -> forall f, fuel_ok f H c -> foi_walk f H k p c = Ok st.
  Proof.
    induction 1 as [p|p i nd G Hne|p i nd G He Hent|p i nd st G He Hent W IH]; intros f Hf; cbn in Hf.
    - destruct f; [lia|reflexivity].
    - pose proof (inv_ok _ _ I _ _ G) as Ok_. pose proof (node_ok_depth _ Ok_) as Hd. specialize (Hf _ G).
      destruct f; [lia|]. cbn [foi_walk]. rewrite G. rewrite pfx_of_ok by (try assumption; lia). cbn [bind].
      apply N.eqb_neq in Hne. rewrite Hne. reflexivity.
    - pose proof (inv_ok _ _ I _ _ G) as Ok_. pose proof (node_ok_entry _ Ok_ Hent) as Hd. specialize (Hf _ G).
      destruct f; [lia|]. cbn [foi_walk]. rewrite G. rewrite pfx_of_ok by (try assumption; lia). cbn [bind].
      apply N.eqb_eq in He. rewrite He. cbn [negb]. rewrite idx_of_ok by lia. cbn [bind].
      rewrite Hd. change (15 =? ll) with true. cbn match. destruct nd; [discriminate|reflexivity].
    - pose proof (inv_ok _ _ I _ _ G) as Ok_. pose proof (node_ok_link _ Ok_ Hent) as Hd. specialize (Hf _ G).
      destruct f; [lia|]. cbn [foi_walk]. rewrite G. rewrite pfx_of_ok by (try assumption; lia). cbn [bind].
      apply N.eqb_eq in He. rewrite He. cbn [negb]. rewrite idx_of_ok by lia. cbn [bind].
      destruct (n_depth nd =? ll) eqn:E; [apply N.eqb_eq in E; unfold ll in E; lia|].
      destruct nd as [x d par ls|]; [|discriminate]. cbn [n_depth n_links n_prefix n_mask is_entry] in *. apply IH.
      apply (fuel_ok_child H rt f i (Link x d par ls) I G eq_refl). cbn. lia.
  Qed.

  Lemma walk_find p c st : Walk H k p c st -> forall f, fuel_ok f H c -> find_loop f H k c = Ok (find_of_stop st).
  Proof.
    induction 1 as [p|p i nd G Hne|p i nd G He Hent|p i nd st G He Hent W IH]; intros f Hf; cbn in Hf.
    - destruct f; [lia|reflexivity].
    - pose proof (inv_ok _ _ I _ _ G) as Ok_. pose proof (node_ok_depth _ Ok_) as Hd. specialize (Hf _ G).
      destruct f; [lia|]. cbn [find_loop]. rewrite G. rewrite pfx_of_ok by (try assumption; lia). cbn [bind].
      apply N.eqb_neq in Hne. rewrite Hne. reflexivity.
    - pose proof (inv_ok _ _ I _ _ G) as Ok_. pose proof (node_ok_entry _ Ok_ Hent) as Hd. specialize (Hf _ G).
      destruct f; [lia|]. cbn [find_loop]. rewrite G. rewrite pfx_of_ok by (try assumption; lia). cbn [bind].
      apply N.eqb_eq in He. rewrite He. cbn [negb]. rewrite idx_of_ok by lia. cbn [bind].
      rewrite Hd. change (15 =? ll) with true. cbn match. destruct nd; [discriminate|reflexivity].
    - pose proof (inv_ok _ _ I _ _ G) as Ok_. pose proof (node_ok_link _ Ok_ Hent) as Hd. specialize (Hf _ G).
      destruct f; [lia|]. cbn [find_loop]. rewrite G. rewrite pfx_of_ok by (try assumption; lia). cbn [bind].
      apply N.eqb_eq in He. rewrite He. cbn [negb]. rewrite idx_of_ok by lia. cbn [bind].
      destruct (n_depth nd =? ll) eqn:E; [apply N.eqb_eq in E; unfold ll in E; lia|].
      destruct nd as [x d par ls|]; [|discriminate]. cbn [n_depth n_links n_prefix n_mask is_entry] in *. apply IH.
      apply (fuel_ok_child H rt f i (Link x d par ls) I G eq_refl). cbn. lia.
  Qed.

  Definition erase_of_stop (st : foi_stop) : outcome (nat * N * N) :=
    match st with
    | FCase1 _ => AssertStop AEraseNull
    | FCase2 _ _ => AssertStop AErasePrefix
    | FCase3 e m ix => Ok (e, m, ix)
    end.

  Lemma walk_erase p c st : Walk H k p c st -> forall f, fuel_ok f H c -> erase_walk f H k c = erase_of_stop st.
  Proof.
    induction 1 as [p|p i nd G Hne|p i nd G He Hent|p i nd st G He Hent W IH]; intros f Hf; cbn in Hf.
    - destruct f; [lia|reflexivity].
    - pose proof (inv_ok _ _ I _ _ G) as Ok_. pose proof (node_ok_depth _ Ok_) as Hd. specialize (Hf _ G).
      destruct f; [lia|]. cbn [erase_walk]. rewrite G. rewrite pfx_of_ok by (try assumption; lia). cbn [bind].
      apply N.eqb_neq in Hne. rewrite Hne. reflexivity.
    - pose proof (inv_ok _ _ I _ _ G) as Ok_. pose proof (node_ok_entry _ Ok_ Hent) as Hd. specialize (Hf _ G).
      destruct f; [lia|]. cbn [erase_walk]. rewrite G. rewrite pfx_of_ok by (try assumption; lia). cbn [bind].
      apply N.eqb_eq in He. rewrite He. cbn [negb]. rewrite idx_of_ok by lia. cbn [bind].
      rewrite Hd. change (15 =? ll) with true. cbn match. destruct nd; [discriminate|reflexivity].
    - pose proof (inv_ok _ _ I _ _ G) as Ok_. pose proof (node_ok_link _ Ok_ Hent) as Hd. specialize (Hf _ G).
      destruct f; [lia|]. cbn [erase_walk]. rewrite G. rewrite pfx_of_ok by (try assumption; lia). cbn [bind].
      apply N.eqb_eq in He. rewrite He. cbn [negb]. rewrite idx_of_ok by lia. cbn [bind].
      destruct (n_depth nd =? ll) eqn:E; [apply N.eqb_eq in E; unfold ll in E; lia|].
      destruct nd as [x d par ls|]; [|discriminate]. cbn [n_depth n_links n_prefix n_mask is_entry] in *. apply IH.
      apply (fuel_ok_child H rt f i (Link x d par ls) I G eq_refl). cbn. lia.
  Qed.

  Lemma walk_total_aux : forall m p i nd, nth_error H i = Some nd -> (N.to_nat (15 - n_depth nd) < m)%nat ->
    exists st, Walk H k p (Some i) st.
  Proof.
    induction m as [|m IH]; intros p i nd G Hm; [lia|].
    destruct (N.eq_dec (pfxP k (n_depth nd)) (n_prefix nd)) as [E|E].
    - destruct (is_entry nd) eqn:Hent.
      + eexists. eapply W_entry; eassumption.
      + pose proof (node_ok_link nd (inv_ok _ _ I _ _ G) Hent) as Hd.
        destruct (nth (N.to_nat (idxP k (n_depth nd))) (n_links nd) None) as [c|] eqn:En.
        * destruct nd as [x d par ls|]; [|discriminate]. cbn [n_depth n_links n_prefix n_mask is_entry] in *.
          destruct (inv_link _ _ I _ _ _ _ _ _ _ G En) as (cn & Gc & Hlt & _).
          destruct (IH (Some i) c cn Gc ltac:(lia)) as (st & W).
          exists st. eapply W_link; try eassumption; try reflexivity. cbn. rewrite En. exact W.
        * exists (FCase1 (Some i)). eapply W_link; try eassumption. rewrite En. constructor.
    - eexists. eapply W_split; eassumption.
  Qed.

  Lemma walk_total p c : (forall i, c = Some i -> exists nd, nth_error H i = Some nd) -> exists st, Walk H k p c st.
  Proof.
    destruct c as [i|]; intros Hc.
    - destruct (Hc i eq_refl) as (nd & G). eapply (walk_total_aux (S (N.to_nat (15 - n_depth nd)))); [eassumption|lia].
    - eexists. constructor.
  Qed.
End Adequacy.

Lemma fuel_ok_root H rt : Inv H rt -> fuel_ok 17 H rt.
Proof. intros I. destruct rt as [r|]; cbn; [intros; lia|lia]. Qed.

Lemma root_closed H rt : Inv H rt -> forall i, rt = Some i -> exists nd, nth_error H i = Some nd.
Proof. intros I i E. destruct (inv_root _ _ I i E) as (rn & G & _). eauto. Qed.
