(* Proofs about the stack_buffer_logger model (LoggerModel.v): for every Limit >= 2 the chunks handed to the sink
   concatenate to the appended text, none is longer than Limit-1 bytes, and no buffer access is out of bounds. *)
From Coq Require Import String.
From Coq Require Import NArith ZArith List Bool Lia ZifyBool ZifyNat ZifyN.
From FV Require Import Printf.PrintIntModel Fmt.LoggerModel.
Import ListNotations.
Local Open Scope N_scope.

Definition nonul (l : list byte) : Prop := Forall (fun b => b <> 0) l.

Lemma buf_cstr_pending : forall pend tl, nonul pend -> buf_cstr (map Some pend ++ Some 0 :: tl) = Ok pend.
Proof.
  induction pend as [|b p IH]; intros tl H; cbn [map app buf_cstr].
  - reflexivity.
  - inversion H; subst. replace (b =? 0) with false by lia. rewrite IH by assumption. reflexivity.
Qed.

Lemma buf_write_at : forall (pend : list byte) (tl : list (option byte)) b, tl <> [] ->
  buf_write (map Some pend ++ tl) (length pend) b = Ok (map Some (pend ++ [b]) ++ skipn 1 tl).
Proof.
  intros pend tl b Htl. unfold buf_write.
  destruct tl as [|t tl]; [congruence|].
  replace (Nat.ltb (length pend) (length (map Some pend ++ t :: tl))) with true
    by (symmetry; apply Nat.ltb_lt; rewrite app_length, map_length; cbn; lia).
  f_equal.
  rewrite firstn_app, map_length, Nat.sub_diag. cbn [firstn]. rewrite app_nil_r.
  rewrite firstn_all2 by (rewrite map_length; lia).
  rewrite skipn_app, map_length.
  rewrite skipn_all2 by (rewrite map_length; lia).
  replace (S (length pend) - length pend)%nat with 1%nat by lia.
  cbn [skipn app]. rewrite map_app. rewrite <- app_assoc. reflexivity.
Qed.

Definition inv (limit : nat) (it : item) (pend : list byte) : Prop :=
  exists tl, it_buf it = map Some pend ++ tl /\ length (it_buf it) = limit /\ it_off it = length pend /\
             (length pend < limit)%nat /\ nonul pend.

Definition small (limit : nat) (cs : list (list byte)) : Prop := Forall (fun c => (length c <= limit - 1)%nat) cs.
(* chunks flushed by an append are full: exactly Limit-1 bytes *)
Definition full (limit : nat) (cs : list (list byte)) : Prop := Forall (fun c => length c = (limit - 1)%nat) cs.

Lemma full_small : forall limit cs, full limit cs -> small limit cs.
Proof. intros limit cs H. unfold full, small in *. rewrite Forall_forall in *. intros c Hc. rewrite (H c Hc). apply le_n. Qed.

Lemma append_char_inv : forall limit it pend b,
  (2 <= limit)%nat -> inv limit it pend -> b <> 0 ->
  exists it' ev pend',
    append_char limit it b = Ok (it', ev) /\ inv limit it' pend' /\ it_done it' = it_done it /\
    concat (chunks_of ev) ++ pend' = pend ++ [b] /\ full limit (chunks_of ev).
Proof.
  intros limit it pend b Hl (tl & Hbuf & Hlen & Hoff & Hlt & Hnn) Hb.
  unfold append_char. rewrite Hoff.
  replace (Nat.ltb (length pend) limit) with true by (symmetry; apply Nat.ltb_lt; lia). cbn [negb].
  assert (Htl : length tl = (limit - length pend)%nat).
  { rewrite Hbuf, app_length, map_length in Hlen. lia. }
  destruct (Nat.eqb (length pend + 1) limit) eqn:E.
  - (* the buffer is full: flush, then store at index 0 *)
    apply Nat.eqb_eq in E.
    destruct tl as [|t tl]; [cbn in Htl; lia|].
    assert (tl = []) by (destruct tl; [reflexivity | cbn in Htl; lia]). subst tl.
    rewrite Hbuf. rewrite buf_write_at by discriminate. cbn [bind skipn].
    rewrite map_app. cbn [map]. rewrite <- app_assoc. cbn [app].
    rewrite buf_cstr_pending by assumption. cbn [bind].
    destruct pend as [|p0 pend].
    { cbn in E. lia. }
    cbn [map app]. unfold buf_write. cbn [length].
    cbn [Nat.ltb Nat.leb]. cbn [firstn skipn app bind].
    eexists _, _, [b]. split; [reflexivity|]. cbn [it_done].
    split.
    { exists (map Some pend ++ [Some 0]). cbn [it_buf it_off map app length].
      repeat split; try reflexivity.
      - rewrite app_length, map_length. cbn [length] in *. lia.
      - lia.
      - constructor; [assumption | constructor]. }
    split; [reflexivity|]. cbn [chunks_of flat_map concat app]. rewrite app_nil_r.
    split; [reflexivity|].
    constructor; [|constructor]. cbn [length] in *. lia.
  - apply Nat.eqb_neq in E. cbn [bind].
    rewrite Hbuf. rewrite buf_write_at by (intros ->; cbn in Htl; lia). cbn [bind].
    eexists _, [], (pend ++ [b]). split; [reflexivity|]. cbn [it_done].
    split.
    { exists (skipn 1 tl). cbn [it_buf it_off]. repeat split.
      - rewrite app_length, map_length, skipn_length, app_length. cbn. lia.
      - rewrite app_length. cbn. lia.
      - rewrite app_length. cbn. lia.
      - apply Forall_app. split; [assumption | constructor; [assumption | constructor]]. }
    split; [reflexivity|]. split; [reflexivity | constructor].
Qed.

Lemma lemit_lemit : forall a b k, lemit a (lemit b k) = lemit (a ++ b) k.
Proof. intros a b [[e i] o]. unfold lemit. cbn. rewrite app_assoc. reflexivity. Qed.
Lemma lemit_nil : forall k, lemit [] k = k.
Proof. intros [[e i] o]. reflexivity. Qed.

Lemma chunks_of_app : forall a b, chunks_of (a ++ b) = chunks_of a ++ chunks_of b.
Proof. intros. unfold chunks_of. apply flat_map_app. Qed.

Lemma append_bytes_inv : forall limit bs it pend,
  (2 <= limit)%nat -> inv limit it pend -> nonul bs ->
  exists it' ev pend',
    (forall k, append_bytes limit it bs k = lemit ev (k it')) /\ inv limit it' pend' /\ it_done it' = it_done it /\
    concat (chunks_of ev) ++ pend' = pend ++ bs /\ full limit (chunks_of ev).
Proof.
  intros limit bs. induction bs as [|b bs IH]; intros it pend Hl Hinv Hnn.
  - exists it, [], pend. split; [intros k; cbn [append_bytes]; rewrite lemit_nil; reflexivity|].
    split; [assumption|]. split; [reflexivity|]. rewrite app_nil_r. split; [reflexivity | constructor].
  - inversion Hnn as [|? ? Hb Hbs]; subst.
    destruct (append_char_inv limit it pend b Hl Hinv Hb) as (it1 & ev1 & p1 & Hac & Hinv1 & Hd1 & Hc1 & Hs1).
    destruct (IH it1 p1 Hl Hinv1 Hbs) as (it2 & ev2 & p2 & Hab & Hinv2 & Hd2 & Hc2 & Hs2).
    exists it2, (ev1 ++ ev2), p2. split.
    { intros k. cbn [append_bytes]. rewrite Hac. rewrite Hab. apply lemit_lemit. }
    split; [assumption|]. split; [congruence|].
    rewrite chunks_of_app, concat_app. split.
    + rewrite <- app_assoc, Hc2, app_assoc, Hc1, <- app_assoc. reflexivity.
    + apply Forall_app. split; assumption.
Qed.

Definition appends_ops (appends : list (list byte)) : list lop :=
  map (fun l => LAppend l (Ok tt)) appends ++ [LEndlog].

Lemma run_ops_appends : forall limit appends it pend,
  (2 <= limit)%nat -> inv limit it pend -> Forall nonul appends ->
  exists it' ev cs last,
    run_ops limit it (appends_ops appends) = (ev, it', Ok tt) /\ it_done it' = true /\
    chunks_of ev = cs ++ [last] /\ full limit cs /\ (length last <= limit - 1)%nat /\
    concat (chunks_of ev) = pend ++ concat appends.
Proof.
  intros limit appends. induction appends as [|a rest IH]; intros it pend Hl Hinv Hnn.
  - (* endlog *)
    destruct Hinv as (tl & Hbuf & Hlen & Hoff & Hlt & Hn0).
    unfold appends_ops. cbn [map app run_ops]. unfold endlog. rewrite Hoff.
    replace (Nat.ltb (length pend) limit) with true by (symmetry; apply Nat.ltb_lt; lia). cbn [negb].
    assert (Htl : tl <> []).
    { intros ->. rewrite Hbuf, app_nil_r, map_length in Hlen. lia. }
    rewrite Hbuf. rewrite buf_write_at by assumption. cbn [bind].
    rewrite map_app. cbn [map]. rewrite <- app_assoc. cbn [app].
    rewrite buf_cstr_pending by assumption. cbn [bind].
    eexists _, _, [], pend. split; [reflexivity|]. cbn [it_done lemit fst snd app chunks_of flat_map concat].
    split; [reflexivity|]. split; [reflexivity|]. split; [constructor|]. split; [lia|].
    rewrite !app_nil_r. reflexivity.
  - inversion Hnn as [|? ? Ha Hrest]; subst.
    destruct (append_bytes_inv limit a it pend Hl Hinv Ha) as (it1 & ev1 & p1 & Hab & Hinv1 & Hd1 & Hc1 & Hs1).
    destruct (IH it1 p1 Hl Hinv1 Hrest) as (it2 & ev2 & cs & last & Hr & Hd2 & Hcs & Hfull & Hlast & Hc2).
    exists it2, (ev1 ++ ev2), (chunks_of ev1 ++ cs), last. split.
    { unfold appends_ops. cbn [map app run_ops]. rewrite Hab. fold (appends_ops rest). rewrite Hr. reflexivity. }
    split; [assumption|]. rewrite chunks_of_app. split; [rewrite Hcs, app_assoc; reflexivity|].
    split; [apply Forall_app; split; assumption|]. split; [assumption|].
    rewrite concat_app, Hc2. cbn [concat]. rewrite app_assoc, Hc1, <- app_assoc. reflexivity.
Qed.

Lemma inv_new : forall limit, (1 <= limit)%nat -> inv limit (new_item limit) [].
Proof.
  intros limit Hl. exists (repeat None limit). cbn. repeat split; try reflexivity.
  - apply repeat_length.
  - lia.
  - constructor.
Qed.

(* the chunks are maximal: every chunk but the last has exactly Limit-1 bytes; endlog hands over the rest
   (possibly empty: an empty message gives exactly one empty chunk) *)
Theorem logger_chunks_maximal : forall limit appends,
  (2 <= limit)%nat -> Forall nonul appends ->
  exists ev cs last,
    run_logger limit (appends_ops appends) = (EvBegin :: ev ++ [EvFinalize true], Ok tt) /\
    chunks_of ev = cs ++ [last] /\ full limit cs /\ (length last <= limit - 1)%nat /\
    concat (chunks_of ev) = concat appends.
Proof.
  intros limit appends Hl Hnn.
  destruct (run_ops_appends limit appends (new_item limit) [] Hl (inv_new limit ltac:(lia)) Hnn)
    as (it' & ev & cs & last & Hr & Hd & Hcs & Hfull & Hlast & Hc).
  exists ev, cs, last. unfold run_logger. rewrite Hr. cbn [fst snd]. rewrite Hd. repeat split; assumption.
Qed.

Theorem logger_chunks : forall limit appends,
  (2 <= limit)%nat -> Forall nonul appends ->
  exists ev,
    run_logger limit (appends_ops appends) = (EvBegin :: ev ++ [EvFinalize true], Ok tt) /\
    concat (chunks_of ev) = concat appends /\
    Forall (fun c => (length c <= limit - 1)%nat) (chunks_of ev).
Proof.
  intros limit appends Hl Hnn.
  destruct (logger_chunks_maximal limit appends Hl Hnn) as (ev & cs & last & Hr & Hcs & Hfull & Hlast & Hc).
  exists ev. split; [assumption|]. split; [assumption|].
  rewrite Hcs. apply Forall_app. split; [apply full_small; assumption | constructor; [assumption | constructor]].
Qed.
