(* Model of frg::fmt() (include/frg/formatting.hpp): the format_object overloads for the built-in
   argument types, parse_fmt_spec and the brace state machine of
   format_object(const fmt_impl &, format_options, S &).  Definitions only (no proofs).

   The format string is a byte list of EXACT length: every byte is read through [read], which is
   [UB "oob"] outside the list.  C [int]s are [Z] (accumulation of the width is
   [UB "signed overflow"] when it leaves int), [size_t] values are [N] (accumulation of the position
   is checked against SIZE_MAX as the source does), indices into the buffer are [nat].  The sink is
   the list of appended bytes.  A run returns the bytes appended so far together with the outcome,
   so that the partial output of a run that stops in FRG_ASSERT is defined too. *)
From Coq Require Import String.
From Coq Require Import NArith ZArith List Bool.
From FV Require Import Printf.PrintIntModel.
Import ListNotations.
Local Open Scope N_scope.

(* ---- the format buffer *)
Definition read (buf : list byte) (i : nat) : outcome byte :=
  match nth_error buf i with
  | Some b => Ok b
  | None => UB "oob"
  end.

(* size_t subtraction a - b.  The source relies on b <= a (arg_fmt_end > arg_fmt_start); a wrap would
   not be UB in C++ but is not what the code means, so the model makes it a distinct outcome that
   the theorems exclude. *)
Definition size_sub (a b : nat) : outcome nat :=
  if Nat.leb b a then Ok (a - b)%nat else UB "size_t wrap-around in a view length".

(* basic_string_view::sub_string (string.hpp:91-94) *)
Definition sub_string (len from size : nat) : outcome unit :=
  if Nat.leb from len && Nat.leb size (len - from) then Ok tt
  else AssertStop "from <= _length && size <= _length - from".

(* bytes [from, from + n) of the buffer, each through [read] *)
Fixpoint read_range (buf : list byte) (from n : nat) : outcome (list byte) :=
  match n with
  | O => Ok []
  | S n' => b <- read buf from ;; r <- read_range buf (S from) n' ;; Ok (b :: r)
  end.

(* ---- argument values.  The C++ overload set maps the argument types as follows (harness and
   driver use the same table): unsigned int -> AUInt 32; unsigned long, unsigned long long,
   uintptr_t -> AUInt 64; int and everything that promotes to int (short, unsigned short,
   signed char, unsigned char) -> ASInt 32; bool -> ABool (chooses format_object(int) too);
   long, long long -> ASInt 64; char -> AChar (signed, -128..127); frg::string_view -> AStrView
   (exact bytes); const char * -> ACStr s where the pointed-to array is s followed by a NUL (the
   text ends at the first NUL of s, if any); const void * -> APtr. *)
Inductive arg :=
| AUInt (bits : N) (v : N)
| ASInt (bits : N) (v : Z)
| AChar (v : Z)
| AStrView (s : list byte)
| ACStr (s : list byte)
| APtr (v : N)
| ABool (b : bool).

Fixpoint cstr_text (s : list byte) : list byte :=
  match s with
  | [] => []
  | b :: r => if N.eqb b 0 then [] else b :: cstr_text r
  end.

Definition with_conversion (fo : format_options) (c : format_conversion) : format_options :=
  mk_fo c (minimum_width fo) (arg_pos fo) (dollar_arg_pos fo) (precision fo) (left_justify fo)
        (always_sign fo) (plus_becomes_space fo) (alt_conversion fo) (fill_zeros fo)
        (group_thousands fo) (use_capitals fo).
Definition with_width (fo : format_options) (w : Z) : format_options :=
  mk_fo (fo_conversion fo) w (arg_pos fo) (dollar_arg_pos fo) (precision fo) (left_justify fo)
        (always_sign fo) (plus_becomes_space fo) (alt_conversion fo) (fill_zeros fo)
        (group_thousands fo) (use_capitals fo).
Definition with_fill_zeros (fo : format_options) : format_options :=
  mk_fo (fo_conversion fo) (minimum_width fo) (arg_pos fo) (dollar_arg_pos fo) (precision fo) (left_justify fo)
        (always_sign fo) (plus_becomes_space fo) (alt_conversion fo) true
        (group_thousands fo) (use_capitals fo).
Definition with_capitals (fo : format_options) : format_options :=
  mk_fo (fo_conversion fo) (minimum_width fo) (arg_pos fo) (dollar_arg_pos fo) (precision fo) (left_justify fo)
        (always_sign fo) (plus_becomes_space fo) (alt_conversion fo) (fill_zeros fo)
        (group_thousands fo) true.

(* _fmt_basics::format_integer (formatting.hpp:227-245) *)
Definition radix_of (c : format_conversion) : outcome N :=
  match c with
  | conv_hex => Ok 16
  | conv_octal => Ok 8
  | conv_binary => Ok 2
  | conv_null | conv_decimal => Ok 10
  | conv_character =>
    AssertStop "fo.conversion == format_conversion::null || fo.conversion == format_conversion::decimal"
  end.

Definition format_integer (tbits : N) (v : Z) (fo : format_options) : outcome (list byte) :=
  radix <- radix_of (fo_conversion fo) ;;
  print_int tbits v radix (minimum_width fo)
            (match precision fo with Some p => p | None => 1%Z end)
            (if fill_zeros fo then 48 else 32) (left_justify fo) (group_thousands fo)
            (always_sign fo) (plus_becomes_space fo) (use_capitals fo) default_locale [].

Definition byte_of_char (v : Z) : byte := Z.to_N (v mod 256).

(* the format_object overloads (formatting.hpp:349-425) *)
Definition format_arg (a : arg) (fo : format_options) : outcome (list byte) :=
  match a with
  | AUInt bits v => format_integer bits (Z.of_N v) fo
  | ASInt bits v => format_integer bits v fo
  | ABool b => format_integer 32 (if b then 1%Z else 0%Z) fo
  | AChar v =>
    match fo_conversion fo with
    | conv_character => Ok [byte_of_char v]
    | _ => format_integer 8 v fo           (* print_int<char> *)
    end
  | AStrView s => Ok s
  | ACStr s => Ok (cstr_text s)
  | APtr v =>
    r <- format_integer 64 (Z.of_N v) (with_conversion fo conv_hex) ;;
    Ok ([48; 120] ++ r)                    (* "0x" *)
  end.

(* ---- parse_fmt_spec (formatting.hpp:550-617) over the view [off, off+len) of the buffer *)
Inductive pmode := PM_pos | PM_fill | PM_width | PM_conv.

Definition is_digit (c : byte) : bool := (48 <=? c) && (c <=? 57).
Definition SIZE_MAX : N := 18446744073709551615.

Record pstate := mk_ps {
  ps_mode : pmode;
  ps_pos_set : bool;
  ps_tmp_pos : N;
  ps_fo : format_options
}.

(* the width/conversion part of the switch (case modes::width); None = return false *)
Definition parse_width_char (c : byte) (st : pstate) : outcome (option pstate) :=
  let fo := ps_fo st in
  if is_digit c then
    let d := Z.of_N (c - 48) in
    (* a width that does not fit an int makes the spec malformed *)
    if (minimum_width fo >? (INT_MAX - d) / 10)%Z then Ok None else
    let w10 := (minimum_width fo * 10)%Z in
    if negb (in_int w10) then UB "signed overflow" else
    let w := (w10 + d)%Z in
    if negb (in_int w) then UB "signed overflow" else
    Ok (Some (mk_ps PM_width (ps_pos_set st) (ps_tmp_pos st) (with_width fo w)))
  else
    let conv (fo' : format_options) (cv : format_conversion) :=
      Ok (Some (mk_ps PM_conv (ps_pos_set st) (ps_tmp_pos st) (with_conversion fo' cv))) in
    if c =? 98 then conv fo conv_binary            (* b *)
    else if c =? 99 then conv fo conv_character    (* c *)
    else if c =? 111 then conv fo conv_octal       (* o *)
    else if (c =? 105) || (c =? 100) then conv fo conv_decimal   (* i d *)
    else if c =? 88 then conv (with_capitals fo) conv_hex        (* X *)
    else if c =? 120 then conv fo conv_hex         (* x *)
    else Ok None.

Definition parse_char (c : byte) (st : pstate) : outcome (option pstate) :=
  match ps_mode st with
  | PM_pos =>
    if is_digit c then
      let d := c - 48 in
      (* a position that does not fit size_t makes the spec malformed *)
      if (SIZE_MAX - d) / 10 <? ps_tmp_pos st then Ok None else
      Ok (Some (mk_ps PM_pos true ((ps_tmp_pos st * 10 + d) mod 2 ^ 64) (ps_fo st)))
    else if c =? 58 then Ok (Some (mk_ps PM_fill (ps_pos_set st) (ps_tmp_pos st) (ps_fo st)))
    else Ok None
  | PM_fill =>
    let fo := if c =? 48 then with_fill_zeros (ps_fo st) else ps_fo st in
    parse_width_char c (mk_ps PM_width (ps_pos_set st) (ps_tmp_pos st) fo)
  | PM_width => parse_width_char c st
  | PM_conv => Ok None
  end.

(* for (size_t i = 0; i < spec.size(); i++): [n] = iterations left, [j] = index into the buffer *)
Fixpoint parse_loop (buf : list byte) (j n : nat) (st : pstate) : outcome (option pstate) :=
  match n with
  | O => Ok (Some st)
  | S n' =>
    c <- read buf j ;;
    r <- parse_char c st ;;
    match r with
    | None => Ok None
    | Some st' => parse_loop buf (S j) n' st'
    end
  end.

(* returns None for "return false", else (pos, fo) *)
Definition parse_fmt_spec (buf : list byte) (off len : nat) (pos : N) (fo : format_options)
  : outcome (option (N * format_options)) :=
  r <- parse_loop buf off len (mk_ps PM_pos false 0 (with_width fo 0%Z)) ;;
  match r with
  | None => Ok None
  | Some st => Ok (Some (if ps_pos_set st then ps_tmp_pos st else pos, ps_fo st))
  end.

(* fmt_impl::format_nth: None = return false (index out of bounds) *)
Definition format_nth (args : list arg) (n : N) (fo : format_options) : option (outcome (list byte)) :=
  if n <? N.of_nat (length args) then
    match nth_error args (N.to_nat n) with
    | Some a => Some (format_arg a fo)
    | None => None
    end
  else None.

(* format_object(fmt.sub_string(from, size), fo, sink): the assertion of sub_string, then one
   append per byte *)
Definition echo (buf : list byte) (from size : nat) : outcome (list byte) :=
  _ <- sub_string (length buf) from size ;;
  read_range buf from size.

(* ---- the brace state machine (formatting.hpp:619-681).  Result: (bytes appended, outcome). *)
Definition result := (list byte * outcome unit)%type.
Definition emit (l : list byte) (k : result) : result := (l ++ fst k, snd k).
Definition stop {A} (o : outcome A) : result :=
  ([], match o with
       | Ok _ => Ok tt
       | AssertStop w => AssertStop w
       | UB w => UB w
       | OutOfFuel => OutOfFuel
       end).
(* run a piece; continue only if it is Ok *)
Definition piece {A} (o : outcome A) (k : A -> result) : result :=
  match o with
  | Ok a => k a
  | _ => stop o
  end.

(* what happens at a closing brace at index [i] of a spec opened at [start]; [cur] = current_arg
   before the increment.  Returns the bytes to append. *)
Definition close_spec (buf : list byte) (args : list arg) (start i : nat) (cur : N) : outcome (list byte) :=
  sz <- size_sub i start ;;
  sz1 <- size_sub sz 1 ;;
  _ <- sub_string (length buf) (start + 1) sz1 ;;
  r <- parse_fmt_spec buf (start + 1) sz1 cur default_options ;;
  match r with
  | None => echo buf start (sz + 1)
  | Some (pos, fo) =>
    match format_nth args pos fo with
    | Some o => o
    | None => echo buf start (sz + 1)
    end
  end.

Fixpoint fmt_loop (fuel : nat) (buf : list byte) (args : list arg) (i : nat) (inarg : bool)
         (start : nat) (cur : N) : result :=
  match fuel with
  | O => ([], OutOfFuel)
  | S fuel' =>
    if negb (Nat.ltb i (length buf)) then
      (* loop exit: an unclosed specifier is printed as is *)
      if inarg then
        piece (sz <- size_sub (length buf) start ;; echo buf start sz) (fun l => (l, Ok tt))
      else ([], Ok tt)
    else
      piece (read buf i) (fun c =>
      piece (if Nat.ltb (i + 1) (length buf) then read buf (i + 1) else Ok 0) (fun next =>
        if negb inarg then
          if (c =? 123) && negb (next =? 123) then
            fmt_loop fuel' buf args (i + 1) true i cur
          else
            let i' := if c =? 123 then (i + 1)%nat else i in
            emit [c] (fmt_loop fuel' buf args (i' + 1) false start cur)
        else
          if c =? 125 then
            piece (close_spec buf args start i cur) (fun l =>
              emit l (fmt_loop fuel' buf args (i + 1) false start (cur + 1)))
          else
            fmt_loop fuel' buf args (i + 1) true start cur))
  end.

(* format(frg::fmt(view, args...), sink) *)
Definition run_fmt (buf : list byte) (args : list arg) : result :=
  fmt_loop (S (length buf)) buf args 0 false 0 0.
