(* Model of frg::stack_buffer_logger<Sink, Limit> (include/frg/logging.hpp:20-100).  Definitions only.

   An item owns [char _buffer[Limit]] (a list of Limit slots, [None] = never written), [_off] and
   [_done].  Every store into the buffer goes through [buf_write] ([UB "oob write"] outside the
   Limit slots); the sink is handed a [const char *] to the buffer and reads a C string from it:
   [buf_cstr] ([UB] if it reaches the end of the buffer or a slot that was never written before
   finding the NUL).  What the sink sees is recorded as events. *)
From Coq Require Import String.
From Coq Require Import NArith ZArith List Bool.
From FV Require Import Printf.PrintIntModel.
Import ListNotations.
Local Open Scope N_scope.

Inductive lev :=
| EvBegin                      (* _sink.begin()  (operator()) *)
| EvChunk (c : list byte)      (* _sink(message): the bytes before the NUL *)
| EvFinalize (done : bool).    (* _sink.finalize(done)  (~item) *)

Record item := mk_item {
  it_buf : list (option byte);
  it_off : nat;
  it_done : bool
}.

Definition new_item (limit : nat) : item := mk_item (repeat None limit) 0 false.

Definition buf_write (buf : list (option byte)) (i : nat) (b : byte) : outcome (list (option byte)) :=
  if Nat.ltb i (length buf) then Ok (firstn i buf ++ Some b :: skipn (S i) buf)
  else UB "oob write".

Fixpoint buf_cstr (buf : list (option byte)) : outcome (list byte) :=
  match buf with
  | [] => UB "oob read: no NUL inside the buffer"
  | None :: _ => UB "read of an uninitialised byte"
  | Some b :: r => if b =? 0 then Ok [] else (t <- buf_cstr r ;; Ok (b :: t))
  end.

(* the common part of append(char) and of one iteration of the C-string append:
     FRG_ASSERT(_off < Limit);
     if(_off + 1 == Limit) { _buffer[_off] = 0; _logger->_emit(_buffer); _off = 0; }
     _buffer[_off++] = s;                                                            *)
Definition append_char (limit : nat) (it : item) (b : byte) : outcome (item * list lev) :=
  if negb (Nat.ltb (it_off it) limit) then AssertStop "_off < Limit" else
  x <- (if Nat.eqb (it_off it + 1) limit then
          buf' <- buf_write (it_buf it) (it_off it) 0 ;;
          ch <- buf_cstr buf' ;;
          Ok (buf', O, [EvChunk ch])
        else Ok (it_buf it, it_off it, [])) ;;
  let '(buf1, off1, ev) := x in
  buf2 <- buf_write buf1 off1 b ;;
  Ok (mk_item buf2 (S off1) (it_done it), ev).

(* item::operator<<(endlog_t) *)
Definition endlog (limit : nat) (it : item) : outcome (item * list lev) :=
  if negb (Nat.ltb (it_off it) limit) then AssertStop "_off < Limit" else
  buf' <- buf_write (it_buf it) (it_off it) 0 ;;
  ch <- buf_cstr buf' ;;
  Ok (mk_item buf' (it_off it) true, [EvChunk ch]).

(* one operator<<: the formatting code appended [bytes] one at a time and then ended with [o]
   (Ok tt, or the assertion it stopped in); or endlog *)
Inductive lop :=
| LAppend (bytes : list byte) (o : outcome unit)
| LEndlog.

(* events, the item as it is when the statement ends or stops, and how it ended *)
Definition lresult := (list lev * item * outcome unit)%type.

Definition lfail {A} (it : item) (o : outcome A) : lresult :=
  ([], it, match o with
           | Ok _ => Ok tt
           | AssertStop w => AssertStop w
           | UB w => UB w
           | OutOfFuel => OutOfFuel
           end).
Definition lemit (ev : list lev) (k : lresult) : lresult :=
  (ev ++ fst (fst k), snd (fst k), snd k).

Fixpoint append_bytes (limit : nat) (it : item) (bs : list byte) (k : item -> lresult) : lresult :=
  match bs with
  | [] => k it
  | b :: r =>
    match append_char limit it b with
    | Ok (it', ev) => lemit ev (append_bytes limit it' r k)
    | o => lfail it o
    end
  end.

Fixpoint run_ops (limit : nat) (it : item) (ops : list lop) : lresult :=
  match ops with
  | [] => ([], it, Ok tt)
  | LAppend bs o :: r =>
    append_bytes limit it bs (fun it' =>
      match o with
      | Ok _ => run_ops limit it' r
      | _ => lfail it' o
      end)
  | LEndlog :: r =>
    match endlog limit it with
    | Ok (it', ev) => lemit ev (run_ops limit it' r)
    | o => lfail it o
    end
  end.

(* logger() << ... ; then ~item.  The destructor also runs when an assertion unwinds the
   statement. *)
Definition run_logger (limit : nat) (ops : list lop) : list lev * outcome unit :=
  let k := run_ops limit (new_item limit) ops in
  let it := snd (fst k) in
  match snd k with
  | Ok _ | AssertStop _ => (EvBegin :: fst (fst k) ++ [EvFinalize (it_done it)], snd k)
  | _ => (EvBegin :: fst (fst k), snd k)
  end.

Definition chunks_of (evs : list lev) : list (list byte) :=
  flat_map (fun e => match e with EvChunk c => [c] | _ => [] end) evs.
