(* Independent list-level reference for frg::fmt(), written from the documented grammar
     format  ::= ( text | "{{" | "{" spec "}" )*
     spec    ::= ([0-9]+)?(:0?[0-9]*[bcdioXx]?)?
   No indices, no buffer, no parser modes: the specifier is split with [span_digits]; numbers are
   rendered with the padding algebra [print_digits_result] of PrintIntProofs.v (not with the
   print_int model).  Shares only the data types ([arg], [outcome], [result]) with FmtModel.v.

   Documented behaviour: text outside braces is copied ("}" included: there is no "}}" escape);
   "{{" gives "{"; a well-formed specifier renders the selected argument (explicit position, else
   the ordinal number of the brace group) with zero fill / width / conversion; a specifier that is
   not of the grammar, whose width does not fit an int, or whose position is not the position of
   an argument is copied verbatim, braces included; so is an unclosed specifier.  The conversion
   [c] is defined for char arguments only: on another integer argument the library stops in its
   assertion hook (documented precondition). *)
From Coq Require Import String.
From Coq Require Import NArith ZArith List Bool.
From FV Require Import Printf.PrintIntModel Printf.IsoPrintf Printf.PrintIntProofs Fmt.FmtModel.
Import ListNotations.
Local Open Scope N_scope.

Inductive ref_conv := RC_none | RC_b | RC_c | RC_d | RC_o | RC_x | RC_X.

Record ref_spec := mk_rs {
  rs_pos : option N;      (* explicit position *)
  rs_zero : bool;         (* zero fill *)
  rs_width : N;
  rs_conv : ref_conv
}.

Definition is_dig (c : byte) : bool := (48 <=? c) && (c <=? 57).

(* longest prefix of digits, and the rest *)
Fixpoint span_digits (s : list byte) : list byte * list byte :=
  match s with
  | c :: r => if is_dig c then let x := span_digits r in (c :: fst x, snd x) else ([], s)
  | [] => ([], [])
  end.

Definition dec_value (ds : list byte) : N := fold_left (fun a d => a * 10 + (d - 48)) ds 0.

Definition conv_of_byte (c : byte) : option ref_conv :=
  if c =? 98 then Some RC_b
  else if c =? 99 then Some RC_c
  else if c =? 100 then Some RC_d
  else if c =? 105 then Some RC_d
  else if c =? 111 then Some RC_o
  else if c =? 88 then Some RC_X
  else if c =? 120 then Some RC_x
  else None.

(* ([0-9]+)? *)
Definition opt_pos (ds : list byte) : option N :=
  match ds with [] => None | _ :: _ => Some (dec_value ds) end.

(* ([0-9]+)?(:0?[0-9]*[bcdioXx]?)?   -- None = not of the grammar (or no such field width) *)
Definition parse_ref (spec : list byte) : option ref_spec :=
  let pd := span_digits spec in
  let pos := opt_pos (fst pd) in
  match snd pd with
  | [] => Some (mk_rs pos false 0 RC_none)
  | c :: r1 =>
    if c =? 58 then
      let zero := match r1 with z :: _ => z =? 48 | [] => false end in
      let wd := span_digits r1 in
      let w := dec_value (fst wd) in
      if 2147483647 <? w then None else
      match snd wd with
      | [] => Some (mk_rs pos zero w RC_none)
      | [cv] => match conv_of_byte cv with Some k => Some (mk_rs pos zero w k) | None => None end
      | _ => None
      end
    else None
  end.

Definition radix_of_ref (k : ref_conv) : N :=
  match k with RC_b => 2 | RC_o => 8 | RC_x | RC_X => 16 | _ => 10 end.
Definition caps_of_ref (k : ref_conv) : bool := match k with RC_X => true | _ => false end.

(* an integer of mathematical value v: sign, digits, fill *)
Definition ref_number (v : Z) (radix : N) (caps : bool) (rs : ref_spec) : list byte :=
  print_digits_result (Z.to_N (Z.abs v)) (v <? 0)%Z radix (Z.of_N (rs_width rs)) 1
                      (if rs_zero rs then 48 else 32) false false false caps [].

Definition ref_int (v : Z) (rs : ref_spec) : outcome (list byte) :=
  match rs_conv rs with
  | RC_c => AssertStop "fo.conversion == format_conversion::null || fo.conversion == format_conversion::decimal"
  | k => Ok (ref_number v (radix_of_ref k) (caps_of_ref k) rs)
  end.

Fixpoint until_nul (s : list byte) : list byte :=
  match s with
  | [] => []
  | b :: r => if b =? 0 then [] else b :: until_nul r
  end.

Definition ref_arg (a : arg) (rs : ref_spec) : outcome (list byte) :=
  match a with
  | AUInt _ v => ref_int (Z.of_N v) rs
  | ASInt _ v => ref_int v rs
  | ABool b => ref_int (if b then 1 else 0)%Z rs
  | AChar v =>
    match rs_conv rs with
    | RC_c => Ok [Z.to_N (v mod 256)]
    | _ => ref_int v rs
    end
  | AStrView s => Ok s
  | ACStr s => Ok (until_nul s)
  | APtr v => Ok ([48; 120] ++ ref_number (Z.of_N v) 16 (caps_of_ref (rs_conv rs)) rs)
  end.

(* one brace group "{" spec "}", the [ord]-th of the format string *)
Definition ref_piece (args : list arg) (spec : list byte) (ord : N) : outcome (list byte) :=
  let whole := 123 :: spec ++ [125] in
  match parse_ref spec with
  | None => Ok whole
  | Some rs =>
    let pos := match rs_pos rs with Some p => p | None => ord end in
    if pos <? N.of_nat (length args) then
      match nth_error args (N.to_nat pos) with
      | Some a => ref_arg a rs
      | None => Ok whole
      end
    else Ok whole
  end.

(* up to the first "}" : (before, after) *)
Fixpoint split_close (s : list byte) : option (list byte * list byte) :=
  match s with
  | [] => None
  | c :: r =>
    if c =? 125 then Some ([], r)
    else match split_close r with
         | Some x => Some (c :: fst x, snd x)
         | None => None
         end
  end.

(* [n] is only a recursion measure (every step consumes at least one byte; n = length s suffices) *)
Fixpoint fmt_ref_n (n : nat) (args : list arg) (s : list byte) (ord : N) : result :=
  match n with
  | O => ([], Ok tt)
  | S n' =>
    match s with
    | [] => ([], Ok tt)
    | c :: r =>
      if c =? 123 then
        match r with
        | c2 :: r2 =>
          if c2 =? 123 then emit [123] (fmt_ref_n n' args r2 ord)          (* "{{" *)
          else
            match split_close r with
            | None => (s, Ok tt)                                            (* unclosed: verbatim *)
            | Some x =>
              piece (ref_piece args (fst x) ord) (fun l => emit l (fmt_ref_n n' args (snd x) (ord + 1)))
            end
        | [] => (s, Ok tt)                                                  (* "{" at the very end *)
        end
      else emit [c] (fmt_ref_n n' args r ord)
    end
  end.

Definition fmt_ref (s : list byte) (args : list arg) : result := fmt_ref_n (length s) args s 0.

(* the values are values of their C++ types *)
Definition arg_ok (a : arg) : Prop :=
  match a with
  | AUInt bits v => (bits = 32 \/ bits = 64) /\ v < 2 ^ bits
  | ASInt bits v => (bits = 32 \/ bits = 64) /\ (- 2 ^ (Z.of_N bits - 1) <= v < 2 ^ (Z.of_N bits - 1))%Z
  | AChar v => (-128 <= v <= 127)%Z
  | APtr v => v < 2 ^ 64
  | _ => True
  end.
Definition args_ok (args : list arg) : Prop :=
  Forall arg_ok args /\ N.of_nat (length args) < 2 ^ 64.
