(* Proofs about the fmt() model: the brace state machine and parse_fmt_spec of FmtModel.v compute, on every
   byte list and every well-typed argument list, exactly the list-level reference fmt_ref of FmtRef.v;
   consequently a run never ends in UB or OutOfFuel. *)
From Coq Require Import String.
From Coq Require Import NArith ZArith List Bool Lia ZifyBool ZifyNat ZifyN.
From FV Require Import Printf.PrintIntModel Printf.IsoPrintf Printf.PrintIntProofs Fmt.FmtModel Fmt.FmtRef.
Import ListNotations.
Local Open Scope N_scope.
Ltac Zify.zify_post_hook ::= Z.div_mod_to_equations.


(* ---------------------------------------------------------------------------------------- *)
(* reading a buffer given as a concatenation                                                  *)
(* ---------------------------------------------------------------------------------------- *)
Lemma read_app : forall p c q, read (p ++ c :: q) (length p) = Ok c.
Proof.
  intros. unfold read. rewrite nth_error_app2 by lia. rewrite Nat.sub_diag. reflexivity.
Qed.

Lemma read_range_app : forall l p q, read_range (p ++ l ++ q) (length p) (length l) = Ok l.
Proof.
  induction l as [|c l IH]; intros p q; cbn [read_range length app].
  - reflexivity.
  - rewrite read_app. cbn [bind].
    replace (p ++ c :: l ++ q) with ((p ++ [c]) ++ l ++ q) by (rewrite <- app_assoc; reflexivity).
    replace (S (length p)) with (length (p ++ [c])) by (rewrite app_length; cbn; lia).
    rewrite IH. reflexivity.
Qed.

(* ---------------------------------------------------------------------------------------- *)
(* parse_fmt_spec at list level                                                               *)
(* ---------------------------------------------------------------------------------------- *)
Fixpoint parse_list (l : list byte) (st : pstate) : outcome (option pstate) :=
  match l with
  | [] => Ok (Some st)
  | c :: r =>
    x <- parse_char c st ;;
    match x with
    | None => Ok None
    | Some st' => parse_list r st'
    end
  end.

Lemma parse_loop_list : forall l p q st, parse_loop (p ++ l ++ q) (length p) (length l) st = parse_list l st.
Proof.
  induction l as [|c l IH]; intros p q st; cbn [parse_loop parse_list length app].
  - reflexivity.
  - rewrite read_app. cbn [bind]. destruct (parse_char c st) as [[st'|]| | |]; cbn [bind]; try reflexivity.
    replace (p ++ c :: l ++ q) with ((p ++ [c]) ++ l ++ q) by (rewrite <- app_assoc; reflexivity).
    replace (S (length p)) with (length (p ++ [c])) by (rewrite app_length; cbn; lia).
    apply IH.
Qed.

Definition fo_shape (cv : format_conversion) (w : Z) (z caps : bool) : format_options :=
  mk_fo cv w (-1) false None false false false false z false caps.

Definition acc10 (t : N) (ds : list byte) : N := fold_left (fun a d => a * 10 + (d - 48)) ds t.

Lemma acc10_ge : forall ds t, t <= acc10 t ds.
Proof.
  induction ds as [|d ds IH]; intros t; cbn [acc10 fold_left].
  - lia.
  - specialize (IH (t * 10 + (d - 48))). unfold acc10 in IH. lia.
Qed.

Definition nonempty {A} (l : list A) : bool := match l with [] => false | _ => true end.

Lemma pos_digits : forall ds rest t ps fo,
  Forall (fun c => is_dig c = true) ds -> t <= SIZE_MAX ->
  parse_list (ds ++ rest) (mk_ps PM_pos ps t fo) =
    if acc10 t ds <=? SIZE_MAX
    then parse_list rest (mk_ps PM_pos (ps || nonempty ds) (acc10 t ds) fo)
    else Ok None.
Proof.
  induction ds as [|d ds IH]; intros rest t ps fo Hd Ht.
  - cbn [app acc10 fold_left nonempty]. rewrite orb_false_r.
    destruct (t <=? SIZE_MAX) eqn:E; [reflexivity | lia].
  - inversion Hd as [|? ? Hd1 Hd2]; subst.
    cbn [app parse_list]. unfold parse_char at 1. cbn [ps_mode ps_tmp_pos ps_fo ps_pos_set].
    change (is_digit d) with (is_dig d). rewrite Hd1.
    assert (Hr : 48 <= d <= 57) by (unfold is_dig in Hd1; lia).
    unfold SIZE_MAX in *.
    destruct ((18446744073709551615 - (d - 48)) / 10 <? t) eqn:E.
    + cbn [bind].
      pose proof (acc10_ge ds (t * 10 + (d - 48))) as Hge.
      cbn [acc10 fold_left]. unfold acc10 in Hge.
      destruct (fold_left _ ds (t * 10 + (d - 48)) <=? 18446744073709551615) eqn:E2; [|reflexivity].
      exfalso. lia.
    + cbn [bind].
      assert (Hs : t * 10 + (d - 48) <= 18446744073709551615) by lia.
      rewrite N.mod_small by (change (2 ^ 64) with 18446744073709551616; lia).
      rewrite IH by (assumption || (unfold SIZE_MAX; lia)).
      cbn [acc10 fold_left nonempty]. rewrite orb_true_r. unfold SIZE_MAX.
      destruct ps; reflexivity.
Qed.


Lemma with_width_shape : forall cv w z caps w', with_width (fo_shape cv w z caps) w' = fo_shape cv w' z caps.
Proof. reflexivity. Qed.
Lemma with_conv_shape : forall cv w z caps cv', with_conversion (fo_shape cv w z caps) cv' = fo_shape cv' w z caps.
Proof. reflexivity. Qed.
Lemma with_caps_shape : forall cv w z caps, with_capitals (fo_shape cv w z caps) = fo_shape cv w z true.
Proof. reflexivity. Qed.
Lemma with_fill_shape : forall cv w z caps, with_fill_zeros (fo_shape cv w z caps) = fo_shape cv w true caps.
Proof. reflexivity. Qed.

Lemma width_digit_step : forall d t ps tp cv z caps,
  is_dig d = true -> t <= 2147483647 ->
  parse_width_char d (mk_ps PM_width ps tp (fo_shape cv (Z.of_N t) z caps)) =
    if t * 10 + (d - 48) <=? 2147483647
    then Ok (Some (mk_ps PM_width ps tp (fo_shape cv (Z.of_N (t * 10 + (d - 48))) z caps)))
    else Ok None.
Proof.
  intros d t ps tp cv z caps Hd Ht.
  unfold parse_width_char. cbn [ps_fo ps_pos_set ps_tmp_pos].
  change (is_digit d) with (is_dig d). rewrite Hd.
  assert (Hr : 48 <= d <= 57) by (unfold is_dig in Hd; lia).
  change (minimum_width (fo_shape cv (Z.of_N t) z caps)) with (Z.of_N t).
  unfold INT_MAX, in_int, INT_MIN, INT_MAX.
  destruct (t * 10 + (d - 48) <=? 2147483647) eqn:E.
  - destruct (Z.of_N t >? (2147483647 - Z.of_N (d - 48)) / 10)%Z eqn:E1; [exfalso; lia|].
    destruct (negb ((-2147483648 <=? Z.of_N t * 10)%Z && (Z.of_N t * 10 <=? 2147483647)%Z)) eqn:E2; [exfalso; lia|].
    destruct (negb ((-2147483648 <=? Z.of_N t * 10 + Z.of_N (d - 48))%Z && (Z.of_N t * 10 + Z.of_N (d - 48) <=? 2147483647)%Z)) eqn:E3; [exfalso; lia|].
    rewrite with_width_shape. do 4 f_equal. lia.
  - destruct (Z.of_N t >? (2147483647 - Z.of_N (d - 48)) / 10)%Z eqn:E1; [reflexivity | exfalso; lia].
Qed.

Lemma width_digits : forall ds rest t ps tp cv z caps,
  Forall (fun c => is_dig c = true) ds -> t <= 2147483647 ->
  parse_list (ds ++ rest) (mk_ps PM_width ps tp (fo_shape cv (Z.of_N t) z caps)) =
    if acc10 t ds <=? 2147483647
    then parse_list rest (mk_ps PM_width ps tp (fo_shape cv (Z.of_N (acc10 t ds)) z caps))
    else Ok None.
Proof.
  induction ds as [|d ds IH]; intros rest t ps tp cv z caps Hd Ht.
  - cbn [app acc10 fold_left]. destruct (t <=? 2147483647) eqn:E; [reflexivity | lia].
  - inversion Hd as [|? ? Hd1 Hd2]; subst.
    cbn [app parse_list]. unfold parse_char at 1. cbn [ps_mode].
    rewrite width_digit_step by assumption.
    cbn [acc10 fold_left].
    destruct (t * 10 + (d - 48) <=? 2147483647) eqn:E; cbn [bind].
    + rewrite IH by (assumption || lia). reflexivity.
    + pose proof (acc10_ge ds (t * 10 + (d - 48))) as Hge. unfold acc10 in Hge.
      destruct (fold_left _ ds (t * 10 + (d - 48)) <=? 2147483647) eqn:E2; [exfalso; lia | reflexivity].
Qed.

(* the conversion character (or anything else that is not a digit) in width mode *)
Definition conv_of_ref (k : ref_conv) : format_conversion :=
  match k with
  | RC_none => conv_null | RC_b => conv_binary | RC_c => conv_character | RC_d => conv_decimal
  | RC_o => conv_octal | RC_x | RC_X => conv_hex
  end.

Lemma width_conv_char : forall c ps tp w z,
  is_dig c = false ->
  parse_width_char c (mk_ps PM_width ps tp (fo_shape conv_null w z false)) =
    match conv_of_byte c with
    | Some k => Ok (Some (mk_ps PM_conv ps tp (fo_shape (conv_of_ref k) w z (caps_of_ref k))))
    | None => Ok None
    end.
Proof.
  intros c ps tp w z Hd. unfold parse_width_char. cbn [ps_fo ps_pos_set ps_tmp_pos].
  change (is_digit c) with (is_dig c). rewrite Hd. unfold conv_of_byte.
  destruct (c =? 98) eqn:E1; [reflexivity|].
  destruct (c =? 99) eqn:E2; [reflexivity|].
  destruct (c =? 111) eqn:E3.
  { assert (c = 111) by lia; subst c. reflexivity. }
  destruct (c =? 105) eqn:E4.
  { assert (c = 105) by lia; subst c. reflexivity. }
  destruct (c =? 100) eqn:E5.
  { assert (c = 100) by lia; subst c. reflexivity. }
  cbn [orb].
  destruct (c =? 88) eqn:E6; [reflexivity|].
  destruct (c =? 120) eqn:E7; reflexivity.
Qed.


Definition fo_of_ref (rs : ref_spec) : format_options :=
  fo_shape (conv_of_ref (rs_conv rs)) (Z.of_N (rs_width rs)) (rs_zero rs) (caps_of_ref (rs_conv rs)).

Lemma format_integer_ref : forall tbits v rs,
  1 <= tbits -> tbits <= 64 -> (- 2 ^ (Z.of_N tbits - 1) <= v < 2 ^ 64)%Z ->
  format_integer tbits v (fo_of_ref rs) = ref_int v rs.
Proof.
  intros tbits v rs Hb1 Hb2 Hv. unfold format_integer, fo_of_ref, ref_int, ref_number.
  cbn [fo_shape fo_conversion minimum_width precision fill_zeros left_justify group_thousands always_sign
       plus_becomes_space use_capitals].
  destruct (rs_conv rs); cbn [conv_of_ref radix_of bind radix_of_ref caps_of_ref]; try reflexivity;
    rewrite print_int_spec by (assumption || lia); reflexivity.
Qed.

Lemma format_ptr_ref : forall v rs, v < 2 ^ 64 ->
  format_integer 64 (Z.of_N v) (with_conversion (fo_of_ref rs) conv_hex) =
  Ok (ref_number (Z.of_N v) 16 (caps_of_ref (rs_conv rs)) rs).
Proof.
  intros v rs Hv. unfold fo_of_ref. rewrite with_conv_shape. unfold format_integer, ref_number.
  cbn [fo_shape fo_conversion minimum_width precision fill_zeros left_justify group_thousands always_sign
       plus_becomes_space use_capitals radix_of bind].
  assert (Hr : (- 2 ^ (Z.of_N 64 - 1) <= Z.of_N v < 2 ^ 64)%Z).
  { change (2 ^ 64)%Z with (Z.of_N (2 ^ 64)). cbn. lia. }
  rewrite print_int_spec by (assumption || lia). reflexivity.
Qed.

Lemma cstr_until_nul : forall s, cstr_text s = until_nul s.
Proof. induction s as [|b s IH]; cbn; [reflexivity | rewrite IH; reflexivity]. Qed.

Lemma pow2_le_64 : forall bits, bits = 32 \/ bits = 64 -> 2 ^ bits <= 2 ^ 64.
Proof. intros bits [->| ->]; cbv; discriminate. Qed.

Lemma format_arg_ref : forall a rs, arg_ok a -> format_arg a (fo_of_ref rs) = ref_arg a rs.
Proof.
  intros a rs Ha. destruct a as [bits v|bits v|v|s|s|v|b]; cbn [format_arg ref_arg arg_ok] in *.
  - destruct Ha as [Hb Hv]. apply format_integer_ref; [destruct Hb; subst; lia | destruct Hb; subst; lia|].
    pose proof (pow2_le_64 bits Hb) as Hp.
    assert (0 < 2 ^ (Z.of_N bits - 1))%Z by (apply Z.pow_pos_nonneg; destruct Hb; subst; lia).
    change (2 ^ 64)%Z with (Z.of_N (2 ^ 64)). lia.
  - destruct Ha as [Hb Hv]. apply format_integer_ref; [destruct Hb; subst; lia | destruct Hb; subst; lia|].
    destruct Hb; subst bits; cbn in Hv |- *; lia.
  - unfold fo_of_ref at 1. cbn [fo_shape fo_conversion].
    destruct (rs_conv rs) eqn:Ec; cbn [conv_of_ref]; try reflexivity;
      rewrite <- format_integer_ref with (tbits := 8) by (cbn; lia);
      unfold fo_of_ref; rewrite Ec; reflexivity.
  - reflexivity.
  - rewrite cstr_until_nul. reflexivity.
  - rewrite format_ptr_ref by assumption. reflexivity.
  - apply format_integer_ref; [lia | lia |]. destruct b; cbn; lia.
Qed.


Lemma span_digits_spec : forall s,
  s = fst (span_digits s) ++ snd (span_digits s) /\
  Forall (fun c => is_dig c = true) (fst (span_digits s)) /\
  match snd (span_digits s) with [] => True | c :: _ => is_dig c = false end.
Proof.
  induction s as [|c s IH]; cbn [span_digits].
  - cbn. auto.
  - destruct (is_dig c) eqn:E; cbn [fst snd].
    + destruct IH as (H1 & H2 & H3). repeat split.
      * cbn [app]. f_equal. exact H1.
      * constructor; assumption.
      * exact H3.
    + repeat split; [constructor | exact E].
Qed.

Definition st0 : pstate := mk_ps PM_pos false 0 (fo_shape conv_null 0 false false).

Definition whole (spec : list byte) : list byte := 123 :: spec ++ [125].

Definition model_piece (args : list arg) (spec : list byte) (cur : N) : outcome (list byte) :=
  r <- parse_list spec st0 ;;
  match r with
  | None => Ok (whole spec)
  | Some st =>
    match format_nth args (if ps_pos_set st then ps_tmp_pos st else cur) (ps_fo st) with
    | Some o => o
    | None => Ok (whole spec)
    end
  end.

Definition ref_select (args : list arg) (spec : list byte) (pos : N) (rs : ref_spec) : outcome (list byte) :=
  if pos <? N.of_nat (length args) then
    match nth_error args (N.to_nat pos) with
    | Some a => ref_arg a rs
    | None => Ok (whole spec)
    end
  else Ok (whole spec).

Lemma format_nth_ref : forall args spec pos rs, args_ok args ->
  match format_nth args pos (fo_of_ref rs) with Some o => o | None => Ok (whole spec) end
  = ref_select args spec pos rs.
Proof.
  intros args spec pos rs [Hok _]. unfold format_nth, ref_select.
  destruct (pos <? N.of_nat (length args)); [|reflexivity].
  destruct (nth_error args (N.to_nat pos)) as [a|] eqn:E; [|reflexivity].
  apply format_arg_ref. rewrite Forall_forall in Hok. apply Hok. eapply nth_error_In; eassumption.
Qed.

Lemma parse_ref_pos : forall spec rs, parse_ref spec = Some rs -> rs_pos rs = opt_pos (fst (span_digits spec)).
Proof.
  intros spec rs. unfold parse_ref, opt_pos.
  set (p := opt_pos (fst (span_digits spec))).
  destruct (snd (span_digits spec)) as [|c r1].
  - intros H; inversion H; reflexivity.
  - destruct (c =? 58); [|discriminate].
    destruct (2147483647 <? _); [discriminate|].
    destruct (snd (span_digits r1)) as [|cv [|c2 r2]].
    + intros H; inversion H; reflexivity.
    + destruct (conv_of_byte cv); [|discriminate]. intros H; inversion H; reflexivity.
    + discriminate.
Qed.

(* the part of a specifier after ":" *)
Definition ref_tail (pos : option N) (r1 : list byte) : option ref_spec :=
  let zero := match r1 with z :: _ => z =? 48 | [] => false end in
  let wd := span_digits r1 in
  let w := dec_value (fst wd) in
  if 2147483647 <? w then None else
  match snd wd with
  | [] => Some (mk_rs pos zero w RC_none)
  | [cv] => match conv_of_byte cv with Some k => Some (mk_rs pos zero w k) | None => None end
  | _ => None
  end.

Definition result_of (args : list arg) (spec : list byte) (cur : N) (r : outcome (option pstate)) : outcome (list byte) :=
  x <- r ;;
  match x with
  | None => Ok (whole spec)
  | Some st =>
    match format_nth args (if ps_pos_set st then ps_tmp_pos st else cur) (ps_fo st) with
    | Some o => o
    | None => Ok (whole spec)
    end
  end.

Definition ref_result_of (args : list arg) (spec : list byte) (cur : N) (o : option ref_spec) : outcome (list byte) :=
  match o with
  | None => Ok (whole spec)
  | Some rs => ref_select args spec (match rs_pos rs with Some p => p | None => cur end) rs
  end.

Lemma tail_correct : forall args spec cur r1 ps tp, args_ok args ->
  result_of args spec cur (parse_list r1 (mk_ps PM_fill ps tp (fo_shape conv_null 0 false false)))
  = ref_result_of args spec cur (ref_tail (if ps then Some tp else None) r1).
Proof.
  intros args spec cur r1 ps tp Hok.
  destruct r1 as [|z r].
  - (* ":" only *)
    cbn [parse_list]. unfold ref_tail. cbn [span_digits fst snd dec_value fold_left].
    change (2147483647 <? 0) with false. cbv iota.
    unfold result_of, ref_result_of. cbn [bind ps_pos_set ps_tmp_pos ps_fo rs_pos].
    change (fo_shape conv_null 0 false false) with (fo_of_ref (mk_rs (if ps then Some tp else None) false 0 RC_none)).
    rewrite format_nth_ref by assumption. destruct ps; reflexivity.
  - (* the first character is handled in fill mode, then as in width mode *)
    assert (Hfill : parse_list (z :: r) (mk_ps PM_fill ps tp (fo_shape conv_null 0 false false)) =
                    parse_list (z :: r) (mk_ps PM_width ps tp (fo_shape conv_null (Z.of_N 0) (z =? 48) false))).
    { cbn [parse_list]. unfold parse_char. cbn [ps_mode ps_pos_set ps_tmp_pos ps_fo].
      destruct (z =? 48); reflexivity. }
    rewrite Hfill. clear Hfill.
    unfold ref_tail.
    set (zero := z =? 48).
    destruct (span_digits_spec (z :: r)) as (Hsp & Hdig & Hhd).
    set (wd := span_digits (z :: r)) in *.
    rewrite Hsp at 1.
    rewrite width_digits by (assumption || lia).
    change (acc10 0 (fst wd)) with (dec_value (fst wd)).
    destruct (dec_value (fst wd) <=? 2147483647) eqn:Ew.
    2:{ replace (2147483647 <? dec_value (fst wd)) with true by lia. reflexivity. }
    replace (2147483647 <? dec_value (fst wd)) with false by lia.
    set (w := dec_value (fst wd)) in *.
    destruct (snd wd) as [|cv r2].
    + cbn [parse_list]. unfold result_of, ref_result_of. cbn [bind ps_pos_set ps_tmp_pos ps_fo rs_pos].
      change (fo_shape conv_null (Z.of_N w) zero false) with (fo_of_ref (mk_rs (if ps then Some tp else None) zero w RC_none)).
      rewrite format_nth_ref by assumption. destruct ps; reflexivity.
    + cbn [parse_list]. unfold parse_char at 1. cbn [ps_mode].
      rewrite width_conv_char by assumption.
      destruct (conv_of_byte cv) as [k|] eqn:Ek.
      * cbn [bind]. destruct r2 as [|c2 r2].
        -- cbn [parse_list]. unfold result_of, ref_result_of. cbn [bind ps_pos_set ps_tmp_pos ps_fo rs_pos].
           change (fo_shape (conv_of_ref k) (Z.of_N w) zero (caps_of_ref k))
             with (fo_of_ref (mk_rs (if ps then Some tp else None) zero w k)).
           rewrite format_nth_ref by assumption. destruct ps; reflexivity.
        -- cbn [parse_list]. unfold parse_char. cbn [ps_mode bind]. reflexivity.
      * cbn [bind]. destruct r2; reflexivity.
Qed.

Lemma model_piece_ref : forall args spec cur, args_ok args ->
  model_piece args spec cur = ref_piece args spec cur.
Proof.
  intros args spec cur Hok.
  change (model_piece args spec cur) with (result_of args spec cur (parse_list spec st0)).
  destruct (span_digits_spec spec) as (Hsp & Hdig & Hhd).
  pose proof (parse_ref_pos spec) as Hpos.
  unfold ref_piece. fold (whole spec).
  set (pd := span_digits spec) in *.
  unfold st0. rewrite Hsp at 2.
  rewrite pos_digits by (assumption || (unfold SIZE_MAX; lia)).
  change (acc10 0 (fst pd)) with (dec_value (fst pd)).
  cbn [orb].
  destruct (dec_value (fst pd) <=? SIZE_MAX) eqn:Ev.
  2:{ (* the position does not fit size_t: rejected by the code, out of range for the reference *)
    unfold result_of. cbn [bind].
    destruct (parse_ref spec) as [rs|] eqn:Epr; [|reflexivity].
    rewrite (Hpos rs eq_refl).
    assert (Hne : opt_pos (fst pd) = Some (dec_value (fst pd))).
    { unfold opt_pos. destruct (fst pd); [exfalso; cbn in Ev; unfold SIZE_MAX in Ev; lia | reflexivity]. }
    rewrite Hne.
    destruct Hok as [_ Hlen].
    replace (dec_value (fst pd) <? N.of_nat (length args)) with false
      by (unfold SIZE_MAX in Ev; change (2 ^ 64) with 18446744073709551616 in Hlen; lia).
    reflexivity. }
  assert (Hps : (if nonempty (fst pd) then Some (dec_value (fst pd)) else None) = opt_pos (fst pd)).
  { unfold opt_pos. destruct (fst pd); reflexivity. }
  unfold parse_ref. fold pd. fold (opt_pos (fst pd)). rewrite <- Hps.
  destruct (snd pd) as [|c r1].
  - cbn [parse_list]. unfold result_of. cbn [bind ps_pos_set ps_tmp_pos ps_fo rs_pos].
    change (fo_shape conv_null 0 false false)
      with (fo_of_ref (mk_rs (if nonempty (fst pd) then Some (dec_value (fst pd)) else None) false 0 RC_none)).
    rewrite format_nth_ref by assumption. destruct (nonempty (fst pd)); reflexivity.
  - cbn [parse_list]. unfold parse_char at 1. cbn [ps_mode ps_pos_set ps_tmp_pos ps_fo].
    change (is_digit c) with (is_dig c). rewrite Hhd.
    destruct (c =? 58) eqn:Ec.
    + cbn [bind].
      change (result_of args spec cur (parse_list r1 (mk_ps PM_fill (nonempty (fst pd)) (dec_value (fst pd)) (fo_shape conv_null 0 false false)))
              = ref_result_of args spec cur (ref_tail (if nonempty (fst pd) then Some (dec_value (fst pd)) else None) r1)).
      apply tail_correct. assumption.
    + reflexivity.
Qed.


Lemma read_in_bounds : forall buf i, (i < length buf)%nat -> exists b, read buf i = Ok b.
Proof.
  intros buf i H. unfold read. destruct (nth_error buf i) eqn:E; [eauto|].
  apply nth_error_None in E. lia.
Qed.

Lemma close_spec_model : forall pre spec post args cur,
  close_spec (pre ++ 123 :: spec ++ 125 :: post) args (length pre) (length pre + 1 + length spec) cur
  = model_piece args spec cur.
Proof.
  intros pre spec post args cur. unfold close_spec, size_sub.
  replace (Nat.leb (length pre) (length pre + 1 + length spec)) with true by (symmetry; apply Nat.leb_le; lia).
  cbn [bind].
  replace (length pre + 1 + length spec - length pre)%nat with (S (length spec)) by lia.
  cbn [Nat.leb bind]. replace (S (length spec) - 1)%nat with (length spec) by lia.
  set (buf := pre ++ 123 :: spec ++ 125 :: post).
  assert (Hlen : length buf = (length pre + 1 + length spec + 1 + length post)%nat).
  { subst buf. rewrite app_length. cbn [length]. rewrite app_length. cbn [length]. lia. }
  unfold sub_string at 1.
  replace (Nat.leb (length pre + 1) (length buf) && Nat.leb (length spec) (length buf - (length pre + 1))) with true
    by (symmetry; apply andb_true_iff; split; apply Nat.leb_le; lia).
  cbn [bind]. unfold parse_fmt_spec.
  assert (Hpl : parse_loop buf (length pre + 1) (length spec) (mk_ps PM_pos false 0 (with_width default_options 0))
                = parse_list spec st0).
  { subst buf. replace (pre ++ 123 :: spec ++ 125 :: post) with ((pre ++ [123]) ++ spec ++ 125 :: post)
      by (rewrite <- app_assoc; reflexivity).
    replace (length pre + 1)%nat with (length (pre ++ [123])) by (rewrite app_length; cbn; lia).
    apply parse_loop_list. }
  rewrite Hpl. unfold model_piece.
  assert (Hecho : echo buf (length pre) (S (length spec) + 1) = Ok (whole spec)).
  { unfold echo, sub_string.
    replace (Nat.leb (length pre) (length buf) && Nat.leb (S (length spec) + 1) (length buf - length pre)) with true
      by (symmetry; apply andb_true_iff; split; apply Nat.leb_le; lia).
    cbn [bind]. subst buf. unfold whole.
    replace (pre ++ 123 :: spec ++ 125 :: post) with (pre ++ (123 :: spec ++ [125]) ++ post)
      by (cbn [app]; rewrite <- app_assoc; reflexivity).
    replace (S (length spec) + 1)%nat with (length (123 :: spec ++ [125])) by (cbn [length]; rewrite app_length; cbn; lia).
    apply read_range_app. }
  destruct (parse_list spec st0) as [[st|]| | |]; cbn [bind]; try reflexivity.
  - destruct (format_nth args (if ps_pos_set st then ps_tmp_pos st else cur) (ps_fo st)); [reflexivity | exact Hecho].
  - exact Hecho.
Qed.

Lemma split_close_spec : forall s x, split_close s = Some x -> s = fst x ++ 125 :: snd x.
Proof.
  induction s as [|c s IH]; intros x H; cbn [split_close] in H; [discriminate|].
  destruct (c =? 125) eqn:E.
  - inversion H; subst x. cbn. f_equal. lia.
  - destruct (split_close s) as [y|]; [|discriminate]. inversion H; subst x. cbn [fst snd app]. f_equal. apply IH. reflexivity.
Qed.

Section Loop.
Variable args : list arg.

(* scanning inside a specifier opened at index [length pre] *)
Lemma arg_scan : forall rest mid pre fuel cur,
  (length rest < fuel)%nat ->
  fmt_loop fuel (pre ++ 123 :: mid ++ rest) args (length pre + 1 + length mid) true (length pre) cur =
  match split_close rest with
  | None => (123 :: mid ++ rest, Ok tt)
  | Some x =>
    piece (model_piece args (mid ++ fst x) cur) (fun l =>
      emit l (fmt_loop (fuel - length (fst x) - 1) (pre ++ 123 :: mid ++ rest) args
                       (length pre + 1 + length mid + length (fst x) + 1) false (length pre) (cur + 1)))
  end.
Proof.
  induction rest as [|c r IH]; intros mid pre fuel cur Hf.
  - destruct fuel as [|f]; [cbn in Hf; lia|]. cbn [fmt_loop split_close].
    assert (Hlen : length (pre ++ 123 :: mid ++ []) = (length pre + 1 + length mid)%nat).
    { rewrite app_length. cbn [length]. rewrite app_length. cbn. lia. }
    rewrite Hlen. rewrite Nat.ltb_irrefl. cbn [negb].
    unfold size_sub. replace (Nat.leb (length pre) (length pre + 1 + length mid)) with true by (symmetry; apply Nat.leb_le; lia).
    cbn [bind]. unfold echo, sub_string. rewrite Hlen.
    replace (Nat.leb (length pre) (length pre + 1 + length mid) &&
             Nat.leb (length pre + 1 + length mid - length pre) (length pre + 1 + length mid - length pre)) with true
      by (symmetry; apply andb_true_iff; split; apply Nat.leb_le; lia).
    cbn [bind].
    replace (length pre + 1 + length mid - length pre)%nat with (length (123 :: mid)) by (cbn [length]; lia).
    rewrite app_nil_r.
    replace (pre ++ 123 :: mid) with (pre ++ (123 :: mid) ++ []) by (rewrite app_nil_r; reflexivity).
    rewrite read_range_app. cbn [piece]. reflexivity.
  - destruct fuel as [|f]; [cbn in Hf; lia|]. cbn [length] in Hf.
    set (buf := pre ++ 123 :: mid ++ c :: r).
    assert (Hlen : length buf = (length pre + 1 + length mid + 1 + length r)%nat).
    { subst buf. rewrite app_length. cbn [length]. rewrite app_length. cbn [length]. lia. }
    cbn [fmt_loop]. fold buf. rewrite Hlen.
    replace (Nat.ltb (length pre + 1 + length mid) (length pre + 1 + length mid + 1 + length r)) with true
      by (symmetry; apply Nat.ltb_lt; lia).
    cbn [negb].
    assert (Hrd : read buf (length pre + 1 + length mid) = Ok c).
    { subst buf. replace (pre ++ 123 :: mid ++ c :: r) with ((pre ++ 123 :: mid) ++ c :: r)
        by (rewrite <- app_assoc; reflexivity).
      replace (length pre + 1 + length mid)%nat with (length (pre ++ 123 :: mid)) by (rewrite app_length; cbn [length]; lia).
      apply read_app. }
    rewrite Hrd. cbn [piece].
    assert (Hnext : exists nx, (if Nat.ltb (length pre + 1 + length mid + 1) (length pre + 1 + length mid + 1 + length r)
                                then read buf (length pre + 1 + length mid + 1) else Ok 0) = Ok nx).
    { destruct (Nat.ltb _ _) eqn:E; [|eauto]. apply read_in_bounds. apply Nat.ltb_lt in E. lia. }
    destruct Hnext as [nx Hnx]. rewrite Hnx. cbn [piece negb].
    cbn [split_close].
    destruct (c =? 125) eqn:Ec.
    + assert (c = 125) by lia. subst c.
      subst buf. rewrite close_spec_model. cbn [fst snd length]. rewrite app_nil_r.
      replace (S f - 0 - 1)%nat with f by lia.
      replace (length pre + 1 + length mid + 0 + 1)%nat with (length pre + 1 + length mid + 1)%nat by lia.
      reflexivity.
    + subst buf.
      replace (pre ++ 123 :: mid ++ c :: r) with (pre ++ 123 :: (mid ++ [c]) ++ r)
        by (rewrite <- app_assoc; reflexivity).
      replace (length pre + 1 + length mid + 1)%nat with (length pre + 1 + length (mid ++ [c]))%nat
        by (rewrite app_length; cbn; lia).
      rewrite IH by lia.
      destruct (split_close r) as [x|]; cbn [fst snd length].
      * rewrite <- app_assoc. cbn [app].
        replace (S f - S (length (fst x)) - 1)%nat with (f - length (fst x) - 1)%nat by lia.
        replace (length pre + 1 + length (mid ++ [c]) + length (fst x) + 1)%nat
          with (length pre + 1 + length mid + S (length (fst x)) + 1)%nat by (rewrite app_length; cbn; lia).
        reflexivity.
      * rewrite <- app_assoc. reflexivity.
Qed.

Hypothesis Hok : args_ok args.

Lemma str_loop : forall n rest pre fuel start cur,
  (length rest <= n)%nat -> (length rest < fuel)%nat ->
  fmt_loop fuel (pre ++ rest) args (length pre) false start cur = fmt_ref_n n args rest cur.
Proof.
  induction n as [|n IH]; intros rest pre fuel start cur Hn Hf.
  - destruct rest; [|cbn in Hn; lia]. destruct fuel as [|f]; [cbn in Hf; lia|].
    cbn [fmt_loop fmt_ref_n]. rewrite app_nil_r. rewrite Nat.ltb_irrefl. reflexivity.
  - destruct fuel as [|f]; [lia|].
    destruct rest as [|c r].
    { cbn [fmt_loop fmt_ref_n]. rewrite app_nil_r. rewrite Nat.ltb_irrefl. reflexivity. }
    cbn [length] in Hn, Hf.
    cbn [fmt_loop fmt_ref_n].
    assert (Hlen : length (pre ++ c :: r) = (length pre + 1 + length r)%nat) by (rewrite app_length; cbn; lia).
    rewrite Hlen.
    replace (Nat.ltb (length pre) (length pre + 1 + length r)) with true by (symmetry; apply Nat.ltb_lt; lia).
    cbn [negb]. rewrite read_app. cbn [piece].
    (* continuing in text mode after one more byte *)
    assert (Hstep : forall c', fmt_loop f (pre ++ c' :: r) args (length pre + 1) false start cur = fmt_ref_n n args r cur).
    { intros c'. replace (pre ++ c' :: r) with ((pre ++ [c']) ++ r) by (rewrite <- app_assoc; reflexivity).
      replace (length pre + 1)%nat with (length (pre ++ [c'])) by (rewrite app_length; cbn; lia).
      apply IH; lia. }
    destruct r as [|c2 r2].
    + (* last byte *)
      cbn [length]. replace (Nat.ltb (length pre + 1) (length pre + 1 + 0)) with false by (symmetry; apply Nat.ltb_ge; lia).
      cbn [piece]. change (0 =? 123) with false. cbn [negb]. rewrite andb_true_r.
      destruct (c =? 123) eqn:Ec.
      * assert (c = 123) by lia. subst c.
        pose proof (arg_scan [] [] pre f cur) as Hs. cbn [app length split_close] in Hs.
        replace (length pre + 1 + 0)%nat with (length pre + 1)%nat in Hs by lia.
        rewrite Hs by (cbn in Hf; lia). reflexivity.
      * rewrite Hstep. reflexivity.
    + cbn [length].
      replace (Nat.ltb (length pre + 1) (length pre + 1 + S (length r2))) with true by (symmetry; apply Nat.ltb_lt; lia).
      assert (Hrd2 : read (pre ++ c :: c2 :: r2) (length pre + 1) = Ok c2).
      { replace (pre ++ c :: c2 :: r2) with ((pre ++ [c]) ++ c2 :: r2) by (rewrite <- app_assoc; reflexivity).
        replace (length pre + 1)%nat with (length (pre ++ [c])) by (rewrite app_length; cbn; lia).
        apply read_app. }
      rewrite Hrd2. cbn [piece].
      destruct (c =? 123) eqn:Ec; cbn [andb].
      * assert (c = 123) by lia. subst c.
        destruct (c2 =? 123) eqn:Ec2; cbn [negb].
        -- (* "{{" *)
           assert (c2 = 123) by lia. subst c2.
           replace (pre ++ 123 :: 123 :: r2) with ((pre ++ [123; 123]) ++ r2) by (rewrite <- app_assoc; reflexivity).
           replace (length pre + 1 + 1)%nat with (length (pre ++ [123; 123])) by (rewrite app_length; cbn; lia).
           rewrite IH by (cbn [length] in *; lia). reflexivity.
        -- (* a specifier *)
           pose proof (arg_scan (c2 :: r2) [] pre f cur) as Hs. cbn [app length] in Hs.
           replace (length pre + 1 + 0)%nat with (length pre + 1)%nat in Hs by lia.
           rewrite Hs by (cbn [length] in Hf; lia). clear Hs.
           destruct (split_close (c2 :: r2)) as [x|] eqn:Esp; [|reflexivity].
           rewrite model_piece_ref by assumption.
           destruct (ref_piece args (fst x) cur) as [l| | |]; cbn [piece]; try reflexivity.
           f_equal.
           pose proof (split_close_spec _ _ Esp) as Hsplit.
           assert (Hl : length (c2 :: r2) = (length (fst x) + 1 + length (snd x))%nat).
           { rewrite Hsplit at 1. rewrite app_length. cbn [length]. lia. }
           cbn [length] in Hl.
           replace (pre ++ 123 :: c2 :: r2) with ((pre ++ 123 :: fst x ++ [125]) ++ snd x).
           2:{ rewrite Hsplit. rewrite <- app_assoc. cbn [app]. rewrite <- app_assoc. reflexivity. }
           replace (length pre + 1 + length (fst x) + 1)%nat with (length (pre ++ 123 :: fst x ++ [125]))
             by (rewrite app_length; cbn [length]; rewrite app_length; cbn; lia).
           apply IH; cbn [length] in *; lia.
      * rewrite Hstep. reflexivity.
Qed.

Theorem run_fmt_ref : forall buf, run_fmt buf args = fmt_ref buf args.
Proof.
  intros buf. unfold run_fmt, fmt_ref.
  apply (str_loop (length buf) buf [] (S (length buf)) O 0); lia.
Qed.

End Loop.

(* ---------------------------------------------------------------------------------------- *)
(* the reference never ends in UB or OutOfFuel; it stops in the assertion only on a "c"       *)
(* ---------------------------------------------------------------------------------------- *)
Definition safe_outcome {A} (o : outcome A) : Prop := (exists a, o = Ok a) \/ (exists w, o = AssertStop w).

Lemma ref_arg_stops : forall a rs, (exists l, ref_arg a rs = Ok l) \/
  ((exists w, ref_arg a rs = AssertStop w) /\ rs_conv rs = RC_c).
Proof.
  intros a rs. destruct a; cbn [ref_arg]; unfold ref_int; destruct (rs_conv rs); eauto.
Qed.

Lemma parse_ref_conv_c : forall spec rs, parse_ref spec = Some rs -> rs_conv rs = RC_c -> In 99 spec.
Proof.
  intros spec rs. unfold parse_ref.
  destruct (span_digits_spec spec) as (Hsp & _ & _).
  destruct (snd (span_digits spec)) as [|c r1] eqn:E1.
  - intros H; inversion H; subst rs. discriminate.
  - destruct (c =? 58); [|discriminate].
    destruct (2147483647 <? _); [discriminate|].
    destruct (span_digits_spec r1) as (Hsp1 & _ & _).
    destruct (snd (span_digits r1)) as [|cv [|c2 r2]] eqn:E2.
    + intros H; inversion H; subst rs. discriminate.
    + destruct (conv_of_byte cv) as [k|] eqn:Ek; [|discriminate].
      intros H; inversion H; subst rs. cbn [rs_conv]. intros ->.
      assert (cv = 99).
      { unfold conv_of_byte in Ek.
        destruct (cv =? 98); [discriminate|]. destruct (cv =? 99) eqn:E99; [lia|].
        destruct (cv =? 100); [discriminate|]. destruct (cv =? 105); [discriminate|].
        destruct (cv =? 111); [discriminate|]. destruct (cv =? 88); [discriminate|].
        destruct (cv =? 120); discriminate. }
      subst cv. rewrite Hsp. apply in_or_app. right. right. rewrite Hsp1. apply in_or_app. right. left. reflexivity.
    + discriminate.
Qed.

Lemma ref_piece_stops : forall args spec ord, (exists l, ref_piece args spec ord = Ok l) \/
  ((exists w, ref_piece args spec ord = AssertStop w) /\ In 99 spec).
Proof.
  intros args spec ord. unfold ref_piece.
  destruct (parse_ref spec) as [rs|] eqn:E; [|eauto].
  destruct (_ <? _); [|eauto].
  destruct (nth_error args _) as [a|]; [|eauto].
  destruct (ref_arg_stops a rs) as [H|[H Hc]]; [eauto|].
  right. split; [assumption|]. eapply parse_ref_conv_c; eassumption.
Qed.

Lemma fmt_ref_n_stops : forall n args s ord,
  snd (fmt_ref_n n args s ord) = Ok tt \/ ((exists w, snd (fmt_ref_n n args s ord) = AssertStop w) /\ In 99 s).
Proof.
  induction n as [|n IH]; intros args s ord; cbn [fmt_ref_n]; [auto|].
  destruct s as [|c r]; [auto|].
  destruct (c =? 123).
  - destruct r as [|c2 r2]; [auto|].
    destruct (c2 =? 123).
    + cbn [emit snd]. destruct (IH args r2 ord) as [H|[H Hin]]; [auto|]. right. split; [assumption|]. right. right. assumption.
    + destruct (split_close (c2 :: r2)) as [x|] eqn:Esp; [|auto].
      pose proof (split_close_spec _ _ Esp) as Hs.
      destruct (ref_piece_stops args (fst x) ord) as [[l Hl]|[[w Hw] Hin]].
      * rewrite Hl. cbn [piece emit snd].
        destruct (IH args (snd x) (ord + 1)) as [H|[H Hin]]; [auto|].
        right. split; [assumption|]. right. rewrite Hs. apply in_or_app. right. right. assumption.
      * rewrite Hw. cbn [piece stop snd]. right. split; [eauto|]. right. rewrite Hs. apply in_or_app. left. assumption.
  - cbn [emit snd]. destruct (IH args r ord) as [H|[H Hin]]; [auto|]. right. split; [assumption|]. right. assumption.
Qed.

Theorem run_fmt_total_safe : forall buf args, args_ok args ->
  snd (run_fmt buf args) <> OutOfFuel /\ (forall w, snd (run_fmt buf args) <> UB w) /\
  (snd (run_fmt buf args) = Ok tt \/ ((exists w, snd (run_fmt buf args) = AssertStop w) /\ In 99 buf)).
Proof.
  intros buf args Hok. rewrite run_fmt_ref by assumption. unfold fmt_ref.
  destruct (fmt_ref_n_stops (length buf) args buf 0) as [H|[[w H] Hin]]; rewrite H.
  - repeat split; try discriminate. auto.
  - repeat split; try discriminate. right. eauto.
Qed.

(* text without an opening brace is copied *)
Lemma fmt_ref_text : forall n args s ord, (length s <= n)%nat -> ~ In 123 s -> fmt_ref_n n args s ord = (s, Ok tt).
Proof.
  induction n as [|n IH]; intros args s ord Hn Hni.
  - destruct s; [reflexivity | cbn in Hn; lia].
  - destruct s as [|c r]; [reflexivity|]. cbn [fmt_ref_n].
    destruct (c =? 123) eqn:E.
    + exfalso. apply Hni. left. lia.
    + rewrite IH; [reflexivity | cbn in Hn; lia | intros H; apply Hni; right; assumption].
Qed.

(* ---------------------------------------------------------------------------------------- *)
(* a single well-formed specifier                                                             *)
(* ---------------------------------------------------------------------------------------- *)
Lemma split_close_app : forall a rest, ~ In 125 a -> split_close (a ++ 125 :: rest) = Some (a, rest).
Proof.
  induction a as [|c a IH]; intros rest Hni; cbn [app split_close].
  - reflexivity.
  - destruct (c =? 125) eqn:E.
    + exfalso. apply Hni. left. lia.
    + rewrite IH by (intros H; apply Hni; right; assumption). reflexivity.
Qed.

Lemma digits_no_brace : forall ds b, Forall (fun c => is_dig c = true) ds -> (b = 123 \/ b = 125) -> ~ In b ds.
Proof.
  intros ds b Hd Hb Hin. rewrite Forall_forall in Hd. specialize (Hd b Hin). unfold is_dig in Hd. lia.
Qed.

Lemma parse_ref_no_brace : forall spec rs b, parse_ref spec = Some rs -> (b = 123 \/ b = 125) -> ~ In b spec.
Proof.
  intros spec rs b. unfold parse_ref.
  destruct (span_digits_spec spec) as (Hsp & Hd & _).
  destruct (snd (span_digits spec)) as [|c r1] eqn:E1.
  - intros _ Hb. rewrite Hsp, app_nil_r. apply digits_no_brace; assumption.
  - destruct (c =? 58) eqn:Ec; [|discriminate].
    destruct (2147483647 <? _); [discriminate|].
    destruct (span_digits_spec r1) as (Hsp1 & Hd1 & _).
    intros H Hb. rewrite Hsp. intros Hin. apply in_app_or in Hin. destruct Hin as [Hin|[Hin|Hin]].
    + exact (digits_no_brace _ _ Hd Hb Hin).
    + lia.
    + rewrite Hsp1 in Hin. apply in_app_or in Hin. destruct Hin as [Hin|Hin].
      * exact (digits_no_brace _ _ Hd1 Hb Hin).
      * destruct (snd (span_digits r1)) as [|cv [|c2 r2]]; [destruct Hin | | discriminate].
        destruct (conv_of_byte cv) eqn:Ek; [|discriminate].
        destruct Hin as [Hin|[]]. subst cv. unfold conv_of_byte in Ek.
        destruct Hb; subst b; discriminate.
Qed.

Theorem fmt_wellformed_spec : forall spec rs args a, args_ok args -> parse_ref spec = Some rs ->
  let pos := match rs_pos rs with Some p => p | None => 0 end in
  pos < N.of_nat (length args) -> nth_error args (N.to_nat pos) = Some a ->
  run_fmt (123 :: spec ++ [125]) args = piece (ref_arg a rs) (fun l => (l, Ok tt)).
Proof.
  intros spec rs args a Hok Hp pos Hlt Hnth. rewrite run_fmt_ref by assumption. unfold fmt_ref.
  cbn [length fmt_ref_n]. change (123 =? 123) with true. cbv iota.
  assert (H123 : ~ In 123 spec) by (eapply parse_ref_no_brace; eauto).
  assert (H125 : ~ In 125 spec) by (eapply parse_ref_no_brace; eauto).
  assert (Hsc : split_close (spec ++ [125]) = Some (spec, [])) by (apply split_close_app; assumption).
  destruct (spec ++ [125]) as [|c2 r2] eqn:Es.
  { destruct spec; discriminate. }
  assert (Hc2 : (c2 =? 123) = false).
  { destruct spec as [|s0 sp]; cbn [app] in Es; inversion Es; subst.
    - reflexivity.
    - destruct (c2 =? 123) eqn:E; [|reflexivity]. exfalso. apply H123. left. lia. }
  rewrite Hc2, Hsc. cbn [fst snd].
  unfold ref_piece. rewrite Hp. fold pos. replace (pos <? N.of_nat (length args)) with true by lia.
  rewrite Hnth.
  destruct (ref_arg a rs); cbn [piece]; try reflexivity.
  cbn [length fmt_ref_n]. unfold emit. cbn [fst snd]. rewrite app_nil_r. reflexivity.
Qed.
