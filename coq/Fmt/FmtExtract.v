From FV Require Import Common.ExtractTypes Printf.PrintIntModel Fmt.FmtModel Fmt.LoggerModel Fmt.FmtRef.
From Coq Require Extraction.
From Coq Require Import ExtrOcamlBasic.
Extraction "../build/extract/fmt_model.ml" types_witness run_fmt format_arg default_options run_logger fmt_ref.
