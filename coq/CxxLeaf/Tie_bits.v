(* Tie of frg::pcg_basic32 and frg::mt19937 (include/frg/random.hpp): the definitions regenerated from the source
   (Gen/Cxx_bits.v) equal the hand-written ones of Bits/PrngModel.v, for ALL inputs of the stated ranges.
     gen_pcg_next_eq_model     operator()()            state_ < 2^64
     gen_pcg_seed_eq_model     seed(seed, seq)         any arguments, any previous members
     gen_pcg_bounded_eq_model  operator()(bound)       same three-valued result (value / division by zero / out of fuel)
     gen_mt_seed_eq_model      seed(s)                 |_st| = 624, s < 2^32, fuel >= 624
     gen_mt_next_eq_model      operator()()            |_st| = 624, 0 <= _ctr <= 624, fuel >= 397 (both regeneration
                                                       loops, the wrap-around word and the tempering)
   Loops are handled by invariants (induction on the remaining iterations), not by evaluation. *)
From Coq Require Import List NArith ZArith Bool Lia.
From FV Require Import CxxLeaf.CxxSem Gen.Cxx_bits.
From FV Require Bits.PrngModel.
Module M := PrngModel.
Import ListNotations.
Local Open Scope N_scope.
Ltac pw := change (2 ^ 64) with 18446744073709551616 in *; change (2 ^ 32) with 4294967296 in *.
Ltac ev t := let v := eval vm_compute in t in change t with v.

Lemma t32_wrap x : M.t32 x = wrap 32 x.
Proof. unfold M.t32, wrap. change M.m32 with (N.ones 32). apply N.land_ones. Qed.
Lemma t64_wrap x : M.t64 x = wrap 64 x.
Proof. unfold M.t64, wrap. change M.m64 with (N.ones 64). apply N.land_ones. Qed.

(* ---- pcg_basic32::operator()() *)
Lemma gen_pcg_next_eq_model inc st : st < 2 ^ 64 ->
  pcg_next inc st = Ok (snd (M.pcg_next (M.mk_pcg st inc)), M.pcg_state (fst (M.pcg_next (M.mk_pcg st inc)))).
Proof.
  intros Hst. unfold pcg_next, M.pcg_next, M.pcg_output, M.rotr_expr. cbn [fst snd M.pcg_state M.pcg_inc]. cbv zeta.
  rewrite (shr_u_N 64 st 18) by lia. rewrite bind_Ok. rewrite (shr_u_N 64 _ 27) by lia. rewrite bind_Ok.
  rewrite (shr_u_N 64 st 59) by lia. rewrite bind_Ok.
  assert (Hs : N.shiftr st 59 < 32).
  { rewrite N.shiftr_div_pow2. apply N.div_lt_upper_bound; [discriminate|]. pw. change (2 ^ 59 * 32) with 18446744073709551616. lia. }
  assert (Hrot : wrap 32 (N.shiftr st 59) < 32) by (rewrite wrap_small by (pw; lia); exact Hs).
  rewrite shr_u_N by exact Hrot. rewrite bind_Ok.
  assert (Hm : N.land (neg_u 32 (wrap 32 (N.shiftr st 59))) 31 < 32).
  { change 31 with (N.ones 5). rewrite N.land_ones. apply N.mod_lt. discriminate. }
  rewrite shl_u_N by exact Hm. rewrite bind_Ok.
  rewrite !t32_wrap, t64_wrap.
  rewrite neg_u_eq by (apply wrap_lt).
  unfold M.pcg_sh_a, M.pcg_sh_b, M.pcg_sh_rot, M.pcg_rot_mask, M.pcg_mult.
  do 3 f_equal.
  unfold add_u, mul_u, wrap. now rewrite N.add_mod_idemp_l by discriminate.
Qed.

Lemma pcg_next_state_lt g : M.pcg_state (fst (M.pcg_next g)) < 2 ^ 64.
Proof. unfold M.pcg_next. cbn. rewrite t64_wrap. apply wrap_lt. Qed.
Lemma pcg_next_inc g : M.pcg_inc (fst (M.pcg_next g)) = M.pcg_inc g.
Proof. reflexivity. Qed.

(* ---- pcg_basic32::seed(seed, seq): the members before the call are irrelevant *)
Lemma gen_pcg_seed_eq_model inc0 st0 seed seq :
  pcg_seed inc0 st0 seed seq = Ok (M.pcg_inc (M.pcg_seed seed seq), M.pcg_state (M.pcg_seed seed seq)).
Proof.
  unfold pcg_seed, M.pcg_seed. cbv zeta.
  change 1%Z with (Z.of_N 1). rewrite shl_u_N by lia. rewrite bind_Ok.
  rewrite gen_pcg_next_eq_model by (pw; lia). rewrite bind_Ok. cbv beta iota.
  rewrite t64_wrap.
  set (g1 := fst (M.pcg_next (M.mk_pcg 0 (N.lor (wrap 64 (N.shiftl seq 1)) 1)))).
  rewrite gen_pcg_next_eq_model by apply add_u_lt. rewrite bind_Ok. cbv beta iota.
  rewrite t64_wrap. change (add_u 64 (M.pcg_state g1) seed) with (wrap 64 (M.pcg_state g1 + seed)).
  reflexivity.
Qed.

(* ---- pcg_basic32::operator()(bound) against the model's three-valued draw *)
Definition draw_rel (inc : N) (g : outcome (N * N)) (m : M.draw) : Prop :=
  match m with
  | M.DOk g' v => g = Ok (v, M.pcg_state g') /\ M.pcg_inc g' = inc
  | M.DDivZero => g = UB UDivZero
  | M.DOutOfFuel => g = OutOfFuel
  end.

Lemma pcg_loop_tie fuel : forall inc st bound thr, st < 2 ^ 64 -> bound <> 0 ->
  match M.pcg_loop fuel (M.mk_pcg st inc) bound thr with
  | M.DOk g' v => pcg_bounded_loop1 fuel inc bound thr st = Ok (LReturn (v, M.pcg_state g')) /\ M.pcg_inc g' = inc
  | M.DDivZero => False
  | M.DOutOfFuel => pcg_bounded_loop1 fuel inc bound thr st = OutOfFuel
  end.
Proof.
  induction fuel as [|f IH]; intros inc st bound thr Hst Hb; [reflexivity|].
  cbn [M.pcg_loop pcg_bounded_loop1].
  rewrite gen_pcg_next_eq_model by exact Hst. rewrite bind_Ok. cbv beta iota zeta.
  change (snd (M.pcg_next (M.mk_pcg st inc))) with (M.pcg_output st).
  change (M.pcg_state (fst (M.pcg_next (M.mk_pcg st inc)))) with (M.t64 (st * M.pcg_mult + inc)).
  change (M.pcg_next (M.mk_pcg st inc)) with (M.mk_pcg (M.t64 (st * M.pcg_mult + inc)) inc, M.pcg_output st). cbv iota.
  destruct (thr <=? M.pcg_output st).
  - unfold rem_u. destruct (N.eqb_spec bound 0); [contradiction|]. rewrite bind_Ok.
    split; reflexivity.
  -     refine (IH inc (M.t64 (st * M.pcg_mult + inc)) bound thr _ Hb). rewrite t64_wrap. apply wrap_lt.
Qed.

Lemma gen_pcg_bounded_eq_model fuel inc st bound : st < 2 ^ 64 -> bound < 2 ^ 32 ->
  draw_rel inc (pcg_bounded fuel inc st bound) (M.pcg_bounded fuel (M.mk_pcg st inc) bound).
Proof.
  intros Hst Hb. unfold pcg_bounded, M.pcg_bounded.
  destruct (N.eqb_spec bound 0) as [->|Hz]; [reflexivity|].
  unfold rem_u at 1. destruct (N.eqb_spec bound 0); [contradiction|]. rewrite bind_Ok. cbv zeta.
  replace (neg_u 32 bound mod bound) with (M.pcg_threshold bound)
    by (unfold M.pcg_threshold; rewrite t32_wrap, neg_u_eq by exact Hb; reflexivity).
  pose proof (pcg_loop_tie fuel inc st bound (M.pcg_threshold bound) Hst Hz) as H.
  destruct (M.pcg_loop fuel _ bound _); cbn [draw_rel].
  - destruct H as [-> H2]. split; [reflexivity|exact H2].
  - contradiction.
  - rewrite H. reflexivity.
Qed.

(* ---- helpers *)
Lemma upd_eq {A} (l : list A) i v : upd l i v = M.upd l i v.
Proof. revert i; induction l; destruct i; cbn; congruence. Qed.
Lemma aread_nat {A} (l : list A) (z : Z) (i : nat) d : z = Z.of_nat i -> (i < length l)%nat -> aread l z = Ok (nth i l d).
Proof. intros -> H. now apply aread_ok. Qed.
Lemma awrite_nat {A} (l : list A) (z : Z) (i : nat) v : z = Z.of_nat i -> (i < length l)%nat -> awrite l z v = Ok (M.upd l i v).
Proof. intros -> H. rewrite <- upd_eq. now apply awrite_ok. Qed.
Lemma add_s32_ok a b : (-2147483648 <= a + b < 2147483648)%Z -> add_s 32 a b = Ok (a + b)%Z.
Proof.
  intros. unfold add_s, chk_s, in_s. change (- 2 ^ (Z.of_N 32 - 1))%Z with (-2147483648)%Z. change (2 ^ (Z.of_N 32 - 1))%Z with 2147483648%Z.
  destruct (Z.leb_spec (-2147483648) (a + b)); [|lia]. destruct (Z.ltb_spec (a + b) 2147483648); [reflexivity|lia].
Qed.
Lemma sub_s32_ok a b : (-2147483648 <= a - b < 2147483648)%Z -> sub_s 32 a b = Ok (a - b)%Z.
Proof.
  intros. unfold sub_s, chk_s, in_s. change (- 2 ^ (Z.of_N 32 - 1))%Z with (-2147483648)%Z. change (2 ^ (Z.of_N 32 - 1))%Z with 2147483648%Z.
  destruct (Z.leb_spec (-2147483648) (a - b)); [|lia]. destruct (Z.ltb_spec (a - b) 2147483648); [reflexivity|lia].
Qed.
Lemma length_Mupd {A} (l : list A) i v : length (M.upd l i v) = length l.
Proof. rewrite <- upd_eq. apply length_upd. Qed.

(* ---- mt19937::seed *)
Definition seed_step (st : list N) (i : nat) : list N := M.upd st i (M.seed_next (nth (i - 1) st 0) i).

Lemma mt_seed_loop_tie k : forall fuel i st, (k < fuel)%nat -> length st = 624%nat -> (1 <= i)%nat -> (i + k = 624)%nat ->
  mt_seed_loop1 fuel (Z.of_nat i) st = Ok (624%Z, fold_left seed_step (seq i k) st).
Proof.
  induction k as [|k IH]; intros fuel i st Hf Hl Hi Hk; (destruct fuel as [|fuel]; [lia|]); cbn [mt_seed_loop1 seq fold_left].
  - change c_mt19937_n with 624%Z. destruct (Z.ltb_spec (Z.of_nat i) 624); [lia|]. repeat f_equal. lia.
  - change c_mt19937_n with 624%Z. destruct (Z.ltb_spec (Z.of_nat i) 624); [|lia].
    rewrite sub_s32_ok by lia. rewrite !bind_Ok.
    rewrite (aread_nat st _ (i - 1) 0) by lia. rewrite !bind_Ok.
    rewrite (aread_nat st _ (i - 1) 0) by lia. rewrite !bind_Ok.
    change 30%Z with (Z.of_N 30). rewrite shr_u_N by lia. rewrite bind_Ok.
    rewrite (awrite_nat st _ i) by lia. rewrite bind_Ok. cbv zeta.
    rewrite add_s32_ok by lia. rewrite bind_Ok.
    replace (Z.of_nat i + 1)%Z with (Z.of_nat (S i)) by lia.
    replace (add_u 32 (mul_u 32 1812433253 (N.lxor (nth (i - 1) st 0) (N.shiftr (nth (i - 1) st 0) 30))) (cast_u 32 (Z.of_nat i)))
      with (M.seed_next (nth (i - 1) st 0) i).
    2:{ unfold M.seed_next. rewrite t32_wrap. unfold add_u, mul_u, wrap, M.mt_init_mult, M.mt_init_shift.
        rewrite N.add_mod_idemp_l by discriminate. do 2 f_equal.
        unfold cast_u. rewrite Z.mod_small by (change (2 ^ Z.of_N 32)%Z with 4294967296%Z; lia). lia. }
    fold (seed_step st i). apply IH; try lia. unfold seed_step. now rewrite length_Mupd.
Qed.

Lemma nth_Mupd_same {A} (l : list A) i v d : (i < length l)%nat -> nth i (M.upd l i v) d = v.
Proof. rewrite <- upd_eq. apply nth_upd_same. Qed.
Lemma nth_Mupd_other {A} (l : list A) i j v d : i <> j -> nth j (M.upd l i v) d = nth j l d.
Proof. rewrite <- upd_eq. apply nth_upd_other. Qed.

(* seeding overwrites every word: the result does not depend on the words >= i of the starting state *)
Lemma seed_fold_agree k : forall i a b, length a = length b -> (1 <= i)%nat -> (i + k <= length a)%nat ->
  (forall j, (j < i)%nat -> nth j a 0 = nth j b 0) ->
  length (fold_left seed_step (seq i k) a) = length (fold_left seed_step (seq i k) b) /\
  forall j, (j < i + k)%nat -> nth j (fold_left seed_step (seq i k) a) 0 = nth j (fold_left seed_step (seq i k) b) 0.
Proof.
  induction k as [|k IH]; intros i a b Hl Hi Hk Hag; cbn [seq fold_left].
  - split; [exact Hl|]. intros j Hj. apply Hag. lia.
  - destruct (IH (S i) (seed_step a i) (seed_step b i)) as [H1 H2].
    + unfold seed_step. now rewrite !length_Mupd.
    + lia.
    + unfold seed_step. rewrite length_Mupd. lia.
    + intros j Hj. unfold seed_step. destruct (Nat.eq_dec i j) as [<-|Hne].
      * rewrite !nth_Mupd_same by lia. now rewrite Hag by lia.
      * rewrite !nth_Mupd_other by exact Hne. apply Hag. lia.
    + split; [exact H1|]. intros j Hj. apply H2. lia.
Qed.

Lemma seed_fold_length k : forall i a, length (fold_left seed_step (seq i k) a) = length a.
Proof. induction k; intros; cbn [seq fold_left]; [reflexivity|]. rewrite IHk. unfold seed_step. apply length_Mupd. Qed.

Lemma gen_mt_seed_eq_model fuel ctr st s : (624 <= fuel)%nat -> length st = 624%nat -> s < 2 ^ 32 ->
  mt_seed fuel ctr st s = Ok (Z.of_nat (M.mt_ctr (M.mt_seed s)), M.mt_st (M.mt_seed s)).
Proof.
  intros Hf Hl Hs. unfold mt_seed.
  rewrite (awrite_nat st 0%Z 0) by (rewrite ?Hl; lia). rewrite bind_Ok. cbv zeta.
  change 1%Z with (Z.of_nat 1).
  rewrite (mt_seed_loop_tie 623) by (rewrite ?length_Mupd; lia). rewrite bind_Ok. cbv iota beta.
  unfold M.mt_seed. cbn [M.mt_ctr M.mt_st]. change (Z.of_nat M.mt_n) with 624%Z. do 2 f_equal.
  change (fun (st0 : list N) (i : nat) => M.upd st0 i (M.seed_next (nth (i - 1) st0 0) i)) with seed_step.
  change (M.mt_n - 1)%nat with 623%nat. rewrite t32_wrap, wrap_small by exact Hs.
  destruct (seed_fold_agree 623 1 (M.upd st 0 s) (M.upd (repeat 0 M.mt_n) 0 s)) as [H1 H2].
  - now rewrite !length_Mupd, repeat_length.
  - lia.
  - rewrite length_Mupd. lia.
  - intros j Hj. assert (j = 0)%nat as -> by lia. rewrite !nth_Mupd_same; [reflexivity| |]; rewrite ?repeat_length; [unfold M.mt_n|]; lia.
  - apply (nth_ext _ _ 0 0 H1). intros j Hj. apply H2.
    rewrite seed_fold_length, length_Mupd in Hj. lia.
Qed.

(* ---- mt19937::operator()() *)
Lemma mag_read y : aread [0; c_mt19937_matrix_a] (Z.of_N (N.land y 1)) = Ok (M.mag01 y).
Proof.
  unfold M.mag01. change 1 with (N.ones 1). rewrite N.land_ones. change (2 ^ 1) with 2.
  pose proof (N.mod_lt y 2 ltac:(discriminate)) as H.
  set (r := y mod 2) in *. assert (E : r = 0 \/ r = 1) by lia. destruct E as [-> | ->]; reflexivity.
Qed.
Lemma twist_val a hi lo :
  N.lxor (N.lxor a (N.shiftr (N.lor (N.land hi c_mt19937_msb) (N.land lo c_mt19937_lsbs)) 1))
         (M.mag01 (N.lor (N.land hi c_mt19937_msb) (N.land lo c_mt19937_lsbs))) = N.lxor a (M.twist hi lo).
Proof. unfold M.twist. cbv zeta. now rewrite N.lxor_assoc. Qed.

Definition step1 (st : list N) (kk : nat) : list N := M.regen_step st kk (kk + M.mt_m) (kk + 1).
Definition step2 (st : list N) (kk : nat) : list N := M.regen_step st kk (kk - (M.mt_n - M.mt_m)) (kk + 1).
Lemma length_regen st a b c : length (M.regen_step st a b c) = length st.
Proof. apply length_Mupd. Qed.

Lemma mt_loop1_tie k : forall fuel kk st, (k < fuel)%nat -> length st = 624%nat -> (kk + k = 227)%nat ->
  mt_next_loop1 fuel [0; c_mt19937_matrix_a] st (Z.of_nat kk) = Ok (fold_left step1 (seq kk k) st, 227%Z).
Proof.
  induction k as [|k IH]; intros fuel kk st Hf Hl Hk; (destruct fuel as [|fuel]; [lia|]); cbn [mt_next_loop1 seq fold_left];
    ev (sub_s 32 c_mt19937_n c_mt19937_m); rewrite bind_Ok.
  - destruct (Z.ltb_spec (Z.of_nat kk) 227); [lia|]. repeat f_equal. lia.
  - destruct (Z.ltb_spec (Z.of_nat kk) 227); [|lia]. change c_mt19937_m with 397%Z.
    rewrite (aread_nat st _ kk 0) by lia. rewrite bind_Ok.
    rewrite add_s32_ok by lia. rewrite bind_Ok.
    rewrite (aread_nat st _ (kk + 1) 0) by lia. rewrite bind_Ok. cbv zeta.
    rewrite add_s32_ok by lia. rewrite bind_Ok.
    rewrite (aread_nat st _ (kk + 397) 0) by lia. rewrite bind_Ok.
    change 1%Z with (Z.of_N 1) at 1. rewrite shr_u_N by lia. rewrite bind_Ok.
    rewrite mag_read, bind_Ok.
    rewrite (awrite_nat st _ kk) by lia. rewrite !bind_Ok.
    rewrite twist_val. fold (M.regen_step st kk (kk + 397) (kk + 1)). change 397%nat with M.mt_m. fold (step1 st kk).
    replace (Z.of_nat kk + 1)%Z with (Z.of_nat (S kk)) by lia.
    apply IH; try lia. unfold step1. now rewrite length_regen.
Qed.

Lemma mt_loop2_tie k : forall fuel kk st, (k < fuel)%nat -> length st = 624%nat -> (227 <= kk)%nat -> (kk + k = 623)%nat ->
  mt_next_loop2 fuel [0; c_mt19937_matrix_a] st (Z.of_nat kk) = Ok (fold_left step2 (seq kk k) st, 623%Z).
Proof.
  induction k as [|k IH]; intros fuel kk st Hf Hl Hlo Hk; (destruct fuel as [|fuel]; [lia|]); cbn [mt_next_loop2 seq fold_left];
    ev (sub_s 32 c_mt19937_n 1); rewrite bind_Ok.
  - destruct (Z.ltb_spec (Z.of_nat kk) 623); [lia|]. repeat f_equal. lia.
  - destruct (Z.ltb_spec (Z.of_nat kk) 623); [|lia].
    ev (sub_s 32 c_mt19937_m c_mt19937_n).
    rewrite (aread_nat st _ kk 0) by lia. rewrite bind_Ok.
    rewrite add_s32_ok by lia. rewrite bind_Ok.
    rewrite (aread_nat st _ (kk + 1) 0) by lia. rewrite !bind_Ok. cbv zeta.
    rewrite add_s32_ok by lia. rewrite bind_Ok.
    rewrite (aread_nat st _ (kk - 227) 0) by lia. rewrite bind_Ok.
    change 1%Z with (Z.of_N 1) at 1. rewrite shr_u_N by lia. rewrite bind_Ok.
    rewrite mag_read, bind_Ok.
    rewrite (awrite_nat st _ kk) by lia. rewrite !bind_Ok.
    rewrite twist_val. fold (M.regen_step st kk (kk - 227) (kk + 1)). change 227%nat with (M.mt_n - M.mt_m)%nat at 1. fold (step2 st kk).
    replace (Z.of_nat kk + 1)%Z with (Z.of_nat (S kk)) by lia.
    apply IH; try lia. unfold step2. now rewrite length_regen.
Qed.

Lemma fold_length {A B} (f : list A -> B -> list A) (Hf : forall l b, length (f l b) = length l) xs :
  forall l, length (fold_left f xs l) = length l.
Proof. induction xs; intros; cbn; [reflexivity|]. now rewrite IHxs, Hf. Qed.

Lemma mt_regen_eq st :
  M.mt_regen st = M.regen_step (fold_left step2 (seq 227 396) (fold_left step1 (seq 0 227) st)) 623 396 0.
Proof. reflexivity. Qed.

Lemma gen_mt_next_eq_model fuel (c : nat) st : (397 <= fuel)%nat -> length st = 624%nat -> (c <= 624)%nat ->
  mt_next fuel (Z.of_nat c) st =
  Ok (snd (M.mt_next (M.mk_mt st c)), Z.of_nat (M.mt_ctr (fst (M.mt_next (M.mk_mt st c)))), M.mt_st (fst (M.mt_next (M.mk_mt st c)))).
Proof.
  intros Hf Hl Hc. unfold mt_next, M.mt_next. cbv zeta. cbn [M.mt_ctr M.mt_st fst snd].
  change c_mt19937_n with 624%Z. change M.mt_n with 624%nat.
  assert (Hfin : forall c' st', (c' < 624)%nat -> length st' = 624%nat ->
    (let t31 := Z.of_nat c' in
     t32 <- add_s 32 (Z.of_nat c') 1 ;; t33 <- aread st' t31 ;;
     t34 <- shr_u 32 t33 11 ;; t35 <- shl_u 32 (N.lxor t33 t34) 7 ;;
     t36 <- shl_u 32 (N.lxor (N.lxor t33 t34) (N.land t35 2636928640)) 15 ;;
     t37 <- shr_u 32 (N.lxor (N.lxor (N.lxor t33 t34) (N.land t35 2636928640)) (N.land t36 4022730752)) 18 ;;
     Ok (N.lxor (N.lxor (N.lxor (N.lxor t33 t34) (N.land t35 2636928640)) (N.land t36 4022730752)) t37, t32, st')) =
    Ok (M.temper (nth c' st' 0), Z.of_nat (S c'), st')).
  { intros c' st' Hc' Hl'. cbv zeta. rewrite add_s32_ok by lia. rewrite bind_Ok.
    rewrite (aread_nat st' _ c' 0) by lia. rewrite bind_Ok.
    change 11%Z with (Z.of_N 11). change 7%Z with (Z.of_N 7). change 15%Z with (Z.of_N 15). change 18%Z with (Z.of_N 18).
    rewrite shr_u_N by lia. rewrite bind_Ok. rewrite shl_u_N by lia. rewrite bind_Ok.
    rewrite shl_u_N by lia. rewrite bind_Ok. rewrite shr_u_N by lia. rewrite bind_Ok.
    unfold M.temper. cbv zeta. rewrite !t32_wrap. repeat f_equal. lia. }
  destruct (Z.leb_spec 624 (Z.of_nat c)) as [Hge|Hlt].
  - destruct (Nat.leb_spec 624 c) as [_|]; [|lia]. cbn [M.mt_ctr M.mt_st].
    change 0%Z with (Z.of_nat 0) at 1.
    rewrite (mt_loop1_tie 227) by lia. rewrite bind_Ok. cbv iota beta.
    ev (sub_s 32 624 c_mt19937_m). rewrite bind_Ok.
    set (st1 := fold_left step1 (seq 0 227) st).
    assert (Hl1 : length st1 = 624%nat) by (unfold st1; rewrite fold_length; [exact Hl|intros; apply length_regen]).
    change 227%Z with (Z.of_nat 227).
    rewrite (mt_loop2_tie 396) by lia. rewrite bind_Ok. cbv iota beta.
    set (st2 := fold_left step2 (seq 227 396) st1).
    assert (Hl2 : length st2 = 624%nat) by (unfold st2; rewrite fold_length; [exact Hl1|intros; apply length_regen]).
    ev (sub_s 32 624 1). rewrite bind_Ok.
    rewrite (aread_nat st2 _ 623 0) by lia. rewrite bind_Ok.
    rewrite (aread_nat st2 _ 0 0) by lia. rewrite bind_Ok.
    ev (sub_s 32 c_mt19937_m 1). rewrite bind_Ok.
    rewrite (aread_nat st2 _ 396 0) by lia. rewrite bind_Ok.
    change 1%Z with (Z.of_N 1) at 1. rewrite shr_u_N by lia. rewrite bind_Ok.
    rewrite mag_read, !bind_Ok.
    rewrite (awrite_nat st2 _ 623) by lia. rewrite !bind_Ok.
    rewrite twist_val. rewrite mt_regen_eq. fold st1. fold st2. unfold M.regen_step.
    change 0%Z with (Z.of_nat 0) at 1 2. rewrite (Hfin 0%nat) by (rewrite ?length_Mupd; lia). reflexivity.
  - destruct (Nat.leb_spec 624 c) as [|_]; [lia|]. rewrite bind_Ok. cbv iota beta. cbn [M.mt_ctr M.mt_st].
    rewrite (Hfin c) by lia. reflexivity.
Qed.
