(* Tie of generic_strlen / generic_strnlen, basic_string_view<char>::find_first / find_last and
   basic_string<char, A>::compare(const char * ), basic_string_view<char>::to_number<unsigned long>()
   (include/frg/string.hpp):
   the definitions regenerated from the source (Gen/Cxx_str.v, instance Char = char) agree with Str/StrModel.v.
   StrModel keeps a memory of byte buffers (0..255) and a log of the ranges read; the generated code sees the buffer as
   a list of `char` values (cmem l = map schar l) and a pointer as an offset.  out_rel compares the outcomes (first
   component of the model's writer monad): same value, or undefined behaviour on both sides (the read/pointer step past
   the buffer), or out of fuel on both sides.  Proved for every buffer, offset, length and fuel above the stated bound. *)
From Coq Require Import List NArith ZArith Bool Lia.
From FV Require Import CxxLeaf.CxxSem Gen.Cxx_str.
From FV Require Str.StrModel.
Module T := StrModel.
Import ListNotations.
Local Open Scope N_scope.
Ltac pw := change (2 ^ 64) with 18446744073709551616 in *; change (2 ^ 32) with 4294967296 in *.

(* the C++ side sees `char` (signed, 8 bit) values; the model stores bytes 0..255 *)
Definition cmem (l : list T.byte) : list Z := map T.schar l.
Definition bytes (l : list T.byte) : Prop := Forall (fun x => x < 256) l.

(* same result; undefined on both sides (the models name the reason differently); or both out of fuel *)
Definition out_rel {A} (g : outcome A) (r : T.R A) : Prop :=
  match g, fst r with
  | Ok a, T.Ok b => a = b
  | UB _, T.UB _ => True
  | OutOfFuel, T.OutOfFuel => True
  | _, _ => False
  end.

Lemma fst_bindR {A B} (c : T.R A) (f : A -> T.R B) :
  fst (T.bindR c f) = match fst c with T.Ok a => fst (f a) | o => T.errR o end.
Proof. destruct c as [[a|w|w|] l]; cbn; try reflexivity. destruct (f a); reflexivity. Qed.

Lemma fst_read m b l i : T.mem_get m b = Some l ->
  fst (T.read m b i) = match nth_error l (N.to_nat i) with Some x => T.Ok x | None => T.UB T.oob end.
Proof. intros H. unfold T.read. rewrite H. destruct (nth_error l (N.to_nat i)); reflexivity. Qed.

Lemma aread_cmem l (i : N) z : z = Z.of_N i ->
  aread (cmem l) z = match nth_error l (N.to_nat i) with Some x => Ok (T.schar x) | None => UB UOutOfBounds end.
Proof.
  intros ->. unfold aread, cmem. destruct (Z.ltb_spec (Z.of_N i) 0); [lia|].
  replace (Z.to_nat (Z.of_N i)) with (N.to_nat i) by lia. rewrite nth_error_map. destruct (nth_error l (N.to_nat i)); reflexivity.
Qed.

Lemma schar_eqb x c : x < 256 -> c < 256 -> (T.schar x =? T.schar c)%Z = (x =? c).
Proof.
  intros Hx Hc. destruct (N.eqb_spec x c) as [->|Hne]; [apply Z.eqb_refl|].
  apply Z.eqb_neq. unfold T.schar. destruct (N.ltb_spec x 128), (N.ltb_spec c 128); lia.
Qed.
Lemma schar_zero x : x < 256 -> (T.schar x =? 0)%Z = (x =? 0).
Proof. intros. change 0%Z with (T.schar 0). apply schar_eqb; lia. Qed.

Lemma sub_s32_ok' a c : (-2147483648 <= a - c < 2147483648)%Z -> sub_s 32 a c = Ok (a - c)%Z.
Proof.
  intros. unfold sub_s, chk_s, in_s. change (- 2 ^ (Z.of_N 32 - 1))%Z with (-2147483648)%Z. change (2 ^ (Z.of_N 32 - 1))%Z with 2147483648%Z.
  destruct (Z.leb_spec (-2147483648) (a - c)); [|lia]. destruct (Z.ltb_spec (a - c) 2147483648); [reflexivity|lia].
Qed.
Lemma nth_error_bytes l n x : bytes l -> nth_error l n = Some x -> x < 256.
Proof. intros H E. apply nth_error_In in E. unfold bytes in H. rewrite Forall_forall in H. now apply H. Qed.

Section WithMem.
Variable m : T.mem.
Variables (b : nat) (l : list T.byte) (off len : N).
Hypothesis Hm : T.mem_get m b = Some l.
Hypothesis Hl : bytes l.
Hypothesis Hlen : len < 2 ^ 64.

(* ---- basic_string_view<char>::find_first(c, start_from); members: _pointer = (cmem l, off), _length = len *)
Definition ff_rest (r : loopres N N) : outcome N :=
  match r with LReturn t5 => Ok t5 | LNormal _ => t4 <- neg_s 32 1%Z ;; Ok (cast_u 64 t4) end.

Lemma ff_tie c (Hc : c < 256) k : forall fuel i, (k < fuel)%nat -> N.of_nat k = len - i -> (k = 0%nat -> len <= i) ->
  out_rel (r <- find_first_loop1 fuel len (Z.of_N off) (cmem l) (T.schar c) i ;; ff_rest r)
          (T.ff_loop m (T.V b off len) c k i).
Proof.
  induction k as [|k IH]; intros fuel i Hf Hk Hz; (destruct fuel as [|fuel]; [lia|]); cbn [find_first_loop1 T.ff_loop].
  - destruct (N.ltb_spec i len); [specialize (Hz eq_refl); lia|]. reflexivity.
  - destruct (N.ltb_spec i len); [|lia].
    unfold out_rel. rewrite fst_bindR. unfold T.rd, T.vptr, T.readp. rewrite (fst_read m b l) by exact Hm.
    rewrite (aread_cmem l (off + i)) by lia.
    destruct (nth_error l (N.to_nat (off + i))) as [x|] eqn:E; [|exact I].
    rewrite !bind_Ok. rewrite schar_eqb by (try exact Hc; eapply nth_error_bytes; eauto).
    destruct (x =? c); [reflexivity|]. cbv zeta.
    rewrite add_u_small by (pw; lia).
    apply IH; lia.
Qed.

Lemma gen_find_first_eq_model fuel c start : c < 256 -> (N.to_nat (len - start) < fuel)%nat ->
  out_rel (find_first fuel len (Z.of_N off) (cmem l) (T.schar c) start) (T.find_first m (T.V b off len) c start).
Proof.
  intros Hc Hf. unfold find_first, T.find_first. cbv zeta. cbn [T.vlen].
  apply (ff_tie c Hc (N.to_nat (len - start))); lia.
Qed.

(* ---- find_last(c) *)
Lemma fl_tie c (Hc : c < 256) k : forall fuel, (k < fuel)%nat -> N.of_nat k <= len ->
  out_rel (r <- find_last_loop1 fuel (Z.of_N off) (cmem l) (T.schar c) (N.of_nat k) ;; ff_rest r)
          (T.fl_loop m (T.V b off len) c k).
Proof.
  induction k as [|k IH]; intros fuel Hf Hk; (destruct fuel as [|fuel]; [lia|]); cbn [find_last_loop1 T.fl_loop].
  - reflexivity.
  - destruct (N.ltb_spec 0 (N.of_nat (S k))); [|lia].
    rewrite (sub_u_ge 64 (N.of_nat (S k)) 1) by (pw; lia). replace (N.of_nat (S k) - 1) with (N.of_nat k) by lia.
    unfold out_rel. rewrite fst_bindR. unfold T.rd, T.vptr, T.readp. rewrite (fst_read m b l) by exact Hm.
    rewrite (aread_cmem l (off + N.of_nat k)) by lia.
    destruct (nth_error l (N.to_nat (off + N.of_nat k))) as [x|] eqn:E; [|exact I].
    rewrite !bind_Ok. rewrite schar_eqb by (try exact Hc; eapply nth_error_bytes; eauto).
    destruct (x =? c); [reflexivity|]. cbv zeta.
    apply IH; lia.
Qed.

Lemma gen_find_last_eq_model fuel c : c < 256 -> (N.to_nat len < fuel)%nat ->
  out_rel (find_last fuel len (Z.of_N off) (cmem l) (T.schar c)) (T.find_last m (T.V b off len) c).
Proof.
  intros Hc Hf. unfold find_last, T.find_last. cbv zeta. cbn [T.vlen].
  rewrite <- (N2Nat.id len) at 1. apply (fl_tie c Hc (N.to_nat len)); lia.
Qed.
End WithMem.

Section StrLen.
Variable m : T.mem.
Variables (b : nat) (l : list T.byte).
Hypothesis Hm : T.mem_get m b = Some l.
Hypothesis Hl : bytes l.
Hypothesis Hsz : N.of_nat (length l) < 2 ^ 64.     (* an object is smaller than the address space *)

Lemma ptr_add_ok len p d : (0 <= p + d <= Z.of_nat len)%Z -> ptr_add len p d = Ok (p + d)%Z.
Proof.
  intros. unfold ptr_add. destruct (Z.leb_spec 0 (p + d)); [|lia].
  destruct (Z.leb_spec (p + d) (Z.of_nat len)); [reflexivity|lia].
Qed.
Lemma ptr_add_bad len p d : (Z.of_nat len < p + d)%Z -> ptr_add len p d = UB UPtrRange.
Proof.
  intros. unfold ptr_add. destruct (Z.leb_spec 0 (p + d)); cbn; [|reflexivity].
  destruct (Z.leb_spec (p + d) (Z.of_nat len)); [lia|reflexivity].
Qed.
Lemma length_cmem : length (cmem l) = length l.
Proof. apply map_length. Qed.

(* ---- generic_strlen(p), p = &buffer[off]; d = bytes left *)
Lemma strlen_tie off d : forall fuel k i, (d < fuel)%nat -> (d < k)%nat -> (length l - N.to_nat (off + i) = d)%nat ->
  out_rel ('(c, n) <- generic_strlen_loop1 fuel (cmem l) (Z.of_N (off + i)) i ;; Ok n)
          (T.strlen_loop m (T.P b off) k i).
Proof.
  induction d as [|d IH]; intros fuel k i Hf Hk Hd; (destruct fuel as [|fuel]; [lia|]); (destruct k as [|k]; [lia|]);
    cbn [generic_strlen_loop1 T.strlen_loop]; cbv zeta; rewrite length_cmem;
    unfold out_rel; rewrite fst_bindR; unfold T.readp; rewrite (fst_read m b l) by exact Hm.
  - (* at or past the end: the pointer step / the read is undefined *)
    rewrite ptr_add_bad by lia.
    destruct (nth_error l (N.to_nat (off + i))) eqn:E; [|exact I].
    assert (nth_error l (N.to_nat (off + i)) <> None) by congruence. apply nth_error_Some in H. lia.
  - rewrite ptr_add_ok by lia. rewrite bind_Ok.
    rewrite (aread_cmem l (off + i)) by lia.
    destruct (nth_error l (N.to_nat (off + i))) as [x|] eqn:E; [|exact I].
    rewrite !bind_Ok. rewrite schar_zero by (eapply nth_error_bytes; eauto).
    destruct (x =? 0); cbn [negb]; [reflexivity|].
    assert (nth_error l (N.to_nat (off + i)) <> None) by congruence. apply nth_error_Some in H.
    rewrite add_u_small by (pw; lia).
    replace (Z.of_N (off + i) + 1)%Z with (Z.of_N (off + (i + 1))) by lia.
    apply IH; lia.
Qed.

Lemma gen_strlen_eq_model fuel off : (length l < fuel)%nat ->
  out_rel (generic_strlen fuel (cmem l) (Z.of_N off)) (T.generic_strlen m (T.P b off)).
Proof.
  intros Hf. unfold generic_strlen, T.generic_strlen, T.strlen_fuel, T.buf_len. rewrite Hm. cbv zeta.
  rewrite <- (N.add_0_r off) at 1.
  apply (strlen_tie off (length l - N.to_nat (off + 0))); lia.
Qed.

(* ---- generic_strnlen(p, max) *)
Lemma strnlen_tie off mx d : forall fuel k i, (d < fuel)%nat -> (d < k)%nat -> (length l - N.to_nat (off + i) = d)%nat ->
  out_rel ('(c, n) <- generic_strnlen_loop1 fuel (cmem l) mx (Z.of_N (off + i)) i ;; Ok n)
          (T.strnlen_loop m (T.P b off) mx k i).
Proof.
  induction d as [|d IH]; intros fuel k i Hf Hk Hd; (destruct fuel as [|fuel]; [lia|]); (destruct k as [|k]; [lia|]);
    cbn [generic_strnlen_loop1 T.strnlen_loop]; cbv zeta; rewrite length_cmem;
    (destruct (i <? mx); [|reflexivity]);
    unfold out_rel; rewrite fst_bindR; unfold T.readp; rewrite (fst_read m b l) by exact Hm.
  - rewrite ptr_add_bad by lia.
    destruct (nth_error l (N.to_nat (off + i))) eqn:E; [|exact I].
    assert (nth_error l (N.to_nat (off + i)) <> None) by congruence. apply nth_error_Some in H. lia.
  - rewrite ptr_add_ok by lia. rewrite bind_Ok.
    rewrite (aread_cmem l (off + i)) by lia.
    destruct (nth_error l (N.to_nat (off + i))) as [x|] eqn:E; [|exact I].
    rewrite !bind_Ok. rewrite schar_zero by (eapply nth_error_bytes; eauto). cbv iota beta.
    destruct (x =? 0); cbn [negb]; [reflexivity|].
    assert (nth_error l (N.to_nat (off + i)) <> None) by congruence. apply nth_error_Some in H.
    rewrite add_u_small by (pw; lia).
    replace (Z.of_N (off + i) + 1)%Z with (Z.of_N (off + (i + 1))) by lia.
    apply IH; lia.
Qed.

Lemma gen_strnlen_eq_model fuel off mx : (length l < fuel)%nat ->
  out_rel (generic_strnlen fuel (cmem l) (Z.of_N off) mx) (T.generic_strnlen m (T.P b off) mx).
Proof.
  intros Hf. unfold generic_strnlen, T.generic_strnlen, T.strlen_fuel, T.buf_len. rewrite Hm. cbv zeta.
  rewrite <- (N.add_0_r off) at 1.
  apply (strnlen_tie off mx (length l - N.to_nat (off + 0))); lia.
Qed.
End StrLen.

(* ---- basic_string<char, A>::compare(const char *other): members _buffer = (cmem la, offa), _length = lena *)
Section Compare.
Variable m : T.mem.
Variables (ba bb : nat) (la lb : list T.byte) (offa lena offb : N).
Hypothesis Hma : T.mem_get m ba = Some la.
Hypothesis Hmb : T.mem_get m bb = Some lb.
Hypothesis Hla : bytes la.
Hypothesis Hlb : bytes lb.
Hypothesis Hszb : N.of_nat (length lb) < 2 ^ 64.
Hypothesis Hlena : lena < 2 ^ 64.

Definition cmp_rest (r : loopres N Z) : outcome Z := match r with LReturn t => Ok t | LNormal _ => Ok 0%Z end.

Lemma cmp_tie k : forall fuel i, (k < fuel)%nat -> N.of_nat k = lena - i -> (k = 0%nat -> lena <= i) ->
  out_rel (r <- compare_cstr_loop1 fuel (Z.of_N offa) (cmem la) lena (Z.of_N offb) (cmem lb) i ;; cmp_rest r)
          (T.cmp_loop m (T.V ba offa lena) (T.P bb offb) k i).
Proof.
  induction k as [|k IH]; intros fuel i Hf Hk Hz; (destruct fuel as [|fuel]; [lia|]); cbn [compare_cstr_loop1 T.cmp_loop].
  - destruct (N.ltb_spec i lena); [specialize (Hz eq_refl); lia|]. reflexivity.
  - destruct (N.ltb_spec i lena); [|lia].
    unfold out_rel. rewrite fst_bindR. unfold T.rd, T.vptr, T.readp. rewrite (fst_read m ba la) by exact Hma.
    rewrite (aread_cmem la (offa + i)) by lia.
    destruct (nth_error la (N.to_nat (offa + i))) as [x|] eqn:Ex; [|exact I].
    rewrite !bind_Ok. rewrite fst_bindR. rewrite (fst_read m bb lb) by exact Hmb.
    rewrite (aread_cmem lb (offb + i)) by lia.
    destruct (nth_error lb (N.to_nat (offb + i))) as [y|] eqn:Ey; [|exact I].
    rewrite !bind_Ok.
    rewrite schar_eqb by (first [eapply (nth_error_bytes la); eassumption | eapply (nth_error_bytes lb); eassumption]).
    destruct (x =? y); cbn [negb].
    + cbv zeta. rewrite add_u_small by (pw; lia). apply IH; lia.
    + change (neg_s 32 1%Z) with (@Ok Z (-1)%Z). rewrite !bind_Ok.
      destruct (T.schar x <? T.schar y)%Z; reflexivity.
Qed.

Lemma gen_compare_cstr_eq_model fuel : (length lb < fuel)%nat -> (N.to_nat lena < fuel)%nat ->
  out_rel (compare_cstr fuel (Z.of_N offa) (cmem la) lena (cmem lb) (Z.of_N offb))
          (T.bindR (T.generic_strlen m (T.P bb offb)) (fun n => T.compare_len m (T.V ba offa lena) (T.P bb offb) n)).
Proof.
  intros Hf1 Hf2. unfold compare_cstr.
  pose proof (gen_strlen_eq_model m bb lb Hmb Hlb Hszb fuel offb Hf1) as Hs.
  unfold out_rel in *. rewrite fst_bindR.
  destruct (generic_strlen fuel (cmem lb) (Z.of_N offb)) as [n| | |], (fst (T.generic_strlen m (T.P bb offb))) as [n'| | |];
    try contradiction; try exact I. subst n'. rewrite bind_Ok. cbv zeta.
  unfold T.compare_len. cbn [T.vlen].
  destruct (lena =? n); cbn [negb].
  - apply (cmp_tie (N.to_nat lena)); lia.
  - change (neg_s 32 1%Z) with (@Ok Z (-1)%Z). rewrite !bind_Ok. destruct (lena <? n); reflexivity.
Qed.
End Compare.

(* ---- basic_string_view<char>::to_number<unsigned long>() *)
Section ToNumber.
Variable m : T.mem.
Variables (b : nat) (l : list T.byte) (off len : N).
Hypothesis Hm : T.mem_get m b = Some l.
Hypothesis Hl : bytes l.
Hypothesis Hlen : len < 2 ^ 64.
Definition u64 : T.ity := T.mkT false 64.

Definition tn_rest (r : loopres (N * N) (option N)) : outcome (option N) :=
  match r with LReturn t => Ok t | LNormal (_, v) => Ok (Some v) end.

Lemma digit_schar x : x < 256 -> ((48 <=? T.schar x)%Z && (T.schar x <=? 57)%Z)%bool = T.is_digit x.
Proof.
  intros H. unfold T.is_digit, T.schar.
  destruct (N.ltb_spec x 128), (N.leb_spec 48 x), (N.leb_spec x 57);
    repeat match goal with |- context [(?a <=? ?c)%Z] => destruct (Z.leb_spec a c) end; try reflexivity; lia.
Qed.

Lemma tn_tie k : forall fuel i value, (k < fuel)%nat -> N.of_nat k = len - i -> (k = 0%nat -> len <= i) -> value < 2 ^ 64 ->
  out_rel (r <- to_number_u64_loop1 fuel len (Z.of_N off) (cmem l) i value ;; tn_rest r)
          (T.num_loop m T.acc_checked u64 (T.V b off len) k i value).
Proof.
  induction k as [|k IH]; intros fuel i value Hf Hk Hz Hv; (destruct fuel as [|fuel]; [lia|]);
    cbn [to_number_u64_loop1 T.num_loop].
  - destruct (N.ltb_spec i len); [specialize (Hz eq_refl); lia|]. reflexivity.
  - destruct (N.ltb_spec i len); [|lia].
    unfold out_rel. rewrite fst_bindR. unfold T.rd, T.vptr, T.readp. rewrite (fst_read m b l) by exact Hm.
    rewrite !(aread_cmem l (off + i)) by lia.
    destruct (nth_error l (N.to_nat (off + i))) as [x|] eqn:E; [|exact I].
    assert (Hx : x < 256) by (eapply nth_error_bytes; eauto).
    rewrite !bind_Ok.
    assert (Ed : (if (48 <=? T.schar x)%Z then Ok (T.schar x <=? 57)%Z else Ok false) = Ok (T.is_digit x)).
    { rewrite <- digit_schar by exact Hx. destruct (48 <=? T.schar x)%Z; reflexivity. }
    rewrite Ed, bind_Ok. destruct (T.is_digit x) eqn:Dg; cbn [negb]; [|reflexivity].
    assert (Hd : 48 <= x <= 57).
    { unfold T.is_digit in Dg. apply andb_true_iff in Dg. destruct Dg as [D1 D2]. apply N.leb_le in D1, D2. lia. }
    unfold T.acc_checked, u64, T.t_max. cbn [T.t_signed T.t_bits]. cbv zeta.
    change (2 ^ 64 - 1) with 18446744073709551615.
    unfold ovf_u at 1. change (2 ^ Z.of_N 64)%Z with 18446744073709551616%Z.
    assert (Es : T.schar x = Z.of_N x) by (unfold T.schar; destruct (N.ltb_spec x 128); lia).
    destruct (N.ltb_spec 18446744073709551615 (value * 10)) as [Ho|Hno].
    + (* the product does not fit *)
      destruct (Z.leb_spec 0 (Z.of_N value * Z.of_N 10)); [|lia].
      destruct (Z.ltb_spec (Z.of_N value * Z.of_N 10) 18446744073709551616); [lia|]. cbn [andb negb].
      rewrite bind_Ok. reflexivity.
    + destruct (Z.leb_spec 0 (Z.of_N value * Z.of_N 10)); [|lia].
      destruct (Z.ltb_spec (Z.of_N value * Z.of_N 10) 18446744073709551616); [|lia]. cbn [andb negb].
      rewrite bind_Ok. rewrite Es. rewrite sub_s32_ok' by lia. rewrite !bind_Ok.
      assert (Ec : cast_u 64 (Z.of_N value * Z.of_N 10) = value * 10).
      { unfold cast_u. change (2 ^ Z.of_N 64)%Z with 18446744073709551616%Z. rewrite Z.mod_small by lia. lia. }
      assert (Ec2 : cast_u 64 (Z.of_N x - 48) = x - 48).
      { unfold cast_u. change (2 ^ Z.of_N 64)%Z with 18446744073709551616%Z. rewrite Z.mod_small by lia. lia. }
      rewrite Ec, Ec2. unfold ovf_u. change (2 ^ Z.of_N 64)%Z with 18446744073709551616%Z.
      destruct (N.ltb_spec 18446744073709551615 (value * 10 + (x - 48))) as [Ho2|Hno2].
      * destruct (Z.leb_spec 0 (Z.of_N (value * 10) + Z.of_N (x - 48))); [|lia].
        destruct (Z.ltb_spec (Z.of_N (value * 10) + Z.of_N (x - 48)) 18446744073709551616); [lia|]. cbn [andb negb].
        rewrite bind_Ok. reflexivity.
      * destruct (Z.leb_spec 0 (Z.of_N (value * 10) + Z.of_N (x - 48))); [|lia].
        destruct (Z.ltb_spec (Z.of_N (value * 10) + Z.of_N (x - 48)) 18446744073709551616); [|lia]. cbn [andb negb].
        rewrite bind_Ok. cbv iota beta.
        replace (cast_u 64 (Z.of_N (value * 10) + Z.of_N (x - 48))) with (value * 10 + (x - 48))
          by (unfold cast_u; change (2 ^ Z.of_N 64)%Z with 18446744073709551616%Z; rewrite Z.mod_small by lia; lia).
        rewrite add_u_small by (pw; lia).
        apply IH; try lia; pw; lia.
Qed.

Lemma gen_to_number_u64_eq_model fuel : (N.to_nat len < fuel)%nat ->
  out_rel (to_number_u64 fuel len (Z.of_N off) (cmem l)) (T.to_number m u64 (T.V b off len)).
Proof.
  intros Hf. unfold to_number_u64, T.to_number, T.to_number_with. cbv zeta. cbn [T.vlen].
  apply (tn_tie (N.to_nat len)); try lia; pw; lia.
Qed.
End ToNumber.
