(* Tie of frg::insertion_sort (include/frg/algorithm.hpp), instance Iter = int*, Comp = `<` on int, begin/end into the
   same array: the definition regenerated from the source (Gen/Cxx_sort.v; two nested fuelled loops over the array as a
   list, std::swap as value exchange, pointer steps checked against the array bounds) computes
   SortModel.insertion_sort (<?) for EVERY int array -- via the literal index model isort_idx and SortProofs.isort_idx_eq.
   fuel >= 2 * length + 1 suffices. *)
From Coq Require Import List NArith ZArith Bool Lia.
From FV Require Import CxxLeaf.CxxSem Gen.Cxx_sort.
From FV Require Bits.SortModel Bits.SortProofs.
Module S := SortModel.
Import ListNotations.
Local Open Scope Z_scope.

Lemma upd_eq {A} (l : list A) i v : upd l i v = S.upd l i v.
Proof. revert i; induction l; destruct i; cbn; congruence. Qed.
Lemma length_Supd {A} (l : list A) i v : length (S.upd l i v) = length l.
Proof. rewrite <- upd_eq. apply length_upd. Qed.
Lemma aread_nat {A} (l : list A) (z : Z) (i : nat) d : z = Z.of_nat i -> (i < length l)%nat -> aread l z = Ok (nth i l d).
Proof. intros -> H. now apply aread_ok. Qed.
Lemma awrite_nat {A} (l : list A) (z : Z) (i : nat) v : z = Z.of_nat i -> (i < length l)%nat -> awrite l z v = Ok (S.upd l i v).
Proof. intros -> H. rewrite <- upd_eq. now apply awrite_ok. Qed.
Lemma ptr_add_ok len p d : 0 <= p + d <= Z.of_nat len -> ptr_add len p d = Ok (p + d).
Proof.
  intros. unfold ptr_add. destruct (Z.leb_spec 0 (p + d)); [|lia].
  destruct (Z.leb_spec (p + d) (Z.of_nat len)); [reflexivity|lia].
Qed.

Definition lt (a b : Z) : bool := a <? b.
Definition istep (i : nat) (l : list Z) (j : nat) : list Z :=
  if lt (nth i l 0) (nth j l 0) then S.swap 0 l i j else l.
Lemma length_istep i l j : length (istep i l j) = length l.
Proof. unfold istep, S.swap. destruct (lt _ _); [|reflexivity]. now rewrite !length_Supd. Qed.
Lemma length_fold_istep i js : forall l, length (fold_left (istep i) js l) = length l.
Proof. induction js; intros; cbn; [reflexivity|]. now rewrite IHjs, length_istep. Qed.

Lemma inner_tie k : forall fuel (i j : nat) l, (k < fuel)%nat -> (i < j)%nat -> (j + k = length l)%nat ->
  insertion_sort_loop2 fuel (Z.of_nat (length l)) (Z.of_nat i) l (Z.of_nat j) =
  Ok (fold_left (istep i) (seq j k) l, Z.of_nat (length l)).
Proof.
  induction k as [|k IH]; intros fuel i j l Hf Hij Hk; (destruct fuel as [|fuel]; [lia|]); cbn [insertion_sort_loop2 seq fold_left].
  - destruct (Z.ltb_spec (Z.of_nat j) (Z.of_nat (length l))); [lia|]. repeat f_equal. lia.
  - destruct (Z.ltb_spec (Z.of_nat j) (Z.of_nat (length l))); [|lia].
    rewrite (aread_nat l _ i 0) by lia. rewrite bind_Ok.
    rewrite (aread_nat l _ j 0) by lia. rewrite bind_Ok.
    unfold cxxleaf_lt_call. rewrite bind_Ok.
    assert (E : (if (nth i l 0 <? nth j l 0) then
                   t4 <- Ok (nth i l 0) ;; t5 <- Ok (nth j l 0) ;;
                   v <- awrite l (Z.of_nat i) t5 ;; v <- awrite v (Z.of_nat j) t4 ;; Ok v
                 else Ok l) = Ok (istep i l j)).
    { unfold istep, lt. destruct (nth i l 0 <? nth j l 0); [|reflexivity].
      rewrite !bind_Ok.
      rewrite (awrite_nat l _ i) by lia. rewrite bind_Ok.
      rewrite (awrite_nat _ _ j) by (rewrite ?length_Supd; lia). rewrite bind_Ok. reflexivity. }
    cbv zeta. cbv zeta in E. rewrite E. rewrite bind_Ok.
    rewrite ptr_add_ok by (rewrite length_istep; lia). rewrite bind_Ok.
    replace (Z.of_nat j + 1) with (Z.of_nat (S j)) by lia.
    rewrite <- (length_istep i l j).
    rewrite IH by (rewrite ?length_istep; lia). reflexivity.
Qed.

Definition ostep (l : list Z) (i : nat) : list Z := fold_left (istep i) (seq (S i) (length l - S i)) l.
Lemma length_ostep l i : length (ostep l i) = length l.
Proof. apply length_fold_istep. Qed.
Lemma length_fold_ostep is_ : forall l, length (fold_left ostep is_ l) = length l.
Proof. induction is_; intros; cbn; [reflexivity|]. now rewrite IHis_, length_ostep. Qed.

Lemma outer_tie k : forall fuel (i : nat) l, (k + (length l - i) < fuel)%nat -> (i + k = length l)%nat ->
  insertion_sort_loop1 fuel (Z.of_nat (length l)) l (Z.of_nat i) = Ok (fold_left ostep (seq i k) l, Z.of_nat (length l)).
Proof.
  induction k as [|k IH]; intros fuel i l Hf Hk; (destruct fuel as [|fuel]; [lia|]); cbn [insertion_sort_loop1 seq fold_left].
  - destruct (Z.ltb_spec (Z.of_nat i) (Z.of_nat (length l))); [lia|]. repeat f_equal. lia.
  - destruct (Z.ltb_spec (Z.of_nat i) (Z.of_nat (length l))); [|lia]. cbv zeta.
    rewrite ptr_add_ok by lia. rewrite bind_Ok.
    replace (Z.of_nat i + 1) with (Z.of_nat (S i)) by lia.
    rewrite (inner_tie (length l - S i)) by lia. rewrite bind_Ok. cbv iota beta. fold (ostep l i).
    rewrite ptr_add_ok by (rewrite length_ostep; lia). rewrite bind_Ok.
    replace (Z.of_nat i + 1) with (Z.of_nat (S i)) by lia.
    rewrite <- (length_ostep l i).
    rewrite IH by (rewrite ?length_ostep; lia). reflexivity.
Qed.

Lemma isort_idx_fold l : S.isort_idx lt 0 l = fold_left ostep (seq 0 (length l)) l.
Proof. reflexivity. Qed.

(* frg::insertion_sort(a, a + n, <) on an int array: the generated double loop computes SortModel.insertion_sort *)
Lemma gen_insertion_sort_eq_model fuel l : (2 * length l + 1 <= fuel)%nat ->
  insertion_sort fuel l 0 (Z.of_nat (length l)) = Ok (S.insertion_sort lt l).
Proof.
  intros Hf. unfold insertion_sort. cbv zeta. change 0 with (Z.of_nat 0).
  rewrite (outer_tie (length l)) by lia. rewrite bind_Ok. cbv iota beta.
  rewrite <- isort_idx_fold. now rewrite SortProofs.isort_idx_eq.
Qed.
