(* Tie of rcu_radixtree::pfx_of / idx_of: the definitions regenerated from the source (Gen/Cxx_radix.v) agree with the
   hand-written ones of Radix/RadixModel.v on every input of the parameter types, including WHEN the shift is undefined. *)
From Coq Require Import List NArith ZArith Bool Lia.
From FV Require Import CxxLeaf.CxxSem Gen.Cxx_radix.
From FV Require Radix.RadixModel.
Local Open Scope N_scope.

(* RadixModel has its own outcome type: same value, or both an undefined shift *)
Definition out_rel {A} (g : outcome A) (m : RadixModel.outcome A) : Prop :=
  match g, m with
  | Ok a, RadixModel.Ok b => a = b
  | UB UShift, RadixModel.UB RadixModel.UShift => True
  | _, _ => False
  end.

Lemma sub32_sub_u a b : RadixModel.sub32 a (RadixModel.u32 b) = sub_u 32 a (wrap 32 b).
Proof.
  unfold RadixModel.sub32, RadixModel.u32, RadixModel.two32, sub_u, wrap.
  change (2 ^ 32) with 4294967296.
  assert (H : (b mod 4294967296) mod 4294967296 < 4294967296) by (apply N.mod_lt; discriminate).
  f_equal. lia.
Qed.

Lemma shl64_shl_u x sh : out_rel (shl_u 64 x (Z.of_N sh)) (RadixModel.shl64 x sh).
Proof.
  unfold RadixModel.shl64. destruct (N.leb_spec 64 sh).
  - rewrite shl_u_bad by assumption. exact I.
  - rewrite shl_u_N by assumption. cbn. unfold wrap.
    change RadixModel.ones64 with (N.ones 64). now rewrite N.land_ones.
Qed.
Lemma shr64_shr_u x sh : out_rel (shr_u 64 x (Z.of_N sh)) (RadixModel.shr64 x sh).
Proof.
  unfold RadixModel.shr64. destruct (N.leb_spec 64 sh).
  - rewrite shr_u_bad by assumption. exact I.
  - rewrite shr_u_N by assumption. reflexivity.
Qed.

Lemma gen_pfx_of_eq_model k d : out_rel (pfx_of k d) (RadixModel.pfx_of k d).
Proof.
  unfold pfx_of, RadixModel.pfx_of. rewrite negb_involutive.
  destruct (d =? 0); [reflexivity|].
  change (neg_s 32 1%Z) with (@Ok Z (-1)%Z). rewrite bind_Ok.
  change (cast_u 64 (-1)%Z) with RadixModel.ones64.
  replace (RadixModel.sub32 64 (RadixModel.u32 (d * 4))) with (sub_u 32 64 (mul_u 32 d 4)).
  2:{ rewrite sub32_sub_u. reflexivity. }
  pose proof (shl64_shl_u RadixModel.ones64 (sub_u 32 64 (mul_u 32 d 4))) as H.
  destruct (shl_u 64 _ _) as [a|[]| |], (RadixModel.shl64 _ _) as [b|?|[]|]; cbn in *; try contradiction; congruence.
Qed.

Lemma gen_idx_of_eq_model k d : out_rel (idx_of k d) (RadixModel.idx_of k d).
Proof.
  unfold idx_of, RadixModel.idx_of.
  replace (RadixModel.sub32 64 (RadixModel.u32 ((d + 1) * 4))) with (sub_u 32 64 (mul_u 32 (add_u 32 d 1) 4)).
  2:{ rewrite sub32_sub_u. unfold mul_u, add_u, wrap. now rewrite N.mul_mod_idemp_l by discriminate. }
  pose proof (shr64_shr_u k (sub_u 32 64 (mul_u 32 (add_u 32 d 1) 4))) as H.
  destruct (shr_u 64 _ _) as [a|[]| |] eqn:E, (RadixModel.shr64 _ _) as [b|?|[]|]; cbn in *; try contradiction; try exact I.
  subst b. apply wrap_small.
  apply N.le_lt_trans with 15; [|reflexivity].
  change 15 with (N.ones 4). rewrite N.land_ones. pose proof (N.mod_lt a (2 ^ 4)). change (N.ones 4) with 15. change (2^4) with 16 in *. lia.
Qed.
