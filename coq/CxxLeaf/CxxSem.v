(* Semantic library used by the definitions that translator/cxx2coq.py generates from the C++ source
   (coq/Gen/Cxx_*.v).  Unsigned integers of width w are N (invariant: < 2^w), signed ones are Z
   (invariant: -2^(w-1) <= z < 2^(w-1)), bool is bool, arrays / pointed-to memory are lists, a pointer is
   an offset (Z) into a named list.  Nothing is silently totalised:
     - unsigned + - * and conversions to unsigned reduce mod 2^w, the mod is written out below;
     - shift count < 0 or >= width, signed overflow, division by zero, INT_MIN / -1, an index outside the
       list, a pointer moved outside [0, length], __builtin_clz/ctz(0) give  UB why;
     - loops are fuelled and give OutOfFuel when the fuel runs out. *)
From Coq Require Import List NArith ZArith Bool Lia.
Import ListNotations.

Inductive ubwhy := UShift | USignedOverflow | UDivZero | UOutOfBounds | UPtrRange | UBuiltinArg | UNoReturn.
Inductive outcome (A : Type) := Ok (a : A) | UB (w : ubwhy) | AssertStop | OutOfFuel.
Arguments Ok {A} a. Arguments UB {A} w. Arguments AssertStop {A}. Arguments OutOfFuel {A}.

Definition bind {A B} (o : outcome A) (f : A -> outcome B) : outcome B :=
  match o with Ok a => f a | UB w => UB w | AssertStop => AssertStop | OutOfFuel => OutOfFuel end.
Notation "x <- e ;; f" := (bind e (fun x => f)) (at level 61, e at next level, right associativity).
Notation "' p <- e ;; f" := (bind e (fun x_ => match x_ with p => f end))
  (at level 61, p pattern, e at next level, right associativity).

(* result of a loop function: fell out of the loop with the loop-carried variables, or the enclosing
   function executed `return` inside the loop *)
Inductive loopres (S R : Type) := LNormal (s : S) | LReturn (r : R).
Arguments LNormal {S R} s. Arguments LReturn {S R} r.

(* ------------------------------------------------------------------ unsigned, width w *)
Local Open Scope N_scope.
Definition wrap (w x : N) : N := x mod 2 ^ w.
Definition add_u (w a b : N) : N := (a + b) mod 2 ^ w.
Definition sub_u (w a b : N) : N := (a + (2 ^ w - b mod 2 ^ w)) mod 2 ^ w.
Definition mul_u (w a b : N) : N := (a * b) mod 2 ^ w.
Definition neg_u (w a : N) : N := (2 ^ w - a mod 2 ^ w) mod 2 ^ w.
Definition not_u (w a : N) : N := N.lxor (a mod 2 ^ w) (N.ones w).
Definition bad_shift (w : N) (s : Z) : bool := (s <? 0)%Z || (Z.of_N w <=? s)%Z.
Definition shl_u (w a : N) (s : Z) : outcome N :=
  if bad_shift w s then UB UShift else Ok (N.shiftl a (Z.to_N s) mod 2 ^ w).
Definition shr_u (w a : N) (s : Z) : outcome N :=
  if bad_shift w s then UB UShift else Ok (N.shiftr a (Z.to_N s)).
Definition div_u (a b : N) : outcome N := if b =? 0 then UB UDivZero else Ok (a / b).
Definition rem_u (a b : N) : outcome N := if b =? 0 then UB UDivZero else Ok (a mod b).
Definition b2n (b : bool) : N := if b then 1 else 0.

(* ------------------------------------------------------------------ signed, width w *)
Local Open Scope Z_scope.
Definition in_s (w : N) (z : Z) : bool := (- 2 ^ (Z.of_N w - 1) <=? z) && (z <? 2 ^ (Z.of_N w - 1)).
Definition chk_s (w : N) (z : Z) : outcome Z := if in_s w z then Ok z else UB USignedOverflow.
Definition add_s (w : N) (a b : Z) : outcome Z := chk_s w (a + b).
Definition sub_s (w : N) (a b : Z) : outcome Z := chk_s w (a - b).
Definition mul_s (w : N) (a b : Z) : outcome Z := chk_s w (a * b).
Definition neg_s (w : N) (a : Z) : outcome Z := chk_s w (- a).
Definition div_s (w : N) (a b : Z) : outcome Z := if b =? 0 then UB UDivZero else chk_s w (Z.quot a b).
Definition rem_s (w : N) (a b : Z) : outcome Z :=
  if b =? 0 then UB UDivZero else if in_s w (Z.quot a b) then Ok (Z.rem a b) else UB USignedOverflow.
(* conversion of any integer value to a signed / unsigned type of width w (C++20: modular) *)
Definition cast_s (w : N) (z : Z) : Z := (z + 2 ^ (Z.of_N w - 1)) mod 2 ^ Z.of_N w - 2 ^ (Z.of_N w - 1).
Definition cast_u (w : N) (z : Z) : N := Z.to_N (z mod 2 ^ Z.of_N w).
(* C++20: E1 << E2 on a signed type is E1 * 2^E2 reduced to the type; >> is arithmetic *)
Definition shl_s (w : N) (a s : Z) : outcome Z :=
  if bad_shift w s then UB UShift else Ok (cast_s w (a * 2 ^ s)).
Definition shr_s (w : N) (a s : Z) : outcome Z :=
  if bad_shift w s then UB UShift else Ok (Z.shiftr a s).
Definition b2z (b : bool) : Z := if b then 1 else 0.

(* ------------------------------------------------------------------ arrays and pointers *)
Definition aread {A} (l : list A) (i : Z) : outcome A :=
  if (i <? 0) then UB UOutOfBounds else
  match nth_error l (Z.to_nat i) with Some v => Ok v | None => UB UOutOfBounds end.
Fixpoint upd {A} (l : list A) (i : nat) (v : A) : list A :=
  match l, i with
  | [], _ => []
  | _ :: r, O => v :: r
  | x :: r, S j => x :: upd r j v
  end.
Definition awrite {A} (l : list A) (i : Z) (v : A) : outcome (list A) :=
  if (i <? 0) || (Z.of_nat (length l) <=? i) then UB UOutOfBounds else Ok (upd l (Z.to_nat i) v).
(* p + d for a pointer p into a list of length len: allowed results are 0 .. len (one past the end) *)
Definition ptr_add (len : nat) (p d : Z) : outcome Z :=
  let q := p + d in if (0 <=? q) && (q <=? Z.of_nat len) then Ok q else UB UPtrRange.

(* ------------------------------------------------------------------ builtins *)
(* __builtin_clz / clzl / clzll on a w-bit unsigned: undefined for 0; result type int *)
Definition clz (w x : N) : outcome Z :=
  if (x =? 0)%N then UB UBuiltinArg else Ok (Z.of_N w - 1 - Z.of_N (N.log2 x)).
Fixpoint ctz_pos (p : positive) : Z := match p with xO q => 1 + ctz_pos q | _ => 0 end.
Definition ctz (w x : N) : outcome Z :=
  match x with N0 => UB UBuiltinArg | Npos p => Ok (ctz_pos p) end.
Fixpoint popcount_pos (p : positive) : Z :=
  match p with xH => 1 | xO q => popcount_pos q | xI q => 1 + popcount_pos q end.
Definition popcount (x : N) : Z := match x with N0 => 0 | Npos p => popcount_pos p end.
(* __builtin_{add,sub,mul}_overflow(a, b, &r): r gets the wrapped value, result says whether it wrapped.
   The exact value is passed in as z; ru = result type unsigned of width w, rs = signed *)
Definition ovf_u (w : N) (z : Z) : bool * N := (negb ((0 <=? z) && (z <? 2 ^ Z.of_N w)), cast_u w z).
Definition ovf_s (w : N) (z : Z) : bool * Z := (negb (in_s w z), cast_s w z).

(* ================================================================== basic lemmas *)
Lemma bind_Ok {A B} (a : A) (f : A -> outcome B) : bind (Ok a) f = f a.
Proof. reflexivity. Qed.
Lemma bind_assoc {A B C} (o : outcome A) (f : A -> outcome B) (g : B -> outcome C) :
  bind (bind o f) g = bind o (fun a => bind (f a) g).
Proof. destruct o; reflexivity. Qed.
Lemma bind_if {A B} (c : bool) (x y : outcome A) (f : A -> outcome B) :
  bind (if c then x else y) f = if c then bind x f else bind y f.
Proof. destruct c; reflexivity. Qed.
Lemma bind_inv_Ok {A B} (o : outcome A) (f : A -> outcome B) b :
  bind o f = Ok b -> exists a, o = Ok a /\ f a = Ok b.
Proof. destruct o; cbn; try discriminate. eauto. Qed.

Local Open Scope N_scope.
Lemma pow2_pos w : 0 < 2 ^ w.
Proof. apply N.neq_0_lt_0, N.pow_nonzero. discriminate. Qed.
Lemma wrap_lt w x : wrap w x < 2 ^ w.
Proof. apply N.mod_lt, N.pow_nonzero. discriminate. Qed.
Lemma wrap_small w x : x < 2 ^ w -> wrap w x = x.
Proof. apply N.mod_small. Qed.
Lemma wrap_land w x : wrap w x = N.land x (N.ones w).
Proof. unfold wrap. now rewrite N.land_ones. Qed.
Lemma wrap_wrap w x : wrap w (wrap w x) = wrap w x.
Proof. unfold wrap. apply N.mod_mod, N.pow_nonzero. discriminate. Qed.
Lemma add_u_wrap w a b : add_u w a b = wrap w (a + b).
Proof. reflexivity. Qed.
Lemma mul_u_wrap w a b : mul_u w a b = wrap w (a * b).
Proof. reflexivity. Qed.
Lemma add_u_lt w a b : add_u w a b < 2 ^ w.
Proof. apply wrap_lt. Qed.
Lemma sub_u_lt w a b : sub_u w a b < 2 ^ w.
Proof. apply wrap_lt. Qed.
Lemma mul_u_lt w a b : mul_u w a b < 2 ^ w.
Proof. apply wrap_lt. Qed.
Lemma neg_u_lt w a : neg_u w a < 2 ^ w.
Proof. apply wrap_lt. Qed.
Lemma add_u_small w a b : a + b < 2 ^ w -> add_u w a b = a + b.
Proof. apply N.mod_small. Qed.
Lemma sub_u_ge w a b : b <= a -> a < 2 ^ w -> sub_u w a b = a - b.
Proof.
  intros Hb Ha. unfold sub_u. pose proof (pow2_pos w).
  rewrite (N.mod_small b) by lia.
  replace (a + (2 ^ w - b)) with ((a - b) + 1 * 2 ^ w) by lia.
  rewrite N.mod_add by lia. apply N.mod_small. lia.
Qed.
Lemma sub_u_lt_wrap w a b : a < b -> b < 2 ^ w -> sub_u w a b = a + 2 ^ w - b.
Proof.
  intros Hb Ha. unfold sub_u. rewrite (N.mod_small b) by lia.
  rewrite N.add_sub_assoc by lia. apply N.mod_small. lia.
Qed.
Lemma neg_u_eq w a : a < 2 ^ w -> neg_u w a = wrap w (2 ^ w - a).
Proof. intros. unfold neg_u, wrap. now rewrite (N.mod_small a). Qed.
Lemma not_u_eq w a : a < 2 ^ w -> not_u w a = 2 ^ w - 1 - a.
Proof.
  intros H. unfold not_u. rewrite (N.mod_small a) by exact H.
  change (N.lxor a (N.ones w)) with (N.lnot a w).
  destruct (N.eq_dec a 0) as [->|Hz].
  - unfold N.lnot. rewrite N.lxor_0_l, N.ones_equiv. lia.
  - rewrite N.lnot_sub_low by (apply N.log2_lt_pow2; lia). rewrite N.ones_equiv. lia.
Qed.

Lemma shl_u_ok w a s : (0 <= s)%Z -> (s < Z.of_N w)%Z -> shl_u w a s = Ok (wrap w (N.shiftl a (Z.to_N s))).
Proof.
  intros H0 H1. unfold shl_u, bad_shift.
  destruct (Z.ltb_spec s 0); [lia|]. destruct (Z.leb_spec (Z.of_N w) s); [lia|]. reflexivity.
Qed.
Lemma shr_u_ok w a s : (0 <= s)%Z -> (s < Z.of_N w)%Z -> shr_u w a s = Ok (N.shiftr a (Z.to_N s)).
Proof.
  intros H0 H1. unfold shr_u, bad_shift.
  destruct (Z.ltb_spec s 0); [lia|]. destruct (Z.leb_spec (Z.of_N w) s); [lia|]. reflexivity.
Qed.
Lemma shl_u_N w a (n : N) : n < w -> shl_u w a (Z.of_N n) = Ok (wrap w (N.shiftl a n)).
Proof. intros. rewrite shl_u_ok by lia. now rewrite N2Z.id. Qed.
Lemma shr_u_N w a (n : N) : n < w -> shr_u w a (Z.of_N n) = Ok (N.shiftr a n).
Proof. intros. rewrite shr_u_ok by lia. now rewrite N2Z.id. Qed.
Lemma shl_u_bad w a (n : N) : w <= n -> shl_u w a (Z.of_N n) = UB UShift.
Proof.
  intros. unfold shl_u, bad_shift. destruct (Z.ltb_spec (Z.of_N n) 0); [lia|].
  destruct (Z.leb_spec (Z.of_N w) (Z.of_N n)); [reflexivity|lia].
Qed.
Lemma shr_u_bad w a (n : N) : w <= n -> shr_u w a (Z.of_N n) = UB UShift.
Proof.
  intros. unfold shr_u, bad_shift. destruct (Z.ltb_spec (Z.of_N n) 0); [lia|].
  destruct (Z.leb_spec (Z.of_N w) (Z.of_N n)); [reflexivity|lia].
Qed.
Lemma shiftr_lt a n w : a < 2 ^ w -> N.shiftr a n < 2 ^ w.
Proof.
  intros. rewrite N.shiftr_div_pow2. pose proof (pow2_pos n).
  apply N.le_lt_trans with a; [|assumption]. apply N.div_le_upper_bound; [lia|]. nia.
Qed.

Lemma length_upd {A} (l : list A) i v : length (upd l i v) = length l.
Proof. revert i; induction l; destruct i; cbn; auto. Qed.
Lemma nth_upd_same {A} (l : list A) i v d : (i < length l)%nat -> nth i (upd l i v) d = v.
Proof. revert i; induction l; destruct i; cbn; intros; try lia; auto. apply IHl. lia. Qed.
Lemma nth_upd_other {A} (l : list A) i j v d : i <> j -> nth j (upd l i v) d = nth j l d.
Proof. revert i j; induction l; destruct i, j; cbn; intros; try lia; auto. Qed.
Lemma aread_ok {A} (l : list A) (i : nat) d : (i < length l)%nat -> aread l (Z.of_nat i) = Ok (nth i l d).
Proof.
  intros H. unfold aread. destruct (Z.ltb_spec (Z.of_nat i) 0); [lia|]. rewrite Nat2Z.id.
  destruct (nth_error l i) eqn:E.
  - now rewrite (nth_error_nth _ _ d E).
  - apply nth_error_None in E. lia.
Qed.
Lemma aread_Z {A} (l : list A) (z : Z) d : (0 <= z < Z.of_nat (length l))%Z -> aread l z = Ok (nth (Z.to_nat z) l d).
Proof. intros. rewrite <- (Z2Nat.id z) at 1 by lia. apply aread_ok. lia. Qed.
Lemma aread_oob {A} (l : list A) (z : Z) : (Z.of_nat (length l) <= z)%Z -> aread l z = UB UOutOfBounds.
Proof.
  intros. unfold aread. destruct (Z.ltb_spec z 0); [reflexivity|].
  destruct (nth_error l (Z.to_nat z)) eqn:E; [|reflexivity].
  assert (nth_error l (Z.to_nat z) <> None) by congruence. apply nth_error_Some in H1. lia.
Qed.
Lemma awrite_ok {A} (l : list A) (i : nat) v : (i < length l)%nat -> awrite l (Z.of_nat i) v = Ok (upd l i v).
Proof.
  intros. unfold awrite. destruct (Z.ltb_spec (Z.of_nat i) 0); [lia|].
  destruct (Z.leb_spec (Z.of_nat (length l)) (Z.of_nat i)); [lia|]. cbn. now rewrite Nat2Z.id.
Qed.
Lemma awrite_Z {A} (l : list A) (z : Z) v : (0 <= z < Z.of_nat (length l))%Z -> awrite l z v = Ok (upd l (Z.to_nat z) v).
Proof. intros. rewrite <- (Z2Nat.id z) at 1 by lia. apply awrite_ok. lia. Qed.
Lemma clz_ok w x : x <> 0 -> clz w x = Ok (Z.of_N w - 1 - Z.of_N (N.log2 x))%Z.
Proof. intros. unfold clz. destruct (N.eqb_spec x 0); [contradiction|reflexivity]. Qed.
