(* Tie of ticket_spinlock::is_locked / unlock (include/frg/spinlock.hpp), read single-threaded (an atomic load is a read,
   an atomic store a write; the memory orders are tied separately by translator/gen_locks.py -> Gen/SpinOrders.v):
   the regenerated definitions (Gen/Cxx_locks.v) equal SpinModel.t_is_locked and the ticket arithmetic of SpinModel.trstep. *)
From Coq Require Import List NArith ZArith Bool Lia.
From FV Require Import CxxLeaf.CxxSem Gen.Cxx_locks.
From FV Require Locks.SpinModel.
Module L := SpinModel.
Local Open Scope N_scope.

Lemma gen_ticket_is_locked_eq_model (r : L.treal) :
  ticket_is_locked (L.t_next r) (L.t_serving r) = Ok (L.t_is_locked r).
Proof. reflexivity. Qed.

(* unlock(): the step  TCrit -> TUnl c -> TIdle  of trstep stores (c + 1) mod 2^32 where c is the value loaded *)
Lemma gen_ticket_unlock_eq_model (n : nat) (r : L.treal) (t : L.tid) : (t < n)%nat -> L.t_pc r t = L.TCrit ->
  ticket_unlock (L.t_serving r) = Ok (L.t_serving (L.trstep n (L.trstep n r t) t)).
Proof.
  intros Ht Hpc. unfold L.trstep at 2. destruct (Nat.leb_spec n t); [lia|]. rewrite Hpc.
  unfold L.trstep. destruct (Nat.leb_spec n t); [lia|]. cbn [L.t_pc L.t_serving L.t_next].
  unfold L.upd. destruct (Nat.eqb_spec t t); [|congruence]. cbn [L.t_serving]. reflexivity.
Qed.
