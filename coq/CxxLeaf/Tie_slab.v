(* Tie of slab_pool::bucket_to_size / size_to_bucket (include/frg/slab.hpp): the definitions regenerated from the source
   (Gen/Cxx_slab.v; they use the source's tiny_sizes / small_base_exp / small_step_exp, array_size and
   bitop_impl<size_t>::clz = __builtin_clzl) equal SlabModel.b2s / s2b.
   bucket_to_size(idx) shifts by 6 + (idx - 3): defined exactly for idx < 61 (the model b2s is total; the pool only
   uses idx < num_buckets <= 61).  size_to_bucket: every size_t value, fuel >= 4 (3 iterations + the exit test). *)
From Coq Require Import List NArith ZArith Bool Lia.
From FV Require Import CxxLeaf.CxxSem Gen.Cxx_slab Slab.SlabModel.
Local Open Scope N_scope.

Lemma two64 : 2 ^ 64 = 18446744073709551616. Proof. reflexivity. Qed.
Ltac pw := change (2 ^ 64) with 18446744073709551616 in *; change (2 ^ 32) with 4294967296 in *.

Lemma b2s_common idx : 4 <= idx -> idx < 2 ^ 32 ->
  bucket_to_size idx = shl_u 64 1 (Z.of_N (6 + (idx - 4 + 1))).
Proof.
  intros H0 H. pw. unfold bucket_to_size.
  change (array_size c_slab_pool_tiny_sizes) with (@Ok N 4). rewrite bind_Ok. cbv zeta.
  destruct (N.ltb_spec idx 4); [lia|].
  change (shl_s 32 1%Z (Z.of_N c_slab_pool_small_step_exp)) with (@Ok Z 1%Z). rewrite bind_Ok.
  change (Z.of_N c_slab_pool_small_step_exp) with 0%Z.
  rewrite (sub_u_ge 64 idx 4) by (pw; lia).
  rewrite add_u_small by (pw; lia).
  rewrite shr_u_ok by lia. rewrite bind_Ok. change (Z.to_N 0) with 0. rewrite N.shiftr_0_r.
  change (sub_s 32 1 1) with (@Ok Z 0%Z). rewrite bind_Ok.
  change (cast_u 64 0) with 0. rewrite N.land_0_r.
  change (cast_u 64 1) with 1. change (add_u 64 1 0) with 1.
  change c_slab_pool_small_base_exp with 6.
  rewrite add_u_small by (pw; lia).
  destruct (shl_u 64 1 _); reflexivity.
Qed.

Lemma gen_bucket_to_size_eq_model idx : idx < 61 -> bucket_to_size idx = Ok (b2s idx).
Proof.
  intros H. unfold b2s. destruct (N.ltb_spec idx 4).
  - assert (E : idx = 0 \/ idx = 1 \/ idx = 2 \/ idx = 3) by lia.
    destruct E as [->|[->|[->| ->]]]; reflexivity.
  - rewrite b2s_common by (pw; lia). rewrite shl_u_N by lia. f_equal.
    apply wrap_small. rewrite N.shiftl_1_l. apply N.pow_lt_mono_r; lia.
Qed.

Lemma gen_bucket_to_size_undefined idx : 61 <= idx -> idx < 2 ^ 32 -> bucket_to_size idx = UB UShift.
Proof. intros. rewrite b2s_common by (pw; lia). apply shl_u_bad. lia. Qed.

Ltac ev t := let v := eval vm_compute in t in change t with v.

Lemma loop_small fuel size :
  size_to_bucket_loop1 (4 + fuel) size 4 0 =
  Ok (if size <=? 8 then LReturn 0 else if size <=? 16 then LReturn 1 else if size <=? 32 then LReturn 2 else LNormal 3).
Proof.
  cbn [size_to_bucket_loop1 Nat.add].
  ev (add_u 32 0 1). ev (add_u 32 1 1). ev (add_u 32 2 1). ev (sub_u 64 4 1).
  ev (bucket_to_size 0). ev (bucket_to_size 1). ev (bucket_to_size 2). 
  ev (0 <? 3). ev (1 <? 3). ev (2 <? 3). ev (3 <? 3). cbv iota. rewrite !bind_Ok.
  destruct (size <=? 8); [reflexivity|]. destruct (size <=? 16); [reflexivity|]. destruct (size <=? 32); reflexivity.
Qed.

Lemma gen_size_to_bucket_eq_model fuel size : size < 2 ^ 64 -> size_to_bucket (4 + fuel) size = Ok (s2b size).
Proof.
  intros H. unfold size_to_bucket, s2b.
  change (array_size c_slab_pool_tiny_sizes) with (@Ok N 4). rewrite bind_Ok. cbv zeta.
  ev (sub_u 64 4 1). ev (wrap 32 3). ev (bucket_to_size 3). rewrite bind_Ok.
  destruct (N.leb_spec size 64).
  - rewrite loop_small, bind_Ok.
    destruct (size <=? 8); [reflexivity|]. destruct (size <=? 16); [reflexivity|]. destruct (size <=? 32); reflexivity.
  - unfold bitop_impl_unsigned_long__clz. rewrite clz_ok by lia. rewrite !bind_Ok.
    set (e := N.log2 size).
    assert (He : 6 <= e < 64).
    { split; [change 6 with (N.log2 64); apply N.log2_le_mono; lia|apply N.log2_lt_pow2; lia]. }
    destruct (N.log2_spec size ltac:(lia)) as [Hlo Hhi]. fold e in Hlo, Hhi.
    assert (Hp : 2 ^ e < 2 ^ 64) by (apply N.pow_lt_mono_r; lia).
    ev (sub_u 64 (mul_u 64 8 8) 1).
    replace (cast_u 64 (Z.of_N 64 - 1 - Z.of_N e)) with (63 - e)
      by (unfold cast_u; rewrite Z.mod_small by (change (2 ^ Z.of_N 64)%Z with 18446744073709551616%Z; lia); lia).
    rewrite (sub_u_ge 64 63 (63 - e)) by (pw; lia). replace (63 - (63 - e)) with e by lia.
    change c_slab_pool_small_step_exp with 0. change c_slab_pool_small_base_exp with 6.
    rewrite (sub_u_ge 64 e 0) by (pw; lia). rewrite N.sub_0_r.
    rewrite (sub_u_ge 64 e 6) by (pw; lia).
    rewrite shl_u_N by lia. rewrite bind_Ok. rewrite N.shiftl_0_r. rewrite (wrap_small 64 (e - 6)) by (pw; lia).
    rewrite shl_u_N by lia. rewrite !bind_Ok. rewrite N.shiftl_1_l. rewrite (wrap_small 64 (2 ^ e)) by exact Hp.
    rewrite (sub_u_ge 64 size (2 ^ e)) by lia.
    rewrite add_u_small by lia. replace (size - 2 ^ e + 2 ^ e) with size by lia.
    rewrite (sub_u_ge 64 size 1) by lia.
    rewrite shr_u_N by lia. rewrite bind_Ok.
    assert (Hq : N.shiftr (size - 1) e < 2).
    { rewrite N.shiftr_div_pow2. apply N.div_lt_upper_bound; [lia|]. rewrite N.pow_succ_r' in Hhi. lia. }
    rewrite (add_u_small 64 3 (e - 6)) by (pw; lia). rewrite add_u_small by (pw; lia).
    repeat f_equal; lia.
Qed.
