(* Lifetime / allocation event logs and their well-formedness (property C16, DESIGN 3.4).
   Owning-type models emit a [list ev]; [wf_closed] is the executable statement of
   "constructed in raw storage, used only while alive, destroyed exactly once, every block
    returned exactly once with its size, nothing alive or allocated at the end". *)
From Coq Require Import List NArith Arith Bool.
Import ListNotations.

Definition obj := (nat * nat)%type.      (* block id (0 = the owner's inline storage), slot *)

Inductive ev :=
| EAlloc (b : nat) (n : N)     (* allocator.allocate(n) returned block b *)
| EDealloc (b : nat) (n : N)   (* allocator.deallocate(b, n) *)
| EFree (b : nat)              (* allocator.free(b) *)
| EConstruct (o : obj)         (* an object's lifetime starts in slot o *)
| EDestroy (o : obj)           (* destructor *)
| EUse (o : obj).              (* read / copy-from / move-from / assign-to / assign-from *)

Definition obj_eqb (a b : obj) : bool := Nat.eqb (fst a) (fst b) && Nat.eqb (snd a) (snd b).

Record lstate := mk_ls { blocks : list (nat * N); live : list obj }.
Definition ls0 : lstate := mk_ls [] [].

Definition has_block (b : nat) (s : lstate) : option N :=
  match find (fun x => Nat.eqb (fst x) b) (blocks s) with Some x => Some (snd x) | None => None end.
Definition is_live (o : obj) (s : lstate) : bool := existsb (obj_eqb o) (live s).
Definition block_ok (b : nat) (s : lstate) : bool :=
  Nat.eqb b 0 || match has_block b s with Some _ => true | None => false end.
Definition drop_block (b : nat) (s : lstate) : lstate :=
  mk_ls (filter (fun x => negb (Nat.eqb (fst x) b)) (blocks s)) (live s).
Definition no_live_in (b : nat) (s : lstate) : bool := forallb (fun o => negb (Nat.eqb (fst o) b)) (live s).

(* one event; None = the log is ill-formed at this event *)
Definition ev_step (s : lstate) (e : ev) : option lstate :=
  match e with
  | EAlloc b n =>
      if Nat.eqb b 0 then None else
      match has_block b s with Some _ => None | None => Some (mk_ls ((b, n) :: blocks s) (live s)) end
  | EDealloc b n =>
      match has_block b s with
      | Some m => if N.eqb m n && no_live_in b s then Some (drop_block b s) else None
      | None => None end
  | EFree b =>
      match has_block b s with
      | Some _ => if no_live_in b s then Some (drop_block b s) else None
      | None => None end
  | EConstruct o =>
      if block_ok (fst o) s && negb (is_live o s) then Some (mk_ls (blocks s) (o :: live s)) else None
  | EDestroy o =>
      if is_live o s then Some (mk_ls (blocks s) (filter (fun x => negb (obj_eqb o x)) (live s))) else None
  | EUse o => if is_live o s then Some s else None
  end.

Fixpoint ev_run (s : lstate) (l : list ev) : option lstate :=
  match l with
  | [] => Some s
  | e :: r => match ev_step s e with Some s' => ev_run s' r | None => None end
  end.

Definition wf_log (l : list ev) : bool := match ev_run ls0 l with Some _ => true | None => false end.
Definition wf_closed (l : list ev) : bool :=
  match ev_run ls0 l with
  | Some s => match blocks s, live s with [], [] => true | _, _ => false end
  | None => false end.

Lemma ev_run_app s l1 l2 :
  ev_run s (l1 ++ l2) = match ev_run s l1 with Some s' => ev_run s' l2 | None => None end.
Proof. revert s; induction l1 as [|e l1 IH]; intros s; simpl; [reflexivity|].
  destruct (ev_step s e); [apply IH|reflexivity]. Qed.
