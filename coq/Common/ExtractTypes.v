(* Every extraction lists [types_witness] so that nat, positive, N and Z are always present in
   the extracted module (lib/coqnum.ml.inc converts to and from them). *)
From Coq Require Import NArith ZArith.
Definition types_witness : nat * N * Z := (0, 0%N, 0%Z).
