From FV Require Import Common.ExtractTypes Qs.QsTypes Qs.QsModel Qs.QsFgModel.
From Coq Require Extraction.
From Coq Require Import ExtrOcamlBasic.
Extraction "../build/extract/qs_model.ml" types_witness w0 gen_w_step gen_w_run_rearm gen_enter gen_exit gen_pop_first
  gen_sites_ok gen_skeleton_ok gen_numagents_guarded gen_guard_ok gen_orders_sufficient
  f0 gen_f_step gen_f_run h0 gen_h_step in_quiescent.
