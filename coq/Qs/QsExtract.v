From FV Require Import Common.ExtractTypes Qs.QsTypes Qs.QsModel.
From Coq Require Extraction.
From Coq Require Import ExtrOcamlBasic.
Extraction "../build/extract/qs_model.ml" types_witness w0 gen_w_step gen_enter gen_exit gen_pop_first
  gen_sites_ok gen_skeleton_ok gen_numagents_guarded gen_guard_ok gen_orders_sufficient.
