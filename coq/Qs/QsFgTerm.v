(* Fine-grained model of qs.hpp: every call is straight-line code, except the compare-exchange loop
   on [desired] (await_barrier, quiescent_barrier), the loop of run() over the agent's own pending
   list and the spin of quiescent_barrier.

   [rank th]: a bound on the number of steps the thread still takes in its current call, not counting
   lock attempts on a held mutex, failed compare-exchanges and the iterations of quiescent_barrier's
   spin.  [step_kind t s] classifies the step thread t would take in state s (a function of the
   state).  Every step of kind KProgress decreases the rank; a call starts with a rank that depends
   only on the kind of call (and, for run(), on the length of the agent's pending list); a blocked
   lock attempt leaves the state unchanged, and the holder of the mutex releases it within 5 of its
   own steps, none of which can be blocked; a failed compare-exchange re-reads [desired], so the
   number of failures during a run is bounded by the number of times other threads changed
   [desired]. *)
From Coq Require Import List NArith Bool Arith Lia.
Import ListNotations.
From FV Require Import Qs.QsTypes Qs.QsModel Qs.QsFgModel Qs.QsWoProofs Qs.QsFgProofs Qs.QsFgThms.
Local Open Scope N_scope.

Definition rank (th : thread) : nat :=
  match tpc th with
  | PIdle => 0
  | POn0 => 7 | POn1 => 6 | POn2 _ => 5 | POn3 _ => 4 | POn4 _ => 3 | POn5 _ => 2
  | POff0 => 7 | POff1 => 6 | POff2 _ => 5 | POff3 _ => 4 | POff4 _ => 3 | POff5 => 2
  | PQd1 => 7 | PQd2 => 6 | PQd3 => 5 | PQd4 => 4 | PQd5 => 3 | PQd6 => 2
  | PQ1 => 8 | PQ2 _ => 7 | PQ3 _ => 6 | PQ4 _ => 5 | PQ5 _ => 4 | PQ6 _ => 3 | PQ7 => 2
  | PAb1 _ => 4 | PAb2 _ _ => 3 | PAb3 _ _ _ => 2
  | PRun1 => 3 + length (pending (tag th)) | PRun2 _ => 2 + length (pending (tag th))
  | PQb1 => 4 | PQb2 _ => 3 | PQb3 _ _ => 2 | PQb4 _ => 1
  end%nat.

(* the bound with which a call starts *)
Definition call_bound (c : call) (a : agent) : nat :=
  match c with
  | COnline => 7 | COffline => 7 | CQsCall => 8 | CAwait _ => 4
  | CRun => 3 + length (pending a) | CQBarrier => 4
  end%nat.

Inductive kind :=
| KNone                 (* between calls, nothing left to call *)
| KStart (c : call)     (* the thread starts its next call *)
| KBlocked              (* lock() on a held mutex *)
| KCasFail              (* compare_exchange fails and the loop continues *)
| KSpin                 (* quiescent_barrier's loop calls quiescent_state() once more *)
| KProgress.

Definition step_kind (t : tid) (s : fstate) : kind :=
  let th := fth s t in
  match tpc th with
  | PIdle => match tscript th with [] => KNone | c :: _ => KStart c end
  | POn0 | POff0 | PQd3 | PQ4 _ => match fmx s with Some _ => KBlocked | None => KProgress end
  | PAb3 _ tg c | PQb3 tg c =>
      if desired (fd s) =? c then KProgress else if desired (fd s) <? tg then KCasFail else KProgress
  | PQb4 tg => if ctr (fd s) <? tg then KSpin else KProgress
  | _ => KProgress
  end.

Ltac rank_tac Epc :=
  unfold rank; split_ret; cbn [tpc tag with_pc with_ag pending]; rewrite ?Epc; cbn; try lia.

(* one step of thread t, by kind *)
Theorem fg_step_rank t s s' evs op :
  fstop s = None -> fstep t s = (s', evs, op) -> fstop s' = None ->
  match step_kind t s with
  | KNone => s' = s
  | KStart c => (rank (fth s' t) <= call_bound c (tag (fth s t)))%nat /\ (1 <= rank (fth s' t))%nat
  | KBlocked => s' = s
  | KCasFail => rank (fth s' t) = rank (fth s t) /\ fd s' = fd s
  | KSpin => (rank (fth s' t) <= rank (fth s t) + 7)%nat
  | KProgress => (rank (fth s' t) < rank (fth s t))%nat
  end.
Proof.
  intros Hstop H Hns. unfold step_kind.
  fstep_inv H Hstop.
  all: try (cbn in Hns; discriminate).
  all: cbn [fth fd set_th set_fd set_mx leave_waiting fmx].
  all: rewrite ?upd_same.
  all: try reflexivity.
  all: n2p.
  all: try match goal with E : desired (fd ?s0) = ?c |- context [desired (fd ?s0) =? ?c] => rewrite (proj2 (N.eqb_eq _ _) E) end.
  all: try match goal with E : desired (fd ?s0) <> ?c |- context [desired (fd ?s0) =? ?c] => rewrite (proj2 (N.eqb_neq _ _) E) end.
  all: try match goal with E : ?a < ?b |- context [?a <? ?b] => rewrite (proj2 (N.ltb_lt _ _) E) end.
  all: try match goal with E : ?b <= ?a |- context [?a <? ?b] => rewrite (proj2 (N.ltb_ge _ _) E) end.
  all: try solve [rank_tac Epc].
  all: try solve [split; [rank_tac Epc | cbn; reflexivity]].
  all: try solve [split; rank_tac Epc].
  match goal with E : pending _ = _ :: _ |- _ => unfold rank; cbn; rewrite Epc, E; cbn; lia end.
Qed.

(* ---- a step of thread t leaves the other threads alone; only the holder releases the mutex ---- *)
Lemma fstep_frame t s s' evs op :
  fstop s = None -> fstep t s = (s', evs, op) ->
  (forall x, x <> t -> fth s' x = fth s x) /\
  (forall h, fmx s = Some h -> h <> t -> fstop s' = None -> fmx s' = Some h).
Proof.
  intros Hstop H.
  fstep_inv H Hstop.
  all: cbn [fth fd set_th set_fd set_mx set_stop leave_waiting fmx fstop].
  all: split; [intros x Hx; rewrite ?upd_other by exact Hx; reflexivity|].
  all: intros h0 Hh Hne Hns; try discriminate; try assumption; try congruence.
  all: exfalso; match goal with E : (_ =? _)%nat = true |- _ => apply Nat.eqb_eq in E end; congruence.
Qed.

(* ---- the holder of the mutex is never blocked and releases it within 5 of its own steps ---- *)
Definition hrank (p : pc) : nat :=
  match p with
  | POn1 => 5 | POn2 _ => 4 | POn3 _ => 3 | POn4 _ => 2 | POn5 _ => 1
  | POff1 => 5 | POff2 _ => 4 | POff3 _ => 3 | POff4 _ => 2 | POff5 => 1
  | PQd4 => 3 | PQd5 => 2 | PQd6 => 1
  | PQ5 _ => 3 | PQ6 _ => 2 | PQ7 => 1
  | _ => 0
  end%nat.

Lemma hrank_holds th : holds th = true <-> (1 <= hrank (tpc th))%nat.
Proof. unfold holds, hrank. destruct (tpc th); split; intros H; try reflexivity; try discriminate; try lia. Qed.

Section Holder.
Variable U : list tid.
Variable nown : nid -> tid.

Theorem fg_holder_releases t s s' evs op :
  FCore U nown s -> fstop s = None -> fmx s = Some t -> fstep t s = (s', evs, op) -> fstop s' = None ->
  step_kind t s = KProgress /\
  (hrank (tpc (fth s' t)) < hrank (tpc (fth s t)) <= 5)%nat /\
  (hrank (tpc (fth s' t)) = 0%nat -> fmx s' = None) /\
  ((1 <= hrank (tpc (fth s' t)))%nat -> fmx s' = Some t).
Proof.
  intros HC Hstop Hmx H Hns.
  assert (Hh : holds (fth s t) = true) by (apply (f_hold _ _ _ HC t); exact Hmx).
  unfold step_kind.
  fstep_inv H Hstop.
  all: try (unfold holds in Hh; rewrite Epc in Hh; discriminate).
  all: try (cbn in Hns; discriminate).
  all: try congruence.
  all: cbn [fth fd set_th set_fd set_mx set_stop leave_waiting fmx fstop tpc with_pc with_ag].
  all: rewrite ?upd_same.
  all: split; [reflexivity|].
  all: split_ret; cbn [tpc hrank with_pc with_ag].
  all: repeat split; try lia; try (intros; reflexivity); try (intros; assumption); try (intros F; exfalso; clear - F; lia).
Qed.

End Holder.

(* ---- runs ---- *)
Definition fnext (t : tid) (s : fstate) : fstate := fst (fst (fstep t s)).
Fixpoint fexec (sched : list tid) (s : fstate) : fstate :=
  match sched with [] => s | t :: r => fexec r (fnext t s) end.

Lemma fnext_stopped t s : fstop s <> None -> fnext t s = s.
Proof. intros H. unfold fnext. now rewrite fstep_stopped. Qed.

Lemma fexec_stopped : forall sched s, fstop s <> None -> fexec sched s = s.
Proof. induction sched as [|t r IH]; intros s H; cbn; [reflexivity|]. rewrite fnext_stopped by assumption. now apply IH. Qed.

Lemma fexec_nostop_head sched s : fstop (fexec sched s) = None -> fstop s = None.
Proof. intros H. destruct (fstop s) eqn:E; [|reflexivity]. rewrite fexec_stopped in H by congruence. congruence. Qed.

Lemma fexec_app : forall a b s, fexec (a ++ b) s = fexec b (fexec a s).
Proof. induction a as [|t a IH]; intros b s; cbn; [reflexivity|apply IH]. Qed.

Lemma fnext_eq t s : fstep t s = (fnext t s, snd (fst (fstep t s)), snd (fstep t s)).
Proof. unfold fnext. destruct (fstep t s) as [[a b] c]. reflexivity. Qed.

(* number of positions of the schedule at which [P thread state] holds *)
Fixpoint count (P : tid -> fstate -> bool) (sched : list tid) (s : fstate) : nat :=
  match sched with
  | [] => 0
  | x :: r => ((if P x s then 1 else 0) + count P r (fnext x s))%nat
  end.

Definition is_progress (k : kind) : bool := match k with KProgress => true | _ => false end.
Definition is_casfail (k : kind) : bool := match k with KCasFail => true | _ => false end.
Definition is_spin (k : kind) : bool := match k with KSpin => true | _ => false end.

Definition progress_steps (t : tid) := count (fun x s => Nat.eqb x t && is_progress (step_kind x s)).
Definition spins (t : tid) := count (fun x s => Nat.eqb x t && is_spin (step_kind x s)).
Definition cas_fails (t : tid) := count (fun x s => Nat.eqb x t && is_casfail (step_kind x s)).
(* steps of the other threads that change [desired] (successful compare-exchanges) *)
Definition desired_changes_by_others (t : tid) :=
  count (fun x s => negb (Nat.eqb x t) && negb (desired (fd (fnext x s)) =? desired (fd s))).

(* the sum of the bounds of the calls thread t starts in the schedule *)
Fixpoint start_budget (t : tid) (sched : list tid) (s : fstate) : nat :=
  match sched with
  | [] => 0
  | x :: r =>
      ((if Nat.eqb x t then match step_kind x s with KStart c => call_bound c (tag (fth s t)) | _ => 0 end else 0)
       + start_budget t r (fnext x s))%nat
  end.

(* Amortised bound: the steps of t that are neither blocked lock attempts, nor failed
   compare-exchanges, nor the start of a call, nor an iteration of quiescent_barrier's spin, are
   paid for by the ranks with which its calls start (+7 for each iteration of the spin, which calls
   quiescent_state()).  In particular a call other than quiescent_barrier finishes within
   [call_bound] such steps. *)
Theorem fg_call_steps_bounded t : forall sched s,
  fstop (fexec sched s) = None ->
  (progress_steps t sched s + rank (fth (fexec sched s) t)
   <= rank (fth s t) + start_budget t sched s + 7 * spins t sched s)%nat.
Proof.
  induction sched as [|x r IH]; intros s Hns.
  - cbn. lia.
  - cbn [fexec] in *. pose proof (fexec_nostop_head _ _ Hns) as Hn1.
    assert (Hn0 : fstop s = None).
    { destruct (fstop s) eqn:E; [|reflexivity]. rewrite fnext_stopped in Hn1 by congruence. congruence. }
    specialize (IH (fnext x s) Hns).
    unfold progress_steps, spins in *. cbn [count start_budget].
    destruct (Nat.eqb x t) eqn:Ex.
    + apply Nat.eqb_eq in Ex. subst x. cbn [andb].
      pose proof (fg_step_rank t s _ _ _ Hn0 (fnext_eq t s) Hn1) as K.
      destruct (step_kind t s); cbn [is_progress is_spin] in *.
      * rewrite K in *. lia.
      * lia.
      * rewrite K in *. lia.
      * lia.
      * lia.
      * lia.
    + apply Nat.eqb_neq in Ex. cbn [andb].
      destruct (fstep_frame x s _ _ _ Hn0 (fnext_eq x s)) as [Hfr _].
      rewrite (Hfr t) in IH by congruence. lia.
Qed.

(* ---- the compare-exchange loop ---- *)
(* 1 when thread t is in the loop with an expected value that is no longer the value of [desired] *)
Definition stale (t : tid) (s : fstate) : nat :=
  match tpc (fth s t) with
  | PAb3 _ _ c | PQb3 _ c => if (desired (fd s) =? c)%N then 0%nat else 1%nat
  | _ => 0%nat
  end.

Lemma stale_le t s : (stale t s <= 1)%nat.
Proof. unfold stale. destruct (tpc (fth s t)); try lia; destruct (_ =? _); lia. Qed.

Lemma stale_own t s s' evs op :
  fstop s = None -> fstep t s = (s', evs, op) -> fstop s' = None ->
  ((if is_casfail (step_kind t s) then 1 else 0) + stale t s' <= stale t s)%nat.
Proof.
  intros Hstop H Hns. unfold step_kind, stale.
  fstep_inv H Hstop.
  all: try (cbn in Hns; discriminate).
  all: cbn [fth fd set_th set_fd set_mx leave_waiting fmx desired tpc with_pc with_ag is_casfail].
  all: rewrite ?upd_same; rewrite ?Epc.
  all: split_ret; cbn [tpc with_pc with_ag is_casfail].
  all: try lia.
  all: repeat match goal with |- context [if ?b then _ else _] => destruct b eqn:? end; cbn [is_casfail]; try lia.
  all: n2p; try congruence; try lia.
  unfold with_ag; cbn [tpc]; rewrite Epc; lia.
Qed.

(* The number of failed compare-exchanges of thread t in a run is at most the number of times another
   thread changed [desired] during the run (+1 if t's expected value was stale already at the start);
   a failed compare-exchange re-reads [desired] (fg_step_rank: the shared state is unchanged, and by
   [l_cas] of Qs/QsFgLive.v the expected value only grows). *)
Theorem fg_cas_failures_bounded t : forall sched s,
  fstop (fexec sched s) = None ->
  (cas_fails t sched s + stale t (fexec sched s) <= desired_changes_by_others t sched s + stale t s)%nat.
Proof.
  induction sched as [|x r IH]; intros s Hns.
  - cbn. lia.
  - cbn [fexec] in *. pose proof (fexec_nostop_head _ _ Hns) as Hn1.
    assert (Hn0 : fstop s = None).
    { destruct (fstop s) eqn:E; [|reflexivity]. rewrite fnext_stopped in Hn1 by congruence. congruence. }
    specialize (IH (fnext x s) Hns).
    unfold cas_fails, desired_changes_by_others in *. cbn [count].
    destruct (Nat.eqb x t) eqn:Ex.
    + apply Nat.eqb_eq in Ex. subst x. cbn [andb negb].
      pose proof (stale_own t s _ _ _ Hn0 (fnext_eq t s) Hn1) as K. lia.
    + apply Nat.eqb_neq in Ex. cbn [andb negb].
      destruct (fstep_frame x s _ _ _ Hn0 (fnext_eq x s)) as [Hfr _].
      assert (Hth : fth (fnext x s) t = fth s t) by (apply Hfr; congruence).
      destruct (desired (fd (fnext x s)) =? desired (fd s)) eqn:Ed; cbn [negb].
      * apply N.eqb_eq in Ed. assert (stale t (fnext x s) = stale t s) by (unfold stale; now rewrite Hth, Ed). lia.
      * pose proof (stale_le t (fnext x s)). lia.
Qed.
