(* Fine-grained model of include/frg/qs.hpp -- definitions only (Part C of the model).

   One step = one access to a shared atomic, or one call on the mutex, by one thread; thread-local
   computation (assertions on agent-local fields, the agent's own acked/deferred/pending fields, the
   node fields, which only the owning agent touches) is folded into the adjacent step.  Every agent
   is a thread with a script of API calls and a program counter; the scheduler is an arbitrary
   [list tid]; every load returns the latest value (SC interleaving).  A lock() step on a held mutex
   leaves the state unchanged (blocking = stuttering).  An FRG_ASSERT that fails stops the whole
   system ([fstop]).
   Ghost state: [fwait n] -- formed at await_barrier's load of the counter from the agents that are
   online and not inside quiescent_state()/offline(), shrunk when an agent enters either call;
   [fqbw t] the same for quiescent_barrier; [fwtg n] the target that goes with [fwait n];
   events [wev] per step (mutex calls, registrations, node accesses, callbacks).
   Vector clocks (happens-before) are layered on top in [hstate]. *)
From Coq Require Import List NArith Bool Arith.
Import ListNotations.
From FV Require Import Qs.QsTypes Qs.QsModel.
Local Open Scope N_scope.

Inductive pc :=
| PIdle
(* online(): lock; ++num_agents, load ctr; [first agent: load to_ack (assert 0); store to_ack 1; store ctr c+1]; unlock *)
| POn0 | POn1 | POn2 (c : N) | POn3 (c : N) | POn4 (c : N) | POn5 (c : N)
(* offline(): lock; --num_agents, load ctr; [fetch_sub; [store to_ack; store ctr]]; unlock *)
| POff0 | POff1 | POff2 (c : N) | POff3 (c : N) | POff4 (c : N) | POff5
(* quiescent_state(), deferred branch: load ctr (assert); load desired; [lock; store to_ack; store ctr; unlock] *)
| PQd1 | PQd2 | PQd3 | PQd4 | PQd5 | PQd6
(* quiescent_state(), normal branch: load ctr; [fetch_sub; [load desired; [lock; store to_ack; store ctr; unlock]]] *)
| PQ1 | PQ2 (c : N) | PQ3 (c : N) | PQ4 (c : N) | PQ5 (c : N) | PQ6 (c : N) | PQ7
(* await_barrier(n): load ctr; load desired; CAS loop; then the node is queued *)
| PAb1 (n : nid) | PAb2 (n : nid) (tg : N) | PAb3 (n : nid) (tg c : N)
(* run(): load ctr; one queued node per step *)
| PRun1 | PRun2 (c : N)
(* quiescent_barrier(): load ctr; load desired; CAS loop; loop { load ctr; quiescent_state() } *)
| PQb1 | PQb2 (tg : N) | PQb3 (tg c : N) | PQb4 (tg : N).

(* is the thread inside quiescent_state() or offline()? *)
Definition in_quiescent (p : pc) : bool :=
  match p with
  | POff0 | POff1 | POff2 _ | POff3 _ | POff4 _ | POff5
  | PQd1 | PQd2 | PQd3 | PQd4 | PQd5 | PQd6
  | PQ1 | PQ2 _ | PQ3 _ | PQ4 _ | PQ5 _ | PQ6 _ | PQ7 => true
  | _ => false end.

Record thread := mkT {
  tpc : pc;
  tscript : list call;       (* API calls still to be made *)
  tret : option N;           (* Some tg: the current quiescent_state() was called by quiescent_barrier (target tg) *)
  tag : agent                (* the qs_agent object: acked, deferred, pending *)
}.

Inductive stop := StopAssert (t : tid) (line : N) | StopUB (t : tid).

Record fstate := mkF {
  fd : dom;
  fmx : option tid;                 (* holder of the mutex *)
  fth : tid -> thread;
  ftarget : nid -> N;
  fstop : option stop;
  (* ghost *)
  fwait : nid -> tid -> bool;
  fwtg : nid -> N;                  (* target computed together with [fwait n] *)
  fqbw : tid -> tid -> bool;
  fowner : nid -> option tid
}.

(* what a step does to the happens-before clocks *)
Inductive clkop :=
| CkNone
| CkLoad (s : site) | CkStore (s : site) | CkRmw (s : site) | CkCasFail (s : site)
| CkLock | CkUnlock.

Section FG.
Variable enter_call exit_call : mcall.   (* the mutex call of the guard's constructor / destructor *)
Variable pop_first : bool.

Definition set_th (s : fstate) (t : tid) (th : thread) : fstate :=
  mkF (fd s) (fmx s) (upd (fth s) t th) (ftarget s) (fstop s) (fwait s) (fwtg s) (fqbw s) (fowner s).
Definition set_fd (s : fstate) (d : dom) : fstate :=
  mkF d (fmx s) (fth s) (ftarget s) (fstop s) (fwait s) (fwtg s) (fqbw s) (fowner s).
Definition set_mx (s : fstate) (m : option tid) : fstate :=
  mkF (fd s) m (fth s) (ftarget s) (fstop s) (fwait s) (fwtg s) (fqbw s) (fowner s).
Definition set_stop (s : fstate) (x : stop) : fstate :=
  mkF (fd s) (fmx s) (fth s) (ftarget s) (Some x) (fwait s) (fwtg s) (fqbw s) (fowner s).

Definition with_pc (th : thread) (p : pc) : thread := mkT p (tscript th) (tret th) (tag th).
Definition with_ag (th : thread) (a : agent) : thread := mkT (tpc th) (tscript th) (tret th) a.

(* return from the current call: back into quiescent_barrier's loop, or idle *)
Definition ret_th (th : thread) : thread :=
  match tret th with
  | Some tg => mkT (PQb4 tg) (tscript th) None (tag th)
  | None => mkT PIdle (tscript th) None (tag th)
  end.

Definition f_online (s : fstate) (x : tid) : bool := online_b (tag (fth s x)).
(* online and not inside quiescent_state()/offline() *)
Definition f_active (s : fstate) (x : tid) : bool :=
  online_b (tag (fth s x)) && negb (in_quiescent (tpc (fth s x))).

Definition leave_waiting (s : fstate) (t : tid) : fstate :=
  mkF (fd s) (fmx s) (fth s) (ftarget s) (fstop s)
      (fun n x => if Nat.eqb x t then false else fwait s n x) (fwtg s)
      (fun b x => if Nat.eqb x t then false else fqbw s b x) (fowner s).

Definition result := (fstate * list wev * clkop)%type.

Definition stutter (s : fstate) : result := (s, [], CkNone).
Definition halt (s : fstate) (t : tid) (line : N) : result := (set_stop s (StopAssert t line), [], CkNone).

(* a call on the mutex; [next] is the thread after the call returned *)
Definition do_mcall (s : fstate) (t : tid) (c : mcall) (next : thread) : result :=
  match c with
  | MLock =>
      match fmx s with
      | None => (set_th (set_mx s (Some t)) t next, [WMx MLock], CkLock)
      | Some _ => stutter s                        (* blocked *)
      end
  | MUnlock =>
      match fmx s with
      | Some h => if Nat.eqb h t then (set_th (set_mx s None) t next, [WMx MUnlock], CkUnlock)
                  else (set_stop s (StopUB t), [], CkNone)
      | None => (set_stop s (StopUB t), [], CkNone)
      end
  end.

(* entry of quiescent_state(): FRG_ASSERT(_acked_qs_counter); the agent leaves the waiting sets *)
Definition qs_entry (s : fstate) (t : tid) (th : thread) (co : clkop) : result :=
  let a := tag th in
  if acked a =? 0 then (set_stop s (StopAssert t 151), [], co)
  else (set_th (leave_waiting s t) t (with_pc th (if deferred a then PQd1 else PQ1)), [], co).

(* the tail of await_barrier: FRG_ASSERT(!node->_target_qs_counter); node->_target = target; push_back *)
Definition ab_finish (s : fstate) (t : tid) (th : thread) (n : nid) (tg : N) (co : clkop) : result :=
  if negb (ftarget s n =? 0) then (set_stop s (StopAssert t 214), [WNode n], co)
  else
    let a := tag th in
    (mkF (fd s) (fmx s) (upd (fth s) t (ret_th (with_ag th (mkAgent (acked a) (deferred a) (pending a ++ [n])))))
         (upd (ftarget s) n tg) (fstop s) (fwait s) (fwtg s) (fqbw s) (upd (fowner s) n (Some t)),
     [WReg n t; WNode n; WNode n; WNode n], co).

(* the CAS loop on desired: one compare_exchange per step; c = expected value; k continues after the loop *)
Definition cas_step (s : fstate) (tg c : N) : (dom * option N) :=
  let d := fd s in
  if desired d =? c then (mkDom (ctr d) tg (nagents d) (toack d), None)      (* success: leave the loop *)
  else (d, Some (desired d)).                                                (* failure: c := current value *)

Definition start_call (s : fstate) (t : tid) (th : thread) (c : call) (rest : list call) : result :=
  let a := tag th in
  let th0 := mkT PIdle rest None a in
  match c with
  | COnline =>
      if negb (acked a =? 0) then halt s t 102
      else (set_th s t (with_pc th0 POn0), [], CkNone)
  | COffline =>
      if acked a =? 0 then halt s t 124
      else if deferred a then halt (leave_waiting s t) t 127
      else (set_th (leave_waiting s t) t (with_pc th0 POff0), [], CkNone)
  | CQsCall => qs_entry s t th0 CkNone
  | CAwait n => (set_th s t (with_pc th0 (PAb1 n)), [], CkNone)
  | CRun => (set_th s t (with_pc th0 PRun1), [], CkNone)
  | CQBarrier => (set_th s t (with_pc th0 PQb1), [], CkNone)
  end.

Definition f_step (t : tid) (s : fstate) : result :=
  match fstop s with
  | Some _ => stutter s
  | None =>
  let th := fth s t in
  let a := tag th in
  let d := fd s in
  match tpc th with
  | PIdle =>
      match tscript th with
      | [] => stutter s
      | c :: rest => start_call s t th c rest
      end
  (* ---- online ---- *)
  | POn0 => do_mcall s t enter_call (with_pc th POn1)
  | POn1 =>
      let n' := inc32 (nagents d) in
      let c := ctr d in
      (set_th (set_fd s (mkDom c (desired d) n' (toack d))) t
              (with_pc th (if n' =? 1 then POn2 c else POn5 c)), [], CkLoad S_on_ctr_ld)
  | POn2 c =>
      if negb (toack d =? 0) then (set_stop s (StopAssert t 114), [], CkLoad S_on_toack_ld)
      else (set_th s t (with_pc th (POn3 c)), [], CkLoad S_on_toack_ld)
  | POn3 c =>
      (set_th (set_fd s (mkDom (ctr d) (desired d) (nagents d) 1)) t (with_pc th (POn4 c)), [], CkStore S_on_toack_st)
  | POn4 c =>
      (set_th (set_fd s (mkDom (c + 1) (desired d) (nagents d) (toack d))) t (with_pc th (POn5 c)), [], CkStore S_on_ctr_st)
  | POn5 c =>
      do_mcall s t exit_call (ret_th (with_ag th (mkAgent c (deferred a) (pending a))))
  (* ---- offline ---- *)
  | POff0 => do_mcall s t enter_call (with_pc th POff1)
  | POff1 =>
      let n' := dec32 (nagents d) in
      let c := ctr d in
      let s1 := set_fd s (mkDom c (desired d) n' (toack d)) in
      if negb (acked a =? c) then
        if negb (acked a + 1 =? c) then (set_stop s1 (StopAssert t 137), [], CkLoad S_off_ctr_ld)
        else (set_th s1 t (with_pc th (POff2 c)), [], CkLoad S_off_ctr_ld)
      else (set_th s1 t (with_pc th POff5), [], CkLoad S_off_ctr_ld)
  | POff2 c =>
      let old := toack d in
      (set_th (set_fd s (mkDom (ctr d) (desired d) (nagents d) (dec32 old))) t
              (with_pc th (if old =? 1 then POff3 c else POff5)), [], CkRmw S_off_fsub)
  | POff3 c =>
      (set_th (set_fd s (mkDom (ctr d) (desired d) (nagents d) (nagents d))) t (with_pc th (POff4 c)), [], CkStore S_off_toack_st)
  | POff4 c =>
      (set_th (set_fd s (mkDom (c + 1) (desired d) (nagents d) (toack d))) t (with_pc th POff5), [], CkStore S_off_ctr_st)
  | POff5 =>
      do_mcall s t exit_call (ret_th (with_ag th (mkAgent 0 (deferred a) (pending a))))
  (* ---- quiescent_state, deferred branch ---- *)
  | PQd1 =>
      if negb (acked a =? ctr d) then (set_stop s (StopAssert t 154), [], CkLoad S_qd_ctr_ld)
      else (set_th s t (with_pc th PQd2), [], CkLoad S_qd_ctr_ld)
  | PQd2 =>
      if acked a <? desired d then (set_th s t (with_pc th PQd3), [], CkLoad S_qd_des_ld)
      else (set_th s t (ret_th th), [], CkLoad S_qd_des_ld)
  | PQd3 => do_mcall s t enter_call (with_pc th PQd4)
  | PQd4 =>
      (set_th (set_fd s (mkDom (ctr d) (desired d) (nagents d) (nagents d))) t (with_pc th PQd5), [], CkStore S_qd_toack_st)
  | PQd5 =>
      (set_th (set_fd s (mkDom (acked a + 1) (desired d) (nagents d) (toack d))) t
              (with_pc (with_ag th (mkAgent (acked a) false (pending a))) PQd6), [], CkStore S_qd_ctr_st)
  | PQd6 => do_mcall s t exit_call (ret_th th)
  (* ---- quiescent_state, normal branch ---- *)
  | PQ1 =>
      let c := ctr d in
      if negb (acked a =? c) then
        if negb (acked a + 1 =? c) then (set_stop s (StopAssert t 169), [], CkLoad S_q_ctr_ld)
        else (set_th s t (with_pc th (PQ2 c)), [], CkLoad S_q_ctr_ld)
      else (set_th s t (ret_th th), [], CkLoad S_q_ctr_ld)
  | PQ2 c =>
      let old := toack d in
      let s1 := set_fd s (mkDom (ctr d) (desired d) (nagents d) (dec32 old)) in
      if old =? 1 then (set_th s1 t (with_pc th (PQ3 c)), [], CkRmw S_q_fsub)
      else (set_th s1 t (ret_th (with_ag th (mkAgent (acked a + 1) (deferred a) (pending a)))), [], CkRmw S_q_fsub)
  | PQ3 c =>
      if c <? desired d then (set_th s t (with_pc th (PQ4 c)), [], CkLoad S_q_des_ld)
      else (set_th s t (ret_th (with_ag th (mkAgent (acked a + 1) true (pending a)))), [], CkLoad S_q_des_ld)
  | PQ4 c => do_mcall s t enter_call (with_pc th (PQ5 c))
  | PQ5 c =>
      (set_th (set_fd s (mkDom (ctr d) (desired d) (nagents d) (nagents d))) t (with_pc th (PQ6 c)), [], CkStore S_q_toack_st)
  | PQ6 c =>
      (set_th (set_fd s (mkDom (c + 1) (desired d) (nagents d) (toack d))) t (with_pc th PQ7), [], CkStore S_q_ctr_st)
  | PQ7 =>
      do_mcall s t exit_call (ret_th (with_ag th (mkAgent (acked a + 1) (deferred a) (pending a))))
  (* ---- await_barrier ---- *)
  | PAb1 n =>
      let tg := ctr d + 2 in
      (mkF d (fmx s) (upd (fth s) t (with_pc th (PAb2 n tg))) (ftarget s) (fstop s)
           (upd (fwait s) n (f_active s)) (upd (fwtg s) n tg) (fqbw s) (fowner s), [], CkLoad S_ab_ctr_ld)
  | PAb2 n tg =>
      let c := desired d in
      if c <? tg then (set_th s t (with_pc th (PAb3 n tg c)), [], CkLoad S_ab_des_ld)
      else ab_finish s t th n tg (CkLoad S_ab_des_ld)
  | PAb3 n tg c =>
      match cas_step s tg c with
      | (d', None) => ab_finish (set_fd s d') t th n tg (CkRmw S_ab_cas)
      | (_, Some c') =>
          if c' <? tg then (set_th s t (with_pc th (PAb3 n tg c')), [], CkCasFail S_ab_cas)
          else ab_finish s t th n tg (CkCasFail S_ab_cas)
      end
  (* ---- run ---- *)
  | PRun1 => (set_th s t (with_pc th (PRun2 (ctr d))), [], CkLoad S_run_ctr_ld)
  | PRun2 c =>
      match pending a with
      | [] => (set_th s t (ret_th th), [], CkNone)
      | n :: r =>
          if c <? ftarget s n then (set_th s t (ret_th th), [WNode n], CkNone)
          else
            (mkF d (fmx s) (upd (fth s) t (with_ag th (mkAgent (acked a) (deferred a) r)))
                 (upd (ftarget s) n 0) (fstop s) (fwait s) (fwtg s) (fqbw s) (fowner s),
             WNode n :: fire_evs pop_first n t, CkNone)
      end
  (* ---- quiescent_barrier ---- *)
  | PQb1 =>
      let tg := ctr d + 2 in
      (mkF d (fmx s) (upd (fth s) t (with_pc th (PQb2 tg))) (ftarget s) (fstop s)
           (fwait s) (fwtg s) (upd (fqbw s) t (f_active s)) (fowner s), [], CkLoad S_qb_ctr_ld)
  | PQb2 tg =>
      let c := desired d in
      (set_th s t (with_pc th (if c <? tg then PQb3 tg c else PQb4 tg)), [], CkLoad S_qb_des_ld)
  | PQb3 tg c =>
      match cas_step s tg c with
      | (d', None) => (set_th (set_fd s d') t (with_pc th (PQb4 tg)), [], CkRmw S_qb_cas)
      | (_, Some c') => (set_th s t (with_pc th (if c' <? tg then PQb3 tg c' else PQb4 tg)), [], CkCasFail S_qb_cas)
      end
  | PQb4 tg =>
      if ctr d <? tg then qs_entry s t (mkT (tpc th) (tscript th) (Some tg) a) (CkLoad S_qb_loop_ld)
      else (set_th s t (with_pc th PIdle), [WQbRet t], CkLoad S_qb_loop_ld)
  end
  end.

(* a run under a scheduler *)
Fixpoint f_run (sched : list tid) (s : fstate) (tr : list wev) : fstate * list wev :=
  match sched with
  | [] => (s, tr)
  | t :: r => let '(s', evs, _) := f_step t s in f_run r s' (tr ++ evs)
  end.

End FG.

(* the target of the quiescent_barrier() the thread is inside, if any *)
Definition qb_target (th : thread) : option N :=
  match tpc th with PQb2 tg | PQb3 tg _ | PQb4 tg => Some tg | _ => tret th end.

Definition thread0 (script : list call) : thread := mkT PIdle script None agent0.

Definition f0 (scripts : tid -> list call) : fstate :=
  mkF dom0 None (fun t => thread0 (scripts t)) (fun _ => 0) None
      (fun _ _ => false) (fun _ => 0) (fun _ _ => false) (fun _ => None).

(* the fine-grained model of the current source *)
Definition gen_enter_call : mcall := hd MLock gen_enter.
Definition gen_exit_call : mcall := hd MUnlock gen_exit.
Definition gen_f_step : tid -> fstate -> result := f_step gen_enter_call gen_exit_call gen_pop_first.
Definition gen_f_run := f_run gen_enter_call gen_exit_call gen_pop_first.

(* ------------------------------------------------------------------------------------------ *)
(* happens-before: vector clocks (DESIGN 3.6)                                                  *)
(* ------------------------------------------------------------------------------------------ *)

Definition vclock := tid -> nat.
Definition vjoin (a b : vclock) : vclock := fun x => Nat.max (a x) (b x).
Definition vzero : vclock := fun _ => O.

Record clocks := mkClk {
  vc : tid -> vclock;        (* per thread *)
  lc : loc -> vclock;        (* release clock of each atomic *)
  mc : vclock                (* release clock of the mutex *)
}.
Definition clk0 : clocks := mkClk (fun _ => vzero) (fun _ => vzero) vzero.

Definition loc_eq_upd (f : loc -> vclock) (l : loc) (v : vclock) : loc -> vclock :=
  fun x => if loc_eqb x l then v else f x.

Section HB.
Variable ord : site -> mo.
Variable ord_fail : site -> mo.

Definition site_loc (s : site) : loc := snd (site_kind s).

(* thread t performs [op]; its own component ticks first *)
Definition clk_step (t : tid) (op : clkop) (k : clocks) : clocks :=
  let me := upd (vc k t) t (S (vc k t t)) in
  match op with
  | CkNone => mkClk (upd (vc k) t me) (lc k) (mc k)
  | CkLoad s =>
      let me' := if is_acq (ord s) then vjoin me (lc k (site_loc s)) else me in
      mkClk (upd (vc k) t me') (lc k) (mc k)
  | CkCasFail s =>
      let me' := if is_acq (ord_fail s) then vjoin me (lc k (site_loc s)) else me in
      mkClk (upd (vc k) t me') (lc k) (mc k)
  | CkStore s =>
      (* a release store starts a new release sequence; a relaxed store ends the old one *)
      mkClk (upd (vc k) t me) (loc_eq_upd (lc k) (site_loc s) (if is_rel (ord s) then me else vzero)) (mc k)
  | CkRmw s =>
      let l := site_loc s in
      let me' := if is_acq (ord s) then vjoin me (lc k l) else me in
      let l' := if is_rel (ord s) then vjoin (lc k l) me' else lc k l in     (* an RMW continues the sequence *)
      mkClk (upd (vc k) t me') (loc_eq_upd (lc k) l l') (mc k)
  | CkLock => mkClk (upd (vc k) t (vjoin me (mc k))) (lc k) (mc k)
  | CkUnlock => mkClk (upd (vc k) t me) (lc k) me
  end.

End HB.

(* fine-grained state + clocks + for every node n (every quiescent_barrier caller b) and agent x the
   time (x's own clock component) at which x left [fwait n] ([fqbw b]) *)
Record hstate := mkH {
  hf : fstate;
  hk : clocks;
  hleft : nid -> tid -> option nat;     (* when x left fwait n *)
  hleftq : tid -> tid -> option nat     (* when x left fqbw b (the waiting set of b's quiescent_barrier) *)
}.

Definition h0 (scripts : tid -> list call) : hstate := mkH (f0 scripts) clk0 (fun _ _ => None) (fun _ _ => None).

Definition gen_h_step (t : tid) (h : hstate) : hstate * list wev :=
  let '(s', evs, op) := gen_f_step t (hf h) in
  let k' := match fstop (hf h) with
            | Some _ => hk h
            | None => clk_step gen_ord gen_ord_fail t op (hk h) end in
  (mkH s' k'
       (fun n x => if fwait s' n x then None
                   else if fwait (hf h) n x then Some (vc k' x x)
                   else hleft h n x)
       (fun b x => if fqbw s' b x then None
                   else if fqbw (hf h) b x then Some (vc k' x x)
                   else match qb_target (fth (hf h) b), qb_target (fth s' b) with
                        | None, Some _ => None          (* b starts a new barrier: forget the previous one *)
                        | _, _ => hleftq h b x end),
   evs).

Fixpoint gen_h_run (sched : list tid) (h : hstate) (tr : list wev) : hstate * list wev :=
  match sched with
  | [] => (h, tr)
  | t :: r => let '(h', evs) := gen_h_step t h in gen_h_run r h' (tr ++ evs)
  end.
