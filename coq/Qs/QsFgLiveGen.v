(* Termination of calls and liveness of the fine-grained model, for the model instance built from the
   generated source facts ([gen_f_step], [gen_f_run]) and for the states reachable from [f0]. *)
From Coq Require Import List NArith Bool Arith Lia.
Import ListNotations.
From FV Require Import Qs.QsTypes Qs.QsModel Qs.QsFgModel Qs.QsGenOk Qs.QsWoProofs Qs.QsFgProofs Qs.QsFgThms
  Qs.QsFgGen Qs.QsFgTerm Qs.QsFgLive.
Local Open Scope N_scope.

Lemma gen_fnext t s : fst (fst (gen_f_step t s)) = fnext t s.
Proof. now rewrite gen_f_step_eq. Qed.

(* [fexec] / [ftrace] are the state and the events of [gen_f_run] *)
Lemma gen_f_run_exec : forall sched s tr, gen_f_run sched s tr = (fexec sched s, tr ++ ftrace sched s).
Proof.
  induction sched as [|t r IH]; intros s tr.
  - cbn. now rewrite app_nil_r.
  - rewrite gen_f_run_cons. rewrite gen_f_step_eq. cbn [fexec ftrace]. unfold fnext.
    destruct (fstep t s) as [[s1 e1] o1]. cbn [fst snd]. rewrite IH. now rewrite app_assoc.
Qed.

(* the expected value of the compare-exchange the thread is about to make *)
Definition cas_expected (th : thread) : option N :=
  match tpc th with PAb3 _ _ c | PQb3 _ c => Some c | _ => None end.

(* a failed compare-exchange: [desired] has grown beyond the expected value, which is replaced by the
   current value *)
Lemma fg_casfail_grows U nown t s s' evs op :
  FAll U nown s -> fstop s = None -> fstep t s = (s', evs, op) -> step_kind t s = KCasFail ->
  exists c, cas_expected (fth s t) = Some c /\ c < desired (fd s) /\
            cas_expected (fth s' t) = Some (desired (fd s)) /\ fd s' = fd s.
Proof.
  intros (_ & _ & _ & _ & HLL) Hstop H Hk. destruct (HLL t) as (_ & C & _).
  unfold step_kind in Hk. unfold cas_expected.
  destruct (tpc (fth s t)) eqn:Ep; try discriminate.
  - destruct (tscript (fth s t)); discriminate.
  - destruct (fmx s); discriminate.
  - destruct (fmx s); discriminate.
  - destruct (fmx s); discriminate.
  - destruct (fmx s); discriminate.
  - destruct (desired (fd s) =? c) eqn:E1; [discriminate|]. destruct (desired (fd s) <? tg) eqn:E2; [|discriminate].
    exists c. split; [reflexivity|]. n2p. destruct C as [C1 C2]. split; [lia|].
    unfold fstep, f_step in H. rewrite Hstop, Ep in H. cbn zeta in H. unfold cas_step in H.
    apply N.eqb_neq in E1. rewrite E1 in H. apply N.ltb_lt in E2. rewrite E2 in H. inversion H; subst.
    cbn. rewrite upd_same. cbn. split; reflexivity.
  - destruct (desired (fd s) =? c) eqn:E1; [discriminate|]. destruct (desired (fd s) <? tg) eqn:E2; [|discriminate].
    exists c. split; [reflexivity|]. n2p. destruct C as [C1 C2]. split; [lia|].
    unfold fstep, f_step in H. rewrite Hstop, Ep in H. cbn zeta in H. unfold cas_step in H.
    apply N.eqb_neq in E1. rewrite E1 in H. apply N.ltb_lt in E2. rewrite E2 in H. inversion H; subst.
    cbn. rewrite upd_same. cbn. split; reflexivity.
  - destruct (ctr (fd s) <? tg); discriminate.
Qed.

Section Gen.
Variable U : list tid.
Variable nown : nid -> tid.
Variable scripts : tid -> list call.
Hypothesis ND : NoDup U.
Hypothesis HB : few U.
Hypothesis Hok : scripts_ok U nown scripts.

Lemma reach_all s tr : freach scripts s tr -> fstop s = None -> FAll U nown s.
Proof.
  intros H. induction H as [|s tr t s' evs op Hr IH Hs].
  - intros _. destruct (finv_init U nown scripts Hok) as [HC HG].
    split; [exact HC|]. split; [exact HG|]. apply flive_init; exact nown.
  - intros Hns. destruct (fstop s) eqn:Hstop.
    + rewrite fstep_stopped in Hs by congruence. inversion Hs; subst. congruence.
    + apply (fstep_all U nown ND HB t s s' evs op (IH eq_refl) Hstop Hs Hns).
Qed.

Lemma run_all sched s tr : gen_f_run sched (f0 scripts) [] = (s, tr) -> fstop s = None -> FAll U nown s.
Proof. intros H. apply (reach_all s tr). apply (run_reach scripts sched s tr H). Qed.

(* one step of thread t from a reachable state, by kind *)
Lemma fgen_step_rank s tr t s' evs op :
  freach scripts s tr -> fstop s = None -> gen_f_step t s = (s', evs, op) -> fstop s' = None ->
  match step_kind t s with
  | KNone => s' = s
  | KStart c => (1 <= rank (fth s' t) <= call_bound c (tag (fth s t)))%nat
  | KBlocked => s' = s
  | KCasFail => rank (fth s' t) = rank (fth s t) /\ fd s' = fd s /\
                exists c, cas_expected (fth s t) = Some c /\ c < desired (fd s) /\
                          cas_expected (fth s' t) = Some (desired (fd s))
  | KSpin => (rank (fth s' t) <= rank (fth s t) + 7)%nat
  | KProgress => (rank (fth s' t) < rank (fth s t))%nat
  end.
Proof.
  intros Hr Hstop H Hns. rewrite gen_f_step_eq in H.
  pose proof (fg_step_rank t s s' evs op Hstop H Hns) as K.
  destruct (step_kind t s) eqn:Ek; try exact K.
  - destruct K; split; assumption.
  - destruct K as [K1 K2]. split; [exact K1|]. split; [exact K2|].
    destruct (fg_casfail_grows U nown t s s' evs op (reach_all s tr Hr Hstop) Hstop H Ek) as (c & A & B & C & _).
    exists c. auto.
Qed.

(* the holder of the mutex *)
Lemma fgen_holder s tr h s' evs op :
  freach scripts s tr -> fstop s = None -> fmx s = Some h -> gen_f_step h s = (s', evs, op) -> fstop s' = None ->
  step_kind h s = KProgress /\
  (hrank (tpc (fth s' h)) < hrank (tpc (fth s h)) <= 5)%nat /\
  (hrank (tpc (fth s' h)) = 0%nat -> fmx s' = None) /\
  ((1 <= hrank (tpc (fth s' h)))%nat -> fmx s' = Some h).
Proof.
  intros Hr Hstop Hm H Hns. rewrite gen_f_step_eq in H.
  apply (fg_holder_releases U nown h s s' evs op (proj1 (reach_all s tr Hr Hstop)) Hstop Hm H Hns).
Qed.

(* ... and the other threads leave the holder and the mutex alone *)
Lemma fgen_holder_frame s x h s' evs op :
  fstop s = None -> fmx s = Some h -> x <> h -> gen_f_step x s = (s', evs, op) -> fstop s' = None ->
  fmx s' = Some h /\ fth s' h = fth s h.
Proof.
  intros Hstop Hm Hx H Hns. rewrite gen_f_step_eq in H.
  destruct (fstep_frame x s s' evs op Hstop H) as [Hfr Hmx]. split; [apply Hmx; auto|apply Hfr; auto].
Qed.

Lemma fgen_rounds s tr ls tg :
  freach scripts s tr -> fstop (fexec (concat ls) s) = None -> rounds ls s ->
  tg <= desired (fd s) -> tg <= ctr (fd s) + N.of_nat (length ls) -> tg <= ctr (fd (fexec (concat ls) s)).
Proof.
  intros Hr Hns HR. pose proof (fexec_nostop_head _ _ Hns) as Hn0.
  apply (rounds_progress U nown ND HB ls s tg (reach_all s tr Hr Hn0) Hns HR).
Qed.

Lemma fgen_liveness s tr ls sched2 t n :
  freach scripts s tr ->
  let s1 := fexec (concat ls) s in
  fstop (fexec sched2 s1) = None -> rounds ls s ->
  ftarget s n <= ctr (fd s) + N.of_nat (length ls) ->
  ftarget s n <= ctr (fd s1) /\
  (In n (pending (tag (fth s1 t))) -> ftarget s1 n = ftarget s n ->
   tpc (fth s1 t) = PIdle -> (exists rest, tscript (fth s1 t) = CRun :: rest) ->
   (length (pending (tag (fth s1 t))) + 2 < count_occ Nat.eq_dec sched2 t)%nat ->
   In (WCb n t) (ftrace sched2 s1)).
Proof.
  intros Hr s1 Hns HR Hlen. pose proof (fexec_nostop_head _ _ Hns) as Hn1. fold s1 in Hn1.
  pose proof (fexec_nostop_head _ _ Hn1) as Hn0.
  pose proof (reach_all s tr Hr Hn0) as HA.
  assert (Hd : ftarget s n <= desired (fd s)) by (destruct HA as (_ & _ & _ & HD & _); apply HD).
  pose proof (rounds_progress U nown ND HB ls s _ HA Hn1 HR Hd Hlen) as P. fold s1 in P.
  split; [exact P|]. intros Hin Htg Hpc [rest Hscr] Hcnt.
  apply (fg_run_fires U nown ND HB t n sched2 s1 (length (pending (tag (fth s1 t))) + 2)%nat (fexec_all U nown ND HB _ s HA Hn1) Hns Hin); [|exact Hcnt].
  unfold run_need. rewrite Hpc, Hscr, Htg. apply N.leb_le in P. now rewrite P.
Qed.

Lemma fgen_qb_returns s tr ls b tg :
  freach scripts s tr ->
  let s1 := fexec (concat ls) s in
  fstop s1 = None -> rounds ls s ->
  (tpc (fth s b) = PQb4 tg \/ tret (fth s b) = Some tg) ->
  tg <= ctr (fd s) + N.of_nat (length ls) ->
  tg <= ctr (fd s1) /\
  forall sched2, let s2 := fexec sched2 s1 in
    fstop s2 = None -> tpc (fth s2 b) = PQb4 tg ->
    forall s3 evs op, gen_f_step b s2 = (s3, evs, op) ->
      tpc (fth s3 b) = PIdle /\ In (WQbRet b) evs /\ fstop s3 = None.
Proof.
  intros Hr s1 Hn1 HR Hb Hlen. pose proof (fexec_nostop_head _ _ Hn1) as Hn0.
  pose proof (reach_all s tr Hr Hn0) as HA.
  assert (Hd : tg <= desired (fd s)).
  { destruct HA as (_ & _ & _ & _ & HLL). destruct (HLL b) as (Q & _). now apply Q. }
  pose proof (rounds_progress U nown ND HB ls s _ HA Hn1 HR Hd Hlen) as P. fold s1 in P.
  split; [exact P|]. intros sched2 s2 Hn2 Hpc s3 evs op H. rewrite gen_f_step_eq in H.
  pose proof (fexec_ctr_mono U nown ND HB sched2 s1 (fexec_all U nown ND HB _ s HA Hn1) Hn2) as M. fold s2 in M.
  apply (fg_qb_exit nown b s2 s3 evs op tg Hn2 Hpc); [lia|exact H].
Qed.

End Gen.
