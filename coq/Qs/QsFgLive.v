(* Fine-grained model of qs.hpp: liveness.

   Further invariants ([FLive]): when agents_to_ack is 0 and somebody is online, some thread is about
   to restart the period (or holds it deferred); [desired] covers every target; the pending lists are
   sorted by target.  Round theorem: in a run segment during which some agent is online throughout,
   every agent that is online (or inside quiescent_state()/offline()) at its start leaves that call
   and, if it was online, makes one more complete call of quiescent_state() or offline(), the period
   counter advances as long as it is below [desired] -- for every interleaving inside the segment. *)
From Coq Require Import List NArith Bool Arith Lia.
Import ListNotations.
From FV Require Import Qs.QsTypes Qs.QsModel Qs.QsFgModel Qs.QsWoProofs Qs.QsFgProofs Qs.QsFgThms Qs.QsFgTerm.
Local Open Scope N_scope.
Local Set Warnings "-unused-intro-pattern".

Definition J5 (s : fstate) : Prop :=
  toack (fd s) = 0 -> (exists x, memb (fth s x) = true) -> exists x, restarter (fth s x) = true.

Lemma j5_step s s' t :
  (forall x, x <> t -> fth s' x = fth s x) -> J5 s ->
  (toack (fd s') = 0 -> toack (fd s) = 0 \/ restarter (fth s' t) = true) ->
  (memb (fth s' t) = true -> memb (fth s t) = true \/ restarter (fth s' t) = true \/ exists y, y <> t /\ memb (fth s y) = true) ->
  (restarter (fth s t) = true -> restarter (fth s' t) = true \/ toack (fd s') <> 0) ->
  J5 s'.
Proof.
  intros Hfr HJ C1 C2 C3 T0 [x Mx].
  destruct (restarter (fth s' t)) eqn:Rt; [now exists t|].
  destruct (C1 T0) as [T|F]; [|discriminate].
  assert (Hm : exists y, memb (fth s y) = true).
  { destruct (Nat.eq_dec x t) as [->|Hx].
    - destruct (C2 Mx) as [M|[F|[y [_ My]]]]; [now exists t|discriminate|now exists y].
    - exists x. now rewrite <- (Hfr x Hx). }
  destruct (HJ T Hm) as [y Ry].
  destruct (Nat.eq_dec y t) as [->|Hy].
  - destruct (C3 Ry) as [F|F]; [discriminate|contradiction].
  - exists y. now rewrite (Hfr y Hy).
Qed.

Section LiveInv.
Variable U : list tid.
Variable nown : nid -> tid.
Hypothesis ND : NoDup U.
Hypothesis HB : few U.

(* the period counter never decreases *)
Lemma fstep_ctr_mono t s s' evs op :
  FCore U nown s -> fstop s = None -> fstep t s = (s', evs, op) -> ctr (fd s) <= ctr (fd s').
Proof.
  intros HC Hstop H.
  fstep_inv H Hstop.
  all: cbn [fd set_th set_fd set_mx set_stop leave_waiting ctr].
  all: try apply N.le_refl.
  all: try (get_local U nown HC t Epc; intuition (subst; cbn; lia)).
  - (* PQd5 *) get_local U nown HC t Epc. destruct L as (_ & _ & Ld).
    destruct (f_j4 _ _ _ HC t Ld) as [_ E]. rewrite E. lia.
Qed.

Ltac frame_tac := let x := fresh "x" in let Hx := fresh "Hx" in
  intros x Hx; cbn [fth set_th set_fd set_mx set_stop leave_waiting]; rewrite ?upd_other by exact Hx; reflexivity.

Ltac same_attr Epc :=
  cbn [fth set_th set_fd set_mx leave_waiting]; rewrite ?upd_same;
  unfold memb, restarter, eack; split_ret; cbn [tpc tag with_pc with_ag acked deferred]; rewrite ?Epc; cbn.

Lemma j5_witness s t : restarter (fth s t) = true -> J5 s.
Proof. intros R _ _. now exists t. Qed.

(* every online agent still has to ack the (virtual) period: agents_to_ack is not 0 *)
Lemma j5_all_need s : FCore U nown s ->
  (forall x, memb (fth s x) = true -> eack (fth s x) + 1 = vctr s) -> J5 s.
Proof.
  intros HC Hall T0 [x Mx]. exfalso.
  assert (Hn : needs (vctr s) (fth s x) = true).
  { rewrite needs_eq, Mx, (Hall x Mx), N.eqb_refl. apply orb_true_r. }
  pose proof (toack_pos U nown s x HC Hn) as P. clear - P T0. lia.
Qed.

(* the holder t, having reset agents_to_ack, stores the new period *)
Lemma j5_store s s' t :
  FCore U nown s -> FCore U nown s' -> fmx s = Some t -> special (fth s t) = true ->
  (forall x, x <> t -> fth s' x = fth s x) -> vctr s' = ctr (fd s) + 1 ->
  (memb (fth s' t) = true -> eack (fth s' t) = ctr (fd s)) -> J5 s'.
Proof.
  intros HC HC' Hmx Sp Hfr Hv Ht. apply (j5_all_need s' HC'). intros x Mx. rewrite Hv.
  destruct (Nat.eq_dec x t) as [->|Hx]; [now rewrite (Ht Mx)|].
  rewrite (Hfr x Hx) in *.
  assert (V : vctr s = ctr (fd s) + 1) by (unfold vctr; now rewrite Hmx, Sp).
  pose proof (f_le _ _ _ HC x Mx) as Le. destruct (f_j1 _ _ _ HC x Mx) as [E|E]; rewrite V in E; clear - E Le; lia.
Qed.

Lemma dec32_zero x : dec32 x = 0 -> x = 1.
Proof. unfold dec32. destruct (x =? 0) eqn:E; [discriminate|]. apply N.eqb_neq in E. lia. Qed.

Ltac holder_facts HC t Epc :=
  assert (Hh : holds (fth _ t) = true) by (unfold holds; now rewrite Epc);
  assert (Hmx : fmx _ = Some t) by (apply (f_hold U nown _ HC t); exact Hh).

Lemma fstep_j5 t s s' evs op :
  In t U -> FCore U nown s -> J5 s -> fstop s = None ->
  fstep t s = (s', evs, op) -> fstop s' = None -> FCore U nown s' -> J5 s'.
Proof.
  intros Ht HC HJ Hstop H Hns HC'.
  fstep_inv H Hstop.
  all: try (cbn in Hns; discriminate).
  all: try assumption.
  all: try solve [ apply (j5_step s _ t); [frame_tac | exact HJ
    | cbn; intros T; left; exact T
    | same_attr Epc; intros M; left; exact M
    | same_attr Epc; intros R; left; exact R ] ].
  all: try solve [ apply (j5_witness _ t); same_attr Epc; try reflexivity; apply orb_true_r ].
  all: get_local U nown HC t Epc.
  - (* POn1 -> POn5: somebody is online already *)
    destruct L as (L0 & La & Ld). holder_facts HC t Epc.
    assert (Hnm : memb (fth s t) = false) by (unfold memb; rewrite Epc, La; reflexivity).
    pose proof (nagents_room U nown s t HC ND Ht Hnm) as Hroom.
    assert (Hinc : inc32 (nagents (fd s)) = nagents (fd s) + 1).
    { unfold inc32. destruct (nagents (fd s) =? 4294967295) eqn:E; [|reflexivity]. n2p. unfold few in HB. clear - HB Hroom E. lia. }
    rewrite Hinc in *. n2p.
    apply (j5_step s _ t); [frame_tac | exact HJ | cbn; intros T; left; exact T | |].
    + intros _. right. right.
      assert (P : 0 < cnt (fun x => memb (fth s x)) U) by (rewrite <- (f_j3 _ _ _ HC); clear - Heqb; lia).
      destruct (cnt_pos_ex _ _ P) as [y [_ My]]. exists y. split; [|exact My]. intros ->. congruence.
    + unfold restarter. rewrite Epc, Ld. discriminate.
  - (* POn4 -> POn5: the counter is stored *)
    destruct L as (L0 & La & Ld & Lc & Ln & L1). holder_facts HC t Epc.
    apply (j5_store s _ t HC HC' Hmx); [unfold special; now rewrite Epc | frame_tac | |].
    + unfold vctr. cbn. rewrite Hmx, upd_same. unfold special. cbn. now rewrite Lc.
    + cbn. rewrite upd_same. unfold eack. cbn. auto.
  - (* POn5 -> idle *)
    destruct L as (L0 & La & Ld & L1).
    apply (j5_step s _ t); [frame_tac | exact HJ | cbn; intros T; left; exact T | |].
    + intros _. left. unfold memb. now rewrite Epc.
    + unfold restarter. rewrite Epc, Ld. discriminate.
  - (* POff1 -> POff2 *)
    destruct L as (L0 & La & Ld).
    apply (j5_step s _ t); [frame_tac | exact HJ | cbn; intros T; left; exact T | |].
    + cbn. rewrite upd_same. unfold memb. cbn. discriminate.
    + unfold restarter. rewrite Epc, Ld. discriminate.
  - (* POff1 -> POff5 *)
    destruct L as (L0 & La & Ld).
    apply (j5_step s _ t); [frame_tac | exact HJ | cbn; intros T; left; exact T | |].
    + cbn. rewrite upd_same. unfold memb. cbn. discriminate.
    + unfold restarter. rewrite Epc, Ld. discriminate.
  - (* POff2 -> POff5: not the last one to ack *)
    destruct L as (L0 & La & Ld & _). n2p.
    apply (j5_step s _ t); [frame_tac | exact HJ | | |].
    + cbn. intros T. apply dec32_zero in T. contradiction.
    + cbn. rewrite upd_same. unfold memb. cbn. discriminate.
    + unfold restarter. rewrite Epc, Ld. discriminate.
  - (* POff4 -> POff5: the counter is stored *)
    destruct L as (L0 & La & Ld & Lc & Le). holder_facts HC t Epc.
    apply (j5_store s _ t HC HC' Hmx); [unfold special; now rewrite Epc | frame_tac | |].
    + unfold vctr. cbn. rewrite Hmx, upd_same. unfold special. cbn. now rewrite Lc.
    + cbn. rewrite upd_same. unfold memb. cbn. discriminate.
  - (* PQd4 -> PQd5 *)
    destruct L as (L0 & La & Ld). apply (j5_witness _ t). cbn. rewrite upd_same. unfold restarter. cbn. now rewrite Ld.
  - (* PQd5 -> PQd6: the counter is stored *)
    destruct L as (L0 & La & Ld). holder_facts HC t Epc. destruct (f_j4 _ _ _ HC t Ld) as [_ Ea].
    apply (j5_store s _ t HC HC' Hmx); [unfold special; now rewrite Epc | frame_tac | |].
    + unfold vctr. cbn. rewrite Hmx, upd_same. unfold special. cbn. now rewrite Ea.
    + cbn. rewrite upd_same. unfold eack. cbn. auto.
  - (* PQ2 -> return: not the last one to ack *)
    destruct L as (L0 & La & Ld & _). n2p.
    apply (j5_step s _ t); [frame_tac | exact HJ | | |].
    + cbn. intros T. apply dec32_zero in T. contradiction.
    + intros _. left. unfold memb. rewrite Epc. apply N.eqb_neq in La. now rewrite La.
    + unfold restarter. rewrite Epc, Ld. discriminate.
  - (* PQ6 -> PQ7: the counter is stored *)
    destruct L as (L0 & La & Ld & Lc & Le). holder_facts HC t Epc.
    apply (j5_store s _ t HC HC' Hmx); [unfold special; now rewrite Epc | frame_tac | |].
    + unfold vctr. cbn. rewrite Hmx, upd_same. unfold special. cbn. now rewrite Lc.
    + cbn. rewrite upd_same. unfold eack. cbn. intros _. rewrite Lc in Le. exact Le.
  - (* PQ7 -> return *)
    destruct L as (L0 & La & Ld).
    apply (j5_step s _ t); [frame_tac | exact HJ | cbn; intros T; left; exact T | |].
    + intros _. left. unfold memb. rewrite Epc. apply N.eqb_neq in La. now rewrite La.
    + unfold restarter. rewrite Epc, Ld. discriminate.
Qed.

(* ---- [desired] covers every target; the pending lists are sorted by target ---- *)
Definition live_loc (s : fstate) (th : thread) : Prop :=
  (forall tg, (tpc th = PQb4 tg \/ tret th = Some tg) -> tg <= desired (fd s)) /\
  match tpc th with PAb3 _ tg c | PQb3 tg c => c <= desired (fd s) /\ c < tg | _ => True end /\
  sorted_tg (ftarget s) (pending (tag th)) /\
  (forall m, In m (pending (tag th)) -> ftarget s m <= ctr (fd s) + 2) /\
  match tpc th with
  | PAb2 _ tg | PAb3 _ tg _ => tg <= ctr (fd s) + 2 /\ forall m, In m (pending (tag th)) -> ftarget s m <= tg
  | _ => True end.

Definition FLive2 (s : fstate) : Prop :=
  (forall n, ftarget s n <= desired (fd s)) /\ forall t, live_loc s (fth s t).

Lemma live_loc_mono s s' th :
  ctr (fd s) <= ctr (fd s') -> desired (fd s) <= desired (fd s') ->
  (forall m, In m (pending (tag th)) -> ftarget s' m = ftarget s m) ->
  live_loc s th -> live_loc s' th.
Proof.
  intros Hc Hd Ht (Q & C & S & B & A). unfold live_loc. repeat split.
  - intros tg H. specialize (Q tg H). lia.
  - destruct (tpc th); try exact I; destruct C; split; lia.
  - apply (sorted_tg_ext (ftarget s)); assumption.
  - intros m Hm. rewrite (Ht m Hm). specialize (B m Hm). lia.
  - destruct (tpc th); try exact I; destruct A as [A1 A2]; (split; [lia|]); intros m Hm; rewrite (Ht m Hm); now apply A2.
Qed.

Lemma live_step s s' t :
  (forall x, x <> t -> fth s' x = fth s x) ->
  ctr (fd s) <= ctr (fd s') -> desired (fd s) <= desired (fd s') ->
  (forall m, ftarget s' m = ftarget s m \/ forall x, x <> t -> ~ In m (pending (tag (fth s x)))) ->
  (forall n, ftarget s' n <= desired (fd s')) ->
  live_loc s' (fth s' t) ->
  FLive2 s -> FLive2 s'.
Proof.
  intros Hfr Hc Hd Htg Hdes Hloc [_ HL]. split; [exact Hdes|].
  intros x. destruct (Nat.eq_dec x t) as [->|Hx]; [exact Hloc|].
  rewrite (Hfr x Hx). apply (live_loc_mono s s' _ Hc Hd); [|apply HL].
  intros m Hm. destruct (Htg m) as [E|E]; [exact E|]. elim (E x Hx Hm).
Qed.

Lemma fstep_des_mono t s s' evs op :
  FLive2 s -> fstop s = None -> fstep t s = (s', evs, op) -> desired (fd s) <= desired (fd s').
Proof.
  intros [_ HL] Hstop H. destruct (HL t) as (_ & C & _).
  fstep_inv H Hstop.
  all: cbn [fd set_th set_fd set_mx set_stop leave_waiting desired].
  all: try apply N.le_refl.
  all: n2p; destruct C as [C1 C2]; lia.
Qed.

Ltac loc5 :=
  unfold live_loc; cbn [fth fd ftarget set_th set_fd set_mx leave_waiting]; rewrite ?upd_same;
  cbn [tpc tret tag with_pc with_ag pending ctr desired];
  split_ret; cbn [tpc tret tag with_pc with_ag pending ctr desired];
  (split; [|split; [|split; [|split]]]).

(* await_barrier queues its node *)
Lemma live_ab s t n tg d :
  FGhost nown s -> FLive2 s -> ftarget s n = 0 ->
  ctr d = ctr (fd s) -> desired (fd s) <= desired d -> tg <= desired d -> tg <= ctr (fd s) + 2 ->
  (forall m, In m (pending (tag (fth s t))) -> ftarget s m <= tg) ->
  FLive2 (mkF d (fmx s)
              (upd (fth s) t (ret_th (with_ag (fth s t)
                 (mkAgent (acked (tag (fth s t))) (deferred (tag (fth s t))) (pending (tag (fth s t)) ++ [n])))))
              (upd (ftarget s) n tg) (fstop s) (fwait s) (fwtg s) (fqbw s) (upd (fowner s) n (Some t))).
Proof.
  intros HG HL Hz Hc Hd Htd Htc Hle. pose proof HL as [HD HLL]. destruct (HLL t) as (Q & C & S & B & A).
  assert (Hnp : forall x, ~ In n (pending (tag (fth s x)))).
  { intros x Hin. destruct (f_p1 nown _ HG x n Hin) as [F _]. contradiction. }
  apply (live_step s _ t); [frame_tac | cbn; lia | cbn; exact Hd | | | | exact HL].
  - intros m. cbn. destruct (Nat.eq_dec m n) as [->|Hm]; [right; intros x _; apply Hnp|left; now apply upd_other].
  - intros m. cbn. destruct (Nat.eq_dec m n) as [->|Hm]; [now rewrite upd_same|]. rewrite upd_other by exact Hm.
    specialize (HD m). lia.
  - loc5.
    + intros tg0 [F|F]; [inversion F; subst|discriminate]. specialize (Q tg0 (or_intror Heqo)). lia.
    + exact I.
    + apply sorted_tg_snoc.
      * apply (sorted_tg_ext (ftarget s)); [|exact S]. intros m Hm. apply upd_other. intros ->. now apply (Hnp t).
      * intros m Hm. rewrite upd_same, upd_other by (intros ->; now apply (Hnp t)). now apply Hle.
    + intros m Hm. apply in_app_or in Hm. destruct Hm as [Hm|[<-|[]]].
      * rewrite upd_other by (intros ->; now apply (Hnp t)). rewrite Hc. now apply B.
      * rewrite upd_same, Hc. exact Htc.
    + exact I.
    + intros tg0 [F|F]; discriminate.
    + exact I.
    + apply sorted_tg_snoc.
      * apply (sorted_tg_ext (ftarget s)); [|exact S]. intros m Hm. apply upd_other. intros ->. now apply (Hnp t).
      * intros m Hm. rewrite upd_same, upd_other by (intros ->; now apply (Hnp t)). now apply Hle.
    + intros m Hm. apply in_app_or in Hm. destruct Hm as [Hm|[<-|[]]].
      * rewrite upd_other by (intros ->; now apply (Hnp t)). rewrite Hc. now apply B.
      * rewrite upd_same, Hc. exact Htc.
    + exact I.
Qed.

(* run() takes the head of the pending list *)
Lemma live_fire s t n l :
  FGhost nown s -> FLive2 s -> pending (tag (fth s t)) = n :: l ->
  FLive2 (mkF (fd s) (fmx s)
              (upd (fth s) t (with_ag (fth s t) (mkAgent (acked (tag (fth s t))) (deferred (tag (fth s t))) l)))
              (upd (ftarget s) n 0) (fstop s) (fwait s) (fwtg s) (fqbw s) (fowner s)).
Proof.
  intros HG HL Hp. pose proof HL as [HD HLL]. destruct (HLL t) as (Q & C & S & B & A).
  assert (Hin : In n (pending (tag (fth s t)))) by (rewrite Hp; now left).
  destruct (f_p1 nown _ HG t n Hin) as [_ Hown].
  assert (NDp : NoDup (n :: l)) by (rewrite <- Hp; apply (f_p3 nown _ HG t)).
  inversion NDp as [|? ? Hnl NDl]; subst.
  rewrite Hp in S, B.
  apply (live_step s _ t); [frame_tac | cbn; lia | cbn; lia | | | | exact HL].
  - intros m. cbn. destruct (Nat.eq_dec m n) as [->|Hm]; [right|left; now apply upd_other].
    intros x Hx Hi. destruct (f_p1 nown _ HG x n Hi) as [_ Hox]. congruence.
  - intros m. cbn. destruct (Nat.eq_dec m n) as [->|Hm]; [rewrite upd_same; lia|]. rewrite upd_other by exact Hm. apply HD.
  - unfold live_loc. cbn [fth fd ftarget]. rewrite upd_same. unfold with_ag. cbn [tpc tret tag pending].
    split; [exact Q|]. split; [exact C|]. split; [|split].
    + apply (sorted_tg_ext (ftarget s)); [|apply S]. intros m Hm. apply upd_other. intros ->. contradiction.
    + intros m Hm. rewrite upd_other by (intros ->; contradiction). apply B. now right.
    + destruct (tpc (fth s t)); try exact I; destruct A as [A1 A2]; (split; [exact A1|]); intros m Hm;
        (rewrite upd_other by (intros ->; contradiction)); apply A2; rewrite Hp; now right.
Qed.

Ltac q_tac Q F :=
  first [ discriminate F
        | inversion F; subst; first [ apply Q; first [left; reflexivity | right; reflexivity | right; assumption] | n2p; cbn; lia ]
        | apply Q; right; exact F ].

Lemma fstep_live2 t s s' evs op :
  FCore U nown s -> FGhost nown s -> FLive2 s -> fstop s = None ->
  fstep t s = (s', evs, op) -> fstop s' = None -> FLive2 s'.
Proof.
  intros HC HG HL Hstop H Hns.
  pose proof (fstep_ctr_mono t s s' evs op HC Hstop H) as Hc.
  pose proof (fstep_des_mono t s s' evs op HL Hstop H) as Hd.
  pose proof HL as [HD HLL]. destruct (HLL t) as (Q & C & S & B & A).
  fstep_inv H Hstop.
  all: try (cbn in Hns; discriminate).
  all: try assumption.
  all: clear Hns.
  all: try solve [ apply (live_ab s t _ _ _ HG HL); n2p; cbn [ctr desired fd set_fd]; try reflexivity; try assumption; try tauto; try lia;
                   destruct A as [A1 A2]; try assumption; lia ].
  all: try solve [ apply (live_fire s t _ _ HG HL); assumption ].
  all: apply (live_step s _ t);
    [ frame_tac | exact Hc | exact Hd | intros m; left; reflexivity
    | cbn [fd ftarget set_th set_fd set_mx leave_waiting desired] in *; intros n0; pose proof (HD n0); lia
    | | exact HL ].
  all: loc5.
  all: try exact I; try assumption.
  all: try (let tg := fresh "tg" in let F := fresh "F" in intros tg [F|F]; q_tac Q F).
  all: try (intros m Hm; specialize (B m Hm); cbn [fd set_th set_fd set_mx ctr] in Hc; lia).
  all: n2p.
  all: try (destruct A as [A1 A2]; split; [lia|assumption]).
  all: try (split; [lia|assumption]).
  all: try (destruct C as [C1 C2]; split; lia).
  all: try (split; lia).
  all: try (match goal with E : pending _ = _ |- _ => rewrite E; assumption end).
  intros tg0 [F|F]; inversion F; subst; [apply N.le_refl|].
  specialize (Q tg0 (or_intror eq_refl)). destruct C as [C1 C2]. lia.
Qed.

(* ---- all the invariants together ---- *)
Definition FLive (s : fstate) : Prop := J5 s /\ FLive2 s.
Definition FAll (s : fstate) : Prop := FCore U nown s /\ FGhost nown s /\ FLive s.

Lemma flive_init scripts : FLive (f0 scripts).
Proof.
  split.
  - intros _ [x Mx]. unfold memb in Mx. cbn in Mx. discriminate.
  - split; [intros n; cbn; lia|]. intros t. unfold live_loc. cbn. repeat split; try tauto.
    intros tg [F|F]; discriminate.
Qed.

Lemma fstep_all t s s' evs op :
  FAll s -> fstop s = None -> fstep t s = (s', evs, op) -> fstop s' = None -> FAll s'.
Proof.
  intros (HC & HG & HJ & HL) Hstop H Hns.
  destruct (in_dec Nat.eq_dec t U) as [Ht|Ht].
  - pose proof (fstep_core U nown ND HB t s s' evs op Ht HC HG Hstop H Hns) as HC'.
    split; [exact HC'|]. split; [apply (fstep_ghost U nown t s s' evs op HC HG Hstop H Hns)|]. split.
    + apply (fstep_j5 t s s' evs op Ht HC HJ Hstop H Hns HC').
    + apply (fstep_live2 t s s' evs op HC HG HL Hstop H Hns).
  - rewrite (fstep_outside U nown s t HC Ht) in H. inversion H; subst. exact (conj HC (conj HG (conj HJ HL))).
Qed.

Lemma fexec_all : forall sched s, FAll s -> fstop (fexec sched s) = None -> FAll (fexec sched s).
Proof.
  induction sched as [|x r IH]; intros s HA Hns; [exact HA|].
  cbn [fexec] in *. pose proof (fexec_nostop_head _ _ Hns) as Hn1.
  assert (Hn0 : fstop s = None).
  { destruct (fstop s) eqn:E; [|reflexivity]. rewrite fnext_stopped in Hn1 by congruence. congruence. }
  apply IH; [|exact Hns]. apply (fstep_all x s _ _ _ HA Hn0 (fnext_eq x s) Hn1).
Qed.

(* ---- rounds ---- *)
(* the thread still has to ack period c, or has to restart the period *)
Definition owes (c : N) (th : thread) : bool := needs c th || restarter th.
(* inside quiescent_state(), after the store of the new period *)
Definition post (p : pc) : bool := match p with PQ7 | PQd6 => true | _ => false end.
Definition inq (th : thread) : bool := in_quiescent (tpc th).

Ltac owes_unf Epc :=
  cbn [fth fd set_th set_fd set_mx leave_waiting]; rewrite ?upd_same;
  split_ret;
  unfold owes, needs, memb, eack, restarter, inq;
  cbn [tpc tret tag with_pc with_ag acked deferred in_quiescent post]; rewrite ?Epc;
  cbn [in_quiescent post negb andb orb].

(* one step of thread t that leaves the period counter unchanged while it is below [desired] and
   somebody is online: t does not start to owe; leaving quiescent_state()/offline() (entered before
   any store of the counter) it does not owe *)
Lemma round_step t s s' evs op :
  In t U -> FCore U nown s -> fstop s = None -> fstep t s = (s', evs, op) -> fstop s' = None ->
  ctr (fd s') = ctr (fd s) -> ctr (fd s) < desired (fd s) -> (exists x0, memb (fth s x0) = true) ->
  (owes (ctr (fd s)) (fth s' t) = true -> owes (ctr (fd s)) (fth s t) = true) /\
  (inq (fth s t) = true -> post (tpc (fth s t)) = false -> inq (fth s' t) = false ->
     owes (ctr (fd s)) (fth s' t) = false) /\
  (post (tpc (fth s' t)) = true -> post (tpc (fth s t)) = true) /\
  (inq (fth s t) = false -> inq (fth s' t) = true -> post (tpc (fth s' t)) = false).
Proof.
  intros Ht HC Hstop H Hns Hce Hdes Hmem.
  fstep_inv H Hstop.
  all: try (cbn in Hns; discriminate).
  all: try (repeat split; intros; try assumption; congruence).
  all: clear Hns.
  all: get_local U nown HC t Epc.
  all: try (match goal with E : (inc32 (nagents (fd _)) =? 1) = true |- _ =>
      exfalso; destruct L as (L0 & La & Ld); destruct Hmem as [x0 Mx];
      assert (Hnm : memb (fth s t) = false) by (unfold memb; rewrite Epc, La; reflexivity);
      pose proof (nagents_room U nown s t HC ND Ht Hnm) as Hroom;
      pose proof (nagents_pos U nown s x0 HC Mx) as Hpos;
      unfold inc32 in E; unfold few in HB;
      destruct (nagents (fd s) =? 4294967295) eqn:E2; n2p; clear - E E2 Hroom Hpos HB; lia end).
  all: cbn [fd set_th set_fd set_mx leave_waiting ctr] in Hce.
  all: try (exfalso; n2p; intuition (subst; lia)).
  all: owes_unf Epc; cbn [negb andb orb]; (split; [|split; [|split]]).
  all: try (intros; assumption).
  all: try (intros; discriminate).
  all: try (intros; reflexivity).
  all: pose proof (f_j4 _ _ _ HC t) as J4.
  all: repeat match goal with H : _ /\ _ |- _ => destruct H end.
  all: try match goal with Ld : deferred (tag (fth ?s0 ?t0)) = true |- _ => destruct (J4 Ld) as [_ ?] end.
  all: clear J4.
  all: repeat match goal with H : deferred _ = _ |- _ => rewrite H in * end.
  all: repeat match goal with |- context [N.eqb ?a ?b] => destruct (N.eqb a b) eqn:? end.
  all: n2p; cbn; intros; try reflexivity; try discriminate; try assumption.
  all: try (exfalso; lia).
Qed.

Lemma owes_false_step t s s' evs op :
  In t U -> FCore U nown s -> fstop s = None -> fstep t s = (s', evs, op) -> fstop s' = None ->
  ctr (fd s') = ctr (fd s) -> ctr (fd s) < desired (fd s) -> (exists x0, memb (fth s x0) = true) ->
  owes (ctr (fd s)) (fth s t) = false -> owes (ctr (fd s)) (fth s' t) = false.
Proof.
  intros Ht HC Hstop H Hns Hce Hd Hm Ho.
  destruct (round_step t s s' evs op Ht HC Hstop H Hns Hce Hd Hm) as (L1 & _).
  destruct (owes (ctr (fd s)) (fth s' t)) eqn:O; [|reflexivity]. rewrite (L1 eq_refl) in Ho. discriminate.
Qed.

(* when somebody is online, somebody owes *)
Lemma someone_owes s : FCore U nown s -> J5 s -> (exists x, memb (fth s x) = true) ->
  exists x, owes (ctr (fd s)) (fth s x) = true.
Proof.
  intros HC HJ Hm. destruct (vctr_cases U nown s HC) as [[V _]|[V [h [Hmx Sp]]]].
  - destruct (N.eq_dec (toack (fd s)) 0) as [T0|T0].
    + destruct (HJ T0 Hm) as [x Rx]. exists x. unfold owes. rewrite Rx. apply orb_true_r.
    + assert (P : 0 < cnt (fun x => needs (vctr s) (fth s x)) U) by (rewrite <- (f_j2 _ _ _ HC); lia).
      destruct (cnt_pos_ex _ _ P) as [x [_ Nx]]. exists x. unfold owes. rewrite <- V. now rewrite Nx.
  - exists h. unfold owes. apply orb_true_iff. right.
    destruct (tpc (fth s h)) eqn:Eh; try (apply special_restarter; [exact Sp|congruence]).
    pose proof (f_loc _ _ _ HC h) as [_ L]. rewrite Eh in L. unfold restarter. destruct L as [_ ->]. reflexivity.
Qed.

(* ---- the round monitor ---- *)
(* per thread: 0 = inside quiescent_state()/offline() since the start of the segment; 1 = seen outside;
   2 = then seen inside (a call entered during the segment); 3 = then seen outside again *)
Definition phase_step (q : bool) (ph : nat) : nat :=
  match ph with
  | 0 => if q then 0 else 1
  | 1 => if q then 2 else 1
  | 2 => if q then 2 else 3
  | _ => 3
  end%nat.

Definition phase0 (s : fstate) (x : tid) : nat := if inq (fth s x) then 0%nat else 1%nat.

Fixpoint phases (sched : list tid) (s : fstate) (ph : tid -> nat) : tid -> nat :=
  match sched with
  | [] => ph
  | t :: r => phases r (fnext t s) (fun x => phase_step (inq (fth (fnext t s) x)) (ph x))
  end.

Fixpoint always_member (x0 : tid) (sched : list tid) (s : fstate) : Prop :=
  memb (fth s x0) = true /\ match sched with [] => True | t :: r => always_member x0 r (fnext t s) end.

(* A round: some agent is online throughout; every agent that is online at the start leaves the
   quiescent_state()/offline() call it may be in and then enters and leaves one more; every thread
   inside such a call at the start leaves it. *)
Definition round (sched : list tid) (s : fstate) : Prop :=
  (exists x0, always_member x0 sched s) /\
  forall x, (memb (fth s x) = true -> phases sched s (phase0 s) x = 3%nat) /\
            (inq (fth s x) = true -> (1 <= phases sched s (phase0 s) x)%nat).

Definition RI (c : N) (m0 : tid -> bool) (s : fstate) (ph : tid -> nat) : Prop :=
  forall x,
    ((ph x = 0 \/ ph x = 2)%nat -> inq (fth s x) = true) /\
    (ph x = 1%nat -> inq (fth s x) = false) /\
    (ph x = 2%nat -> post (tpc (fth s x)) = false) /\
    (ph x = 3%nat -> owes c (fth s x) = false) /\
    (ph x <= 3)%nat /\
    (m0 x = false -> (ph x = 0%nat -> post (tpc (fth s x)) = false) /\ ((1 <= ph x)%nat -> owes c (fth s x) = false)).

Lemma ri_same c m0 s s' ph x :
  fth s' x = fth s x -> RI c m0 s ph ->
  let ph' := phase_step (inq (fth s' x)) (ph x) in
  ph' = ph x.
Proof.
  intros E R. destruct (R x) as (R02 & R1 & _ & _ & R3 & _). cbn. rewrite E.
  destruct (ph x) as [|[|[|[|k]]]]; cbn.
  - now rewrite R02 by auto.
  - now rewrite R1 by auto.
  - now rewrite R02 by auto.
  - reflexivity.
  - lia.
Qed.

Lemma ri_step c m0 t s ph :
  FCore U nown s -> fstop s = None -> fstop (fnext t s) = None ->
  ctr (fd s) = c -> ctr (fd (fnext t s)) = c -> c < desired (fd s) -> (exists x0, memb (fth s x0) = true) ->
  RI c m0 s ph -> RI c m0 (fnext t s) (fun x => phase_step (inq (fth (fnext t s) x)) (ph x)).
Proof.
  intros HC Hstop Hns Hc Hc' Hd Hm R x.
  destruct (fstep_frame t s _ _ _ Hstop (fnext_eq t s)) as [Hfr _].
  assert (Same : fth (fnext t s) x = fth s x -> 
    let ph' := phase_step (inq (fth (fnext t s) x)) (ph x) in
    ((ph' = 0 \/ ph' = 2)%nat -> inq (fth (fnext t s) x) = true) /\
    (ph' = 1%nat -> inq (fth (fnext t s) x) = false) /\
    (ph' = 2%nat -> post (tpc (fth (fnext t s) x)) = false) /\
    (ph' = 3%nat -> owes c (fth (fnext t s) x) = false) /\
    (ph' <= 3)%nat /\
    (m0 x = false -> (ph' = 0%nat -> post (tpc (fth (fnext t s) x)) = false) /\ ((1 <= ph')%nat -> owes c (fth (fnext t s) x) = false))).
  { intros E. pose proof (ri_same c m0 s (fnext t s) ph x E R) as P. cbn in P. cbn. rewrite P, E. apply (R x). }
  destruct (Nat.eq_dec x t) as [->|Hx]; [|apply Same; now apply Hfr].
  destruct (in_dec Nat.eq_dec t U) as [Ht|Ht].
  2: { apply Same. unfold fnext. now rewrite (fstep_outside U nown s t HC Ht). }
  subst c.
  destruct (round_step t s _ _ _ Ht HC Hstop (fnext_eq t s) Hns Hc' Hd Hm) as (L1 & L2 & L3 & L4).
  pose proof (owes_false_step t s _ _ _ Ht HC Hstop (fnext_eq t s) Hns Hc' Hd Hm) as L1'.
  destruct (R t) as (R02 & R1 & R2 & R3 & Rle & Rm).
  assert (L3' : post (tpc (fth s t)) = false -> post (tpc (fth (fnext t s) t)) = false).
  { intros P. destruct (post (tpc (fth (fnext t s) t))) eqn:P'; [|reflexivity]. rewrite (L3 eq_refl) in P. discriminate. }
  destruct (ph t) as [|[|[|[|k]]]] eqn:Eph; [| | | |lia]; destruct (inq (fth (fnext t s) t)) eqn:Eq; cbn [phase_step].
  all: (split; [|split; [|split; [|split; [|split; [|intros M0; split]]]]]); intros.
  all: try solve [ assumption | discriminate
     | match goal with H : _ \/ _ |- _ => destruct H; discriminate end
     | clear; lia
     | match goal with H : (_ <= _)%nat |- _ => exfalso; clear - H; lia end
     | apply L3'; first [now apply R2 | now apply Rm]
     | apply L2; [apply R02; auto | first [now apply R2 | now apply Rm] | first [assumption | reflexivity]]
     | apply L4; [apply R1; reflexivity | first [assumption | reflexivity]]
     | apply L1'; first [now apply R3 | apply Rm; [assumption | clear; lia]] ].
Qed.

Lemma fexec_ctr_mono : forall sched s, FAll s -> fstop (fexec sched s) = None -> ctr (fd s) <= ctr (fd (fexec sched s)).
Proof.
  induction sched as [|x r IH]; intros s HA Hns; [cbn; lia|].
  cbn [fexec] in *. pose proof (fexec_nostop_head _ _ Hns) as Hn1.
  assert (Hn0 : fstop s = None).
  { destruct (fstop s) eqn:E; [|reflexivity]. rewrite fnext_stopped in Hn1 by congruence. congruence. }
  pose proof (fstep_ctr_mono x s _ _ _ (proj1 HA) Hn0 (fnext_eq x s)) as M.
  pose proof (IH _ (fstep_all x s _ _ _ HA Hn0 (fnext_eq x s) Hn1) Hns). lia.
Qed.

Lemma fexec_des_mono : forall sched s, FAll s -> fstop (fexec sched s) = None -> desired (fd s) <= desired (fd (fexec sched s)).
Proof.
  induction sched as [|x r IH]; intros s HA Hns; [cbn; lia|].
  cbn [fexec] in *. pose proof (fexec_nostop_head _ _ Hns) as Hn1.
  assert (Hn0 : fstop s = None).
  { destruct (fstop s) eqn:E; [|reflexivity]. rewrite fnext_stopped in Hn1 by congruence. congruence. }
  destruct HA as (HC & HG & HJ & HL).
  pose proof (fstep_des_mono x s _ _ _ HL Hn0 (fnext_eq x s)) as M.
  pose proof (IH _ (fstep_all x s _ _ _ (conj HC (conj HG (conj HJ HL))) Hn0 (fnext_eq x s) Hn1) Hns). lia.
Qed.

Lemma ri_run c m0 x0 : forall sched s ph,
  FAll s -> fstop (fexec sched s) = None ->
  ctr (fd s) = c -> ctr (fd (fexec sched s)) = c -> c < desired (fd s) ->
  always_member x0 sched s -> RI c m0 s ph ->
  RI c m0 (fexec sched s) (phases sched s ph) /\ memb (fth (fexec sched s) x0) = true.
Proof.
  induction sched as [|t r IH]; intros s ph HA Hns Hc Hc' Hd Hal R.
  - cbn. split; [exact R|apply Hal].
  - cbn [fexec phases] in *. destruct Hal as [M0 Hal].
    pose proof (fexec_nostop_head _ _ Hns) as Hn1.
    assert (Hn0 : fstop s = None).
    { destruct (fstop s) eqn:E; [|reflexivity]. rewrite fnext_stopped in Hn1 by congruence. congruence. }
    pose proof (fstep_all t s _ _ _ HA Hn0 (fnext_eq t s) Hn1) as HA1.
    pose proof (fstep_ctr_mono t s _ _ _ (proj1 HA) Hn0 (fnext_eq t s)) as M1.
    pose proof (fexec_ctr_mono r _ HA1 Hns) as M2.
    assert (Hc1 : ctr (fd (fnext t s)) = c) by lia.
    pose proof (fstep_des_mono t s _ _ _ (proj2 (proj2 (proj2 HA))) Hn0 (fnext_eq t s)) as Md.
    apply IH; try assumption; [lia|].
    apply (ri_step c m0 t s ph (proj1 HA) Hn0 Hn1 Hc Hc1 Hd); [now exists x0|exact R].
Qed.

Lemma phases_ge1 x : forall sched s ph, (1 <= ph x)%nat -> (1 <= phases sched s ph x)%nat.
Proof.
  induction sched as [|t r IH]; intros s ph H; [exact H|]. cbn. apply IH.
  destruct (ph x) as [|[|[|k]]]; cbn; try lia; destruct (inq _); lia.
Qed.

(* the initial monitor state *)
Lemma ri_init s : FCore U nown s -> RI (ctr (fd s)) (fun x => memb (fth s x)) s (phase0 s).
Proof.
  intros HC x. unfold phase0. pose proof (f_loc _ _ _ HC x) as [_ L].
  destruct (inq (fth s x)) eqn:Q; repeat split; intros; try lia; try discriminate; try reflexivity.
  - (* inside, not online: not after a store *)
    unfold inq in Q. unfold memb in H. unfold post. destruct (tpc (fth s x)); try reflexivity.
    + destruct L as [La _]. apply N.eqb_neq in La. rewrite La in H. discriminate.
    + destruct L as [La _]. apply N.eqb_neq in La. rewrite La in H. discriminate.
  - (* outside, not online: does not owe *)
    unfold owes. rewrite needs_eq, H. cbn [andb]. rewrite orb_false_r.
    assert (D : deferred (tag (fth s x)) = false).
    { destruct (deferred (tag (fth s x))) eqn:D; [|reflexivity]. destruct (f_j4 _ _ _ HC x D) as [M _]. congruence. }
    unfold inq in Q. unfold isoff2, restarter. rewrite D. unfold memb in H.
    destruct (tpc (fth s x)); try reflexivity; try discriminate.
Qed.

(* Round theorem: the counter advances in every round that starts with the counter below [desired]. *)
Theorem round_progress sched s :
  FAll s -> fstop (fexec sched s) = None -> round sched s ->
  ctr (fd s) < desired (fd s) -> ctr (fd s) < ctr (fd (fexec sched s)).
Proof.
  intros HA Hns [[x0 Hal] Hr] Hd.
  pose proof (fexec_ctr_mono sched s HA Hns) as M.
  destruct (N.eq_dec (ctr (fd (fexec sched s))) (ctr (fd s))) as [E|E]; [exfalso|lia].
  destruct (ri_run (ctr (fd s)) (fun x => memb (fth s x)) x0 sched s (phase0 s) HA Hns eq_refl E Hd Hal
              (ri_init s (proj1 HA))) as [R Mx0].
  pose proof (fexec_all sched s HA Hns) as (HC' & _ & HJ' & _).
  destruct (someone_owes _ HC' HJ' (ex_intro _ x0 Mx0)) as [x Ox]. rewrite E in Ox.
  destruct (R x) as (_ & _ & _ & R3 & _ & Rm). destruct (Hr x) as [Hr1 Hr2].
  destruct (memb (fth s x)) eqn:Mx.
  - rewrite (R3 (Hr1 eq_refl)) in Ox. discriminate.
  - destruct (Rm eq_refl) as [_ Rm2].
    assert (P : (1 <= phases sched s (phase0 s) x)%nat).
    { destruct (inq (fth s x)) eqn:Q; [now apply Hr2|]. apply phases_ge1. unfold phase0. now rewrite Q. }
    rewrite (Rm2 P) in Ox. discriminate.
Qed.

(* consecutive rounds *)
Fixpoint rounds (ls : list (list tid)) (s : fstate) : Prop :=
  match ls with
  | [] => True
  | l :: r => round l s /\ rounds r (fexec l s)
  end.

Theorem rounds_progress : forall ls s tg,
  FAll s -> fstop (fexec (concat ls) s) = None -> rounds ls s ->
  tg <= desired (fd s) -> tg <= ctr (fd s) + N.of_nat (length ls) -> tg <= ctr (fd (fexec (concat ls) s)).
Proof.
  induction ls as [|l r IH]; intros s tg HA Hns HR Hd Hlen.
  - cbn in *. lia.
  - cbn [concat] in *. rewrite fexec_app in *. destruct HR as [HR1 HR].
    pose proof (fexec_nostop_head _ _ Hns) as Hn1.
    pose proof (fexec_all l s HA Hn1) as HA1.
    pose proof (fexec_ctr_mono l s HA Hn1) as M1. pose proof (fexec_ctr_mono (concat r) _ HA1 Hns) as M2.
    pose proof (fexec_des_mono l s HA Hn1) as Md.
    destruct (N.lt_ge_cases (ctr (fd s)) tg) as [Hlt|Hge]; [|lia].
    assert (P : ctr (fd s) < ctr (fd (fexec l s))) by (apply (round_progress l s HA Hn1 HR1); lia).
    apply (IH _ tg HA1 Hns HR); [lia|]. cbn [length] in Hlen. lia.
Qed.

(* ---- no grace period is lost: once the counter has reached the target of a pending node, the
        owner's next run() invokes its callback ---- *)
Fixpoint ftrace (sched : list tid) (s : fstate) : list wev :=
  match sched with
  | [] => []
  | t :: r => snd (fst (fstep t s)) ++ ftrace r (fnext t s)
  end.

(* the steps of the other threads do not touch the nodes queued by t *)
Lemma fstep_keep_target x s s' evs op t n :
  FGhost nown s -> fstop s = None -> fstep x s = (s', evs, op) -> x <> t ->
  In n (pending (tag (fth s t))) -> ftarget s' n = ftarget s n.
Proof.
  intros HG Hstop H Hx Hin. destruct (f_p1 nown _ HG t n Hin) as [Hnz Hown].
  fstep_inv H Hstop.
  all: cbn [ftarget set_th set_fd set_mx set_stop leave_waiting].
  all: try reflexivity.
  all: n2p.
  all: try (apply upd_other; intros ->; contradiction).
  apply upd_other. intros ->.
  assert (Hi : In n0 (pending (tag (fth s x)))) by (rewrite Heql; now left).
  destruct (f_p1 nown _ HG x n0 Hi) as [_ Ho]. congruence.
Qed.

(* how many more steps of t until the callback of n, when t is about to call run(), or inside a run()
   that read a counter value that has reached the target of n *)
Definition run_need (s : fstate) (t : tid) (n : nid) : option nat :=
  let th := fth s t in
  let k := length (pending (tag th)) in
  match tpc th with
  | PIdle => match tscript th with
             | CRun :: _ => if ftarget s n <=? ctr (fd s) then Some (k + 2)%nat else None
             | _ => None end
  | PRun1 => if ftarget s n <=? ctr (fd s) then Some (k + 1)%nat else None
  | PRun2 c => if ftarget s n <=? c then Some k else None
  | _ => None
  end.

Lemma run_need_step x t n s k :
  FAll s -> fstop s = None -> fstop (fnext x s) = None ->
  In n (pending (tag (fth s t))) -> run_need s t n = Some k ->
  (x <> t /\ In n (pending (tag (fth (fnext x s) t))) /\ run_need (fnext x s) t n = Some k) \/
  (x = t /\ In (WCb n t) (snd (fst (fstep t s)))) \/
  (x = t /\ In n (pending (tag (fth (fnext x s) t))) /\ exists k', k = S k' /\ run_need (fnext x s) t n = Some k').
Proof.
  intros (HC & HG & HJ & HL) Hstop Hns Hin Hk.
  destruct (Nat.eq_dec x t) as [->|Hx].
  - right. unfold run_need in Hk. pose proof HL as [_ HLL]. destruct (HLL t) as (_ & _ & S & _).
    pose proof (fnext_eq t s) as H. revert Hns Hk H. generalize (fnext t s) (snd (fst (fstep t s))) (snd (fstep t s)).
    intros s' evs op Hns Hk H.
    destruct (tpc (fth s t)) eqn:Ep; try discriminate.
    + (* about to call run() *)
      destruct (tscript (fth s t)) as [|[] rest] eqn:Es; try discriminate.
      destruct (ftarget s n <=? ctr (fd s)) eqn:Le; [|discriminate]. inversion Hk; subst k.
      unfold fstep, f_step in H. rewrite Hstop, Ep, Es in H. cbn in H. inversion H; subst. right.
      split; [reflexivity|]. cbn. rewrite upd_same. cbn. split; [exact Hin|].
      exists (length (pending (tag (fth s t))) + 1)%nat. split; [lia|].
      unfold run_need. cbn. rewrite upd_same. cbn. now rewrite Le.
    + (* run() reads the counter *)
      destruct (ftarget s n <=? ctr (fd s)) eqn:Le; [|discriminate]. inversion Hk; subst k.
      unfold fstep, f_step in H. rewrite Hstop, Ep in H. cbn in H. inversion H; subst. right.
      split; [reflexivity|]. cbn. rewrite upd_same. cbn. split; [exact Hin|].
      exists (length (pending (tag (fth s t)))). split; [lia|].
      unfold run_need. cbn. rewrite upd_same. cbn. now rewrite Le.
    + (* run() looks at the head of the list *)
      destruct (ftarget s n <=? c) eqn:Le; [|discriminate]. inversion Hk; subst k.
      unfold fstep, f_step in H. rewrite Hstop, Ep in H. cbn zeta in H.
      destruct (pending (tag (fth s t))) as [|m l] eqn:Ep2; [destruct Hin|].
      assert (Hm : ftarget s m <= ftarget s n).
      { destruct Hin as [->|Hin]; [lia|]. destruct S as [S1 _]. now apply S1. }
      apply N.leb_le in Le.
      assert (Hlt : (c <? ftarget s m) = false) by (apply N.ltb_ge; lia).
      rewrite Hlt in H. inversion H; subst.
      destruct (Nat.eq_dec m n) as [->|Hmn].
      * left. split; [reflexivity|]. cbn. right. unfold fire_evs. cbn. tauto.
      * right. split; [reflexivity|]. cbn. rewrite upd_same. cbn.
        destruct Hin as [F|Hin]; [contradiction|]. split; [exact Hin|].
        exists (length l). split; [reflexivity|].
        unfold run_need. cbn. rewrite upd_same. cbn. rewrite Ep, upd_other by auto.
        apply N.leb_le in Le. now rewrite Le.
  - left. split; [exact Hx|].
    destruct (fstep_frame x s _ _ _ Hstop (fnext_eq x s)) as [Hfr _].
    pose proof (fstep_keep_target x s _ _ _ t n HG Hstop (fnext_eq x s) Hx Hin) as Ht.
    pose proof (fstep_ctr_mono x s _ _ _ HC Hstop (fnext_eq x s)) as Hc.
    rewrite (Hfr t) by auto. split; [exact Hin|].
    unfold run_need in *. rewrite (Hfr t) by auto. rewrite Ht.
    destruct (tpc (fth s t)); try discriminate; try exact Hk.
    + destruct (tscript (fth s t)) as [|[] rest]; try discriminate.
      destruct (ftarget s n <=? ctr (fd s)) eqn:Le; [|discriminate]. apply N.leb_le in Le.
      assert (Le' : (ftarget s n <=? ctr (fd (fnext x s))) = true) by (apply N.leb_le; lia). now rewrite Le'.
    + destruct (ftarget s n <=? ctr (fd s)) eqn:Le; [|discriminate]. apply N.leb_le in Le.
      assert (Le' : (ftarget s n <=? ctr (fd (fnext x s))) = true) by (apply N.leb_le; lia). now rewrite Le'.
Qed.

Theorem fg_run_fires t n : forall sched s k,
  FAll s -> fstop (fexec sched s) = None ->
  In n (pending (tag (fth s t))) -> run_need s t n = Some k ->
  (k < count_occ Nat.eq_dec sched t)%nat -> In (WCb n t) (ftrace sched s).
Proof.
  induction sched as [|x r IH]; intros s k HA Hns Hin Hk Hcnt; [cbn in Hcnt; lia|].
  cbn [fexec ftrace] in *. pose proof (fexec_nostop_head _ _ Hns) as Hn1.
  assert (Hn0 : fstop s = None).
  { destruct (fstop s) eqn:E; [|reflexivity]. rewrite fnext_stopped in Hn1 by congruence. congruence. }
  pose proof (fstep_all x s _ _ _ HA Hn0 (fnext_eq x s) Hn1) as HA1.
  apply in_or_app.
  destruct (run_need_step x t n s k HA Hn0 Hn1 Hin Hk) as [(Hx & Hin' & Hk')|[(-> & Hev)|(-> & Hin' & k' & -> & Hk')]].
  - right. apply (IH _ k HA1 Hns Hin' Hk'). cbn in Hcnt. destruct (Nat.eq_dec x t); [contradiction|exact Hcnt].
  - left. exact Hev.
  - right. apply (IH _ k' HA1 Hns Hin' Hk'). cbn in Hcnt. destruct (Nat.eq_dec t t); [lia|contradiction].
Qed.

(* ---- quiescent_barrier leaves its loop once the counter has reached its target ---- *)
Lemma fg_qb_exit t s s' evs op tg :
  fstop s = None -> tpc (fth s t) = PQb4 tg -> tg <= ctr (fd s) -> fstep t s = (s', evs, op) ->
  tpc (fth s' t) = PIdle /\ In (WQbRet t) evs /\ fstop s' = None.
Proof.
  intros Hstop Ep Hle H. unfold fstep, f_step in H. rewrite Hstop, Ep in H. cbn zeta in H.
  assert (E : (ctr (fd s) <? tg) = false) by (apply N.ltb_ge; exact Hle).
  rewrite E in H. inversion H; subst. cbn. rewrite upd_same. cbn. tauto.
Qed.

(* ---- executable check of the round conditions (threads outside U never move) ---- *)
Fixpoint always_member_b (x0 : tid) (sched : list tid) (s : fstate) : bool :=
  memb (fth s x0) && match sched with [] => true | t :: r => always_member_b x0 r (fnext t s) end.

Definition round_b (sched : list tid) (s : fstate) : bool :=
  existsb (fun x0 => always_member_b x0 sched s) U &&
  forallb (fun x => (negb (memb (fth s x)) || Nat.eqb (phases sched s (phase0 s) x) 3) &&
                    (negb (inq (fth s x)) || Nat.leb 1 (phases sched s (phase0 s) x))) U.

Fixpoint rounds_b (ls : list (list tid)) (s : fstate) : bool :=
  match ls with [] => true | l :: r => round_b l s && rounds_b r (fexec l s) end.

Lemma always_member_b_ok x0 : forall sched s, always_member_b x0 sched s = true -> always_member x0 sched s.
Proof.
  induction sched as [|t r IH]; intros s H; cbn in *; apply andb_true_iff in H; destruct H as [H1 H2]; split; auto.
Qed.

Lemma round_b_ok sched s : FCore U nown s -> round_b sched s = true -> round sched s.
Proof.
  intros HC H. unfold round_b in H. apply andb_true_iff in H. destruct H as [H1 H2]. split.
  - apply existsb_exists in H1. destruct H1 as [x0 [_ Hx]]. exists x0. now apply always_member_b_ok.
  - intros x. destruct (in_dec Nat.eq_dec x U) as [Hx|Hx].
    + rewrite forallb_forall in H2. specialize (H2 x Hx). apply andb_true_iff in H2. destruct H2 as [A B]. split.
      * intros M. rewrite M in A. cbn in A. now apply Nat.eqb_eq.
      * intros Q. rewrite Q in B. cbn in B. now apply Nat.leb_le.
    + rewrite (f_univ _ _ _ HC x Hx). unfold memb, inq. cbn. split; discriminate.
Qed.

Lemma rounds_b_ok : forall ls s, FAll s -> fstop (fexec (concat ls) s) = None -> rounds_b ls s = true -> rounds ls s.
Proof.
  induction ls as [|l r IH]; intros s HA Hns H; [exact I|].
  cbn [rounds_b concat rounds] in *. rewrite fexec_app in Hns. apply andb_true_iff in H. destruct H as [H1 H2].
  pose proof (fexec_nostop_head _ _ Hns) as Hn1.
  split; [apply (round_b_ok l s (proj1 HA) H1)|]. apply IH; [apply (fexec_all l s HA Hn1)|exact Hns|exact H2].
Qed.

End LiveInv.
