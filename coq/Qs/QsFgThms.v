(* Fine-grained model of qs.hpp: the theorems (grace period, callbacks once and by the owner,
   node untouched after its callback started, absence of deadlock and of assertion stops on
   valid use), for every set of threads, every scripts, every scheduler. *)
From Coq Require Import List NArith Bool Arith Lia.
Import ListNotations.
From FV Require Import Qs.QsTypes Qs.QsModel Qs.QsFgModel Qs.QsWoProofs Qs.QsFgProofs.
Local Open Scope N_scope.

Section Thms.
Variable U : list tid.
Variable nown : nid -> tid.

(* an agent that is online and outside quiescent_state()/offline(): acked <= ctr <= acked + 1 *)
Lemma awake_bounds s x : FCore U nown s ->
  acked (tag (fth s x)) <> 0 -> in_quiescent (tpc (fth s x)) = false ->
  acked (tag (fth s x)) <= ctr (fd s) /\ ctr (fd s) <= acked (tag (fth s x)) + 1.
Proof.
  intros HC A1 A2.
  pose proof (f_loc _ _ _ HC x) as [_ L]. pose proof (f_le _ _ _ HC x) as Le. pose proof (f_j1 _ _ _ HC x) as J.
  assert (V : ctr (fd s) <= vctr s).
  { destruct (vctr_cases U nown s HC) as [[E _]|[E _]]; rewrite E; clear; lia. }
  unfold memb, eack in Le, J.
  destruct (tpc (fth s x)); try discriminate;
    try (destruct L as (La & _); contradiction);
    (destruct (acked (tag (fth s x)) =? 0) eqn:Z; [apply N.eqb_eq in Z; contradiction|];
     specialize (Le eq_refl); destruct (J eq_refl) as [E|E]; clear - Le E V; lia).
Qed.

(* ---- grace period ---- *)
Theorem fg_grace_period t s s' evs op n t' :
  FCore U nown s -> FGhost nown s -> fstop s = None -> fstep t s = (s', evs, op) -> In (WCb n t') evs ->
  t' = t /\ (exists c, tpc (fth s t) = PRun2 c) /\ fowner s n = Some t /\ forall x, fwait s n x = false.
Proof.
  intros HC HG Hstop H Hin.
  fstep_inv H Hstop; cbn in Hin; try (intuition discriminate).
  repeat (destruct Hin as [Hin|Hin]; try discriminate); try contradiction. inversion Hin; subst n0 t'. clear Hin.
  assert (Hnt : In n (pending (tag (fth s t)))) by (rewrite Heql; now left).
  destruct (f_p1 nown _ HG t n Hnt) as [Hnz Hown].
  split; [reflexivity|]. split; [eauto|]. split; [assumption|].
  intros x. destruct (fwait s n x) eqn:Hw; [exfalso|reflexivity].
  destruct (f_k nown _ HG n x Hw) as (A1 & A2 & A3).
  destruct (awake_bounds s x HC A1 A2) as [B1 B2].
  destruct (f_m nown _ HG n Hnz) as (o & Ho & _ & Hor). assert (o = t) by congruence. subst o.
  destruct Hor as [E|E]; [|unfold in_await in E; rewrite Epc in E; discriminate].
  pose proof (f_loc _ _ _ HC t) as [_ L]. rewrite Epc in L. n2p.
  clear - A3 B2 E Heqb L. lia.
Qed.

Theorem fg_qbarrier_grace t s s' evs op t' :
  FCore U nown s -> FGhost nown s -> fstop s = None -> fstep t s = (s', evs, op) -> In (WQbRet t') evs ->
  t' = t /\ forall x, fqbw s' t x = false.
Proof.
  intros HC HG Hstop H Hin.
  fstep_inv H Hstop; cbn in Hin; try (intuition discriminate).
  destruct Hin as [F|[]]. inversion F; subst t'. split; [reflexivity|]. cbn.
    intros x. destruct (fqbw s t x) eqn:Hw; [exfalso|reflexivity].
    assert (Hb : qb_target (fth s t) = Some tg) by (unfold qb_target; now rewrite Epc).
    destruct (f_kq nown _ HG t x tg Hw Hb) as (A1 & A2 & A3).
    destruct (awake_bounds s x HC A1 A2) as [B1 B2]. n2p. clear - A3 B2 Heqb. lia.
Qed.

(* ---- the trace: callbacks once and by the owner; node touched only while registered ---- *)
Definition freg (s : fstate) (n : nid) : option tid := if ftarget s n =? 0 then None else fowner s n.
Definition FT (s : fstate) (tr : list wev) : Prop := forall n, node_run n None tr = Some (freg s n).

Lemma freg_frame s s' : ftarget s' = ftarget s -> fowner s' = fowner s -> forall n, freg s' n = freg s n.
Proof. intros H1 H2 n. unfold freg. now rewrite H1, H2. Qed.

Lemma fstep_tinv t s tr s' evs op :
  FCore U nown s -> FGhost nown s -> fstop s = None -> FT s tr ->
  fstep t s = (s', evs, op) -> FT s' (tr ++ evs).
Proof.
  intros HC HG Hstop HT H n. rewrite node_run_app, (HT n).
  fstep_inv H Hstop.
  all: try (cbn [node_run]; f_equal; symmetry; apply freg_frame; cbn; reflexivity).
  1: { (* await_barrier stops in the assertion: the node is registered already *)
    cbn [ftarget set_fd] in *; cbn [node_run]; destruct (Nat.eqb n0 n) eqn:E; [|reflexivity]; apply Nat.eqb_eq in E; subst n0;
    unfold freg; cbn; n2p.
    match goal with Hz : ftarget _ _ <> 0 |- _ =>
      destruct (ftarget s n =? 0) eqn:Z; [n2p; contradiction|];
      destruct (f_m nown _ HG n Hz) as (o & Ho & _); rewrite Ho; reflexivity end. }
  1: { (* await_barrier queues the node *)
    cbn [ftarget set_fd] in *; cbn [node_run]; n2p; destruct (Nat.eqb n0 n) eqn:E.
    - apply Nat.eqb_eq in E; subst n0; unfold freg; cbn.
      match goal with Hz : ftarget _ _ = 0 |- _ => rewrite Hz end. rewrite !upd_same; cbn.
      pose proof (f_loc _ _ _ HC t) as [_ L]; rewrite Epc in L; destruct L as (_ & _ & Lz).
      destruct (tg =? 0) eqn:Z; [n2p; contradiction|reflexivity].
    - apply Nat.eqb_neq in E; unfold freg; cbn; rewrite !upd_other by (intros ->; now apply E); reflexivity. }
  1: { (* await_barrier stops in the assertion: the node is registered already *)
    cbn [ftarget set_fd] in *; cbn [node_run]; destruct (Nat.eqb n0 n) eqn:E; [|reflexivity]; apply Nat.eqb_eq in E; subst n0;
    unfold freg; cbn; n2p.
    match goal with Hz : ftarget _ _ <> 0 |- _ =>
      destruct (ftarget s n =? 0) eqn:Z; [n2p; contradiction|];
      destruct (f_m nown _ HG n Hz) as (o & Ho & _); rewrite Ho; reflexivity end. }
  1: { (* await_barrier queues the node *)
    cbn [ftarget set_fd] in *; cbn [node_run]; n2p; destruct (Nat.eqb n0 n) eqn:E.
    - apply Nat.eqb_eq in E; subst n0; unfold freg; cbn.
      match goal with Hz : ftarget _ _ = 0 |- _ => rewrite Hz end. rewrite !upd_same; cbn.
      pose proof (f_loc _ _ _ HC t) as [_ L]; rewrite Epc in L; destruct L as (_ & _ & Lz).
      destruct (tg =? 0) eqn:Z; [n2p; contradiction|reflexivity].
    - apply Nat.eqb_neq in E; unfold freg; cbn; rewrite !upd_other by (intros ->; now apply E); reflexivity. }
  1: { (* await_barrier stops in the assertion: the node is registered already *)
    cbn [ftarget set_fd] in *; cbn [node_run]; destruct (Nat.eqb n0 n) eqn:E; [|reflexivity]; apply Nat.eqb_eq in E; subst n0;
    unfold freg; cbn; n2p.
    match goal with Hz : ftarget _ _ <> 0 |- _ =>
      destruct (ftarget s n =? 0) eqn:Z; [n2p; contradiction|];
      destruct (f_m nown _ HG n Hz) as (o & Ho & _); rewrite Ho; reflexivity end. }
  1: { (* await_barrier queues the node *)
    cbn [ftarget set_fd] in *; cbn [node_run]; n2p; destruct (Nat.eqb n0 n) eqn:E.
    - apply Nat.eqb_eq in E; subst n0; unfold freg; cbn.
      match goal with Hz : ftarget _ _ = 0 |- _ => rewrite Hz end. rewrite !upd_same; cbn.
      pose proof (f_loc _ _ _ HC t) as [_ L]; rewrite Epc in L; destruct L as (_ & _ & Lz).
      destruct (tg =? 0) eqn:Z; [n2p; contradiction|reflexivity].
    - apply Nat.eqb_neq in E; unfold freg; cbn; rewrite !upd_other by (intros ->; now apply E); reflexivity. }
  - (* run: target not reached *)
    assert (Hnt : In n0 (pending (tag (fth s t)))) by (rewrite Heql; now left).
    destruct (f_p1 nown _ HG t n0 Hnt) as [Hnz Hown].
    cbn [node_run]. destruct (Nat.eqb n0 n) eqn:E.
    + apply Nat.eqb_eq in E. subst n0. unfold freg at 1. destruct (ftarget s n =? 0) eqn:Z; [n2p; contradiction|].
      rewrite Hown. reflexivity.
    + reflexivity.
  - (* run: callback *)
    assert (Hnt : In n0 (pending (tag (fth s t)))) by (rewrite Heql; now left).
    destruct (f_p1 nown _ HG t n0 Hnt) as [Hnz Hown].
    destruct (Nat.eq_dec n0 n) as [En|En].
    + subst n0.
      assert (Hreg : freg s n = Some t).
      { unfold freg. destruct (ftarget s n =? 0) eqn:Z; [n2p; contradiction|assumption]. }
      rewrite Hreg. cbn [node_run fire_evs app].
      repeat (rewrite Nat.eqb_refl; cbn [node_run]).
      unfold freg. cbn. rewrite upd_same. reflexivity.
    + pose proof En as En'. apply Nat.eqb_neq in En'. cbn [node_run fire_evs app]. rewrite !En'.
      unfold freg. cbn. rewrite upd_other by (intros ->; now apply En). reflexivity.
Qed.

(* ---- the system stops only where a documented precondition is violated (or D07) ---- *)
Theorem fg_stops t s s' evs op st :
  FCore U nown s -> FGhost nown s -> fstop s = None -> fstep t s = (s', evs, op) -> fstop s' = Some st ->
  exists l, st = StopAssert t l /\ In l [102; 124; 127; 151; 214].
Proof.
  intros HC HG Hstop H Hst.
  fstep_inv H Hstop; cbn in Hst; try congruence; inversion Hst; subst st; clear Hst.
  all: try (eexists; split; [reflexivity|cbn; tauto]).
  all: try solve [ exfalso;
    match goal with Ep : tpc (fth ?s0 ?t0) = _ |- _ =>
      assert (Hh : holds (fth s0 t0) = true) by (unfold holds; now rewrite Ep);
      apply (f_hold _ _ _ HC t0) in Hh end;
    match goal with
    | E : fmx _ = None |- _ => congruence
    | E : fmx _ = Some ?h, E2 : (?h =? _)%nat = false |- _ =>
        rewrite E in Hh; inversion Hh; subst; rewrite Nat.eqb_refl in E2; discriminate
    end ].
  - (* 114: the first agent finds agents_to_ack = 0 *)
    exfalso. assert (R : restarter (fth s t) = true) by (unfold restarter; rewrite Epc; apply orb_true_r).
    assert (Sp : special (fth s t) = false) by (unfold special; now rewrite Epc).
    pose proof (f_r2 _ _ _ HC t R Sp) as T0. n2p. contradiction.
  - (* 137 *)
    exfalso. pose proof (f_loc _ _ _ HC t) as [_ L]. rewrite Epc in L. destruct L as [La Ld].
    assert (Hh : holds (fth s t) = true) by (unfold holds; now rewrite Epc).
    assert (Hmx : fmx s = Some t) by (apply (f_hold _ _ _ HC t); exact Hh).
    assert (Hv : vctr s = ctr (fd s)) by (unfold vctr; rewrite Hmx; unfold special; now rewrite Epc).
    assert (M : memb (fth s t) = true).
    { unfold memb. rewrite Epc. destruct (acked (tag (fth s t)) =? 0) eqn:Z; [n2p; contradiction|reflexivity]. }
    destruct (f_j1 _ _ _ HC t M) as [E|E]; unfold eack in E; rewrite Epc, Hv in E; n2p; contradiction.
  - (* 154 *)
    exfalso. pose proof (f_loc _ _ _ HC t) as [_ L]. rewrite Epc in L. destruct L as [La Ld].
    destruct (f_j4 _ _ _ HC t Ld) as [_ E]. n2p. contradiction.
  - (* 169 *)
    exfalso. pose proof (f_loc _ _ _ HC t) as [_ L]. rewrite Epc in L. destruct L as [La Ld].
    assert (M : memb (fth s t) = true).
    { unfold memb. rewrite Epc. destruct (acked (tag (fth s t)) =? 0) eqn:Z; [n2p; contradiction|reflexivity]. }
    pose proof (f_le _ _ _ HC t M) as Le. unfold eack in Le. rewrite Epc in Le.
    destruct (f_j1 _ _ _ HC t M) as [E|E]; unfold eack in E; rewrite Epc in E;
      destruct (vctr_cases U nown s HC) as [[V _]|[V _]]; rewrite V in E; n2p; clear - E Le Heqb Heqb0; lia.
Qed.

(* ---- absence of deadlock ---- *)
Definition lock_pc (p : pc) : bool := match p with POn0 | POff0 | PQd3 | PQ4 _ => true | _ => false end.

(* thread t has something to do and is not waiting for the mutex *)
Definition can_move (s : fstate) (t : tid) : Prop :=
  (tpc (fth s t) <> PIdle \/ tscript (fth s t) <> []) /\ (lock_pc (tpc (fth s t)) = true -> fmx s = None).

Lemma fstep_moves t s s' evs op :
  fstop s = None -> can_move s t -> fstep t s = (s', evs, op) -> s' <> s.
Proof.
  intros Hstop [Hbusy Hlock] H.
  fstep_inv H Hstop.
  all: try (intros E; apply (f_equal fstop) in E; cbn in E; congruence).
  all: try (exfalso; destruct Hbusy as [B|B]; congruence).
  all: try (exfalso; rewrite ?Epc in Hlock; cbn in Hlock; specialize (Hlock eq_refl); congruence).
  all: intros E; apply (f_equal (fun z => fth z t)) in E; cbn in E;
    first [rewrite upd_same in E | (unfold upd in E; rewrite Nat.eqb_refl in E) | idtac].
  all: try (apply (f_equal tpc) in E; revert E; split_ret; cbn; rewrite Epc; discriminate).
  - apply (f_equal tpc) in E. cbn in E. rewrite Epc in E. inversion E. n2p. congruence.
  - apply (f_equal (fun th => length (pending (tag th)))) in E.
    revert E. cbn. rewrite Heql. cbn. clear. intros E. induction (length l); [discriminate|]. injection E. auto.
  - apply (f_equal tpc) in E. cbn in E. rewrite Epc in E.
    revert E. destruct (desired (fd s) <? tg); intros E; inversion E; n2p; congruence.
Qed.

Theorem fg_no_deadlock s :
  FCore U nown s -> fstop s = None ->
  (exists t, tpc (fth s t) <> PIdle \/ tscript (fth s t) <> []) ->
  exists t', fst (fst (fstep t' s)) <> s.
Proof.
  intros HC Hstop [t Hbusy].
  assert (Hmv : forall x, can_move s x -> fst (fst (fstep x s)) <> s).
  { intros x Hx. destruct (fstep x s) as [[s1 e1] o1] eqn:E. cbn. apply (fstep_moves x s s1 e1 o1 Hstop Hx E). }
  destruct (fmx s) as [h|] eqn:Hm.
  - exists h. apply Hmv. pose proof (proj2 (f_hold _ _ _ HC h) Hm) as Hh. unfold holds in Hh. split.
    + left. intros E. rewrite E in Hh. discriminate.
    + intros L. exfalso. unfold lock_pc in L. destruct (tpc (fth s h)); discriminate.
  - exists t. apply Hmv. split; [assumption|auto].
Qed.

(* a thread that is between calls does not hold the mutex: every call releases it on every path *)
Theorem fg_mutex_released s t : FCore U nown s -> tpc (fth s t) = PIdle -> fmx s <> Some t.
Proof.
  intros HC E Hm. apply (f_hold _ _ _ HC t) in Hm. unfold holds in Hm. rewrite E in Hm. discriminate.
Qed.

End Thms.
