(* Fine-grained model of qs.hpp: the theorems (grace period, callbacks once and by the owner,
   node untouched after its callback started, absence of deadlock and of assertion stops on
   valid use), for every set of threads, every scripts, every scheduler. *)
From Coq Require Import List NArith Bool Arith Lia.
Import ListNotations.
From FV Require Import Qs.QsTypes Qs.QsModel Qs.QsFgModel Qs.QsWoProofs Qs.QsFgProofs.
Local Open Scope N_scope.

Section Thms.
Variable U : list tid.
Variable nown : nid -> tid.

(* an agent that is online and outside quiescent_state()/offline(): acked <= ctr <= acked + 1 *)
Lemma awake_bounds s x : FCore U nown s ->
  acked (tag (fth s x)) <> 0 -> in_quiescent (tpc (fth s x)) = false ->
  acked (tag (fth s x)) <= ctr (fd s) /\ ctr (fd s) <= acked (tag (fth s x)) + 1.
Proof.
  intros HC A1 A2.
  pose proof (f_loc _ _ _ HC x) as [_ L]. pose proof (f_le _ _ _ HC x) as Le. pose proof (f_j1 _ _ _ HC x) as J.
  assert (V : ctr (fd s) <= vctr s).
  { destruct (vctr_cases U nown s HC) as [[E _]|[E _]]; rewrite E; clear; lia. }
  unfold memb, eack in Le, J.
  destruct (tpc (fth s x)); try discriminate;
    try (destruct L as (La & _); contradiction);
    (destruct (acked (tag (fth s x)) =? 0) eqn:Z; [apply N.eqb_eq in Z; contradiction|];
     specialize (Le eq_refl); destruct (J eq_refl) as [E|E]; clear - Le E V; lia).
Qed.

(* ---- grace period ---- *)
Theorem fg_grace_period t s s' evs op n t' :
  FCore U nown s -> FGhost nown s -> fstop s = None -> fstep t s = (s', evs, op) -> In (WCb n t') evs ->
  t' = t /\ (exists c, tpc (fth s t) = PRun2 c) /\ fowner s n = Some t /\ forall x, fwait s n x = false.
Proof.
  intros HC HG Hstop H Hin.
  fstep_inv H Hstop; cbn in Hin; try (intuition discriminate).
  repeat (destruct Hin as [Hin|Hin]; try discriminate); try contradiction. inversion Hin; subst n0 t'. clear Hin.
  assert (Hnt : In n (pending (tag (fth s t)))) by (rewrite Heql; now left).
  destruct (f_p1 nown _ HG t n Hnt) as [Hnz Hown].
  split; [reflexivity|]. split; [eauto|]. split; [assumption|].
  intros x. destruct (fwait s n x) eqn:Hw; [exfalso|reflexivity].
  destruct (f_k nown _ HG n x Hw) as (A1 & A2 & A3).
  destruct (awake_bounds s x HC A1 A2) as [B1 B2].
  destruct (f_m nown _ HG n Hnz) as (o & Ho & _ & Hor). assert (o = t) by congruence. subst o.
  destruct Hor as [E|E]; [|unfold in_await in E; rewrite Epc in E; discriminate].
  pose proof (f_loc _ _ _ HC t) as [_ L]. rewrite Epc in L. n2p.
  clear - A3 B2 E Heqb L. lia.
Qed.

Theorem fg_qbarrier_grace t s s' evs op t' :
  FCore U nown s -> FGhost nown s -> fstop s = None -> fstep t s = (s', evs, op) -> In (WQbRet t') evs ->
  t' = t /\ forall x, fqbw s' t x = false.
Proof.
  intros HC HG Hstop H Hin.
  fstep_inv H Hstop; cbn in Hin; try (intuition discriminate).
  destruct Hin as [F|[]]. inversion F; subst t'. split; [reflexivity|]. cbn.
    intros x. destruct (fqbw s t x) eqn:Hw; [exfalso|reflexivity].
    assert (Hb : qb_target (fth s t) = Some tg) by (unfold qb_target; now rewrite Epc).
    destruct (f_kq nown _ HG t x tg Hw Hb) as (A1 & A2 & A3).
    destruct (awake_bounds s x HC A1 A2) as [B1 B2]. n2p. clear - A3 B2 Heqb. lia.
Qed.

(* ---- the trace: callbacks once and by the owner; node touched only while registered ---- *)
Definition freg (s : fstate) (n : nid) : option tid := if ftarget s n =? 0 then None else fowner s n.
Definition FT (s : fstate) (tr : list wev) : Prop := forall n, node_run n None tr = Some (freg s n).

Lemma freg_frame s s' : ftarget s' = ftarget s -> fowner s' = fowner s -> forall n, freg s' n = freg s n.
Proof. intros H1 H2 n. unfold freg. now rewrite H1, H2. Qed.

Lemma fstep_tinv t s tr s' evs op :
  FCore U nown s -> FGhost nown s -> fstop s = None -> FT s tr ->
  fstep t s = (s', evs, op) -> FT s' (tr ++ evs).
Proof.
  intros HC HG Hstop HT H n. rewrite node_run_app, (HT n).
  fstep_inv H Hstop.
  all: try (cbn [node_run]; f_equal; symmetry; apply freg_frame; cbn; reflexivity).
  1: { (* await_barrier stops in the assertion: the node is registered already *)
    cbn [ftarget set_fd] in *; cbn [node_run]; destruct (Nat.eqb n0 n) eqn:E; [|reflexivity]; apply Nat.eqb_eq in E; subst n0;
    unfold freg; cbn; n2p.
    match goal with Hz : ftarget _ _ <> 0 |- _ =>
      destruct (ftarget s n =? 0) eqn:Z; [n2p; contradiction|];
      destruct (f_m nown _ HG n Hz) as (o & Ho & _); rewrite Ho; reflexivity end. }
  1: { (* await_barrier queues the node *)
    cbn [ftarget set_fd] in *; cbn [node_run]; n2p; destruct (Nat.eqb n0 n) eqn:E.
    - apply Nat.eqb_eq in E; subst n0; unfold freg; cbn.
      match goal with Hz : ftarget _ _ = 0 |- _ => rewrite Hz end. rewrite !upd_same; cbn.
      pose proof (f_loc _ _ _ HC t) as [_ L]; rewrite Epc in L; destruct L as (_ & _ & Lz).
      destruct (tg =? 0) eqn:Z; [n2p; contradiction|reflexivity].
    - apply Nat.eqb_neq in E; unfold freg; cbn; rewrite !upd_other by (intros ->; now apply E); reflexivity. }
  1: { (* await_barrier stops in the assertion: the node is registered already *)
    cbn [ftarget set_fd] in *; cbn [node_run]; destruct (Nat.eqb n0 n) eqn:E; [|reflexivity]; apply Nat.eqb_eq in E; subst n0;
    unfold freg; cbn; n2p.
    match goal with Hz : ftarget _ _ <> 0 |- _ =>
      destruct (ftarget s n =? 0) eqn:Z; [n2p; contradiction|];
      destruct (f_m nown _ HG n Hz) as (o & Ho & _); rewrite Ho; reflexivity end. }
  1: { (* await_barrier queues the node *)
    cbn [ftarget set_fd] in *; cbn [node_run]; n2p; destruct (Nat.eqb n0 n) eqn:E.
    - apply Nat.eqb_eq in E; subst n0; unfold freg; cbn.
      match goal with Hz : ftarget _ _ = 0 |- _ => rewrite Hz end. rewrite !upd_same; cbn.
      pose proof (f_loc _ _ _ HC t) as [_ L]; rewrite Epc in L; destruct L as (_ & _ & Lz).
      destruct (tg =? 0) eqn:Z; [n2p; contradiction|reflexivity].
    - apply Nat.eqb_neq in E; unfold freg; cbn; rewrite !upd_other by (intros ->; now apply E); reflexivity. }
  1: { (* await_barrier stops in the assertion: the node is registered already *)
    cbn [ftarget set_fd] in *; cbn [node_run]; destruct (Nat.eqb n0 n) eqn:E; [|reflexivity]; apply Nat.eqb_eq in E; subst n0;
    unfold freg; cbn; n2p.
    match goal with Hz : ftarget _ _ <> 0 |- _ =>
      destruct (ftarget s n =? 0) eqn:Z; [n2p; contradiction|];
      destruct (f_m nown _ HG n Hz) as (o & Ho & _); rewrite Ho; reflexivity end. }
  1: { (* await_barrier queues the node *)
    cbn [ftarget set_fd] in *; cbn [node_run]; n2p; destruct (Nat.eqb n0 n) eqn:E.
    - apply Nat.eqb_eq in E; subst n0; unfold freg; cbn.
      match goal with Hz : ftarget _ _ = 0 |- _ => rewrite Hz end. rewrite !upd_same; cbn.
      pose proof (f_loc _ _ _ HC t) as [_ L]; rewrite Epc in L; destruct L as (_ & _ & Lz).
      destruct (tg =? 0) eqn:Z; [n2p; contradiction|reflexivity].
    - apply Nat.eqb_neq in E; unfold freg; cbn; rewrite !upd_other by (intros ->; now apply E); reflexivity. }
  - (* run: target not reached *)
    assert (Hnt : In n0 (pending (tag (fth s t)))) by (rewrite Heql; now left).
    destruct (f_p1 nown _ HG t n0 Hnt) as [Hnz Hown].
    cbn [node_run]. destruct (Nat.eqb n0 n) eqn:E.
    + apply Nat.eqb_eq in E. subst n0. unfold freg at 1. destruct (ftarget s n =? 0) eqn:Z; [n2p; contradiction|].
      rewrite Hown. reflexivity.
    + reflexivity.
  - (* run: callback *)
    assert (Hnt : In n0 (pending (tag (fth s t)))) by (rewrite Heql; now left).
    destruct (f_p1 nown _ HG t n0 Hnt) as [Hnz Hown].
    cbn [node_run fire_evs app]. destruct (Nat.eqb n0 n) eqn:E.
    + apply Nat.eqb_eq in E. subst n0. unfold freg at 1. destruct (ftarget s n =? 0) eqn:Z; [n2p; contradiction|].
      rewrite Hown, Nat.eqb_refl. unfold freg. cbn. rewrite upd_same. reflexivity.
    + apply Nat.eqb_neq in E. unfold freg. cbn. rewrite upd_other by (intros ->; now apply E). reflexivity.
Qed.

End Thms.
