(* Obligations over the generated source facts (Gen/QsOrders.v), discharged by computation.
   They fail to compile when qs.hpp changes in a way the model's program counters, the lock_guard
   interpretation, the order pop_front/callback in run() or the memory orders do not cover. *)
From Coq Require Import List.
Import ListNotations.
From FV Require Import Qs.QsTypes Qs.QsModel.

Lemma gen_guard_ok_true : gen_guard_ok = true.
Proof. vm_compute. reflexivity. Qed.
Lemma gen_enter_eq : gen_enter = [MLock].
Proof. vm_compute. reflexivity. Qed.
Lemma gen_exit_eq : gen_exit = [MUnlock].
Proof. vm_compute. reflexivity. Qed.
Lemma gen_pop_first_true : gen_pop_first = true.
Proof. vm_compute. reflexivity. Qed.
(* orders_match_model: every atomic access of the source is the site the model expects (kind and
   location), no function has additional atomic accesses, and the whole skeleton (guard scopes,
   control structure, assertions, list calls, callback call) is the one the model was written for *)
Lemma gen_sites_ok_true : gen_sites_ok = true.
Proof. vm_compute. reflexivity. Qed.
Lemma gen_skeleton_ok_true : gen_skeleton_ok = true.
Proof. vm_compute. reflexivity. Qed.
Lemma gen_numagents_guarded_true : gen_numagents_guarded = true.
Proof. vm_compute. reflexivity. Qed.
(* orders_sufficient: each memory order is at least as strong as C11_hb needs *)
Lemma gen_orders_sufficient_true : gen_orders_sufficient = true.
Proof. vm_compute. reflexivity. Qed.
