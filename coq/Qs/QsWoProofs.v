(* Whole-operation model of qs.hpp: invariants J1-J5, K, structure of the pending lists, and the
   theorems at whole-operation granularity (one API call = one step, arbitrary agent set). *)
From Coq Require Import List NArith Bool Arith Lia ZifyBool ZifyNat ZifyN.
Import ListNotations.
From FV Require Import Qs.QsTypes Qs.QsModel.
Local Open Scope N_scope.

(* ---------------------------------------------------------------------------------------- *)
(* basics                                                                                     *)
(* ---------------------------------------------------------------------------------------- *)

Lemma upd_same {A} (f : nat -> A) k v : upd f k v k = v.
Proof. unfold upd. now rewrite Nat.eqb_refl. Qed.
Lemma upd_other {A} (f : nat -> A) k v x : x <> k -> upd f k v x = f x.
Proof. intros H. unfold upd. destruct (Nat.eqb x k) eqn:E; [apply Nat.eqb_eq in E; congruence|reflexivity]. Qed.

Definition b2n (b : bool) : N := if b then 1 else 0.

Fixpoint cnt (p : nat -> bool) (U : list nat) : N :=
  match U with [] => 0 | x :: r => b2n (p x) + cnt p r end.

Lemma cnt_ext p q U : (forall x, In x U -> p x = q x) -> cnt p U = cnt q U.
Proof.
  induction U as [|a U IH]; intros H; cbn [cnt]; [reflexivity|].
  rewrite (H a (or_introl eq_refl)), IH; [reflexivity|]. intros x Hx. apply H. now right.
Qed.

Lemma cnt_change p q U x :
  NoDup U -> In x U -> (forall y, y <> x -> p y = q y) ->
  cnt p U + b2n (q x) = cnt q U + b2n (p x).
Proof.
  induction U as [|a U IH]; intros ND Hin Hoth; [destruct Hin|].
  inversion ND as [|? ? Hna ND']; subst. cbn [cnt].
  destruct Hin as [->|Hin].
  - rewrite (cnt_ext p q U); [lia|]. intros y Hy. apply Hoth. intros ->. contradiction.
  - assert (a <> x) by (intros ->; contradiction).
    rewrite (Hoth a H). specialize (IH ND' Hin Hoth). lia.
Qed.

Lemma cnt_zero p U : cnt p U = 0 -> forall x, In x U -> p x = false.
Proof.
  induction U as [|a U IH]; intros H x Hx; [destruct Hx|]. cbn [cnt] in H.
  destruct Hx as [->|Hx].
  - destruct (p x); cbn [b2n] in H; [lia|reflexivity].
  - apply IH; [|assumption]. destruct (p a); cbn [b2n] in H; lia.
Qed.

Lemma cnt_pos p U x : In x U -> p x = true -> 0 < cnt p U.
Proof.
  induction U as [|a U IH]; intros Hx Hp; [destruct Hx|]. cbn [cnt].
  destruct Hx as [->|Hx]; [rewrite Hp; cbn [b2n]; lia|]. specialize (IH Hx Hp). lia.
Qed.

Lemma cnt_pos_ex p U : 0 < cnt p U -> exists x, In x U /\ p x = true.
Proof.
  induction U as [|a U IH]; cbn [cnt]; intros H; [lia|].
  destruct (p a) eqn:E; [exists a; split; [now left|assumption]|].
  cbn [b2n] in H. destruct IH as [x [Hx Hp]]; [lia|]. exists x. split; [now right|assumption].
Qed.

Lemma cnt_le_length p U : cnt p U <= N.of_nat (length U).
Proof. induction U as [|a U IH]; cbn [cnt length]; [lia|]. destruct (p a); cbn [b2n]; lia. Qed.

Lemma cnt_le p q U : (forall x, In x U -> p x = true -> q x = true) -> cnt p U <= cnt q U.
Proof.
  induction U as [|a U IH]; intros H; cbn [cnt]; [lia|].
  assert (cnt p U <= cnt q U) by (apply IH; intros x Hx; apply H; now right).
  destruct (p a) eqn:E; [rewrite (H a (or_introl eq_refl) E)|]; cbn [b2n]; destruct (q a); cbn [b2n]; lia.
Qed.

(* ---------------------------------------------------------------------------------------- *)
(* the whole-operation step of the repaired source: guard = lock ... unlock, pop before call *)
(* ---------------------------------------------------------------------------------------- *)

Definition wstep : tid -> call -> wstate -> outcome (wstate * list wev) := w_step [MLock] [MUnlock] true.

Lemma guarded_free {A} (s : wstate) (body : dom -> outcome (dom * A)) :
  wheld s = false ->
  guarded [MLock] [MUnlock] s body =
  bind (body (wd s)) (fun r => Ok (set_held (set_dom s (fst r)) false, snd r)).
Proof. intros H. unfold guarded. rewrite H. cbn [mx_apply bind]. destruct (body (wd s)); reflexivity. Qed.

Definition onl (s : wstate) (x : tid) : bool := online_b (wa s x).
Definition need (s : wstate) (x : tid) : bool :=
  online_b (wa s x) && (acked (wa s x) + 1 =? ctr (wd s)).

Fixpoint sorted_tg (tg : nid -> N) (l : list nid) : Prop :=
  match l with
  | [] => True
  | n :: r => (forall m, In m r -> tg n <= tg m) /\ sorted_tg tg r
  end.

Record Core (U : list tid) (s : wstate) : Prop := mkCore {
  i_held : wheld s = false;
  i_ctr : 1 <= ctr (wd s);
  i_univ : forall x, onl s x = true -> In x U;
  i_j1 : forall x, onl s x = true -> acked (wa s x) = ctr (wd s) \/ acked (wa s x) + 1 = ctr (wd s);
  i_j2 : toack (wd s) = cnt (need s) U;
  i_j3 : nagents (wd s) = cnt (onl s) U;
  i_j4 : forall x, deferred (wa s x) = true ->
           onl s x = true /\ acked (wa s x) = ctr (wd s) /\ toack (wd s) = 0;
  i_j4u : forall x y, deferred (wa s x) = true -> deferred (wa s y) = true -> x = y;
  i_j5 : toack (wd s) = 0 -> 0 < nagents (wd s) -> exists x, deferred (wa s x) = true
}.

Record Kinv (s : wstate) : Prop := mkK {
  i_k : forall n x, wwait s n x = true -> wtarget s n <> 0 ->
           onl s x = true /\ acked (wa s x) + 2 <= wtarget s n
}.

Record Pinv (s : wstate) : Prop := mkP {
  i_p1 : forall t n, In n (pending (wa s t)) -> wtarget s n <> 0 /\ wowner s n = Some t;
  i_p2 : forall n, wtarget s n <> 0 -> exists t, wowner s n = Some t /\ In n (pending (wa s t));
  i_p3 : forall t, NoDup (pending (wa s t));
  i_p4 : forall t, sorted_tg (wtarget s) (pending (wa s t));
  i_p5 : forall n, wtarget s n <= desired (wd s) /\ wtarget s n <= ctr (wd s) + 2
}.

Definition Inv (U : list tid) (s : wstate) : Prop := Core U s /\ Kinv s /\ Pinv s.

(* ---------------------------------------------------------------------------------------- *)
(* Core: generic ways to re-establish it                                                      *)
(* ---------------------------------------------------------------------------------------- *)

Lemma onl_true s x : onl s x = true <-> acked (wa s x) <> 0.
Proof. unfold onl, online_b. destruct (acked (wa s x) =? 0) eqn:E; cbn; split; intros; try congruence; lia. Qed.
Lemma onl_false s x : onl s x = false <-> acked (wa s x) = 0.
Proof. unfold onl, online_b. destruct (acked (wa s x) =? 0) eqn:E; cbn; split; intros; try congruence; lia. Qed.

Lemma need_true s x : need s x = true <-> acked (wa s x) <> 0 /\ acked (wa s x) + 1 = ctr (wd s).
Proof.
  unfold need, online_b. destruct (acked (wa s x) =? 0) eqn:E; destruct (acked (wa s x) + 1 =? ctr (wd s)) eqn:F;
    cbn; split; intros; try congruence; try lia.
Qed.
Lemma need_false s x : need s x = false <-> acked (wa s x) = 0 \/ acked (wa s x) + 1 <> ctr (wd s).
Proof.
  unfold need, online_b. destruct (acked (wa s x) =? 0) eqn:E; destruct (acked (wa s x) + 1 =? ctr (wd s)) eqn:F;
    cbn; split; intros; try congruence; try lia.
Qed.

(* nothing the core looks at changed *)
Lemma core_ext U s s' :
  Core U s -> wheld s' = false ->
  ctr (wd s') = ctr (wd s) -> nagents (wd s') = nagents (wd s) -> toack (wd s') = toack (wd s) ->
  (forall x, acked (wa s' x) = acked (wa s x) /\ deferred (wa s' x) = deferred (wa s x)) ->
  Core U s'.
Proof.
  intros [Hheld Hctr Huniv J1 J2 J3 J4 J4u J5] Hh Hc Hn Ht Ha.
  assert (Ho : forall x, onl s' x = onl s x) by (intros x; unfold onl, online_b; now rewrite (proj1 (Ha x))).
  assert (Hne : forall x, need s' x = need s x) by (intros x; unfold need, online_b; now rewrite (proj1 (Ha x)), Hc).
  constructor.
  - assumption.
  - now rewrite Hc.
  - intros x Hx. rewrite Ho in Hx. auto.
  - intros x Hx. rewrite Ho in Hx. rewrite (proj1 (Ha x)), Hc. auto.
  - rewrite Ht, J2. apply cnt_ext. intros; now rewrite Hne.
  - rewrite Hn, J3. apply cnt_ext. intros; now rewrite Ho.
  - intros x Hx. rewrite (proj2 (Ha x)) in Hx. rewrite Ho, (proj1 (Ha x)), Hc, Ht. auto.
  - intros x y Hx Hy. rewrite (proj2 (Ha x)) in Hx. rewrite (proj2 (Ha y)) in Hy. eauto.
  - rewrite Ht, Hn. intros H1 H2. destruct (J5 H1 H2) as [x Hx]. exists x. now rewrite (proj2 (Ha x)).
Qed.

(* the counter is bumped: everybody who is online afterwards had acked the old period *)
Lemma core_bump U s' c :
  wheld s' = false -> 1 <= c -> ctr (wd s') = c + 1 ->
  (forall x, onl s' x = true -> In x U /\ acked (wa s' x) = c) ->
  nagents (wd s') = cnt (onl s') U -> toack (wd s') = nagents (wd s') ->
  (forall x, deferred (wa s' x) = false) ->
  Core U s'.
Proof.
  intros Hh Hc Hc' Hon Hn Ht Hd. constructor.
  - assumption.
  - lia.
  - intros x Hx. apply Hon, Hx.
  - intros x Hx. right. rewrite (proj2 (Hon x Hx)). lia.
  - rewrite Ht, Hn. apply cnt_ext. intros x _. unfold need. fold (onl s' x).
    destruct (onl s' x) eqn:E; [|reflexivity]. rewrite (proj2 (Hon x E)), Hc'. cbn. symmetry. apply N.eqb_refl.
  - assumption.
  - intros x Hx. rewrite Hd in Hx. discriminate.
  - intros x y Hx. rewrite Hd in Hx. discriminate.
  - intros H1 H2. lia.
Qed.

(* agent t changes, the counter does not *)
Lemma core_upd U s s' t :
  Core U s -> NoDup U -> In t U -> wheld s' = false ->
  ctr (wd s') = ctr (wd s) ->
  (forall x, x <> t -> acked (wa s' x) = acked (wa s x) /\ deferred (wa s' x) = deferred (wa s x)) ->
  (acked (wa s' t) <> 0 -> acked (wa s' t) = ctr (wd s) \/ acked (wa s' t) + 1 = ctr (wd s)) ->
  toack (wd s') + b2n (need s t) = toack (wd s) + b2n (need s' t) ->
  nagents (wd s') + b2n (onl s t) = nagents (wd s) + b2n (onl s' t) ->
  (deferred (wa s' t) = true -> acked (wa s' t) <> 0 /\ acked (wa s' t) = ctr (wd s) /\ toack (wd s') = 0) ->
  (forall x, x <> t -> deferred (wa s x) = true -> toack (wd s') = 0 /\ deferred (wa s' t) = false) ->
  (toack (wd s') = 0 -> 0 < nagents (wd s') -> exists x, deferred (wa s' x) = true) ->
  Core U s'.
Proof.
  intros [Hheld Hctr Huniv J1 J2 J3 J4 J4u J5] ND Ht Hh Hc Hoth H1 H2 H3 H4 H4o H5.
  assert (Ho : forall x, x <> t -> onl s' x = onl s x)
    by (intros x Hx; unfold onl, online_b; now rewrite (proj1 (Hoth x Hx))).
  assert (Hne : forall x, x <> t -> need s' x = need s x)
    by (intros x Hx; unfold need, online_b; now rewrite (proj1 (Hoth x Hx)), Hc).
  constructor.
  - assumption.
  - now rewrite Hc.
  - intros x Hx. destruct (Nat.eq_dec x t) as [->|Hxt]; [assumption|]. rewrite Ho in Hx by assumption. auto.
  - intros x Hx. rewrite Hc. destruct (Nat.eq_dec x t) as [->|Hxt].
    + apply H1. now apply onl_true.
    + rewrite Ho in Hx by assumption. rewrite (proj1 (Hoth x Hxt)). auto.
  - pose proof (cnt_change (need s) (need s') U t ND Ht (fun y Hy => eq_sym (Hne y Hy))). lia.
  - pose proof (cnt_change (onl s) (onl s') U t ND Ht (fun y Hy => eq_sym (Ho y Hy))). lia.
  - intros x Hx. rewrite Hc. destruct (Nat.eq_dec x t) as [->|Hxt].
    + destruct (H4 Hx) as (Ha & Hb & Hd). split; [now apply onl_true|auto].
    + rewrite (proj2 (Hoth x Hxt)) in Hx. destruct (J4 x Hx) as (Ha & Hb & Hd).
      rewrite Ho, (proj1 (Hoth x Hxt)) by assumption. split; [assumption|]. split; [assumption|].
      apply (H4o x Hxt Hx).
  - intros x y Hx Hy. destruct (Nat.eq_dec x t) as [->|Hxt]; destruct (Nat.eq_dec y t) as [->|Hyt]; try reflexivity.
    + rewrite (proj2 (Hoth y Hyt)) in Hy. destruct (H4o y Hyt Hy) as [_ E]. congruence.
    + rewrite (proj2 (Hoth x Hxt)) in Hx. destruct (H4o x Hxt Hx) as [_ E]. congruence.
    + rewrite (proj2 (Hoth x Hxt)) in Hx. rewrite (proj2 (Hoth y Hyt)) in Hy. eauto.
  - assumption.
Qed.

(* facts the core gives about one agent t of the universe *)
Lemma cnt_two p U x y : NoDup U -> In x U -> In y U -> x <> y -> p x = true -> p y = true -> 2 <= cnt p U.
Proof.
  induction U as [|a U IH]; intros ND Hx Hy Hxy Px Py; [destruct Hx|].
  inversion ND as [|? ? Hna ND']; subst. cbn [cnt].
  destruct Hx as [->|Hx]; destruct Hy as [->|Hy].
  - congruence.
  - rewrite Px. pose proof (cnt_pos p U y Hy Py). cbn [b2n]. lia.
  - rewrite Py. pose proof (cnt_pos p U x Hx Px). cbn [b2n]. lia.
  - specialize (IH ND' Hx Hy Hxy Px Py). lia.
Qed.

Section CoreFacts.
Variables (U : list tid) (s : wstate) (t : tid).
Hypothesis HC : Core U s.
Hypothesis ND : NoDup U.
Hypothesis Ht : In t U.

Lemma cf_nagents_pos : onl s t = true -> 1 <= nagents (wd s).
Proof. intros H. rewrite (i_j3 _ _ HC). pose proof (cnt_pos (onl s) U t Ht H). lia. Qed.
Lemma cf_toack_pos : need s t = true -> 1 <= toack (wd s).
Proof. intros H. rewrite (i_j2 _ _ HC). pose proof (cnt_pos (need s) U t Ht H). lia. Qed.
Lemma cf_toack_le : toack (wd s) <= nagents (wd s).
Proof.
  rewrite (i_j2 _ _ HC), (i_j3 _ _ HC). apply cnt_le. intros x _ H. unfold need in H. unfold onl.
  destruct (online_b (wa s x)); [reflexivity|discriminate].
Qed.
Lemma cf_nagents_room : onl s t = false -> nagents (wd s) + 1 <= N.of_nat (length U).
Proof.
  intros H. rewrite (i_j3 _ _ HC).
  set (q := fun x => if Nat.eqb x t then true else onl s x).
  assert (E : cnt (onl s) U + b2n (q t) = cnt q U + b2n (onl s t)).
  { apply cnt_change; [assumption|assumption|]. intros y Hy. unfold q. apply Nat.eqb_neq in Hy. now rewrite Hy. }
  assert (Q : q t = true) by (unfold q; now rewrite Nat.eqb_refl).
  rewrite Q, H in E. cbn [b2n] in E.
  pose proof (cnt_le_length q U) as L. clearbody q. lia.
Qed.
Lemma cf_only_needer : toack (wd s) = 1 -> need s t = true ->
  forall x, x <> t -> onl s x = true -> acked (wa s x) = ctr (wd s).
Proof.
  intros H1 Hn x Hx Ho. destruct (i_j1 _ _ HC x Ho) as [E|E]; [assumption|].
  assert (need s x = true) by (apply need_true; split; [now apply onl_true|assumption]).
  pose proof (cnt_two (need s) U x t ND (i_univ _ _ HC x Ho) Ht Hx H Hn). rewrite (i_j2 _ _ HC) in H1. lia.
Qed.
Lemma cf_all_acked : toack (wd s) = 0 -> forall x, onl s x = true -> acked (wa s x) = ctr (wd s).
Proof.
  intros H0 x Ho. destruct (i_j1 _ _ HC x Ho) as [E|E]; [assumption|].
  rewrite (i_j2 _ _ HC) in H0. pose proof (cnt_zero _ _ H0 x (i_univ _ _ HC x Ho)) as F.
  apply need_false in F. apply onl_true in Ho. lia.
Qed.
Lemma cf_nobody : nagents (wd s) = 0 -> forall x, onl s x = false.
Proof.
  intros H0 x. destruct (onl s x) eqn:E; [|reflexivity]. rewrite (i_j3 _ _ HC) in H0.
  pose proof (cnt_zero _ _ H0 x (i_univ _ _ HC x E)). congruence.
Qed.
Lemma cf_not_deferred_if_toack : toack (wd s) <> 0 -> forall x, deferred (wa s x) = false.
Proof. intros H x. destruct (deferred (wa s x)) eqn:E; [|reflexivity]. destruct (i_j4 _ _ HC x E) as (_ & _ & F). contradiction. Qed.
Lemma cf_offline_not_deferred : forall x, onl s x = false -> deferred (wa s x) = false.
Proof. intros x H. destruct (deferred (wa s x)) eqn:E; [|reflexivity]. destruct (i_j4 _ _ HC x E) as (F & _). congruence. Qed.
End CoreFacts.

(* ---------------------------------------------------------------------------------------- *)
(* Core is preserved by every call                                                            *)
(* ---------------------------------------------------------------------------------------- *)

Definition few (U : list tid) : Prop := N.of_nat (length U) < 4294967296.

Lemma core_online U s t s' evs :
  Core U s -> NoDup U -> In t U -> few U -> wstep t COnline s = Ok (s', evs) -> Core U s'.
Proof.
  intros HC ND Ht HB H. unfold wstep, w_step, w_online in H.
  destruct (negb (acked (wa s t) =? 0)) eqn:E0; [discriminate|].
  assert (Hoff : onl s t = false) by (apply onl_false; lia).
  pose proof (cf_nagents_room U s t HC ND Ht Hoff) as Hroom.
  rewrite guarded_free in H by apply HC.
  assert (Hinc : inc32 (nagents (wd s)) = nagents (wd s) + 1).
  { unfold inc32, few in *. destruct (nagents (wd s) =? 4294967295) eqn:E; [lia|reflexivity]. }
  rewrite Hinc in H.
  destruct (nagents (wd s) + 1 =? 1) eqn:E1.
  - (* first agent *)
    assert (Hn0 : nagents (wd s) = 0) by lia.
    pose proof (cf_toack_le U s HC) as Hle.
    destruct (negb (toack (wd s) =? 0)) eqn:E2; [cbn in H; discriminate|].
    cbn in H. inversion H; subst s' evs; clear H.
    match goal with |- Core _ ?x => set (s1 := x) end.
    apply (core_bump U s1 (ctr (wd s))).
    + reflexivity.
    + apply HC.
    + reflexivity.
    + intros x Hx. unfold onl, s1 in Hx. cbn in Hx. unfold s1. cbn. unfold upd in *. destruct (Nat.eqb x t) eqn:Ex.
      * apply Nat.eqb_eq in Ex. subst x. split; [assumption|reflexivity].
      * pose proof (cf_nobody U s HC Hn0 x) as F. unfold onl in F. congruence.
    + unfold s1 at 1. cbn.
      pose proof (cnt_change (onl s) (onl s1) U t ND Ht) as C.
      assert (onl s1 t = true).
      { unfold onl, s1. cbn. rewrite upd_same. cbn. unfold online_b. cbn. pose proof (i_ctr _ _ HC).
        destruct (ctr (wd s) =? 0) eqn:F; [lia|reflexivity]. }
      rewrite H, Hoff in C. cbn [b2n] in C.
      assert (C' : cnt (onl s) U + 1 = cnt (onl s1) U + 0).
      { apply C. intros y Hy. unfold onl, s1. cbn. now rewrite upd_other. }
      rewrite <- (i_j3 _ _ HC) in C'. lia.
    + unfold s1. cbn. lia.
    + intros x. unfold s1. cbn. unfold upd. destruct (Nat.eqb x t) eqn:Ex; cbn.
      * apply (cf_offline_not_deferred U s HC t Hoff).
      * apply (cf_offline_not_deferred U s HC x). apply (cf_nobody U s HC Hn0).
  - (* somebody is online already *)
    cbn in H. inversion H; subst s' evs; clear H.
    match goal with |- Core _ ?x => set (s1 := x) end.
    assert (Hc1 : 1 <= ctr (wd s)) by apply HC.
    assert (Ho1 : onl s1 t = true).
    { unfold onl, s1. cbn. rewrite upd_same. unfold online_b. cbn. destruct (ctr (wd s) =? 0) eqn:F; [lia|reflexivity]. }
    assert (Hn1 : need s1 t = false).
    { apply need_false. right. unfold s1. cbn. rewrite upd_same. cbn. lia. }
    assert (Hn : need s t = false) by (apply need_false; left; lia).
    assert (Hd1 : deferred (wa s1 t) = false).
    { unfold s1. cbn. rewrite upd_same. cbn. apply (cf_offline_not_deferred U s HC t Hoff). }
    apply (core_upd U s s1 t HC ND Ht); try reflexivity.
    + intros x Hx. unfold s1. cbn. now rewrite upd_other.
    + intros _. unfold s1. cbn. rewrite upd_same. cbn. now left.
    + rewrite Hn, Hn1. reflexivity.
    + rewrite Ho1, Hoff. unfold s1. cbn. lia.
    + rewrite Hd1. discriminate.
    + intros x Hx Hdx. split; [|assumption]. apply (i_j4 _ _ HC x Hdx).
    + unfold s1 at 1 2. cbn. intros T0 _.
      destruct (i_j5 _ _ HC T0) as [x Hx]; [lia|]. exists x.
      destruct (Nat.eq_dec x t) as [->|Hxt].
      * pose proof (cf_offline_not_deferred U s HC t Hoff). congruence.
      * unfold s1. cbn. now rewrite upd_other.
Qed.

Lemma dec32_pos x : 1 <= x -> dec32 x = x - 1.
Proof. intros H. unfold dec32. destruct (x =? 0) eqn:E; [lia|reflexivity]. Qed.

Lemma core_offline U s t s' evs :
  Core U s -> NoDup U -> In t U -> wstep t COffline s = Ok (s', evs) -> Core U s'.
Proof.
  intros HC ND Ht H. unfold wstep, w_step, w_offline in H.
  destruct (acked (wa s t) =? 0) eqn:E0; [discriminate|].
  assert (Hon : onl s t = true) by (apply onl_true; lia).
  cbn [enter_quiescent wa wd] in H.
  destruct (deferred (wa s t)) eqn:Ed; [discriminate|].
  rewrite guarded_free in H by (cbn; apply HC). cbn [enter_quiescent wd wa] in H.
  pose proof (cf_nagents_pos U s t HC Ht Hon) as Hnp.
  rewrite (dec32_pos _ Hnp) in H.
  assert (Hc1 : 1 <= ctr (wd s)) by apply HC.
  destruct (negb (acked (wa s t) =? ctr (wd s))) eqn:E1.
  - destruct (negb (acked (wa s t) + 1 =? ctr (wd s))) eqn:E2; [cbn in H; discriminate|].
    assert (Hneed : need s t = true) by (apply need_true; lia).
    pose proof (cf_toack_pos U s t HC Ht Hneed) as Htp.
    pose proof (cf_not_deferred_if_toack U s HC ltac:(lia)) as Hnd.
    destruct (toack (wd s) =? 1) eqn:E3.
    + (* last acker: bump *)
      cbn in H. inversion H; subst s' evs; clear H.
      match goal with |- Core _ ?x => set (s1 := x) end.
      assert (Ho1 : forall x, onl s1 x = if Nat.eqb x t then false else onl s x).
      { intros x. unfold onl, s1. cbn. unfold upd. destruct (Nat.eqb x t); reflexivity. }
      apply (core_bump U s1 (ctr (wd s))).
      * reflexivity.
      * assumption.
      * reflexivity.
      * intros x Hx. rewrite Ho1 in Hx. destruct (Nat.eqb x t) eqn:Ex; [discriminate|]. apply Nat.eqb_neq in Ex.
        split; [apply (i_univ _ _ HC x Hx)|]. unfold s1. cbn. rewrite upd_other by assumption.
        apply (cf_only_needer U s t HC ND Ht); [lia|assumption|assumption|assumption].
      * unfold s1 at 1. cbn.
        pose proof (cnt_change (onl s) (onl s1) U t ND Ht) as C.
        assert (C' : cnt (onl s) U + b2n (onl s1 t) = cnt (onl s1) U + b2n (onl s t)).
        { apply C. intros y Hy. rewrite Ho1. apply Nat.eqb_neq in Hy. now rewrite Hy. }
        rewrite Ho1, Nat.eqb_refl, Hon in C'. cbn [b2n] in C'. rewrite <- (i_j3 _ _ HC) in C'. lia.
      * unfold s1. cbn. reflexivity.
      * intros x. unfold s1. cbn. unfold upd. destruct (Nat.eqb x t); cbn; [reflexivity|apply Hnd].
    + (* not the last one *)
      cbn in H. inversion H; subst s' evs; clear H.
      match goal with |- Core _ ?x => set (s1 := x) end.
      assert (Ho1 : onl s1 t = false) by (apply onl_false; unfold s1; cbn; now rewrite upd_same).
      assert (Hn1 : need s1 t = false) by (apply need_false; left; unfold s1; cbn; now rewrite upd_same).
      apply (core_upd U s s1 t HC ND Ht); try reflexivity.
      * intros x Hx. unfold s1. cbn. now rewrite upd_other.
      * unfold s1. cbn. rewrite upd_same. cbn. congruence.
      * rewrite Hneed, Hn1. unfold s1. cbn. rewrite (dec32_pos _ Htp). lia.
      * rewrite Hon, Ho1. unfold s1. cbn. lia.
      * unfold s1. cbn. rewrite upd_same. cbn. congruence.
      * intros x _ Hx. rewrite Hnd in Hx. discriminate.
      * unfold s1 at 1. cbn. rewrite (dec32_pos _ Htp). intros. lia.
  - (* already acked this period *)
    cbn in H. inversion H; subst s' evs; clear H.
    match goal with |- Core _ ?x => set (s1 := x) end.
    assert (Ho1 : onl s1 t = false) by (apply onl_false; unfold s1; cbn; now rewrite upd_same).
    assert (Hn1 : need s1 t = false) by (apply need_false; left; unfold s1; cbn; now rewrite upd_same).
    assert (Hn : need s t = false) by (apply need_false; right; lia).
    apply (core_upd U s s1 t HC ND Ht); try reflexivity.
    + intros x Hx. unfold s1. cbn. now rewrite upd_other.
    + unfold s1. cbn. rewrite upd_same. cbn. congruence.
    + rewrite Hn, Hn1. unfold s1. cbn. lia.
    + rewrite Hon, Ho1. unfold s1. cbn. lia.
    + unfold s1. cbn. rewrite upd_same. cbn. congruence.
    + intros x _ Hx. split; [apply (i_j4 _ _ HC x Hx)|]. unfold s1. cbn. rewrite upd_same. reflexivity.
    + unfold s1 at 1 2. cbn. intros T0 Hn0. destruct (i_j5 _ _ HC T0) as [x Hx]; [lia|]. exists x.
      destruct (Nat.eq_dec x t) as [->|Hxt]; [congruence|]. unfold s1. cbn. now rewrite upd_other.
Qed.

Lemma core_enter_quiescent U s t : Core U s -> Core U (enter_quiescent s t).
Proof. intros HC. apply (core_ext U s); try reflexivity; [assumption|apply HC|intros; split; reflexivity]. Qed.

Lemma core_qs U s t s' evs :
  Core U s -> NoDup U -> In t U -> wstep t CQsCall s = Ok (s', evs) -> Core U s'.
Proof.
  intros HC ND Ht H. unfold wstep, w_step, w_qs in H.
  destruct (acked (wa s t) =? 0) eqn:E0; [discriminate|].
  assert (Hon : onl s t = true) by (apply onl_true; lia).
  assert (Hc1 : 1 <= ctr (wd s)) by apply HC.
  pose proof (cf_nagents_pos U s t HC Ht Hon) as Hnp.
  cbn [enter_quiescent wa wd] in H.
  destruct (deferred (wa s t)) eqn:Ed.
  - (* holds a deferred period *)
    destruct (i_j4 _ _ HC t Ed) as (_ & Hac & Ht0).
    destruct (negb (acked (wa s t) =? ctr (wd s))) eqn:E1; [discriminate|].
    destruct (acked (wa s t) <? desired (wd s)) eqn:E2.
    + rewrite guarded_free in H by (cbn; apply HC). cbn in H. inversion H; subst s' evs; clear H.
      match goal with |- Core _ ?x => set (s1 := x) end.
      assert (Ho1 : forall x, onl s1 x = onl s x).
      { intros x. unfold onl, s1. cbn. unfold upd. destruct (Nat.eqb x t) eqn:Ex; [|reflexivity].
        apply Nat.eqb_eq in Ex. subst x. reflexivity. }
      apply (core_bump U s1 (ctr (wd s))).
      * reflexivity.
      * assumption.
      * unfold s1. cbn. lia.
      * intros x Hx. rewrite Ho1 in Hx. split; [apply (i_univ _ _ HC x Hx)|].
        unfold s1. cbn. unfold upd. destruct (Nat.eqb x t) eqn:Ex; cbn; [assumption|].
        apply (cf_all_acked U s HC Ht0 x Hx).
      * unfold s1 at 1. cbn. rewrite (i_j3 _ _ HC). apply cnt_ext. intros; now rewrite Ho1.
      * reflexivity.
      * intros x. unfold s1. cbn. unfold upd. destruct (Nat.eqb x t) eqn:Ex; cbn; [reflexivity|].
        destruct (deferred (wa s x)) eqn:Edx; [|reflexivity]. apply Nat.eqb_neq in Ex.
        elim Ex. apply (i_j4u _ _ HC x t Edx Ed).
    + inversion H; subst s' evs. apply core_enter_quiescent, HC.
  - destruct (negb (acked (wa s t) =? ctr (wd s))) eqn:E1.
    + destruct (negb (acked (wa s t) + 1 =? ctr (wd s))) eqn:E2; [discriminate|].
      assert (Hneed : need s t = true) by (apply need_true; lia).
      pose proof (cf_toack_pos U s t HC Ht Hneed) as Htp.
      pose proof (cf_not_deferred_if_toack U s HC ltac:(lia)) as Hnd.
      destruct (toack (wd s) =? 1) eqn:E3.
      * destruct (ctr (wd s) <? desired (wd s)) eqn:E4.
        -- (* last acker, somebody wants the next period: bump *)
           rewrite guarded_free in H by (cbn; apply HC). cbn in H. inversion H; subst s' evs; clear H.
           match goal with |- Core _ ?x => set (s1 := x) end.
           assert (Ho1 : forall x, onl s1 x = onl s x).
           { intros x. unfold onl, s1. cbn. unfold upd. destruct (Nat.eqb x t) eqn:Ex; [|reflexivity].
             apply Nat.eqb_eq in Ex. subst x. fold (onl s t). rewrite Hon. unfold online_b. cbn.
             destruct (acked (wa s t) + 1 =? 0) eqn:F; [lia|reflexivity]. }
           apply (core_bump U s1 (ctr (wd s))).
           ++ reflexivity.
           ++ assumption.
           ++ reflexivity.
           ++ intros x Hx. rewrite Ho1 in Hx. split; [apply (i_univ _ _ HC x Hx)|].
              unfold s1. cbn. unfold upd. destruct (Nat.eqb x t) eqn:Ex; cbn; [lia|]. apply Nat.eqb_neq in Ex.
              apply (cf_only_needer U s t HC ND Ht); [lia|assumption|assumption|assumption].
           ++ unfold s1 at 1. cbn. rewrite (i_j3 _ _ HC). apply cnt_ext. intros; now rewrite Ho1.
           ++ reflexivity.
           ++ intros x. unfold s1. cbn. unfold upd. destruct (Nat.eqb x t); cbn; [reflexivity|apply Hnd].
        -- (* last acker, nobody wants the next period: defer *)
           inversion H; subst s' evs; clear H.
           match goal with |- Core _ ?x => set (s1 := x) end.
           assert (Ha1 : wa s1 t = mkAgent (acked (wa s t) + 1) true (pending (wa s t))) by (unfold s1; cbn; now rewrite upd_same).
           assert (Ho1 : onl s1 t = true) by (apply onl_true; rewrite Ha1; cbn; lia).
           assert (Hn1 : need s1 t = false) by (apply need_false; right; rewrite Ha1; unfold s1; cbn; lia).
           apply (core_upd U s s1 t HC ND Ht); [apply HC|reflexivity|..].
           ++ intros x Hx. unfold s1. cbn. now rewrite upd_other.
           ++ rewrite Ha1. cbn. lia.
           ++ rewrite Hneed, Hn1. unfold s1. cbn. rewrite (dec32_pos _ Htp). lia.
           ++ rewrite Hon, Ho1. unfold s1. cbn. lia.
           ++ rewrite Ha1. cbn. intros _. unfold s1. cbn. rewrite (dec32_pos _ Htp). lia.
           ++ intros x _ Hx. rewrite Hnd in Hx. discriminate.
           ++ intros _ _. exists t. rewrite Ha1. reflexivity.
      * (* not the last one *)
        inversion H; subst s' evs; clear H.
        match goal with |- Core _ ?x => set (s1 := x) end.
        assert (Ha1 : wa s1 t = mkAgent (acked (wa s t) + 1) false (pending (wa s t))) by (unfold s1; cbn; now rewrite upd_same).
        assert (Ho1 : onl s1 t = true) by (apply onl_true; rewrite Ha1; cbn; lia).
        assert (Hn1 : need s1 t = false) by (apply need_false; right; rewrite Ha1; unfold s1; cbn; lia).
        apply (core_upd U s s1 t HC ND Ht); [apply HC|reflexivity|..].
        -- intros x Hx. unfold s1. cbn. now rewrite upd_other.
        -- rewrite Ha1. cbn. lia.
        -- rewrite Hneed, Hn1. unfold s1. cbn. rewrite (dec32_pos _ Htp). lia.
        -- rewrite Hon, Ho1. unfold s1. cbn. lia.
        -- rewrite Ha1. cbn. discriminate.
        -- intros x _ Hx. rewrite Hnd in Hx. discriminate.
        -- unfold s1 at 1. cbn. rewrite (dec32_pos _ Htp). intros. lia.
    + inversion H; subst s' evs. apply core_enter_quiescent, HC.
Qed.

(* ---------------------------------------------------------------------------------------- *)
(* run(): the fired prefix                                                                    *)
(* ---------------------------------------------------------------------------------------- *)

Definition zeroed (tg : nid -> N) (pre : list nid) : nid -> N :=
  fun n => if existsb (Nat.eqb n) pre then 0 else tg n.

Lemma existsb_eqb_In n l : existsb (Nat.eqb n) l = true <-> In n l.
Proof.
  rewrite existsb_exists. split.
  - intros [x [Hx E]]. apply Nat.eqb_eq in E. now subst.
  - intros H. exists n. split; [assumption|apply Nat.eqb_refl].
Qed.

Lemma zeroed_in tg pre n : In n pre -> zeroed tg pre n = 0.
Proof. intros H. unfold zeroed. apply existsb_eqb_In in H. now rewrite H. Qed.
Lemma zeroed_out tg pre n : ~ In n pre -> zeroed tg pre n = tg n.
Proof.
  intros H. unfold zeroed. destruct (existsb (Nat.eqb n) pre) eqn:E; [|reflexivity].
  apply existsb_eqb_In in E. contradiction.
Qed.

Fixpoint fired_evs (t : tid) (pre : list nid) : list wev :=
  match pre with
  | [] => []
  | n :: r => WNode n :: fire_evs true n t ++ fired_evs t r
  end.

Lemma fire_spec c t : forall pend tg tg' p' evs,
  NoDup pend -> fire true c t tg pend = (tg', p', evs) ->
  exists pre, pend = pre ++ p' /\ (forall n, tg' n = zeroed tg pre n) /\
    (forall n, In n pre -> tg n <= c) /\
    (match p' with [] => evs = fired_evs t pre | m :: _ => c < tg m /\ evs = fired_evs t pre ++ [WNode m] end).
Proof.
  induction pend as [|n r IH]; intros tg tg' p' evs ND H; cbn [fire] in H.
  - inversion H; subst. exists []. repeat split; try reflexivity. intros n []. 
  - inversion ND as [|? ? Hn ND']; subst.
    destruct (c <? tg n) eqn:E.
    + inversion H; subst. exists []. cbn. repeat split; try reflexivity; [intros m []|lia].
    + destruct (fire true c t (upd tg n 0) r) as [[tg1 p1] e1] eqn:F. inversion H; subst; clear H.
      destruct (IH _ _ _ _ ND' F) as (pre & Hp & Htg & Hle & Hev).
      exists (n :: pre). split; [cbn; now rewrite Hp|]. split; [|split].
      * intros m. rewrite Htg. unfold zeroed. cbn [existsb]. destruct (Nat.eqb m n) eqn:Em; cbn.
        -- apply Nat.eqb_eq in Em. subst m. destruct (existsb (Nat.eqb n) pre); [reflexivity|apply upd_same].
        -- destruct (existsb (Nat.eqb m) pre); [reflexivity|]. apply upd_other. now apply Nat.eqb_neq.
      * intros m [->|Hm]; [lia|]. specialize (Hle m Hm).
        rewrite upd_other in Hle; [assumption|]. intros ->. apply Hn. rewrite Hp. apply in_or_app. now left.
      * destruct p' as [|m p'].
        -- cbn [fired_evs]. now rewrite Hev.
        -- destruct Hev as [Hlt Hev]. split.
           ++ rewrite upd_other in Hlt; [assumption|]. intros ->. apply Hn. rewrite Hp. apply in_or_app. right. now left.
           ++ cbn [fired_evs]. rewrite Hev. cbn. reflexivity.
Qed.

(* ---------------------------------------------------------------------------------------- *)
(* K (waiting sets) and P (pending lists)                                                     *)
(* ---------------------------------------------------------------------------------------- *)

Lemma k_frame s s' :
  Kinv s ->
  (forall n x, wwait s' n x = true -> wtarget s' n <> 0 ->
     wwait s n x = true /\ wtarget s n = wtarget s' n /\ acked (wa s' x) = acked (wa s x)) ->
  Kinv s'.
Proof.
  intros [K] H. constructor. intros n x Hw Htg. destruct (H n x Hw Htg) as (Hw0 & Ht0 & Ha).
  rewrite <- Ht0 in Htg |- *. destruct (K n x Hw0 Htg) as [Ho Hl].
  split; [|now rewrite Ha]. apply onl_true. rewrite Ha. now apply onl_true.
Qed.

Lemma p_frame s s' :
  Pinv s ->
  (forall t, pending (wa s' t) = pending (wa s t)) -> wtarget s' = wtarget s -> wowner s' = wowner s ->
  desired (wd s) <= desired (wd s') -> ctr (wd s) <= ctr (wd s') ->
  Pinv s'.
Proof.
  intros [P1 P2 P3 P4 P5] Hp Ht Ho Hd Hc. constructor.
  - intros t n. rewrite Hp, Ht, Ho. apply P1.
  - intros n. rewrite Ht, Ho. intros H. destruct (P2 n H) as [t Ht']. exists t. now rewrite Hp.
  - intros t. rewrite Hp. apply P3.
  - intros t. rewrite Hp, Ht. apply P4.
  - intros n. rewrite Ht. destruct (P5 n). split; lia.
Qed.

Lemma sorted_tg_ext tg tg' l : (forall n, In n l -> tg' n = tg n) -> sorted_tg tg l -> sorted_tg tg' l.
Proof.
  induction l as [|a l IH]; intros H S; [exact I|]. destruct S as [S1 S2]. split.
  - intros m Hm. rewrite (H a (or_introl eq_refl)), (H m (or_intror Hm)). now apply S1.
  - apply IH; [|assumption]. intros n Hn. apply H. now right.
Qed.

Lemma sorted_tg_snoc tg l n : sorted_tg tg l -> (forall m, In m l -> tg m <= tg n) -> sorted_tg tg (l ++ [n]).
Proof.
  induction l as [|a l IH]; intros S H; cbn.
  - split; [intros m []|exact I].
  - destruct S as [S1 S2]. split.
    + intros m Hm. apply in_app_or in Hm. destruct Hm as [Hm|[<-|[]]]; [now apply S1|apply H; now left].
    + apply IH; [assumption|]. intros m Hm. apply H. now right.
Qed.

Lemma sorted_tg_suffix tg pre l : sorted_tg tg (pre ++ l) -> sorted_tg tg l.
Proof. induction pre as [|a pre IH]; cbn; [auto|]. intros [_ S]. now apply IH. Qed.

Lemma NoDup_snoc (l : list nat) n : NoDup l -> ~ In n l -> NoDup (l ++ [n]).
Proof.
  induction l as [|a l IH]; intros ND Hn; cbn; [constructor; [intros []|constructor]|].
  inversion ND as [|? ? Ha ND']; subst. constructor.
  - intros Hin. apply in_app_or in Hin. destruct Hin as [Hin|[<-|[]]]; [contradiction|]. apply Hn. now left.
  - apply IH; [assumption|]. intros Hin. apply Hn. now right.
Qed.

Lemma p_await s t n :
  Pinv s -> wtarget s n = 0 ->
  Pinv (mkW (fst (raise_desired (wd s)))
            (upd (wa s) t (mkAgent (acked (wa s t)) (deferred (wa s t)) (pending (wa s t) ++ [n])))
            (upd (wtarget s) n (snd (raise_desired (wd s)))) (wheld s)
            (upd (wwait s) n (fun x => online_b (wa s x))) (wqbw s) (upd (wowner s) n (Some t))).
Proof.
  intros [P1 P2 P3 P4 P5] H0.
  assert (Hnot : forall t', ~ In n (pending (wa s t'))).
  { intros t' Hin. destruct (P1 t' n Hin). contradiction. }
  assert (Hpend : forall t' m, In m (pending (wa s t')) -> m <> n).
  { intros t' m Hm ->. apply (Hnot t' Hm). }
  constructor; cbn.
  - intros t' m Hin. unfold upd in Hin. destruct (Nat.eqb t' t) eqn:Et; cbn in Hin.
    + apply Nat.eqb_eq in Et. subst t'. apply in_app_or in Hin. destruct Hin as [Hin|[<-|[]]].
      * rewrite !upd_other by (apply (Hpend t m Hin)). apply (P1 t m Hin).
      * rewrite !upd_same. split; [lia|reflexivity].
    + rewrite !upd_other by (apply (Hpend t' m Hin)). apply (P1 t' m Hin).
  - intros m. unfold upd at 1 2. destruct (Nat.eqb m n) eqn:Em.
    + apply Nat.eqb_eq in Em. subst m. intros _. exists t. split; [reflexivity|]. rewrite upd_same. cbn.
      apply in_or_app. right. now left.
    + intros Hm. destruct (P2 m Hm) as [t' [Ho Hin]]. exists t'. split; [assumption|].
      unfold upd. destruct (Nat.eqb t' t) eqn:Et; cbn; [|assumption].
      apply Nat.eqb_eq in Et. subst t'. apply in_or_app. now left.
  - intros t'. unfold upd. destruct (Nat.eqb t' t) eqn:Et; cbn; [|apply P3].
    apply NoDup_snoc; [apply P3|apply Hnot].
  - intros t'. unfold upd at 2. destruct (Nat.eqb t' t) eqn:Et; cbn.
    + apply sorted_tg_snoc.
      * apply (sorted_tg_ext (wtarget s)); [|apply P4]. intros m Hm. apply upd_other, (Hpend t m Hm).
      * intros m Hm. rewrite upd_same, (upd_other _ _ _ _ (Hpend t m Hm)). destruct (P5 m). lia.
    + apply (sorted_tg_ext (wtarget s)); [|apply P4]. intros m Hm. apply upd_other, (Hpend t' m Hm).
  - intros m. unfold upd. destruct (Nat.eqb m n); [lia|]. destruct (P5 m). lia.
Qed.

Lemma NoDup_app_disj (pre l : list nat) n : NoDup (pre ++ l) -> In n pre -> In n l -> False.
Proof.
  induction pre as [|a pre IH]; cbn; intros ND Hp Hl; [destruct Hp|].
  inversion ND as [|? ? Ha ND']; subst. destruct Hp as [->|Hp].
  - apply Ha. apply in_or_app. now right.
  - now apply IH.
Qed.

Lemma NoDup_suffix (pre l : list nat) : NoDup (pre ++ l) -> NoDup l.
Proof. induction pre as [|a pre IH]; cbn; [auto|]. intros ND. inversion ND; subst. auto. Qed.

Lemma p_run s t pre p' :
  Pinv s -> pending (wa s t) = pre ++ p' ->
  Pinv (mkW (wd s) (upd (wa s) t (mkAgent (acked (wa s t)) (deferred (wa s t)) p'))
            (zeroed (wtarget s) pre) (wheld s) (wwait s) (wqbw s) (wowner s)).
Proof.
  intros [P1 P2 P3 P4 P5] Hp.
  assert (NDt : NoDup (pre ++ p')) by (rewrite <- Hp; apply P3).
  assert (Hpre : forall n, In n pre -> In n (pending (wa s t))) by (intros n Hn; rewrite Hp; apply in_or_app; now left).
  assert (Hother : forall t' n, t' <> t -> In n (pending (wa s t')) -> ~ In n pre).
  { intros t' n Ht' Hin Hn. destruct (P1 t' n Hin) as [_ O1]. destruct (P1 t n (Hpre n Hn)) as [_ O2]. congruence. }
  constructor; cbn.
  - intros t' n Hin. unfold upd in Hin. destruct (Nat.eqb t' t) eqn:Et; cbn in Hin.
    + apply Nat.eqb_eq in Et. subst t'. rewrite zeroed_out by (intros Hn; apply (NoDup_app_disj pre p' n NDt Hn Hin)).
      apply P1. rewrite Hp. apply in_or_app. now right.
    + apply Nat.eqb_neq in Et. rewrite zeroed_out by (apply (Hother t' n Et Hin)). now apply P1.
  - intros n Hn. destruct (existsb (Nat.eqb n) pre) eqn:E.
    + unfold zeroed in Hn. rewrite E in Hn. congruence.
    + unfold zeroed in Hn. rewrite E in Hn. destruct (P2 n Hn) as [t' [Ho Hin]]. exists t'. split; [assumption|].
      unfold upd. destruct (Nat.eqb t' t) eqn:Et; cbn; [|assumption].
      apply Nat.eqb_eq in Et. subst t'. rewrite Hp in Hin. apply in_app_or in Hin. destruct Hin as [Hin|Hin]; [|assumption].
      apply existsb_eqb_In in Hin. congruence.
  - intros t'. unfold upd. destruct (Nat.eqb t' t); cbn; [|apply P3]. now apply NoDup_suffix in NDt.
  - intros t'. unfold upd. destruct (Nat.eqb t' t) eqn:Et; cbn.
    + apply (sorted_tg_ext (wtarget s)).
      * intros n Hn. apply zeroed_out. intros Hn'. apply (NoDup_app_disj pre p' n NDt Hn' Hn).
      * apply (sorted_tg_suffix _ pre). rewrite <- Hp. apply P4.
    + apply Nat.eqb_neq in Et. apply (sorted_tg_ext (wtarget s)); [|apply P4].
      intros n Hn. apply zeroed_out. apply (Hother t' n Et Hn).
  - intros n. unfold zeroed. destruct (existsb (Nat.eqb n) pre); [lia|apply P5].
Qed.

(* ---------------------------------------------------------------------------------------- *)
(* every call preserves the invariant                                                         *)
(* ---------------------------------------------------------------------------------------- *)

Lemma wa_set_agent s t a x : wa (set_agent s t a) x = upd (wa s) t a x.
Proof. reflexivity. Qed.

Lemma qs_frame t s s' evs :
  wstep t CQsCall s = Ok (s', evs) ->
  (forall x, x <> t -> wa s' x = wa s x) /\ pending (wa s' t) = pending (wa s t) /\
  wtarget s' = wtarget s /\ wowner s' = wowner s /\
  wwait s' = (fun n x => if Nat.eqb x t then false else wwait s n x) /\
  wqbw s' = (fun b x => if Nat.eqb x t then false else wqbw s b x) /\
  desired (wd s') = desired (wd s) /\ ctr (wd s) <= ctr (wd s') /\ acked (wa s t) <> 0.
Proof.
  intros H. unfold wstep, w_step, w_qs in H.
  destruct (acked (wa s t) =? 0) eqn:E0; [discriminate|].
  cbn [enter_quiescent wa wd] in H.
  repeat match type of H with
  | context [if ?b then _ else _] => destruct b eqn:?; try discriminate
  end;
  unfold guarded in H; cbn [enter_quiescent wheld set_dom] in H;
  try (destruct (wheld s); cbn in H; try discriminate);
  inversion H; subst s' evs; cbn; repeat split; try reflexivity; try lia;
  try (intros x Hx; now rewrite upd_other); try (now rewrite upd_same).
Qed.

Lemma offline_frame t s s' evs :
  wstep t COffline s = Ok (s', evs) ->
  (forall x, x <> t -> wa s' x = wa s x) /\ pending (wa s' t) = pending (wa s t) /\
  wtarget s' = wtarget s /\ wowner s' = wowner s /\
  wwait s' = (fun n x => if Nat.eqb x t then false else wwait s n x) /\
  wqbw s' = (fun b x => if Nat.eqb x t then false else wqbw s b x) /\
  desired (wd s') = desired (wd s) /\ ctr (wd s) <= ctr (wd s') /\ acked (wa s t) <> 0.
Proof.
  intros H. unfold wstep, w_step, w_offline in H.
  destruct (acked (wa s t) =? 0) eqn:E0; [discriminate|].
  cbn [enter_quiescent wa wd] in H.
  destruct (deferred (wa s t)); [discriminate|].
  unfold guarded in H; cbn [enter_quiescent wheld set_dom wd] in H.
  destruct (wheld s); cbn in H; [discriminate|].
  repeat match type of H with
  | context [if ?b then _ else _] => destruct b eqn:?; cbn in H; try discriminate
  end.
  all: inversion H; subst s' evs; cbn; repeat split; try reflexivity; try lia;
    try (intros x Hx; now rewrite upd_other); try (now rewrite upd_same).
Qed.

Lemma online_frame t s s' evs :
  wstep t COnline s = Ok (s', evs) ->
  (forall x, x <> t -> wa s' x = wa s x) /\ pending (wa s' t) = pending (wa s t) /\
  wtarget s' = wtarget s /\ wowner s' = wowner s /\ wwait s' = wwait s /\ wqbw s' = wqbw s /\
  desired (wd s') = desired (wd s) /\ ctr (wd s) <= ctr (wd s') /\ acked (wa s t) = 0.
Proof.
  intros H. unfold wstep, w_step, w_online in H.
  destruct (negb (acked (wa s t) =? 0)) eqn:E0; [discriminate|].
  unfold guarded in H.
  repeat match type of H with
  | context [if ?b then _ else _] => destruct b eqn:?; cbn in H; try discriminate
  end;
  inversion H; subst s' evs; cbn; repeat split; try reflexivity; try lia;
  try (intros x Hx; now rewrite upd_other); try (now rewrite upd_same).
Qed.

Lemma pinv_tg_ext s tg' :
  Pinv s -> (forall n, tg' n = wtarget s n) ->
  Pinv (mkW (wd s) (wa s) tg' (wheld s) (wwait s) (wqbw s) (wowner s)).
Proof.
  intros [P1 P2 P3 P4 P5] E. constructor; cbn.
  - intros t n. rewrite E. apply P1.
  - intros n. rewrite E. apply P2.
  - apply P3.
  - intros t. apply (sorted_tg_ext (wtarget s)); [intros; apply E|apply P4].
  - intros n. rewrite E. apply P5.
Qed.

Lemma inv_qs U s t s' evs :
  NoDup U -> In t U -> Inv U s -> wstep t CQsCall s = Ok (s', evs) -> Inv U s'.
Proof.
  intros ND Ht (HC & HK & HP) H.
  destruct (qs_frame _ _ _ _ H) as (Hoth & Hpend & Htg & Hown & Hw & Hq & Hd & Hc & Hon).
  split; [apply (core_qs U s t s' evs HC ND Ht H)|]. split.
  - apply (k_frame s s' HK). intros n x Hwx Htx. rewrite Hw in Hwx.
    destruct (Nat.eqb x t) eqn:Ex; [discriminate|]. apply Nat.eqb_neq in Ex.
    rewrite Htg, (Hoth x Ex). auto.
  - apply (p_frame s s' HP); try assumption; try lia.
    intros t'. destruct (Nat.eq_dec t' t) as [->|Hn]; [assumption|now rewrite (Hoth t' Hn)].
Qed.

Lemma qb_loop_inv (P : wstate -> Prop) t target :
  (forall s s' e, P s -> wstep t CQsCall s = Ok (s', e) -> P s') ->
  forall fuel s acc s' evs, P s ->
    qb_loop [MLock] [MUnlock] fuel t target s acc = Ok (s', evs) -> P s' /\ target <= ctr (wd s').
Proof.
  intros Hstep. induction fuel as [|f IH]; intros s acc s' evs HP H; cbn [qb_loop] in H; [discriminate|].
  destruct (ctr (wd s) <? target) eqn:E.
  - fold (wstep t CQsCall s) in H. change (w_qs [MLock] [MUnlock] t s) with (wstep t CQsCall s) in H.
    destruct (wstep t CQsCall s) as [[s1 e1]| | | |] eqn:F; cbn [bind] in H; try discriminate.
    apply (IH _ _ _ _ (Hstep _ _ _ HP F) H).
  - inversion H; subst. split; [assumption|lia].
Qed.

Lemma step_inv U s t c s' evs :
  NoDup U -> few U -> In t U -> Inv U s -> wstep t c s = Ok (s', evs) -> Inv U s'.
Proof.
  intros ND HB Ht HI H. destruct c.
  - (* online *)
    destruct HI as (HC & HK & HP).
    destruct (online_frame _ _ _ _ H) as (Hoth & Hpend & Htg & Hown & Hw & Hq & Hd & Hc & Hoff).
    split; [apply (core_online U s t s' evs HC ND Ht HB H)|]. split.
    + constructor. intros n x Hwx Htx. rewrite Hw in Hwx. rewrite Htg in Htx |- *.
      destruct (i_k _ HK n x Hwx Htx) as [Ho Hl].
      destruct (Nat.eq_dec x t) as [->|Hn]; [apply onl_true in Ho; contradiction|].
      unfold onl. rewrite (Hoth x Hn). auto.
    + apply (p_frame s s' HP); try assumption; try lia.
      intros t'. destruct (Nat.eq_dec t' t) as [->|Hn]; [assumption|now rewrite (Hoth t' Hn)].
  - (* offline *)
    destruct HI as (HC & HK & HP).
    destruct (offline_frame _ _ _ _ H) as (Hoth & Hpend & Htg & Hown & Hw & Hq & Hd & Hc & Hon).
    split; [apply (core_offline U s t s' evs HC ND Ht H)|]. split.
    + apply (k_frame s s' HK). intros n x Hwx Htx. rewrite Hw in Hwx.
      destruct (Nat.eqb x t) eqn:Ex; [discriminate|]. apply Nat.eqb_neq in Ex.
      rewrite Htg, (Hoth x Ex). auto.
    + apply (p_frame s s' HP); try assumption; try lia.
      intros t'. destruct (Nat.eq_dec t' t) as [->|Hn]; [assumption|now rewrite (Hoth t' Hn)].
  - apply (inv_qs U s t s' evs ND Ht HI H).
  - (* await_barrier *)
    destruct HI as (HC & HK & HP).
    unfold wstep, w_step, w_await in H. cbn [raise_desired] in H.
    destruct (negb (wtarget s n =? 0)) eqn:E0; [discriminate|]. inversion H; subst s' evs; clear H.
    split; [|split].
    + apply (core_ext U s); try reflexivity; [assumption|apply HC|].
      intros x. cbn. unfold upd. destruct (Nat.eqb x t) eqn:Ex; [|split; reflexivity].
      apply Nat.eqb_eq in Ex. subst x. split; reflexivity.
    + constructor. cbn. intros m x.
      assert (Hacc : acked (upd (wa s) t (mkAgent (acked (wa s t)) (deferred (wa s t)) (pending (wa s t) ++ [n])) x) = acked (wa s x)).
      { unfold upd. destruct (Nat.eqb x t) eqn:Ex; [|reflexivity]. apply Nat.eqb_eq in Ex. now subst x. }
      destruct (Nat.eq_dec m n) as [->|Hmn].
      * rewrite !upd_same. intros Ho _. fold (onl s x) in Ho. split.
        -- apply onl_true. cbn. rewrite Hacc. now apply onl_true.
        -- rewrite Hacc. destruct (i_j1 _ _ HC x Ho); lia.
      * rewrite !(upd_other _ n _ m Hmn). intros Hwx Htx. destruct (i_k _ HK m x Hwx Htx) as [Ho Hl].
        split; [|now rewrite Hacc]. apply onl_true. cbn. rewrite Hacc. now apply onl_true.
    + apply (p_await s t n HP). lia.
  - (* run *)
    destruct HI as (HC & HK & HP).
    unfold wstep, w_step, w_run in H.
    destruct (fire true (ctr (wd s)) t (wtarget s) (pending (wa s t))) as [[tg' p'] e] eqn:F.
    inversion H; subst s' evs; clear H.
    destruct (fire_spec _ _ _ _ _ _ _ (i_p3 _ HP t) F) as (pre & Hp & Htg & Hle & Hev).
    split; [|split].
    + apply (core_ext U s); try reflexivity; [assumption|apply HC|].
      intros x. cbn. unfold upd. destruct (Nat.eqb x t) eqn:Ex; [|split; reflexivity].
      apply Nat.eqb_eq in Ex. subst x. split; reflexivity.
    + apply (k_frame s _ HK). cbn. intros n x Hwx Htx. split; [assumption|]. split.
      * rewrite Htg in Htx |- *. unfold zeroed in *. destruct (existsb (Nat.eqb n) pre); [congruence|reflexivity].
      * unfold upd. destruct (Nat.eqb x t) eqn:Ex; [|reflexivity]. apply Nat.eqb_eq in Ex. now subst x.
    + pose proof (p_run s t pre p' HP Hp) as Q.
      apply (pinv_tg_ext _ tg') in Q; [exact Q|]. intros n. cbn. apply Htg.
  - (* quiescent_barrier *)
    unfold wstep, w_step, w_qbarrier in H. cbn [raise_desired] in H.
    match type of H with qb_loop _ _ _ _ _ ?x _ = _ => set (s1 := x) in * end.
    assert (HI1 : Inv U s1).
    { destruct HI as (HC & HK & HP). split; [|split].
      - apply (core_ext U s); try reflexivity; [assumption|apply HC|intros; split; reflexivity].
      - apply (k_frame s s1 HK). cbn. auto.
      - apply (p_frame s s1 HP); try reflexivity; unfold s1; cbn; lia. }
    apply (qb_loop_inv (Inv U) t _ (fun a b e Ha Hs => inv_qs U a t b e ND Ht Ha Hs) _ _ _ _ _ HI1 H).
Qed.

(* ---------------------------------------------------------------------------------------- *)
(* reachable states                                                                           *)
(* ---------------------------------------------------------------------------------------- *)

Lemma inv_w0 U : Inv U w0.
Proof.
  assert (Z : forall p : nat -> bool, (forall x, p x = false) -> cnt p U = 0).
  { intros p Hp. induction U as [|a U' IH]; cbn; [reflexivity|]. rewrite Hp, IH. reflexivity. }
  split; [|split].
  - constructor.
    + reflexivity.
    + cbn. lia.
    + intros x H. discriminate.
    + intros x H. discriminate.
    + cbn. symmetry. apply Z. reflexivity.
    + cbn. symmetry. apply Z. reflexivity.
    + intros x H. discriminate.
    + intros x y H. discriminate.
    + cbn. intros _ H. lia.
  - constructor. cbn. intros n x H. discriminate.
  - constructor; cbn.
    + intros t n [].
    + intros n H. congruence.
    + intros t. constructor.
    + intros t. exact I.
    + intros n. lia.
Qed.

(* every call is made by an agent of U; a run stops at the first call that does not return *)
Inductive wreach (U : list tid) : wstate -> list wev -> Prop :=
| wr_init : wreach U w0 []
| wr_step s tr t c s' evs :
    wreach U s tr -> In t U -> wstep t c s = Ok (s', evs) -> wreach U s' (tr ++ evs).

Lemma wreach_inv U s tr : NoDup U -> few U -> wreach U s tr -> Inv U s.
Proof.
  intros ND HB H. induction H as [|s tr t c s' evs _ IH Ht Hs]; [apply inv_w0|].
  apply (step_inv U s t c s' evs ND HB Ht IH Hs).
Qed.

(* ---------------------------------------------------------------------------------------- *)
(* which events a call emits                                                                  *)
(* ---------------------------------------------------------------------------------------- *)

Definition neutral (e : wev) : Prop := match e with WMx _ | WQbRet _ => True | _ => False end.

Lemma qs_evs t s s' evs : wstep t CQsCall s = Ok (s', evs) -> Forall neutral evs.
Proof.
  intros H. unfold wstep, w_step, w_qs in H.
  destruct (acked (wa s t) =? 0); [discriminate|]. cbn [enter_quiescent wa wd] in H.
  unfold guarded in H; cbn [enter_quiescent wheld set_dom wd] in H.
  destruct (wheld s); cbn in H;
  repeat match type of H with
  | context [if ?b then _ else _] => destruct b eqn:?; cbn in H; try discriminate
  end.
  all: inversion H; subst; repeat constructor.
Qed.

Lemma qb_loop_evs t target : forall fuel s acc s' evs,
  Forall neutral acc -> qb_loop [MLock] [MUnlock] fuel t target s acc = Ok (s', evs) -> Forall neutral evs.
Proof.
  induction fuel as [|f IH]; intros s acc s' evs Ha H; cbn [qb_loop] in H; [discriminate|].
  destruct (ctr (wd s) <? target).
  - change (w_qs [MLock] [MUnlock] t s) with (wstep t CQsCall s) in H.
    destruct (wstep t CQsCall s) as [[s1 e1]| | | |] eqn:F; cbn [bind] in H; try discriminate.
    apply (IH _ _ _ _ (proj2 (Forall_app _ _ _) (conj Ha (qs_evs _ _ _ _ F))) H).
  - inversion H; subst. apply Forall_app. split; [assumption|repeat constructor].
Qed.

Lemma step_evs t c s s' evs :
  wstep t c s = Ok (s', evs) ->
  match c with
  | CRun => True
  | CAwait n => evs = [WReg n t; WNode n; WNode n; WNode n]
  | _ => Forall neutral evs
  end.
Proof.
  intros H. destruct c.
  - unfold wstep, w_step, w_online in H. destruct (negb (acked (wa s t) =? 0)); [discriminate|].
    unfold guarded in H. destruct (wheld s); cbn in H;
    repeat match type of H with
    | context [if ?b then _ else _] => destruct b eqn:?; cbn in H; try discriminate
    end.
    all: inversion H; subst; repeat constructor.
  - unfold wstep, w_step, w_offline in H. destruct (acked (wa s t) =? 0); [discriminate|].
    cbn [enter_quiescent wa wd] in H. destruct (deferred (wa s t)); [discriminate|].
    unfold guarded in H; cbn [enter_quiescent wheld set_dom wd] in H.
    destruct (wheld s); cbn in H;
    repeat match type of H with
    | context [if ?b then _ else _] => destruct b eqn:?; cbn in H; try discriminate
    end.
    all: inversion H; subst; repeat constructor.
  - apply (qs_evs _ _ _ _ H).
  - unfold wstep, w_step, w_await in H. cbn [raise_desired] in H.
    destruct (negb (wtarget s n =? 0)); [discriminate|]. now inversion H.
  - exact I.
  - unfold wstep, w_step, w_qbarrier in H. cbn [raise_desired] in H.
    apply (qb_loop_evs _ _ _ _ _ _ _ (Forall_nil _) H).
Qed.

(* ---------------------------------------------------------------------------------------- *)
(* grace period (whole-operation granularity)                                                 *)
(* ---------------------------------------------------------------------------------------- *)

Lemma in_fired_evs t pre n t' : In (WCb n t') (fired_evs t pre) -> In n pre /\ t' = t.
Proof.
  induction pre as [|m pre IH]; cbn; [intros []|].
  intros [H|[H|[H|[H|[H|H]]]]]; try discriminate.
  - inversion H; subst. split; [now left|reflexivity].
  - destruct (IH H). split; [now right|assumption].
Qed.

Theorem wo_callback_in_run U s t c s' evs n t' :
  Inv U s -> wstep t c s = Ok (s', evs) -> In (WCb n t') evs ->
  c = CRun /\ t' = t /\ In n (pending (wa s t)) /\ wowner s n = Some t /\
  wtarget s n <> 0 /\ wtarget s n <= ctr (wd s).
Proof.
  intros (HC & HK & HP) H Hin. pose proof (step_evs _ _ _ _ _ H) as E. destruct c.
  1-3,6: rewrite Forall_forall in E; destruct (E _ Hin).
  - subst evs. destruct Hin as [F|[F|[F|[F|[]]]]]; discriminate.
  - clear E. unfold wstep, w_step, w_run in H.
    destruct (fire true (ctr (wd s)) t (wtarget s) (pending (wa s t))) as [[tg' p'] e] eqn:F.
    inversion H; subst s' evs; clear H.
    destruct (fire_spec _ _ _ _ _ _ _ (i_p3 _ HP t) F) as (pre & Hp & Htg & Hle & Hev).
    assert (Hin' : In (WCb n t') (fired_evs t pre)).
    { destruct p' as [|m p']; [now subst e|]. destruct Hev as [_ ->]. apply in_app_or in Hin.
      destruct Hin as [Hin|[Hin|[]]]; [assumption|discriminate]. }
    destruct (in_fired_evs _ _ _ _ Hin') as [Hpre ->].
    assert (Hpend : In n (pending (wa s t))) by (rewrite Hp; apply in_or_app; now left).
    destruct (i_p1 _ HP t n Hpend). repeat split; auto.
Qed.

Theorem wo_grace_period U s t c s' evs n t' :
  Inv U s -> wstep t c s = Ok (s', evs) -> In (WCb n t') evs ->
  forall x, wwait s n x = false.
Proof.
  intros HI H Hin x. destruct (wo_callback_in_run U s t c s' evs n t' HI H Hin) as (_ & _ & _ & _ & Hnz & Hle).
  destruct HI as (HC & HK & HP).
  destruct (wwait s n x) eqn:E; [|reflexivity].
  destruct (i_k _ HK n x E Hnz) as [Ho Hl]. destruct (i_j1 _ _ HC x Ho); lia.
Qed.

(* quiescent_barrier returns only when its own waiting set is empty *)
Theorem wo_qbarrier_grace U s t s' evs :
  NoDup U -> In t U -> Inv U s -> wstep t CQBarrier s = Ok (s', evs) -> forall x, wqbw s' t x = false.
Proof.
  intros ND Ht HI H. unfold wstep, w_step, w_qbarrier in H. cbn [raise_desired] in H.
  match type of H with qb_loop _ _ _ _ ?tg ?x _ = _ => set (s1 := x) in *; set (target := tg) in * end.
  set (Q := fun s0 : wstate => Inv U s0 /\
      forall x, wqbw s0 t x = true -> onl s0 x = true /\ acked (wa s0 x) + 2 <= target).
  assert (Q1 : Q s1).
  { split.
    - destruct HI as (HC & HK & HP). split; [|split].
      + apply (core_ext U s); try reflexivity; [assumption|apply HC|intros; split; reflexivity].
      + apply (k_frame s s1 HK). cbn. auto.
      + apply (p_frame s s1 HP); try reflexivity; unfold s1; cbn; lia.
    - intros x. unfold s1. cbn. rewrite upd_same. intros Ho. fold (onl s x) in Ho. split; [assumption|].
      destruct HI as (HC & _). unfold target. destruct (i_j1 _ _ HC x Ho); lia. }
  assert (Qstep : forall a b e, Q a -> wstep t CQsCall a = Ok (b, e) -> Q b).
  { intros a b e [Ia Wa] Hs. split; [apply (inv_qs U a t b e ND Ht Ia Hs)|].
    destruct (qs_frame _ _ _ _ Hs) as (Hoth & _ & _ & _ & _ & Hq & _ & _ & _).
    intros x. rewrite Hq. destruct (Nat.eqb x t) eqn:Ex; [discriminate|]. apply Nat.eqb_neq in Ex.
    intros Hw. destruct (Wa x Hw) as [Ho Hl]. unfold onl. rewrite (Hoth x Ex). auto. }
  destruct (qb_loop_inv Q t target Qstep _ _ _ _ _ Q1 H) as [[(HC' & _) W'] Hge].
  intros x. destruct (wqbw s' t x) eqn:E; [|reflexivity].
  destruct (W' x E) as [Ho Hl]. destruct (i_j1 _ _ HC' x Ho); lia.
Qed.

(* ---------------------------------------------------------------------------------------- *)
(* the trace: callbacks once, by the owner; node untouched after its callback started         *)
(* ---------------------------------------------------------------------------------------- *)

Lemma node_run_app n : forall a st b,
  node_run n st (a ++ b) = match node_run n st a with Some st' => node_run n st' b | None => None end.
Proof.
  induction a as [|e a IH]; intros st b; [reflexivity|]. cbn [app node_run].
  destruct e; try apply IH.
  - destruct (Nat.eqb n0 n); [destruct st; [reflexivity|apply IH]|apply IH].
  - destruct (Nat.eqb n0 n); [destruct st; [apply IH|reflexivity]|apply IH].
  - destruct (Nat.eqb n0 n); [|apply IH]. destruct st as [t'|]; [|reflexivity].
    destruct (Nat.eqb t t'); [apply IH|reflexivity].
Qed.

Lemma node_run_neutral n st evs : Forall neutral evs -> node_run n st evs = Some st.
Proof.
  induction 1 as [|e evs He _ IH]; [reflexivity|]. destruct e; cbn in He; try contradiction; exact IH.
Qed.

(* what the state knows about node n *)
Definition reg_of (s : wstate) (n : nid) : option tid := if wtarget s n =? 0 then None else wowner s n.

Lemma node_run_fired n t : forall pre st,
  NoDup pre ->
  node_run n st (fired_evs t pre) =
  if existsb (Nat.eqb n) pre then (match st with Some t' => if Nat.eqb t t' then Some None else None | None => None end)
  else Some st.
Proof.
  induction pre as [|m pre IH]; intros st ND; [reflexivity|].
  inversion ND as [|? ? Hm ND']; subst.
  cbn [fired_evs fire_evs app node_run existsb].
  destruct (Nat.eqb m n) eqn:E.
  - apply Nat.eqb_eq in E. subst m. rewrite Nat.eqb_refl. cbn [orb].
    destruct st as [t'|]; [|reflexivity]. destruct (Nat.eqb t t'); [|reflexivity].
    rewrite (IH None ND'). destruct (existsb (Nat.eqb n) pre) eqn:F; [|reflexivity].
    apply existsb_eqb_In in F. contradiction.
  - rewrite Nat.eqb_sym, E. cbn [orb]. apply (IH st ND').
Qed.

Definition Tinv (s : wstate) (tr : list wev) : Prop := forall n, node_run n None tr = Some (reg_of s n).

Lemma reg_of_frame s s' : wtarget s' = wtarget s -> wowner s' = wowner s -> forall n, reg_of s' n = reg_of s n.
Proof. intros H1 H2 n. unfold reg_of. now rewrite H1, H2. Qed.

Lemma step_tinv U s tr t c s' evs :
  Inv U s -> Tinv s tr -> wstep t c s = Ok (s', evs) -> Tinv s' (tr ++ evs).
Proof.
  intros (HC & HK & HP) HT H n. rewrite node_run_app, (HT n).
  pose proof (step_evs _ _ _ _ _ H) as E. destruct c.
  - rewrite (node_run_neutral _ _ _ E). f_equal. symmetry.
    destruct (online_frame _ _ _ _ H) as (_ & _ & Htg & Hown & _). now apply reg_of_frame.
  - rewrite (node_run_neutral _ _ _ E). f_equal. symmetry.
    destruct (offline_frame _ _ _ _ H) as (_ & _ & Htg & Hown & _). now apply reg_of_frame.
  - rewrite (node_run_neutral _ _ _ E). f_equal. symmetry.
    destruct (qs_frame _ _ _ _ H) as (_ & _ & Htg & Hown & _). now apply reg_of_frame.
  - subst evs. unfold wstep, w_step, w_await in H. cbn [raise_desired] in H.
    destruct (negb (wtarget s n0 =? 0)) eqn:E0; [discriminate|]. inversion H; subst s'; clear H.
    unfold reg_of. cbn [wtarget wowner node_run].
    destruct (Nat.eqb n0 n) eqn:En.
    + apply Nat.eqb_eq in En. subst n0. rewrite !upd_same.
      destruct (wtarget s n =? 0) eqn:Z; [|discriminate]. cbn.
      destruct (ctr (wd s) + 2 =? 0) eqn:Z2; [lia|reflexivity].
    + apply Nat.eqb_neq in En. rewrite !upd_other by (intros ->; now apply En). reflexivity.
  - clear E. unfold wstep, w_step, w_run in H.
    destruct (fire true (ctr (wd s)) t (wtarget s) (pending (wa s t))) as [[tg' p'] e] eqn:F.
    inversion H; subst s' evs; clear H.
    destruct (fire_spec _ _ _ _ _ _ _ (i_p3 _ HP t) F) as (pre & Hp & Htg & Hle & Hev).
    assert (NDt : NoDup (pre ++ p')) by (rewrite <- Hp; apply (i_p3 _ HP)).
    assert (NDpre : NoDup pre).
    { clear - NDt. induction pre as [|a pre IH]; [constructor|]. cbn in NDt. inversion NDt; subst.
      constructor; [|auto]. intros Hin. apply H1. apply in_or_app. now left. }
    assert (Hfired : node_run n (reg_of s n) (fired_evs t pre) = Some (if tg' n =? 0 then None else wowner s n)).
    { rewrite (node_run_fired n t pre _ NDpre), Htg. unfold zeroed.
      destruct (existsb (Nat.eqb n) pre) eqn:Ex; [|reflexivity].
      apply existsb_eqb_In in Ex.
      assert (Hpend : In n (pending (wa s t))) by (rewrite Hp; apply in_or_app; now left).
      destruct (i_p1 _ HP t n Hpend) as [Hnz Hown]. unfold reg_of.
      destruct (wtarget s n =? 0) eqn:Z; [lia|]. rewrite Hown, Nat.eqb_refl. reflexivity. }
    unfold reg_of at 2. cbn [wtarget wowner].
    destruct p' as [|m p'].
    + subst e. exact Hfired.
    + destruct Hev as [Hlt ->]. rewrite node_run_app, Hfired. cbn [node_run].
      destruct (Nat.eqb m n) eqn:Em; [|reflexivity]. apply Nat.eqb_eq in Em. subst m.
      rewrite Htg, zeroed_out.
      * assert (Hpend : In n (pending (wa s t))) by (rewrite Hp; apply in_or_app; right; now left).
        destruct (i_p1 _ HP t n Hpend) as [Hnz Hown]. destruct (wtarget s n =? 0) eqn:Z; [lia|]. now rewrite Hown.
      * intros Hin. apply (NoDup_app_disj pre (n :: p') n NDt Hin). now left.
  - rewrite (node_run_neutral _ _ _ E). f_equal. symmetry.
    unfold wstep, w_step, w_qbarrier in H. cbn [raise_desired] in H.
    match type of H with qb_loop _ _ _ _ ?tg ?x _ = _ => set (s1 := x) in * end.
    set (Q := fun s0 : wstate => wtarget s0 = wtarget s /\ wowner s0 = wowner s).
    assert (Qstep : forall a b e, Q a -> wstep t CQsCall a = Ok (b, e) -> Q b).
    { intros a b e0 [Q1 Q2] Hs. destruct (qs_frame _ _ _ _ Hs) as (_ & _ & Htg & Hown & _). split; congruence. }
    destruct (qb_loop_inv Q t _ Qstep _ s1 _ _ _ (conj eq_refl eq_refl) H) as [[Q1 Q2] _].
    now apply reg_of_frame.
Qed.

Theorem wo_trace_ok U s tr : NoDup U -> few U -> wreach U s tr -> Tinv s tr.
Proof.
  intros ND HB H. induction H as [|s tr t c s' evs Hr IH Ht Hs].
  - intros n. reflexivity.
  - apply (step_tinv U s tr t c s' evs (wreach_inv U s tr ND HB Hr) IH Hs).
Qed.

(* readable consequences of [trace_ok] *)
Definition clean (n : nid) (l : list wev) : Prop :=
  forall t, ~ In (WReg n t) l /\ ~ In (WCb n t) l.

Lemma node_run_unreg n : forall b,
  (forall t, ~ In (WReg n t) b) -> node_run n None b = Some None \/ node_run n None b = None.
Proof.
  induction b as [|e b IH]; intros H; [now left|].
  assert (H' : forall t, ~ In (WReg n t) b) by (intros t Hin; apply (H t); now right).
  destruct e; cbn [node_run]; try (apply IH; assumption).
  - destruct (Nat.eqb n0 n) eqn:E; [|apply IH; assumption]. apply Nat.eqb_eq in E. subst n0.
    exfalso. apply (H t). now left.
  - destruct (Nat.eqb n0 n); [now right|apply IH; assumption].
  - destruct (Nat.eqb n0 n); [now right|apply IH; assumption].
Qed.

Lemma classic_reg n : forall b, (exists t', In (WReg n t') b) \/ (forall t, ~ In (WReg n t) b).
Proof.
  induction b as [|e b [[t' H]|H]].
  - right. intros t [].
  - left. exists t'. now right.
  - destruct e as [c|m t0|m|m t0|t0];
      try (right; intros t [F|F]; [discriminate|apply (H t F)]).
    destruct (Nat.eq_dec m n) as [->|Hn].
    + left. exists t0. now left.
    + right. intros t [F|F]; [inversion F; congruence|apply (H t F)].
Qed.

Lemma trace_after_callback tr a n t b e c :
  trace_ok tr -> tr = a ++ WCb n t :: b ++ e :: c ->
  (e = WNode n \/ exists t2, e = WCb n t2) -> exists t', In (WReg n t') b.
Proof.
  intros Hok -> He.
  destruct (classic_reg n b) as [Hex|Hno]; [assumption|]. exfalso. apply (Hok n).
  rewrite node_run_app. destruct (node_run n None a) as [st|]; [|reflexivity].
  cbn [node_run]. rewrite Nat.eqb_refl. destruct st as [t'|]; [|reflexivity].
  destruct (Nat.eqb t t'); [|reflexivity]. rewrite node_run_app.
  destruct (node_run_unreg n b Hno) as [-> | ->]; [|reflexivity].
  destruct He as [->|[t2 ->]]; cbn [node_run]; now rewrite Nat.eqb_refl.
Qed.

Lemma node_run_registered n t : forall a st,
  node_run n st a = Some (Some t) ->
  (st = Some t /\ clean n a) \/ (exists a1 a2, a = a1 ++ WReg n t :: a2 /\ clean n a2).
Proof.
  induction a as [|e a IH]; intros st H.
  - left. inversion H. split; [reflexivity|]. intros t0. split; intros [].
  - assert (Hext : forall st', node_run n st' a = Some (Some t) ->
        (forall t0, e <> WReg n t0 /\ e <> WCb n t0) -> st' = st ->
        (st = Some t /\ clean n (e :: a)) \/ (exists a1 a2, e :: a = a1 ++ WReg n t :: a2 /\ clean n a2)).
    { intros st' H' Hne <-. destruct (IH st' H') as [[E C]|(a1 & a2 & -> & C)].
      - left. split; [assumption|]. intros t0. destruct (C t0) as [C1 C2]. destruct (Hne t0) as [N1 N2].
        split; intros [F|F]; try contradiction; congruence.
      - right. exists (e :: a1), a2. split; [reflexivity|assumption]. }
    destruct e as [c|m t0|m|m t0|t0]; cbn [node_run] in H.
    + apply (Hext st H); [intros; split; discriminate|reflexivity].
    + destruct (Nat.eqb m n) eqn:E.
      * apply Nat.eqb_eq in E. subst m. destruct st; [discriminate|].
        destruct (IH (Some t0) H) as [[E C]|(a1 & a2 & -> & C)].
        -- inversion E; subst t0. right. exists [], a. split; [reflexivity|assumption].
        -- right. exists (WReg n t0 :: a1), a2. split; [reflexivity|assumption].
      * apply Nat.eqb_neq in E. apply (Hext st H); [|reflexivity].
        intros t1. split; intros F; inversion F; congruence.
    + destruct (Nat.eqb m n); [destruct st; [|discriminate]|];
        (apply (Hext _ H); [intros; split; discriminate|reflexivity]).
    + destruct (Nat.eqb m n) eqn:E.
      * apply Nat.eqb_eq in E. subst m. destruct st as [t'|]; [|discriminate].
        destruct (Nat.eqb t0 t'); [|discriminate].
        destruct (IH None H) as [[E C]|(a1 & a2 & -> & C)]; [discriminate|].
        right. exists (WCb n t0 :: a1), a2. split; [reflexivity|assumption].
      * apply Nat.eqb_neq in E. apply (Hext st H); [|reflexivity].
        intros t1. split; intros F; inversion F; congruence.
    + apply (Hext st H); [intros; split; discriminate|reflexivity].
Qed.

(* a callback is preceded by a registration of the same node by the same agent, with no other
   callback or registration of that node in between *)
Lemma trace_callback_registered tr a n t c :
  trace_ok tr -> tr = a ++ WCb n t :: c ->
  exists a1 a2, a = a1 ++ WReg n t :: a2 /\ clean n a2.
Proof.
  intros Hok ->. specialize (Hok n). rewrite node_run_app in Hok.
  destruct (node_run n None a) as [st|] eqn:E; [|congruence].
  cbn [node_run] in Hok. rewrite Nat.eqb_refl in Hok.
  destruct st as [t'|]; [|congruence]. destruct (Nat.eqb t t') eqn:Et; [|congruence].
  apply Nat.eqb_eq in Et. subst t'.
  destruct (node_run_registered n t a None E) as [[F _]|H]; [discriminate|exact H].
Qed.

(* ---------------------------------------------------------------------------------------- *)
(* every call returns (no deadlock at whole-operation granularity); assertion stops are       *)
(* exactly the violated preconditions (+ D07)                                                 *)
(* ---------------------------------------------------------------------------------------- *)

Definition precondition_violated (s : wstate) (t : tid) (c : call) : Prop :=
  match c with
  | COnline => onl s t = true
  | COffline => onl s t = false \/ deferred (wa s t) = true        (* the second disjunct is D07 *)
  | CQsCall => onl s t = false
  | CAwait n => wtarget s n <> 0
  | CRun => False
  | CQBarrier => onl s t = false
  end.

Lemma qs_outcome U s t :
  Core U s -> NoDup U -> In t U -> onl s t = true ->
  exists s' evs, wstep t CQsCall s = Ok (s', evs) /\ onl s' t = true.
Proof.
  intros HC ND Ht Hon. unfold wstep, w_step, w_qs.
  assert (Ha : acked (wa s t) <> 0) by now apply onl_true.
  destruct (acked (wa s t) =? 0) eqn:E0; [lia|].
  cbn [enter_quiescent wa wd].
  destruct (deferred (wa s t)) eqn:Ed.
  - destruct (i_j4 _ _ HC t Ed) as (_ & Hac & _).
    destruct (negb (acked (wa s t) =? ctr (wd s))) eqn:E1; [lia|].
    destruct (acked (wa s t) <? desired (wd s)).
    + rewrite guarded_free by (cbn; apply HC). cbn. eexists _, _. split; [reflexivity|].
      unfold onl. cbn. rewrite upd_same. unfold online_b. cbn. now rewrite E0.
    + eexists _, _. split; [reflexivity|]. exact Hon.
  - destruct (negb (acked (wa s t) =? ctr (wd s))) eqn:E1.
    + destruct (i_j1 _ _ HC t Hon) as [F|F]; [lia|].
      destruct (negb (acked (wa s t) + 1 =? ctr (wd s))) eqn:E2; [lia|].
      assert (Ho' : forall b p, online_b (mkAgent (acked (wa s t) + 1) b p) = true).
      { intros. unfold online_b. cbn. destruct (acked (wa s t) + 1 =? 0) eqn:Z; [lia|reflexivity]. }
      destruct (toack (wd s) =? 1).
      * destruct (ctr (wd s) <? desired (wd s)).
        -- rewrite guarded_free by (cbn; apply HC). cbn. eexists _, _. split; [reflexivity|].
           unfold onl. cbn. rewrite upd_same. now apply Ho'.
        -- eexists _, _. split; [reflexivity|]. unfold onl. cbn. rewrite upd_same. now apply Ho'.
      * eexists _, _. split; [reflexivity|]. unfold onl. cbn. rewrite upd_same. now apply Ho'.
    + eexists _, _. split; [reflexivity|]. exact Hon.
Qed.

Lemma qb_loop_outcome U t target : NoDup U -> In t U -> forall fuel s acc,
  Inv U s -> onl s t = true ->
  (exists s' evs, qb_loop [MLock] [MUnlock] fuel t target s acc = Ok (s', evs)) \/
  qb_loop [MLock] [MUnlock] fuel t target s acc = OutOfFuel.
Proof.
  intros ND Ht. induction fuel as [|f IH]; intros s acc HI Hon; cbn [qb_loop]; [now right|].
  destruct (ctr (wd s) <? target); [|left; eauto].
  change (w_qs [MLock] [MUnlock] t s) with (wstep t CQsCall s).
  destruct (qs_outcome U s t (proj1 HI) ND Ht Hon) as (s1 & e1 & Hs & Hon1). rewrite Hs. cbn [bind fst snd].
  apply IH; [apply (inv_qs U s t s1 e1 ND Ht HI Hs)|assumption].
Qed.

Definition benign {A} (o : outcome A) : Prop :=
  match o with Ok _ | AssertStop _ => True | _ => False end.

Lemma qs_benign t s : wheld s = false -> benign (wstep t CQsCall s).
Proof.
  intros Hh. unfold wstep, w_step, w_qs.
  destruct (acked (wa s t) =? 0); [exact I|]. cbn [enter_quiescent wa wd].
  repeat match goal with
  | |- context [guarded _ _ ?x _] => rewrite (guarded_free x) by (cbn; exact Hh); cbn [bind]
  | |- context [if ?b then _ else _] => destruct b eqn:?
  end; exact I.
Qed.

Lemma qb_loop_benign U t target : NoDup U -> In t U -> forall fuel s acc,
  Inv U s ->
  match qb_loop [MLock] [MUnlock] fuel t target s acc with
  | Blocked | UB _ => False | _ => True end.
Proof.
  intros ND Ht. induction fuel as [|f IH]; intros s acc HI; cbn [qb_loop]; [exact I|].
  destruct (ctr (wd s) <? target); [|exact I].
  change (w_qs [MLock] [MUnlock] t s) with (wstep t CQsCall s).
  pose proof (qs_benign t s (i_held _ _ (proj1 HI))) as B.
  destruct (wstep t CQsCall s) as [[s1 e1]|l| |w|] eqn:Hs; cbn [bind]; try exact I; try contradiction.
  apply IH. apply (inv_qs U s t s1 e1 ND Ht HI Hs).
Qed.

Lemma step_benign U s t c :
  NoDup U -> In t U -> Inv U s ->
  match wstep t c s with
  | Blocked | UB _ => False
  | OutOfFuel => c = CQBarrier
  | _ => True end.
Proof.
  intros ND Ht HI. pose proof (i_held _ _ (proj1 HI)) as Hh. destruct c.
  - unfold wstep, w_step, w_online. destruct (negb (acked (wa s t) =? 0)); [exact I|].
    rewrite guarded_free by exact Hh.
    repeat match goal with
    | |- context [if ?b then _ else _] => destruct b eqn:?; cbn [bind]
    end; exact I.
  - unfold wstep, w_step, w_offline. destruct (acked (wa s t) =? 0); [exact I|].
    cbn [enter_quiescent wa wd]. destruct (deferred (wa s t)); [exact I|].
    rewrite guarded_free by (cbn; exact Hh).
    repeat match goal with
    | |- context [if ?b then _ else _] => destruct b eqn:?; cbn [bind]
    end; exact I.
  - pose proof (qs_benign t s Hh) as B. destruct (wstep t CQsCall s); try exact I; contradiction.
  - unfold wstep, w_step, w_await. cbn [raise_desired]. destruct (negb (wtarget s n =? 0)); exact I.
  - unfold wstep, w_step, w_run. destruct (fire true (ctr (wd s)) t (wtarget s) (pending (wa s t))) as [[? ?] ?]. exact I.
  - unfold wstep, w_step, w_qbarrier. cbn [raise_desired].
    match goal with |- context [qb_loop _ _ _ _ ?tg ?x _] => set (s1 := x) end.
    assert (HI1 : Inv U s1).
    { destruct HI as (HC & HK & HP). split; [|split].
      - apply (core_ext U s); try reflexivity; [assumption|apply HC|intros; split; reflexivity].
      - apply (k_frame s s1 HK). cbn. auto.
      - apply (p_frame s s1 HP); try reflexivity; unfold s1; cbn; lia. }
    pose proof (qb_loop_benign U t (ctr (wd s) + 2) ND Ht qb_fuel s1 [] HI1) as B.
    destruct (qb_loop [MLock] [MUnlock] qb_fuel t (ctr (wd s) + 2) s1 []); try exact I; try contradiction. reflexivity.
Qed.

Theorem wo_outcomes U s t c :
  NoDup U -> few U -> In t U -> Inv U s ->
  match wstep t c s with
  | Ok (s', _) => wheld s' = false
  | AssertStop _ => precondition_violated s t c
  | Blocked => False
  | UB _ => False
  | OutOfFuel => c = CQBarrier
  end.
Proof.
  intros ND HB Ht HI.
  destruct (wstep t c s) as [[s' evs]|l| |w|] eqn:H.
  - apply (step_inv U s t c s' evs ND HB Ht HI H).
  - destruct HI as (HC & HK & HP). destruct c; unfold wstep, w_step in H.
    + unfold w_online in H. destruct (negb (acked (wa s t) =? 0)) eqn:E0.
      * cbn. apply onl_true. lia.
      * exfalso. rewrite guarded_free in H by apply HC.
        assert (Hoff : onl s t = false) by (apply onl_false; lia).
        pose proof (cf_nagents_room U s t HC ND Ht Hoff) as Hroom.
        assert (Hinc : inc32 (nagents (wd s)) = nagents (wd s) + 1).
        { unfold inc32, few in *. destruct (nagents (wd s) =? 4294967295) eqn:E; [lia|reflexivity]. }
        rewrite Hinc in H. pose proof (cf_toack_le U s HC).
        destruct (nagents (wd s) + 1 =? 1) eqn:E1; [|cbn in H; discriminate].
        destruct (negb (toack (wd s) =? 0)) eqn:E2; [lia|cbn in H; discriminate].
    + unfold w_offline in H. destruct (acked (wa s t) =? 0) eqn:E0.
      * cbn. left. apply onl_false. lia.
      * cbn [enter_quiescent wa wd] in H. destruct (deferred (wa s t)) eqn:Ed; [cbn; now right|].
        exfalso. rewrite guarded_free in H by (cbn; apply HC). cbn [enter_quiescent wd wa] in H.
        assert (Hon : onl s t = true) by (apply onl_true; lia).
        destruct (negb (acked (wa s t) =? ctr (wd s))) eqn:E1; [|cbn in H; discriminate].
        destruct (i_j1 _ _ HC t Hon) as [F|F]; [lia|].
        destruct (negb (acked (wa s t) + 1 =? ctr (wd s))) eqn:E2; [lia|].
        destruct (toack (wd s) =? 1); cbn in H; discriminate.
    + cbn. destruct (onl s t) eqn:Hon; [|reflexivity]. exfalso.
      destruct (qs_outcome U s t HC ND Ht Hon) as (s1 & e1 & Hs & _). unfold wstep, w_step in Hs. congruence.
    + unfold w_await in H. cbn [raise_desired] in H.
      destruct (negb (wtarget s n =? 0)) eqn:E0; [cbn; lia|discriminate].
    + unfold w_run in H. destruct (fire true (ctr (wd s)) t (wtarget s) (pending (wa s t))) as [[? ?] ?]. discriminate.
    + cbn. destruct (onl s t) eqn:Hon; [|reflexivity]. exfalso.
      unfold w_qbarrier in H. cbn [raise_desired] in H.
      match type of H with qb_loop _ _ _ _ ?tg ?x _ = _ => set (s1 := x) in * end.
      assert (HI1 : Inv U s1).
      { split; [|split].
        - apply (core_ext U s); try reflexivity; [assumption|apply HC|intros; split; reflexivity].
        - apply (k_frame s s1 HK). cbn. auto.
        - apply (p_frame s s1 HP); try reflexivity; unfold s1; cbn; lia. }
      destruct (qb_loop_outcome U t (ctr (wd s) + 2) ND Ht qb_fuel s1 [] HI1 Hon) as [(s2 & e2 & F)|F]; congruence.
  - pose proof (step_benign U s t c ND Ht HI) as B. now rewrite H in B.
  - pose proof (step_benign U s t c ND Ht HI) as B. now rewrite H in B.
  - pose proof (step_benign U s t c ND Ht HI) as B. now rewrite H in B.
Qed.
