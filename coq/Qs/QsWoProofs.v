(* Whole-operation model of qs.hpp: invariants J1-J5, K, structure of the pending lists, and the
   theorems at whole-operation granularity (one API call = one step, arbitrary agent set). *)
From Coq Require Import List NArith Bool Arith Lia ZifyBool ZifyNat ZifyN.
Import ListNotations.
From FV Require Import Qs.QsTypes Qs.QsModel.
Local Open Scope N_scope.

(* ---------------------------------------------------------------------------------------- *)
(* basics                                                                                     *)
(* ---------------------------------------------------------------------------------------- *)

Lemma upd_same {A} (f : nat -> A) k v : upd f k v k = v.
Proof. unfold upd. now rewrite Nat.eqb_refl. Qed.
Lemma upd_other {A} (f : nat -> A) k v x : x <> k -> upd f k v x = f x.
Proof. intros H. unfold upd. destruct (Nat.eqb x k) eqn:E; [apply Nat.eqb_eq in E; congruence|reflexivity]. Qed.

Definition b2n (b : bool) : N := if b then 1 else 0.

Fixpoint cnt (p : nat -> bool) (U : list nat) : N :=
  match U with [] => 0 | x :: r => b2n (p x) + cnt p r end.

Lemma cnt_ext p q U : (forall x, In x U -> p x = q x) -> cnt p U = cnt q U.
Proof.
  induction U as [|a U IH]; intros H; cbn [cnt]; [reflexivity|].
  rewrite (H a (or_introl eq_refl)), IH; [reflexivity|]. intros x Hx. apply H. now right.
Qed.

Lemma cnt_change p q U x :
  NoDup U -> In x U -> (forall y, y <> x -> p y = q y) ->
  cnt p U + b2n (q x) = cnt q U + b2n (p x).
Proof.
  induction U as [|a U IH]; intros ND Hin Hoth; [destruct Hin|].
  inversion ND as [|? ? Hna ND']; subst. cbn [cnt].
  destruct Hin as [->|Hin].
  - rewrite (cnt_ext p q U); [lia|]. intros y Hy. apply Hoth. intros ->. contradiction.
  - assert (a <> x) by (intros ->; contradiction).
    rewrite (Hoth a H). specialize (IH ND' Hin Hoth). lia.
Qed.

Lemma cnt_zero p U : cnt p U = 0 -> forall x, In x U -> p x = false.
Proof.
  induction U as [|a U IH]; intros H x Hx; [destruct Hx|]. cbn [cnt] in H.
  destruct Hx as [->|Hx].
  - destruct (p x); cbn [b2n] in H; [lia|reflexivity].
  - apply IH; [|assumption]. destruct (p a); cbn [b2n] in H; lia.
Qed.

Lemma cnt_pos p U x : In x U -> p x = true -> 0 < cnt p U.
Proof.
  induction U as [|a U IH]; intros Hx Hp; [destruct Hx|]. cbn [cnt].
  destruct Hx as [->|Hx]; [rewrite Hp; cbn [b2n]; lia|]. specialize (IH Hx Hp). lia.
Qed.

Lemma cnt_pos_ex p U : 0 < cnt p U -> exists x, In x U /\ p x = true.
Proof.
  induction U as [|a U IH]; cbn [cnt]; intros H; [lia|].
  destruct (p a) eqn:E; [exists a; split; [now left|assumption]|].
  cbn [b2n] in H. destruct IH as [x [Hx Hp]]; [lia|]. exists x. split; [now right|assumption].
Qed.

Lemma cnt_le_length p U : cnt p U <= N.of_nat (length U).
Proof. induction U as [|a U IH]; cbn [cnt length]; [lia|]. destruct (p a); cbn [b2n]; lia. Qed.

Lemma cnt_le p q U : (forall x, In x U -> p x = true -> q x = true) -> cnt p U <= cnt q U.
Proof.
  induction U as [|a U IH]; intros H; cbn [cnt]; [lia|].
  assert (cnt p U <= cnt q U) by (apply IH; intros x Hx; apply H; now right).
  destruct (p a) eqn:E; [rewrite (H a (or_introl eq_refl) E)|]; cbn [b2n]; destruct (q a); cbn [b2n]; lia.
Qed.

(* ---------------------------------------------------------------------------------------- *)
(* the whole-operation step of the repaired source: guard = lock ... unlock, pop before call *)
(* ---------------------------------------------------------------------------------------- *)

Definition wstep : tid -> call -> wstate -> outcome (wstate * list wev) := w_step [MLock] [MUnlock] true.

Lemma guarded_free {A} (s : wstate) (body : dom -> outcome (dom * A)) :
  wheld s = false ->
  guarded [MLock] [MUnlock] s body =
  bind (body (wd s)) (fun r => Ok (set_held (set_dom s (fst r)) false, snd r)).
Proof. intros H. unfold guarded. rewrite H. cbn [mx_apply bind]. destruct (body (wd s)); reflexivity. Qed.

Definition onl (s : wstate) (x : tid) : bool := online_b (wa s x).
Definition need (s : wstate) (x : tid) : bool :=
  online_b (wa s x) && (acked (wa s x) + 1 =? ctr (wd s)).

Fixpoint sorted_tg (tg : nid -> N) (l : list nid) : Prop :=
  match l with
  | [] => True
  | n :: r => (forall m, In m r -> tg n <= tg m) /\ sorted_tg tg r
  end.

Record Core (U : list tid) (s : wstate) : Prop := mkCore {
  i_held : wheld s = false;
  i_ctr : 1 <= ctr (wd s);
  i_univ : forall x, onl s x = true -> In x U;
  i_j1 : forall x, onl s x = true -> acked (wa s x) = ctr (wd s) \/ acked (wa s x) + 1 = ctr (wd s);
  i_j2 : toack (wd s) = cnt (need s) U;
  i_j3 : nagents (wd s) = cnt (onl s) U;
  i_j4 : forall x, deferred (wa s x) = true ->
           onl s x = true /\ acked (wa s x) = ctr (wd s) /\ toack (wd s) = 0;
  i_j4u : forall x y, deferred (wa s x) = true -> deferred (wa s y) = true -> x = y;
  i_j5 : toack (wd s) = 0 -> 0 < nagents (wd s) -> exists x, deferred (wa s x) = true
}.

Record Kinv (s : wstate) : Prop := mkK {
  i_k : forall n x, wwait s n x = true -> wtarget s n <> 0 ->
           onl s x = true /\ acked (wa s x) + 2 <= wtarget s n
}.

Record Pinv (s : wstate) : Prop := mkP {
  i_p1 : forall t n, In n (pending (wa s t)) -> wtarget s n <> 0 /\ wowner s n = Some t;
  i_p2 : forall n, wtarget s n <> 0 -> exists t, wowner s n = Some t /\ In n (pending (wa s t));
  i_p3 : forall t, NoDup (pending (wa s t));
  i_p4 : forall t, sorted_tg (wtarget s) (pending (wa s t));
  i_p5 : forall n, wtarget s n <= desired (wd s) /\ wtarget s n <= ctr (wd s) + 2
}.

Definition Inv (U : list tid) (s : wstate) : Prop := Core U s /\ Kinv s /\ Pinv s.

(* ---------------------------------------------------------------------------------------- *)
(* Core: generic ways to re-establish it                                                      *)
(* ---------------------------------------------------------------------------------------- *)

Lemma onl_true s x : onl s x = true <-> acked (wa s x) <> 0.
Proof. unfold onl, online_b. destruct (acked (wa s x) =? 0) eqn:E; cbn; split; intros; try congruence; lia. Qed.
Lemma onl_false s x : onl s x = false <-> acked (wa s x) = 0.
Proof. unfold onl, online_b. destruct (acked (wa s x) =? 0) eqn:E; cbn; split; intros; try congruence; lia. Qed.

Lemma need_true s x : need s x = true <-> acked (wa s x) <> 0 /\ acked (wa s x) + 1 = ctr (wd s).
Proof.
  unfold need, online_b. destruct (acked (wa s x) =? 0) eqn:E; destruct (acked (wa s x) + 1 =? ctr (wd s)) eqn:F;
    cbn; split; intros; try congruence; try lia.
Qed.
Lemma need_false s x : need s x = false <-> acked (wa s x) = 0 \/ acked (wa s x) + 1 <> ctr (wd s).
Proof.
  unfold need, online_b. destruct (acked (wa s x) =? 0) eqn:E; destruct (acked (wa s x) + 1 =? ctr (wd s)) eqn:F;
    cbn; split; intros; try congruence; try lia.
Qed.

(* nothing the core looks at changed *)
Lemma core_ext U s s' :
  Core U s -> wheld s' = false ->
  ctr (wd s') = ctr (wd s) -> nagents (wd s') = nagents (wd s) -> toack (wd s') = toack (wd s) ->
  (forall x, acked (wa s' x) = acked (wa s x) /\ deferred (wa s' x) = deferred (wa s x)) ->
  Core U s'.
Proof.
  intros [Hheld Hctr Huniv J1 J2 J3 J4 J4u J5] Hh Hc Hn Ht Ha.
  assert (Ho : forall x, onl s' x = onl s x) by (intros x; unfold onl, online_b; now rewrite (proj1 (Ha x))).
  assert (Hne : forall x, need s' x = need s x) by (intros x; unfold need, online_b; now rewrite (proj1 (Ha x)), Hc).
  constructor.
  - assumption.
  - now rewrite Hc.
  - intros x Hx. rewrite Ho in Hx. auto.
  - intros x Hx. rewrite Ho in Hx. rewrite (proj1 (Ha x)), Hc. auto.
  - rewrite Ht, J2. apply cnt_ext. intros; now rewrite Hne.
  - rewrite Hn, J3. apply cnt_ext. intros; now rewrite Ho.
  - intros x Hx. rewrite (proj2 (Ha x)) in Hx. rewrite Ho, (proj1 (Ha x)), Hc, Ht. auto.
  - intros x y Hx Hy. rewrite (proj2 (Ha x)) in Hx. rewrite (proj2 (Ha y)) in Hy. eauto.
  - rewrite Ht, Hn. intros H1 H2. destruct (J5 H1 H2) as [x Hx]. exists x. now rewrite (proj2 (Ha x)).
Qed.

(* the counter is bumped: everybody who is online afterwards had acked the old period *)
Lemma core_bump U s' c :
  wheld s' = false -> 1 <= c -> ctr (wd s') = c + 1 ->
  (forall x, onl s' x = true -> In x U /\ acked (wa s' x) = c) ->
  nagents (wd s') = cnt (onl s') U -> toack (wd s') = nagents (wd s') ->
  (forall x, deferred (wa s' x) = false) ->
  Core U s'.
Proof.
  intros Hh Hc Hc' Hon Hn Ht Hd. constructor.
  - assumption.
  - lia.
  - intros x Hx. apply Hon, Hx.
  - intros x Hx. right. rewrite (proj2 (Hon x Hx)). lia.
  - rewrite Ht, Hn. apply cnt_ext. intros x _. unfold need. fold (onl s' x).
    destruct (onl s' x) eqn:E; [|reflexivity]. rewrite (proj2 (Hon x E)), Hc'. cbn. symmetry. apply N.eqb_refl.
  - assumption.
  - intros x Hx. rewrite Hd in Hx. discriminate.
  - intros x y Hx. rewrite Hd in Hx. discriminate.
  - intros H1 H2. lia.
Qed.

(* agent t changes, the counter does not *)
Lemma core_upd U s s' t :
  Core U s -> NoDup U -> In t U -> wheld s' = false ->
  ctr (wd s') = ctr (wd s) ->
  (forall x, x <> t -> acked (wa s' x) = acked (wa s x) /\ deferred (wa s' x) = deferred (wa s x)) ->
  (acked (wa s' t) <> 0 -> acked (wa s' t) = ctr (wd s) \/ acked (wa s' t) + 1 = ctr (wd s)) ->
  toack (wd s') + b2n (need s t) = toack (wd s) + b2n (need s' t) ->
  nagents (wd s') + b2n (onl s t) = nagents (wd s) + b2n (onl s' t) ->
  (deferred (wa s' t) = true -> acked (wa s' t) <> 0 /\ acked (wa s' t) = ctr (wd s) /\ toack (wd s') = 0) ->
  (forall x, x <> t -> deferred (wa s x) = true -> toack (wd s') = 0 /\ deferred (wa s' t) = false) ->
  (toack (wd s') = 0 -> 0 < nagents (wd s') -> exists x, deferred (wa s' x) = true) ->
  Core U s'.
Proof.
  intros [Hheld Hctr Huniv J1 J2 J3 J4 J4u J5] ND Ht Hh Hc Hoth H1 H2 H3 H4 H4o H5.
  assert (Ho : forall x, x <> t -> onl s' x = onl s x)
    by (intros x Hx; unfold onl, online_b; now rewrite (proj1 (Hoth x Hx))).
  assert (Hne : forall x, x <> t -> need s' x = need s x)
    by (intros x Hx; unfold need, online_b; now rewrite (proj1 (Hoth x Hx)), Hc).
  constructor.
  - assumption.
  - now rewrite Hc.
  - intros x Hx. destruct (Nat.eq_dec x t) as [->|Hxt]; [assumption|]. rewrite Ho in Hx by assumption. auto.
  - intros x Hx. rewrite Hc. destruct (Nat.eq_dec x t) as [->|Hxt].
    + apply H1. now apply onl_true.
    + rewrite Ho in Hx by assumption. rewrite (proj1 (Hoth x Hxt)). auto.
  - pose proof (cnt_change (need s) (need s') U t ND Ht (fun y Hy => eq_sym (Hne y Hy))). lia.
  - pose proof (cnt_change (onl s) (onl s') U t ND Ht (fun y Hy => eq_sym (Ho y Hy))). lia.
  - intros x Hx. rewrite Hc. destruct (Nat.eq_dec x t) as [->|Hxt].
    + destruct (H4 Hx) as (Ha & Hb & Hd). split; [now apply onl_true|auto].
    + rewrite (proj2 (Hoth x Hxt)) in Hx. destruct (J4 x Hx) as (Ha & Hb & Hd).
      rewrite Ho, (proj1 (Hoth x Hxt)) by assumption. split; [assumption|]. split; [assumption|].
      apply (H4o x Hxt Hx).
  - intros x y Hx Hy. destruct (Nat.eq_dec x t) as [->|Hxt]; destruct (Nat.eq_dec y t) as [->|Hyt]; try reflexivity.
    + rewrite (proj2 (Hoth y Hyt)) in Hy. destruct (H4o y Hyt Hy) as [_ E]. congruence.
    + rewrite (proj2 (Hoth x Hxt)) in Hx. destruct (H4o x Hxt Hx) as [_ E]. congruence.
    + rewrite (proj2 (Hoth x Hxt)) in Hx. rewrite (proj2 (Hoth y Hyt)) in Hy. eauto.
  - assumption.
Qed.

(* facts the core gives about one agent t of the universe *)
Lemma cnt_two p U x y : NoDup U -> In x U -> In y U -> x <> y -> p x = true -> p y = true -> 2 <= cnt p U.
Proof.
  induction U as [|a U IH]; intros ND Hx Hy Hxy Px Py; [destruct Hx|].
  inversion ND as [|? ? Hna ND']; subst. cbn [cnt].
  destruct Hx as [->|Hx]; destruct Hy as [->|Hy].
  - congruence.
  - rewrite Px. pose proof (cnt_pos p U y Hy Py). cbn [b2n]. lia.
  - rewrite Py. pose proof (cnt_pos p U x Hx Px). cbn [b2n]. lia.
  - specialize (IH ND' Hx Hy Hxy Px Py). lia.
Qed.

Section CoreFacts.
Variables (U : list tid) (s : wstate) (t : tid).
Hypothesis HC : Core U s.
Hypothesis ND : NoDup U.
Hypothesis Ht : In t U.

Lemma cf_nagents_pos : onl s t = true -> 1 <= nagents (wd s).
Proof. intros H. rewrite (i_j3 _ _ HC). pose proof (cnt_pos (onl s) U t Ht H). lia. Qed.
Lemma cf_toack_pos : need s t = true -> 1 <= toack (wd s).
Proof. intros H. rewrite (i_j2 _ _ HC). pose proof (cnt_pos (need s) U t Ht H). lia. Qed.
Lemma cf_toack_le : toack (wd s) <= nagents (wd s).
Proof.
  rewrite (i_j2 _ _ HC), (i_j3 _ _ HC). apply cnt_le. intros x _ H. unfold need in H. unfold onl.
  destruct (online_b (wa s x)); [reflexivity|discriminate].
Qed.
Lemma cf_nagents_room : onl s t = false -> nagents (wd s) + 1 <= N.of_nat (length U).
Proof.
  intros H. rewrite (i_j3 _ _ HC).
  set (q := fun x => if Nat.eqb x t then true else onl s x).
  assert (E : cnt (onl s) U + b2n (q t) = cnt q U + b2n (onl s t)).
  { apply cnt_change; [assumption|assumption|]. intros y Hy. unfold q. apply Nat.eqb_neq in Hy. now rewrite Hy. }
  assert (Q : q t = true) by (unfold q; now rewrite Nat.eqb_refl).
  rewrite Q, H in E. cbn [b2n] in E.
  pose proof (cnt_le_length q U) as L. clearbody q. lia.
Qed.
Lemma cf_only_needer : toack (wd s) = 1 -> need s t = true ->
  forall x, x <> t -> onl s x = true -> acked (wa s x) = ctr (wd s).
Proof.
  intros H1 Hn x Hx Ho. destruct (i_j1 _ _ HC x Ho) as [E|E]; [assumption|].
  assert (need s x = true) by (apply need_true; split; [now apply onl_true|assumption]).
  pose proof (cnt_two (need s) U x t ND (i_univ _ _ HC x Ho) Ht Hx H Hn). rewrite (i_j2 _ _ HC) in H1. lia.
Qed.
Lemma cf_all_acked : toack (wd s) = 0 -> forall x, onl s x = true -> acked (wa s x) = ctr (wd s).
Proof.
  intros H0 x Ho. destruct (i_j1 _ _ HC x Ho) as [E|E]; [assumption|].
  rewrite (i_j2 _ _ HC) in H0. pose proof (cnt_zero _ _ H0 x (i_univ _ _ HC x Ho)) as F.
  apply need_false in F. apply onl_true in Ho. lia.
Qed.
Lemma cf_nobody : nagents (wd s) = 0 -> forall x, onl s x = false.
Proof.
  intros H0 x. destruct (onl s x) eqn:E; [|reflexivity]. rewrite (i_j3 _ _ HC) in H0.
  pose proof (cnt_zero _ _ H0 x (i_univ _ _ HC x E)). congruence.
Qed.
Lemma cf_not_deferred_if_toack : toack (wd s) <> 0 -> forall x, deferred (wa s x) = false.
Proof. intros H x. destruct (deferred (wa s x)) eqn:E; [|reflexivity]. destruct (i_j4 _ _ HC x E) as (_ & _ & F). contradiction. Qed.
Lemma cf_offline_not_deferred : forall x, onl s x = false -> deferred (wa s x) = false.
Proof. intros x H. destruct (deferred (wa s x)) eqn:E; [|reflexivity]. destruct (i_j4 _ _ HC x E) as (F & _). congruence. Qed.
End CoreFacts.

(* ---------------------------------------------------------------------------------------- *)
(* Core is preserved by every call                                                            *)
(* ---------------------------------------------------------------------------------------- *)

Definition few (U : list tid) : Prop := N.of_nat (length U) < 4294967296.

Lemma core_online U s t s' evs :
  Core U s -> NoDup U -> In t U -> few U -> wstep t COnline s = Ok (s', evs) -> Core U s'.
Proof.
  intros HC ND Ht HB H. unfold wstep, w_step, w_online in H.
  destruct (negb (acked (wa s t) =? 0)) eqn:E0; [discriminate|].
  assert (Hoff : onl s t = false) by (apply onl_false; lia).
  pose proof (cf_nagents_room U s t HC ND Ht Hoff) as Hroom.
  rewrite guarded_free in H by apply HC.
  assert (Hinc : inc32 (nagents (wd s)) = nagents (wd s) + 1).
  { unfold inc32, few in *. destruct (nagents (wd s) =? 4294967295) eqn:E; [lia|reflexivity]. }
  rewrite Hinc in H.
  destruct (nagents (wd s) + 1 =? 1) eqn:E1.
  - (* first agent *)
    assert (Hn0 : nagents (wd s) = 0) by lia.
    pose proof (cf_toack_le U s HC) as Hle.
    destruct (negb (toack (wd s) =? 0)) eqn:E2; [cbn in H; discriminate|].
    cbn in H. inversion H; subst s' evs; clear H.
    match goal with |- Core _ ?x => set (s1 := x) end.
    apply (core_bump U s1 (ctr (wd s))).
    + reflexivity.
    + apply HC.
    + reflexivity.
    + intros x Hx. unfold onl, s1 in Hx. cbn in Hx. unfold s1. cbn. unfold upd in *. destruct (Nat.eqb x t) eqn:Ex.
      * apply Nat.eqb_eq in Ex. subst x. split; [assumption|reflexivity].
      * pose proof (cf_nobody U s HC Hn0 x) as F. unfold onl in F. congruence.
    + unfold s1 at 1. cbn.
      pose proof (cnt_change (onl s) (onl s1) U t ND Ht) as C.
      assert (onl s1 t = true).
      { unfold onl, s1. cbn. rewrite upd_same. cbn. unfold online_b. cbn. pose proof (i_ctr _ _ HC).
        destruct (ctr (wd s) =? 0) eqn:F; [lia|reflexivity]. }
      rewrite H, Hoff in C. cbn [b2n] in C.
      assert (C' : cnt (onl s) U + 1 = cnt (onl s1) U + 0).
      { apply C. intros y Hy. unfold onl, s1. cbn. now rewrite upd_other. }
      rewrite <- (i_j3 _ _ HC) in C'. lia.
    + unfold s1. cbn. lia.
    + intros x. unfold s1. cbn. unfold upd. destruct (Nat.eqb x t) eqn:Ex; cbn.
      * apply (cf_offline_not_deferred U s HC t Hoff).
      * apply (cf_offline_not_deferred U s HC x). apply (cf_nobody U s HC Hn0).
  - (* somebody is online already *)
    cbn in H. inversion H; subst s' evs; clear H.
    match goal with |- Core _ ?x => set (s1 := x) end.
    assert (Hc1 : 1 <= ctr (wd s)) by apply HC.
    assert (Ho1 : onl s1 t = true).
    { unfold onl, s1. cbn. rewrite upd_same. unfold online_b. cbn. destruct (ctr (wd s) =? 0) eqn:F; [lia|reflexivity]. }
    assert (Hn1 : need s1 t = false).
    { apply need_false. right. unfold s1. cbn. rewrite upd_same. cbn. lia. }
    assert (Hn : need s t = false) by (apply need_false; left; lia).
    assert (Hd1 : deferred (wa s1 t) = false).
    { unfold s1. cbn. rewrite upd_same. cbn. apply (cf_offline_not_deferred U s HC t Hoff). }
    apply (core_upd U s s1 t HC ND Ht); try reflexivity.
    + intros x Hx. unfold s1. cbn. now rewrite upd_other.
    + intros _. unfold s1. cbn. rewrite upd_same. cbn. now left.
    + rewrite Hn, Hn1. reflexivity.
    + rewrite Ho1, Hoff. unfold s1. cbn [wd nagents b2n]. lia.
    + rewrite Hd1. discriminate.
    + intros x Hx Hdx. split; [|assumption]. apply (i_j4 _ _ HC x Hdx).
    + unfold s1 at 1 2. cbn [wd toack nagents]. intros T0 _.
      destruct (i_j5 _ _ HC T0) as [x Hx]; [lia|]. exists x.
      destruct (Nat.eq_dec x t) as [->|Hxt].
      * pose proof (cf_offline_not_deferred U s HC t Hoff). congruence.
      * unfold s1. cbn. now rewrite upd_other.
Qed.
