(* Happens-before (vector clocks) for the fine-grained model of qs.hpp: everything an agent did
   before it entered the quiescent_state()/offline() call that took it out of waiting(n)
   happens-before the callback of n.  For every memory-order assignment that satisfies
   [orders_sufficient]. *)
From Coq Require Import List NArith Bool Arith Lia.
Import ListNotations.
From FV Require Import Qs.QsTypes Qs.QsModel Qs.QsFgModel Qs.QsWoProofs Qs.QsFgProofs Qs.QsFgThms.
Local Open Scope N_scope.

Definition vle (a b : vclock) : Prop := forall x, (a x <= b x)%nat.

Lemma vle_refl a : vle a a.
Proof. intros x. apply Nat.le_refl. Qed.
Lemma vle_trans a b c : vle a b -> vle b c -> vle a c.
Proof. intros H1 H2 x. eapply Nat.le_trans; [apply H1|apply H2]. Qed.
Lemma vle_join_l a b : vle a (vjoin a b).
Proof. intros x. unfold vjoin. apply Nat.le_max_l. Qed.
Lemma vle_join_r a b : vle b (vjoin a b).
Proof. intros x. unfold vjoin. apply Nat.le_max_r. Qed.
Lemma vle_join_lub a b c : vle a c -> vle b c -> vle (vjoin a b) c.
Proof. intros H1 H2 x. unfold vjoin. apply Nat.max_lub; auto. Qed.
Lemma vle_zero a : vle vzero a.
Proof. intros x. apply Nat.le_0_l. Qed.

(* what the mutex knows: the clock of its holder, or the clock left by the last unlock *)
Definition MK (s : fstate) (k : clocks) : vclock :=
  match fmx s with Some h => vc k h | None => mc k end.

Section Hb.
Variable ord ord_fail : site -> mo.
Hypothesis Hord : orders_sufficient ord = true.

Lemma ord_facts :
  is_acq (ord S_q_fsub) = true /\ is_rel (ord S_q_fsub) = true /\ is_acq (ord S_off_fsub) = true /\
  is_rel (ord S_on_ctr_st) = true /\ is_rel (ord S_off_ctr_st) = true /\ is_rel (ord S_qd_ctr_st) = true /\
  is_rel (ord S_q_ctr_st) = true /\ is_acq (ord S_run_ctr_ld) = true /\ is_acq (ord S_qb_loop_ld) = true.
Proof.
  pose proof Hord as H. unfold orders_sufficient in H.
  repeat (apply andb_true_iff in H; let H' := fresh "H" in destruct H as [H H']). repeat split; assumption.
Qed.

Definition cstep := clk_step ord ord_fail.

(* the thread's own clock after the tick *)
Definition tick (k : clocks) (t : tid) : vclock := upd (vc k t) t (S (vc k t t)).

Lemma tick_ge k t : vle (vc k t) (tick k t).
Proof. intros x. unfold tick, upd. destruct (Nat.eqb x t) eqn:E; [apply Nat.eqb_eq in E; subst; lia|lia]. Qed.
Lemma tick_own k t : tick k t t = S (vc k t t).
Proof. unfold tick. apply upd_same. Qed.
Lemma tick_other k t x : x <> t -> tick k t x = vc k t x.
Proof. intros H. unfold tick. now apply upd_other. Qed.

(* every operation: the clocks of the other threads do not change, the own clock only grows and ticks *)
Lemma cstep_vc_other t op k x : x <> t -> vc (cstep t op k) x = vc k x.
Proof. intros H. unfold cstep, clk_step. destruct op; cbn; now rewrite upd_other. Qed.

Lemma cstep_vc_self_ge t op k : vle (tick k t) (vc (cstep t op k) t).
Proof.
  unfold cstep, clk_step. fold (tick k t).
  destruct op; cbn; rewrite upd_same; try apply vle_refl.
  - destruct (is_acq (ord s)); [apply vle_join_l|apply vle_refl].
  - destruct (is_acq (ord s)); [apply vle_join_l|apply vle_refl].
  - destruct (is_acq (ord_fail s)); [apply vle_join_l|apply vle_refl].
  - apply vle_join_l.
Qed.

Lemma cstep_vc_mono t op k x : vle (vc k x) (vc (cstep t op k) x).
Proof.
  destruct (Nat.eq_dec x t) as [->|Hx]; [|rewrite cstep_vc_other by assumption; apply vle_refl].
  eapply vle_trans; [apply tick_ge|apply cstep_vc_self_ge].
Qed.

Lemma cstep_own t op k : (S (vc k t t) <= vc (cstep t op k) t t)%nat.
Proof. rewrite <- tick_own. apply cstep_vc_self_ge. Qed.

(* ---------------------------------------------------------------------------------------- *)
(* the step with clocks and stamps                                                            *)
(* ---------------------------------------------------------------------------------------- *)

Definition stamps := nid -> tid -> option nat.

Definition new_stamps (s s' : fstate) (k' : clocks) (lf : stamps) : stamps :=
  fun n x => if fwait s' n x then None else if fwait s n x then Some (vc k' x x) else lf n x.

Definition new_stampsq (s s' : fstate) (k' : clocks) (lf : tid -> tid -> option nat) : tid -> tid -> option nat :=
  fun b x => if fqbw s' b x then None else if fqbw s b x then Some (vc k' x x)
             else match qb_target (fth s b), qb_target (fth s' b) with None, Some _ => None | _, _ => lf b x end.

Definition hstep (t : tid) (h : hstate) : hstate * list wev :=
  let '(s', evs, op) := fstep t (hf h) in
  let k' := match fstop (hf h) with Some _ => hk h | None => cstep t op (hk h) end in
  (mkH s' k' (new_stamps (hf h) s' k' (hleft h)) (new_stampsq (hf h) s' k' (hleftq h)), evs).

Variable U : list tid.
Variable nown : nid -> tid.

Record HInv (s : fstate) (k : clocks) (lf : stamps) : Prop := mkHInv {
  h_v0 : forall x y, (vc k x y <= vc k y y)%nat;
  h_lc0 : forall l y, (lc k l y <= vc k y y)%nat;
  h_mc0 : forall y, (mc k y <= vc k y y)%nat;
  h_v1 : forall n X kx, lf n X = Some kx -> (kx <= vc k X X)%nat;
  (* the counter's release clock is known to the mutex *)
  h_m : vle (lc k LCtr) (MK s k);
  (* the thread that will restart the period has acquired every ack *)
  h_tkz : forall z, restarter (fth s z) = true -> special (fth s z) = false ->
            acked (tag (fth s z)) <> 0 -> vle (lc k LToAck) (vc k z);
  (* what an agent did before it left waiting(n) is published: to the mutex, or to agents_to_ack --
     unless the agent has not even acked the period before the target *)
  h_h : forall n X kx, lf n X = Some kx ->
          (memb (fth s X) = true /\ eack (fth s X) + 1 < fwtg s n) \/
          (kx <= MK s k X)%nat \/ (kx <= lc k LToAck X)%nat;
  h_off : forall n X kx, lf n X = Some kx -> memb (fth s X) = false -> (kx <= MK s k X)%nat;
  h_c' : forall n X kx, lf n X = Some kx -> fwtg s n <= vctr s -> (kx <= MK s k X)%nat;
  h_c : forall n X kx, lf n X = Some kx -> fwtg s n <= ctr (fd s) -> (kx <= lc k LCtr X)%nat;
  h_p : forall t cl, tpc (fth s t) = PRun2 cl ->
          forall n X kx, lf n X = Some kx -> fwtg s n <= cl -> (kx <= vc k t X)%nat
}.

(* operations that touch neither agents_to_ack, nor the counter, nor the mutex *)
Definition benign (op : clkop) : Prop :=
  match op with
  | CkNone | CkLoad _ | CkCasFail _ => True
  | CkRmw s | CkStore s => site_loc s = LDesired
  | CkLock | CkUnlock => False
  end.

Lemma benign_same t op k : benign op ->
  lc (cstep t op k) LToAck = lc k LToAck /\ lc (cstep t op k) LCtr = lc k LCtr /\ mc (cstep t op k) = mc k.
Proof.
  intros B. unfold cstep, clk_step. destruct op; cbn in B |- *; try contradiction; try (repeat split; reflexivity).
  - unfold loc_eq_upd. rewrite B. cbn. repeat split; reflexivity.
  - unfold loc_eq_upd. rewrite B. cbn. repeat split; reflexivity.
Qed.

(* bounds: nobody knows more about y than y itself -- preserved by every operation *)
Lemma bounds_step t op k :
  (forall x y, (vc k x y <= vc k y y)%nat) -> (forall l y, (lc k l y <= vc k y y)%nat) -> (forall y, (mc k y <= vc k y y)%nat) ->
  (forall x y, (vc (cstep t op k) x y <= vc (cstep t op k) y y)%nat) /\
  (forall l y, (lc (cstep t op k) l y <= vc (cstep t op k) y y)%nat) /\
  (forall y, (mc (cstep t op k) y <= vc (cstep t op k) y y)%nat).
Proof.
  intros V0 L0 M0.
  assert (Own : forall y, (vc k y y <= vc (cstep t op k) y y)%nat) by (intros y; apply cstep_vc_mono).
  assert (Me : forall y, (tick k t y <= vc (cstep t op k) y y)%nat).
  { intros y. destruct (Nat.eq_dec y t) as [->|Hy]; [apply cstep_vc_self_ge|].
    rewrite tick_other by assumption. eapply Nat.le_trans; [apply V0|apply Own]. }
  assert (J : forall (a : vclock), (forall y, (a y <= vc k y y)%nat) -> forall y, (vjoin (tick k t) a y <= vc (cstep t op k) y y)%nat).
  { intros a Ha y. unfold vjoin. apply Nat.max_lub; [apply Me|]. eapply Nat.le_trans; [apply Ha|apply Own]. }
  assert (Self : forall y, (vc (cstep t op k) t y <= vc (cstep t op k) y y)%nat).
  { intros y. pose proof (Me y) as Mey. pose proof (fun a Ha => J a Ha y) as Jy.
    remember (vc (cstep t op k) y y) as R eqn:HR. clear HR.
    unfold cstep, clk_step. fold (tick k t).
    destruct op; cbn [vc]; rewrite upd_same;
      repeat match goal with |- context [if ?b then _ else _] => destruct b end;
      try apply Mey; try (apply Jy; intros; apply L0); try (apply Jy; intros; apply M0). }
  split; [|split].
  - intros x y. destruct (Nat.eq_dec x t) as [->|Hx]; [apply Self|].
    rewrite (cstep_vc_other t op k x Hx). eapply Nat.le_trans; [apply V0|apply Own].
  - intros l y. pose proof (Me y) as Mey. pose proof (fun a Ha => J a Ha y) as Jy. pose proof (Own y) as Owny.
    remember (vc (cstep t op k) y y) as R eqn:HR. clear HR.
    unfold cstep, clk_step. fold (tick k t).
    destruct op; cbn [lc]; try (eapply Nat.le_trans; [apply L0|apply Owny]).
    + unfold loc_eq_upd. destruct (loc_eqb l (site_loc s)); [|eapply Nat.le_trans; [apply L0|apply Owny]].
      destruct (is_rel (ord s)); [apply Mey|apply Nat.le_0_l].
    + unfold loc_eq_upd. destruct (loc_eqb l (site_loc s)); [|eapply Nat.le_trans; [apply L0|apply Owny]].
      destruct (is_rel (ord s)); [|eapply Nat.le_trans; [apply L0|apply Owny]].
      unfold vjoin at 1. apply Nat.max_lub; [eapply Nat.le_trans; [apply L0|apply Owny]|].
      destruct (is_acq (ord s)); [apply Jy; intros; apply L0|apply Mey].
  - intros y. pose proof (Me y) as Mey. pose proof (Own y) as Owny.
    remember (vc (cstep t op k) y y) as R eqn:HR. clear HR.
    unfold cstep, clk_step. fold (tick k t).
    destruct op; cbn [mc]; try (eapply Nat.le_trans; [apply M0|apply Owny]). apply Mey.
Qed.

(* an agent that is online and outside quiescent_state()/offline() is a member whose effective ack
   is its acked field *)
Lemma awake_memb s x : FCore U nown s ->
  acked (tag (fth s x)) <> 0 -> in_quiescent (tpc (fth s x)) = false ->
  memb (fth s x) = true /\ eack (fth s x) = acked (tag (fth s x)).
Proof.
  intros HC A1 A2. pose proof (f_loc _ _ _ HC x) as [_ L]. unfold memb, eack.
  destruct (tpc (fth s x)); try discriminate; try (destruct L as (La & _); contradiction);
    (split; [|reflexivity]); destruct (acked (tag (fth s x)) =? 0) eqn:Z; try reflexivity; apply N.eqb_eq in Z; contradiction.
Qed.

(* ... and the target of a waiting set it belongs to is beyond the virtual period *)
Lemma waiting_beyond s n x : FCore U nown s -> FGhost nown s -> fwait s n x = true -> vctr s < fwtg s n.
Proof.
  intros HC HG Hw. destruct (f_k _ _ HG n x Hw) as (A1 & A2 & A3).
  destruct (awake_memb s x HC A1 A2) as [M E]. destruct (f_j1 _ _ _ HC x M) as [J|J]; rewrite E in J; lia.
Qed.

Lemma ctr_le_vctr s : FCore U nown s -> ctr (fd s) <= vctr s.
Proof. intros HC. destruct (vctr_cases U nown s HC) as [[E _]|[E _]]; rewrite E; lia. Qed.

Lemma stamps_cases s s' k' lf n X kx :
  new_stamps s s' k' lf n X = Some kx ->
  (lf n X = Some kx /\ fwait s n X = false) \/ (fwait s n X = true /\ fwait s' n X = false /\ kx = vc k' X X).
Proof.
  unfold new_stamps. destruct (fwait s' n X) eqn:E1; [discriminate|]. destruct (fwait s n X) eqn:E2.
  - intros H. inversion H. right. auto.
  - intros H. left. auto.
Qed.

(* Frame lemma: a step after which agents_to_ack's and the counter's release clocks are unchanged,
   the mutex knowledge and every thread clock have only grown, and the virtual period is the same. *)
Lemma hinv_mono s k lf t th' s' k' :
  FCore U nown s -> FGhost nown s -> HInv s k lf ->
  (forall x, fth s' x = upd (fth s) t th' x) ->
  (* clocks *)
  (forall x y, (vc k' x y <= vc k' y y)%nat) -> (forall l y, (lc k' l y <= vc k' y y)%nat) -> (forall y, (mc k' y <= vc k' y y)%nat) ->
  (forall x, vle (vc k x) (vc k' x)) ->
  vle (lc k LToAck) (lc k' LToAck) -> lc k' LCtr = lc k LCtr ->
  vle (MK s k) (MK s' k') ->
  (* state *)
  vctr s' = vctr s -> ctr (fd s') = ctr (fd s) -> (forall n, fwtg s' n = fwtg s n) ->
  ((memb th' = memb (fth s t) /\ (memb th' = true -> eack th' = eack (fth s t))) \/ MK s' k' t = vc k' t t \/
   (vc k' t t <= lc k' LToAck t)%nat) ->
  (forall z, restarter (fth s' z) = true -> special (fth s' z) = false -> acked (tag (fth s' z)) <> 0 ->
     vle (lc k' LToAck) (vc k' z)) ->
  (memb th' = false -> memb (fth s t) = false \/ MK s' k' t = vc k' t t) ->
  (forall n x, fwait s n x = true -> fwait s' n x = false -> x = t) ->
  (forall x cl, tpc (fth s' x) = PRun2 cl ->
     tpc (fth s x) = PRun2 cl \/ (x = t /\ cl = ctr (fd s) /\ vle (lc k LCtr) (vc k' t))) ->
  HInv s' k' (new_stamps s s' k' lf).
Proof.
  intros HC HG HI Hth V0' L0' M0' Vmono LT LC MKmono Hv Hc Hw E12 E5 Eoff Hleave Hrun.
  assert (Hoth : forall x, x <> t -> fth s' x = fth s x) by (intros x Hx; rewrite Hth; now apply upd_other).
  assert (Hme : fth s' t = th') by (rewrite Hth; apply upd_same).
  assert (Hsame : forall x, (memb (fth s' x) = memb (fth s x) /\ (memb (fth s' x) = true -> eack (fth s' x) = eack (fth s x))) \/
                            (x = t /\ forall kx, (kx <= vc k' t t)%nat -> (kx <= MK s' k' t)%nat \/ (kx <= lc k' LToAck t)%nat)).
  { intros x. destruct (Nat.eq_dec x t) as [->|Hx]; [|left; now rewrite (Hoth x Hx)].
    rewrite Hme. destruct E12 as [E|[E|E]]; [now left|right|right]; (split; [reflexivity|]); intros kx Hk.
    - left. now rewrite E.
    - right. eapply Nat.le_trans; [exact Hk|exact E]. }
  assert (Hnew : forall n X, fwait s n X = true -> fwait s' n X = false ->
            X = t /\ memb (fth s X) = true /\ eack (fth s X) + 1 < fwtg s n /\ vctr s < fwtg s n).
  { intros n X W1 W2. split; [apply (Hleave n X W1 W2)|].
    destruct (f_k _ _ HG n X W1) as (A1 & A2 & A3). destruct (awake_memb s X HC A1 A2) as [M E].
    split; [assumption|]. split; [rewrite E; lia|]. apply (waiting_beyond s n X HC HG W1). }
  assert (Hv1' : forall n X kx, new_stamps s s' k' lf n X = Some kx -> (kx <= vc k' X X)%nat).
  { intros n X kx H. destruct (stamps_cases _ _ _ _ _ _ _ H) as [[H0 _]|(W1 & W2 & ->)]; [|apply Nat.le_refl].
    eapply Nat.le_trans; [apply (h_v1 _ _ _ HI n X kx H0)|apply Vmono]. }
  assert (Hoffown : forall n kx, new_stamps s s' k' lf n t = Some kx -> memb (fth s' t) = false -> (kx <= MK s' k' t)%nat).
  { intros n kx H Hmb. rewrite Hme in Hmb. destruct (Eoff Hmb) as [E|E]; [|rewrite E; apply (Hv1' n t kx H)].
    destruct (stamps_cases _ _ _ _ _ _ _ H) as [[H0 _]|(W1 & W2 & ->)].
    - eapply Nat.le_trans; [apply (h_off _ _ _ HI n t kx H0 E)|apply MKmono].
    - destruct (Hnew n t W1 W2) as (_ & M & _). congruence. }
  constructor.
  - exact V0'.
  - exact L0'.
  - exact M0'.
  - exact Hv1'.
  - rewrite LC. eapply vle_trans; [apply (h_m _ _ _ HI)|exact MKmono].
  - exact E5.
  - intros n X kx H. rewrite Hw.
    destruct (Hsame X) as [[Em Ee]|[-> Hown]]; [|right; apply Hown, (Hv1' n t kx H)].
    destruct (stamps_cases _ _ _ _ _ _ _ H) as [[H0 _]|(W1 & W2 & ->)].
    + destruct (h_h _ _ _ HI n X kx H0) as [[D1 D2]|[D|D]]; [left|right; left|right; right; eapply Nat.le_trans; [exact D|apply LT]].
      * rewrite <- Em in D1. split; [assumption|]. now rewrite (Ee D1).
      * eapply Nat.le_trans; [exact D|apply MKmono].
    + destruct (Hnew n X W1 W2) as (_ & M & E & _). left. rewrite <- Em in M. split; [assumption|]. now rewrite (Ee M).
  - intros n X kx H Hmb.
    destruct (Hsame X) as [[Em Ee]|[-> Hown]]; [|apply (Hoffown n kx H Hmb)].
    rewrite Em in Hmb. destruct (stamps_cases _ _ _ _ _ _ _ H) as [[H0 _]|(W1 & W2 & ->)].
    + eapply Nat.le_trans; [apply (h_off _ _ _ HI n X kx H0 Hmb)|apply MKmono].
    + destruct (Hnew n X W1 W2) as (_ & M & _). congruence.
  - intros n X kx H Hle. rewrite Hw, Hv in Hle. destruct (stamps_cases _ _ _ _ _ _ _ H) as [[H0 _]|(W1 & W2 & ->)].
    + eapply Nat.le_trans; [apply (h_c' _ _ _ HI n X kx H0 Hle)|apply MKmono].
    + destruct (Hnew n X W1 W2) as (_ & _ & _ & V). lia.
  - intros n X kx H Hle. rewrite Hw, Hc in Hle. rewrite LC. destruct (stamps_cases _ _ _ _ _ _ _ H) as [[H0 _]|(W1 & W2 & ->)].
    + apply (h_c _ _ _ HI n X kx H0 Hle).
    + destruct (Hnew n X W1 W2) as (_ & _ & _ & V). pose proof (ctr_le_vctr s HC). lia.
  - intros x cl Hpc n X kx H Hle. rewrite Hw in Hle.
    assert (Hcl : cl <= ctr (fd s)).
    { destruct (Hrun x cl Hpc) as [Hold|(-> & -> & _)]; [|lia].
      pose proof (f_loc _ _ _ HC x) as [_ L]. rewrite Hold in L. exact L. }
    destruct (stamps_cases _ _ _ _ _ _ _ H) as [[H0 _]|(W1 & W2 & ->)].
    + destruct (Hrun x cl Hpc) as [Hold|(-> & -> & Hacq)].
      * eapply Nat.le_trans; [apply (h_p _ _ _ HI x cl Hold n X kx H0 Hle)|apply Vmono].
      * eapply Nat.le_trans; [apply (h_c _ _ _ HI n X kx H0 Hle)|apply Hacq].
    + destruct (Hnew n X W1 W2) as (_ & _ & _ & V). pose proof (ctr_le_vctr s HC). lia.
Qed.

(* h_tkz survives when neither the restarting thread nor agents_to_ack's clock change *)
Lemma tkz_same s k lf s' k' t th' :
  HInv s k lf -> (forall x, fth s' x = upd (fth s) t th' x) ->
  (forall x, vle (vc k x) (vc k' x)) -> lc k' LToAck = lc k LToAck ->
  (restarter th' = true -> special th' = false -> acked (tag th') <> 0 ->
     restarter (fth s t) = true /\ special (fth s t) = false /\ acked (tag (fth s t)) <> 0) ->
  forall z, restarter (fth s' z) = true -> special (fth s' z) = false -> acked (tag (fth s' z)) <> 0 ->
    vle (lc k' LToAck) (vc k' z).
Proof.
  intros HI Hth Vmono LT E5 z R S A. rewrite LT.
  assert (Rz : restarter (fth s z) = true /\ special (fth s z) = false /\ acked (tag (fth s z)) <> 0).
  { rewrite Hth in R, S, A. destruct (Nat.eq_dec z t) as [->|Hz]; [rewrite upd_same in R, S, A; apply (E5 R S A)|].
    rewrite upd_other in R, S, A by assumption. auto. }
  destruct Rz as (R0 & S0 & A0). eapply vle_trans; [apply (h_tkz _ _ _ HI z R0 S0 A0)|apply Vmono].
Qed.

(* operations that touch neither agents_to_ack nor the counter nor the mutex *)
Lemma hinv_quiet s k lf t th' s' op :
  FCore U nown s -> FGhost nown s -> HInv s k lf ->
  (forall x, fth s' x = upd (fth s) t th' x) ->
  ((memb th' = memb (fth s t) /\ (memb th' = true -> eack th' = eack (fth s t))) \/ fmx s = Some t) ->
  special th' = special (fth s t) ->
  (restarter th' = true -> special th' = false -> acked (tag th') <> 0 ->
     restarter (fth s t) = true /\ special (fth s t) = false /\ acked (tag (fth s t)) <> 0) ->
  fmx s' = fmx s -> ctr (fd s') = ctr (fd s) -> (forall n, fwtg s' n = fwtg s n) ->
  benign op ->
  (forall n x, fwait s n x = true -> fwait s' n x = false -> x = t) ->
  (forall x cl, tpc (fth s' x) = PRun2 cl ->
     tpc (fth s x) = PRun2 cl \/ (x = t /\ op = CkLoad S_run_ctr_ld /\ cl = ctr (fd s))) ->
  HInv s' (cstep t op k) (new_stamps s s' (cstep t op k) lf).
Proof.
  intros HC HG HI Hth E12 E3 E5 Hm Hc Hw B Hleave Hrun.
  set (k' := cstep t op k).
  destruct (benign_same t op k B) as (LT & LC & MC). fold k' in LT, LC, MC.
  assert (Vmono : forall x, vle (vc k x) (vc k' x)) by (intros x; apply cstep_vc_mono).
  destruct (bounds_step t op k (h_v0 _ _ _ HI) (h_lc0 _ _ _ HI) (h_mc0 _ _ _ HI)) as (V0' & L0' & M0'). fold k' in V0', L0', M0'.
  assert (Hme : fth s' t = th') by (rewrite Hth; apply upd_same).
  assert (Hoth : forall x, x <> t -> fth s' x = fth s x) by (intros x Hx; rewrite Hth; now apply upd_other).
  assert (Hspec : forall x, special (fth s' x) = special (fth s x)).
  { intros x. destruct (Nat.eq_dec x t) as [->|Hx]; [now rewrite Hme|now rewrite (Hoth x Hx)]. }
  apply (hinv_mono s k lf t th' s' k' HC HG HI Hth V0' L0' M0' Vmono); try assumption.
  - rewrite LT. apply vle_refl.
  - unfold MK. rewrite Hm. destruct (fmx s); [apply Vmono|rewrite MC; apply vle_refl].
  - unfold vctr. rewrite Hm, Hc. destruct (fmx s); [now rewrite Hspec|reflexivity].
  - destruct E12 as [E|E]; [now left|right; left]. unfold MK. now rewrite Hm, E.
  - apply (tkz_same s k lf s' k' t th' HI Hth Vmono LT E5).
  - intros Hmb. destruct E12 as [[E _]|E]; [left; congruence|right]. unfold MK. now rewrite Hm, E.
  - intros x cl Hpc. destruct (Hrun x cl Hpc) as [H|(-> & -> & ->)]; [now left|right].
    split; [reflexivity|]. split; [reflexivity|].
    unfold k', cstep, clk_step. cbn [vc]. rewrite upd_same.
    destruct ord_facts as (_ & _ & _ & _ & _ & _ & _ & Hacq & _). rewrite Hacq. apply vle_join_r.
Qed.

Lemma hinv_lock s k lf t th' s' :
  FCore U nown s -> FGhost nown s -> HInv s k lf ->
  (forall x, fth s' x = upd (fth s) t th' x) ->
  memb th' = memb (fth s t) -> (memb th' = true -> eack th' = eack (fth s t)) -> special th' = false ->
  (restarter th' = true -> special th' = false -> acked (tag th') <> 0 ->
     restarter (fth s t) = true /\ special (fth s t) = false /\ acked (tag (fth s t)) <> 0) ->
  fmx s = None -> fmx s' = Some t -> ctr (fd s') = ctr (fd s) -> (forall n, fwtg s' n = fwtg s n) ->
  (forall n x, fwait s n x = true -> fwait s' n x = false -> x = t) ->
  (forall x cl, tpc (fth s' x) = PRun2 cl -> tpc (fth s x) = PRun2 cl) ->
  HInv s' (cstep t CkLock k) (new_stamps s s' (cstep t CkLock k) lf).
Proof.
  intros HC HG HI Hth E1 E2 E3 E5 Hm Hm' Hc Hw Hleave Hrun.
  set (k' := cstep t CkLock k).
  assert (Vmono : forall x, vle (vc k x) (vc k' x)) by (intros x; apply cstep_vc_mono).
  destruct (bounds_step t CkLock k (h_v0 _ _ _ HI) (h_lc0 _ _ _ HI) (h_mc0 _ _ _ HI)) as (V0' & L0' & M0'). fold k' in V0', L0', M0'.
  assert (Hme : fth s' t = th') by (rewrite Hth; apply upd_same).
  assert (LT : lc k' LToAck = lc k LToAck) by reflexivity.
  apply (hinv_mono s k lf t th' s' k' HC HG HI Hth V0' L0' M0' Vmono); try assumption; try reflexivity.
  - rewrite LT. apply vle_refl.
  - unfold MK. rewrite Hm, Hm'. unfold k', cstep, clk_step. cbn [vc]. rewrite upd_same. apply vle_join_r.
  - unfold vctr. rewrite Hm, Hm', Hme, E3, Hc. reflexivity.
  - left. auto.
  - apply (tkz_same s k lf s' k' t th' HI Hth Vmono LT E5).
  - intros Hmb. left. congruence.
  - intros x cl Hpc. left. now apply Hrun.
Qed.

Lemma hinv_unlock s k lf t th' s' :
  FCore U nown s -> FGhost nown s -> HInv s k lf ->
  (forall x, fth s' x = upd (fth s) t th' x) ->
  memb th' = memb (fth s t) -> (memb th' = true -> eack th' = eack (fth s t)) -> special (fth s t) = false ->
  (restarter th' = true -> special th' = false -> acked (tag th') <> 0 ->
     restarter (fth s t) = true /\ special (fth s t) = false /\ acked (tag (fth s t)) <> 0) ->
  fmx s = Some t -> fmx s' = None -> ctr (fd s') = ctr (fd s) -> (forall n, fwtg s' n = fwtg s n) ->
  (forall n x, fwait s n x = true -> fwait s' n x = false -> x = t) ->
  (forall x cl, tpc (fth s' x) = PRun2 cl -> tpc (fth s x) = PRun2 cl) ->
  HInv s' (cstep t CkUnlock k) (new_stamps s s' (cstep t CkUnlock k) lf).
Proof.
  intros HC HG HI Hth E1 E2 E3 E5 Hm Hm' Hc Hw Hleave Hrun.
  set (k' := cstep t CkUnlock k).
  assert (Vmono : forall x, vle (vc k x) (vc k' x)) by (intros x; apply cstep_vc_mono).
  destruct (bounds_step t CkUnlock k (h_v0 _ _ _ HI) (h_lc0 _ _ _ HI) (h_mc0 _ _ _ HI)) as (V0' & L0' & M0'). fold k' in V0', L0', M0'.
  assert (LT : lc k' LToAck = lc k LToAck) by reflexivity.
  apply (hinv_mono s k lf t th' s' k' HC HG HI Hth V0' L0' M0' Vmono); try assumption; try reflexivity.
  - rewrite LT. apply vle_refl.
  - unfold MK. rewrite Hm, Hm'. unfold k', cstep, clk_step. cbn [mc]. apply tick_ge.
  - unfold vctr. rewrite Hm, Hm', E3, Hc. reflexivity.
  - left. auto.
  - apply (tkz_same s k lf s' k' t th' HI Hth Vmono LT E5).
  - intros Hmb. left. congruence.
  - intros x cl Hpc. left. now apply Hrun.
Qed.

(* the ack: fetch_sub on agents_to_ack (quiescent_state: acq_rel; offline: acquire, under the mutex) *)
Lemma hinv_rmw s k lf t th' s' st :
  FCore U nown s -> FGhost nown s -> HInv s k lf ->
  (forall x, fth s' x = upd (fth s) t th' x) ->
  site_loc st = LToAck -> is_acq (ord st) = true ->
  (fmx s = Some t \/ is_rel (ord st) = true) ->
  special th' = false -> special (fth s t) = false ->
  1 <= toack (fd s) ->
  fmx s' = fmx s -> ctr (fd s') = ctr (fd s) -> (forall n, fwtg s' n = fwtg s n) ->
  (memb th' = false -> memb (fth s t) = false \/ fmx s = Some t) ->
  (forall n x, fwait s n x = true -> fwait s' n x = false -> x = t) ->
  (forall x cl, tpc (fth s' x) = PRun2 cl -> tpc (fth s x) = PRun2 cl) ->
  HInv s' (cstep t (CkRmw st) k) (new_stamps s s' (cstep t (CkRmw st) k) lf).
Proof.
  intros HC HG HI Hth Hloc Hacq Hown E3 E3' Htp Hm Hc Hw Eoff Hleave Hrun.
  set (k' := cstep t (CkRmw st) k).
  assert (Vmono : forall x, vle (vc k x) (vc k' x)) by (intros x; apply cstep_vc_mono).
  destruct (bounds_step t (CkRmw st) k (h_v0 _ _ _ HI) (h_lc0 _ _ _ HI) (h_mc0 _ _ _ HI)) as (V0' & L0' & M0'). fold k' in V0', L0', M0'.
  assert (Hme : fth s' t = th') by (rewrite Hth; apply upd_same).
  assert (Hoth : forall x, x <> t -> fth s' x = fth s x) by (intros x Hx; rewrite Hth; now apply upd_other).
  assert (Evc : vc k' t = vjoin (tick k t) (lc k LToAck)).
  { unfold k', cstep, clk_step. cbn [vc]. rewrite upd_same, Hacq, Hloc. reflexivity. }
  assert (Elc : lc k' LToAck = if is_rel (ord st) then vjoin (lc k LToAck) (vc k' t) else lc k LToAck).
  { rewrite Evc. unfold k', cstep, clk_step. cbn [lc]. unfold loc_eq_upd. rewrite Hloc. cbn. rewrite Hacq. reflexivity. }
  assert (ELC : lc k' LCtr = lc k LCtr).
  { unfold k', cstep, clk_step. cbn [lc]. unfold loc_eq_upd. rewrite Hloc. reflexivity. }
  assert (EMC : mc k' = mc k) by reflexivity.
  assert (Hspec : forall x, special (fth s' x) = special (fth s x)).
  { intros x. destruct (Nat.eq_dec x t) as [->|Hx]; [rewrite Hme; congruence|now rewrite (Hoth x Hx)]. }
  apply (hinv_mono s k lf t th' s' k' HC HG HI Hth V0' L0' M0' Vmono); try assumption.
  - rewrite Elc. destruct (is_rel (ord st)); [apply vle_join_l|apply vle_refl].
  - unfold MK. rewrite Hm. destruct (fmx s); [apply Vmono|rewrite EMC; apply vle_refl].
  - unfold vctr. rewrite Hm, Hc. destruct (fmx s); [now rewrite Hspec|reflexivity].
  - right. destruct Hown as [Ho|Hr].
    + left. unfold MK. now rewrite Hm, Ho.
    + right. rewrite Elc, Hr. apply vle_join_r.
  - intros z R S A. destruct (Nat.eq_dec z t) as [->|Hz].
    + rewrite Elc. destruct (is_rel (ord st)).
      * apply vle_join_lub; [|apply vle_refl]. rewrite Evc. apply vle_join_r.
      * rewrite Evc. apply vle_join_r.
    + exfalso. rewrite (Hoth z Hz) in R, S. pose proof (f_r2 _ _ _ HC z R S). lia.
  - intros Hmb. destruct (Eoff Hmb) as [E|E]; [now left|right]. unfold MK. now rewrite Hm, E.
  - intros x cl Hpc. left. now apply Hrun.
Qed.

Hypothesis ND : NoDup U.

(* with agents_to_ack = 0 every member has acked the current period *)
Lemma all_acked s : FCore U nown s -> (forall x, special (fth s x) = false) -> toack (fd s) = 0 ->
  forall x, memb (fth s x) = true -> eack (fth s x) = ctr (fd s).
Proof.
  intros HC Hns T0 x M.
  assert (Hv : vctr s = ctr (fd s)).
  { destruct (vctr_cases U nown s HC) as [[E _]|[_ (h & _ & Sp)]]; [assumption|]. rewrite Hns in Sp. discriminate. }
  destruct (f_j1 _ _ _ HC x M) as [E|E]; rewrite Hv in E; [assumption|].
  pose proof (toack_zero_none U nown s HC T0 x) as F. rewrite Hv, needs_eq, M in F.
  apply orb_false_iff in F. destruct F as [_ F]. cbn in F. apply N.eqb_neq in F. contradiction.
Qed.

Lemma only_member s t : FCore U nown s -> nagents (fd s) = 1 -> memb (fth s t) = true ->
  forall x, x <> t -> memb (fth s x) = false.
Proof.
  intros HC H1 Mt x Hx. destruct (memb (fth s x)) eqn:Mx; [|reflexivity].
  pose proof (cnt_two (fun y => memb (fth s y)) U x t ND (memb_in_U U nown s x HC Mx) (memb_in_U U nown s t HC Mt) Hx Mx Mt) as P.
  rewrite <- (f_j3 _ _ _ HC) in P. lia.
Qed.

(* the holder resets agents_to_ack: the virtual period advances; everything published so far is now
   known to the holder *)
Lemma hinv_vbump s k lf t th' s' st :
  FCore U nown s -> FGhost nown s -> HInv s k lf -> In t U ->
  (forall x, fth s' x = upd (fth s) t th' x) ->
  site_loc st = LToAck ->
  fmx s = Some t -> fmx s' = Some t ->
  special (fth s t) = false -> restarter (fth s t) = true -> special th' = true ->
  memb th' = memb (fth s t) -> eack th' = eack (fth s t) ->
  ctr (fd s') = ctr (fd s) -> (forall n, fwtg s' n = fwtg s n) -> (forall n x, fwait s' n x = fwait s n x) ->
  (acked (tag (fth s t)) = 0 -> forall x, x <> t -> memb (fth s x) = false) ->
  (forall x cl, tpc (fth s' x) = PRun2 cl -> tpc (fth s x) = PRun2 cl) ->
  HInv s' (cstep t (CkStore st) k) (new_stamps s s' (cstep t (CkStore st) k) lf).
Proof.
  intros HC HG HI Ht Hth Hloc Hm Hm' Sp Rs Sp' E1 E2 Hc Hw Hfw Hfirst Hrun.
  set (k' := cstep t (CkStore st) k).
  assert (Vmono : forall x, vle (vc k x) (vc k' x)) by (intros x; apply cstep_vc_mono).
  destruct (bounds_step t (CkStore st) k (h_v0 _ _ _ HI) (h_lc0 _ _ _ HI) (h_mc0 _ _ _ HI)) as (V0' & L0' & M0'). fold k' in V0', L0', M0'.
  assert (Hme : fth s' t = th') by (rewrite Hth; apply upd_same).
  assert (Hoth : forall x, x <> t -> fth s' x = fth s x) by (intros x Hx; rewrite Hth; now apply upd_other).
  assert (ELC : lc k' LCtr = lc k LCtr).
  { unfold k', cstep, clk_step. cbn [lc]. unfold loc_eq_upd. rewrite Hloc. reflexivity. }
  assert (Hmemb : forall x, memb (fth s' x) = memb (fth s x)).
  { intros x. destruct (Nat.eq_dec x t) as [->|Hx]; [now rewrite Hme|now rewrite (Hoth x Hx)]. }
  assert (Heack : forall x, eack (fth s' x) = eack (fth s x)).
  { intros x. destruct (Nat.eq_dec x t) as [->|Hx]; [now rewrite Hme|now rewrite (Hoth x Hx)]. }
  assert (Hns : forall x, special (fth s x) = false).
  { intros x. destruct (special (fth s x)) eqn:E; [|reflexivity]. pose proof E as E'. apply special_holds in E.
    apply (f_hold _ _ _ HC x) in E. rewrite Hm in E. inversion E; subst. congruence. }
  assert (T0 : toack (fd s) = 0) by (apply (f_r2 _ _ _ HC t Rs Sp)).
  pose proof (all_acked s HC Hns T0) as Hall.
  assert (Hv : vctr s = ctr (fd s)) by (unfold vctr; now rewrite Hm, Sp).
  assert (Hv' : vctr s' = ctr (fd s) + 1) by (unfold vctr; now rewrite Hm', Hme, Sp', Hc).
  assert (MKe : MK s k = vc k t) by (unfold MK; now rewrite Hm).
  assert (MKe' : MK s' k' = vc k' t) by (unfold MK; now rewrite Hm').
  (* everything that was published is known to t *)
  assert (Hpub : forall n X kx, lf n X = Some kx ->
            (memb (fth s X) = true /\ eack (fth s X) + 1 < fwtg s n) \/ (kx <= vc k' t X)%nat).
  { intros n X kx H0. destruct (h_h _ _ _ HI n X kx H0) as [D|[D|D]]; [now left|right|right].
    - rewrite MKe in D. eapply Nat.le_trans; [exact D|apply Vmono].
    - destruct (N.eq_dec (acked (tag (fth s t))) 0) as [A0|A0].
      + destruct (Nat.eq_dec X t) as [->|HX].
        * eapply Nat.le_trans; [apply (h_v1 _ _ _ HI n t kx H0)|apply Vmono].
        * pose proof (h_off _ _ _ HI n X kx H0 (Hfirst A0 X HX)) as F. rewrite MKe in F.
          eapply Nat.le_trans; [exact F|apply Vmono].
      + eapply Nat.le_trans; [exact D|]. eapply vle_trans; [apply (h_tkz _ _ _ HI t Rs Sp A0)|apply Vmono]. }
  assert (Hold : forall n X kx, new_stamps s s' k' lf n X = Some kx -> lf n X = Some kx).
  { intros n X kx H. destruct (stamps_cases _ _ _ _ _ _ _ H) as [[H0 _]|(W1 & W2 & _)]; [assumption|].
    rewrite Hfw in W2. congruence. }
  constructor.
  - exact V0'.
  - exact L0'.
  - exact M0'.
  - intros n X kx H. eapply Nat.le_trans; [apply (h_v1 _ _ _ HI n X kx (Hold _ _ _ H))|apply Vmono].
  - rewrite ELC, MKe'. eapply vle_trans; [apply (h_m _ _ _ HI)|]. rewrite MKe. apply Vmono.
  - intros z R S A. exfalso. destruct (Nat.eq_dec z t) as [->|Hz]; [rewrite Hme in S; congruence|].
    rewrite (Hoth z Hz) in R. apply Hz. apply (f_r1 _ _ _ HC z t R Rs).
  - intros n X kx H. rewrite Hmemb, Heack, Hw, MKe'.
    destruct (Hpub n X kx (Hold _ _ _ H)) as [D|D]; [now left|right; now left].
  - intros n X kx H Hmb. rewrite Hmemb in Hmb. rewrite MKe'.
    pose proof (h_off _ _ _ HI n X kx (Hold _ _ _ H) Hmb) as F. rewrite MKe in F. eapply Nat.le_trans; [exact F|apply Vmono].
  - intros n X kx H Hle. rewrite Hw, Hv' in Hle. rewrite MKe'.
    destruct (Hpub n X kx (Hold _ _ _ H)) as [[M D]|D]; [|assumption].
    exfalso. rewrite (Hall X M) in D. lia.
  - intros n X kx H Hle. rewrite Hw, Hc in Hle. rewrite ELC. apply (h_c _ _ _ HI n X kx (Hold _ _ _ H) Hle).
  - intros x cl Hpc n X kx H Hle. rewrite Hw in Hle.
    eapply Nat.le_trans; [apply (h_p _ _ _ HI x cl (Hrun x cl Hpc) n X kx (Hold _ _ _ H) Hle)|apply Vmono].
Qed.

(* the holder publishes the new period: a release store of the counter *)
Lemma hinv_store_ctr s k lf t th' s' st :
  FCore U nown s -> FGhost nown s -> HInv s k lf ->
  (forall x, fth s' x = upd (fth s) t th' x) ->
  site_loc st = LCtr -> is_rel (ord st) = true ->
  fmx s = Some t -> fmx s' = Some t ->
  special (fth s t) = true -> restarter (fth s t) = true -> special th' = false -> restarter th' = false ->
  memb th' = memb (fth s t) -> eack th' = eack (fth s t) ->
  ctr (fd s') = ctr (fd s) + 1 -> (forall n, fwtg s' n = fwtg s n) -> (forall n x, fwait s' n x = fwait s n x) ->
  (forall x cl, tpc (fth s' x) = PRun2 cl -> tpc (fth s x) = PRun2 cl) ->
  HInv s' (cstep t (CkStore st) k) (new_stamps s s' (cstep t (CkStore st) k) lf).
Proof.
  intros HC HG HI Hth Hloc Hrel Hm Hm' Sp Rs Sp' Rs' E1 E2 Hc Hw Hfw Hrun.
  set (k' := cstep t (CkStore st) k).
  assert (Vmono : forall x, vle (vc k x) (vc k' x)) by (intros x; apply cstep_vc_mono).
  destruct (bounds_step t (CkStore st) k (h_v0 _ _ _ HI) (h_lc0 _ _ _ HI) (h_mc0 _ _ _ HI)) as (V0' & L0' & M0'). fold k' in V0', L0', M0'.
  assert (Hme : fth s' t = th') by (rewrite Hth; apply upd_same).
  assert (Hoth : forall x, x <> t -> fth s' x = fth s x) by (intros x Hx; rewrite Hth; now apply upd_other).
  assert (Evc : vc k' t = tick k t) by (unfold k', cstep, clk_step; cbn [vc]; apply upd_same).
  assert (ELC : lc k' LCtr = tick k t).
  { unfold k', cstep, clk_step. cbn [lc]. unfold loc_eq_upd. rewrite Hloc, Hrel. reflexivity. }
  assert (ELT : lc k' LToAck = lc k LToAck).
  { unfold k', cstep, clk_step. cbn [lc]. unfold loc_eq_upd. rewrite Hloc. reflexivity. }
  assert (Hmemb : forall x, memb (fth s' x) = memb (fth s x)).
  { intros x. destruct (Nat.eq_dec x t) as [->|Hx]; [now rewrite Hme|now rewrite (Hoth x Hx)]. }
  assert (Heack : forall x, eack (fth s' x) = eack (fth s x)).
  { intros x. destruct (Nat.eq_dec x t) as [->|Hx]; [now rewrite Hme|now rewrite (Hoth x Hx)]. }
  assert (Hv : vctr s = ctr (fd s) + 1) by (unfold vctr; now rewrite Hm, Sp).
  assert (Hv' : vctr s' = ctr (fd s) + 1) by (unfold vctr; now rewrite Hm', Hme, Sp', Hc).
  assert (MKe : MK s k = vc k t) by (unfold MK; now rewrite Hm).
  assert (MKe' : MK s' k' = vc k' t) by (unfold MK; now rewrite Hm').
  assert (Hold : forall n X kx, new_stamps s s' k' lf n X = Some kx -> lf n X = Some kx).
  { intros n X kx H. destruct (stamps_cases _ _ _ _ _ _ _ H) as [[H0 _]|(W1 & W2 & _)]; [assumption|].
    rewrite Hfw in W2. congruence. }
  constructor.
  - exact V0'.
  - exact L0'.
  - exact M0'.
  - intros n X kx H. eapply Nat.le_trans; [apply (h_v1 _ _ _ HI n X kx (Hold _ _ _ H))|apply Vmono].
  - rewrite ELC, MKe', Evc. apply vle_refl.
  - intros z R S A. exfalso. destruct (Nat.eq_dec z t) as [->|Hz]; [rewrite Hme in R; congruence|].
    rewrite (Hoth z Hz) in R. apply Hz. apply (f_r1 _ _ _ HC z t R Rs).
  - intros n X kx H. rewrite Hmemb, Heack, Hw, MKe', ELT.
    destruct (h_h _ _ _ HI n X kx (Hold _ _ _ H)) as [D|[D|D]]; [now left|right; left|now right; right].
    rewrite MKe in D. eapply Nat.le_trans; [exact D|apply Vmono].
  - intros n X kx H Hmb. rewrite Hmemb in Hmb. rewrite MKe'.
    pose proof (h_off _ _ _ HI n X kx (Hold _ _ _ H) Hmb) as F. rewrite MKe in F. eapply Nat.le_trans; [exact F|apply Vmono].
  - intros n X kx H Hle. rewrite Hw, Hv', <- Hv in Hle. rewrite MKe'.
    pose proof (h_c' _ _ _ HI n X kx (Hold _ _ _ H) Hle) as F. rewrite MKe in F. eapply Nat.le_trans; [exact F|apply Vmono].
  - intros n X kx H Hle. rewrite Hw, Hc, <- Hv in Hle. rewrite ELC.
    pose proof (h_c' _ _ _ HI n X kx (Hold _ _ _ H) Hle) as F. rewrite MKe in F. eapply Nat.le_trans; [exact F|apply tick_ge].
  - intros x cl Hpc n X kx H Hle. rewrite Hw in Hle.
    eapply Nat.le_trans; [apply (h_p _ _ _ HI x cl (Hrun x cl Hpc) n X kx (Hold _ _ _ H) Hle)|apply Vmono].
Qed.

(* await_barrier forms a new waiting set for node n (target ctr + 2) *)
Lemma hinv_ab1 s k lf t th' s' n :
  FCore U nown s -> FGhost nown s -> HInv s k lf ->
  (forall x, fth s' x = upd (fth s) t th' x) ->
  memb th' = memb (fth s t) -> eack th' = eack (fth s t) -> special th' = special (fth s t) ->
  restarter th' = restarter (fth s t) -> acked (tag th') = acked (tag (fth s t)) ->
  fmx s' = fmx s -> ctr (fd s') = ctr (fd s) ->
  fwtg s' = upd (fwtg s) n (ctr (fd s) + 2) -> fwait s' = upd (fwait s) n (f_active s) ->
  (forall x cl, tpc (fth s' x) = PRun2 cl -> tpc (fth s x) = PRun2 cl) ->
  HInv s' (cstep t (CkLoad S_ab_ctr_ld) k) (new_stamps s s' (cstep t (CkLoad S_ab_ctr_ld) k) lf).
Proof.
  intros HC HG HI Hth E1 E2 E3 E5 E8 Hm Hc Hw Hfw Hrun.
  set (k' := cstep t (CkLoad S_ab_ctr_ld) k).
  assert (B : benign (CkLoad S_ab_ctr_ld)) by exact I.
  destruct (benign_same t _ k B) as (LT & LC & MC). fold k' in LT, LC, MC.
  assert (Vmono : forall x, vle (vc k x) (vc k' x)) by (intros x; apply cstep_vc_mono).
  destruct (bounds_step t (CkLoad S_ab_ctr_ld) k (h_v0 _ _ _ HI) (h_lc0 _ _ _ HI) (h_mc0 _ _ _ HI)) as (V0' & L0' & M0'). fold k' in V0', L0', M0'.
  assert (Hme : fth s' t = th') by (rewrite Hth; apply upd_same).
  assert (Hoth : forall x, x <> t -> fth s' x = fth s x) by (intros x Hx; rewrite Hth; now apply upd_other).
  assert (Hmemb : forall x, memb (fth s' x) = memb (fth s x)).
  { intros x. destruct (Nat.eq_dec x t) as [->|Hx]; [now rewrite Hme|now rewrite (Hoth x Hx)]. }
  assert (Heack : forall x, eack (fth s' x) = eack (fth s x)).
  { intros x. destruct (Nat.eq_dec x t) as [->|Hx]; [now rewrite Hme|now rewrite (Hoth x Hx)]. }
  assert (Hspec : forall x, special (fth s' x) = special (fth s x)).
  { intros x. destruct (Nat.eq_dec x t) as [->|Hx]; [now rewrite Hme|now rewrite (Hoth x Hx)]. }
  assert (Hv : vctr s' = vctr s) by (unfold vctr; rewrite Hm, Hc; destruct (fmx s); [now rewrite Hspec|reflexivity]).
  assert (MKmono : vle (MK s k) (MK s' k')).
  { unfold MK. rewrite Hm. destruct (fmx s); [apply Vmono|rewrite MC; apply vle_refl]. }
  (* nobody leaves a waiting set at this step: the members of the old set of n are awake *)
  assert (Hold : forall m X kx, new_stamps s s' k' lf m X = Some kx -> lf m X = Some kx /\ fwait s' m X = false).
  { intros m X kx H. unfold new_stamps in H. destruct (fwait s' m X) eqn:W'; [discriminate|].
    destruct (fwait s m X) eqn:W; [|auto]. exfalso.
    rewrite Hfw in W'. destruct (Nat.eq_dec m n) as [->|Hmn].
    - rewrite upd_same in W'. destruct (f_k _ _ HG n X W) as (A1 & A2 & _).
      unfold f_active, online_b in W'. rewrite A2 in W'. cbn in W'.
      destruct (acked (tag (fth s X)) =? 0) eqn:Z; [apply N.eqb_eq in Z; contradiction|discriminate].
    - rewrite (upd_other _ n _ m Hmn) in W'. congruence. }
  pose proof (ctr_le_vctr s HC) as Hcv.
  assert (Hvb : vctr s <= ctr (fd s) + 1).
  { destruct (vctr_cases U nown s HC) as [[E _]|[E _]]; rewrite E; lia. }
  constructor.
  - exact V0'.
  - exact L0'.
  - exact M0'.
  - intros m X kx H. eapply Nat.le_trans; [apply (h_v1 _ _ _ HI m X kx (proj1 (Hold _ _ _ H)))|apply Vmono].
  - rewrite LC. eapply vle_trans; [apply (h_m _ _ _ HI)|exact MKmono].
  - apply (tkz_same s k lf s' k' t th' HI Hth Vmono LT). intros R S A. rewrite E5 in R. rewrite E3 in S. rewrite E8 in A. auto.
  - intros m X kx H. destruct (Hold _ _ _ H) as [H0 _]. rewrite Hmemb, Heack, Hw, LT.
    destruct (Nat.eq_dec m n) as [->|Hmn].
    + rewrite upd_same. destruct (memb (fth s X)) eqn:M.
      * left. split; [reflexivity|]. pose proof (f_le _ _ _ HC X M). lia.
      * right. left. eapply Nat.le_trans; [apply (h_off _ _ _ HI n X kx H0 M)|apply MKmono].
    + rewrite (upd_other _ n _ m Hmn). destruct (h_h _ _ _ HI m X kx H0) as [D|[D|D]]; [now left|right; left|now right; right].
      eapply Nat.le_trans; [exact D|apply MKmono].
  - intros m X kx H Hmb. rewrite Hmemb in Hmb.
    eapply Nat.le_trans; [apply (h_off _ _ _ HI m X kx (proj1 (Hold _ _ _ H)) Hmb)|apply MKmono].
  - intros m X kx H Hle. rewrite Hw, Hv in Hle. destruct (Nat.eq_dec m n) as [->|Hmn].
    + rewrite upd_same in Hle. lia.
    + rewrite (upd_other _ n _ m Hmn) in Hle.
      eapply Nat.le_trans; [apply (h_c' _ _ _ HI m X kx (proj1 (Hold _ _ _ H)) Hle)|apply MKmono].
  - intros m X kx H Hle. rewrite Hw, Hc in Hle. rewrite LC. destruct (Nat.eq_dec m n) as [->|Hmn].
    + rewrite upd_same in Hle. lia.
    + rewrite (upd_other _ n _ m Hmn) in Hle. apply (h_c _ _ _ HI m X kx (proj1 (Hold _ _ _ H)) Hle).
  - intros x cl Hpc m X kx H Hle. rewrite Hw in Hle. pose proof (Hrun x cl Hpc) as Hpc0.
    pose proof (f_loc _ _ _ HC x) as [_ L]. rewrite Hpc0 in L.
    destruct (Nat.eq_dec m n) as [->|Hmn].
    + rewrite upd_same in Hle. lia.
    + rewrite (upd_other _ n _ m Hmn) in Hle.
      eapply Nat.le_trans; [apply (h_p _ _ _ HI x cl Hpc0 m X kx (proj1 (Hold _ _ _ H)) Hle)|apply Vmono].
Qed.

End Hb.

(* ---------------------------------------------------------------------------------------- *)
(* every step preserves the happens-before invariant                                          *)
(* ---------------------------------------------------------------------------------------- *)

Ltac pw := let x := fresh "x" in intros x; cbn; reflexivity.

Ltac hb_attr Epc := intros; unfold memb, eack, special, holds, restarter, isoff2; split_ret; cbn; rewrite ?Epc; cbn; try reflexivity.

Ltac hb_e5 Epc :=
  let R := fresh "R" in let S := fresh "S" in let A := fresh "A" in
  intros R S A; repeat split; revert R S A; unfold restarter, special; split_ret; cbn; rewrite ?Epc; cbn;
  intros; try assumption; try discriminate; try congruence.

Ltac hb_leave t :=
  let n := fresh "n" in let x := fresh "x" in let W1 := fresh "W1" in let W2 := fresh "W2" in let E := fresh "E" in
  intros n x W1 W2; cbn in W2;
  first [ congruence
        | destruct (Nat.eqb x t) eqn:E; [apply Nat.eqb_eq in E; exact E | congruence] ].

Ltac hb_run t Epc :=
  let x := fresh "x" in let cl := fresh "cl" in let Hpc := fresh "Hpc" in let E := fresh "E" in
  intros x cl Hpc; cbn in Hpc; unfold upd in Hpc; destruct (Nat.eqb x t) eqn:E;
  [ apply Nat.eqb_eq in E; subst x; revert Hpc; split_ret; cbn; rewrite ?Epc; intros Hpc;
    first [ discriminate Hpc | left; exact Hpc | (inversion Hpc; subst; right; repeat split; reflexivity) | (left; rewrite Epc; exact Hpc) ]
  | first [left; exact Hpc | exact Hpc] ].

Ltac hb_quiet ord ord_fail Hord U nown HC HG HI t Epc :=
  eapply (hinv_quiet ord ord_fail Hord U nown _ _ _ t _ _ _ HC HG HI);
  [ pw
  | left; split; [hb_attr Epc | hb_attr Epc]
  | hb_attr Epc
  | hb_e5 Epc
  | cbn; reflexivity | cbn; reflexivity | intros; reflexivity
  | first [exact I | reflexivity]
  | hb_leave t
  | hb_run t Epc ].

Ltac hb_stutter ord ord_fail Hord U nown HC HG HI t :=
  match goal with |- HInv ?s0 _ _ =>
  eapply (hinv_quiet ord ord_fail Hord U nown s0 _ _ t (fth s0 t) s0 CkNone HC HG HI);
  [ let x := fresh "x" in let E := fresh "E" in
    intros x; unfold upd; destruct (Nat.eqb x t) eqn:E; [apply Nat.eqb_eq in E; now subst|reflexivity]
  | left; split; reflexivity
  | reflexivity
  | intros; auto
  | reflexivity | reflexivity | intros; reflexivity | exact I
  | intros; congruence
  | intros; left; assumption ] end.

Ltac hb_lock ord ord_fail Hord U nown HC HG HI t Epc :=
  match goal with Hmx : fmx _ = None |- _ =>
  eapply (hinv_lock ord ord_fail Hord U nown _ _ _ t _ _ HC HG HI);
  [ pw | hb_attr Epc | hb_attr Epc | hb_attr Epc | hb_e5 Epc
  | exact Hmx | cbn; reflexivity | cbn; reflexivity | intros; reflexivity
  | hb_leave t
  | let x := fresh "x" in let cl := fresh "cl" in let Hpc := fresh "Hpc" in let E := fresh "E" in
    intros x cl Hpc; cbn in Hpc; unfold upd in Hpc; destruct (Nat.eqb x t) eqn:E; [cbn in Hpc; discriminate Hpc|exact Hpc] ] end.

Ltac get_loc U nown HC t Epc :=
  let L := fresh "L" in pose proof (f_loc U nown _ HC t) as L; unfold local_ok in L; rewrite Epc in L; cbn in L.

Ltac get_holder U nown HC t Epc :=
  let Hh := fresh "Hh" in
  assert (Hh : holds (fth _ t) = true) by (unfold holds; now rewrite Epc);
  assert (Hmx : fmx _ = Some t) by (apply (f_hold U nown _ HC t); exact Hh).

Ltac no_run t :=
  let x := fresh "x" in let cl := fresh "cl" in let Hpc := fresh "Hpc" in let E := fresh "E" in
  intros x cl Hpc; cbn in Hpc; unfold upd in Hpc; destruct (Nat.eqb x t) eqn:E;
  [revert Hpc; split_ret; cbn; intros Hpc; discriminate Hpc|exact Hpc].

Ltac hb_vbump ord ord_fail Hord U nown ND HC HG HI Ht t Epc :=
  get_holder U nown HC t Epc;
  eapply (hinv_vbump ord ord_fail Hord U nown _ _ _ t _ _ _ HC HG HI Ht);
  [ pw | reflexivity | eassumption | cbn; eassumption
  | hb_attr Epc | unfold restarter; rewrite Epc; try apply orb_true_r | hb_attr Epc | hb_attr Epc | hb_attr Epc
  | cbn; reflexivity | intros; reflexivity | intros; reflexivity
  | | no_run t ].

Ltac hb_store ord ord_fail Hord U nown HC HG HI t Epc Hrel :=
  get_holder U nown HC t Epc;
  eapply (hinv_store_ctr ord ord_fail Hord U nown _ _ _ t _ _ _ HC HG HI);
  [ pw | reflexivity | exact Hrel | eassumption | cbn; eassumption
  | hb_attr Epc | unfold restarter; rewrite Epc; try apply orb_true_r | hb_attr Epc | | hb_attr Epc | hb_attr Epc
  | | intros; reflexivity | intros; reflexivity | no_run t ].

Ltac no_run_q t :=
  let x := fresh "x" in let cl := fresh "cl" in let Hpc := fresh "Hpc" in
  intros x cl Hpc; left; revert Hpc; cbn; unfold upd; destruct (Nat.eqb x t); [split_ret; cbn; discriminate|auto].

Ltac holder_is_t2 :=
  match goal with Hmx : fmx ?s = Some ?h, E : (?h =? ?t)%nat = true |- _ => apply Nat.eqb_eq in E; subst h end.

Section HbStep.
Variable ord ord_fail : site -> mo.
Hypothesis Hord : orders_sufficient ord = true.
Variable U : list tid.
Variable nown : nid -> tid.
Hypothesis ND : NoDup U.
Hypothesis HB : few U.

Lemma hstep_inv t s k lf s' evs op :
  In t U -> FCore U nown s -> FGhost nown s -> HInv s k lf -> fstop s = None ->
  fstep t s = (s', evs, op) -> fstop s' = None ->
  HInv s' (cstep ord ord_fail t op k) (new_stamps s s' (cstep ord ord_fail t op k) lf).
Proof.
  intros Ht HC HG HI Hstop H Hns.
  fstep_inv H Hstop.
  all: try (cbn in Hns; discriminate).
  all: clear Hns.
  all: try solve [hb_quiet ord ord_fail Hord U nown HC HG HI t Epc].
  all: try solve [hb_stutter ord ord_fail Hord U nown HC HG HI t].
  all: try solve [hb_lock ord ord_fail Hord U nown HC HG HI t Epc].
  1,2: ((* POn1: online(), the holder becomes a member *)
    get_loc U nown HC t Epc; destruct L as (L0 & La & Ld); get_holder U nown HC t Epc;
    eapply (hinv_quiet ord ord_fail Hord U nown _ _ _ t _ _ _ HC HG HI);
    [ pw | right; exact Hmx | hb_attr Epc
    | intros R S A; exfalso; apply A; cbn; exact La
    | cbn; reflexivity | cbn; reflexivity | intros; reflexivity | exact I
    | hb_leave t
    | intros x cl Hpc; left; revert Hpc; cbn; unfold upd; destruct (Nat.eqb x t); [cbn; discriminate|auto] ]).
  1: { (* POn3 -> POn4: the first agent sets agents_to_ack *)
    get_loc U nown HC t Epc. destruct L as (L0 & La & Ld & Lc & Ln & L1).
    hb_vbump ord ord_fail Hord U nown ND HC HG HI Ht t Epc.
    intros _. eapply (only_member _ Hord U nown ND s t HC Ln). unfold memb. now rewrite Epc. }
  1: { (* POn4 -> POn5: the first agent publishes the period *)
    get_loc U nown HC t Epc. destruct L as (L0 & La & Ld & Lc & Ln & L1).
    destruct (ord_facts ord Hord) as (_ & _ & _ & Hrel & _).
    hb_store ord ord_fail Hord U nown HC HG HI t Epc Hrel.
    - unfold restarter. cbn. now rewrite Ld.
    - cbn. now rewrite Lc. }
  1: { (* POn5 -> idle: unlock; acked := c *)
    holder_is_t2. get_loc U nown HC t Epc. destruct L as (L0 & La & Ld & L1).
    assert (Hr : tret (fth s t) = None) by (apply L0; reflexivity).
    assert (Hc0 : (c =? 0) = false) by (apply N.eqb_neq; clear - L1; lia).
    unfold ret_th. cbn [tret with_ag]. rewrite Hr.
    eapply (hinv_unlock ord ord_fail Hord U nown _ _ _ t _ _ HC HG HI).
    - pw.
    - unfold memb. cbn. rewrite Epc, Hc0. reflexivity.
    - intros _. unfold eack. cbn. rewrite Epc. reflexivity.
    - unfold special. now rewrite Epc.
    - intros R. unfold restarter in R. cbn in R. rewrite Ld in R. discriminate.
    - exact Heqo.
    - reflexivity.
    - reflexivity.
    - intros; reflexivity.
    - hb_leave t.
    - no_run t. }
  1,2: ((* POff1: offline(), the holder stops being a member *)
    get_loc U nown HC t Epc; destruct L as (L0 & La & Ld); get_holder U nown HC t Epc;
    eapply (hinv_quiet ord ord_fail Hord U nown _ _ _ t _ _ _ HC HG HI);
    [ pw | right; eassumption | hb_attr Epc
    | intros R; exfalso; unfold restarter in R; cbn in R; rewrite Ld in R; discriminate
    | cbn; reflexivity | cbn; reflexivity | intros; reflexivity | exact I
    | hb_leave t
    | intros x cl Hpc; left; revert Hpc; cbn; unfold upd; destruct (Nat.eqb x t); [cbn; discriminate|auto] ]).
  1,2: ((* POff2: the ack of offline(), under the mutex *)
    get_holder U nown HC t Epc;
    assert (Hnd : needs (vctr s) (fth s t) = true) by (unfold needs; now rewrite Epc);
    pose proof (toack_pos U nown s t HC Hnd) as Htp;
    destruct (ord_facts ord Hord) as (_ & _ & Hacq & _);
    eapply (hinv_rmw ord ord_fail Hord U nown _ _ _ t _ _ S_off_fsub HC HG HI);
    [ pw | reflexivity | exact Hacq | left; eassumption | hb_attr Epc | hb_attr Epc | exact Htp
    | cbn; reflexivity | cbn; reflexivity | intros; reflexivity
    | intros _; right; eassumption
    | hb_leave t | no_run t ]).
  1: { (* POff3 -> POff4 *)
    get_loc U nown HC t Epc. destruct L as (L0 & La & Ld & Lc & Le).
    hb_vbump ord ord_fail Hord U nown ND HC HG HI Ht t Epc.
    intros A0. contradiction. }
  1: { (* POff4 -> POff5 *)
    get_loc U nown HC t Epc. destruct L as (L0 & La & Ld & Lc & Le).
    destruct (ord_facts ord Hord) as (_ & _ & _ & _ & Hrel & _).
    hb_store ord ord_fail Hord U nown HC HG HI t Epc Hrel.
    - unfold restarter. cbn. now rewrite Ld.
    - cbn. now rewrite Lc. }
  1: { (* POff5 -> idle: unlock; acked := 0 *)
    holder_is_t2. get_loc U nown HC t Epc. destruct L as (L0 & Ld).
    assert (Hr : tret (fth s t) = None) by (apply L0; reflexivity).
    unfold ret_th. cbn [tret with_ag]. rewrite Hr.
    eapply (hinv_unlock ord ord_fail Hord U nown _ _ _ t _ _ HC HG HI).
    - pw.
    - unfold memb. cbn. rewrite Epc. reflexivity.
    - unfold memb. cbn. discriminate.
    - unfold special. now rewrite Epc.
    - intros R. unfold restarter in R. cbn in R. rewrite Ld in R. discriminate.
    - exact Heqo.
    - reflexivity.
    - reflexivity.
    - intros; reflexivity.
    - hb_leave t.
    - no_run t. }
  1: { (* PQd4 -> PQd5: the deferred period is restarted *)
    get_loc U nown HC t Epc. destruct L as (L0 & La & Ld). get_holder U nown HC t Epc.
    eapply (hinv_vbump ord ord_fail Hord U nown _ _ _ t _ _ _ HC HG HI Ht).
    - pw.
    - reflexivity.
    - exact Hmx.
    - cbn. exact Hmx.
    - unfold special. now rewrite Epc.
    - unfold restarter. now rewrite Ld.
    - reflexivity.
    - unfold memb. cbn. now rewrite Epc.
    - unfold eack. cbn. now rewrite Epc.
    - reflexivity.
    - intros; reflexivity.
    - intros; reflexivity.
    - intros A0. contradiction.
    - no_run t. }
  1: { (* PQd5 -> PQd6 *)
    get_loc U nown HC t Epc. destruct L as (L0 & La & Ld). get_holder U nown HC t Epc.
    destruct (f_j4 _ _ _ HC t Ld) as [_ Hac].
    destruct (ord_facts ord Hord) as (_ & _ & _ & _ & _ & Hrel & _).
    eapply (hinv_store_ctr ord ord_fail Hord U nown _ _ _ t _ _ _ HC HG HI).
    - pw.
    - reflexivity.
    - exact Hrel.
    - exact Hmx.
    - cbn. exact Hmx.
    - unfold special. now rewrite Epc.
    - unfold restarter. now rewrite Ld.
    - reflexivity.
    - reflexivity.
    - unfold memb. cbn. now rewrite Epc.
    - unfold eack. cbn. now rewrite Epc.
    - cbn. now rewrite Hac.
    - intros; reflexivity.
    - intros; reflexivity.
    - no_run t. }
  1: { (* PQd6 -> return: unlock *)
    holder_is_t2. get_loc U nown HC t Epc. destruct L as (L0 & La & Ld).
    unfold ret_th. destruct (tret (fth s t)) eqn:Hr.
    all: eapply (hinv_unlock ord ord_fail Hord U nown _ _ _ t _ _ HC HG HI);
      [ pw | unfold memb; cbn; now rewrite Epc | intros _; unfold eack; cbn; now rewrite Epc
      | unfold special; now rewrite Epc
      | intros R; unfold restarter in R; cbn in R; rewrite Ld in R; discriminate
      | exact Heqo | reflexivity | reflexivity | intros; reflexivity | hb_leave t | no_run t ]. }
  1,2: ((* PQ2: the ack of quiescent_state(), an acq_rel fetch_sub *)
    get_loc U nown HC t Epc; destruct L as (L0 & La & Ld & Lc & Le);
    assert (Hm1 : memb (fth s t) = true) by
      (unfold memb; rewrite Epc; destruct (acked (tag (fth s t)) =? 0) eqn:Z; [apply N.eqb_eq in Z; contradiction|reflexivity]);
    assert (Hv : vctr s = ctr (fd s)) by
      (destruct (vctr_cases U nown s HC) as [[E _]|[E _]]; [assumption|exfalso];
       destruct (f_j1 _ _ _ HC t Hm1) as [F|F]; unfold eack in F; rewrite Epc, E in F; clear - F Lc Le; lia);
    assert (Hnd : needs (vctr s) (fth s t) = true) by
      (rewrite needs_eq, Hm1, Hv; unfold eack; rewrite Epc; cbn;
       destruct (acked (tag (fth s t)) + 1 =? ctr (fd s)) eqn:Z2; [apply orb_true_r|apply N.eqb_neq in Z2; clear - Z2 Lc Le; lia]);
    pose proof (toack_pos U nown s t HC Hnd) as Htp;
    assert (Hz : (acked (tag (fth s t)) + 1 =? 0) = false) by (apply N.eqb_neq; clear; lia);
    assert (Hz0 : (acked (tag (fth s t)) =? 0) = false) by (now apply N.eqb_neq);
    destruct (ord_facts ord Hord) as (Hacq & Hrel & _);
    eapply (hinv_rmw ord ord_fail Hord U nown _ _ _ t _ _ S_q_fsub HC HG HI);
    [ pw | reflexivity | exact Hacq | right; exact Hrel | hb_attr Epc | hb_attr Epc | exact Htp
    | cbn; reflexivity | cbn; reflexivity | intros; reflexivity
    | intros M; exfalso; revert M; unfold memb; split_ret; cbn; rewrite ?Hz, ?Hz0; discriminate
    | hb_leave t | no_run t ]).
  1: { (* PQ3 -> return: the period is deferred *)
    get_loc U nown HC t Epc. destruct L as (L0 & La & Ld & Lc & Le).
    assert (Hz : (acked (tag (fth s t)) + 1 =? 0) = false) by (apply N.eqb_neq; clear; lia).
    assert (Hz0 : (acked (tag (fth s t)) =? 0) = false) by (now apply N.eqb_neq).
    unfold ret_th. cbn [tret with_ag]. destruct (tret (fth s t)) eqn:Hr.
    all: eapply (hinv_quiet ord ord_fail Hord U nown _ _ _ t _ _ _ HC HG HI);
      [ pw
      | left; split; [unfold memb; cbn; now rewrite Epc, Hz, Hz0 | intros _; unfold eack; cbn; now rewrite Epc]
      | unfold special; cbn; now rewrite Epc
      | intros _ _ _; repeat split; [unfold restarter; rewrite Epc; apply orb_true_r | unfold special; now rewrite Epc | exact La]
      | reflexivity | reflexivity | intros; reflexivity | exact I
      | hb_leave t | no_run_q t ]. }
  1: { (* PQ5 -> PQ6 *)
    get_loc U nown HC t Epc. destruct L as (L0 & La & Ld & Lc & Le).
    hb_vbump ord ord_fail Hord U nown ND HC HG HI Ht t Epc.
    intros A0. contradiction. }
  1: { (* PQ6 -> PQ7 *)
    get_loc U nown HC t Epc. destruct L as (L0 & La & Ld & Lc & Le).
    destruct (ord_facts ord Hord) as (_ & _ & _ & _ & _ & _ & Hrel & _).
    hb_store ord ord_fail Hord U nown HC HG HI t Epc Hrel.
    - unfold restarter. cbn. now rewrite Ld.
    - cbn. now rewrite Lc. }
  1: { (* PQ7 -> return: unlock; acked++ *)
    holder_is_t2. get_loc U nown HC t Epc. destruct L as (L0 & La & Ld).
    assert (Hz : (acked (tag (fth s t)) + 1 =? 0) = false) by (apply N.eqb_neq; clear; lia).
    assert (Hz0 : (acked (tag (fth s t)) =? 0) = false) by (now apply N.eqb_neq).
    unfold ret_th. cbn [tret with_ag]. destruct (tret (fth s t)) eqn:Hr.
    all: eapply (hinv_unlock ord ord_fail Hord U nown _ _ _ t _ _ HC HG HI);
      [ pw | unfold memb; cbn; now rewrite Epc, Hz, Hz0 | intros _; unfold eack; cbn; now rewrite Epc
      | unfold special; now rewrite Epc
      | intros R; unfold restarter in R; cbn in R; rewrite Ld in R; discriminate
      | exact Heqo | reflexivity | reflexivity | intros; reflexivity | hb_leave t | no_run t ]. }
  1: { (* PAb1 -> PAb2: a new waiting set *)
    eapply (hinv_ab1 ord ord_fail Hord U nown _ _ _ t _ _ n HC HG HI).
    - pw.
    - unfold memb. cbn. now rewrite Epc.
    - unfold eack. cbn. now rewrite Epc.
    - unfold special. cbn. now rewrite Epc.
    - unfold restarter. cbn. now rewrite Epc.
    - reflexivity.
    - reflexivity.
    - reflexivity.
    - reflexivity.
    - reflexivity.
    - no_run t. }
Qed.

(* ---- the initial state, runs, and the theorem ---- *)

Lemma hinv_init scripts : HInv (f0 scripts) clk0 (fun _ _ => None).
Proof.
  constructor; cbn; intros; try discriminate; try apply Nat.le_refl; try apply vle_zero.
Qed.

Lemma new_stamps_stopped s k lf n x :
  new_stamps s s k lf n x = Some (vc k x x) \/ new_stamps s s k lf n x = None \/ new_stamps s s k lf n x = lf n x.
Proof. unfold new_stamps. destruct (fwait s n x); auto. Qed.

(* one step of the model with clocks, for the orders [ord] *)
Definition hstep' (t : tid) (h : hstate) : hstate * list wev := hstep ord ord_fail t h.

Fixpoint hrun (sched : list tid) (h : hstate) (tr : list wev) : hstate * list wev :=
  match sched with
  | [] => (h, tr)
  | t :: r => let '(h', evs) := hstep' t h in hrun r h' (tr ++ evs)
  end.

Definition HAll (h : hstate) : Prop :=
  fstop (hf h) = None -> FCore U nown (hf h) /\ FGhost nown (hf h) /\ HInv (hf h) (hk h) (hleft h).

Lemma hstep_all t h h' evs : HAll h -> hstep' t h = (h', evs) -> HAll h'.
Proof.
  intros HA H. unfold hstep', hstep in H.
  destruct (fstep t (hf h)) as [[s' e] op] eqn:E. inversion H; subst h' evs; clear H. intros Hns. cbn in Hns.
  destruct (fstop (hf h)) eqn:Hstop.
  - exfalso. rewrite fstep_stopped in E by congruence. inversion E; subst. congruence.
  - destruct (HA Hstop) as (HC & HG & HI). cbn [hf hk hleft].
    destruct (in_dec Nat.eq_dec t U) as [Ht|Ht].
    + split; [apply (fstep_core U nown ND HB t (hf h) s' e op Ht HC HG Hstop E Hns)|].
      split; [apply (fstep_ghost U nown t (hf h) s' e op HC HG Hstop E Hns)|].
      apply (hstep_inv t (hf h) (hk h) (hleft h) s' e op Ht HC HG HI Hstop E Hns).
    + pose proof (fstep_outside U nown (hf h) t HC Ht) as E'. rewrite E' in E. inversion E; subst s' e op.
      split; [assumption|]. split; [assumption|].
      (* a thread outside U: nothing moves, its clock ticks *)
      match goal with |- HInv ?s0 _ _ =>
        eapply (hinv_quiet ord ord_fail Hord U nown s0 _ _ t (fth s0 t) s0 CkNone HC HG HI) end;
      [ intros x; unfold upd; destruct (Nat.eqb x t) eqn:Ex; [apply Nat.eqb_eq in Ex; now subst|reflexivity]
      | left; split; reflexivity | reflexivity | intros; auto
      | reflexivity | reflexivity | intros; reflexivity | exact I
      | intros; congruence | intros; left; assumption ].
Qed.

Lemma hrun_all : forall sched h tr h' tr', HAll h -> hrun sched h tr = (h', tr') -> HAll h'.
Proof.
  induction sched as [|t r IH]; intros h tr h' tr' HA H; cbn in H; [now inversion H; subst|].
  destruct (hstep' t h) as [h1 e1] eqn:E. apply (IH h1 (tr ++ e1) h' tr'); [|exact H].
  apply (hstep_all t h h1 e1 HA E).
Qed.

(* the theorem: at the callback of n, the caller's clock covers, for every agent X that left
   waiting(n), X's own time when it left *)
Theorem hb_callback t h h' evs n t' :
  HAll h -> hstep' t h = (h', evs) -> In (WCb n t') evs ->
  forall X kx, hleft h n X = Some kx -> (kx <= vc (hk h') t' X)%nat.
Proof.
  intros HA H Hin X kx Hl. unfold hstep', hstep in H.
  destruct (fstep t (hf h)) as [[s' e] op] eqn:E. inversion H; subst h' evs; clear H. cbn [hk].
  destruct (fstop (hf h)) eqn:Hstop.
  - exfalso. rewrite fstep_stopped in E by congruence. inversion E; subst. destruct Hin.
  - destruct (HA Hstop) as (HC & HG & HI).
    destruct (fg_grace_period U nown t (hf h) s' e op n t' HC HG Hstop E Hin) as (-> & [c Hpc] & Hown & _).
    assert (Hle : fwtg (hf h) n <= c /\ op = CkNone).
    { clear Hl. revert E Hin. generalize (hf h) Hstop HC HG Hpc Hown. clear. intros s Hstop HC HG Hpc Hown E Hin.
      unfold fstep, f_step in E. rewrite Hstop, Hpc in E. cbv zeta in E.
      destruct (pending (tag (fth s t))) as [|n0 l] eqn:Hp; [inversion E; subst; destruct Hin|].
      destruct (c <? ftarget s n0) eqn:Hc.
      - inversion E; subst. destruct Hin as [F|[]]. discriminate.
      - inversion E; subst e op s'. clear E.
        assert (n0 = n).
        { cbn in Hin. repeat (destruct Hin as [Hin|Hin]; try discriminate); [|contradiction]. now inversion Hin. }
        subst n0. split; [|reflexivity].
        assert (Hnt : In n (pending (tag (fth s t)))) by (rewrite Hp; now left).
        destruct (f_p1 _ _ HG t n Hnt) as [Hnz _].
        destruct (f_m _ _ HG n Hnz) as (o & Ho & _ & Hor). assert (o = t) by congruence. subst o.
        destruct Hor as [F|F]; [|unfold in_await in F; rewrite Hpc in F; discriminate].
        apply N.ltb_ge in Hc. lia. }
    destruct Hle as [Hle ->].
    eapply Nat.le_trans; [apply (h_p _ _ _ HI t c Hpc n X kx Hl Hle)|]. apply cstep_vc_mono.
  exact Hord.
Qed.

End HbStep.
