(* Model of include/frg/qs.hpp (qs_domain / qs_agent / qs.hpp's lock_guard) -- definitions only.

   Part A  facts taken from the generated Gen/QsOrders.v (clang AST of the current source): what the
           lock_guard constructor/destructor call on the mutex, the memory order of every atomic
           access, whether run() pops the node before invoking its callback, and the skeleton
           (sequence of atomic accesses / guard scopes / control structure) of every member function,
           to be compared with the skeleton the program counters of Part C follow.
   Part B  whole-operation model: one API call = one step, arbitrary set of agents ([tid -> agent]).
   Part C  fine-grained model: one shared access or mutex call per step, a program counter per
           thread, SC interleaving, arbitrary scheduler ([list tid]); ghost [waiting] sets, access
           log per node, vector clocks driven by the memory orders of Part A.
   Proofs are in QsProofs*.v. *)
From Coq Require Import List NArith Bool Arith.
Import ListNotations.
From FV Require Import Qs.QsTypes.
From FV Require Gen.QsOrders.
Local Open Scope N_scope.

Notation tid := nat (only parsing).
Notation nid := nat (only parsing).

Definition upd {A : Type} (f : nat -> A) (k : nat) (v : A) : nat -> A :=
  fun x => if Nat.eqb x k then v else f x.

Inductive outcome (A : Type) : Type :=
| Ok (a : A)
| AssertStop (line : N)     (* FRG_ASSERT at qs.hpp:<line> fails: frg_panic, the system stops *)
| Blocked                   (* the call can never return (mutex re-locked by its holder) *)
| UB (what : N)             (* 1 = unlock of a mutex that is not held *)
| OutOfFuel.
Arguments Ok {A} a.
Arguments AssertStop {A} line.
Arguments Blocked {A}.
Arguments UB {A} what.
Arguments OutOfFuel {A}.

Definition bind {A B : Type} (x : outcome A) (f : A -> outcome B) : outcome B :=
  match x with
  | Ok a => f a
  | AssertStop l => AssertStop l
  | Blocked => Blocked
  | UB w => UB w
  | OutOfFuel => OutOfFuel
  end.

(* ------------------------------------------------------------------------------------------ *)
(* Part A: source-derived configuration                                                        *)
(* ------------------------------------------------------------------------------------------ *)

(* Interpreter for the member functions of qs.hpp's lock_guard: [locked] is the guard's _locked
   flag; result = mutex calls made, final flag; None = one of the guard's own assertions fails. *)
Fixpoint lg_skip (body : list lgop) : list lgop :=
  match body with
  | [] => []
  | LgEndIf :: r => r
  | _ :: r => lg_skip r
  end.

Fixpoint lg_exec (fuel : nat) (lockf unlockf body : list lgop) (locked : bool) : option (list mcall * bool) :=
  match fuel with
  | O => None
  | S fuel' =>
    match body with
    | [] => Some ([], locked)
    | LgAssertLocked b :: r => if Bool.eqb locked b then lg_exec fuel' lockf unlockf r locked else None
    | LgMutex c :: r =>
        match lg_exec fuel' lockf unlockf r locked with
        | Some (cs, l) => Some (c :: cs, l) | None => None end
    | LgSetLocked b :: r => lg_exec fuel' lockf unlockf r b
    | LgCallLock :: r =>
        match lg_exec fuel' lockf unlockf lockf locked with
        | Some (cs, l) => match lg_exec fuel' lockf unlockf r l with
                          | Some (cs', l') => Some (cs ++ cs', l') | None => None end
        | None => None end
    | LgCallUnlock :: r =>
        match lg_exec fuel' lockf unlockf unlockf locked with
        | Some (cs, l) => match lg_exec fuel' lockf unlockf r l with
                          | Some (cs', l') => Some (cs ++ cs', l') | None => None end
        | None => None end
    | LgIfLocked :: r => if locked then lg_exec fuel' lockf unlockf r locked
                         else lg_exec fuel' lockf unlockf (lg_skip r) locked
    | LgEndIf :: r => lg_exec fuel' lockf unlockf r locked
    end
  end.

(* constructor: _locked{false}, then the body; destructor runs on the flag the constructor left *)
Definition gen_guard_ctor : option (list mcall * bool) :=
  lg_exec 16 QsOrders.lg_lock QsOrders.lg_unlock QsOrders.lg_ctor false.
Definition gen_guard_dtor : option (list mcall * bool) :=
  match gen_guard_ctor with
  | Some (_, l) => lg_exec 16 QsOrders.lg_lock QsOrders.lg_unlock QsOrders.lg_dtor l
  | None => None end.
Definition gen_enter : list mcall := match gen_guard_ctor with Some (cs, _) => cs | None => [] end.
Definition gen_exit : list mcall := match gen_guard_dtor with Some (cs, _) => cs | None => [] end.

(* The atomic accesses of the source, named.  [site_pos] = (function, index among the GAtomic
   events of that function in source order). *)
Inductive site :=
| S_on_ctr_ld | S_on_toack_ld | S_on_toack_st | S_on_ctr_st
| S_off_ctr_ld | S_off_fsub | S_off_toack_st | S_off_ctr_st
| S_qd_ctr_ld | S_qd_des_ld | S_qd_toack_st | S_qd_ctr_st
| S_q_ctr_ld | S_q_fsub | S_q_des_ld | S_q_toack_st | S_q_ctr_st
| S_qb_ctr_ld | S_qb_des_ld | S_qb_cas | S_qb_loop_ld
| S_ab_ctr_ld | S_ab_des_ld | S_ab_cas
| S_run_ctr_ld.

Definition all_sites : list site :=
  [ S_on_ctr_ld; S_on_toack_ld; S_on_toack_st; S_on_ctr_st;
    S_off_ctr_ld; S_off_fsub; S_off_toack_st; S_off_ctr_st;
    S_qd_ctr_ld; S_qd_des_ld; S_qd_toack_st; S_qd_ctr_st;
    S_q_ctr_ld; S_q_fsub; S_q_des_ld; S_q_toack_st; S_q_ctr_st;
    S_qb_ctr_ld; S_qb_des_ld; S_qb_cas; S_qb_loop_ld;
    S_ab_ctr_ld; S_ab_des_ld; S_ab_cas; S_run_ctr_ld ].

Definition site_pos (s : site) : fn * nat :=
  match s with
  | S_on_ctr_ld => (FOnline, 0) | S_on_toack_ld => (FOnline, 1) | S_on_toack_st => (FOnline, 2) | S_on_ctr_st => (FOnline, 3)
  | S_off_ctr_ld => (FOffline, 0) | S_off_fsub => (FOffline, 1) | S_off_toack_st => (FOffline, 2) | S_off_ctr_st => (FOffline, 3)
  | S_qd_ctr_ld => (FQs, 0) | S_qd_des_ld => (FQs, 1) | S_qd_toack_st => (FQs, 2) | S_qd_ctr_st => (FQs, 3)
  | S_q_ctr_ld => (FQs, 4) | S_q_fsub => (FQs, 5) | S_q_des_ld => (FQs, 6) | S_q_toack_st => (FQs, 7) | S_q_ctr_st => (FQs, 8)
  | S_qb_ctr_ld => (FQBarrier, 0) | S_qb_des_ld => (FQBarrier, 1) | S_qb_cas => (FQBarrier, 2) | S_qb_loop_ld => (FQBarrier, 3)
  | S_ab_ctr_ld => (FAwait, 0) | S_ab_des_ld => (FAwait, 1) | S_ab_cas => (FAwait, 2)
  | S_run_ctr_ld => (FRun, 0)
  end%nat.

(* what the model's program counters do at each site *)
Definition site_kind (s : site) : akind * loc :=
  match s with
  | S_on_ctr_ld | S_off_ctr_ld | S_qd_ctr_ld | S_q_ctr_ld | S_qb_ctr_ld | S_qb_loop_ld | S_ab_ctr_ld | S_run_ctr_ld => (KLoad, LCtr)
  | S_on_toack_ld => (KLoad, LToAck)
  | S_qd_des_ld | S_q_des_ld | S_qb_des_ld | S_ab_des_ld => (KLoad, LDesired)
  | S_on_toack_st | S_off_toack_st | S_qd_toack_st | S_q_toack_st => (KStore, LToAck)
  | S_on_ctr_st | S_off_ctr_st | S_qd_ctr_st | S_q_ctr_st => (KStore, LCtr)
  | S_off_fsub | S_q_fsub => (KFetchSub, LToAck)
  | S_qb_cas | S_ab_cas => (KCas, LDesired)
  end.

Definition atomics_of (l : list gop) : list (akind * loc * mo * mo) :=
  flat_map (fun g => match g with GAtomic k x o f => [(k, x, o, f)] | _ => [] end) l.

(* memory orders (success, failure) of a site in the current source; SeqCst if the site is missing
   (then [gen_sites_ok] below is false and no theorem applies) *)
Definition gen_ord2 (s : site) : mo * mo :=
  let '(f, i) := site_pos s in
  match nth_error (atomics_of (QsOrders.fn_ops f)) i with
  | Some (_, _, o, fl) => (o, fl)
  | None => (SeqCst, SeqCst) end.
Definition gen_ord (s : site) : mo := fst (gen_ord2 s).
Definition gen_ord_fail (s : site) : mo := snd (gen_ord2 s).

Definition site_ok (s : site) : bool :=
  let '(f, i) := site_pos s in
  match nth_error (atomics_of (QsOrders.fn_ops f)) i with
  | Some (k, x, _, _) => akind_eqb k (fst (site_kind s)) && loc_eqb x (snd (site_kind s))
  | None => false end.
Definition count_fn_sites (f : fn) : nat :=
  length (filter (fun s => match fst (site_pos s), f with
                           | FOnline, FOnline | FOffline, FOffline | FQs, FQs | FQBarrier, FQBarrier
                           | FAwait, FAwait | FRun, FRun => true | _, _ => false end) all_sites).
Definition gen_sites_ok : bool :=
  forallb site_ok all_sites &&
  forallb (fun f => Nat.eqb (length (atomics_of (QsOrders.fn_ops f))) (count_fn_sites f))
          [FOnline; FOffline; FQs; FQBarrier; FAwait; FRun].

(* does run() pop the node off the pending list before it invokes the callback? *)
Fixpoint index_of_call (c : callee) (l : list gop) (i : nat) : option nat :=
  match l with
  | [] => None
  | GCall c' :: r => if callee_eqb c c' then Some i else index_of_call c r (S i)
  | _ :: r => index_of_call c r (S i)
  end.
Definition gen_pop_first : bool :=
  match index_of_call CPopFront QsOrders.ops_FRun 0, index_of_call CCallback QsOrders.ops_FRun 0 with
  | Some p, Some c => Nat.ltb p c
  | _, _ => false end.

(* The skeleton the program counters of Part C were written against: every member function with
   the memory orders erased.  [gen_skeleton_ok] compares it with the current source. *)
Inductive sk :=
| KAt (k : akind) (l : loc) | KGuard | KScopeEnd | KNumAgents | KNode | KAssert | KCall (c : callee)
| KIf | KElse | KEndIf | KWhile | KDo | KEndWhile | KBreak.
Definition erase (g : gop) : sk :=
  match g with
  | GAtomic k l _ _ => KAt k l | GGuard => KGuard | GScopeEnd => KScopeEnd | GNumAgents => KNumAgents
  | GNode => KNode | GAssert => KAssert | GCall c => KCall c
  | GIf => KIf | GElse => KElse | GEndIf => KEndIf | GWhile => KWhile | GDo => KDo
  | GEndWhile => KEndWhile | GBreak => KBreak end.
Definition sk_eqb (a b : sk) : bool :=
  match a, b with
  | KAt k l, KAt k' l' => akind_eqb k k' && loc_eqb l l'
  | KCall c, KCall c' => callee_eqb c c'
  | KGuard, KGuard | KScopeEnd, KScopeEnd | KNumAgents, KNumAgents | KNode, KNode | KAssert, KAssert
  | KIf, KIf | KElse, KElse | KEndIf, KEndIf | KWhile, KWhile | KDo, KDo | KEndWhile, KEndWhile
  | KBreak, KBreak => true
  | _, _ => false end.
Fixpoint sk_list_eqb (a b : list sk) : bool :=
  match a, b with
  | [], [] => true
  | x :: a', y :: b' => sk_eqb x y && sk_list_eqb a' b'
  | _, _ => false end.

Definition cas_loop : list sk :=
  [ KWhile; KDo; KAt KCas LDesired; KIf; KBreak; KEndIf; KEndWhile ].
Definition bump : list sk :=
  [ KGuard; KNumAgents; KAt KStore LToAck; KAt KStore LCtr; KScopeEnd ].

(* [pop_first] distinguishes the two orders run() can have (callback then pop = defect D05) *)
Definition skeleton (pop_first : bool) (f : fn) : list sk :=
  match f with
  | FOnline =>
      [ KAssert; KGuard; KNumAgents; KAt KLoad LCtr; KNumAgents; KIf;
        KAt KLoad LToAck; KAssert; KAt KStore LToAck; KAt KStore LCtr; KEndIf; KScopeEnd ]
  | FOffline =>
      [ KAssert; KAssert; KGuard; KNumAgents; KAt KLoad LCtr; KIf; KAssert;
        KAt KFetchSub LToAck; KIf; KNumAgents; KAt KStore LToAck; KAt KStore LCtr; KEndIf; KEndIf; KScopeEnd ]
  | FQs =>
      [ KAssert; KIf; KAt KLoad LCtr; KAssert; KAt KLoad LDesired; KIf ] ++ bump ++
      [ KEndIf; KElse; KAt KLoad LCtr; KIf; KAssert; KAt KFetchSub LToAck; KIf; KAt KLoad LDesired; KIf ] ++ bump ++
      [ KElse; KEndIf; KEndIf; KEndIf; KEndIf ]
  | FQBarrier =>
      [ KAt KLoad LCtr; KAt KLoad LDesired ] ++ cas_loop ++
      [ KWhile; KAt KLoad LCtr; KDo; KCall CQs; KEndWhile ]
  | FAwait =>
      [ KAt KLoad LCtr; KAt KLoad LDesired ] ++ cas_loop ++ [ KNode; KAssert; KNode; KCall CPushBack ]
  | FRun =>
      [ KAt KLoad LCtr; KWhile; KCall CEmpty; KDo; KCall CFront; KNode; KIf; KBreak; KEndIf; KNode ] ++
      (if pop_first then [ KCall CPopFront; KNode; KCall CCallback ]
       else [ KNode; KCall CCallback; KCall CPopFront ]) ++ [ KEndWhile ]
  end.
Definition gen_skeleton_ok : bool :=
  forallb (fun f => sk_list_eqb (map erase (QsOrders.fn_ops f)) (skeleton gen_pop_first f))
          [FOnline; FOffline; FQs; FQBarrier; FAwait; FRun].

(* every access to _num_agents lies inside a guard scope *)
Fixpoint numagents_guarded (depth : nat) (l : list gop) : bool :=
  match l with
  | [] => Nat.eqb depth 0
  | GGuard :: r => numagents_guarded (S depth) r
  | GScopeEnd :: r => match depth with O => false | S d => numagents_guarded d r end
  | GNumAgents :: r => negb (Nat.eqb depth 0) && numagents_guarded depth r
  | _ :: r => numagents_guarded depth r
  end.
Definition gen_numagents_guarded : bool :=
  forallb (fun f => numagents_guarded 0 (QsOrders.fn_ops f)) [FOnline; FOffline; FQs; FQBarrier; FAwait; FRun].

(* the lock_guard constructor locks the mutex once and its destructor unlocks it once *)
Definition gen_guard_ok : bool :=
  match gen_enter, gen_exit with
  | [MLock], [MUnlock] => true
  | _, _ => false end.

(* memory orders the happens-before theorem (C11_hb) needs: the ack is a release+acquire RMW (in
   offline() at least an acquire: the agent may be the last acker; its release is the mutex), every
   store of the counter is a release, the loads of the counter that decide "the grace period is
   over" (run(), the loop of quiescent_barrier()) are acquires.  (The acquire on quiescent_state()'s own
   load of the counter is not needed: successive periods are ordered by the mutex.) *)
Definition orders_sufficient (ord : site -> mo) : bool :=
  is_acq (ord S_q_fsub) && is_rel (ord S_q_fsub) && is_acq (ord S_off_fsub) &&
  is_rel (ord S_on_ctr_st) && is_rel (ord S_off_ctr_st) && is_rel (ord S_qd_ctr_st) && is_rel (ord S_q_ctr_st) &&
  is_acq (ord S_run_ctr_ld) && is_acq (ord S_qb_loop_ld).
Definition gen_orders_sufficient : bool := orders_sufficient gen_ord.

(* ------------------------------------------------------------------------------------------ *)
(* Shared state                                                                                *)
(* ------------------------------------------------------------------------------------------ *)

Record dom := mkDom { ctr : N; desired : N; nagents : N; toack : N }.
Record agent := mkAgent { acked : N; deferred : bool; pending : list nid }.

Definition dom0 : dom := mkDom 1 0 0 0.
Definition agent0 : agent := mkAgent 0 false [].

(* unsigned int decrement (fetch_sub on std::atomic<unsigned int>, --_num_agents) *)
Definition dec32 (x : N) : N := if x =? 0 then 4294967295 else x - 1.
Definition inc32 (x : N) : N := if x =? 4294967295 then 0 else x + 1.

Definition online_b (a : agent) : bool := negb (acked a =? 0).

(* ------------------------------------------------------------------------------------------ *)
(* Part B: whole-operation model                                                               *)
(* ------------------------------------------------------------------------------------------ *)

Inductive call :=
| COnline | COffline | CQsCall | CAwait (n : nid) | CRun | CQBarrier.

Inductive wev :=
| WMx (c : mcall)             (* call on the domain's mutex *)
| WReg (n : nid) (t : tid)    (* await_barrier registered node n for agent t *)
| WNode (n : nid)             (* the library reads or writes node n *)
| WCb (n : nid) (t : tid)     (* on_grace_period(n) invoked, inside a call made by agent t *)
| WQbRet (t : tid).           (* quiescent_barrier of t returns *)

Record wstate := mkW {
  wd : dom;
  wa : tid -> agent;
  wtarget : nid -> N;               (* qs_node::_target_qs_counter; 0 = not queued *)
  wheld : bool;                     (* the mutex *)
  (* ghost *)
  wwait : nid -> tid -> bool;       (* waiting n *)
  wqbw : tid -> tid -> bool;        (* the same set for a quiescent_barrier in progress *)
  wowner : nid -> option tid        (* who registered n (current registration) *)
}.

Definition w0 : wstate :=
  mkW dom0 (fun _ => agent0) (fun _ => 0) false (fun _ _ => false) (fun _ _ => false) (fun _ => None).

Fixpoint mx_apply (cs : list mcall) (held : bool) : outcome bool :=
  match cs with
  | [] => Ok held
  | MLock :: r => if held then Blocked else mx_apply r true
  | MUnlock :: r => if held then mx_apply r false else UB 1
  end.

Section WO.
Variable genter gexit : list mcall.   (* mutex calls of the guard's constructor / destructor *)
Variable pop_first : bool.

Definition set_dom (s : wstate) (d : dom) : wstate :=
  mkW d (wa s) (wtarget s) (wheld s) (wwait s) (wqbw s) (wowner s).
Definition set_agent (s : wstate) (t : tid) (a : agent) : wstate :=
  mkW (wd s) (upd (wa s) t a) (wtarget s) (wheld s) (wwait s) (wqbw s) (wowner s).
Definition set_held (s : wstate) (h : bool) : wstate :=
  mkW (wd s) (wa s) (wtarget s) h (wwait s) (wqbw s) (wowner s).

(* agent t enters quiescent_state() or offline(): it leaves every waiting set *)
Definition enter_quiescent (s : wstate) (t : tid) : wstate :=
  mkW (wd s) (wa s) (wtarget s) (wheld s)
      (fun n x => if Nat.eqb x t then false else wwait s n x)
      (fun b x => if Nat.eqb x t then false else wqbw s b x)
      (wowner s).

(* { lock_guard g(mutex); body }   -- body works on the domain fields *)
Definition guarded {A : Type} (s : wstate) (body : dom -> outcome (dom * A)) : outcome (wstate * A) :=
  bind (mx_apply genter (wheld s)) (fun h1 =>
  bind (body (wd s)) (fun r =>
  bind (mx_apply gexit h1) (fun h2 =>
  Ok (set_held (set_dom s (fst r)) h2, snd r)))).
Definition guard_evs : list wev := map WMx (genter ++ gexit).

Definition w_online (t : tid) (s : wstate) : outcome (wstate * list wev) :=
  let a := wa s t in
  if negb (acked a =? 0) then AssertStop 102 else
  bind (guarded s (fun d =>
          let n' := inc32 (nagents d) in
          let c := ctr d in
          if n' =? 1 then
            if negb (toack d =? 0) then AssertStop 114
            else Ok (mkDom (c + 1) (desired d) n' 1, c)
          else Ok (mkDom c (desired d) n' (toack d), c)))
       (fun r => let '(s1, c) := r in
                 Ok (set_agent s1 t (mkAgent c (deferred a) (pending a)), guard_evs)).

Definition w_offline (t : tid) (s0 : wstate) : outcome (wstate * list wev) :=
  let a := wa s0 t in
  if acked a =? 0 then AssertStop 124 else
  let s := enter_quiescent s0 t in
  if deferred a then AssertStop 127 else
  bind (guarded s (fun d =>
          let n' := dec32 (nagents d) in
          let c := ctr d in
          if negb (acked a =? c) then
            if negb (acked a + 1 =? c) then AssertStop 137 else
            let old := toack d in
            if old =? 1 then Ok (mkDom (c + 1) (desired d) n' n', tt)
            else Ok (mkDom c (desired d) n' (dec32 old), tt)
          else Ok (mkDom c (desired d) n' (toack d), tt)))
       (fun r => Ok (set_agent (fst r) t (mkAgent 0 (deferred a) (pending a)), guard_evs)).

Definition w_qs (t : tid) (s0 : wstate) : outcome (wstate * list wev) :=
  let a := wa s0 t in
  if acked a =? 0 then AssertStop 151 else
  let s := enter_quiescent s0 t in
  let d := wd s in
  if deferred a then
    if negb (acked a =? ctr d) then AssertStop 154 else
    if acked a <? desired d then
      bind (guarded s (fun d => Ok (mkDom (acked a + 1) (desired d) (nagents d) (nagents d), tt)))
           (fun r => Ok (set_agent (fst r) t (mkAgent (acked a) false (pending a)), guard_evs))
    else Ok (s, [])
  else
    let c := ctr d in
    if negb (acked a =? c) then
      if negb (acked a + 1 =? c) then AssertStop 169 else
      let old := toack d in
      let s1 := set_dom s (mkDom c (desired d) (nagents d) (dec32 old)) in
      if old =? 1 then
        if c <? desired d then
          bind (guarded s1 (fun d => Ok (mkDom (c + 1) (desired d) (nagents d) (nagents d), tt)))
               (fun r => Ok (set_agent (fst r) t (mkAgent (acked a + 1) false (pending a)), guard_evs))
        else Ok (set_agent s1 t (mkAgent (acked a + 1) true (pending a)), [])
      else Ok (set_agent s1 t (mkAgent (acked a + 1) false (pending a)), [])
    else Ok (s, []).

(* the part await_barrier and quiescent_barrier share: target = ctr + 2, desired := max desired target *)
Definition raise_desired (d : dom) : dom * N :=
  let target := ctr d + 2 in
  (mkDom (ctr d) (N.max (desired d) target) (nagents d) (toack d), target).

Definition w_await (t : tid) (n : nid) (s : wstate) : outcome (wstate * list wev) :=
  let a := wa s t in
  let '(d', target) := raise_desired (wd s) in
  if negb (wtarget s n =? 0) then AssertStop 214 else
  Ok (mkW d' (upd (wa s) t (mkAgent (acked a) (deferred a) (pending a ++ [n])))
          (upd (wtarget s) n target) (wheld s)
          (upd (wwait s) n (fun x => online_b (wa s x)))
          (wqbw s)
          (upd (wowner s) n (Some t)),
      [WReg n t; WNode n; WNode n; WNode n]).   (* the call; then: read target, write target, push_back *)

(* the loop of run(): fire the queued nodes whose target the counter has reached *)
Definition fire_evs (n : nid) (t : tid) : list wev :=
  if pop_first then [WNode n; WNode n; WNode n; WCb n t]     (* target := 0; pop_front; read fn ptr; call *)
  else [WNode n; WNode n; WCb n t; WNode n].                 (* target := 0; read fn ptr; call; pop_front *)

Fixpoint fire (c : N) (t : tid) (tg : nid -> N) (pend : list nid) : (nid -> N) * list nid * list wev :=
  match pend with
  | [] => (tg, [], [])
  | n :: r =>
      if c <? tg n then (tg, pend, [WNode n])
      else let '(tg', p', evs) := fire c t (upd tg n 0) r in
           (tg', p', WNode n :: fire_evs n t ++ evs)
  end.

Definition w_run (t : tid) (s : wstate) : outcome (wstate * list wev) :=
  let a := wa s t in
  let '(tg', p', evs) := fire (ctr (wd s)) t (wtarget s) (pending a) in
  Ok (mkW (wd s) (upd (wa s) t (mkAgent (acked a) (deferred a) p')) tg' (wheld s)
          (wwait s) (wqbw s) (wowner s), evs).

Fixpoint qb_loop (fuel : nat) (t : tid) (target : N) (s : wstate) (acc : list wev) : outcome (wstate * list wev) :=
  match fuel with
  | O => OutOfFuel
  | S f =>
      if ctr (wd s) <? target then
        bind (w_qs t s) (fun r => qb_loop f t target (fst r) (acc ++ snd r))
      else Ok (s, acc ++ [WQbRet t])
  end.

Definition w_qbarrier (fuel : nat) (t : tid) (s : wstate) : outcome (wstate * list wev) :=
  let '(d', target) := raise_desired (wd s) in
  let s1 := mkW d' (wa s) (wtarget s) (wheld s) (wwait s)
                (upd (wqbw s) t (fun x => online_b (wa s x))) (wowner s) in
  qb_loop fuel t target s1 [].

Definition qb_fuel : nat := 8.

Definition w_step (t : tid) (c : call) (s : wstate) : outcome (wstate * list wev) :=
  match c with
  | COnline => w_online t s
  | COffline => w_offline t s
  | CQsCall => w_qs t s
  | CAwait n => w_await t n s
  | CRun => w_run t s
  | CQBarrier => w_qbarrier qb_fuel t s
  end.

(* a run: the system stops at the first call that does not return normally *)
Fixpoint w_run_ops (ops : list (tid * call)) (s : wstate) (tr : list wev) : wstate * list wev * option (outcome unit) :=
  match ops with
  | [] => (s, tr, None)
  | (t, c) :: r =>
      match w_step t c s with
      | Ok (s', evs) => w_run_ops r s' (tr ++ evs)
      | AssertStop l => (s, tr, Some (AssertStop l))
      | Blocked => (s, tr, Some Blocked)
      | UB w => (s, tr, Some (UB w))
      | OutOfFuel => (s, tr, Some OutOfFuel)
      end
  end.

End WO.

(* Specification automaton of one node n over a trace.  State: Some t = registered by agent t and
   its callback has not started; None = not registered (never, or its callback has started).
   The trace is accepted iff
     - n is registered only while it is not registered,
     - its callback is invoked only while it is registered, by a call of the registering agent
       (so at most once per registration),
     - the library touches n only while it is registered: never after the callback started (until
       the user registers it again). *)
Fixpoint node_run (n : nid) (st : option tid) (tr : list wev) : option (option tid) :=
  match tr with
  | [] => Some st
  | WReg m t :: r =>
      if Nat.eqb m n then match st with None => node_run n (Some t) r | Some _ => None end
      else node_run n st r
  | WCb m t :: r =>
      if Nat.eqb m n then match st with
                          | Some t' => if Nat.eqb t t' then node_run n None r else None
                          | None => None end
      else node_run n st r
  | WNode m :: r =>
      if Nat.eqb m n then match st with Some _ => node_run n st r | None => None end
      else node_run n st r
  | _ :: r => node_run n st r
  end.
Definition trace_ok (tr : list wev) : Prop := forall n, node_run n None tr <> None.

(* the whole-operation model of the current source *)
Definition gen_w_step : tid -> call -> wstate -> outcome (wstate * list wev) :=
  w_step gen_enter gen_exit gen_pop_first.

(* states and traces reachable by whole-operation runs of the current source; every call is made
   by an agent of U; the run ends at the first call that does not return normally *)
Inductive reach_wo (U : list tid) : wstate -> list wev -> Prop :=
| rwo_init : reach_wo U w0 []
| rwo_step s tr t c s' evs :
    reach_wo U s tr -> In t U -> gen_w_step t c s = Ok (s', evs) -> reach_wo U s' (tr ++ evs).

Definition gen_w_run_ops := w_run_ops gen_enter gen_exit gen_pop_first.

(* A callback that re-arms its node (calls await_barrier(node) on the node it was invoked for, from
   inside run()): once its callback has started the node belongs to the user again, so this is a new
   registration.  run() read the counter before its loop and the new target is counter + 2, so the loop
   stops in front of the re-armed node: the call has the effect of run() followed by await_barrier of
   the re-armed nodes, in the order in which they were called back (compared with the implementation
   state by state and, per node, event by event, by the lock-step harness: "ab t n rearm"). *)
Definition fired_nodes (evs : list wev) : list nid :=
  flat_map (fun e => match e with WCb n _ => [n] | _ => [] end) evs.

Fixpoint w_rearm (step : tid -> call -> wstate -> outcome (wstate * list wev)) (t : tid) (ns : list nid)
    (s : wstate) (acc : list wev) : outcome (wstate * list wev) :=
  match ns with
  | [] => Ok (s, acc)
  | n :: r => bind (step t (CAwait n) s) (fun '(s1, e1) => w_rearm step t r s1 (acc ++ e1))
  end.

(* run() of agent t where the callbacks of the nodes with [flag n] re-arm their node *)
Definition gen_w_run_rearm (t : tid) (flag : nid -> bool) (s : wstate) : outcome (wstate * list wev) :=
  bind (gen_w_step t CRun s) (fun '(s1, e1) => w_rearm gen_w_step t (filter flag (fired_nodes e1)) s1 e1).
