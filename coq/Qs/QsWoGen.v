(* The whole-operation theorems, transferred to the model instance built from the generated
   source facts ([gen_w_step], [reach_wo]). *)
From Coq Require Import List NArith Bool Arith Lia.
Import ListNotations.
From FV Require Import Qs.QsTypes Qs.QsModel Qs.QsGenOk Qs.QsWoProofs Qs.QsWoLive.
Local Open Scope N_scope.

Lemma gen_w_step_eq : gen_w_step = wstep.
Proof. unfold gen_w_step, wstep. rewrite gen_enter_eq. rewrite gen_exit_eq. rewrite gen_pop_first_true. reflexivity. Qed.

Lemma reach_wo_wreach U s tr : reach_wo U s tr <-> wreach U s tr.
Proof.
  split.
  - induction 1 as [|s tr t c s' evs _ IH Ht Hs]; [constructor|].
    rewrite gen_w_step_eq in Hs. econstructor; eassumption.
  - induction 1 as [|s tr t c s' evs _ IH Ht Hs]; [constructor|].
    econstructor; eassumption.
Qed.

(* an executed script gives a reachable state (used by the Examples) *)
Lemma gen_w_run_ops_cons t c r s tr :
  gen_w_run_ops ((t, c) :: r) s tr =
  match gen_w_step t c s with
  | Ok (s', evs) => gen_w_run_ops r s' (tr ++ evs)
  | AssertStop l => (s, tr, Some (AssertStop l))
  | Blocked => (s, tr, Some Blocked)
  | UB w => (s, tr, Some (UB w))
  | OutOfFuel => (s, tr, Some OutOfFuel)
  end.
Proof. reflexivity. Qed.

Lemma run_ops_reach U : forall ops s tr s' tr' stop,
  reach_wo U s tr -> (forall t c, In (t, c) ops -> In t U) ->
  gen_w_run_ops ops s tr = (s', tr', stop) -> reach_wo U s' tr'.
Proof.
  induction ops as [|[t c] ops IH]; intros s tr s' tr' stop Hr Hin H.
  - cbn in H. now inversion H; subst.
  - rewrite gen_w_run_ops_cons in H.
    destruct (gen_w_step t c s) as [[s1 e1]| | | |] eqn:E; try (inversion H; subst; assumption).
    apply (IH s1 (tr ++ e1) s' tr' stop); [|intros; apply (Hin t0 c0); now right|exact H].
    econstructor; [exact Hr|apply (Hin t c); now left|exact E].
Qed.

(* a run() whose callbacks re-arm their nodes is a run() followed by registrations: reachable *)
Lemma w_rearm_reach U t : In t U -> forall ns s tr acc s' evs,
  reach_wo U s (tr ++ acc) -> w_rearm gen_w_step t ns s acc = Ok (s', evs) -> reach_wo U s' (tr ++ evs).
Proof.
  intros Ht. induction ns as [|n r IH]; intros s tr acc s' evs Hr H; cbn [w_rearm] in H.
  - inversion H; subst. exact Hr.
  - destruct (gen_w_step t (CAwait n) s) as [[s1 e1]| | | |] eqn:E; cbn [bind] in H; try discriminate.
    apply (IH s1 tr (acc ++ e1) s' evs); [|exact H]. rewrite app_assoc. econstructor; eassumption.
Qed.

Lemma run_rearm_reach U t flag s tr s' evs :
  reach_wo U s tr -> In t U -> gen_w_run_rearm t flag s = Ok (s', evs) -> reach_wo U s' (tr ++ evs).
Proof.
  intros Hr Ht H. unfold gen_w_run_rearm in H.
  destruct (gen_w_step t CRun s) as [[s1 e1]| | | |] eqn:E; cbn [bind] in H; try discriminate.
  apply (w_rearm_reach U t Ht (filter flag (fired_nodes e1)) s1 tr e1 s' evs); [|exact H]. econstructor; eassumption.
Qed.

Section Gen.
Variable U : list tid.
Hypothesis ND : NoDup U.
Hypothesis HB : few U.

Lemma gen_inv s tr : reach_wo U s tr -> Inv U s.
Proof. intros H. apply (wreach_inv U s tr ND HB). now apply reach_wo_wreach. Qed.

Lemma gen_trace_ok s tr : reach_wo U s tr -> trace_ok tr.
Proof.
  intros H n. apply reach_wo_wreach in H. rewrite (wo_trace_ok U s tr ND HB H n). discriminate.
Qed.

Lemma gen_callback_in_run s tr t c s' evs n t' :
  reach_wo U s tr -> gen_w_step t c s = Ok (s', evs) -> In (WCb n t') evs ->
  c = CRun /\ t' = t /\ wowner s n = Some t.
Proof.
  intros Hr H Hin. rewrite gen_w_step_eq in H.
  destruct (wo_callback_in_run U s t c s' evs n t' (gen_inv s tr Hr) H Hin) as (A & B & _ & C & _). auto.
Qed.

Lemma gen_grace s tr t c s' evs n t' :
  reach_wo U s tr -> gen_w_step t c s = Ok (s', evs) -> In (WCb n t') evs -> forall x, wwait s n x = false.
Proof.
  intros Hr H Hin. rewrite gen_w_step_eq in H. apply (wo_grace_period U s t c s' evs n t' (gen_inv s tr Hr) H Hin).
Qed.

Lemma gen_qb_grace s tr t s' evs :
  reach_wo U s tr -> In t U -> gen_w_step t CQBarrier s = Ok (s', evs) -> forall x, wqbw s' t x = false.
Proof.
  intros Hr Ht H. rewrite gen_w_step_eq in H. apply (wo_qbarrier_grace U s t s' evs ND Ht (gen_inv s tr Hr) H).
Qed.

Lemma gen_outcomes s tr t c :
  reach_wo U s tr -> In t U ->
  match gen_w_step t c s with
  | Ok (s', _) => wheld s' = false
  | AssertStop _ => precondition_violated s t c
  | Blocked => False
  | UB _ => False
  | OutOfFuel => c = CQBarrier
  end.
Proof. intros Hr Ht. rewrite gen_w_step_eq. apply (wo_outcomes U s t c ND HB Ht (gen_inv s tr Hr)). Qed.
(* liveness: the sequence of calls of the generated instance *)
Fixpoint gen_wrun (l : list (tid * call)) (s : wstate) : option wstate :=
  match l with
  | [] => Some s
  | (t, c) :: r => match gen_w_step t c s with Ok (s', _) => gen_wrun r s' | _ => None end
  end.

Fixpoint gen_rounds (ls : list (list (tid * call))) (s : wstate) : Prop :=
  match ls with
  | [] => True
  | l :: r =>
      (exists x, onl s x = true) /\ (forall x, onl s x = true -> has_qop x l) /\
      (forall t c, In (t, c) l -> In t U) /\
      match gen_wrun l s with Some s1 => gen_rounds r s1 | None => False end
  end.

Lemma gen_wrun_eq : forall l s, gen_wrun l s = wrun l s.
Proof. induction l as [|[t c] l IH]; intros s; cbn; [reflexivity|]. rewrite gen_w_step_eq. destruct (wstep t c s) as [[? ?]| | | |]; auto. Qed.

Lemma gen_rounds_eq : forall ls s, gen_rounds ls s <-> rounds U ls s.
Proof.
  induction ls as [|l r IH]; intros s; cbn; [tauto|]. rewrite gen_wrun_eq.
  destruct (wrun l s) as [s1|]; [rewrite IH|]; tauto.
Qed.

Lemma gen_liveness s tr ls s' tg :
  reach_wo U s tr -> gen_rounds ls s -> gen_wrun (concat ls) s = Some s' ->
  tg <= desired (wd s) -> tg <= ctr (wd s) + N.of_nat (length ls) -> tg <= ctr (wd s').
Proof.
  intros Hr HR H. rewrite gen_wrun_eq in H. apply gen_rounds_eq in HR.
  apply (rounds_progress U ND HB ls s s' tg (gen_inv s tr Hr) HR H).
Qed.

Lemma gen_run_fires s tr t n :
  reach_wo U s tr -> In n (pending (wa s t)) -> wtarget s n <= ctr (wd s) ->
  exists s' evs, gen_w_step t CRun s = Ok (s', evs) /\ In (WCb n t) evs.
Proof. intros Hr. rewrite gen_w_step_eq. apply (run_fires U s t n (gen_inv s tr Hr)). Qed.

End Gen.
