(* Liveness at whole-operation granularity: while a barrier is pending, every "round" (each agent
   that is online at its start passes quiescent_state() or goes offline) advances the period. *)
From Coq Require Import List NArith Bool Arith Lia.
Import ListNotations.
From FV Require Import Qs.QsTypes Qs.QsModel Qs.QsWoProofs.
Local Open Scope N_scope.

Definition quiescent_op (c : call) : bool := match c with CQsCall | COffline => true | _ => false end.
Definition has_qop (x : tid) (l : list (tid * call)) : Prop := exists c, In (x, c) l /\ quiescent_op c = true.

(* the agents the current period is waiting for: those that still have to ack it, and the one that
   holds it deferred *)
Definition owes (s : wstate) (x : tid) : bool := need s x || deferred (wa s x).

(* a sequence of calls all of which return *)
Fixpoint wrun (l : list (tid * call)) (s : wstate) : option wstate :=
  match l with
  | [] => Some s
  | (t, c) :: r => match wstep t c s with Ok (s', _) => wrun r s' | _ => None end
  end.

Section Live.
Variable U : list tid.
Hypothesis ND : NoDup U.
Hypothesis HB : few U.

Lemma qb_loop_mono t target : forall fuel s acc s' evs,
  qb_loop [MLock] [MUnlock] fuel t target s acc = Ok (s', evs) ->
  ctr (wd s) <= ctr (wd s') /\ desired (wd s') = desired (wd s) /\ target <= ctr (wd s').
Proof.
  induction fuel as [|f IH]; intros s acc s' evs H; cbn [qb_loop] in H; [discriminate|].
  destruct (ctr (wd s) <? target) eqn:E.
  - change (w_qs [MLock] [MUnlock] t s) with (wstep t CQsCall s) in H.
    destruct (wstep t CQsCall s) as [[s1 e1]| | | |] eqn:F; cbn [bind] in H; try discriminate.
    destruct (qs_frame _ _ _ _ F) as (_ & _ & _ & _ & _ & _ & Hd & Hc & _).
    destruct (IH _ _ _ _ H) as (A & B & C). split; [lia|]. split; [rewrite B; exact Hd|assumption].
  - inversion H; subst. apply N.ltb_ge in E. split; [lia|]. split; [reflexivity|assumption].
Qed.

Lemma step_mono t c s s' evs :
  wstep t c s = Ok (s', evs) -> ctr (wd s) <= ctr (wd s') /\ desired (wd s) <= desired (wd s').
Proof.
  intros H. destruct c.
  - destruct (online_frame _ _ _ _ H) as (_ & _ & _ & _ & _ & _ & Hd & Hc & _). lia.
  - destruct (offline_frame _ _ _ _ H) as (_ & _ & _ & _ & _ & _ & Hd & Hc & _). lia.
  - destruct (qs_frame _ _ _ _ H) as (_ & _ & _ & _ & _ & _ & Hd & Hc & _). lia.
  - unfold wstep, w_step, w_await in H. cbn [raise_desired] in H.
    destruct (negb (wtarget s n =? 0)); [discriminate|]. inversion H; subst. cbn. lia.
  - unfold wstep, w_step, w_run in H.
    destruct (fire true (ctr (wd s)) t (wtarget s) (pending (wa s t))) as [[? ?] ?]. inversion H; subst. cbn. lia.
  - unfold wstep, w_step, w_qbarrier in H. cbn [raise_desired] in H.
    destruct (qb_loop_mono _ _ _ _ _ _ _ H) as (A & B & C). cbn in A, B. rewrite B. lia.
Qed.

Lemma wrun_mono : forall l s s', wrun l s = Some s' -> ctr (wd s) <= ctr (wd s') /\ desired (wd s) <= desired (wd s').
Proof.
  induction l as [|[t c] l IH]; intros s s' H; cbn in H; [inversion H; subst; lia|].
  destruct (wstep t c s) as [[s1 e]| | | |] eqn:E; try discriminate.
  destruct (step_mono _ _ _ _ _ E). destruct (IH _ _ H). lia.
Qed.

Lemma wrun_inv : forall l s s', (forall t c, In (t, c) l -> In t U) -> Inv U s -> wrun l s = Some s' -> Inv U s'.
Proof.
  induction l as [|[t c] l IH]; intros s s' Hin HI H; cbn in H; [now inversion H; subst|].
  destruct (wstep t c s) as [[s1 e]| | | |] eqn:E; try discriminate.
  apply (IH s1 s'); [intros; apply (Hin t0 c0); now right| |assumption].
  apply (step_inv U s t c s1 e ND HB (Hin t c (or_introl eq_refl)) HI E).
Qed.

Lemma owes_others s s1 t :
  (forall x, x <> t -> wa s1 x = wa s x) -> ctr (wd s1) = ctr (wd s) ->
  forall x, x <> t -> owes s1 x = owes s x.
Proof. intros Hoth Hc x Hx. unfold owes, need. now rewrite (Hoth x Hx), Hc. Qed.

Lemma owes_exists s : Core U s -> (exists x, onl s x = true) -> exists x, owes s x = true.
Proof.
  intros HC [y Hy]. pose proof (cf_nagents_pos U s y HC (i_univ _ _ HC y Hy) Hy) as Hn.
  destruct (N.eq_dec (toack (wd s)) 0) as [T0|T0].
  - destruct (i_j5 _ _ HC T0) as [x Hx]; [lia|]. exists x. unfold owes. rewrite Hx. apply orb_true_r.
  - rewrite (i_j2 _ _ HC) in T0. destruct (cnt_pos_ex (need s) U) as [x [_ Hx]]; [lia|].
    exists x. unfold owes. now rewrite Hx.
Qed.

Lemma owes_online s x : Core U s -> owes s x = true -> onl s x = true.
Proof.
  intros HC H. unfold owes in H. apply orb_true_iff in H. destruct H as [H|H].
  - unfold need in H. unfold onl. destruct (online_b (wa s x)); [reflexivity|discriminate].
  - apply (i_j4 _ _ HC x H).
Qed.

(* quiescent_state() of t while the period stays the same: t no longer owes, nobody else changes,
   and somebody still owes (the last one to ack would have started the next period) *)
Lemma qs_effect t s s1 e :
  Core U s -> In t U -> wstep t CQsCall s = Ok (s1, e) ->
  ctr (wd s1) = ctr (wd s) -> ctr (wd s) < desired (wd s) ->
  owes s1 t = false /\ (forall x, x <> t -> owes s1 x = owes s x) /\
  ((exists x, owes s x = true) -> exists x, owes s1 x = true).
Proof.
  intros HC Ht H Hc Hd.
  pose proof (core_qs U s t s1 e HC ND Ht H) as HC1.
  destruct (qs_frame _ _ _ _ H) as (Hoth & _ & _ & _ & _ & _ & _ & _ & Hon).
  split; [|split; [apply (owes_others s s1 t Hoth Hc)|]].
  - unfold wstep, w_step, w_qs in H.
    destruct (acked (wa s t) =? 0) eqn:E0; [discriminate|].
    cbn [enter_quiescent wa wd] in H.
    destruct (deferred (wa s t)) eqn:Ed.
    + destruct (i_j4 _ _ HC t Ed) as (_ & Hac & _).
      destruct (negb (acked (wa s t) =? ctr (wd s))) eqn:E1; [discriminate|].
      destruct (acked (wa s t) <? desired (wd s)) eqn:E2.
      * exfalso. rewrite guarded_free in H by (cbn; apply HC). cbn in H. inversion H; subst s1. cbn in Hc. lia.
      * exfalso. apply N.ltb_ge in E2. lia.
    + destruct (negb (acked (wa s t) =? ctr (wd s))) eqn:E1.
      * destruct (negb (acked (wa s t) + 1 =? ctr (wd s))) eqn:E2; [discriminate|].
        destruct (toack (wd s) =? 1) eqn:E3.
        -- destruct (ctr (wd s) <? desired (wd s)) eqn:E4.
           ++ exfalso. rewrite guarded_free in H by (cbn; apply HC). cbn in H. inversion H; subst s1. cbn in Hc. lia.
           ++ exfalso. apply N.ltb_ge in E4. lia.
        -- inversion H; subst s1. unfold owes, need. cbn. rewrite upd_same. cbn.
           apply negb_false_iff, N.eqb_eq in E2.
           destruct (acked (wa s t) + 1 + 1 =? ctr (wd s)) eqn:F; [apply N.eqb_eq in F; lia|]. now rewrite andb_false_r.
      * inversion H; subst s1. unfold owes, need. cbn. rewrite Ed.
        apply negb_false_iff, N.eqb_eq in E1.
        destruct (acked (wa s t) + 1 =? ctr (wd s)) eqn:F; [apply N.eqb_eq in F; lia|]. now rewrite andb_false_r.
  - intros _. apply (owes_exists s1 HC1). exists t. destruct (qs_outcome U s t HC ND Ht) as (s2 & e2 & H2 & Ho).
    + apply onl_true. exact Hon.
    + rewrite H in H2. inversion H2; subst. exact Ho.
Qed.

Lemma offline_effect t s s1 e :
  Core U s -> In t U -> wstep t COffline s = Ok (s1, e) ->
  ctr (wd s1) = ctr (wd s) ->
  owes s1 t = false /\ (forall x, x <> t -> owes s1 x = owes s x) /\
  ((exists x, owes s x = true) -> exists x, owes s1 x = true).
Proof.
  intros HC Ht H Hc.
  pose proof (core_offline U s t s1 e HC ND Ht H) as HC1.
  destruct (offline_frame _ _ _ _ H) as (Hoth & _ & _ & _ & _ & _ & _ & _ & Hon).
  assert (Ho : forall x, x <> t -> owes s1 x = owes s x) by apply (owes_others s s1 t Hoth Hc).
  unfold wstep, w_step, w_offline in H.
  destruct (acked (wa s t) =? 0) eqn:E0; [discriminate|].
  cbn [enter_quiescent wa wd] in H.
  destruct (deferred (wa s t)) eqn:Ed; [discriminate|].
  rewrite guarded_free in H by (cbn; apply HC). cbn [enter_quiescent wd wa] in H.
  assert (Hont : onl s t = true) by (apply onl_true; exact Hon).
  pose proof (cf_nagents_pos U s t HC Ht Hont) as Hnp.
  assert (Hoff : owes s1 t = false).
  { destruct (owes s1 t) eqn:F; [|reflexivity]. pose proof (owes_online s1 t HC1 F) as G.
    apply onl_true in G. exfalso. apply G.
    destruct (negb (acked (wa s t) =? ctr (wd s))); [destruct (negb (acked (wa s t) + 1 =? ctr (wd s))); [cbn in H; discriminate|];
      destruct (toack (wd s) =? 1)|]; cbn in H; inversion H; subst s1; cbn; now rewrite upd_same. }
  split; [exact Hoff|]. split; [exact Ho|].
  intros [x Hx]. destruct (Nat.eq_dec x t) as [->|Hxt]; [|exists x; now rewrite (Ho x Hxt)].
  unfold owes in Hx. rewrite Ed, orb_false_r in Hx. pose proof Hx as Hneed. apply need_true in Hx. destruct Hx as [_ Hx].
  destruct (negb (acked (wa s t) =? ctr (wd s))) eqn:E1; [|apply negb_false_iff, N.eqb_eq in E1; lia].
  destruct (negb (acked (wa s t) + 1 =? ctr (wd s))) eqn:E2; [cbn in H; discriminate|].
  pose proof (cf_toack_pos U s t HC Ht Hneed) as Htp.
  destruct (toack (wd s) =? 1) eqn:E3.
  - exfalso. cbn in H. inversion H; subst s1. cbn in Hc. lia.
  - apply N.eqb_neq in E3. cbn in H. inversion H; subst s1.
    match goal with HC1 : Core _ ?s2 |- _ => set (s1 := s2) in * end.
    assert (T1 : 1 <= toack (wd s1)) by (unfold s1; cbn; rewrite (dec32_pos _ Htp); lia).
    rewrite (i_j2 _ _ HC1) in T1. destruct (cnt_pos_ex (need s1) U) as [y [_ Hy]]; [lia|].
    exists y. unfold owes. now rewrite Hy.
Qed.

(* one call that returns without changing the period: the set of agents that owe can only shrink,
   the caller of quiescent_state()/offline() leaves it, and it does not become empty *)
Lemma owes_step t c s s1 e :
  Inv U s -> In t U -> wstep t c s = Ok (s1, e) ->
  ctr (wd s1) = ctr (wd s) -> ctr (wd s) < desired (wd s) ->
  (forall x, owes s1 x = true -> owes s x = true /\ (x = t -> quiescent_op c = false)) /\
  ((exists x, owes s x = true) -> exists x, owes s1 x = true).
Proof.
  intros (HC & HK & HP) Ht H Hc Hd. destruct c.
  - (* online *)
    destruct (online_frame _ _ _ _ H) as (Hoth & _ & _ & _ & _ & _ & _ & _ & Hoff).
    pose proof (core_online U s t s1 e HC ND Ht HB H) as HC1.
    assert (Ho : forall x, x <> t -> owes s1 x = owes s x) by apply (owes_others s s1 t Hoth Hc).
    assert (Hnew : owes s1 t = false).
    { unfold wstep, w_step, w_online in H.
      destruct (negb (acked (wa s t) =? 0)) eqn:E0; [discriminate|].
      rewrite guarded_free in H by apply HC.
      assert (Hdt : deferred (wa s t) = false) by (apply (cf_offline_not_deferred U s HC t); apply onl_false; exact Hoff).
      destruct (inc32 (nagents (wd s)) =? 1).
      - destruct (negb (toack (wd s) =? 0)); cbn in H; [discriminate|]. inversion H; subst s1. cbn in Hc. lia.
      - cbn in H. inversion H; subst s1. unfold owes, need. cbn. rewrite upd_same. cbn. rewrite Hdt, orb_false_r.
        destruct (ctr (wd s) + 1 =? ctr (wd s)) eqn:F; [apply N.eqb_eq in F; lia|]. apply andb_false_r. }
    split.
    + intros x Hx. destruct (Nat.eq_dec x t) as [->|Hxt]; [congruence|]. rewrite (Ho x Hxt) in Hx. split; [assumption|contradiction].
    + intros [x Hx]. exists x. destruct (Nat.eq_dec x t) as [->|Hxt]; [|now rewrite (Ho x Hxt)].
      pose proof (owes_online s t HC Hx) as G. apply onl_true in G. contradiction.
  - destruct (offline_effect t s s1 e HC Ht H Hc) as (A & B & C). split; [|exact C].
    intros x Hx. destruct (Nat.eq_dec x t) as [->|Hxt]; [congruence|]. rewrite (B x Hxt) in Hx. split; [assumption|contradiction].
  - destruct (qs_effect t s s1 e HC Ht H Hc Hd) as (A & B & C). split; [|exact C].
    intros x Hx. destruct (Nat.eq_dec x t) as [->|Hxt]; [congruence|]. rewrite (B x Hxt) in Hx. split; [assumption|contradiction].
  - (* await_barrier *)
    unfold wstep, w_step, w_await in H. cbn [raise_desired] in H.
    destruct (negb (wtarget s n =? 0)); [discriminate|]. inversion H; subst s1.
    assert (E : forall x, owes (mkW (mkDom (ctr (wd s)) (N.max (desired (wd s)) (ctr (wd s) + 2)) (nagents (wd s)) (toack (wd s)))
        (upd (wa s) t (mkAgent (acked (wa s t)) (deferred (wa s t)) (pending (wa s t) ++ [n])))
        (upd (wtarget s) n (ctr (wd s) + 2)) (wheld s) (upd (wwait s) n (fun x0 => online_b (wa s x0))) (wqbw s)
        (upd (wowner s) n (Some t))) x = owes s x).
    { intros x. unfold owes, need. cbn. unfold upd. destruct (Nat.eqb x t) eqn:Ex; [apply Nat.eqb_eq in Ex; subst x|]; reflexivity. }
    split; [intros x Hx; rewrite E in Hx; split; [assumption|reflexivity]|intros [x Hx]; exists x; now rewrite E].
  - (* run *)
    unfold wstep, w_step, w_run in H.
    destruct (fire true (ctr (wd s)) t (wtarget s) (pending (wa s t))) as [[tg' p'] ev] eqn:F. inversion H; subst s1.
    assert (E : forall x, owes (mkW (wd s) (upd (wa s) t (mkAgent (acked (wa s t)) (deferred (wa s t)) p')) tg' (wheld s)
        (wwait s) (wqbw s) (wowner s)) x = owes s x).
    { intros x. unfold owes, need. cbn. unfold upd. destruct (Nat.eqb x t) eqn:Ex; [apply Nat.eqb_eq in Ex; subst x|]; reflexivity. }
    split; [intros x Hx; rewrite E in Hx; split; [assumption|reflexivity]|intros [x Hx]; exists x; now rewrite E].
  - (* quiescent_barrier returns only after two more periods *)
    exfalso. unfold wstep, w_step, w_qbarrier in H. cbn [raise_desired] in H.
    destruct (qb_loop_mono _ _ _ _ _ _ _ H) as (_ & _ & C). lia.
Qed.

(* a round: every agent that owes passes quiescent_state() or goes offline; all calls return *)
Theorem round_progress : forall l s s',
  (forall t c, In (t, c) l -> In t U) -> Inv U s -> ctr (wd s) < desired (wd s) ->
  (exists x, owes s x = true) -> (forall x, owes s x = true -> has_qop x l) ->
  wrun l s = Some s' -> ctr (wd s) < ctr (wd s').
Proof.
  induction l as [|[t c] l IH]; intros s s' Hin HI Hd Hex Hall H.
  - destruct Hex as [x Hx]. destruct (Hall x Hx) as [c0 [[] _]].
  - cbn in H. destruct (wstep t c s) as [[s1 e]| | | |] eqn:E; try discriminate.
    assert (Ht : In t U) by (apply (Hin t c); now left).
    destruct (step_mono _ _ _ _ _ E) as [M1 M2]. destruct (wrun_mono _ _ _ H) as [M3 _].
    destruct (N.eq_dec (ctr (wd s1)) (ctr (wd s))) as [Hc|Hc]; [|lia].
    destruct (owes_step t c s s1 e HI Ht E Hc Hd) as [Hsub Hne].
    assert (L : ctr (wd s1) < ctr (wd s')).
    { apply (IH s1 s'); try assumption.
      - intros t0 c0 H0. apply (Hin t0 c0). now right.
      - apply (step_inv U s t c s1 e ND HB Ht HI E).
      - lia.
      - now apply Hne.
      - intros x Hx. destruct (Hsub x Hx) as [Hx0 Hxt]. destruct (Hall x Hx0) as [c0 [[F|F] Q]].
        + inversion F; subst. rewrite (Hxt eq_refl) in Q. discriminate.
        + exists c0. split; assumption. }
    lia.
Qed.

(* rounds, with agents joining and leaving: at the start of each round somebody is online, and every
   agent that is online at the start of the round passes quiescent_state() or goes offline in it *)
Fixpoint rounds (ls : list (list (tid * call))) (s : wstate) : Prop :=
  match ls with
  | [] => True
  | l :: r =>
      (exists x, onl s x = true) /\ (forall x, onl s x = true -> has_qop x l) /\
      (forall t c, In (t, c) l -> In t U) /\
      match wrun l s with Some s1 => rounds r s1 | None => False end
  end.

Lemma wrun_app : forall a b s, wrun (a ++ b) s = match wrun a s with Some s1 => wrun b s1 | None => None end.
Proof.
  induction a as [|[t c] a IH]; intros b s; [reflexivity|]. cbn.
  destruct (wstep t c s) as [[s1 e]| | | |]; try reflexivity. apply IH.
Qed.

Theorem rounds_progress : forall ls s s' tg,
  Inv U s -> rounds ls s -> wrun (concat ls) s = Some s' ->
  tg <= desired (wd s) -> tg <= ctr (wd s) + N.of_nat (length ls) -> tg <= ctr (wd s').
Proof.
  induction ls as [|l r IH]; intros s s' tg HI HR H Hd Hlen.
  - cbn in H. inversion H; subst. cbn in Hlen. lia.
  - cbn [concat] in H. rewrite wrun_app in H. destruct HR as (Hex & Hall & Hin & HR).
    destruct (wrun l s) as [s1|] eqn:E; [|contradiction].
    destruct (wrun_mono _ _ _ E) as [M1 M2]. destruct (wrun_mono _ _ _ H) as [M3 M4].
    destruct (N.lt_ge_cases (ctr (wd s)) tg) as [Hlt|Hge]; [|lia].
    assert (P : ctr (wd s) < ctr (wd s1)).
    { apply (round_progress l s s1 Hin HI); try assumption; [lia| |].
      - apply (owes_exists s (proj1 HI) Hex).
      - intros x Hx. apply Hall. apply (owes_online s x (proj1 HI) Hx). }
    apply (IH s1 s' tg); try assumption.
    + apply (wrun_inv l s s1 Hin HI E).
    + lia.
    + cbn [length] in Hlen. lia.
Qed.

(* once the counter has reached the target of a pending node, its owner's next run() calls it back *)
Lemma in_fired t pre n : In n pre -> In (WCb n t) (fired_evs t pre).
Proof.
  induction pre as [|m pre IH]; intros H; [destruct H|]. cbn.
  destruct H as [->|H]; [tauto|]. do 5 right. now apply IH.
Qed.

Lemma sorted_head_le tg m r n : sorted_tg tg (m :: r) -> In n (m :: r) -> tg m <= tg n.
Proof. intros [S _] [->|H]; [lia|now apply S]. Qed.

Theorem run_fires s t n :
  Inv U s -> In n (pending (wa s t)) -> wtarget s n <= ctr (wd s) ->
  exists s' evs, wstep t CRun s = Ok (s', evs) /\ In (WCb n t) evs.
Proof.
  intros (HC & HK & HP) Hin Hle. unfold wstep, w_step, w_run.
  destruct (fire true (ctr (wd s)) t (wtarget s) (pending (wa s t))) as [[tg' p'] e] eqn:F.
  eexists _, _. split; [reflexivity|].
  destruct (fire_spec _ _ _ _ _ _ _ (i_p3 _ HP t) F) as (pre & Hp & Htg & Hpre & Hev).
  assert (Hn : In n pre).
  { rewrite Hp in Hin. apply in_app_or in Hin. destruct Hin as [Hin|Hin]; [assumption|exfalso].
    destruct p' as [|m p']; [destruct Hin|]. destruct Hev as [Hlt _].
    pose proof (i_p4 _ HP t) as S. rewrite Hp in S. apply sorted_tg_suffix in S.
    pose proof (sorted_head_le _ _ _ _ S Hin). lia. }
  destruct p' as [|m p']; [subst e; now apply in_fired|].
  destruct Hev as [_ ->]. apply in_or_app. left. now apply in_fired.
Qed.

End Live.
