(* Fine-grained model of qs.hpp: invariants (J1-J4 with the in-flight adjustments, restarter
   uniqueness, K, the pending-list structure) for every number of threads, every scripts, every
   scheduler; grace period, callbacks once / by owner, node untouched, absence of deadlock. *)
From Coq Require Import List NArith Bool Arith Lia.
Import ListNotations.
From FV Require Import Qs.QsTypes Qs.QsModel Qs.QsFgModel Qs.QsWoProofs.
Local Open Scope N_scope.

(* boolean comparisons to propositions (lia is used without ZifyBool here: contexts are large) *)
Ltac n2p := repeat match goal with
  | H : (_ =? _) = true |- _ => apply N.eqb_eq in H
  | H : (_ =? _) = false |- _ => apply N.eqb_neq in H
  | H : (_ <? _) = true |- _ => apply N.ltb_lt in H
  | H : (_ <? _) = false |- _ => apply N.ltb_ge in H
  | H : negb _ = true |- _ => apply negb_true_iff in H
  | H : negb _ = false |- _ => apply negb_false_iff in H
  end.

(* the step of the repaired source *)
Definition fstep : tid -> fstate -> result := f_step MLock MUnlock true.

(* ---------------------------------------------------------------------------------------- *)
(* attributes of a thread, from its program counter and its agent object                      *)
(* ---------------------------------------------------------------------------------------- *)

(* counted in num_agents *)
Definition memb (th : thread) : bool :=
  match tpc th with
  | POn2 _ | POn3 _ | POn4 _ | POn5 _ => true
  | POff2 _ | POff3 _ | POff4 _ | POff5 => false
  | _ => negb (acked (tag th) =? 0)
  end.

(* the period the agent has acked, counting an ack that is already visible in agents_to_ack *)
Definition eack (th : thread) : N :=
  match tpc th with
  | POn2 c | POn3 c | POn4 c | POn5 c => c
  | PQ3 _ | PQ4 _ | PQ5 _ | PQ6 _ | PQ7 => acked (tag th) + 1
  | _ => acked (tag th)
  end.

(* counted in agents_to_ack *)
Definition needs (c : N) (th : thread) : bool :=
  match tpc th with
  | POff2 _ => true
  | _ => memb th && (eack th + 1 =? c)
  end.

(* agents_to_ack already reset, counter not yet bumped *)
Definition special (th : thread) : bool :=
  match tpc th with POn4 _ | POff4 _ | PQd5 | PQ6 _ => true | _ => false end.

Definition holds (th : thread) : bool :=
  match tpc th with
  | POn1 | POn2 _ | POn3 _ | POn4 _ | POn5 _ | POff1 | POff2 _ | POff3 _ | POff4 _ | POff5
  | PQd4 | PQd5 | PQd6 | PQ5 _ | PQ6 _ | PQ7 => true
  | _ => false end.

(* the thread that will restart the period: it holds a deferred period, or it is the last acker /
   the first agent on its way to the bump *)
Definition restarter (th : thread) : bool :=
  deferred (tag th) ||
  match tpc th with
  | PQ3 _ | PQ4 _ | PQ5 _ | PQ6 _ | POff3 _ | POff4 _ | POn2 _ | POn3 _ | POn4 _ => true
  | _ => false end.

Definition isoff2 (th : thread) : bool := match tpc th with POff2 _ => true | _ => false end.

Lemma needs_eq c th : needs c th = isoff2 th || (memb th && (eack th + 1 =? c)).
Proof. unfold needs, isoff2, memb. destruct (tpc th); reflexivity. Qed.

(* everything the counting invariants see of a thread *)
Definition attrs (th : thread) : bool * N * bool * bool * bool * bool * bool * N :=
  (memb th, eack th, special th, holds th, restarter th, isoff2 th, deferred (tag th), acked (tag th)).

Definition in_qs (p : pc) : bool :=
  match p with
  | PQd1 | PQd2 | PQd3 | PQd4 | PQd5 | PQd6 | PQ1 | PQ2 _ | PQ3 _ | PQ4 _ | PQ5 _ | PQ6 _ | PQ7 => true
  | _ => false end.

(* facts tied to a program counter *)
Definition local_ok (s : fstate) (nown : nid -> tid) (t : tid) (th : thread) : Prop :=
  let a := tag th in let d := fd s in
  (in_qs (tpc th) = false -> tret th = None) /\
  match tpc th with
  | PIdle => True
  | POn0 | POn1 => acked a = 0 /\ deferred a = false
  | POn2 c | POn3 c | POn4 c => acked a = 0 /\ deferred a = false /\ c = ctr d /\ nagents d = 1 /\ 1 <= c
  | POn5 c => acked a = 0 /\ deferred a = false /\ 1 <= c
  | POff0 | POff1 => acked a <> 0 /\ deferred a = false
  | POff2 c | POff3 c | POff4 c => acked a <> 0 /\ deferred a = false /\ c = ctr d /\ acked a + 1 = c
  | POff5 => deferred a = false
  | PQd1 | PQd2 | PQd3 | PQd4 | PQd5 => acked a <> 0 /\ deferred a = true
  | PQd6 => acked a <> 0 /\ deferred a = false
  | PQ1 | PQ7 => acked a <> 0 /\ deferred a = false
  | PQ2 c | PQ3 c | PQ4 c | PQ5 c | PQ6 c => acked a <> 0 /\ deferred a = false /\ c = ctr d /\ acked a + 1 = c
  | PAb1 n => nown n = t
  | PAb2 n tg | PAb3 n tg _ => nown n = t /\ tg = fwtg s n
  | PRun1 => True
  | PRun2 c => c <= ctr d
  | PQb1 | PQb2 _ | PQb3 _ _ | PQb4 _ => True
  end.

Definition qb_target (th : thread) : option N :=
  match tpc th with PQb2 tg | PQb3 tg _ | PQb4 tg => Some tg | _ => tret th end.

Definition in_await (th : thread) (n : nid) : bool :=
  match tpc th with PAb2 m _ | PAb3 m _ _ => Nat.eqb m n | _ => false end.

(* the period as it will be once the thread that has already reset agents_to_ack has stored it *)
Definition vctr (s : fstate) : N :=
  match fmx s with
  | Some h => if special (fth s h) then ctr (fd s) + 1 else ctr (fd s)
  | None => ctr (fd s)
  end.

Section Invariant.
Variable U : list tid.
Variable nown : nid -> tid.     (* every node is used by one agent (documented precondition) *)

Record FCore (s : fstate) : Prop := mkFCore {
  f_ctr : 1 <= ctr (fd s);
  f_univ : forall x, ~ In x U -> fth s x = thread0 [];
  f_hold : forall x, holds (fth s x) = true <-> fmx s = Some x;
  f_loc : forall x, local_ok s nown x (fth s x);
  (* J1, J2, J3 *)
  f_j1 : forall x, memb (fth s x) = true -> eack (fth s x) = vctr s \/ eack (fth s x) + 1 = vctr s;
  f_j2 : toack (fd s) = cnt (fun x => needs (vctr s) (fth s x)) U;
  f_j3 : nagents (fd s) = cnt (fun x => memb (fth s x)) U;
  (* J4 and the uniqueness of the thread that restarts the period *)
  f_j4 : forall x, deferred (tag (fth s x)) = true -> memb (fth s x) = true /\ acked (tag (fth s x)) = ctr (fd s);
  f_r1 : forall x y, restarter (fth s x) = true -> restarter (fth s y) = true -> x = y;
  f_r2 : forall x, restarter (fth s x) = true -> special (fth s x) = false -> toack (fd s) = 0
}.

Record FGhost (s : fstate) : Prop := mkFGhost {
  f_k : forall n x, fwait s n x = true ->
          acked (tag (fth s x)) <> 0 /\ in_quiescent (tpc (fth s x)) = false /\ acked (tag (fth s x)) + 2 <= fwtg s n;
  f_kq : forall t x tg, fqbw s t x = true -> qb_target (fth s t) = Some tg ->
          acked (tag (fth s x)) <> 0 /\ in_quiescent (tpc (fth s x)) = false /\ acked (tag (fth s x)) + 2 <= tg;
  f_m : forall n, ftarget s n <> 0 ->
          exists t, fowner s n = Some t /\ In n (pending (tag (fth s t))) /\
                    (fwtg s n = ftarget s n \/ in_await (fth s t) n = true);
  f_p1 : forall t n, In n (pending (tag (fth s t))) -> ftarget s n <> 0 /\ fowner s n = Some t;
  f_p3 : forall t, NoDup (pending (tag (fth s t)));
  f_own : forall n t, fowner s n = Some t -> nown n = t;
  f_scr : forall t n, In (CAwait n) (tscript (fth s t)) -> nown n = t
}.

Definition FInv (s : fstate) : Prop := fstop s = None -> FCore s /\ FGhost s.

End Invariant.

(* ---------------------------------------------------------------------------------------- *)
(* helpers                                                                                    *)
(* ---------------------------------------------------------------------------------------- *)

Lemma special_holds th : special th = true -> holds th = true.
Proof. unfold special, holds. destruct (tpc th); intros; try discriminate; reflexivity. Qed.

Lemma special_restarter th : special th = true -> tpc th <> PQd5 -> restarter th = true.
Proof. unfold special, restarter. destruct (tpc th); intros; try discriminate; try contradiction; apply orb_true_r. Qed.

Section Helpers.
Variable U : list tid.
Variable nown : nid -> tid.

Lemma vctr_cases s : FCore U nown s ->
  (vctr s = ctr (fd s) /\ forall x, special (fth s x) = false) \/
  (vctr s = ctr (fd s) + 1 /\ exists h, fmx s = Some h /\ special (fth s h) = true).
Proof.
  intros HC. unfold vctr. destruct (fmx s) as [h|] eqn:E.
  - destruct (special (fth s h)) eqn:Sp.
    + right. split; [reflexivity|]. exists h. auto.
    + left. split; [reflexivity|]. intros x. destruct (special (fth s x)) eqn:Sx; [|reflexivity].
      pose proof Sx as Sx'. apply special_holds in Sx. apply (f_hold _ _ _ HC) in Sx. congruence.
  - left. split; [reflexivity|]. intros x. destruct (special (fth s x)) eqn:Sx; [|reflexivity].
    apply special_holds in Sx. apply (f_hold _ _ _ HC) in Sx. congruence.
Qed.

Lemma vctr_not_holder s t : FCore U nown s -> fmx s = Some t -> special (fth s t) = false -> vctr s = ctr (fd s).
Proof. intros _ E Sp. unfold vctr. now rewrite E, Sp. Qed.

Lemma vctr_free s : fmx s = None -> vctr s = ctr (fd s).
Proof. intros E. unfold vctr. now rewrite E. Qed.

(* the counting clauses, when thread t changes and the virtual period does not *)
Lemma fcore_upd s s' t th' :
  FCore U nown s -> NoDup U -> In t U ->
  fth s' = upd (fth s) t th' ->
  vctr s' = vctr s -> ctr (fd s) <= ctr (fd s') ->
  (memb th' = true -> eack th' = vctr s \/ eack th' + 1 = vctr s) ->
  toack (fd s') + b2n (needs (vctr s) (fth s t)) = toack (fd s) + b2n (needs (vctr s) th') ->
  nagents (fd s') + b2n (memb (fth s t)) = nagents (fd s) + b2n (memb th') ->
  (forall x, holds (fth s' x) = true <-> fmx s' = Some x) ->
  (forall x, local_ok s' nown x (fth s' x)) ->
  (forall x, deferred (tag (fth s' x)) = true -> memb (fth s' x) = true /\ acked (tag (fth s' x)) = ctr (fd s')) ->
  (forall x y, restarter (fth s' x) = true -> restarter (fth s' y) = true -> x = y) ->
  (forall x, restarter (fth s' x) = true -> special (fth s' x) = false -> toack (fd s') = 0) ->
  FCore U nown s'.
Proof.
  intros HC ND Ht Hth Hv Hc H1 H2 H3 Hh Hl H4 Hr1 Hr2.
  assert (Hoth : forall x, x <> t -> fth s' x = fth s x) by (intros x Hx; rewrite Hth; now apply upd_other).
  assert (Hme : fth s' t = th') by (rewrite Hth; apply upd_same).
  constructor; try assumption.
  - pose proof (f_ctr _ _ _ HC). lia.
  - intros x Hx. rewrite Hoth by (intros ->; contradiction). apply (f_univ _ _ _ HC x Hx).
  - intros x. rewrite Hv. destruct (Nat.eq_dec x t) as [->|Hx].
    + rewrite Hme. exact H1.
    + rewrite (Hoth x Hx). apply (f_j1 _ _ _ HC x).
  - rewrite Hv.
    pose proof (cnt_change (fun x => needs (vctr s) (fth s x)) (fun x => needs (vctr s) (fth s' x)) U t ND Ht) as C.
    cbv beta in C. rewrite Hme in C. rewrite <- (f_j2 _ _ _ HC) in C.
    assert (E : toack (fd s) + b2n (needs (vctr s) th') =
                cnt (fun x => needs (vctr s) (fth s' x)) U + b2n (needs (vctr s) (fth s t))).
    { apply C. intros y Hy. now rewrite (Hoth y Hy). }
    lia.
  - pose proof (cnt_change (fun x => memb (fth s x)) (fun x => memb (fth s' x)) U t ND Ht) as C.
    cbv beta in C. rewrite Hme in C. rewrite <- (f_j3 _ _ _ HC) in C.
    assert (E : nagents (fd s) + b2n (memb th') = cnt (fun x => memb (fth s' x)) U + b2n (memb (fth s t))).
    { apply C. intros y Hy. now rewrite (Hoth y Hy). }
    lia.
Qed.

End Helpers.

Section Moves.
Variable U : list tid.
Variable nown : nid -> tid.

Lemma local_ok_frame s s' x th :
  ctr (fd s') = ctr (fd s) -> nagents (fd s') = nagents (fd s) ->
  (forall n, nown n = x -> fwtg s' n = fwtg s n) ->
  local_ok s nown x th -> local_ok s' nown x th.
Proof.
  intros Hc Hn Hw [H0 H]. split; [assumption|]. destruct (tpc th); rewrite ?Hc, ?Hn; try assumption.
  - destruct H as [H1 H2]. split; [assumption|]. rewrite (Hw _ H1). assumption.
  - destruct H as [H1 H2]. split; [assumption|]. rewrite (Hw _ H1). assumption.
Qed.

(* the counting attributes of t do not change; the mutex and t's agent object may *)
Lemma fcore_move2 s s' t th' :
  FCore U nown s -> NoDup U -> In t U ->
  fth s' = upd (fth s) t th' ->
  ctr (fd s') = ctr (fd s) -> nagents (fd s') = nagents (fd s) -> toack (fd s') = toack (fd s) ->
  vctr s' = vctr s ->
  (forall n, fwtg s' n = fwtg s n \/ nown n = t) ->
  memb th' = memb (fth s t) -> (memb th' = true -> eack th' = eack (fth s t)) -> isoff2 th' = isoff2 (fth s t) ->
  special th' = special (fth s t) -> restarter th' = restarter (fth s t) ->
  (forall x, holds (fth s' x) = true <-> fmx s' = Some x) ->
  local_ok s' nown t th' ->
  (deferred (tag th') = true -> memb th' = true /\ acked (tag th') = ctr (fd s)) ->
  FCore U nown s'.
Proof.
  intros HC ND Ht Hth Hc Hn Hta Hv Hw A1 A2 A6 A3 A5 Hh Hl H4.
  assert (Hoth : forall x, x <> t -> fth s' x = fth s x) by (intros x Hx; rewrite Hth; now apply upd_other).
  assert (Hme : fth s' t = th') by (rewrite Hth; apply upd_same).
  assert (Hneeds : forall c, needs c th' = needs c (fth s t)).
  { intros c. rewrite !needs_eq, A6. destruct (memb th') eqn:M.
    - now rewrite <- A1, (A2 eq_refl).
    - now rewrite <- A1. }
  apply (fcore_upd U nown s s' t th' HC ND Ht Hth Hv).
  - rewrite Hc. apply N.le_refl.
  - intros M. rewrite (A2 M). apply (f_j1 _ _ _ HC t). now rewrite <- A1.
  - rewrite Hneeds, Hta. reflexivity.
  - rewrite A1, Hn. reflexivity.
  - exact Hh.
  - intros x. destruct (Nat.eq_dec x t) as [->|Hx]; [now rewrite Hme|]. rewrite (Hoth x Hx).
    apply (local_ok_frame s s' x (fth s x) Hc Hn); [|apply (f_loc _ _ _ HC x)].
    intros n Hnx. destruct (Hw n) as [E|E]; [assumption|congruence].
  - intros x Hx. rewrite Hc. destruct (Nat.eq_dec x t) as [->|Hn'].
    + rewrite Hme in *. now apply H4.
    + rewrite (Hoth x Hn') in *. apply (f_j4 _ _ _ HC x Hx).
  - intros x y Hx Hy.
    assert (Rx : restarter (fth s x) = true) by (destruct (Nat.eq_dec x t) as [->|Hn']; [now rewrite Hme, A5 in Hx|now rewrite (Hoth x Hn') in Hx]).
    assert (Ry : restarter (fth s y) = true) by (destruct (Nat.eq_dec y t) as [->|Hn']; [now rewrite Hme, A5 in Hy|now rewrite (Hoth y Hn') in Hy]).
    apply (f_r1 _ _ _ HC x y Rx Ry).
  - intros x Hx Hs. rewrite Hta.
    destruct (Nat.eq_dec x t) as [->|Hn']; [rewrite Hme in *; apply (f_r2 _ _ _ HC t); congruence|].
    rewrite (Hoth x Hn') in *. apply (f_r2 _ _ _ HC x Hx Hs).
Qed.

(* thread t moves between program counters with the same attributes; shared counters unchanged *)
Lemma hold_same s s' t th' :
  FCore U nown s -> fth s' = upd (fth s) t th' -> fmx s' = fmx s -> holds th' = holds (fth s t) ->
  forall x, holds (fth s' x) = true <-> fmx s' = Some x.
Proof.
  intros HC Hth Hm Hh x. rewrite Hm, Hth. destruct (Nat.eq_dec x t) as [->|Hx].
  - rewrite upd_same, Hh. apply (f_hold _ _ _ HC t).
  - rewrite upd_other by assumption. apply (f_hold _ _ _ HC x).
Qed.

Lemma hold_lock s s' t th' :
  FCore U nown s -> fth s' = upd (fth s) t th' -> fmx s = None -> fmx s' = Some t -> holds th' = true ->
  forall x, holds (fth s' x) = true <-> fmx s' = Some x.
Proof.
  intros HC Hth Hm Hm' Hh x. rewrite Hm', Hth. destruct (Nat.eq_dec x t) as [->|Hx].
  - rewrite upd_same, Hh. tauto.
  - rewrite upd_other by assumption. split.
    + intros H. apply (f_hold _ _ _ HC x) in H. congruence.
    + intros H. inversion H. congruence.
Qed.

Lemma hold_unlock s s' t th' :
  FCore U nown s -> fth s' = upd (fth s) t th' -> fmx s = Some t -> fmx s' = None -> holds th' = false ->
  forall x, holds (fth s' x) = true <-> fmx s' = Some x.
Proof.
  intros HC Hth Hm Hm' Hh x. rewrite Hm', Hth. destruct (Nat.eq_dec x t) as [->|Hx].
  - rewrite upd_same, Hh. split; discriminate.
  - rewrite upd_other by assumption. split; [|discriminate].
    intros H. apply (f_hold _ _ _ HC x) in H. congruence.
Qed.

Lemma fcore_move s s' t th' :
  FCore U nown s -> NoDup U -> In t U ->
  fth s' = upd (fth s) t th' ->
  ctr (fd s') = ctr (fd s) -> nagents (fd s') = nagents (fd s) -> toack (fd s') = toack (fd s) ->
  fmx s' = fmx s ->
  (forall n, fwtg s' n = fwtg s n \/ nown n = t) ->
  attrs th' = attrs (fth s t) ->
  local_ok s' nown t th' ->
  FCore U nown s'.
Proof.
  intros HC ND Ht Hth Hc Hn Hta Hm Hw Hat Hl.
  unfold attrs in Hat. inversion Hat as [[A1 A2 A3 A4 A5 A6 A7 A8]]. clear Hat.
  apply (fcore_move2 s s' t th' HC ND Ht Hth Hc Hn Hta); try assumption; try (intros _; assumption).
  - unfold vctr. rewrite Hm, Hc, Hth. destruct (fmx s) as [h|]; [|reflexivity].
    destruct (Nat.eq_dec h t) as [->|Hx]; [now rewrite upd_same, A3|now rewrite upd_other].
  - apply (hold_same s s' t th' HC Hth Hm A4).
  - rewrite A7, A8, A1. apply (f_j4 _ _ _ HC t).
Qed.

(* facts about the threads that do not hold the mutex *)
Lemma other_not_holder s t x : FCore U nown s -> fmx s = Some t -> x <> t -> holds (fth s x) = false.
Proof.
  intros HC Hm Hx. destruct (holds (fth s x)) eqn:E; [|reflexivity].
  apply (f_hold _ _ _ HC x) in E. congruence.
Qed.

(* local facts of the other threads when the holder changes num_agents *)
Lemma loc_others_holder s s' t x :
  FCore U nown s -> fmx s = Some t -> x <> t ->
  ctr (fd s') = ctr (fd s) -> fwtg s' = fwtg s ->
  local_ok s' nown x (fth s x).
Proof.
  intros HC Hm Hx Hc Hw. pose proof (f_loc _ _ _ HC x) as [L0 L]. pose proof (other_not_holder s t x HC Hm Hx) as Hh.
  split; [assumption|]. unfold holds in Hh. destruct (tpc (fth s x)); try discriminate; rewrite ?Hc, ?Hw; assumption.
Qed.

Lemma memb_in_U s x : FCore U nown s -> memb (fth s x) = true -> In x U.
Proof.
  intros HC Hx. destruct (in_dec Nat.eq_dec x U) as [i|n]; [assumption|].
  rewrite (f_univ _ _ _ HC x n) in Hx. discriminate.
Qed.

Lemma nagents_room s t : FCore U nown s -> NoDup U -> In t U -> memb (fth s t) = false ->
  nagents (fd s) + 1 <= N.of_nat (length U).
Proof.
  intros HC ND Ht Hm. rewrite (f_j3 _ _ _ HC).
  set (q := fun x => if Nat.eqb x t then true else memb (fth s x)).
  assert (E : cnt (fun x => memb (fth s x)) U + b2n (q t) = cnt q U + b2n (memb (fth s t))).
  { apply cnt_change; [assumption|assumption|]. intros y Hy. unfold q. apply Nat.eqb_neq in Hy. now rewrite Hy. }
  assert (Q : q t = true) by (unfold q; now rewrite Nat.eqb_refl).
  rewrite Q, Hm in E. cbn [b2n] in E. pose proof (cnt_le_length q U) as L. clearbody q. clear - E L. lia.
Qed.

Lemma nagents_pos s t : FCore U nown s -> memb (fth s t) = true -> 1 <= nagents (fd s).
Proof.
  intros HC Hm. rewrite (f_j3 _ _ _ HC).
  pose proof (cnt_pos (fun x => memb (fth s x)) U t (memb_in_U s t HC Hm) Hm) as P. clear - P. lia.
Qed.

Lemma no_members s : FCore U nown s -> nagents (fd s) = 0 -> forall x, memb (fth s x) = false.
Proof.
  intros HC H0 x. destruct (memb (fth s x)) eqn:E; [|reflexivity].
  pose proof (nagents_pos s x HC E) as P. clear - P H0. lia.
Qed.

Lemma needs_in_U s c x : FCore U nown s -> needs c (fth s x) = true -> In x U.
Proof.
  intros HC Hx. destruct (in_dec Nat.eq_dec x U) as [i|n]; [assumption|].
  rewrite (f_univ _ _ _ HC x n) in Hx. discriminate.
Qed.

Lemma toack_pos s t : FCore U nown s -> needs (vctr s) (fth s t) = true -> 1 <= toack (fd s).
Proof.
  intros HC Hn. rewrite (f_j2 _ _ _ HC).
  pose proof (cnt_pos (fun x => needs (vctr s) (fth s x)) U t (needs_in_U s _ t HC Hn) Hn) as P. clear - P. lia.
Qed.

Lemma toack_one_only s t : FCore U nown s -> NoDup U -> toack (fd s) = 1 -> needs (vctr s) (fth s t) = true ->
  forall x, x <> t -> needs (vctr s) (fth s x) = false.
Proof.
  intros HC ND H1 Hn x Hx. destruct (needs (vctr s) (fth s x)) eqn:E; [|reflexivity].
  pose proof (cnt_two (fun y => needs (vctr s) (fth s y)) U x t ND (needs_in_U s _ x HC E) (needs_in_U s _ t HC Hn) Hx E Hn) as P.
  rewrite <- (f_j2 _ _ _ HC) in P. clear - P H1. lia.
Qed.

Lemma toack_zero_none s : FCore U nown s -> toack (fd s) = 0 -> forall x, needs (vctr s) (fth s x) = false.
Proof.
  intros HC H0 x. destruct (needs (vctr s) (fth s x)) eqn:E; [|reflexivity].
  pose proof (toack_pos s x HC E) as P. clear - P H0. lia.
Qed.

(* a restarter is a member or holds the mutex *)
Lemma restarter_memb_or_holds s x : FCore U nown s -> restarter (fth s x) = true ->
  memb (fth s x) = true \/ holds (fth s x) = true.
Proof.
  intros HC R. unfold restarter in R. apply orb_true_iff in R. destruct R as [D|R].
  - left. apply (f_j4 _ _ _ HC x D).
  - pose proof (f_loc _ _ _ HC x) as [_ L]. unfold memb, holds.
    destruct (tpc (fth s x)); try discriminate; try (right; reflexivity); left;
      destruct L as (La & _); destruct (acked (tag (fth s x)) =? 0) eqn:Z; try reflexivity; apply N.eqb_eq in Z; contradiction.
Qed.

(* nobody is a member and t holds the mutex (without being at the fetch_sub of offline): nothing to ack *)
Lemma nobody_needs s t : FCore U nown s -> nagents (fd s) = 0 -> fmx s = Some t -> isoff2 (fth s t) = false ->
  toack (fd s) = 0 /\ forall x, x <> t -> restarter (fth s x) = false.
Proof.
  intros HC H0 Hm I2.
  assert (Hnn : forall x, needs (vctr s) (fth s x) = false).
  { intros x. rewrite needs_eq, (no_members s HC H0 x). cbn. rewrite orb_false_r.
    destruct (Nat.eq_dec x t) as [->|Hx]; [assumption|].
    pose proof (other_not_holder s t x HC Hm Hx) as Hh. unfold isoff2, holds in *. destruct (tpc (fth s x)); try reflexivity; discriminate. }
  split.
  - rewrite (f_j2 _ _ _ HC). clear - Hnn. induction U as [|a l IH]; cbn; [reflexivity|]. now rewrite Hnn, IH.
  - intros x Hx. destruct (restarter (fth s x)) eqn:R; [|reflexivity].
    destruct (restarter_memb_or_holds s x HC R) as [M|Hh].
    + rewrite (no_members s HC H0 x) in M. discriminate.
    + rewrite (other_not_holder s t x HC Hm Hx) in Hh. discriminate.
Qed.

(* thread t (not special before or after) changes counters other than the period; mutex unchanged *)
Lemma fcore_step_upd s s' t th' :
  FCore U nown s -> NoDup U -> In t U ->
  fth s' = upd (fth s) t th' ->
  fmx s' = fmx s -> holds th' = holds (fth s t) ->
  special (fth s t) = false -> special th' = false ->
  vctr s = ctr (fd s) ->
  ctr (fd s') = ctr (fd s) ->
  (memb th' = true -> eack th' = ctr (fd s) \/ eack th' + 1 = ctr (fd s)) ->
  toack (fd s') + b2n (needs (ctr (fd s)) (fth s t)) = toack (fd s) + b2n (needs (ctr (fd s)) th') ->
  nagents (fd s') + b2n (memb (fth s t)) = nagents (fd s) + b2n (memb th') ->
  local_ok s' nown t th' ->
  (forall x, x <> t -> local_ok s' nown x (fth s x)) ->
  (deferred (tag th') = true -> memb th' = true /\ acked (tag th') = ctr (fd s)) ->
  (restarter th' = true -> restarter (fth s t) = true \/ forall x, x <> t -> restarter (fth s x) = false) ->
  (restarter th' = true -> toack (fd s') = 0) ->
  (toack (fd s) = 0 -> toack (fd s') = 0) ->
  FCore U nown s'.
Proof.
  intros HC ND Ht Hth Hm Hh Sp Sp' Hv Hc H1 H2 H3 Hl Hlo H4 Hr1 Hr2 Hr2o.
  assert (Hoth : forall x, x <> t -> fth s' x = fth s x) by (intros x Hx; rewrite Hth; now apply upd_other).
  assert (Hme : fth s' t = th') by (rewrite Hth; apply upd_same).
  assert (Hv' : vctr s' = vctr s).
  { rewrite Hv. unfold vctr in *. rewrite Hm, Hc. destruct (fmx s) as [h|]; [|reflexivity].
    destruct (Nat.eq_dec h t) as [->|Hx]; [now rewrite Hme, Sp'|]. rewrite (Hoth h Hx). exact Hv. }
  apply (fcore_upd U nown s s' t th' HC ND Ht Hth Hv').
  - rewrite Hc. apply N.le_refl.
  - now rewrite Hv.
  - now rewrite Hv.
  - exact H3.
  - apply (hold_same s s' t th' HC Hth Hm Hh).
  - intros x. destruct (Nat.eq_dec x t) as [->|Hx]; [now rewrite Hme|]. rewrite (Hoth x Hx). now apply Hlo.
  - intros x Hx. rewrite Hc. destruct (Nat.eq_dec x t) as [->|Hn']; [rewrite Hme in *; now apply H4|].
    rewrite (Hoth x Hn') in *. apply (f_j4 _ _ _ HC x Hx).
  - intros x y Hx Hy. destruct (Nat.eq_dec x t) as [->|Hnx]; destruct (Nat.eq_dec y t) as [->|Hny]; try reflexivity.
    + rewrite Hme in Hx. rewrite (Hoth y Hny) in Hy. destruct (Hr1 Hx) as [R|R]; [apply (f_r1 _ _ _ HC t y R Hy)|].
      rewrite (R y Hny) in Hy. discriminate.
    + rewrite Hme in Hy. rewrite (Hoth x Hnx) in Hx. destruct (Hr1 Hy) as [R|R]; [apply (f_r1 _ _ _ HC x t Hx R)|].
      rewrite (R x Hnx) in Hx. discriminate.
    + rewrite (Hoth x Hnx) in Hx. rewrite (Hoth y Hny) in Hy. apply (f_r1 _ _ _ HC x y Hx Hy).
  - intros x Hx Hs. destruct (Nat.eq_dec x t) as [->|Hn']; [rewrite Hme in Hx; now apply Hr2|].
    rewrite (Hoth x Hn') in *. apply Hr2o. apply (f_r2 _ _ _ HC x Hx Hs).
Qed.

(* the holder t resets agents_to_ack: from now on the virtual period is the next one *)
Lemma fcore_vbump s s' t th' :
  FCore U nown s -> NoDup U -> In t U ->
  fth s' = upd (fth s) t th' ->
  fmx s = Some t -> fmx s' = Some t ->
  special (fth s t) = false -> restarter (fth s t) = true ->
  special th' = true -> holds th' = true -> restarter th' = true ->
  memb th' = memb (fth s t) -> eack th' = eack (fth s t) -> isoff2 th' = false ->
  tag th' = tag (fth s t) ->
  ctr (fd s') = ctr (fd s) -> nagents (fd s') = nagents (fd s) -> toack (fd s') = nagents (fd s) ->
  fwtg s' = fwtg s ->
  local_ok s' nown t th' ->
  FCore U nown s'.
Proof.
  intros HC ND Ht Hth Hm Hm' Sp Rs Sp' Hh' Rs' A1 A2 A6 Atag Hc Hn Hta Hw Hl.
  assert (Hoth : forall x, x <> t -> fth s' x = fth s x) by (intros x Hx; rewrite Hth; now apply upd_other).
  assert (Hme : fth s' t = th') by (rewrite Hth; apply upd_same).
  assert (Hv : vctr s = ctr (fd s)) by (unfold vctr; now rewrite Hm, Sp).
  assert (Hv' : vctr s' = ctr (fd s) + 1) by (unfold vctr; now rewrite Hm', Hme, Sp', Hc).
  assert (T0 : toack (fd s) = 0) by (apply (f_r2 _ _ _ HC t Rs Sp)).
  assert (Hnn : forall x, In x U -> needs (ctr (fd s)) (fth s x) = false).
  { intros x Hx. pose proof (f_j2 _ _ _ HC) as J. rewrite T0, Hv in J. symmetry in J. apply (cnt_zero _ _ J x Hx). }
  assert (Hmem : forall x, memb (fth s x) = true -> In x U).
  { intros x Hx. destruct (in_dec Nat.eq_dec x U) as [i|n]; [assumption|].
    rewrite (f_univ _ _ _ HC x n) in Hx. discriminate. }
  assert (Hall : forall x, memb (fth s x) = true -> eack (fth s x) = ctr (fd s)).
  { intros x Hx. destruct (f_j1 _ _ _ HC x Hx) as [E|E]; rewrite Hv in E; [assumption|].
    pose proof (Hnn x (Hmem x Hx)) as F. rewrite needs_eq, Hx in F. apply orb_false_iff in F. destruct F as [_ F].
    cbn in F. apply N.eqb_neq in F. contradiction. }
  assert (Hat : forall x, memb (fth s' x) = memb (fth s x) /\ eack (fth s' x) = eack (fth s x)).
  { intros x. destruct (Nat.eq_dec x t) as [->|Hx]; [rewrite Hme; auto|rewrite (Hoth x Hx); auto]. }
  constructor.
  - rewrite Hc. apply (f_ctr _ _ _ HC).
  - intros x Hx. rewrite Hoth by (intros ->; contradiction). apply (f_univ _ _ _ HC x Hx).
  - apply (hold_same s s' t th' HC Hth); [congruence|]. rewrite Hh'. symmetry. apply (f_hold _ _ _ HC t). exact Hm.
  - intros x. destruct (Nat.eq_dec x t) as [->|Hx]; [now rewrite Hme|]. rewrite (Hoth x Hx).
    apply (local_ok_frame s s' x (fth s x) Hc Hn); [|apply (f_loc _ _ _ HC x)]. intros; now rewrite Hw.
  - intros x Hx. destruct (Hat x) as [E1 E2]. rewrite E1 in Hx. rewrite E2, Hv', (Hall x Hx). now right.
  - rewrite Hta, Hv', (f_j3 _ _ _ HC). apply cnt_ext. intros x Hx. destruct (Hat x) as [E1 E2].
    rewrite needs_eq, E1, E2.
    assert (I2 : isoff2 (fth s' x) = false).
    { destruct (Nat.eq_dec x t) as [->|Hn']; [now rewrite Hme|]. rewrite (Hoth x Hn').
      pose proof (Hnn x Hx) as F. rewrite needs_eq in F. apply orb_false_iff in F. tauto. }
    rewrite I2. cbn. destruct (memb (fth s x)) eqn:M; [|reflexivity]. rewrite (Hall x M). cbn. symmetry. apply N.eqb_refl.
  - rewrite Hn, (f_j3 _ _ _ HC). apply cnt_ext. intros x _. now destruct (Hat x) as [-> _].
  - intros x Hx. rewrite Hc. destruct (Nat.eq_dec x t) as [->|Hn'].
    + rewrite Hme in *. rewrite Atag in *. rewrite A1. apply (f_j4 _ _ _ HC t Hx).
    + rewrite (Hoth x Hn') in *. apply (f_j4 _ _ _ HC x Hx).
  - intros x y Hx Hy.
    assert (Rx : restarter (fth s x) = true) by (destruct (Nat.eq_dec x t) as [->|Hn']; [assumption|now rewrite (Hoth x Hn') in Hx]).
    assert (Ry : restarter (fth s y) = true) by (destruct (Nat.eq_dec y t) as [->|Hn']; [assumption|now rewrite (Hoth y Hn') in Hy]).
    apply (f_r1 _ _ _ HC x y Rx Ry).
  - intros x Hx Hs. destruct (Nat.eq_dec x t) as [->|Hn']; [rewrite Hme in Hs; congruence|].
    rewrite (Hoth x Hn') in Hx. elim Hn'. apply (f_r1 _ _ _ HC x t Hx Rs).
Qed.

(* the holder t, having reset agents_to_ack, stores the new period *)
Lemma fcore_store_ctr s s' t th' :
  FCore U nown s -> NoDup U -> In t U ->
  fth s' = upd (fth s) t th' ->
  fmx s = Some t -> fmx s' = Some t ->
  special (fth s t) = true -> restarter (fth s t) = true ->
  special th' = false -> holds th' = true -> restarter th' = false ->
  memb th' = memb (fth s t) -> eack th' = eack (fth s t) -> isoff2 th' = false -> isoff2 (fth s t) = false ->
  deferred (tag th') = false ->
  ctr (fd s') = ctr (fd s) + 1 -> nagents (fd s') = nagents (fd s) -> toack (fd s') = toack (fd s) ->
  fwtg s' = fwtg s ->
  local_ok s' nown t th' ->
  FCore U nown s'.
Proof.
  intros HC ND Ht Hth Hm Hm' Sp Rs Sp' Hh' Rs' A1 A2 A6 A6' Dt Hc Hn Hta Hw Hl.
  assert (Hoth : forall x, x <> t -> fth s' x = fth s x) by (intros x Hx; rewrite Hth; now apply upd_other).
  assert (Hme : fth s' t = th') by (rewrite Hth; apply upd_same).
  assert (Hv : vctr s = ctr (fd s) + 1) by (unfold vctr; now rewrite Hm, Sp).
  assert (Hv' : vctr s' = vctr s) by (unfold vctr at 1; now rewrite Hm', Hme, Sp', Hc, Hv).
  assert (Honly : forall x, x <> t -> restarter (fth s x) = false).
  { intros x Hx. destruct (restarter (fth s x)) eqn:R; [|reflexivity]. elim Hx. apply (f_r1 _ _ _ HC x t R Rs). }
  apply (fcore_upd U nown s s' t th' HC ND Ht Hth Hv').
  - rewrite Hc. clear. lia.
  - rewrite A1, A2. apply (f_j1 _ _ _ HC t).
  - rewrite !needs_eq, A1, A2, A6, A6', Hta. reflexivity.
  - rewrite A1, Hn. reflexivity.
  - apply (hold_same s s' t th' HC Hth); [congruence|]. rewrite Hh'. symmetry. apply (f_hold _ _ _ HC t). exact Hm.
  - intros x. destruct (Nat.eq_dec x t) as [->|Hx]; [now rewrite Hme|]. rewrite (Hoth x Hx).
    pose proof (f_loc _ _ _ HC x) as [L0 L]. pose proof (other_not_holder s t x HC Hm Hx) as Hhx.
    pose proof (Honly x Hx) as Rx. split; [assumption|].
    unfold holds in Hhx. unfold restarter in Rx. apply orb_false_iff in Rx. destruct Rx as [Dx Rx].
    destruct (tpc (fth s x)) eqn:Ex; try discriminate; rewrite ?Hw; try assumption.
    + (* PQ2 c: impossible while t is special *)
      exfalso. destruct L as (La & Lb & Lc & Ld).
      assert (M : memb (fth s x) = true) by (unfold memb; rewrite Ex; destruct (acked (tag (fth s x)) =? 0) eqn:Z; [apply N.eqb_eq in Z; contradiction|reflexivity]).
      destruct (f_j1 _ _ _ HC x M) as [E|E]; unfold eack in E; rewrite Ex, Hv in E; clear - E Lc Ld; lia.
    + rewrite Hc. clear - L. lia.
  - intros x Hx. destruct (Nat.eq_dec x t) as [->|Hn']; [rewrite Hme in Hx; congruence|].
    rewrite (Hoth x Hn') in Hx. pose proof (Honly x Hn') as R. unfold restarter in R. rewrite Hx in R. discriminate.
  - intros x y Hx Hy. destruct (Nat.eq_dec x t) as [->|Hn']; [rewrite Hme in Hx; congruence|].
    rewrite (Hoth x Hn') in Hx. rewrite (Honly x Hn') in Hx. discriminate.
  - intros x Hx Hs. destruct (Nat.eq_dec x t) as [->|Hn']; [rewrite Hme in Hx; congruence|].
    rewrite (Hoth x Hn') in Hx. rewrite (Honly x Hn') in Hx. discriminate.
Qed.

End Moves.

Section GhostMoves.
Variable nown : nid -> tid.

(* thread t moves; node fields unchanged; waiting sets only shrink *)
Lemma fghost_frame s s' t th' :
  FGhost nown s ->
  fth s' = upd (fth s) t th' ->
  ftarget s' = ftarget s -> fowner s' = fowner s -> fwtg s' = fwtg s ->
  (forall n x, fwait s' n x = true -> fwait s n x = true) ->
  (forall b x, fqbw s' b x = true -> fqbw s b x = true) ->
  acked (tag th') = acked (tag (fth s t)) -> pending (tag th') = pending (tag (fth s t)) ->
  (forall n, fwait s' n t = true -> in_quiescent (tpc th') = false) ->
  (forall b, fqbw s' b t = true -> in_quiescent (tpc th') = false) ->
  (qb_target th' = None \/ qb_target th' = qb_target (fth s t)) ->
  (forall n, in_await (fth s t) n = true -> in_await th' n = true) ->
  (forall c, In c (tscript th') -> In c (tscript (fth s t))) ->
  FGhost nown s'.
Proof.
  intros HG Hth Htg Hown Hwtg Hw Hq Hack Hpend Hkt Hqt Hqb Haw Hscr.
  assert (Hoth : forall x, x <> t -> fth s' x = fth s x) by (intros x Hx; rewrite Hth; now apply upd_other).
  assert (Hme : fth s' t = th') by (rewrite Hth; apply upd_same).
  assert (Hacked : forall x, acked (tag (fth s' x)) = acked (tag (fth s x))).
  { intros x. destruct (Nat.eq_dec x t) as [->|Hx]; [now rewrite Hme|now rewrite Hoth]. }
  assert (Hpending : forall x, pending (tag (fth s' x)) = pending (tag (fth s x))).
  { intros x. destruct (Nat.eq_dec x t) as [->|Hx]; [now rewrite Hme|now rewrite Hoth]. }
  constructor.
  - intros n x Hx. rewrite Hacked, Hwtg. destruct (f_k _ _ HG n x (Hw n x Hx)) as (A & B & C).
    split; [assumption|]. split; [|assumption].
    destruct (Nat.eq_dec x t) as [->|Hn]; [rewrite Hme; apply (Hkt n Hx)|now rewrite Hoth].
  - intros b x tg Hx Hb. rewrite Hacked.
    assert (Hb' : qb_target (fth s b) = Some tg).
    { destruct (Nat.eq_dec b t) as [->|Hn]; [|now rewrite Hoth in Hb].
      rewrite Hme in Hb. destruct Hqb as [E|E]; [congruence|now rewrite <- E]. }
    destruct (f_kq _ _ HG b x tg (Hq b x Hx) Hb') as (A & B & C).
    split; [assumption|]. split; [|assumption].
    destruct (Nat.eq_dec x t) as [->|Hn]; [rewrite Hme; apply (Hqt b Hx)|now rewrite Hoth].
  - intros n. rewrite Htg, Hown, Hwtg. intros Hn. destruct (f_m _ _ HG n Hn) as (o & Ho & Hin & Hor).
    exists o. split; [assumption|]. split; [now rewrite Hpending|].
    destruct Hor as [E|E]; [now left|right].
    destruct (Nat.eq_dec o t) as [->|Hx]; [rewrite Hme; now apply Haw|now rewrite Hoth].
  - intros x n. rewrite Hpending, Htg, Hown. apply (f_p1 _ _ HG x n).
  - intros x. rewrite Hpending. apply (f_p3 _ _ HG x).
  - intros n x. rewrite Hown. apply (f_own _ _ HG n x).
  - intros x n Hin. destruct (Nat.eq_dec x t) as [->|Hx].
    + rewrite Hme in Hin. apply (f_scr _ _ HG t n). now apply Hscr.
    + rewrite Hoth in Hin by assumption. apply (f_scr _ _ HG x n Hin).
Qed.

End GhostMoves.

(* ---------------------------------------------------------------------------------------- *)
(* case analysis of one step                                                                  *)
(* ---------------------------------------------------------------------------------------- *)

Ltac fstep_inv H Hstop :=
  unfold fstep, f_step in H; rewrite Hstop in H; cbv zeta in H;
  match type of H with context [tpc ?th] => destruct (tpc th) eqn:Epc end;
  unfold do_mcall, start_call, qs_entry, ab_finish, cas_step, halt, stutter in H;
  repeat match type of H with
  | context [desired (fd ?s) =? ?c] => destruct (desired (fd s) =? c) eqn:?
  end;
  repeat match type of H with
  | context [match ?x with _ => _ end] => destruct x eqn:?
  end;
  inversion H; subst; clear H;
  cbn [tag tpc tscript tret acked deferred pending] in *.

Ltac split_ret := unfold ret_th; try match goal with |- context [tret ?th] => destruct (tret th) eqn:? end.

Ltac attrs_tac Epc :=
  unfold attrs, memb, eack, special, holds, restarter, isoff2; split_ret; cbn; rewrite ?Epc; cbn; reflexivity.

Ltac local_tac U nown HC t Epc :=
  let L := fresh "L" in
  pose proof (f_loc U nown _ HC t) as L; unfold local_ok in L |- *; rewrite Epc in L; cbn in L |- *;
  split_ret; cbn;
  n2p; intuition (try lia; try congruence).

Ltac move_tac U nown HC ND Ht t Epc :=
  eapply (fcore_move U nown _ _ t _ HC ND Ht);
    [ cbn; reflexivity | cbn; reflexivity | cbn; reflexivity | cbn; reflexivity | cbn; reflexivity
    | intros; left; reflexivity | attrs_tac Epc | local_tac U nown HC t Epc ].
