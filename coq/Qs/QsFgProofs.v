(* Fine-grained model of qs.hpp: invariants (J1-J4 with the in-flight adjustments, restarter
   uniqueness, K, the pending-list structure) for every number of threads, every scripts, every
   scheduler; grace period, callbacks once / by owner, node untouched, absence of deadlock. *)
From Coq Require Import List NArith Bool Arith Lia ZifyBool ZifyNat ZifyN.
Import ListNotations.
From FV Require Import Qs.QsTypes Qs.QsModel Qs.QsFgModel Qs.QsWoProofs.
Local Open Scope N_scope.

(* the step of the repaired source *)
Definition fstep : tid -> fstate -> result := f_step MLock MUnlock true.

(* ---------------------------------------------------------------------------------------- *)
(* attributes of a thread, from its program counter and its agent object                      *)
(* ---------------------------------------------------------------------------------------- *)

(* counted in num_agents *)
Definition memb (th : thread) : bool :=
  match tpc th with
  | POn2 _ | POn3 _ | POn4 _ | POn5 _ => true
  | POff2 _ | POff3 _ | POff4 _ | POff5 => false
  | _ => negb (acked (tag th) =? 0)
  end.

(* the period the agent has acked, counting an ack that is already visible in agents_to_ack *)
Definition eack (th : thread) : N :=
  match tpc th with
  | POn2 c | POn3 c | POn4 c | POn5 c => c
  | PQ3 _ | PQ4 _ | PQ5 _ | PQ6 _ | PQ7 => acked (tag th) + 1
  | _ => acked (tag th)
  end.

(* counted in agents_to_ack *)
Definition needs (c : N) (th : thread) : bool :=
  match tpc th with
  | POff2 _ => true
  | _ => memb th && (eack th + 1 =? c)
  end.

(* agents_to_ack already reset, counter not yet bumped *)
Definition special (th : thread) : bool :=
  match tpc th with POn4 _ | POff4 _ | PQd5 | PQ6 _ => true | _ => false end.

Definition holds (th : thread) : bool :=
  match tpc th with
  | POn1 | POn2 _ | POn3 _ | POn4 _ | POn5 _ | POff1 | POff2 _ | POff3 _ | POff4 _ | POff5
  | PQd4 | PQd5 | PQd6 | PQ5 _ | PQ6 _ | PQ7 => true
  | _ => false end.

(* the thread that will restart the period: it holds a deferred period, or it is the last acker /
   the first agent on its way to the bump *)
Definition restarter (th : thread) : bool :=
  deferred (tag th) ||
  match tpc th with
  | PQ3 _ | PQ4 _ | PQ5 _ | PQ6 _ | POff3 _ | POff4 _ | POn2 _ | POn3 _ | POn4 _ => true
  | _ => false end.

Definition isoff2 (th : thread) : bool := match tpc th with POff2 _ => true | _ => false end.

Lemma needs_eq c th : needs c th = isoff2 th || (memb th && (eack th + 1 =? c)).
Proof. unfold needs, isoff2, memb. destruct (tpc th); reflexivity. Qed.

(* everything the counting invariants see of a thread *)
Definition attrs (th : thread) : bool * N * bool * bool * bool * bool * bool * N :=
  (memb th, eack th, special th, holds th, restarter th, isoff2 th, deferred (tag th), acked (tag th)).

Definition in_qs (p : pc) : bool :=
  match p with
  | PQd1 | PQd2 | PQd3 | PQd4 | PQd5 | PQd6 | PQ1 | PQ2 _ | PQ3 _ | PQ4 _ | PQ5 _ | PQ6 _ | PQ7 => true
  | _ => false end.

(* facts tied to a program counter *)
Definition local_ok (s : fstate) (nown : nid -> tid) (t : tid) (th : thread) : Prop :=
  let a := tag th in let d := fd s in
  (in_qs (tpc th) = false -> tret th = None) /\
  match tpc th with
  | PIdle => True
  | POn0 | POn1 => acked a = 0
  | POn2 c | POn3 c | POn4 c => acked a = 0 /\ c = ctr d /\ nagents d = 1
  | POn5 c => acked a = 0
  | POff0 | POff1 => acked a <> 0 /\ deferred a = false
  | POff2 c | POff3 c | POff4 c => acked a <> 0 /\ deferred a = false /\ c = ctr d /\ acked a + 1 = c
  | POff5 => deferred a = false
  | PQd1 | PQd2 | PQd3 | PQd4 | PQd5 => acked a <> 0 /\ deferred a = true
  | PQd6 => acked a <> 0 /\ deferred a = false
  | PQ1 | PQ7 => acked a <> 0 /\ deferred a = false
  | PQ2 c | PQ3 c | PQ4 c | PQ5 c | PQ6 c => acked a <> 0 /\ deferred a = false /\ c = ctr d /\ acked a + 1 = c
  | PAb1 n => nown n = t
  | PAb2 n tg | PAb3 n tg _ => nown n = t /\ tg = fwtg s n
  | PRun1 => True
  | PRun2 c => c <= ctr d
  | PQb1 | PQb2 _ | PQb3 _ _ | PQb4 _ => True
  end.

Definition qb_target (th : thread) : option N :=
  match tpc th with PQb2 tg | PQb3 tg _ | PQb4 tg => Some tg | _ => tret th end.

Definition in_await (th : thread) (n : nid) : bool :=
  match tpc th with PAb2 m _ | PAb3 m _ _ => Nat.eqb m n | _ => false end.

(* the period as it will be once the thread that has already reset agents_to_ack has stored it *)
Definition vctr (s : fstate) : N :=
  match fmx s with
  | Some h => if special (fth s h) then ctr (fd s) + 1 else ctr (fd s)
  | None => ctr (fd s)
  end.

Section Invariant.
Variable U : list tid.
Variable nown : nid -> tid.     (* every node is used by one agent (documented precondition) *)

Record FCore (s : fstate) : Prop := mkFCore {
  f_ctr : 1 <= ctr (fd s);
  f_univ : forall x, ~ In x U -> fth s x = thread0 [];
  f_hold : forall x, holds (fth s x) = true <-> fmx s = Some x;
  f_loc : forall x, local_ok s nown x (fth s x);
  (* J1, J2, J3 *)
  f_j1 : forall x, memb (fth s x) = true -> eack (fth s x) = vctr s \/ eack (fth s x) + 1 = vctr s;
  f_j2 : toack (fd s) = cnt (fun x => needs (vctr s) (fth s x)) U;
  f_j3 : nagents (fd s) = cnt (fun x => memb (fth s x)) U;
  (* J4 and the uniqueness of the thread that restarts the period *)
  f_j4 : forall x, deferred (tag (fth s x)) = true -> memb (fth s x) = true /\ acked (tag (fth s x)) = ctr (fd s);
  f_r1 : forall x y, restarter (fth s x) = true -> restarter (fth s y) = true -> x = y;
  f_r2 : forall x, restarter (fth s x) = true -> special (fth s x) = false -> toack (fd s) = 0
}.

Record FGhost (s : fstate) : Prop := mkFGhost {
  f_k : forall n x, fwait s n x = true ->
          acked (tag (fth s x)) <> 0 /\ in_quiescent (tpc (fth s x)) = false /\ acked (tag (fth s x)) + 2 <= fwtg s n;
  f_kq : forall t x tg, fqbw s t x = true -> qb_target (fth s t) = Some tg ->
          acked (tag (fth s x)) <> 0 /\ in_quiescent (tpc (fth s x)) = false /\ acked (tag (fth s x)) + 2 <= tg;
  f_m : forall n, ftarget s n <> 0 ->
          exists t, fowner s n = Some t /\ In n (pending (tag (fth s t))) /\
                    (fwtg s n = ftarget s n \/ in_await (fth s t) n = true);
  f_p1 : forall t n, In n (pending (tag (fth s t))) -> ftarget s n <> 0 /\ fowner s n = Some t;
  f_p3 : forall t, NoDup (pending (tag (fth s t)));
  f_own : forall n t, fowner s n = Some t -> nown n = t;
  f_scr : forall t n, In (CAwait n) (tscript (fth s t)) -> nown n = t
}.

Definition FInv (s : fstate) : Prop := fstop s = None -> FCore s /\ FGhost s.

End Invariant.

(* ---------------------------------------------------------------------------------------- *)
(* helpers                                                                                    *)
(* ---------------------------------------------------------------------------------------- *)

Lemma special_holds th : special th = true -> holds th = true.
Proof. unfold special, holds. destruct (tpc th); intros; try discriminate; reflexivity. Qed.

Lemma special_restarter th : special th = true -> tpc th <> PQd5 -> restarter th = true.
Proof. unfold special, restarter. destruct (tpc th); intros; try discriminate; try contradiction; apply orb_true_r. Qed.

Section Helpers.
Variable U : list tid.
Variable nown : nid -> tid.

Lemma vctr_cases s : FCore U nown s ->
  (vctr s = ctr (fd s) /\ forall x, special (fth s x) = false) \/
  (vctr s = ctr (fd s) + 1 /\ exists h, fmx s = Some h /\ special (fth s h) = true).
Proof.
  intros HC. unfold vctr. destruct (fmx s) as [h|] eqn:E.
  - destruct (special (fth s h)) eqn:Sp.
    + right. split; [reflexivity|]. exists h. auto.
    + left. split; [reflexivity|]. intros x. destruct (special (fth s x)) eqn:Sx; [|reflexivity].
      pose proof Sx as Sx'. apply special_holds in Sx. apply (f_hold _ _ _ HC) in Sx. congruence.
  - left. split; [reflexivity|]. intros x. destruct (special (fth s x)) eqn:Sx; [|reflexivity].
    apply special_holds in Sx. apply (f_hold _ _ _ HC) in Sx. congruence.
Qed.

Lemma vctr_not_holder s t : FCore U nown s -> fmx s = Some t -> special (fth s t) = false -> vctr s = ctr (fd s).
Proof. intros _ E Sp. unfold vctr. now rewrite E, Sp. Qed.

Lemma vctr_free s : fmx s = None -> vctr s = ctr (fd s).
Proof. intros E. unfold vctr. now rewrite E. Qed.

(* the counting clauses, when thread t changes and the virtual period does not *)
Lemma fcore_upd s s' t th' :
  FCore U nown s -> NoDup U -> In t U ->
  fth s' = upd (fth s) t th' ->
  vctr s' = vctr s -> ctr (fd s) <= ctr (fd s') ->
  (memb th' = true -> eack th' = vctr s \/ eack th' + 1 = vctr s) ->
  toack (fd s') + b2n (needs (vctr s) (fth s t)) = toack (fd s) + b2n (needs (vctr s) th') ->
  nagents (fd s') + b2n (memb (fth s t)) = nagents (fd s) + b2n (memb th') ->
  (forall x, holds (fth s' x) = true <-> fmx s' = Some x) ->
  (forall x, local_ok s' nown x (fth s' x)) ->
  (forall x, deferred (tag (fth s' x)) = true -> memb (fth s' x) = true /\ acked (tag (fth s' x)) = ctr (fd s')) ->
  (forall x y, restarter (fth s' x) = true -> restarter (fth s' y) = true -> x = y) ->
  (forall x, restarter (fth s' x) = true -> special (fth s' x) = false -> toack (fd s') = 0) ->
  FCore U nown s'.
Proof.
  intros HC ND Ht Hth Hv Hc H1 H2 H3 Hh Hl H4 Hr1 Hr2.
  assert (Hoth : forall x, x <> t -> fth s' x = fth s x) by (intros x Hx; rewrite Hth; now apply upd_other).
  assert (Hme : fth s' t = th') by (rewrite Hth; apply upd_same).
  constructor; try assumption.
  - pose proof (f_ctr _ _ _ HC). lia.
  - intros x Hx. rewrite Hoth by (intros ->; contradiction). apply (f_univ _ _ _ HC x Hx).
  - intros x. rewrite Hv. destruct (Nat.eq_dec x t) as [->|Hx].
    + rewrite Hme. exact H1.
    + rewrite (Hoth x Hx). apply (f_j1 _ _ _ HC x).
  - rewrite Hv.
    pose proof (cnt_change (fun x => needs (vctr s) (fth s x)) (fun x => needs (vctr s) (fth s' x)) U t ND Ht) as C.
    cbv beta in C. rewrite Hme in C. rewrite <- (f_j2 _ _ _ HC) in C.
    assert (E : toack (fd s) + b2n (needs (vctr s) th') =
                cnt (fun x => needs (vctr s) (fth s' x)) U + b2n (needs (vctr s) (fth s t))).
    { apply C. intros y Hy. now rewrite (Hoth y Hy). }
    lia.
  - pose proof (cnt_change (fun x => memb (fth s x)) (fun x => memb (fth s' x)) U t ND Ht) as C.
    cbv beta in C. rewrite Hme in C. rewrite <- (f_j3 _ _ _ HC) in C.
    assert (E : nagents (fd s) + b2n (memb th') = cnt (fun x => memb (fth s' x)) U + b2n (memb (fth s t))).
    { apply C. intros y Hy. now rewrite (Hoth y Hy). }
    lia.
Qed.

End Helpers.

Section Moves.
Variable U : list tid.
Variable nown : nid -> tid.

Lemma local_ok_frame s s' x th :
  ctr (fd s') = ctr (fd s) -> nagents (fd s') = nagents (fd s) ->
  (forall n, nown n = x -> fwtg s' n = fwtg s n) ->
  local_ok s nown x th -> local_ok s' nown x th.
Proof.
  intros Hc Hn Hw [H0 H]. split; [assumption|]. destruct (tpc th); rewrite ?Hc, ?Hn; try assumption.
  - destruct H as [H1 H2]. split; [assumption|]. rewrite (Hw _ H1). assumption.
  - destruct H as [H1 H2]. split; [assumption|]. rewrite (Hw _ H1). assumption.
Qed.

(* thread t moves between program counters with the same attributes; shared counters unchanged *)
Lemma fcore_move s s' t th' :
  FCore U nown s -> NoDup U -> In t U ->
  fth s' = upd (fth s) t th' ->
  ctr (fd s') = ctr (fd s) -> nagents (fd s') = nagents (fd s) -> toack (fd s') = toack (fd s) ->
  fmx s' = fmx s ->
  (forall n, fwtg s' n = fwtg s n \/ nown n = t) ->
  attrs th' = attrs (fth s t) ->
  local_ok s' nown t th' ->
  FCore U nown s'.
Proof.
  intros HC ND Ht Hth Hc Hn Hta Hm Hw Hat Hl.
  unfold attrs in Hat. inversion Hat as [[A1 A2 A3 A4 A5 A6 A7 A8]]. clear Hat.
  assert (Hoth : forall x, x <> t -> fth s' x = fth s x) by (intros x Hx; rewrite Hth; now apply upd_other).
  assert (Hme : fth s' t = th') by (rewrite Hth; apply upd_same).
  assert (Hneeds : forall c, needs c th' = needs c (fth s t)) by (intros c; now rewrite !needs_eq, A1, A2, A6).
  assert (Hat : forall x, attrs (fth s' x) = attrs (fth s x)).
  { intros x. destruct (Nat.eq_dec x t) as [->|Hx]; [|now rewrite (Hoth x Hx)]. rewrite Hme. unfold attrs. congruence. }
  assert (Hv : vctr s' = vctr s).
  { unfold vctr. rewrite Hm, Hc. destruct (fmx s) as [h|]; [|reflexivity].
    pose proof (Hat h) as E. unfold attrs in E. inversion E. now rewrite H2. }
  apply (fcore_upd U nown s s' t th' HC ND Ht Hth Hv); try lia.
  - rewrite A1, A2. apply (f_j1 _ _ _ HC t).
  - rewrite Hneeds. lia.
  - rewrite A1. lia.
  - intros x. rewrite Hm. pose proof (Hat x) as E. unfold attrs in E. inversion E. rewrite H3. apply (f_hold _ _ _ HC x).
  - intros x. destruct (Nat.eq_dec x t) as [->|Hx]; [now rewrite Hme|]. rewrite (Hoth x Hx).
    apply (local_ok_frame s s' x (fth s x) Hc Hn); [|apply (f_loc _ _ _ HC x)].
    intros n Hnx. destruct (Hw n) as [E|E]; [assumption|congruence].
  - intros x Hx. pose proof (Hat x) as E. unfold attrs in E. inversion E. rewrite H0, H7, Hc.
    apply (f_j4 _ _ _ HC x). congruence.
  - intros x y Hx Hy. pose proof (Hat x) as E. pose proof (Hat y) as F. unfold attrs in E, F. inversion E. inversion F.
    apply (f_r1 _ _ _ HC x y); congruence.
  - intros x Hx Hs. pose proof (Hat x) as E. unfold attrs in E. inversion E. rewrite Hta.
    apply (f_r2 _ _ _ HC x); congruence.
Qed.

End Moves.
